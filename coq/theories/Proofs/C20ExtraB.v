(* C20, additional theorems (B): the WIRE.

   Seed C20-4 (fetch_topic_offsets reloads, by name, a topic it holds no available partition for - also a topic
   that is not loaded at all) is covered by Props/C20.v: the mirrored change of Model.Client.fetch_topic_offsets
   falsifies C20_topic_offsets_unknown (checked in a scratch copy: with the changed definition
     exists topic time x, partitions_for (cs (cl x)) topic = None /\
       fetch_topic_offsets topic time x <> (Err (EKafka KC_UnknownTopicOrPartition), bump_corr x)
   is proved by the witness (tag "nope", -1, c20_st 1); the call then writes a Metadata request naming "nope")
   and it also falsifies C20_only_metadata_calls_change_metadata (operation OpFetchTopicOffsets).

   What Props/C20.v did not have is the statement of the property at the place where it is OBSERVED
   ("topic and partition names in every request decoded by the reference brokers"): the theorems there speak
   about the request lists built from the state (offset_reqs, fetch_reqs, ...), or about a call being equal to
   an exchange of such a list; none says what the bytes are that a call hands to the transport.  In particular
   a change that makes some operation send an ADDITIONAL request (as seed C20-4 does, or a lookup placed inside
   one of the exchange loops) is only caught when the operation happens to have an equational theorem.

   Part 1  `data_request K p`: p is the encoding of a Produce / Fetch / Offset / ListOffsets / OffsetCommit /
           OffsetFetch request all of whose (topic, partition) entries satisfy K, or of a GroupCoordinator
           request (which names no topic).  No such p is the encoding of a Metadata request.
   Part 2  C20_wire_names_only_known: for EVERY public non-metadata operation, every script, every outcome
           (success, error at any point, panic): the events performed during the call split into events that
           are not writes and groups "the whole frame of a `data_request (known <state at call time>)`, followed
           by re-offered tails of that frame to the same host" (`sends`; write_all re-offers the unwritten rest
           after a short or interrupted write).  Consequences: every buffer written is a tail of such a frame
           (C20_wire_every_write); a write that follows a connect / read / shutdown IS such a frame
           (C20_wire_whole_frames); no operation writes a framed Metadata request after a non-write event
           (C20_wire_no_metadata_lookup - exactly what the changed fetch_topic_offsets of seed C20-4 does:
           EConnect h0, EWrite h0 (frame (Metadata ["nope"])), ERead h0 4).
   Part 3  C20_load_wire / C20_load_all_wire / C20_reset_wire: the explicit loads write Metadata requests naming
           exactly the topics they were given (load_metadata_all: none), and nothing else; a reset writes nothing.
   Part 4  C20_wire_history: Part 2 after any sequence of metadata calls, against the replayed metadata.

   Not done: (1) the invariant is about partition ENTRIES: a topic entry with an empty partition list would
   pass (the builders never produce one: tp_add / fetch_add / produce_add always insert an entry; proved for
   commit / group fetch in C20_commit_known, not restated here for the others).  (2) `data_request` is stated
   through the encoders (exists arguments such that enc .. = Ok p), not through a decoder of requests.
   (3) Consumer / Producer front ends (Model.Consumer / Model.Producer) are not composed up to here. *)
From Coq Require Import ZifyBool Sorting.Permutation.
From KV Require Import Base.Prelude Gen.Consts Model.Codecs Model.Requests Model.Responses
                       Model.ClientState Model.Net Model.Client.
From KV Require Import Proofs.BytesFacts Proofs.NetFacts.
From KV Require Import Proofs.C20Facts Proofs.C20Extra Proofs.C20Extra2.

(* ================================================================================================== *)
(* Part 1: the requests that name only entries satisfying K                                             *)
(* ================================================================================================== *)
Definition names_known {P} (K : bytes -> Z -> Prop) (pid : P -> Z) (tps : list (bytes * list P)) : Prop :=
  forall t ps e, In (t, ps) tps -> In e ps -> K t (pid e).

Inductive data_request (K : bytes -> Z -> Prop) : bytes -> Prop :=
| dr_offset corr cid tps p :
    enc_offset_req corr cid tps = Ok p -> names_known K fst tps -> data_request K p
| dr_list_offsets corr cid tps p :
    enc_list_offsets_req corr cid tps = Ok p -> names_known K fst tps -> data_request K p
| dr_fetch corr cid max_wait min_bytes (tps : fetch_tps) p :
    enc_fetch_req corr cid max_wait min_bytes tps = Ok p -> names_known K fst tps -> data_request K p
| dr_produce cz corr cid acks timeout compr (tps : produce_tps) p :
    enc_produce_req cz corr cid acks timeout compr tps = Ok p -> names_known K fst tps -> data_request K p
| dr_coordinator corr cid group p :
    enc_group_coordinator_req corr cid group = Ok p -> data_request K p
| dr_commit corr cid group version tps p :
    enc_offset_commit_req corr cid group version tps = Ok p -> names_known K fst tps -> data_request K p
| dr_group_fetch corr cid group version tps p :
    enc_offset_fetch_req corr cid group version tps = Ok p -> names_known K (fun q : Z => q) tps ->
    data_request K p.

(* what is handed to the transport.  `send` offers the whole frame first; after a short or interrupted write
   write_all re-offers the unwritten tail to the same host.  `sends Q l`: the event list l splits into events
   that are not writes and groups "the whole frame of a request satisfying Q, then tails of that frame,
   to the same host". *)
Definition tail_of (h : bytes) (b : bytes) (e : ev_op) : Prop := exists pre b1, e = EWrite h b1 /\ b = pre ++ b1.

Inductive sends (Q : bytes -> Prop) : list ev_op -> Prop :=
| sends_nil : sends Q []
| sends_other e l : not_write e -> sends Q l -> sends Q (e :: l)
| sends_frame h p tails l : Q p -> Forall (tail_of h (frame p)) tails -> sends Q l ->
    sends Q (EWrite h (frame p) :: tails ++ l).

Definition wire_rel (Q : bytes -> Prop) (s s' : st) : Prop := ext s s' /\ sends Q (performed s s').

Lemma sends_app Q l1 l2 : sends Q l1 -> sends Q l2 -> sends Q (l1 ++ l2).
Proof.
  intros H1 H2. induction H1 as [|e l He Hl IH|h p tails l Hp Ht Hl IH]; cbn [app].
  - exact H2.
  - apply sends_other; [exact He|exact IH].
  - rewrite <- app_assoc. apply sends_frame; [exact Hp|exact Ht|exact IH].
Qed.

Lemma sends_not_write Q l : Forall not_write l -> sends Q l.
Proof. induction 1 as [|e l He Hl IH]; [apply sends_nil|apply sends_other; assumption]. Qed.

Lemma sends_mono (Q Q' : bytes -> Prop) l : (forall p, Q p -> Q' p) -> sends Q l -> sends Q' l.
Proof.
  intros HQ H. induction H as [|e l He Hl IH|h p tails l Hp Ht Hl IH].
  - apply sends_nil.
  - apply sends_other; assumption.
  - apply sends_frame; [apply HQ; exact Hp|exact Ht|exact IH].
Qed.

Lemma preorder_wire_rel Q : preorder (wire_rel Q).
Proof.
  split.
  - intros s. split; [apply ext_refl|]. rewrite performed_refl. apply sends_nil.
  - intros s s1 s2 [E1 F1] [E2 F2]. split; [eapply ext_trans; eassumption|].
    rewrite (performed_app _ _ _ E1 E2). apply sends_app; assumption.
Qed.

(* every write is (a tail of) the frame of a request satisfying Q ... *)
Lemma sends_writes Q l : sends Q l -> forall h b, In (EWrite h b) l -> exists p pre, Q p /\ frame p = pre ++ b.
Proof.
  induction 1 as [|e l He Hl IH|h0 p tails l Hp Ht Hl IH]; intros h b Hin.
  - destruct Hin.
  - destruct Hin as [->|Hin]; [destruct He|apply (IH h b Hin)].
  - destruct Hin as [Hin|Hin].
    + injection Hin as _ <-. exists p, []. split; [exact Hp|reflexivity].
    + apply in_app_or in Hin. destruct Hin as [Hin|Hin]; [|apply (IH h b Hin)].
      rewrite Forall_forall in Ht. destruct (Ht _ Hin) as (pre & b1 & He & Hf).
      injection He as _ <-. exists p, pre. split; [exact Hp|exact Hf].
Qed.

(* ... and a write that comes first, or right after an event that is not a write (a connect, a read, a
   shutdown), is the WHOLE frame of such a request *)
Lemma split_after_writes {h0 b0} (tails l0 pre : list ev_op) e rest :
  Forall (tail_of h0 b0) tails -> not_write e -> tails ++ l0 = pre ++ e :: rest ->
  exists pre', l0 = pre' ++ e :: rest.
Proof.
  intros Ht He. revert pre. induction Ht as [|t ts Htl Hts IH]; intros pre Heq; cbn [app] in Heq.
  - exists pre. exact Heq.
  - destruct pre as [|a pre']; cbn [app] in Heq.
    + injection Heq as -> _. destruct Htl as (pr & b1 & -> & _). destruct He.
    + injection Heq as _ Heq. apply (IH pre' Heq).
Qed.

Lemma sends_first Q l h b : sends Q (EWrite h b :: l) -> exists p, Q p /\ b = frame p.
Proof.
  intros H. inversion H as [|e l0 He Hl|h0 p tails l0 Hp Ht Hl]; subst.
  - destruct He.
  - exists p. split; [exact Hp|reflexivity].
Qed.

Lemma sends_after_non_write Q l : sends Q l -> forall pre e h b rest,
  l = pre ++ e :: EWrite h b :: rest -> not_write e -> exists p, Q p /\ b = frame p.
Proof.
  induction 1 as [|e0 l He0 Hl IH|h0 p tails l Hp Ht Hl IH]; intros pre e h b rest Heq He.
  - destruct pre; discriminate Heq.
  - destruct pre as [|a pre']; cbn [app] in Heq.
    + injection Heq as -> ->. apply (sends_first Q rest h b Hl).
    + injection Heq as _ Heq. apply (IH pre' e h b rest Heq He).
  - destruct pre as [|a pre']; cbn [app] in Heq.
    + injection Heq as <- _. destruct He.
    + injection Heq as _ Heq.
      destruct (split_after_writes tails l pre' e (EWrite h b :: rest) Ht He Heq) as [pre'' Hl0].
      apply (IH pre'' e h b rest Hl0 He).
Qed.

Definition wire_ok (K : bytes -> Z -> Prop) : list ev_op -> Prop := sends (data_request K).

(* ---- api keys: a data request is never a metadata request --------------------------------------------- *)
Lemma header_key key ver corr cid h rest : enc_header key ver corr cid = Ok h -> firstn 2 (h ++ rest) = enc_i16 key.
Proof.
  unfold enc_header. destruct (enc_str cid) as [c|e|w]; cbn [bind]; try discriminate.
  intros H. injection H as <-. reflexivity.
Qed.

Ltac key_tac H :=
  repeat match type of H with
         | bind ?x _ = Ok _ =>
             let E := fresh "E" in destruct x eqn:E; cbn [bind] in H; try discriminate H
         end;
  injection H as <-;
  match goal with E : enc_header _ _ _ _ = Ok _ |- _ => apply (header_key _ _ _ _ _ _ E) end.

Definition data_keys : list Z :=
  [API_KEY_PRODUCE; API_KEY_FETCH; API_KEY_OFFSET; API_KEY_OFFSET_COMMIT; API_KEY_OFFSET_FETCH; API_KEY_GROUP_COORDINATOR].

Theorem C20_data_request_key : forall K p, data_request K p -> exists key, In key data_keys /\ firstn 2 p = enc_i16 key.
Proof.
  intros K p H. destruct H as [corr cid tps p H _|corr cid tps p H _|corr cid w m tps p H _
                              |cz corr cid acks tm compr tps p H _|corr cid g p H|corr cid g v tps p H _
                              |corr cid g v tps p H _].
  - exists API_KEY_OFFSET. split; [right; right; left; reflexivity|]. unfold enc_offset_req in H. key_tac H.
  - exists API_KEY_OFFSET. split; [right; right; left; reflexivity|]. unfold enc_list_offsets_req in H. key_tac H.
  - exists API_KEY_FETCH. split; [right; left; reflexivity|]. unfold enc_fetch_req in H. key_tac H.
  - exists API_KEY_PRODUCE. split; [left; reflexivity|]. unfold enc_produce_req in H. key_tac H.
  - exists API_KEY_GROUP_COORDINATOR. split; [do 5 right; left; reflexivity|].
    unfold enc_group_coordinator_req in H. key_tac H.
  - exists API_KEY_OFFSET_COMMIT. split; [do 3 right; left; reflexivity|]. unfold enc_offset_commit_req in H.
    destruct (negb ((v =? OFFSET_COMMIT_V0) || (v =? OFFSET_COMMIT_V1) || (v =? OFFSET_COMMIT_V2))); [discriminate H|].
    key_tac H.
  - exists API_KEY_OFFSET_FETCH. split; [do 4 right; left; reflexivity|]. unfold enc_offset_fetch_req in H. key_tac H.
Qed.

Theorem C20_data_request_not_metadata : forall K p corr cid topics,
  data_request K p -> enc_metadata_req corr cid topics <> Ok p.
Proof.
  intros K p corr cid topics Hd Hm.
  assert (Hk : firstn 2 p = enc_i16 API_KEY_METADATA) by (unfold enc_metadata_req in Hm; key_tac Hm).
  destruct (C20_data_request_key K p Hd) as (key & Hin & Hkey). rewrite Hk in Hkey.
  unfold data_keys in Hin. cbn [In] in Hin.
  destruct Hin as [<-|[<-|[<-|[<-|[<-|[<-|[]]]]]]]; vm_compute in Hkey; discriminate Hkey.
Qed.

(* ================================================================================================== *)
(* Part 2: every write of every non-metadata operation                                                  *)
(* ================================================================================================== *)
Lemma quiet_ops (Q : bytes -> Prop) s s' : script s' = script s -> trace s' = trace s -> wire_rel Q s s'.
Proof.
  intros H1 H2. assert (Hs : seg s s' [] []) by (split; cbn [app rev]; congruence).
  split; [exists [], []; exact Hs|]. rewrite (seg_performed _ _ _ _ Hs). apply sends_nil.
Qed.

(* write_all: the buffers offered are the buffer itself, then tails of it *)
Lemma tail_of_skipn h b n e : tail_of h (skipn n b) e -> tail_of h b e.
Proof.
  intros (pre & b1 & He & Hb). exists (firstn n b ++ pre), b1. split; [exact He|].
  rewrite <- app_assoc, <- Hb. symmetry. apply firstn_skipn.
Qed.

Lemma wsteps_tails h b ops outs chunks b' : wsteps h b ops outs chunks b' ->
  Forall (tail_of h b) (ops ++ [EWrite h b'])
  /\ ((ops = [] /\ b' = b) \/ exists tl, ops = EWrite h b :: tl).
Proof.
  induction 1 as [b|b k ops outs chunks b' Hne Hk Hw [IH _]|b ops outs chunks b' Hne Hw [IH _]].
  - split; [|left; split; reflexivity]. constructor; [|constructor]. exists [], b. split; reflexivity.
  - split; [|right; exists ops; reflexivity]. cbn [app]. constructor; [exists [], b; split; reflexivity|].
    eapply Forall_impl; [|exact IH]. intros e. apply tail_of_skipn.
  - split; [|right; exists ops; reflexivity]. cbn [app]. constructor; [exists [], b; split; reflexivity|exact IH].
Qed.

Lemma write_all_sends (Q : bytes -> Prop) fuel h p s r s' : Q p -> write_all fuel h (frame p) s = (r, s') -> wire_rel Q s s'.
Proof.
  intros Hp H. destruct (write_all_run _ _ _ _ _ _ H) as [_ (ops & outs & chunks & b' & Hw & He)].
  destruct (wsteps_tails _ _ _ _ _ _ Hw) as [Hall Hshape].
  assert (Hops : sends Q ops).
  { destruct Hshape as [[-> _]|[tl ->]]; [apply sends_nil|].
    rewrite <- (app_nil_r tl). apply sends_frame; [exact Hp| |apply sends_nil].
    cbn [app] in Hall. inversion Hall as [|x y _ Hrest]; subst. apply Forall_app in Hrest. apply Hrest. }
  assert (Hops' : sends Q (ops ++ [EWrite h b'])).
  { destruct Hshape as [[-> ->]|[tl ->]].
    - cbn [app]. apply (sends_frame Q h p [] []); [exact Hp|constructor|apply sends_nil].
    - cbn [app]. rewrite <- (app_nil_r (tl ++ [EWrite h b'])). apply sends_frame; [exact Hp| |apply sends_nil].
      cbn [app] in Hall. inversion Hall; subst. assumption. }
  split; [eapply write_end_seg; exact He|].
  destruct He as [Hr Hb Hs|o Hb Hbad Hs|Hb Hr Hd Hs|Hb Hr Hf Hs]; rewrite (seg_performed _ _ _ _ Hs); assumption.
Qed.

Section WireGen.
  Variable Q : bytes -> Prop.
  Local Notation R := (wire_rel Q).
  Let HR : preorder R := preorder_wire_rel Q.

  Ltac kb := apply keeps_bind; [exact HR| |].

  Lemma wq_send h p : Q p -> keeps R (send h (frame p)).
  Proof.
    intros Hp. unfold send. kb; [|intros _; apply keeps_ret; exact HR].
    apply keeps_with_fuel. intros n s r s' H. apply (write_all_sends Q n h p s r s' Hp H).
  Qed.

  Lemma wq_send_request h payload :
    (forall p, payload = Ok p -> Q p) -> keeps R (send_request h payload).
  Proof.
    intros Hp s r s' H. unfold send_request in H. destruct payload as [p|e|w].
    - change (send h (frame p) s = (r, s')) in H. apply (wq_send h p (Hp p eq_refl) _ _ _ H).
    - cbv beta iota delta [mbind lift] in H. injection H as _ <-. apply HR.
    - cbv beta iota delta [mbind lift] in H. injection H as _ <-. apply HR.
  Qed.

  Lemma wq_of_not_write {A} (P : ev_op -> Prop) (m : M A) :
    (forall e, P e -> not_write e) -> keeps (ops_in P) m -> keeps R m.
  Proof.
    intros HP Hm s r s' H. destruct (Hm s r s' H) as [He Hall]. split; [exact He|].
    apply sends_not_write. eapply Forall_impl; [exact HP|exact Hall].
  Qed.

  Lemma wq_get_conn h : keeps R (get_conn h).
  Proof. apply (wq_of_not_write (conn_event h)); [|apply ops_get_conn]. intros e [-> | ->]; exact I. Qed.
  Lemma wq_get_response {A} (d : dec A) h : keeps R (get_response d h).
  Proof. apply (wq_of_not_write (read_event h)); [|apply ops_get_response]. intros e [n ->]. exact I. Qed.
  Lemma wq_get_response_bytes h : keeps R (get_response_bytes h).
  Proof. apply (wq_of_not_write (read_event h)); [|apply ops_get_response_bytes]. intros e [n ->]. exact I. Qed.
  Lemma wq_get_conn_any : keeps R get_conn_any.
  Proof. apply (wq_of_not_write not_write); [|apply ops_get_conn_any]. intros e He. exact He. Qed.

  Lemma wq_set_cs x : keeps R (set_cs x).
  Proof.
    unfold set_cs. kb; [apply keeps_get_client; exact HR|]. intros c.
    apply keeps_set_client. intros s. apply quiet_ops; reflexivity.
  Qed.

  Lemma wq_next_corr : keeps R next_corr.
  Proof.
    unfold next_corr. kb; [apply keeps_get_client; exact HR|]. intros c.
    destruct (next_correlation_id (cs c)) as [n s0]. kb; [apply wq_set_cs|]. intros _. apply keeps_ret; exact HR.
  Qed.

  Lemma wq_send_receive {A} (d : dec A) h payload :
    (forall p, payload = Ok p -> Q p) -> keeps R (send_receive d h payload).
  Proof.
    intros Hp. unfold send_receive. kb; [apply wq_get_conn|]. intros _.
    kb; [apply wq_send_request; exact Hp|]. intros _. apply wq_get_response.
  Qed.

  Lemma wq_ordered {V} (reqs : list (bytes * V)) : keeps R (ordered reqs).
  Proof.
    intros s r s' H. assert (Hq : script s' = script s /\ trace s' = trace s).
    { unfold ordered in H. destruct reqs as [|q qs]; [injection H as _ <-; split; reflexivity|].
      unfold mbind, pop_hosts, ret in H. destruct (hostq s); injection H as _ <-; split; reflexivity. }
    apply quiet_ops; apply Hq.
  Qed.

  (* the per-host requests go out in some order: whatever holds for all of them holds for the ones sent *)
  Lemma wq_ordered_then {V B} (R0 : list (bytes * V)) (f : list (bytes * V) -> M B) :
    (forall reqs, (forall q, In q reqs -> In q R0) -> keeps R (f reqs)) -> keeps R (mbind (ordered R0) f).
  Proof.
    intros Hf s r s' H. bind_inv H reqs s1 H1 H2.
    - eapply (proj2 HR); [apply (wq_ordered _ _ _ _ H1)|]. refine (Hf reqs _ _ _ _ H2).
      intros q Hq. destruct (C20_ordered_same _ _ _ _ _ H1) as [Hperm _].
      eapply Permutation_in; [exact Hperm|exact Hq].
    - apply (wq_ordered _ _ _ _ H1).
    - apply (wq_ordered _ _ _ _ H1).
  Qed.

End WireGen.

Section Wire.
  Variable K : bytes -> Z -> Prop.
  Local Notation R := (wire_rel (data_request K)).
  Let HR : preorder R := preorder_wire_rel (data_request K).
  Ltac kb := apply keeps_bind; [exact HR| |].

  Definition wk_send_request := wq_send_request (data_request K).
  Definition wk_get_conn := wq_get_conn (data_request K).
  Definition wk_get_response {A} := @wq_get_response (data_request K) A.
  Definition wk_get_response_bytes := wq_get_response_bytes (data_request K).
  Definition wk_get_conn_any := wq_get_conn_any (data_request K).
  Definition wk_set_cs := wq_set_cs (data_request K).
  Definition wk_next_corr := wq_next_corr (data_request K).
  Definition wk_send_receive {A} := @wq_send_receive (data_request K) A.
  Definition wk_ordered_then {V B} := @wq_ordered_then (data_request K) V B.

  Lemma wk_offsets_exchange {P V} enc (d : dec (Z * list (bytes * list P))) (conv : P -> V + Z) pid :
    forall reqs m, (forall h tps p, In (h, tps) reqs -> enc tps = Ok p -> data_request K p) ->
    keeps R (offsets_exchange enc d conv pid reqs m).
  Proof.
    induction reqs as [|[h tps] r IH]; intros m Hreqs; cbn [offsets_exchange]; [apply keeps_ret; exact HR|].
    kb; [apply wk_send_receive; intros p; apply (Hreqs h tps p); left; reflexivity|].
    intros [c rtps]. kb; [apply keeps_lift; exact HR|]. intros m'. apply IH.
    intros h' tps' p Hin. apply (Hreqs h' tps' p). right. exact Hin.
  Qed.

  Lemma names_known_order_fetch o (tps : fetch_tps) : names_known K fst tps -> names_known K fst (order_fetch o tps).
  Proof.
    intros H t ps' e Hin He. destruct (C20_order_fetch_same o tps t ps' Hin) as [ps [Hin' Hperm]].
    apply (H t ps e Hin'). eapply Permutation_in; [exact Hperm|exact He].
  Qed.

  Lemma wk_fetch_exchange corr : forall reqs acc,
    (forall h (tps : fetch_tps), In (h, tps) reqs -> names_known K fst tps) -> keeps R (fetch_exchange corr reqs acc).
  Proof.
    induction reqs as [|[h tps] r IH]; intros acc Hreqs; cbn [fetch_exchange]; [apply keeps_ret; exact HR|].
    kb; [apply keeps_get_client; exact HR|]. intros c.
    kb; [apply keeps_get_env; exact HR|]. intros e.
    kb; [apply keeps_get_fetch_order; exact HR|]. intros fo. cbv zeta.
    kb; [apply wk_get_conn|]. intros _.
    kb; [apply wk_send_request|].
    { intros p Hp. eapply dr_fetch; [exact Hp|].
      assert (H0 : names_known K fst tps) by (apply (Hreqs h tps); left; reflexivity).
      destruct fo as [o|]; [apply names_known_order_fetch; exact H0|exact H0]. }
    intros _. kb; [apply wk_get_response_bytes|]. intros b.
    kb; [apply keeps_lift; exact HR|]. intros resp. apply IH.
    intros h' tps' Hin. apply (Hreqs h' tps'). right. exact Hin.
  Qed.

  Lemma wk_produce_exchange corr acks timeout : forall reqs acc,
    (forall h (tps : produce_tps), In (h, tps) reqs -> names_known K fst tps) ->
    keeps R (produce_exchange corr acks timeout reqs acc).
  Proof.
    induction reqs as [|[h tps] r IH]; intros acc Hreqs; cbn [produce_exchange]; [apply keeps_ret; exact HR|].
    kb; [apply keeps_get_client; exact HR|]. intros c.
    kb; [apply keeps_get_env; exact HR|]. intros e. cbv zeta.
    assert (Hp : forall p, enc_produce_req e corr (client_id (cfg c)) acks timeout (compression (cfg c)) tps = Ok p
                           -> data_request K p).
    { intros p Hp. eapply dr_produce; [exact Hp|]. apply (Hreqs h tps). left. reflexivity. }
    assert (Hr : forall h' (tps' : produce_tps), In (h', tps') r -> names_known K fst tps').
    { intros h' tps' Hin. apply (Hreqs h' tps'). right. exact Hin. }
    destruct (acks =? 0).
    - kb; [apply wk_get_conn|]. intros _. kb; [apply wk_send_request; exact Hp|]. intros _. apply IH. exact Hr.
    - kb; [apply wk_send_receive; exact Hp|]. intros [c0 rtps]. apply IH. exact Hr.
  Qed.

  (* ---- the group coordinator lookup: its request names no topic ------------------------------------- *)
  Lemma wk_group_lookup_attempt req :
    (forall p, req = Ok p -> data_request K p) -> keeps R (group_lookup_attempt req).
  Proof.
    intros Hreq. unfold group_lookup_attempt. kb; [apply wk_get_conn_any|].
    intros [h|]; [|apply keeps_mpanic; exact HR].
    kb; [apply wk_send_request; exact Hreq|]. intros _. apply wk_get_response.
  Qed.

  Lemma wk_group_lookup_loop group req : (forall p, req = Ok p -> data_request K p) ->
    forall fuel attempt, keeps R (group_lookup_loop fuel group req attempt).
  Proof.
    intros Hreq. induction fuel as [|f IH]; intros attempt; cbn [group_lookup_loop]; [apply keeps_fail; exact HR|].
    kb; [apply wk_group_lookup_attempt; exact Hreq|]. intros r.
    destruct (from_protocol (gc_error r)) as [code|].
    - destruct (code =? KC_GroupCoordinatorNotAvailable); [|apply keeps_fail; exact HR].
      kb; [apply keeps_get_client; exact HR|]. intros c.
      destruct (attempt <? retry_max_attempts (cfg c)); [apply IH|apply keeps_fail; exact HR].
    - kb; [apply keeps_get_client; exact HR|]. intros c.
      destruct (set_group_coordinator (cs c) group r) as [h s0].
      kb; [apply wk_set_cs|]. intros _. apply keeps_ret; exact HR.
  Qed.

  Lemma wk_get_group_coordinator group : keeps R (get_group_coordinator group).
  Proof.
    unfold get_group_coordinator. kb; [apply keeps_get_client; exact HR|]. intros c.
    destruct (group_coordinator (cs c) group) as [h|]; [apply keeps_ret; exact HR|].
    kb; [apply wk_next_corr|]. intros corr. apply keeps_with_fuel. intros n.
    apply wk_group_lookup_loop. intros p Hp. eapply dr_coordinator. exact Hp.
  Qed.

  Lemma wk_commit_loop group req : (forall p, req = Ok p -> data_request K p) ->
    forall fuel attempt, keeps R (commit_loop fuel group req attempt).
  Proof.
    intros Hreq. induction fuel as [|f IH]; intros attempt; cbn [commit_loop]; [apply keeps_fail; exact HR|].
    kb; [apply wk_get_group_coordinator|]. intros h.
    kb; [apply wk_send_receive; exact Hreq|]. intros [c0 tps].
    destruct (commit_scan tps) as [|code reset|code]; [apply keeps_ret; exact HR| |apply keeps_fail; exact HR].
    kb; [apply keeps_get_client; exact HR|]. intros c.
    kb; [destruct reset; [apply wk_set_cs|apply keeps_ret; exact HR]|]. intros _.
    destruct (attempt <? retry_max_attempts (cfg c)); [apply IH|apply keeps_fail; exact HR].
  Qed.

  Lemma wk_group_fetch_loop group req : (forall p, req = Ok p -> data_request K p) ->
    forall fuel attempt, keeps R (group_fetch_loop fuel group req attempt).
  Proof.
    intros Hreq. induction fuel as [|f IH]; intros attempt; cbn [group_fetch_loop]; [apply keeps_fail; exact HR|].
    kb; [apply wk_get_group_coordinator|]. intros h.
    kb; [apply wk_send_receive; exact Hreq|]. intros [c0 tps].
    destruct (group_scan tps []) as [[m|[code reset]]|code]; [apply keeps_ret; exact HR| |apply keeps_fail; exact HR].
    kb; [apply keeps_get_client; exact HR|]. intros c.
    kb; [destruct reset; [apply wk_set_cs|apply keeps_ret; exact HR]|]. intros _.
    destruct (attempt <? retry_max_attempts (cfg c)); [apply IH|apply keeps_fail; exact HR].
  Qed.
End Wire.

(* ---- the public operations, K := what is loaded when the call is made ---------------------------------- *)
Definition wire_known (x : st) : st -> st -> Prop := wire_rel (data_request (known (cs (cl x)))).

Lemma after_bump (Q : bytes -> Prop) x x' : wire_rel Q (bump_corr x) x' -> wire_rel Q x x'.
Proof.
  intros H. eapply (proj2 (preorder_wire_rel Q)); [|exact H]. apply quiet_ops; reflexivity.
Qed.

Lemma wire_fetch_offsets topics time x r x' :
  fetch_offsets topics time x = (r, x') -> wire_known x x x'.
Proof.
  intros H. destruct (C20_offsets_call topics time x) as [E _]. rewrite E in H. apply after_bump.
  revert H. apply wk_ordered_then. intros reqs Hin. apply wk_offsets_exchange.
  intros h tps p Hq Hp. eapply dr_offset; [exact Hp|]. intros t ps [q v] Ht He.
  apply (C20_offsets_known (cs (cl x)) topics time h tps t ps q v (Hin _ Hq) Ht He).
Qed.

Lemma wire_list_offsets topics time x r x' :
  list_offsets topics time x = (r, x') -> wire_known x x x'.
Proof.
  intros H. destruct (C20_offsets_call topics time x) as [_ E]. rewrite E in H. apply after_bump.
  revert H. apply wk_ordered_then. intros reqs Hin. apply wk_offsets_exchange.
  intros h tps p Hq Hp. eapply dr_list_offsets; [exact Hp|]. intros t ps [q v] Ht He.
  apply (C20_offsets_known (cs (cl x)) topics time h tps t ps q v (Hin _ Hq) Ht He).
Qed.

Lemma wire_fetch_topic_offsets topic time x r x' :
  fetch_topic_offsets topic time x = (r, x') -> wire_known x x x'.
Proof.
  intros H. unfold fetch_topic_offsets in H. bind_inv H m s1 H1 H2.
  - apply wire_fetch_offsets in H1.
    destruct (assoc_bytes topic m) as [[|v vs]|]; injection H2 as _ <-; exact H1.
  - apply (wire_fetch_offsets _ _ _ _ _ H1).
  - apply (wire_fetch_offsets _ _ _ _ _ H1).
Qed.

Lemma wire_fetch_messages input x r x' :
  fetch_messages input x = (r, x') -> wire_known x x x'.
Proof.
  intros H. rewrite C20_fetch_call in H. apply after_bump.
  revert H. apply wk_ordered_then. intros reqs Hin. apply wk_fetch_exchange.
  intros h tps Hq t ps [q v] Ht He.
  apply (C20_fetch_known (cl x) input h tps t ps q v (Hin _ Hq) Ht He).
Qed.

Lemma wire_internal_produce acks timeout msgs x r x' :
  internal_produce_messages acks timeout msgs x = (r, x') -> wire_known x x x'.
Proof.
  intros H. rewrite C20_produce_call in H. apply after_bump.
  destruct (produce_reqs (cs (cl x)) msgs []) as [reqs0|] eqn:E.
  - revert H. apply wk_ordered_then. intros reqs Hin. apply wk_produce_exchange.
    intros h tps Hq t ps [q ms] Ht He.
    apply (C20_produce_known (cs (cl x)) msgs reqs0 E h tps t ps q ms (Hin _ Hq) Ht He).
  - injection H as _ <-. apply (proj1 (preorder_wire_rel _)).
Qed.

Lemma wire_produce_messages acks ack_timeout msgs x r x' :
  produce_messages acks ack_timeout msgs x = (r, x') -> wire_known x x x'.
Proof.
  intros H. unfold produce_messages in H. bind_inv H tm s1 H1 H2.
  - unfold lift in H1. injection H1 as _ <-. apply (wire_internal_produce _ _ _ _ _ _ H2).
  - unfold lift in H1. injection H1 as _ <-. apply (proj1 (preorder_wire_rel _)).
  - unfold lift in H1. injection H1 as _ <-. apply (proj1 (preorder_wire_rel _)).
Qed.

Lemma unset_storage_quiet {A} (m : M A) x r x' :
  (let+ c := get_client in if offset_storage (cfg c) <? 0 then fail EUnsetOffsetStorage else m) x = (r, x') ->
  (offset_storage (cfg (cl x)) <? 0) = true -> x' = x.
Proof.
  intros H E. rewrite (mbind_run _ _ _ _ _ (get_client_run x)) in H. rewrite E in H.
  injection H as _ <-. reflexivity.
Qed.

Lemma wire_commit_offsets group os x r x' :
  commit_offsets group os x = (r, x') -> wire_known x x x'.
Proof.
  intros H. destruct (offset_storage (cfg (cl x)) <? 0) eqn:Est.
  - unfold commit_offsets in H. rewrite (mbind_run _ _ _ _ _ (get_client_run x)) in H. rewrite Est in H.
    injection H as _ <-. apply (proj1 (preorder_wire_rel _)).
  - rewrite C20_commit_call in H by lia. apply after_bump.
    destruct (commit_tps (cs (cl x)) os []) as [[|tp tps]|] eqn:E.
    + injection H as _ <-. apply (proj1 (preorder_wire_rel _)).
    + revert H. apply keeps_with_fuel. intros n. apply wk_commit_loop.
      intros p Hp. eapply dr_commit; [exact Hp|]. intros t ps [q off] Ht He.
      destruct (C20_commit_known (cs (cl x)) os (tp :: tps) E) as (Hk & _).
      apply (Hk t ps q off Ht He).
    + injection H as _ <-. apply (proj1 (preorder_wire_rel _)).
Qed.

Lemma wire_fetch_group_offsets group args x r x' :
  fetch_group_offsets group args x = (r, x') -> wire_known x x x'.
Proof.
  intros H. destruct (offset_storage (cfg (cl x)) <? 0) eqn:Est.
  - unfold fetch_group_offsets in H. rewrite (mbind_run _ _ _ _ _ (get_client_run x)) in H. rewrite Est in H.
    injection H as _ <-. apply (proj1 (preorder_wire_rel _)).
  - rewrite C20_group_fetch_call in H by lia. apply after_bump.
    destruct (group_fetch_tps (cs (cl x)) args []) as [tps|] eqn:E.
    + revert H. apply keeps_with_fuel. intros n. apply wk_group_fetch_loop.
      intros p Hp. eapply dr_group_fetch; [exact Hp|]. intros t ps q Ht He.
      destruct (C20_group_fetch_known (cs (cl x)) args tps E) as (Hk & _).
      apply (Hk t ps q Ht He).
    + injection H as _ <-. apply (proj1 (preorder_wire_rel _)).
Qed.

Lemma wire_fetch_group_topic_offset group topic x r x' :
  fetch_group_topic_offset group topic x = (r, x') -> wire_known x x x'.
Proof.
  intros H. destruct (offset_storage (cfg (cl x)) <? 0) eqn:Est.
  - unfold fetch_group_topic_offset in H. rewrite (mbind_run _ _ _ _ _ (get_client_run x)) in H. rewrite Est in H.
    injection H as _ <-. apply (proj1 (preorder_wire_rel _)).
  - assert (Hst : 0 <= offset_storage (cfg (cl x))) by lia.
    pose proof (C20_group_topic group topic x Hst) as E.
    destruct (partitions_for (cs (cl x)) topic) as [ps|] eqn:Eps; rewrite E in H; apply after_bump.
    + revert H. apply keeps_bind; [apply preorder_wire_rel| |intros m; apply keeps_ret; apply preorder_wire_rel].
      apply keeps_with_fuel. intros n. apply wk_group_fetch_loop.
      intros p Hp. eapply dr_group_fetch; [exact Hp|]. intros t qs q Ht He.
      destruct (C20_group_topic_known (cs (cl x)) topic ps t qs q Eps Ht He) as [-> Hk]. exact Hk.
    + injection H as _ <-. apply (proj1 (preorder_wire_rel _)).
Qed.

(* THE statement: whatever public non-metadata operation is called, on whatever script, and however it ends,
   every buffer the client hands to a connection during the call is (a tail of) the frame of a request all of
   whose topic / partition entries are in the metadata loaded when the call was made - or of a
   GroupCoordinator request, which names none.  By C20_data_request_not_metadata none of them is a Metadata
   request, so no such operation ever triggers a (possibly topic-creating) metadata lookup on its own. *)
Theorem C20_wire_names_only_known : forall (o : op) (x : st) (r : res unit) (x' : st),
  run_op o x = (r, x') ->
  ext x x' /\ wire_ok (known (cs (cl x))) (performed x x').
Proof.
  intros o x r x' H. change (wire_known x x x').
  assert (Hret : forall {A} (m : M A) (Hm : forall r1 x1, m x = (r1, x1) -> wire_known x x x1),
             (let+ _ := m in ret tt) x = (r, x') -> wire_known x x x').
  { intros A m Hm H0. bind_inv H0 a s1 H1 H2.
    - injection H2 as _ <-. apply (Hm _ _ H1).
    - apply (Hm _ _ H1).
    - apply (Hm _ _ H1). }
  destruct o; cbn [run_op] in H.
  - revert H. apply Hret. intros r1 x1. apply wire_fetch_offsets.
  - revert H. apply Hret. intros r1 x1. apply wire_list_offsets.
  - revert H. apply Hret. intros r1 x1. apply wire_fetch_topic_offsets.
  - revert H. apply Hret. intros r1 x1. apply wire_fetch_messages.
  - revert H. apply Hret. intros r1 x1. apply wire_produce_messages.
  - apply (wire_commit_offsets _ _ _ _ _ H).
  - revert H. apply Hret. intros r1 x1. apply wire_fetch_group_offsets.
  - revert H. apply Hret. intros r1 x1. apply wire_fetch_group_topic_offset.
Qed.

(* read event by event *)
Corollary C20_wire_every_write : forall o x r x' h b,
  run_op o x = (r, x') -> In (EWrite h b) (performed x x') ->
  exists p pre, data_request (known (cs (cl x))) p /\ frame p = pre ++ b.
Proof.
  intros o x r x' h b H Hin. destruct (C20_wire_names_only_known o x r x' H) as [_ Hall].
  apply (sends_writes _ _ Hall h b Hin).
Qed.

(* a write that directly follows a connect / read / shutdown (as the first write of every request does when the
   connection had to be opened, and every write after a response was read) is a whole frame *)
Corollary C20_wire_whole_frames : forall o x r x' pre e h b rest,
  run_op o x = (r, x') -> performed x x' = pre ++ e :: EWrite h b :: rest -> not_write e ->
  exists p, data_request (known (cs (cl x))) p /\ b = frame p.
Proof.
  intros o x r x' pre e h b rest H Heq He. destruct (C20_wire_names_only_known o x r x' H) as [_ Hall].
  apply (sends_after_non_write _ _ Hall pre e h b rest Heq He).
Qed.

Lemma frame_inj p q : frame p = frame q -> p = q.
Proof.
  assert (Hs : forall z (l : bytes), skipn 4 (enc_i32 z ++ l) = l).
  { intros z l. rewrite skipn_app. unfold enc_i32. rewrite be_enc_length.
    rewrite skipn_all2 by (rewrite be_enc_length; lia). reflexivity. }
  unfold frame. intros H. apply (f_equal (skipn 4)) in H. rewrite !Hs in H. exact H.
Qed.

(* no operation sends a Metadata request on its own: a framed Metadata request written right after a
   connect / read / shutdown cannot occur in the events of any non-metadata operation *)
Corollary C20_wire_no_metadata_lookup : forall o x r x' pre e h corr cid topics pm rest,
  run_op o x = (r, x') -> enc_metadata_req corr cid topics = Ok pm ->
  performed x x' = pre ++ e :: EWrite h (frame pm) :: rest -> not_write e -> False.
Proof.
  intros o x r x' pre e h corr cid topics pm rest H Hm Heq He.
  destruct (C20_wire_whole_frames o x r x' pre e h (frame pm) rest H Heq He) as (p & Hp & Hf).
  apply frame_inj in Hf. subst p. apply (C20_data_request_not_metadata _ _ _ _ _ Hp Hm).
Qed.

(* ---- after a reset: no entry at all ---------------------------------------------------------------------- *)
Lemma data_request_mono (K K' : bytes -> Z -> Prop) p :
  (forall t q, K t q -> K' t q) -> data_request K p -> data_request K' p.
Proof.
  intros HK H.
  assert (Hk : forall {P} (pid : P -> Z) tps, names_known K pid tps -> names_known K' pid tps).
  { intros P pid tps Hn t ps e Ht He. apply HK. apply (Hn t ps e Ht He). }
  destruct H as [corr cid tps p H Hn|corr cid tps p H Hn|corr cid w m tps p H Hn
                |cz corr cid acks tm compr tps p H Hn|corr cid g p H|corr cid g v tps p H Hn
                |corr cid g v tps p H Hn].
  - eapply dr_offset; [exact H|apply Hk; exact Hn].
  - eapply dr_list_offsets; [exact H|apply Hk; exact Hn].
  - eapply dr_fetch; [exact H|apply Hk; exact Hn].
  - eapply dr_produce; [exact H|apply Hk; exact Hn].
  - eapply dr_coordinator; exact H.
  - eapply dr_commit; [exact H|apply Hk; exact Hn].
  - eapply dr_group_fetch; [exact H|apply Hk; exact Hn].
Qed.

(* after reset_metadata (or a failed load_metadata_all, C20_load_all_call) whatever an operation writes is a
   request without a single partition entry, or a coordinator lookup *)
Theorem C20_wire_after_reset : forall o x s r x',
  cs (cl x) = clear_metadata s -> run_op o x = (r, x') ->
  wire_ok (fun _ _ => False) (performed x x').
Proof.
  intros o x s r x' Hs H. destruct (C20_wire_names_only_known o x r x' H) as [_ Hall].
  eapply sends_mono; [|exact Hall]. intros p Hp.
  eapply data_request_mono; [|exact Hp]. intros t q Hk. rewrite Hs in Hk. apply (C20_after_reset s t q Hk).
Qed.

(* ================================================================================================== *)
(* Part 3: the explicit loads write Metadata requests for exactly the topics they were given             *)
(* ================================================================================================== *)
Definition metadata_request (topics : list bytes) (p : bytes) : Prop :=
  exists corr cid, enc_metadata_req corr cid topics = Ok p.

Section Loads.
  Variable topics : list bytes.
  Local Notation Q := (metadata_request topics).
  Local Notation R := (wire_rel Q).
  Let HR : preorder R := preorder_wire_rel Q.
  Ltac kb := apply keeps_bind; [exact HR| |].

  Lemma wq_fetch_metadata_hosts corr : forall hs, keeps R (fetch_metadata_hosts corr topics hs).
  Proof.
    induction hs as [|h r IH]; cbn [fetch_metadata_hosts]; [apply keeps_fail; exact HR|].
    kb; [apply keeps_get_client; exact HR|]. intros c.
    kb; [apply keeps_mtry; apply wq_get_conn|]. intros rc.
    destruct rc as [u|e|w]; try apply IH.
    kb; [apply keeps_mtry; apply wq_send_request; intros p Hp; exists corr, (client_id (cfg c)); exact Hp|].
    intros rs. destruct rs as [z|e|w]; try apply IH. apply wq_get_response.
  Qed.

  Lemma wq_load_metadata : keeps R (load_metadata topics).
  Proof.
    unfold load_metadata, fetch_metadata.
    kb; [|intros md; kb; [apply keeps_get_client; exact HR|]; intros c;
          kb; [apply keeps_lift; exact HR|]; intros s'; apply wq_set_cs].
    kb; [apply wq_next_corr|]. intros corr. kb; [apply keeps_get_client; exact HR|]. intros c.
    apply wq_fetch_metadata_hosts.
  Qed.

  Lemma wq_reset_metadata : keeps R reset_metadata.
  Proof. unfold reset_metadata. kb; [apply keeps_get_client; exact HR|]. intros c. apply wq_set_cs. Qed.
End Loads.

Theorem C20_load_wire : forall topics x r x',
  load_metadata topics x = (r, x') ->
  ext x x' /\ sends (metadata_request topics) (performed x x').
Proof. intros topics x r x' H. apply (wq_load_metadata topics _ _ _ H). Qed.

Theorem C20_load_all_wire : forall x r x',
  load_metadata_all x = (r, x') ->
  ext x x' /\ sends (metadata_request []) (performed x x').
Proof.
  intros x r x' H. unfold load_metadata_all in H.
  apply (keeps_bind _ _ _ (preorder_wire_rel _) (wq_reset_metadata []) (fun _ => wq_load_metadata []) _ _ _ H).
Qed.

Theorem C20_reset_wire : forall x r x', reset_metadata x = (r, x') -> performed x x' = [].
Proof.
  intros x r x' H. destruct (C20_reset_call x) as (x1 & E & _ & Ht & _). rewrite E in H. injection H as _ <-.
  unfold performed. rewrite Ht, Nat.sub_diag. reflexivity.
Qed.

(* ================================================================================================== *)
(* Part 4: over histories of metadata calls                                                             *)
(* ================================================================================================== *)
(* After ANY sequence of metadata calls (results ignored), an operation writes only requests whose entries are
   in the replayed metadata: per topic, the partition count listed by the latest successful load naming it,
   unless a reset (or load_metadata_all) came after it. *)
Theorem C20_wire_history : forall (calls : list mcall) (x0 : st) (o : op) (r : res unit) (x' : st),
  run_op o (run_mcalls calls x0) = (r, x') ->
  exists opss, Forall2 mcall_ops calls opss /\
    wire_ok (fun t p => in_count (spec_count (concat opss) (loaded_count (cs (cl x0))) t) p)
            (performed (run_mcalls calls x0) x').
Proof.
  intros calls x0 o r x' H. destruct (C20_mcalls_history calls x0) as (opss & HF & Hk).
  exists opss. split; [exact HF|].
  destruct (C20_wire_names_only_known o _ r x' H) as [_ Hall].
  eapply sends_mono; [|exact Hall]. intros p Hp.
  eapply data_request_mono; [|exact Hp]. intros t q Hq. apply Hk. exact Hq.
Qed.

(* ================================================================================================== *)
(* Examples (non-vacuity)                                                                               *)
(* ================================================================================================== *)
(* c20_st 1: script [OConn true; OWrote 1000]; "t2" is loaded (partition 0 led by h1:9092), "nope", "nada" are not.
   The lookup connects to h1:9092, writes ONE frame - the Offset request for t2/0 only - and runs out of script. *)
Example C20_wire_ex :
  let x := c20_st 1 in
  let o := OpFetchOffsets [tag "nope"; tag "t2"; tag "nada"] (-1) in
  exists p, enc_offset_req 8 (tag "cid") [(tag "t2", [(0, -1)])] = Ok p
            /\ names_known (known (cs (cl x))) fst [(tag "t2", [(0, -1)])]
            /\ fst (run_op o x) = Err EOutOfScript
            /\ performed x (snd (run_op o x))
               = [EConnect (tag "h1:9092"); EWrite (tag "h1:9092") (frame p); ERead (tag "h1:9092") 4].
Proof.
  cbv zeta. eexists. split; [vm_compute; reflexivity|]. split.
  - intros t ps e [Ht|[]] He. injection Ht as <- <-. destruct He as [<-|[]]. cbn [fst]. apply known_iff. reflexivity.
  - split; vm_compute; reflexivity.
Qed.

(* the single-topic lookup of an unknown topic performs no event at all (this is what seed C20-4 changes) *)
Example C20_wire_unknown_ex :
  performed (c20_st 1) (snd (run_op (OpFetchTopicOffsets (tag "nope") (-1)) (c20_st 1))) = [].
Proof. vm_compute. reflexivity. Qed.

(* an explicit load for "new": one Metadata request naming exactly "new" *)
Example C20_load_wire_ex :
  let x := c20_st 1 in
  exists p, enc_metadata_req 8 (tag "cid") [tag "new"] = Ok p
            /\ performed x (snd (load_metadata [tag "new"] x))
               = [EConnect (tag "h0:9092"); EWrite (tag "h0:9092") (frame p); ERead (tag "h0:9092") 4].
Proof. cbv zeta. eexists. split; [vm_compute; reflexivity|]. vm_compute. reflexivity. Qed.

(* a metadata request is not a data request, whatever K *)
Example C20_not_metadata_ex : forall K p,
  enc_metadata_req 8 (tag "cid") [tag "nope"] = Ok p -> ~ data_request K p.
Proof. intros K p H Hd. apply (C20_data_request_not_metadata K p _ _ _ Hd H). Qed.

Check C20_data_request_key.
Check C20_data_request_not_metadata.
Check C20_wire_names_only_known.
Check C20_wire_every_write.
Check C20_wire_whole_frames.
Check C20_wire_no_metadata_lookup.
Check C20_wire_after_reset.
Check C20_load_wire.
Check C20_load_all_wire.
Check C20_reset_wire.
Check C20_wire_history.

Print Assumptions C20_data_request_key.
Print Assumptions C20_data_request_not_metadata.
Print Assumptions C20_wire_names_only_known.
Print Assumptions C20_wire_every_write.
Print Assumptions C20_wire_whole_frames.
Print Assumptions C20_wire_no_metadata_lookup.
Print Assumptions C20_wire_after_reset.
Print Assumptions C20_load_wire.
Print Assumptions C20_load_all_wire.
Print Assumptions C20_reset_wire.
Print Assumptions C20_wire_history.
