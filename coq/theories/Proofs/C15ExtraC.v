(* C15, third adequacy pass (round-five and round-six seeds).

   Seed C15-5 (fetch_metadata drops the connection from the pool when writing the metadata
   request failed; __get_group_coordinator's `expect("available connection")` then panics on an
   empty pool).  The mirrored change of fetch_metadata_hosts falsifies C15_metadata_run (its
   md_skipped relation says that the state after a skipped host IS the state after the failed
   send; negation proved on the mutated model, scratch copy).  That theorem breaks because it is
   exact, not because it speaks about the clause concerned ("otherwise it returns an error
   without panicking ... followed by further calls on the same client").  Part 3 below states
   that clause: the pool never loses a host during a metadata call (C15_pool_kept_metadata and its corollaries), the
   consumer-group calls return - Ok or Err - whenever the pool is not empty (C15_group_calls_return)
   and hence after ANY outcome of a metadata call on a client that had a connection
   (C15_group_call_after_metadata_returns).

   Seed C15-6 (Consumer::poll takes a fetch that failed with a time-out for "no new messages").
   NOT covered: no theorem of Props/C15.v mentions the Consumer layer (Props/C15.v does not even
   depend on Model/Consumer.v).  Parts 1 and 2 below:
   1. poll IS its fetch: the result of consumer_poll is a function of the result of ONE
      fetch_messages call of the client, every error of which is the error of the poll
      (C15_poll_is_fetch, C15_poll_error_is_result); a poll that reports success stands for a
      chain of complete fetch exchanges, and its message sets are the responses decoded from the
      replies read in THIS poll (C15_poll_ok_own_fetch, C15_poll_ok_complete);
   2. stream-side, for every I/O call index: when any read or any write performed during
      fetch_messages / consumer_poll was answered by an error (time-out or other), the call
      reports exactly that error (C15_fetch_fault_is_error, C15_poll_fault_is_error). *)
From KV Require Import Base.Prelude Gen.Consts Model.Codecs Model.Requests Model.Responses
                       Model.ClientState Model.Net Model.Client Model.Consumer.
From KV Require Proofs.C14Facts Proofs.C13Decode Proofs.C13Facts Proofs.C13Extra.
From KV Require Import Proofs.BytesFacts Proofs.NetFacts Proofs.C15Facts Proofs.C15Extra Proofs.C15ExtraB.
From Coq Require Import ZifyBool.

(* ================================================================================== *)
(* 1. Consumer::poll is its fetch                                                     *)
(* ================================================================================== *)

(* what a poll asks the client to fetch: the first retry partition alone, else every assigned
   partition; None when the retry partition has no fetch state (no I/O happens then) *)
Definition poll_request (k : consumer) : option (list fetch_partition) :=
  match k_retry k with
  | tp :: _ =>
      match tk_get tp (k_fetch k) with
      | None => None
      | Some (off, maxb) => Some [{| fq_topic := topic_name k (fst tp); fq_partition := snd tp;
                                     fq_offset := off; fq_max_bytes := maxb |}]
      end
  | [] => Some (map (fun '((tr, p), (off, maxb)) =>
                       {| fq_topic := topic_name k tr; fq_partition := p; fq_offset := off;
                          fq_max_bytes := maxb |}) (k_fetch k))
  end.
Definition poll_n (k : consumer) : Z :=
  match k_retry k with _ :: _ => 1 | [] => ulen (k_fetch k) end.
(* the consumer after the request was taken: the retry partition is popped, nothing else *)
Definition poll_rest (k : consumer) : consumer :=
  match k_retry k with
  | _ :: rest => consumer_with k (k_fetch k) rest (k_consumed k)
  | [] => k
  end.

(* The whole of consumer_poll, as an equation: it runs ONE fetch_messages of the client; an error
   of that call - whatever it is - is the result of the poll (and the fetch offsets stay as they
   were); only a successful fetch is processed. *)
Theorem C15_poll_is_fetch : forall k s,
  match poll_request k with
  | None =>
      consumer_poll k s =
      (Ok (Err (EKafka KC_UnknownTopicOrPartition), consumer_with_client (poll_rest k) (cl s)), s)
  | Some input =>
      let '(r, s') := fetch_messages input s in
      consumer_poll k s =
      match r with
      | Ok resps => (Ok (process_fetch_responses (debug_build (env s')) (consumer_with_client (poll_rest k) (cl s'))
                                                 (poll_n k) resps), s')
      | Err e => (Ok (Err e, consumer_with_client (poll_rest k) (cl s')), s')
      | Panic w => (Panic w, s')
      end
  end.
Proof.
  intros k s. unfold poll_request, poll_n, poll_rest, consumer_poll, consumer_fetch.
  destruct (k_retry k) as [|tp rest].
  - destruct (fetch_messages _ s) as [[resps|e|w] s'] eqn:E;
      unfold mbind, mtry, ret, get_client, get_env, mpanic; rewrite E; reflexivity.
  - destruct (tk_get tp (k_fetch k)) as [[off maxb]|].
    + destruct (fetch_messages _ s) as [[resps|e|w] s'] eqn:E;
        unfold mbind, mtry, ret, get_client, get_env, mpanic; rewrite E; reflexivity.
    + reflexivity.
Qed.

(* every failure of the fetch is the failure of the poll: nothing is turned into a success *)
Theorem C15_poll_error_is_result : forall k s input e s',
  poll_request k = Some input -> fetch_messages input s = (Err e, s') ->
  consumer_poll k s = (Ok (Err e, consumer_with_client (poll_rest k) (cl s')), s')
  /\ k_fetch (consumer_with_client (poll_rest k) (cl s')) = k_fetch k.
Proof.
  intros k s input e s' Hq Hf. pose proof (C15_poll_is_fetch k s) as H. rewrite Hq, Hf in H.
  split; [exact H|]. unfold poll_rest. destruct (k_retry k); reflexivity.
Qed.

Lemma process_ok_responses dbg k n resps ms k' :
  process_fetch_responses dbg k n resps = (Ok ms, k') -> ms_responses ms = resps.
Proof.
  unfold process_fetch_responses. destruct (first_error resps); [discriminate|].
  destruct (process_topics _ _ _ _ _ _ _ _) as [p|e p|w]; intros H; inversion H; reflexivity.
Qed.

(* a poll that reports success ran a fetch_messages call that reported success, up to the same
   final state, and hands out exactly the responses of that call *)
Theorem C15_poll_ok_own_fetch : forall k s ms k' s',
  consumer_poll k s = (Ok (Ok ms, k'), s') ->
  exists input, poll_request k = Some input /\ fetch_messages input s = (Ok (ms_responses ms), s').
Proof.
  intros k s ms k' s' H. pose proof (C15_poll_is_fetch k s) as K.
  destruct (poll_request k) as [input|]; [|rewrite K in H; discriminate].
  exists input. split; [reflexivity|].
  destruct (fetch_messages input s) as [[resps|e|w] s1]; rewrite K in H; try discriminate.
  inversion H as [[Hp Hs]]. subst s1. rewrite (process_ok_responses _ _ _ _ _ _ Hp). reflexivity.
Qed.

(* operations that touch neither script nor trace *)
Definition quiet {A} (m : M A) : Prop :=
  forall s r s', m s = (r, s') -> script s' = script s /\ trace s' = trace s.
Lemma quiet_next_corr : quiet next_corr.
Proof.
  intros s r s' H. unfold next_corr, mbind, get_client, set_cs, set_client, ret in H.
  destruct (next_correlation_id (cs (cl s))) as [n x]. inversion H; subst. split; reflexivity.
Qed.
Lemma quiet_ordered {V} (reqs : list (bytes * V)) : quiet (ordered reqs).
Proof.
  intros s r s' H. unfold ordered in H. destruct reqs; [inversion H; subst; split; reflexivity|].
  unfold mbind, pop_hosts, ret in H. destruct (hostq s); inversion H; subst; split; reflexivity.
Qed.

(* fetch_messages = correlation id, request building, then fetch_exchange from a state that
   has the same script and trace *)
Lemma fetch_messages_inv input s r s' : fetch_messages input s = (r, s') ->
  exists corr reqs s0, script s0 = script s /\ trace s0 = trace s /\ fetch_exchange corr reqs [] s0 = (r, s').
Proof.
  intros H. unfold fetch_messages in H.
  bind_inv H corr sa H1 H2.
  - rewrite bind_get_client in H2. bind_inv H2 reqs sb H3 H4.
    + destruct (quiet_next_corr _ _ _ H1) as [A1 A2]. destruct (quiet_ordered _ _ _ _ H3) as [B1 B2].
      exists corr, reqs, sb. repeat split; try congruence.
    + exfalso. unfold ordered in H3. destruct (fetch_reqs (cl sa) input); [discriminate|].
      unfold mbind, pop_hosts, ret in H3. destruct (hostq sa); discriminate.
    + exfalso. unfold ordered in H3. destruct (fetch_reqs (cl sa) input); [discriminate|].
      unfold mbind, pop_hosts, ret in H3. destruct (hostq sa); discriminate.
  - exfalso. unfold next_corr, mbind, get_client, set_cs, set_client, ret in H1.
    destruct (next_correlation_id (cs (cl s))); discriminate.
  - exfalso. unfold next_corr, mbind, get_client, set_cs, set_client, ret in H1.
    destruct (next_correlation_id (cs (cl s))); discriminate.
Qed.

Lemma same_io_performed s0 s s' : script s0 = script s -> trace s0 = trace s ->
  performed s0 s' = performed s s' /\ consumed s0 s' = consumed s s'.
Proof. intros H1 H2. unfold performed, consumed. rewrite H1, H2. split; reflexivity. Qed.

(* Success of a poll, down to the stream: the events of the poll are those of a chain of complete
   fetch exchanges, one per broker asked - connection, the WHOLE request frame accepted
   (send_request = Ok, see C15_push_complete / C15_send_outcomes), one WHOLE reply read
   (get_response_bytes = Ok, C15_reply_outcomes) - and the message sets handed out are decoded
   from exactly the bytes of those replies (fetch_chain). *)
Theorem C15_poll_ok_complete : forall k s ms k' s',
  consumer_poll k s = (Ok (Ok ms, k'), s') ->
  exists corr reqs s0,
    fetch_chain corr reqs s0 (ms_responses ms) s' /\
    performed s0 s' = performed s s' /\ consumed s0 s' = consumed s s' /\
    length (ms_responses ms) = length reqs.
Proof.
  intros k s ms k' s' H. destruct (C15_poll_ok_own_fetch _ _ _ _ _ H) as (input & _ & Hf).
  destruct (fetch_messages_inv _ _ _ _ Hf) as (corr & reqs & s0 & E1 & E2 & Hx).
  destruct (same_io_performed s0 s s' E1 E2) as [P1 P2].
  destruct (C15_fetch_chain _ _ _ _ _ _ Hx) as [(resps & Hc & Hr)|(pre & h & tps & post & resps & sk & _ & _ & Hfail)].
  - cbn [app] in Hr. inversion Hr; subst resps. exists corr, reqs, s0. repeat split; try assumption.
    clear - Hc. induction Hc; cbn [length]; [reflexivity|]. rewrite IHHc. reflexivity.
  - exfalso. destruct Hfail as [(e & _ & Hr)|(s1 & _ & [(r0 & _ & Hr)|(z & s2 & _ & [(e & _ & Hr)|(b & _ & Hr)])])];
      try discriminate.
    + destruct Hr as [(e & _ & Hr)|(w & _ & Hr)]; discriminate.
    + destruct Hr as [(e & _ & Hr)|(w & _ & Hr)]; discriminate.
Qed.

(* ================================================================================== *)
(* 2. a read or a write answered by an error, at any I/O call index, is the result     *)
(* ================================================================================== *)

(* the error a stream gave to an I/O call *)
Definition io_fault (p : ev_op * ev_out) : option ioerr :=
  match p with
  | (ERead _ _, OReadFail e) => Some e
  | (EWrite _ _, OWriteFail e) => Some e
  | _ => None
  end.
(* during the run from s to s', some read or write call was answered by the error e *)
Definition faulted (e : ioerr) (s s' : st) : Prop :=
  exists p, In p (combine (performed s s') (consumed s s')) /\ io_fault p = Some e.
Definition faults_fail {A} (e : ioerr) (m : M A) : Prop :=
  forall s r s', m s = (r, s') -> faulted e s s' -> r = Err (EIo e).

Lemma faulted_split e s s1 s' : full s s1 -> ext s1 s' -> faulted e s s' -> faulted e s s1 \/ faulted e s1 s'.
Proof.
  intros F E (p & Hin & Hp).
  rewrite (performed_app _ _ _ (full_ext _ _ F) E), (consumed_app _ _ _ (full_ext _ _ F) E) in Hin.
  rewrite combine_app in Hin by (apply full_lists; exact F).
  apply in_app_or in Hin. destruct Hin as [Hin|Hin]; [left|right]; exists p; split; assumption.
Qed.

Lemma quiet_not_faulted e s s' : script s' = script s -> trace s' = trace s -> ~ faulted e s s'.
Proof.
  intros H1 H2 (p & Hin & _). unfold performed in Hin. rewrite H2, Nat.sub_diag in Hin. exact Hin.
Qed.
Lemma quiet_full s s' : script s' = script s -> trace s' = trace s -> full s s'.
Proof. intros H1 H2. exists [], []. split; [split; [rewrite H1|rewrite H2]; reflexivity|reflexivity]. Qed.
Lemma quiet_tracks {A} (m : M A) : quiet m -> tracks m.
Proof. intros Q s r s' H. destruct (Q _ _ _ H) as [H1 H2]. apply full_stepsR, quiet_full; assumption. Qed.
Lemma quiet_ff {A} e (m : M A) : quiet m -> faults_fail e m.
Proof. intros Q s r s' H F. destruct (Q _ _ _ H) as [H1 H2]. exfalso. exact (quiet_not_faulted e _ _ H1 H2 F). Qed.

Lemma ff_bind {A B} e (m : M A) (f : A -> M B) :
  tracks m -> faults_fail e m -> (forall a, tracks (f a)) -> (forall a, faults_fail e (f a)) ->
  faults_fail e (mbind m f).
Proof.
  intros Tm Fm Tf Ff s r s' H Hf. bind_inv H a s1 H1 H2.
  - pose proof (stepsR_ok_full _ _ _ (Tm _ _ _ H1)) as F1.
    pose proof (tracks_ext _ (Tf a) _ _ _ H2) as E2.
    destruct (faulted_split _ _ _ _ F1 E2 Hf) as [K|K].
    + pose proof (Fm _ _ _ H1 K). discriminate.
    + exact (Ff a _ _ _ H2 K).
  - subst r. pose proof (Fm _ _ _ H1 Hf) as K. inversion K. reflexivity.
  - subst r. pose proof (Fm _ _ _ H1 Hf) as K. discriminate.
Qed.

Lemma faulted_ops e s s' (P : ev_op -> Prop) :
  (forall op o, P op -> io_fault (op, o) = None) -> Forall P (performed s s') -> ~ faulted e s s'.
Proof.
  intros HP Hall ([op o] & Hin & Hp).
  rewrite Forall_forall in Hall. rewrite (HP op o (Hall _ (in_combine_l _ _ _ _ Hin))) in Hp. discriminate.
Qed.

Lemma ff_get_conn e h : faults_fail e (get_conn h).
Proof.
  intros s r s' H F. exfalso. destruct (ops_get_conn _ _ _ _ H) as [_ Hall].
  revert F. apply (faulted_ops e s s' (conn_event h)); [|exact Hall].
  intros op o [-> | ->]; reflexivity.
Qed.

Lemma ff_send_request e h payload : faults_fail e (send_request h payload).
Proof.
  intros s r s' H ([op o] & Hin & Hp).
  destruct (send_request_no_read _ _ _ _ _ H) as [_ Hall]. rewrite Forall_forall in Hall.
  pose proof (Hall _ (in_combine_l _ _ _ _ Hin)) as Hop.
  destruct op as [h'|h' b|h' n|h']; cbn [io_fault not_read] in Hp, Hop; try discriminate; try contradiction.
  destruct o; try discriminate. inversion Hp; subst e0.
  pose proof (in_combine_r _ _ _ _ Hin) as Ho.
  destruct payload as [p|e0|w].
  - exact (proj1 (C15_send_write_error_is_result _ _ _ _ _ _ H Ho)).
  - unfold send_request, lift, mbind in H. inversion H; subst. rewrite consumed_refl in Ho. destruct Ho.
  - unfold send_request, lift, mbind in H. inversion H; subst. rewrite consumed_refl in Ho. destruct Ho.
Qed.

Lemma ff_get_response_bytes e h : faults_fail e (get_response_bytes h).
Proof.
  intros s r s' H ([op o] & Hin & Hp).
  destruct (ops_get_response_bytes _ _ _ _ H) as [_ Hall]. rewrite Forall_forall in Hall.
  destruct (Hall _ (in_combine_l _ _ _ _ Hin)) as [n ->]. cbn [io_fault] in Hp.
  destruct o; try discriminate. inversion Hp; subst e0.
  pose proof (in_combine_r _ _ _ _ Hin) as Ho.
  destruct (C15_reply_fault_stops _ _ _ _ _ H Ho eq_refl) as (pre & _ & _ & Hr). exact Hr.
Qed.

Lemma tracks_get_env : tracks get_env.
Proof. apply quiet_tracks. intros s r s' H. inversion H; subst. split; reflexivity. Qed.
Lemma tracks_get_fetch_order h : tracks (get_fetch_order h).
Proof. apply quiet_tracks. intros s r s' H. inversion H; subst. split; reflexivity. Qed.
Lemma quiet_lift {A} (x : res A) : quiet (lift x).
Proof. intros s r s' H. inversion H; subst. split; reflexivity. Qed.

Lemma tracks_fetch_exchange corr : forall reqs acc, tracks (fetch_exchange corr reqs acc).
Proof.
  induction reqs as [|[h tps] rest IH]; intros acc; cbn [fetch_exchange]; [apply tracks_ret|].
  apply tracks_bind; [apply tracks_get_client|]. intros c.
  apply tracks_bind; [apply tracks_get_env|]. intros en.
  apply tracks_bind; [apply tracks_get_fetch_order|]. intros fo. cbv zeta.
  apply tracks_bind; [apply tracks_get_conn|]. intros _.
  apply tracks_bind; [apply tracks_send_request|]. intros _.
  apply tracks_bind; [apply tracks_get_response_bytes|]. intros b.
  apply tracks_bind; [apply tracks_lift|]. intros resp. apply IH.
Qed.

Lemma ff_fetch_exchange e corr : forall reqs acc, faults_fail e (fetch_exchange corr reqs acc).
Proof.
  induction reqs as [|[h tps] rest IH]; intros acc; cbn [fetch_exchange].
  { apply quiet_ff. intros s r s' H. inversion H; subst. split; reflexivity. }
  apply ff_bind; [apply tracks_get_client|apply quiet_ff; intros s r s' H; inversion H; subst; split; reflexivity| |].
  { intros c. apply tracks_bind; [apply tracks_get_env|]. intros en.
    apply tracks_bind; [apply tracks_get_fetch_order|]. intros fo. cbv zeta.
    apply tracks_bind; [apply tracks_get_conn|]. intros _.
    apply tracks_bind; [apply tracks_send_request|]. intros _.
    apply tracks_bind; [apply tracks_get_response_bytes|]. intros b.
    apply tracks_bind; [apply tracks_lift|]. intros resp. apply tracks_fetch_exchange. }
  intros c.
  apply ff_bind; [apply tracks_get_env|apply quiet_ff; intros s r s' H; inversion H; subst; split; reflexivity| |].
  { intros en. apply tracks_bind; [apply tracks_get_fetch_order|]. intros fo. cbv zeta.
    apply tracks_bind; [apply tracks_get_conn|]. intros _.
    apply tracks_bind; [apply tracks_send_request|]. intros _.
    apply tracks_bind; [apply tracks_get_response_bytes|]. intros b.
    apply tracks_bind; [apply tracks_lift|]. intros resp. apply tracks_fetch_exchange. }
  intros en.
  apply ff_bind; [apply tracks_get_fetch_order|apply quiet_ff; intros s r s' H; inversion H; subst; split; reflexivity| |].
  { intros fo. cbv zeta.
    apply tracks_bind; [apply tracks_get_conn|]. intros _.
    apply tracks_bind; [apply tracks_send_request|]. intros _.
    apply tracks_bind; [apply tracks_get_response_bytes|]. intros b.
    apply tracks_bind; [apply tracks_lift|]. intros resp. apply tracks_fetch_exchange. }
  intros fo. cbv zeta.
  apply ff_bind; [apply tracks_get_conn|apply ff_get_conn| |].
  { intros _. apply tracks_bind; [apply tracks_send_request|]. intros _.
    apply tracks_bind; [apply tracks_get_response_bytes|]. intros b.
    apply tracks_bind; [apply tracks_lift|]. intros resp. apply tracks_fetch_exchange. }
  intros _.
  apply ff_bind; [apply tracks_send_request|apply ff_send_request| |].
  { intros _. apply tracks_bind; [apply tracks_get_response_bytes|]. intros b.
    apply tracks_bind; [apply tracks_lift|]. intros resp. apply tracks_fetch_exchange. }
  intros _.
  apply ff_bind; [apply tracks_get_response_bytes|apply ff_get_response_bytes| |].
  { intros b. apply tracks_bind; [apply tracks_lift|]. intros resp. apply tracks_fetch_exchange. }
  intros b.
  apply ff_bind; [apply tracks_lift|apply quiet_ff, quiet_lift| |].
  { intros resp. apply tracks_fetch_exchange. }
  intros resp. apply IH.
Qed.

(* KafkaClient::fetch_messages, for EVERY behaviour of the streams and every I/O call index: when
   some read (of the size prefix or inside the body, of any broker's reply) or some write (of
   any broker's request, before or after a partial accept) was answered by an error e - a
   time-out or any other kind -, the call returns Err (Io e): not a success, not another error. *)
Theorem C15_fetch_fault_is_error : forall input s r s' e,
  fetch_messages input s = (r, s') -> faulted e s s' -> r = Err (EIo e).
Proof.
  intros input s r s' e H F.
  destruct (fetch_messages_inv _ _ _ _ H) as (corr & reqs & s0 & E1 & E2 & Hx).
  destruct (same_io_performed s0 s s' E1 E2) as [P1 P2].
  apply (ff_fetch_exchange e corr reqs [] _ _ _ Hx). unfold faulted. rewrite P1, P2. exact F.
Qed.

(* ... and Consumer::poll hands exactly that error out (seed C15-6: a time-out answered to a read or
   a write of the fetch exchange is the RESULT of the poll, never "no new messages") *)
Theorem C15_poll_fault_is_error : forall k s rv k' s' e,
  consumer_poll k s = (Ok (rv, k'), s') -> faulted e s s' ->
  rv = Err (EIo e) /\ k_fetch k' = k_fetch k.
Proof.
  intros k s rv k' s' e H F. pose proof (C15_poll_is_fetch k s) as K.
  destruct (poll_request k) as [input|] eqn:Eq.
  - destruct (fetch_messages input s) as [r0 s1] eqn:Ef.
    assert (Es : s1 = s') by (destruct r0; rewrite K in H; inversion H; reflexivity). subst s1.
    pose proof (C15_fetch_fault_is_error _ _ _ _ _ Ef F) as Hr. subst r0.
    rewrite K in H. inversion H; subst. split; [reflexivity|].
    unfold poll_rest. destruct (k_retry k); reflexivity.
  - rewrite K in H. inversion H; subst. exfalso. exact (quiet_not_faulted e s' s' eq_refl eq_refl F).
Qed.

(* ================================================================================== *)
(* 3. the pool only grows; a group call on a non-empty pool returns (seed C15-5)      *)
(* ================================================================================== *)

(* the configuration stays and no pooled host is lost *)
Definition poolR (s s' : st) : Prop :=
  cfg (cl s') = cfg (cl s) /\ incl (conns (cl s)) (conns (cl s')).
Lemma preorder_poolR : preorder poolR.
Proof.
  split.
  - intros s. split; [reflexivity|apply incl_refl].
  - intros s s1 s2 [A1 A2] [B1 B2]. split; [congruence|eapply incl_tran; eassumption].
Qed.
Lemma same_cl_poolR s s' : cl s' = cl s -> poolR s s'.
Proof. intros H. unfold poolR. rewrite H. split; [reflexivity|apply incl_refl]. Qed.
Lemma same_but_io_poolR s s' : same_but_io s s' -> poolR s s'.
Proof. intros (_ & _ & _ & _ & H & _). apply same_cl_poolR, H. Qed.

Lemma keeps_poolR_get_conn h : keeps poolR (get_conn h).
Proof.
  intros s r s' H. split.
  - destruct (frame_get_conn _ _ _ _ H) as (_ & _ & _ & _ & _ & Hc & _). exact Hc.
  - destruct (get_conn_pool _ _ _ _ H) as [->|[_ ->]]; [apply incl_refl|apply incl_appl, incl_refl].
Qed.
Lemma keeps_poolR_send_request h p : keeps poolR (send_request h p).
Proof. intros s r s' H. apply same_but_io_poolR. exact (frame_send_request _ _ _ _ _ H). Qed.
Lemma keeps_poolR_get_response {A} (d : dec A) h : keeps poolR (get_response d h).
Proof. intros s r s' H. apply same_but_io_poolR. exact (frame_get_response _ _ _ _ _ _ H). Qed.
Lemma keeps_poolR_send_receive {A} (d : dec A) h p : keeps poolR (send_receive d h p).
Proof.
  unfold send_receive. apply keeps_bind; [apply preorder_poolR|apply keeps_poolR_get_conn|]. intros _.
  apply keeps_bind; [apply preorder_poolR|apply keeps_poolR_send_request|]. intros _. apply keeps_poolR_get_response.
Qed.
Lemma keeps_poolR_set_cs x : keeps poolR (set_cs x).
Proof.
  intros s r s' H. unfold set_cs, mbind, get_client, set_client in H. inversion H; subst.
  split; [reflexivity|apply incl_refl].
Qed.
Lemma keeps_poolR_next_corr : keeps poolR next_corr.
Proof.
  unfold next_corr. apply keeps_bind; [apply preorder_poolR|apply keeps_get_client, preorder_poolR|]. intros c.
  destruct (next_correlation_id (cs c)) as [n x].
  apply keeps_bind; [apply preorder_poolR|apply keeps_poolR_set_cs|]. intros _. apply keeps_ret, preorder_poolR.
Qed.
Lemma keeps_poolR_get_conn_any : keeps poolR get_conn_any.
Proof. intros s r s' H. apply same_cl_poolR. exact (frame_get_conn_any _ _ _ H). Qed.

Lemma keeps_poolR_metadata_hosts corr topics : forall hs, keeps poolR (fetch_metadata_hosts corr topics hs).
Proof.
  induction hs as [|h rest IH]; cbn [fetch_metadata_hosts]; [apply keeps_fail, preorder_poolR|].
  apply keeps_bind; [apply preorder_poolR|apply keeps_get_client, preorder_poolR|]. intros c.
  apply keeps_bind; [apply preorder_poolR|apply keeps_mtry, keeps_poolR_get_conn|]. intros rc.
  destruct rc as [u|e|w]; [|exact IH|exact IH].
  apply keeps_bind; [apply preorder_poolR|apply keeps_mtry, keeps_poolR_send_request|]. intros rs.
  destruct rs as [z|e|w]; [apply keeps_poolR_get_response|exact IH|exact IH].
Qed.

(* fetch_metadata's bootstrap loop, every outcome, every behaviour of the streams (in particular
   a host whose request could not be written): the configuration is kept and every host that
   had a pooled connection before still has one afterwards - the pool only grows. *)
Theorem C15_pool_kept_metadata : forall corr topics hs s r s',
  fetch_metadata_hosts corr topics hs s = (r, s') ->
  cfg (cl s') = cfg (cl s) /\ incl (conns (cl s)) (conns (cl s')).
Proof. intros corr topics hs s r s' H. exact (keeps_poolR_metadata_hosts corr topics hs _ _ _ H). Qed.

Lemma keeps_poolR_load_metadata topics : keeps poolR (load_metadata topics).
Proof.
  unfold load_metadata, fetch_metadata.
  apply keeps_bind; [apply preorder_poolR| |].
  - apply keeps_bind; [apply preorder_poolR|apply keeps_poolR_next_corr|]. intros corr.
    apply keeps_bind; [apply preorder_poolR|apply keeps_get_client, preorder_poolR|]. intros c.
    apply keeps_poolR_metadata_hosts.
  - intros md. apply keeps_bind; [apply preorder_poolR|apply keeps_get_client, preorder_poolR|]. intros c.
    apply keeps_bind; [apply preorder_poolR|apply keeps_lift, preorder_poolR|]. intros x. apply keeps_poolR_set_cs.
Qed.
Lemma keeps_poolR_load_metadata_all : keeps poolR load_metadata_all.
Proof.
  unfold load_metadata_all, reset_metadata.
  apply keeps_bind; [apply preorder_poolR| |intros _; apply keeps_poolR_load_metadata].
  apply keeps_bind; [apply preorder_poolR|apply keeps_get_client, preorder_poolR|]. intros c. apply keeps_poolR_set_cs.
Qed.

(* the same for the public calls *)
Theorem C15_pool_kept_load_metadata : forall topics s r s',
  load_metadata topics s = (r, s') \/ load_metadata_all s = (r, s') ->
  cfg (cl s') = cfg (cl s) /\ incl (conns (cl s)) (conns (cl s')).
Proof.
  intros topics s r s' [H|H]; [exact (keeps_poolR_load_metadata topics _ _ _ H)|exact (keeps_poolR_load_metadata_all _ _ _ H)].
Qed.

(* a connection is available for get_conn_any: the pool is not empty (and the model's stand-in
   for "every pooled connection is idle-expired", idle_timeout = 0, does not apply) *)
Definition pool_ok (s : st) : Prop := conns (cl s) <> [] /\ idle_expired (cfg (cl s)) = false.
Lemma poolR_ok s s' : pool_ok s -> poolR s s' -> pool_ok s'.
Proof.
  intros [H1 H2] [R1 R2]. split; [|rewrite R1; exact H2].
  intros E. rewrite E in R2. destruct (conns (cl s)) as [|x l]; [apply H1; reflexivity|].
  exact (R2 x (or_introl eq_refl)).
Qed.

(* under pool_ok: does not panic, and pool_ok holds afterwards *)
Definition safe {A} (m : M A) : Prop :=
  forall s, pool_ok s -> C13Facts.npb (fst (m s)) /\ pool_ok (snd (m s)).
Lemma safe_of {A} (m : M A) : C13Facts.mnp m -> keeps poolR m -> safe m.
Proof.
  intros Hn Hk s Hs. split; [apply Hn|]. eapply poolR_ok; [exact Hs|]. eapply Hk. apply surjective_pairing.
Qed.
Lemma safe_bind {A B} (m : M A) (f : A -> M B) : safe m -> (forall a, safe (f a)) -> safe (mbind m f).
Proof.
  intros Hm Hf s Hs. destruct (Hm s Hs) as [N P]. unfold mbind.
  destruct (m s) as [[a|e|w] s1]; cbn [fst snd C13Facts.npb] in *; [apply Hf; exact P|split; [exact I|exact P]|contradiction].
Qed.
Lemma safe_ret {A} (a : A) : safe (ret a).
Proof. apply safe_of; [apply C13Facts.mnp_ret|apply keeps_ret, preorder_poolR]. Qed.
Lemma safe_fail {A} e : safe (@fail A e).
Proof. apply safe_of; [apply C13Facts.mnp_fail|apply keeps_fail, preorder_poolR]. Qed.
Lemma safe_get_client : safe get_client.
Proof. apply safe_of; [apply C13Facts.mnp_get_client|apply keeps_get_client, preorder_poolR]. Qed.
Lemma safe_set_cs x : safe (set_cs x).
Proof. apply safe_of; [apply C13Facts.mnp_set_cs|apply keeps_poolR_set_cs]. Qed.
Lemma safe_next_corr : safe next_corr.
Proof. apply safe_of; [apply C13Facts.mnp_next_corr|apply keeps_poolR_next_corr]. Qed.
Lemma safe_with_fuel {A} (f : nat -> M A) : (forall n, safe (f n)) -> safe (with_fuel f).
Proof. intros H s. apply H. Qed.
Lemma safe_send_receive {A} (d : dec A) h p :
  (forall b, C13Facts.npb (d b)) -> C13Facts.npb p -> safe (send_receive d h p).
Proof. intros Hd Hp. apply safe_of; [apply C13Facts.mnp_send_receive; assumption|apply keeps_poolR_send_receive]. Qed.

Lemma keeps_poolR_lookup_attempt req : keeps poolR (group_lookup_attempt req).
Proof.
  unfold group_lookup_attempt. apply keeps_bind; [apply preorder_poolR|apply keeps_poolR_get_conn_any|].
  intros [h|]; [|apply keeps_mpanic, preorder_poolR].
  apply keeps_bind; [apply preorder_poolR|apply keeps_poolR_send_request|]. intros _. apply keeps_poolR_get_response.
Qed.

(* one attempt of the coordinator lookup does not hit `expect("available connection")` - nor
   any other panic - as long as the pool is not empty *)
Lemma safe_lookup_attempt req : C13Facts.npb req -> safe (group_lookup_attempt req).
Proof.
  intros Hq s Hs. split.
  - destruct (fst (group_lookup_attempt req s)) as [a|e|w] eqn:E; cbn [C13Facts.npb]; try exact I.
    destruct (C13Facts.C13_group_lookup_outside_known req s w Hq (proj2 Hs) E) as [_ Hc]. exact (proj1 Hs Hc).
  - eapply poolR_ok; [exact Hs|]. eapply keeps_poolR_lookup_attempt. apply surjective_pairing.
Qed.

Lemma safe_lookup_loop group req : C13Facts.npb req ->
  forall fuel attempt, safe (group_lookup_loop fuel group req attempt).
Proof.
  intros Hq. induction fuel as [|f IH]; intros attempt; cbn [group_lookup_loop]; [apply safe_fail|].
  apply safe_bind; [apply safe_lookup_attempt; exact Hq|]. intros r.
  destruct (from_protocol (gc_error r)) as [code|].
  - destruct (code =? KC_GroupCoordinatorNotAvailable); [|apply safe_fail].
    apply safe_bind; [apply safe_get_client|]. intros c.
    destruct (attempt <? retry_max_attempts (cfg c)); [apply IH|apply safe_fail].
  - apply safe_bind; [apply safe_get_client|]. intros c.
    destruct (set_group_coordinator (cs c) group r) as [h x].
    apply safe_bind; [apply safe_set_cs|]. intros _. apply safe_ret.
Qed.
Lemma safe_get_group_coordinator group : safe (get_group_coordinator group).
Proof.
  unfold get_group_coordinator. apply safe_bind; [apply safe_get_client|]. intros c.
  destruct (group_coordinator (cs c) group); [apply safe_ret|].
  apply safe_bind; [apply safe_next_corr|]. intros corr. apply safe_with_fuel. intros f.
  apply safe_lookup_loop, C13Facts.npb_enc_group_coordinator_req.
Qed.
Lemma safe_commit_loop group req : C13Facts.npb req ->
  forall fuel attempt, safe (commit_loop fuel group req attempt).
Proof.
  intros Hq. induction fuel as [|f IH]; intros attempt; cbn [commit_loop]; [apply safe_fail|].
  apply safe_bind; [apply safe_get_group_coordinator|]. intros h.
  apply safe_bind.
  { apply safe_send_receive; [|exact Hq]. intros b. apply C13Facts.no_panic_npb, C13Decode.C13_decode_offset_commit. }
  intros [c tps]. destruct (commit_scan tps) as [|code reset|c0]; [apply safe_ret| |apply safe_fail].
  apply safe_bind; [apply safe_get_client|]. intros c1.
  apply safe_bind; [destruct reset; [apply safe_set_cs|apply safe_ret]|]. intros _.
  destruct (attempt <? retry_max_attempts (cfg c1)); [apply IH|apply safe_fail].
Qed.
Lemma safe_group_fetch_loop group req : C13Facts.npb req ->
  forall fuel attempt, safe (group_fetch_loop fuel group req attempt).
Proof.
  intros Hq. induction fuel as [|f IH]; intros attempt; cbn [group_fetch_loop]; [apply safe_fail|].
  apply safe_bind; [apply safe_get_group_coordinator|]. intros h.
  apply safe_bind.
  { apply safe_send_receive; [|exact Hq]. intros b. apply C13Facts.no_panic_npb, C13Decode.C13_decode_offset_fetch. }
  intros [c tps]. destruct (group_scan tps []) as [[m|[code reset]]|c0]; [apply safe_ret| |apply safe_fail].
  apply safe_bind; [apply safe_get_client|]. intros c1.
  apply safe_bind; [destruct reset; [apply safe_set_cs|apply safe_ret]|]. intros _.
  destruct (attempt <? retry_max_attempts (cfg c1)); [apply IH|apply safe_fail].
Qed.
Lemma safe_commit_offsets group os : safe (commit_offsets group os).
Proof.
  unfold commit_offsets. apply safe_bind; [apply safe_get_client|]. intros c.
  destruct (offset_storage (cfg c) <? 0); [apply safe_fail|].
  apply safe_bind; [apply safe_next_corr|]. intros corr.
  destruct (commit_tps (cs c) os []) as [[|tp tps]|]; [apply safe_ret| |apply safe_fail].
  apply safe_with_fuel. intros f. apply safe_commit_loop, C13Extra.npb_enc_offset_commit_req.
Qed.
Lemma safe_fetch_group_offsets group ps : safe (fetch_group_offsets group ps).
Proof.
  unfold fetch_group_offsets. apply safe_bind; [apply safe_get_client|]. intros c.
  destruct (offset_storage (cfg c) <? 0); [apply safe_fail|].
  apply safe_bind; [apply safe_next_corr|]. intros corr.
  destruct (group_fetch_tps (cs c) ps []) as [tps|]; [|apply safe_fail].
  apply safe_with_fuel. intros f. apply safe_group_fetch_loop, C13Extra.npb_enc_offset_fetch_req.
Qed.
Lemma safe_fetch_group_topic_offset group topic : safe (fetch_group_topic_offset group topic).
Proof.
  unfold fetch_group_topic_offset. apply safe_bind; [apply safe_get_client|]. intros c.
  destruct (offset_storage (cfg c) <? 0); [apply safe_fail|].
  apply safe_bind; [apply safe_next_corr|]. intros corr.
  destruct (partitions_for (cs c) topic) as [ps|]; [|apply safe_fail]. cbv zeta.
  apply safe_bind; [|intros m; apply safe_ret].
  apply safe_with_fuel. intros f. apply safe_group_fetch_loop, C13Extra.npb_enc_offset_fetch_req.
Qed.

Definition returns {A} (r : res A) : Prop := (exists a, r = Ok a) \/ (exists e, r = Err e).
Lemma npb_returns {A} (r : res A) : C13Facts.npb r -> returns r.
Proof. destruct r as [a|e|w]; intros H; [left; exists a; reflexivity|right; exists e; reflexivity|destruct H]. Qed.

(* The consumer-group calls (all of which go through __get_group_coordinator), whatever the
   streams do and through all their retries: with a non-empty pool they RETURN - Ok or Err,
   never a panic - and the pool is non-empty afterwards as well. *)
Theorem C15_group_calls_return : forall group s,
  conns (cl s) <> [] -> idle_expired (cfg (cl s)) = false ->
  (forall os, returns (fst (commit_offsets group os s)) /\ conns (cl (snd (commit_offsets group os s))) <> [])
  /\ (forall ps, returns (fst (fetch_group_offsets group ps s)) /\ conns (cl (snd (fetch_group_offsets group ps s))) <> [])
  /\ (forall topic, returns (fst (fetch_group_topic_offset group topic s))
                    /\ conns (cl (snd (fetch_group_topic_offset group topic s))) <> []).
Proof.
  intros group s H1 H2. assert (Hs : pool_ok s) by (split; assumption).
  split; [|split].
  - intros os. destruct (safe_commit_offsets group os s Hs) as [N [P _]]. split; [apply npb_returns, N|exact P].
  - intros ps. destruct (safe_fetch_group_offsets group ps s Hs) as [N [P _]]. split; [apply npb_returns, N|exact P].
  - intros topic. destruct (safe_fetch_group_topic_offset group topic s Hs) as [N [P _]]. split; [apply npb_returns, N|exact P].
Qed.

(* "... followed by further calls on the same client": after a metadata call with ANY outcome -
   success, NoHostReachable after a request that could not be written, an error while reading
   the reply - on a client that had a pooled connection, every consumer-group call returns. *)
Theorem C15_group_call_after_metadata_returns : forall topics s r1 s1 group,
  load_metadata topics s = (r1, s1) \/ load_metadata_all s = (r1, s1) ->
  conns (cl s) <> [] -> idle_expired (cfg (cl s)) = false ->
  returns r1
  /\ (forall os, returns (fst (commit_offsets group os s1)))
  /\ (forall ps, returns (fst (fetch_group_offsets group ps s1)))
  /\ (forall topic, returns (fst (fetch_group_topic_offset group topic s1))).
Proof.
  intros topics s r1 s1 group H H1 H2.
  assert (Hs1 : pool_ok s1).
  { eapply poolR_ok; [split; eassumption|]. destruct (C15_pool_kept_load_metadata _ _ _ _ H) as [A B]. split; assumption. }
  split.
  - apply npb_returns. destruct H as [H|H].
    + pose proof (C13Extra.mnp_load_metadata topics s) as N. rewrite H in N. exact N.
    + pose proof (C13Extra.mnp_load_metadata_all s) as N. rewrite H in N. exact N.
  - destruct Hs1 as [P1 P2]. destruct (C15_group_calls_return group s1 P1 P2) as (A & B & C).
    split; [intros os; apply A|split; [intros ps; apply B|intros t; apply C]].
Qed.

(* ================================================================================== *)
(* examples (non-vacuity)                                                             *)
(* ================================================================================== *)

(* a consumer of t/0 (next offset 5) on the client cl1: one broker, one pooled connection *)
Definition k1 : consumer :=
  {| k_client := cl1; k_group := []; k_fallback := FbEarliest; k_retry_limit := 0;
     k_assign := [(tag "t", [0])]; k_fetch := [((0, 0), (5, 1000))]; k_retry := []; k_consumed := [] |}.

Example C15_poll_is_fetch_ex :
  poll_request k1 = Some [{| fq_topic := tag "t"; fq_partition := 0; fq_offset := 5; fq_max_bytes := 1000 |}]
  /\ poll_n k1 = 1 /\ poll_rest k1 = k1.
Proof. vm_compute. repeat split. Qed.

(* the fetch request is accepted, the first read of the reply (size prefix) times out; the reply
   would arrive afterwards: the poll reports the time-out, the late reply stays on the stream *)
Example C15_poll_fault_is_error_ex :
  let s := mkst [OWrote 1000; OReadFail IoTimedOut;
                 OData (enc_i32 (ulen (fetch_reply 0))); OData (fetch_reply 0)] cl1 in
  let '(r, s') := consumer_poll k1 s in
  faulted IoTimedOut s s' /\
  (exists k', r = Ok (Err (EIo IoTimedOut), k') /\ k_fetch k' = k_fetch k1) /\
  script s' = [OData (enc_i32 (ulen (fetch_reply 0))); OData (fetch_reply 0)].
Proof.
  vm_compute. split; [|split; [eexists; split; reflexivity|reflexivity]].
  eexists. split; [right; left; reflexivity|reflexivity].
Qed.
(* time-out inside the body, and on a write after a partial accept of 16 bytes *)
Example C15_poll_fault_is_error_ex2 :
  let s := mkst [OWrote 1000; OData (enc_i32 (ulen (fetch_reply 0))); OData (firstn 8 (fetch_reply 0));
                 OReadFail IoTimedOut; OData (skipn 8 (fetch_reply 0))] cl1 in
  let t := mkst [OWrote 16; OWriteFail IoTimedOut; OWrote 1000] cl1 in
  faulted IoTimedOut s (snd (consumer_poll k1 s)) /\
  (exists k', fst (consumer_poll k1 s) = Ok (Err (EIo IoTimedOut), k')) /\
  faulted IoTimedOut t (snd (consumer_poll k1 t)) /\
  (exists k', fst (consumer_poll k1 t) = Ok (Err (EIo IoTimedOut), k')).
Proof.
  vm_compute. split; [|split; [eexists; reflexivity|split; [|eexists; reflexivity]]].
  - eexists. split; [do 3 right; left; reflexivity|reflexivity].
  - eexists. split; [right; left; reflexivity|reflexivity].
Qed.
(* the whole request accepted (in two pieces), the whole reply read (body in two pieces): success,
   and the message sets handed out are the response decoded from that reply *)
Example C15_poll_ok_complete_ex :
  let s := mkst [OWrote 16; OWrote 1000; OData (enc_i32 (ulen (fetch_reply 0)));
                 OData (firstn 8 (fetch_reply 0)); OData (skipn 8 (fetch_reply 0)); OData (tag "next")] cl1 in
  let '(r, s') := consumer_poll k1 s in
  (exists ms k', r = Ok (Ok ms, k') /\ length (ms_responses ms) = 1%nat) /\
  script s' = [OData (tag "next")] /\
  delivered h1 (performed s s') (consumed s s') = enc_i32 (ulen (fetch_reply 0)) ++ fetch_reply 0.
Proof. vm_compute. split; [eexists; eexists; split; reflexivity|split; reflexivity]. Qed.

(* a client with Kafka offset storage, one pooled connection, no coordinator known for "g" *)
Definition cl3u : client := {| cfg := cfg3; cs := cs1; conns := [h1] |}.
(* the metadata request is accepted for 10 bytes, then the write times out: NoHostReachable, the
   connection is STILL pooled, and the following commit for a group not looked up before finds a
   connection for the coordinator lookup and returns (here: Ok) *)
Example C15_group_call_after_metadata_returns_ex :
  let s := mkst [OWrote 10; OWriteFail IoTimedOut;
                 OWrote 1000; OData (enc_i32 (ulen gc_reply)); OData gc_reply;
                 OWrote 1000; OData (enc_i32 (ulen (commit_reply 0))); OData (commit_reply 0);
                 OData (tag "untouched")] cl3u in
  let '(r1, s1) := load_metadata [tag "t"] s in
  let '(r2, s2) := commit_offsets (tag "g") [{| co_topic := tag "t"; co_partition := 0; co_offset := 5 |}] s1 in
  conns (cl s) <> [] /\ idle_expired (cfg (cl s)) = false /\
  r1 = Err ENoHostReachable /\ conns (cl s1) = [h1] /\ r2 = Ok tt /\ script s2 = [OData (tag "untouched")].
Proof. vm_compute. repeat split. discriminate. Qed.
(* without a pooled connection the same commit does panic: the hypothesis of
   C15_group_calls_return is needed *)
Example C15_group_calls_return_needs_pool :
  let c0 : client := {| cfg := cfg3; cs := cs1; conns := [] |} in
  fst (commit_offsets (tag "g") [{| co_topic := tag "t"; co_partition := 0; co_offset := 5 |}] (mkst [] c0))
  = Panic (tag "available connection").
Proof. vm_compute. reflexivity. Qed.

(* Not done / not proved here:
   - faulted / C15_fetch_fault_is_error are proved for fetch_messages and Consumer::poll only; the
     same combinators (ff_bind, ff_get_conn, ff_send_request, ff_get_response_bytes) would give
     them for send_receive and hence for the offsets / produce (acks) / commit / group-fetch
     calls; for fetch_metadata_hosts the statement is FALSE by design of the Rust code (a failed
     write makes the loop go on to the next host, C15_metadata_run), and for a read answered by
     end-of-stream (OData []) the error is UnexpectedEof (C15_reply_eof_stops), not covered by
     `faulted`;
   - connect failures (OConn false) are not part of `faulted`;
   - C15_group_calls_return has the hypothesis idle_expired = false: the model's get_conn_any gives
     up (None, hence the panic) when re-connecting the one idle-expired connection it picked
     fails, whereas the Rust code goes on to the next pooled host (comment in Model/Net.v);
   - Consumer::commit_consumed and Consumer creation are not composed with part 3. *)

Print Assumptions C15_poll_is_fetch.
Print Assumptions C15_poll_error_is_result.
Print Assumptions C15_poll_ok_own_fetch.
Print Assumptions C15_poll_ok_complete.
Print Assumptions C15_fetch_fault_is_error.
Print Assumptions C15_poll_fault_is_error.
Print Assumptions C15_pool_kept_metadata.
Print Assumptions C15_pool_kept_load_metadata.
Print Assumptions C15_group_calls_return.
Print Assumptions C15_group_call_after_metadata_returns.
