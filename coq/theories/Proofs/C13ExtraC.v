(* C13, additional theorems (mutation adequacy, third pass: seeds C13-5 and C13-6).

   Both seeds are already refuted by theorems of Props/C13.v (confirmed on scratch copies of the model with the
   mirrored change and a concrete witness for the NEGATED statement):
     C13-5  ClientState::group_coordinator indexes self.brokers with the cached BrokerRef (panics after a reload
            that shortens the broker table)          -> falsifies C13_group_ops_panics (and C13_commit_consumed_panics,
            C13_consumer_create_panics): the new panic word is not "available connection";
     C13-6  fetch_offsets / list_offsets unwrap a lazily created vector (panics for a topic entry without
            partitions that is new to the result map) -> falsifies C13_client_ops_no_panic (fetch_offsets,
            list_offsets, fetch_topic_offsets) and C13_consumer_create_panics.
   So nothing HAD to be added.  This file adds what the existing statements leave open around the two seeds and the
   one clause that was not yet stated for the non-group operations:

   Part A  (around C13-5) the cache look-up is a CHECKED look-up: exactly which host it yields; a stale reference
           (beyond the broker table) yields None and the call asks the cluster again - its result and state are
           those of the look-up loop; after clear_metadata no group has a coordinator host.
   Part B  (around C13-6) the merge step of an offsets call: its only outcomes are Ok and Err(TopicPartitionError)
           for a topic of the reply; a topic entry without partitions is merged like any other (an empty vector
           is registered / an existing one is kept).
   Part C  (step 4) "returns a value or an error": the Metadata / Offset / ListOffsets / Produce operations never
           end in the model's out-of-fuel error either, i.e. together with C13_client_ops_no_panic they are
           no_panic in the full sense of C13Decode (Ok, or an error that the real code returns too): the loops of
           these calls (hosts, per-host requests, write_all, read_exact, chunked reads, Vec decoding) are all bounded
           by the configuration and by what the brokers deliver.  *)
From KV Require Import Base.Prelude Base.Snappy Gen.Consts Model.Codecs Model.Requests Model.Responses
                       Model.ClientState Model.Net Model.Client Model.Producer Model.Consumer.
From KV Require Import Proofs.BytesFacts Proofs.NetFacts Proofs.C14Facts
                       Proofs.C13Decode Proofs.C13Facts Proofs.C13Extra.
From Coq Require Import ZifyBool.

(* ====================================================================== *)
(* Part A: the group -> coordinator cache is read with a checked look-up   *)
(* ====================================================================== *)

(* ClientState::group_coordinator: `group_coordinators.get(group).and_then(|b| brokers.get(b.index()))` -
   no entry: None; an entry inside the broker table: that broker's host; an entry outside of it: None *)
Theorem C13_group_coordinator_checked : forall s g,
  match assoc_bytes g (group_coordinators s) with
  | None => group_coordinator s g = None
  | Some i =>
      (0 <= i < ulen (brokers s) ->
         exists b, nth_error (brokers s) (Z.to_nat i) = Some b /\ group_coordinator s g = Some (b_host b))
      /\ (i < 0 \/ ulen (brokers s) <= i -> group_coordinator s g = None)
  end.
Proof.
  intros s g. unfold group_coordinator. destruct (assoc_bytes g (group_coordinators s)) as [i|]; [|reflexivity].
  unfold nth_z. split; intros Hi.
  - destruct ((i <? 0) || (ulen (brokers s) <=? i)) eqn:E; [lia|].
    destruct (nth_error (brokers s) (Z.to_nat i)) as [b|] eqn:En.
    + exists b. split; reflexivity.
    + apply nth_error_None in En. unfold ulen in Hi. lia.
  - destruct ((i <? 0) || (ulen (brokers s) <=? i)) eqn:E; [reflexivity|lia].
Qed.

(* ClientState::clear_metadata keeps group_coordinators and empties brokers: every cached reference is stale,
   no group has a coordinator host *)
Theorem C13_cleared_state_has_no_coordinator : forall s g, group_coordinator (clear_metadata s) g = None.
Proof.
  intros s g. unfold group_coordinator, clear_metadata. cbn [group_coordinators brokers].
  destruct (assoc_bytes g (group_coordinators s)) as [i|]; [|reflexivity].
  unfold nth_z, ulen. cbn [length]. destruct ((i <? 0) || (Z.of_nat 0 <=? i)) eqn:E; [reflexivity|lia].
Qed.

(* __get_group_coordinator with a stale cache entry: it is the call of a client without the entry - a fresh
   correlation id, then the look-up loop; whatever that returns (value, error, state, trace) is returned *)
Theorem C13_stale_coordinator_asks_again : forall group s i,
  assoc_bytes group (group_coordinators (cs (cl s))) = Some i ->
  i < 0 \/ ulen (brokers (cs (cl s))) <= i ->
  get_group_coordinator group s =
  (let+ corr := next_corr in
   with_fuel (fun f => group_lookup_loop f group
                         (enc_group_coordinator_req corr (client_id (cfg (cl s))) group) 1)) s.
Proof.
  intros group s i Ha Hi. pose proof (C13_group_coordinator_checked (cs (cl s)) group) as H.
  rewrite Ha in H. destruct H as [_ H]. specialize (H Hi).
  unfold get_group_coordinator. unfold mbind at 1. unfold get_client at 1. cbv beta iota.
  rewrite H. reflexivity.
Qed.

(* non-vacuity, end to end and on the wire (the history of seeded/C13-5): brokers b1, b2; the coordinator of "g" is
   broker 2 (cached as index 1); broker 2 leaves; load_metadata_all again (index 1 is now beyond the table);
   the next group calls ask for the coordinator again (one more GroupCoordinator request) and return Ok *)
Definition xc_str (s : bytes) : bytes := enc_i16 (ulen s) ++ s.
Definition xc_reply (resp : bytes) : list ev_out := [OWrote 100000; OData (enc_i32 (ulen resp)); OData resp].
Definition xc_bmd (n : Z) (h : bytes) : bytes := enc_i32 n ++ xc_str h ++ enc_i32 9092.
Definition xc_tmd (leader : Z) : bytes :=
  enc_i16 0 ++ xc_str (tag "t") ++ enc_i32 1 ++ (enc_i16 0 ++ enc_i32 0 ++ enc_i32 leader ++ enc_i32 0 ++ enc_i32 0).
Definition xc_md2 : bytes :=
  enc_i32 1 ++ enc_i32 2 ++ xc_bmd 1 (tag "b1") ++ xc_bmd 2 (tag "b2") ++ enc_i32 1 ++ xc_tmd 1.
Definition xc_md1 : bytes := enc_i32 3 ++ enc_i32 1 ++ xc_bmd 1 (tag "b1") ++ enc_i32 1 ++ xc_tmd 1.
Definition xc_coord (node : Z) (h : bytes) : bytes :=
  enc_i32 2 ++ enc_i16 0 ++ enc_i32 node ++ xc_str h ++ enc_i32 9092.
Definition xc_ofetch : bytes :=
  enc_i32 2 ++ enc_i32 1 ++ xc_str (tag "t") ++ enc_i32 1 ++ (enc_i32 0 ++ enc_i64 7 ++ enc_i16 0 ++ enc_i16 0).
Definition xc_cfg : config :=
  let g := default_config [tag "b1:9092"] in
  {| client_id := client_id g; hosts := hosts g; compression := compression g;
     fetch_max_wait_time := fetch_max_wait_time g; fetch_min_bytes := fetch_min_bytes g;
     fetch_max_bytes_per_partition := fetch_max_bytes_per_partition g;
     fetch_crc_validation := fetch_crc_validation g; offset_storage := 1;
     retry_backoff_time := retry_backoff_time g; retry_max_attempts := retry_max_attempts g;
     idle_timeout := idle_timeout g |}.
Definition xc_s0 : st :=
  ex_st ([OConn true] ++ xc_reply xc_md2
         ++ xc_reply (xc_coord 2 (tag "b2")) ++ [OConn true] ++ xc_reply xc_ofetch
         ++ xc_reply xc_md1
         ++ xc_reply (xc_coord 1 (tag "b1")) ++ xc_reply xc_ofetch)
        {| cfg := xc_cfg; cs := cstate_new; conns := [] |} false.
Definition xc_s1 := snd (load_metadata_all xc_s0).
Definition xc_s2 := snd (fetch_group_offsets (tag "g") [(tag "t", 0)] xc_s1).
Definition xc_s3 := snd (load_metadata_all xc_s2).

Example ex_stale_coordinator_history :
  fst (load_metadata_all xc_s0) = Ok tt
  /\ fst (fetch_group_offsets (tag "g") [(tag "t", 0)] xc_s1) = Ok [(tag "t", [(0, 7)])]
  /\ fst (load_metadata_all xc_s2) = Ok tt
  (* the hypotheses of C13_stale_coordinator_asks_again hold in the state reached *)
  /\ assoc_bytes (tag "g") (group_coordinators (cs (cl xc_s3))) = Some 1
  /\ ulen (brokers (cs (cl xc_s3))) = 1
  /\ group_coordinator (cs (cl xc_s3)) (tag "g") = None
  (* and the group call succeeds, after one more GroupCoordinator + one OffsetFetch request *)
  /\ fst (fetch_group_offsets (tag "g") [(tag "t", 0)] xc_s3) = Ok [(tag "t", [(0, 7)])]
  /\ writes (trace (snd (fetch_group_offsets (tag "g") [(tag "t", 0)] xc_s3))) = (writes (trace xc_s3) + 2)%nat
  /\ group_coordinator (cs (cl (snd (fetch_group_offsets (tag "g") [(tag "t", 0)] xc_s3)))) (tag "g")
     = Some (tag "b1:9092").
Proof. vm_compute. repeat split; reflexivity. Qed.

Example ex_stale_coordinator_thm :
  get_group_coordinator (tag "g") xc_s3 =
  (let+ corr := next_corr in
   with_fuel (fun f => group_lookup_loop f (tag "g")
                         (enc_group_coordinator_req corr (client_id (cfg (cl xc_s3))) (tag "g")) 1)) xc_s3.
Proof. apply (C13_stale_coordinator_asks_again (tag "g") xc_s3 1); [vm_compute; reflexivity|right; vm_compute; discriminate]. Qed.

(* ====================================================================== *)
(* Part B: the merge step of fetch_offsets / list_offsets                  *)
(* ====================================================================== *)

(* per reply: Ok, or the TopicPartitionError of a topic that is in the reply; never a panic *)
Theorem C13_merge_topics_outcomes : forall (P V : Type) (conv : P -> V + Z) (pid : P -> Z) tps m,
  match merge_topics conv pid tps m with
  | Ok _ => True
  | Err e => exists t ps p c, In (t, ps) tps /\ e = ETopicPartition t p c
  | Panic _ => False
  end.
Proof.
  intros P V conv pid. induction tps as [|[t ps] r IH]; intros m; cbn [merge_topics]; [exact I|].
  destruct (collect conv pid ps []) as [vs|[p code]].
  - specialize (IH (res_push m t vs)). destruct (merge_topics conv pid r (res_push m t vs)) as [m'|e|w]; auto.
    destruct IH as (t' & ps' & p & c & Hin & He). exists t', ps', p, c. split; [right; exact Hin|exact He].
  - exists t, ps, p, code. split; [left; reflexivity|reflexivity].
Qed.

(* a topic entry without partitions (count 0 or negative on the wire) is merged like any other entry: with the
   empty list of offsets *)
Theorem C13_merge_topics_empty_topic : forall (P V : Type) (conv : P -> V + Z) (pid : P -> Z) t r m,
  merge_topics conv pid ((t, []) :: r) m = merge_topics conv pid r (res_push m t []).
Proof. intros. reflexivity. Qed.

(* the `entry(topic)` step: afterwards the topic IS in the map - with the offsets collected before (if any)
   followed by the new ones; for a new topic and no partitions: with the empty vector *)
Theorem C13_res_push_registers : forall (V : Type) (m : list (bytes * list V)) t vs,
  assoc_bytes t (res_push m t vs)
  = Some (match assoc_bytes t m with Some old => old ++ vs | None => vs end).
Proof.
  intros V. induction m as [|[t' vs'] r IH]; intros t vs; cbn [res_push assoc_bytes].
  - rewrite bytes_eqb_refl. reflexivity.
  - destruct (bytes_eqb t' t) eqn:E; cbn [assoc_bytes]; rewrite E; [reflexivity|apply IH].
Qed.

(* the other topics are not touched *)
Theorem C13_res_push_other : forall (V : Type) (m : list (bytes * list V)) t t' vs,
  t' <> t -> assoc_bytes t' (res_push m t vs) = assoc_bytes t' m.
Proof.
  intros V. induction m as [|[t0 vs0] r IH]; intros t t' vs Hne; cbn [res_push assoc_bytes].
  - destruct (bytes_eqb t t') eqn:E; [apply bytes_eqb_eq in E; congruence|reflexivity].
  - destruct (bytes_eqb t0 t) eqn:E; cbn [assoc_bytes].
    + apply bytes_eqb_eq in E. subst t0.
      destruct (bytes_eqb t t') eqn:E2; [apply bytes_eqb_eq in E2; congruence|reflexivity].
    + destruct (bytes_eqb t0 t'); [reflexivity|apply IH; exact Hne].
Qed.

(* a whole reply consisting of such an entry for a topic new to the map: Ok, the topic registered as [] *)
Corollary C13_merge_single_empty_topic : forall (P V : Type) (conv : P -> V + Z) (pid : P -> Z) t m,
  assoc_bytes t m = None ->
  exists m', merge_topics conv pid [(t, [])] m = Ok m' /\ assoc_bytes t m' = Some [].
Proof.
  intros P V conv pid t m Hm. exists (res_push m t []). split; [reflexivity|].
  rewrite C13_res_push_registers, Hm. reflexivity.
Qed.

(* non-vacuity on the wire (the replies of seeded/C13-6): partition count of the only topic replaced by 0 and
   by -1 (the entries still follow: ignored), an unrequested topic without partitions appended, ListOffsets v1,
   fetch_topic_offsets, Consumer creation *)
Definition xc_c0 : client :=
  {| cfg := default_config [tag "b1:9092"];
     cs := {| correlation := 0; brokers := [{| b_node := 1; b_host := tag "b1:9092" |}];
              topic_partitions := [(tag "u", [0; 0])]; group_coordinators := [] |};
     conns := [tag "b1:9092"] |}.
Definition xc_po (id : Z) : bytes := enc_i32 id ++ enc_i16 0 ++ enc_i32 1 ++ enc_i64 42.
Definition xc_off_count (n : Z) : bytes :=
  enc_i32 1 ++ enc_i32 1 ++ xc_str (tag "u") ++ enc_i32 n ++ xc_po 0 ++ xc_po 1.
Definition xc_off_ghost : bytes :=
  enc_i32 1 ++ enc_i32 2 ++ xc_str (tag "u") ++ enc_i32 2 ++ xc_po 0 ++ xc_po 1 ++ xc_str (tag "ghost") ++ enc_i32 0.
Definition xc_lo_count (n : Z) : bytes := enc_i32 1 ++ enc_i32 1 ++ xc_str (tag "u") ++ enc_i32 n.

Example ex_offsets_topic_without_partitions :
  fst (fetch_offsets [tag "u"] (-1) (ex_st (xc_reply (xc_off_count 2)) xc_c0 false)) = Ok [(tag "u", [(0, 42); (1, 42)])]
  /\ fst (fetch_offsets [tag "u"] (-1) (ex_st (xc_reply (xc_off_count 0)) xc_c0 false)) = Ok [(tag "u", [])]
  /\ fst (fetch_offsets [tag "u"] (-1) (ex_st (xc_reply (xc_off_count (-1))) xc_c0 false)) = Ok [(tag "u", [])]
  /\ fst (fetch_offsets [tag "u"] (-1) (ex_st (xc_reply xc_off_ghost) xc_c0 false))
     = Ok [(tag "u", [(0, 42); (1, 42)]); (tag "ghost", [])]
  /\ fst (fetch_topic_offsets (tag "u") (-1) (ex_st (xc_reply (xc_off_count 0)) xc_c0 false))
     = Err (EKafka KC_UnknownTopicOrPartition)
  /\ fst (list_offsets [tag "u"] (-1) (ex_st (xc_reply (xc_lo_count 0)) xc_c0 false)) = Ok [(tag "u", [])]
  /\ fst (list_offsets [tag "u"] (-1) (ex_st (xc_reply (xc_lo_count (-1))) xc_c0 false)) = Ok [(tag "u", [])]
  /\ is_ok (fst (consumer_create (inr xc_c0) [CWithTopic (tag "u")] (ex_st (xc_reply (xc_off_count 0)) xc_c0 false))) = true.
Proof. vm_compute. repeat split; reflexivity. Qed.

(* ====================================================================== *)
(* Part C: "returns a value or an error" - no out-of-fuel either           *)
(* ====================================================================== *)
Lemma nfr_bind {A B} (r : res A) (f : A -> res B) :
  r <> Err EOutOfFuel -> (forall a, f a <> Err EOutOfFuel) -> bind r f <> Err EOutOfFuel.
Proof. destruct r as [a|e|w]; cbn [bind]; intros Hr Hf; [apply Hf| |discriminate]. intros E. apply Hr. inversion E. reflexivity. Qed.
Lemma no_panic_nfr {A} (r : res A) : no_panic r -> r <> Err EOutOfFuel.
Proof. intros H E. rewrite E in H. exact H. Qed.

(* ---- request encoders ------------------------------------------------------------------ *)
Lemma nfr_enc_metadata_req corr cid topics : enc_metadata_req corr cid topics <> Err EOutOfFuel.
Proof.
  unfold enc_metadata_req. apply nfr_bind; [apply enc_header_nofuel|]. intros h.
  apply nfr_bind; [|intros ts; discriminate]. apply enc_array_nofuel. intros x. apply enc_str_nofuel.
Qed.
Lemma nfr_enc_offset_req corr cid tps : enc_offset_req corr cid tps <> Err EOutOfFuel.
Proof.
  unfold enc_offset_req. apply nfr_bind; [apply enc_header_nofuel|]. intros h.
  apply nfr_bind; [|intros b; discriminate]. apply enc_tps_nofuel. intros [p t]. discriminate.
Qed.
Lemma nfr_enc_list_offsets_req corr cid tps : enc_list_offsets_req corr cid tps <> Err EOutOfFuel.
Proof.
  unfold enc_list_offsets_req. apply nfr_bind; [apply enc_header_nofuel|]. intros h.
  apply nfr_bind; [|intros b; discriminate]. apply enc_tps_nofuel. intros [p t]. discriminate.
Qed.
Lemma nfr_enc_bytes b : enc_bytes b <> Err EOutOfFuel.
Proof. unfold enc_bytes. destruct (_ <=? _); discriminate. Qed.
Lemma nfr_enc_opt_bytes o : enc_opt_bytes o <> Err EOutOfFuel.
Proof. destruct o; cbn [enc_opt_bytes]; [apply nfr_enc_bytes|discriminate]. Qed.
Lemma nfr_enc_message magic attr m : enc_message magic attr m <> Err EOutOfFuel.
Proof.
  unfold enc_message. apply nfr_bind; [apply nfr_enc_opt_bytes|]. intros k.
  apply nfr_bind; [apply nfr_enc_opt_bytes|]. intros v. cbv zeta. discriminate.
Qed.
Lemma nfr_enc_partition_produce cz compression p ms : enc_partition_produce cz compression p ms <> Err EOutOfFuel.
Proof.
  unfold enc_partition_produce, enc_messages.
  apply nfr_bind; [apply enc_all_nofuel; intros x; apply nfr_enc_message|]. intros buf.
  apply nfr_bind.
  - destruct (_ =? _); [discriminate|]. destruct (_ =? _); apply nfr_enc_message.
  - intros buf'. apply nfr_bind; [apply nfr_enc_bytes|]. intros b. discriminate.
Qed.
Lemma nfr_enc_produce_req cz corr cid acks timeout compression tps :
  enc_produce_req cz corr cid acks timeout compression tps <> Err EOutOfFuel.
Proof.
  unfold enc_produce_req. apply nfr_bind; [apply enc_header_nofuel|]. intros h.
  apply nfr_bind; [|intros b; discriminate]. apply enc_array_nofuel. intros [t ps].
  apply nfr_bind; [apply enc_str_nofuel|]. intros n.
  apply nfr_bind; [|intros b; discriminate]. unfold enc_array_unchecked.
  apply nfr_bind; [|intros b; discriminate]. apply enc_all_nofuel. intros [p ms]. apply nfr_enc_partition_produce.
Qed.

(* ---- decoders ------------------------------------------------------------------------------ *)
Lemma nf_dec_metadata_resp : nf dec_metadata_resp.
Proof. intros b. apply no_panic_nfr, C13_decode_metadata. Qed.
Lemma nf_dec_offset_resp : nf dec_offset_resp.
Proof. intros b. apply no_panic_nfr, C13_decode_offsets. Qed.
Lemma nf_dec_list_offsets_resp : nf dec_list_offsets_resp.
Proof. intros b. apply no_panic_nfr, C13_decode_list_offsets. Qed.
Lemma nf_dec_produce_resp : nf dec_produce_resp.
Proof. intros b. apply no_panic_nfr, C13_decode_produce. Qed.

(* ---- the monad --------------------------------------------------------------------------------- *)
Lemma nofuel_get_env : nofuel get_env.
Proof. intros s r s' H. inversion H; subst. discriminate. Qed.
Lemma nofuel_set_cs x : nofuel (set_cs x).
Proof. unfold set_cs. apply nofuel_bind; [apply nofuel_get_client|intros c; apply nofuel_set_client]. Qed.
Lemma nofuel_next_corr : nofuel next_corr.
Proof.
  unfold next_corr. apply nofuel_bind; [apply nofuel_get_client|]. intros c.
  destruct (next_correlation_id (cs c)) as [n s'].
  apply nofuel_bind; [apply nofuel_set_cs|intros _; apply nofuel_ret].
Qed.
Lemma nofuel_pop_hosts : nofuel pop_hosts.
Proof. intros s r s' H. unfold pop_hosts in H. destruct (hostq s); inversion H; subst; discriminate. Qed.
Lemma nofuel_ordered {V} (reqs : list (bytes * V)) : nofuel (ordered reqs).
Proof.
  unfold ordered. destruct reqs as [|x r]; [apply nofuel_ret|].
  apply nofuel_bind; [apply nofuel_pop_hosts|intros o; apply nofuel_ret].
Qed.

(* ---- metadata ------------------------------------------------------------------------------------ *)
Lemma nofuel_fetch_metadata_hosts corr topics : forall hs, nofuel (fetch_metadata_hosts corr topics hs).
Proof.
  induction hs as [|h r IH]; cbn [fetch_metadata_hosts]; [apply nofuel_fail; discriminate|].
  apply nofuel_bind; [apply nofuel_get_client|]. intros c.
  apply nofuel_bind; [apply nofuel_mtry|]. intros rc. destruct rc; try exact IH.
  apply nofuel_bind; [apply nofuel_mtry|]. intros rs. destruct rs; try exact IH.
  apply get_response_nofuel, nf_dec_metadata_resp.
Qed.
Lemma nofuel_fetch_metadata topics : nofuel (fetch_metadata topics).
Proof.
  unfold fetch_metadata. apply nofuel_bind; [apply nofuel_next_corr|]. intros corr.
  apply nofuel_bind; [apply nofuel_get_client|]. intros c. apply nofuel_fetch_metadata_hosts.
Qed.
Lemma nofuel_load_metadata topics : nofuel (load_metadata topics).
Proof.
  unfold load_metadata. apply nofuel_bind; [apply nofuel_fetch_metadata|]. intros md.
  apply nofuel_bind; [apply nofuel_get_client|]. intros c.
  apply nofuel_bind; [|intros s'; apply nofuel_set_cs].
  apply nofuel_lift. destruct (C13_metadata_update_total (cs c) md) as [s' ->]. discriminate.
Qed.
Lemma nofuel_load_metadata_all : nofuel load_metadata_all.
Proof.
  unfold load_metadata_all, reset_metadata.
  apply nofuel_bind; [|intros _; apply nofuel_load_metadata].
  apply nofuel_bind; [apply nofuel_get_client|intros c; apply nofuel_set_cs].
Qed.

(* ---- offsets ---------------------------------------------------------------------------------------- *)
Lemma nfr_merge_topics {P V} (conv : P -> V + Z) pid tps m : merge_topics conv pid tps m <> Err EOutOfFuel.
Proof.
  pose proof (C13_merge_topics_outcomes P V conv pid tps m) as H. intros E. rewrite E in H.
  destruct H as (t & ps & p & c & _ & He). discriminate He.
Qed.
Lemma nofuel_offsets_exchange {P V} enc (d : dec (Z * list (bytes * list P))) (conv : P -> V + Z) pid :
  (forall tps, enc tps <> Err EOutOfFuel) -> nf d ->
  forall reqs m, nofuel (offsets_exchange enc d conv pid reqs m).
Proof.
  intros He Hd. induction reqs as [|[h tps] r IH]; intros m; cbn [offsets_exchange]; [apply nofuel_ret|].
  apply nofuel_bind; [apply send_receive_nofuel; [exact Hd|apply He]|]. intros [c rtps].
  apply nofuel_bind; [apply nofuel_lift, nfr_merge_topics|]. intros m'. apply IH.
Qed.
Lemma nofuel_fetch_offsets topics time : nofuel (fetch_offsets topics time).
Proof.
  unfold fetch_offsets. apply nofuel_bind; [apply nofuel_next_corr|]. intros corr.
  apply nofuel_bind; [apply nofuel_get_client|]. intros c.
  apply nofuel_bind; [apply nofuel_ordered|]. intros reqs.
  apply nofuel_offsets_exchange; [intros tps; apply nfr_enc_offset_req|apply nf_dec_offset_resp].
Qed.
Lemma nofuel_list_offsets topics time : nofuel (list_offsets topics time).
Proof.
  unfold list_offsets. apply nofuel_bind; [apply nofuel_next_corr|]. intros corr.
  apply nofuel_bind; [apply nofuel_get_client|]. intros c.
  apply nofuel_bind; [apply nofuel_ordered|]. intros reqs.
  apply nofuel_offsets_exchange; [intros tps; apply nfr_enc_list_offsets_req|apply nf_dec_list_offsets_resp].
Qed.
Lemma nofuel_fetch_topic_offsets topic time : nofuel (fetch_topic_offsets topic time).
Proof.
  unfold fetch_topic_offsets. apply nofuel_bind; [apply nofuel_fetch_offsets|]. intros m.
  destruct (assoc_bytes topic m) as [[|x xs]|]; [apply nofuel_fail; discriminate|apply nofuel_ret|apply nofuel_fail; discriminate].
Qed.

(* ---- produce ------------------------------------------------------------------------------------------ *)
Lemma nofuel_produce_exchange corr acks timeout : forall reqs acc, nofuel (produce_exchange corr acks timeout reqs acc).
Proof.
  induction reqs as [|[h tps] r IH]; intros acc; cbn [produce_exchange]; [apply nofuel_ret|].
  apply nofuel_bind; [apply nofuel_get_client|]. intros c.
  apply nofuel_bind; [apply nofuel_get_env|]. intros e. cbv zeta.
  destruct (acks =? 0).
  - apply nofuel_bind; [apply nofuel_get_conn|]. intros _.
    apply nofuel_bind; [apply send_request_nofuel, nfr_enc_produce_req|]. intros _. apply IH.
  - apply nofuel_bind; [apply send_receive_nofuel; [apply nf_dec_produce_resp|apply nfr_enc_produce_req]|].
    intros [cr rtps]. apply IH.
Qed.
Lemma nofuel_produce_messages acks t msgs : nofuel (produce_messages acks t msgs).
Proof.
  unfold produce_messages, internal_produce_messages.
  apply nofuel_bind; [apply nofuel_lift; unfold to_millis_i32; destruct (_ <? _); discriminate|]. intros t'.
  apply nofuel_bind; [apply nofuel_next_corr|]. intros corr.
  apply nofuel_bind; [apply nofuel_get_client|]. intros c.
  destruct (produce_reqs (cs c) msgs []) as [reqs|]; [|apply nofuel_fail; discriminate].
  apply nofuel_bind; [apply nofuel_ordered|]. intros reqs'. apply nofuel_produce_exchange.
Qed.

Lemma no_panic_of {A} (m : M A) s : mnp m -> nofuel m -> no_panic (fst (m s)).
Proof.
  intros Hp Hf. specialize (Hp s). destruct (m s) as [r s'] eqn:E. cbn [fst] in *.
  pose proof (Hf _ _ _ E) as Hn. destruct r as [a|e|w]; cbn [no_panic npb] in *; auto.
  destruct e; auto.
Qed.

(* Metadata, Offset, ListOffsets and Produce: whatever the brokers send (and however the connections behave),
   every one of these public operations ends with Ok or with an error the real client returns as well -
   never a panic (C13_client_ops_no_panic) and never the model's out-of-fuel error, i.e. none of the loops
   behind them (bootstrap hosts, per-host requests, write_all, read_exact, chunked frame reads, Vec decoding,
   merging) can run longer than the configuration plus the delivered bytes allow. *)
Theorem C13_client_ops_total : forall s,
  (forall topics, no_panic (fst (fetch_metadata topics s)))
  /\ (forall topics, no_panic (fst (load_metadata topics s)))
  /\ no_panic (fst (load_metadata_all s))
  /\ (forall topics time, no_panic (fst (fetch_offsets topics time s)))
  /\ (forall topics time, no_panic (fst (list_offsets topics time s)))
  /\ (forall topic time, no_panic (fst (fetch_topic_offsets topic time s)))
  /\ (forall acks timeout msgs, no_panic (fst (produce_messages acks timeout msgs s))).
Proof.
  intros s. repeat split; intros.
  - apply no_panic_of; [apply mnp_fetch_metadata|apply nofuel_fetch_metadata].
  - apply no_panic_of; [apply mnp_load_metadata|apply nofuel_load_metadata].
  - apply no_panic_of; [apply mnp_load_metadata_all|apply nofuel_load_metadata_all].
  - apply no_panic_of; [apply mnp_fetch_offsets|apply nofuel_fetch_offsets].
  - apply no_panic_of; [apply mnp_list_offsets|apply nofuel_list_offsets].
  - apply no_panic_of; [apply mnp_fetch_topic_offsets|apply nofuel_fetch_topic_offsets].
  - apply no_panic_of; [apply mnp_produce_messages|apply nofuel_produce_messages].
Qed.

(* the same as an exhaustive case split, for one operation that goes through all the layers *)
Corollary C13_fetch_offsets_value_or_error : forall topics time s,
  (exists m, fst (fetch_offsets topics time s) = Ok m)
  \/ (exists e, fst (fetch_offsets topics time s) = Err e /\ e <> EOutOfFuel).
Proof.
  intros topics time s. pose proof (proj1 (proj2 (proj2 (proj2 (C13_client_ops_total s)))) topics time) as H.
  destruct (fst (fetch_offsets topics time s)) as [m|e|w]; cbn [no_panic] in H.
  - left. exists m. reflexivity.
  - right. exists e. split; [reflexivity|]. intros ->. exact H.
  - contradiction.
Qed.

(* non-vacuity: value, broker-made error, transport-made error (the script ends inside the frame: the model's
   EOutOfScript is the test harness running dry, not out-of-fuel), a count of 2^31-1, a negative frame size *)
Example ex_client_ops_total :
  fst (fetch_offsets [tag "u"] (-1) (ex_st (xc_reply (xc_off_count 2)) xc_c0 false)) = Ok [(tag "u", [(0, 42); (1, 42)])]
  /\ fst (fetch_offsets [tag "u"] (-1) (ex_st (xc_reply (xc_off_count 2147483647)) xc_c0 false)) = Err (EIo IoUnexpectedEof)
  /\ fst (fetch_offsets [tag "u"] (-1) (ex_st [OWrote 100000; OData (enc_i32 (-1))] xc_c0 false)) = Err ECodec
  /\ fst (fetch_offsets [tag "u"] (-1) (ex_st [OWrote 100000; OData (enc_i32 2147483647); OData [x00]; OData []] xc_c0 false))
     = Err (EIo IoUnexpectedEof)
  /\ fst (fetch_offsets [tag "u"] (-1) (ex_st [OWrote 100000; OData (enc_i32 100)] xc_c0 false)) = Err EOutOfScript
  /\ fst (load_metadata_all (ex_st (xc_reply (enc_i32 1 ++ enc_i32 0 ++ enc_i32 (-7))) xc_c0 false)) = Ok tt
  /\ fst (produce_messages 1 (1, 0) [{| pq_topic := tag "u"; pq_partition := 0; pq_key := None; pq_value := Some (tag "v") |}]
            (ex_st (xc_reply (enc_i32 1 ++ enc_i32 (-1))) xc_c0 false)) = Ok [].
Proof. vm_compute. repeat split; reflexivity. Qed.

Print Assumptions C13_group_coordinator_checked.
Print Assumptions C13_cleared_state_has_no_coordinator.
Print Assumptions C13_stale_coordinator_asks_again.
Print Assumptions C13_merge_topics_outcomes.
Print Assumptions C13_merge_topics_empty_topic.
Print Assumptions C13_res_push_registers.
Print Assumptions C13_res_push_other.
Print Assumptions C13_merge_single_empty_topic.
Print Assumptions C13_client_ops_total.
Print Assumptions C13_fetch_offsets_value_or_error.
