(* C10, third adequacy pass: the MESSAGES of a fetch response.

   Seeded change C10-5 (`MessageSet::from_slice` stops walking a message set as soon as the rest is not longer than
   the 26 bytes of fixed per-entry overhead; an entry whose key is null/empty AND whose value is null/empty is exactly
   26 bytes long, so such a message in LAST place - of a partition's set, or of the inner set of a gzip/snappy batch -
   is silently dropped).  Model counterpart: `Responses.ms_loop` (the `match bs with [] => Ok (rev acc)` test).

   What Props/C10.v said before this file: the only fetch statements were C10_fetch_passthrough (restricted to
   `wf_fetch_nomsgs`: every message set EMPTY), C10_fetch_part_ok / _err (views) and C10_fetch_exchange_all /
   C10_fetch_messages_all (which take the decoded responses as given).  Nothing spoke about a message.  Confirmed in
   a scratch copy of the model with the change mirrored (`if (length bs <=? 26)%nat then Ok (rev acc) else ...` in
   front of ms_loop's match): Props/C10.v with all of C10Facts / C10Extra / C10ExtraB recompiles UNCHANGED, i.e. the
   seed was not covered by C10 (it is caught by Props/C02.v, e.g. C02_plain_prefix, which C10 did not use).

   Seeded change C10-6 (a partition with a non-zero error code loses its leader; model counterpart
   `ClientState.sync_partitions`) IS covered: C10_update_metadata_routing, C10_metadata_routing,
   C10_leader_entry_listed (and what is built on them) quantify over every `pm_error` / `wpm_error` and determine
   the leader from `pm_leader` alone.  Confirmed in a scratch copy with the change mirrored: the negation of the
   statement of C10_update_metadata_routing is proved there on the seed's cluster (brokers 1, 2 listed; partition 1
   with error 9 and leader 2 comes back without a leader).  Section 5 below only adds the seed's cluster as a
   concrete regression example on the wire.

   New here (all about the UNCHANGED model; the broker-side reading of a message set is Spec/MsgSetSpec.v, the
   response grammar is Spec/RespGrammar.v, the message-set lemmas reused are those of Proofs/C02Facts.v):

   1. `fc_part`: the CONTENT of one partition of a fetch response as a broker holds it - partition id, error code,
      high-watermark, the log entries (MsgSetSpec.entry: plain messages with optional key/value, compressed
      batches) and the number of bytes of their serialisation that the broker sends (it may cut anywhere).
      `fc_wire_resp` renders a response of such partitions with the independent printers.
   2. `delivered comp es k`: the messages a reader has to get from the first k bytes of `ser comp es`, defined on
      the spec side only: for plain entries all entries lying completely within the k bytes, for a leading batch
      all its inner messages if the batch is complete (else none).
   3. C10_message_set_delivered: `from_slice` returns exactly `delivered`, filtered by the requested offset.
   4. C10_fetch_content_decode: the whole response, any number of topics/partitions, null names/arrays, anything
      behind it: `fetch_from_vec` returns topic names, partition ids, error codes, high-watermarks AND messages
      exactly as sent, in the order sent, each partition filtered by the offset requested for IT.
      C10_fetch_content_complete: when nothing is cut and all entries are plain, `delivered` is all messages.
   5. C10_last_message_kept / C10_last_message_in_batch_kept: the seed's shape spelled out - whatever key and value
      the LAST entry has (null, empty, anything), it is the last message returned.
   6. C10_fetch_one_content / C10_fetch_exchange_content: the same through the socket - request written, one frame
      read, decoded: one round of `fetch_messages` (C10Extra.fetch_one, the unit `fexchanges` is made of, so
      C10_fetch_exchange_all / C10_fetch_messages_all apply to it) returns exactly the content sent.
   On the mutated model these are false: the negation of the statement of C10_last_message_kept is proved there
   with the witness of C10_last_message_kept_ex (the 26-byte entry `Plain 21 None None` behind one message), and the
   partition of the seed's demonstration whose only message is empty decodes to no message at all.

   Not done / not proved:
   - batches that are not in first place and messages behind a batch: the client (and the model) return only the
     FIRST batch of a set (finding recorded by C02_full_refuted); `simple_log` therefore allows all-plain sets and
     sets that START with a batch of plain messages.  Nested batches: see C02_nested_first / C02_chain.
   - several brokers in one call with content: iterate C10_fetch_one_content along `fexchanges` (each round leaves
     client, order hints and the rest of the script alone: `only_io`); only the one-broker corollary is stated.
   - a connection that has to be opened first, a frame delivered in short reads: the hypotheses of
     C10_fetch_one_content fix the pooled connection and the read pattern of C02ExtraB.chunk_list. *)
From Coq Require Import ZifyBool.
From KV Require Import Base.Prelude Base.Crc32 Base.Snappy Gen.ErrorCodes Gen.Consts
                       Model.Codecs Model.Requests Model.Responses
                       Model.ClientState Model.Net Model.Client
                       Spec.MsgSetSpec Spec.RespGrammar
                       Proofs.BytesFacts Proofs.C10Facts Proofs.C02Lemmas Proofs.C02Facts Proofs.C02Extra.
From KV Require Proofs.C02ExtraB Proofs.C10Extra.

(* ================================================================================== *)
(* 1. content of a fetch response                                                     *)
(* ================================================================================== *)
Record fc_part := { fc_partition : Z; fc_error : Z; fc_highwater : Z;
                    fc_log : list entry;      (* what the broker's log holds from the fetch position on *)
                    fc_cut : nat }.           (* how many bytes of it are sent *)

Definition fc_wire (comp : Z -> bytes -> bytes) (p : fc_part) : w_fetch_part :=
  {| wfe_partition := fc_partition p; wfe_error := fc_error p; wfe_highwater := fc_highwater p;
     wfe_message_set := firstn (fc_cut p) (ser comp (fc_log p)) |}.
Definition fc_wire_topic (comp : Z -> bytes -> bytes) (t : w_topic fc_part) : w_topic w_fetch_part :=
  {| wt_name := wt_name t; wt_partitions := option_map (map (fc_wire comp)) (wt_partitions t) |}.
Definition fc_wire_resp (comp : Z -> bytes -> bytes) (r : w_topics_resp fc_part) : w_topics_resp w_fetch_part :=
  {| wr_corr := wr_corr r; wr_topics := option_map (map (fc_wire_topic comp)) (wr_topics r) |}.

(* ================================================================================== *)
(* 2. what has to come out of the first k bytes of a log                              *)
(* ================================================================================== *)
Definition delivered (comp : Z -> bytes -> bytes) (es : list entry) (k : nat) : list (Z * bytes * bytes) :=
  match es with
  | Wrapper c off inner :: _ =>
      if Nat.leb (length (ser_entry comp (Wrapper c off inner))) k then flatten inner else []
  | _ => flatten (complete_prefix comp es k)
  end.

(* all entries plain, or a leading batch of plain messages (followed by anything) *)
Definition simple_log (es : list entry) : Prop :=
  all_plain es \/ exists c off inner rest, es = Wrapper c off inner :: rest /\ all_plain inner.

Lemma C10_delivered_plain comp es k : all_plain es -> delivered comp es k = flatten (complete_prefix comp es k).
Proof.
  intros H. destruct es as [|[o key v|c o inner] r]; try reflexivity.
  destruct (H (Wrapper c o inner)) as [o' [k' [v' E]]]; [left; reflexivity|discriminate E].
Qed.

(* nothing cut, all plain: every message *)
Lemma C10_delivered_complete comp es k :
  all_plain es -> (length (ser comp es) <= k)%nat -> delivered comp es k = flatten es.
Proof. intros Hp Hk. rewrite C10_delivered_plain by exact Hp. rewrite complete_prefix_all by exact Hk. reflexivity. Qed.

(* a complete leading batch: every inner message *)
Lemma C10_delivered_batch comp c off inner rest k :
  (length (ser_entry comp (Wrapper c off inner)) <= k)%nat -> delivered comp (Wrapper c off inner :: rest) k = flatten inner.
Proof. intros Hk. cbn [delivered]. apply Nat.leb_le in Hk. rewrite Hk. reflexivity. Qed.

(* ================================================================================== *)
(* 3. one message set                                                                 *)
(* ================================================================================== *)
Theorem C10_message_set_delivered : forall comp cz d validate req es k,
  codec_ok cz comp -> simple_log es -> wf_entries comp es ->
  from_slice cz (S (S d)) validate req (firstn k (ser comp es))
  = Ok (map msg_of (filter (fun x => req <=? fst (fst x)) (delivered comp es k))).
Proof.
  intros comp cz d validate req es k Hc [Hp|(c & off & inner & r & -> & Hin)] Hwf.
  - rewrite C10_delivered_plain by exact Hp. apply C02_plain_prefix; assumption.
  - cbn [delivered]. inversion Hwf as [|e l Hw Hr]; subst e l.
    destruct (Nat.leb (length (ser_entry comp (Wrapper c off inner))) k) eqn:E.
    + apply Nat.leb_le in E.
      pose proof (proj1 (wf_entry_wrapper comp c off inner) Hw) as [Hcc _].
      apply (C02_wrapper_first comp cz d validate req c off inner r k Hc Hcc Hin Hw E).
    + apply Nat.leb_gt in E.
      rewrite (C02_wrapper_cut comp cz (S d) validate req c off inner r k Hw E). reflexivity.
Qed.

(* ================================================================================== *)
(* 4. the whole response                                                              *)
(* ================================================================================== *)
Definition fc_view_part comp (reqs : fetch_tps) (tname : bytes) (p : fc_part) : fetch_part :=
  {| fp_partition := fc_partition p;
     fp_data := match from_protocol (fc_error p) with
                | Some c => inr c
                | None => inl (fc_highwater p,
                               map msg_of (filter (fun x => req_lookup reqs tname (fc_partition p) <=? fst (fst x))
                                                  (delivered comp (fc_log p) (fc_cut p))))
                end |}.
Definition fc_view_topic comp (reqs : fetch_tps) (t : w_topic fc_part) : fetch_topic :=
  {| ft_topic := view_str (wt_name t);
     ft_partitions := view_arr (fc_view_part comp reqs (view_str (wt_name t))) (wt_partitions t) |}.
Definition fc_view comp (reqs : fetch_tps) (r : w_topics_resp fc_part) : fetch_resp :=
  {| fr_corr := wr_corr r; fr_topics := view_arr (fc_view_topic comp reqs) (wr_topics r) |}.

Lemma fc_view_part_eq comp cz d validate reqs tname p :
  codec_ok cz comp -> simple_log (fc_log p) -> wf_entries comp (fc_log p) ->
  exposed cz (S (S d)) validate reqs tname (fc_wire comp p)
  = Ok (map msg_of (filter (fun x => req_lookup reqs tname (fc_partition p) <=? fst (fst x))
                           (delivered comp (fc_log p) (fc_cut p)))).
Proof.
  intros Hc Hs Hw. unfold exposed, fc_wire. cbn [wfe_partition wfe_message_set].
  apply C10_message_set_delivered; assumption.
Qed.

Theorem C10_fetch_content_decode : forall comp cz d validate reqs (r : w_topics_resp fc_part) rest,
  codec_ok cz comp -> wf_fetch (fc_wire_resp comp r) ->
  (forall t p, In t (view_list (wr_topics r)) -> In p (view_list (wt_partitions t)) ->
     simple_log (fc_log p) /\ wf_entries comp (fc_log p)) ->
  fetch_from_vec cz (S (S d)) validate reqs (print_fetch (fc_wire_resp comp r) ++ rest)
  = Ok (fc_view comp reqs r).
Proof.
  intros comp cz d validate reqs r rest Hc Hwf Hlogs.
  rewrite C02_response; [| exact Hwf |].
  - f_equal. unfold view_fresp, fc_view, fc_wire_resp. cbn [wr_corr wr_topics]. f_equal.
    destruct (wr_topics r) as [ts|]; cbn [option_map view_arr view_list] in *; [|reflexivity].
    rewrite map_map. apply map_ext_in. intros t Ht.
    unfold view_ftopic, fc_view_topic, fc_wire_topic. cbn [wt_name wt_partitions]. f_equal.
    specialize (Hlogs t).
    destruct (wt_partitions t) as [ps|]; cbn [option_map view_arr view_list] in *; [|reflexivity].
    rewrite map_map. apply map_ext_in. intros p Hp.
    destruct (Hlogs p Ht Hp) as [Hs Hw].
    unfold view_part, fc_view_part.
    rewrite (fc_view_part_eq comp cz d validate reqs (view_str (wt_name t)) p Hc Hs Hw).
    reflexivity.
  - intros t p Ht Hp. unfold fc_wire_resp in Ht. cbn [wr_topics] in Ht.
    destruct (wr_topics r) as [ts|]; cbn [option_map view_list] in *; [|destruct Ht].
    apply in_map_iff in Ht. destruct Ht as [t0 [<- Ht0]].
    unfold fc_wire_topic in Hp. cbn [wt_partitions wt_name] in *.
    specialize (Hlogs t0).
    destruct (wt_partitions t0) as [ps|]; cbn [option_map view_list] in *; [|destruct Hp].
    apply in_map_iff in Hp. destruct Hp as [p0 [<- Hp0]].
    destruct (Hlogs p0 Ht0 Hp0) as [Hs Hw].
    eexists. apply (fc_view_part_eq comp cz d validate reqs (view_str (wt_name t0)) p0 Hc Hs Hw).
Qed.

(* every partition plain and sent completely (what the property's "well-formed response produced from arbitrary
   content" is): the explicit answer, every message at or above the requested offset, nothing else *)
Definition fc_view_part_all (reqs : fetch_tps) (tname : bytes) (p : fc_part) : fetch_part :=
  {| fp_partition := fc_partition p;
     fp_data := match from_protocol (fc_error p) with
                | Some c => inr c
                | None => inl (fc_highwater p,
                               map msg_of (filter (fun x => req_lookup reqs tname (fc_partition p) <=? fst (fst x))
                                                  (flatten (fc_log p))))
                end |}.
Definition fc_view_all (reqs : fetch_tps) (r : w_topics_resp fc_part) : fetch_resp :=
  {| fr_corr := wr_corr r;
     fr_topics := view_arr (fun t => {| ft_topic := view_str (wt_name t);
                                        ft_partitions := view_arr (fc_view_part_all reqs (view_str (wt_name t)))
                                                                  (wt_partitions t) |}) (wr_topics r) |}.

Theorem C10_fetch_content_complete : forall comp cz d validate reqs (r : w_topics_resp fc_part) rest,
  wf_fetch (fc_wire_resp comp r) ->
  (forall t p, In t (view_list (wr_topics r)) -> In p (view_list (wt_partitions t)) ->
     all_plain (fc_log p) /\ wf_entries comp (fc_log p) /\ (length (ser comp (fc_log p)) <= fc_cut p)%nat) ->
  fetch_from_vec cz (S d) validate reqs (print_fetch (fc_wire_resp comp r) ++ rest)
  = Ok (fc_view_all reqs r).
Proof.
  intros comp cz d validate reqs r rest Hwf Hlogs.
  assert (Hexp : forall t p, In t (view_list (wr_topics r)) -> In p (view_list (wt_partitions t)) ->
            exposed cz (S d) validate reqs (view_str (wt_name t)) (fc_wire comp p)
            = Ok (map msg_of (filter (fun x => req_lookup reqs (view_str (wt_name t)) (fc_partition p) <=? fst (fst x))
                                     (flatten (fc_log p))))).
  { intros t p Ht Hp. destruct (Hlogs t p Ht Hp) as (Hpl & Hw & Hk).
    unfold exposed, fc_wire. cbn [wfe_partition wfe_message_set].
    rewrite (C02_plain_prefix comp cz d validate _ (fc_log p) (fc_cut p) Hpl Hw).
    rewrite complete_prefix_all by exact Hk. reflexivity. }
  rewrite C02_response; [| exact Hwf |].
  - f_equal. unfold view_fresp, fc_view_all, fc_wire_resp. cbn [wr_corr wr_topics]. f_equal.
    destruct (wr_topics r) as [ts|]; cbn [option_map view_arr view_list] in *; [|reflexivity].
    rewrite map_map. apply map_ext_in. intros t Ht.
    unfold view_ftopic, fc_wire_topic. cbn [wt_name wt_partitions]. f_equal.
    specialize (Hexp t).
    destruct (wt_partitions t) as [ps|]; cbn [option_map view_arr view_list] in *; [|reflexivity].
    rewrite map_map. apply map_ext_in. intros p Hp.
    unfold view_part, fc_view_part_all. rewrite (Hexp p Ht Hp). reflexivity.
  - intros t p Ht Hp. unfold fc_wire_resp in Ht. cbn [wr_topics] in Ht.
    destruct (wr_topics r) as [ts|]; cbn [option_map view_list] in *; [|destruct Ht].
    apply in_map_iff in Ht. destruct Ht as [t0 [<- Ht0]].
    unfold fc_wire_topic in Hp. cbn [wt_partitions wt_name] in *.
    specialize (Hexp t0).
    destruct (wt_partitions t0) as [ps|]; cbn [option_map view_list] in *; [|destruct Hp].
    apply in_map_iff in Hp. destruct Hp as [p0 [<- Hp0]].
    eexists. apply (Hexp p0 Ht0 Hp0).
Qed.

(* ================================================================================== *)
(* 5. the seed's shape: whatever the last entry carries, it is returned               *)
(* ================================================================================== *)
Lemma fc_flatten_app a b : flatten (a ++ b) = flatten a ++ flatten b.
Proof. unfold flatten. apply flat_map_app. Qed.

Lemma all_plain_snoc es off key value : all_plain es -> all_plain (es ++ [Plain off key value]).
Proof.
  intros H e He. apply in_app_or in He. destruct He as [He|[<-|[]]]; [apply H; exact He|eauto].
Qed.

Theorem C10_last_message_kept : forall comp cz d validate req es off key value,
  all_plain es -> wf_entries comp (es ++ [Plain off key value]) -> req <= off ->
  from_slice cz (S d) validate req (ser comp (es ++ [Plain off key value]))
  = Ok (map msg_of (filter (fun x => req <=? fst (fst x)) (flatten es))
        ++ [{| m_offset := off; m_key := view_opt key; m_value := view_opt value |}]).
Proof.
  intros comp cz d validate req es off key value Hp Hw Hreq.
  pose proof (C02_plain_prefix comp cz d validate req (es ++ [Plain off key value])
                (length (ser comp (es ++ [Plain off key value])))
                (all_plain_snoc es off key value Hp) Hw) as H.
  rewrite firstn_all in H. rewrite H. rewrite complete_prefix_all by lia.
  rewrite fc_flatten_app, filter_app, map_app. f_equal. f_equal.
  cbn [flatten flat_map flatten_entry app filter fst snd].
  destruct (req <=? off) eqn:E; [reflexivity|lia].
Qed.

Theorem C10_last_message_in_batch_kept : forall comp cz d validate req c boff inner off key value rest,
  codec_ok cz comp -> all_plain inner -> wf_entries comp (Wrapper c boff (inner ++ [Plain off key value]) :: rest) ->
  req <= off ->
  from_slice cz (S (S d)) validate req (ser comp (Wrapper c boff (inner ++ [Plain off key value]) :: rest))
  = Ok (map msg_of (filter (fun x => req <=? fst (fst x)) (flatten inner))
        ++ [{| m_offset := off; m_key := view_opt key; m_value := view_opt value |}]).
Proof.
  intros comp cz d validate req c boff inner off key value rest Hc Hp Hw Hreq.
  pose proof (C10_message_set_delivered comp cz d validate req
                (Wrapper c boff (inner ++ [Plain off key value]) :: rest)
                (length (ser comp (Wrapper c boff (inner ++ [Plain off key value]) :: rest))) Hc
                (or_intror (ex_intro _ c (ex_intro _ boff (ex_intro _ _ (ex_intro _ rest
                   (conj eq_refl (all_plain_snoc inner off key value Hp))))))) Hw) as H.
  rewrite firstn_all in H. rewrite H.
  rewrite C10_delivered_batch by (rewrite ser_cons, app_length; lia).
  rewrite fc_flatten_app, filter_app, map_app. f_equal. f_equal.
  cbn [flatten flat_map flatten_entry app filter fst snd].
  destruct (req <=? off) eqn:E; [reflexivity|lia].
Qed.

(* ================================================================================== *)
(* 6. through the socket: one round of fetch_messages for one broker                  *)
(* ================================================================================== *)
(* Hypotheses as in C02_fetch_round_delivered: the connection to h is pooled and has not idled out, the request
   encodes, the stream takes the request frame in one write and then delivers one frame: the size, then
   `print_fetch (fc_wire_resp comp r) ++ extra` in the reads asked for.  Conclusion: the round
   (C10Extra.fetch_one, the body of the loop that C10_fetch_exchange_all / C10_fetch_messages_all iterate)
   returns exactly the content sent, the offsets requested being those of `tps`. *)
Theorem C10_fetch_one_content : forall comp corr h tps s p (r : w_topics_resp fc_part) extra tail,
  in_pool h (conns (cl s)) = true -> idle_expired (cfg (cl s)) = false ->
  enc_fetch_req corr (client_id (cfg (cl s))) (fetch_max_wait_time (cfg (cl s))) (fetch_min_bytes (cfg (cl s)))
                (match assoc_bytes h (fetchq s) with Some o => order_fetch o tps | None => tps end) = Ok p ->
  ulen (print_fetch (fc_wire_resp comp r) ++ extra) <= i32_max ->
  script s = OWrote (ulen (frame p)) :: OData (p_i32 (ulen (print_fetch (fc_wire_resp comp r) ++ extra)))
             :: map OData (C02ExtraB.chunk_list (length (print_fetch (fc_wire_resp comp r) ++ extra))
                                                (print_fetch (fc_wire_resp comp r) ++ extra)) ++ tail ->
  codec_ok (env s) comp -> wf_fetch (fc_wire_resp comp r) ->
  (forall t q, In t (view_list (wr_topics r)) -> In q (view_list (wt_partitions t)) ->
     simple_log (fc_log q) /\ wf_entries comp (fc_log q)) ->
  exists s',
    C10Extra.fetch_one corr h tps s = (Ok (fc_view comp tps r), s')
    /\ script s' = tail /\ C02ExtraB.only_io s s'.
Proof.
  intros comp corr h tps s p r extra tail Hpool Hidle Henc Hmax Hs Hc Hwf Hlogs.
  unfold C10Extra.fetch_one.
  unfold mbind at 1, get_client. unfold mbind at 1, get_env. unfold mbind at 1, get_fetch_order.
  cbv zeta. unfold mbind at 1. rewrite (C02ExtraB.get_conn_pooled h s Hpool Hidle).
  unfold mbind at 1. rewrite Henc.
  destruct (C02ExtraB.send_request_one_write h p s _ Hs) as [s1 [W1 [W2 W3]]]. rewrite W1.
  unfold mbind at 1.
  destruct (C02ExtraB.get_response_bytes_delivered h (print_fetch (fc_wire_resp comp r) ++ extra) s1 tail Hmax W2)
    as [s2 [R1 [R2 R3]]].
  rewrite R1. unfold lift.
  exists s2. split; [|split; [exact R2|eapply C02ExtraB.only_io_trans; eassumption]].
  f_equal.
  apply (C10_fetch_content_decode comp (env s) 6 (fetch_crc_validation (cfg (cl s))) tps r extra Hc Hwf Hlogs).
Qed.

(* hence the whole call for requests that all go to one broker returns one response with that content *)
Corollary C10_fetch_exchange_content : forall comp corr h tps s p (r : w_topics_resp fc_part) extra tail,
  in_pool h (conns (cl s)) = true -> idle_expired (cfg (cl s)) = false ->
  enc_fetch_req corr (client_id (cfg (cl s))) (fetch_max_wait_time (cfg (cl s))) (fetch_min_bytes (cfg (cl s)))
                (match assoc_bytes h (fetchq s) with Some o => order_fetch o tps | None => tps end) = Ok p ->
  ulen (print_fetch (fc_wire_resp comp r) ++ extra) <= i32_max ->
  script s = OWrote (ulen (frame p)) :: OData (p_i32 (ulen (print_fetch (fc_wire_resp comp r) ++ extra)))
             :: map OData (C02ExtraB.chunk_list (length (print_fetch (fc_wire_resp comp r) ++ extra))
                                                (print_fetch (fc_wire_resp comp r) ++ extra)) ++ tail ->
  codec_ok (env s) comp -> wf_fetch (fc_wire_resp comp r) ->
  (forall t q, In t (view_list (wr_topics r)) -> In q (view_list (wt_partitions t)) ->
     simple_log (fc_log q) /\ wf_entries comp (fc_log q)) ->
  exists s', fetch_exchange corr [(h, tps)] [] s = (Ok [fc_view comp tps r], s') /\ script s' = tail.
Proof.
  intros comp corr h tps s p r extra tail Hpool Hidle Henc Hmax Hs Hc Hwf Hlogs.
  destruct (C10_fetch_one_content comp corr h tps s p r extra tail Hpool Hidle Henc Hmax Hs Hc Hwf Hlogs)
    as [s' [H1 [H2 _]]].
  exists s'. split; [|exact H2].
  apply (C10Extra.C10_fetch_exchange_all corr [(h, tps)] s [fc_view comp tps r] s').
  eapply C10Extra.fexch_cons; [exact H1|apply C10Extra.fexch_nil].
Qed.

(* ================================================================================== *)
(* 7. non-vacuity                                                                     *)
(* ================================================================================== *)
(* a message with null key and null value in last place: 26 bytes, and it comes back *)
Example C10_empty_entry_is_26_bytes : length (ser_entry wcomp (Plain 21 None None)) = 26%nat
                                   /\ length (ser_entry wcomp (Plain 30 None (Some []))) = 26%nat.
Proof. split; vm_compute; reflexivity. Qed.

Definition log_p1 : list entry := [Plain 20 (Some [x6b]) (Some [x76; x32; x30])].

Example C10_last_message_kept_hyps :
  all_plain log_p1 /\ wf_entries wcomp (log_p1 ++ [Plain 21 None None]) /\ 0 <= 21.
Proof. split; [plain_tac|]. split; [wf_tac|lia]. Qed.

Example C10_last_message_kept_ex :
  from_slice (wcz true) 1 true 0 (ser wcomp (log_p1 ++ [Plain 21 None None]))
  = Ok [ {| m_offset := 20; m_key := [x6b]; m_value := [x76; x32; x30] |};
         {| m_offset := 21; m_key := []; m_value := [] |} ].
Proof. vm_compute. reflexivity. Qed.

(* the same inside a gzip and a snappy batch, a plain message behind the batch *)
Example C10_last_message_in_batch_kept_hyps :
  codec_ok (wcz true) wcomp /\ all_plain log_p1
  /\ wf_entries wcomp [Wrapper 1 21 (log_p1 ++ [Plain 21 None (Some [])]); Plain 22 None (Some [x7a])]
  /\ wf_entries wcomp [Wrapper 2 21 (log_p1 ++ [Plain 21 (Some []) None])].
Proof. split; [apply wcomp_codec_ok|]. split; [plain_tac|]. split; wf_tac. Qed.

Example C10_last_message_in_batch_kept_ex :
  from_slice (wcz true) 2 true 21 (ser wcomp [Wrapper 1 21 (log_p1 ++ [Plain 21 None (Some [])]); Plain 22 None (Some [x7a])])
  = Ok [ {| m_offset := 21; m_key := []; m_value := [] |} ]
  /\ from_slice (wcz true) 2 true 0 (ser wcomp [Wrapper 2 21 (log_p1 ++ [Plain 21 (Some []) None])])
  = Ok [ {| m_offset := 20; m_key := [x6b]; m_value := [x76; x32; x30] |};
         {| m_offset := 21; m_key := []; m_value := [] |} ].
Proof. split; vm_compute; reflexivity. Qed.

(* the demonstration response of the seed (topic "t": partition 0 with empty messages in front and in the middle,
   partition 1 with an empty message last, partition 2 whose only message is empty), plus partition 3: a gzip
   batch ending in an empty message, partition 4: cut in the middle of its second entry, partition 5: error code,
   and a second topic with a null name and a null array.  Requested: t/0 @11, everything else from 0. *)
Definition ex_content : w_topics_resp fc_part :=
  {| wr_corr := 9;
     wr_topics := Some [
       {| wt_name := Some [x74];
          wt_partitions := Some [
            {| fc_partition := 0; fc_error := 0; fc_highwater := 100;
               fc_log := [Plain 10 None None; Plain 11 (Some [x6b]) (Some [x76; x31; x31]);
                          Plain 12 (Some []) (Some []); Plain 13 None (Some [x76; x31; x33])];
               fc_cut := 1000 |};
            {| fc_partition := 1; fc_error := 0; fc_highwater := 200;
               fc_log := log_p1 ++ [Plain 21 None None]; fc_cut := 56 |};
            {| fc_partition := 2; fc_error := 0; fc_highwater := 300;
               fc_log := [Plain 30 None (Some [])]; fc_cut := 26 |};
            {| fc_partition := 3; fc_error := 0; fc_highwater := 400;
               fc_log := [Wrapper 1 41 [Plain 40 (Some [x6b]) None; Plain 41 None None]; Plain 42 None (Some [x7a])];
               fc_cut := 1000 |};
            {| fc_partition := 4; fc_error := 0; fc_highwater := 500;
               fc_log := [Plain 50 None None; Plain 51 None (Some [x61; x62; x63])]; fc_cut := 50 |};
            {| fc_partition := 5; fc_error := 6; fc_highwater := -1; fc_log := []; fc_cut := 0 |} ] |};
       {| wt_name := None; wt_partitions := None |} ] |}.

Definition exc_reqs : fetch_tps := build_reqs [([x74], 0, 11, 1000)].

Example ex_content_wf : wf_fetch (fc_wire_resp wcomp ex_content).
Proof. unfold wf_fetch, wf_topics_resp, ex_content, fc_wire_resp, fc_wire_topic, wf_array, wf_topic, wf_fetch_part,
         wf_string, wf_array, in_i16, in_i32, in_i64; cbn [wr_corr wr_topics option_map map]. wf_compute. Qed.

Example ex_content_logs : forall t p, In t (view_list (wr_topics ex_content)) -> In p (view_list (wt_partitions t)) ->
  simple_log (fc_log p) /\ wf_entries wcomp (fc_log p).
Proof.
  intros t p Ht Hp. cbn [ex_content wr_topics view_list In] in Ht.
  destruct Ht as [<-|[<-|[]]]; cbn [wt_partitions view_list In] in Hp; [|destruct Hp].
  destruct Hp as [<-|[<-|[<-|[<-|[<-|[<-|[]]]]]]]; cbn [fc_log].
  - split; [left; plain_tac|wf_tac].
  - split; [left; unfold log_p1; cbn [app]; plain_tac|wf_tac].
  - split; [left; plain_tac|wf_tac].
  - split; [right; do 4 eexists; split; [reflexivity|plain_tac]|wf_tac].
  - split; [left; plain_tac|wf_tac].
  - split; [left; apply all_plain_nil|constructor].
Qed.

Example C10_fetch_content_decode_ex :
  fetch_from_vec (wcz true) 2 true exc_reqs (print_fetch (fc_wire_resp wcomp ex_content) ++ [x09])
  = Ok {| fr_corr := 9;
          fr_topics := [
            {| ft_topic := [x74];
               ft_partitions := [
                 {| fp_partition := 0;
                    fp_data := inl (100, [ {| m_offset := 11; m_key := [x6b]; m_value := [x76; x31; x31] |};
                                           {| m_offset := 12; m_key := []; m_value := [] |};
                                           {| m_offset := 13; m_key := []; m_value := [x76; x31; x33] |} ]) |};
                 {| fp_partition := 1;
                    fp_data := inl (200, [ {| m_offset := 20; m_key := [x6b]; m_value := [x76; x32; x30] |};
                                           {| m_offset := 21; m_key := []; m_value := [] |} ]) |};
                 {| fp_partition := 2; fp_data := inl (300, [ {| m_offset := 30; m_key := []; m_value := [] |} ]) |};
                 {| fp_partition := 3;
                    fp_data := inl (400, [ {| m_offset := 40; m_key := [x6b]; m_value := [] |};
                                           {| m_offset := 41; m_key := []; m_value := [] |} ]) |};
                 {| fp_partition := 4; fp_data := inl (500, [ {| m_offset := 50; m_key := []; m_value := [] |} ]) |};
                 {| fp_partition := 5; fp_data := inr (kcode_disc KNotLeaderForPartition) |} ] |};
            {| ft_topic := []; ft_partitions := [] |} ] |}
  /\ fc_view wcomp exc_reqs ex_content
     = match fetch_from_vec (wcz true) 2 true exc_reqs (print_fetch (fc_wire_resp wcomp ex_content) ++ [x09]) with
       | Ok v => v | _ => {| fr_corr := 0; fr_topics := [] |} end.
Proof. split; vm_compute; reflexivity. Qed.

(* the socket-level theorem on the same response: broker b1 leads everything, its connection is pooled; the
   request asks t/0 from offset 11; one byte of the next frame follows in the stream *)
Definition exc_tps : fetch_tps := exc_reqs.
Definition exc_p : bytes :=
  match enc_fetch_req 1 [] (fetch_max_wait_time (cfg C02ExtraB.exb_client)) (fetch_min_bytes (cfg C02ExtraB.exb_client))
                      exc_tps with Ok p => p | _ => [] end.
Definition exc_payload : bytes := print_fetch (fc_wire_resp wcomp ex_content) ++ [].
Definition exc_st : st :=
  {| script := OWrote (ulen (frame exc_p)) :: OData (p_i32 (ulen exc_payload))
               :: map OData (C02ExtraB.chunk_list (length exc_payload) exc_payload) ++ [OData [x09]];
     trace := []; anyq := []; hostq := []; fetchq := []; entryq := [];
     cl := C02ExtraB.exb_client; env := wcz true |}.

Example C10_fetch_one_content_hyps :
  in_pool C02ExtraB.exb_h (conns (cl exc_st)) = true /\ idle_expired (cfg (cl exc_st)) = false
  /\ enc_fetch_req 1 (client_id (cfg (cl exc_st))) (fetch_max_wait_time (cfg (cl exc_st))) (fetch_min_bytes (cfg (cl exc_st)))
                   (match assoc_bytes C02ExtraB.exb_h (fetchq exc_st) with
                    | Some o => order_fetch o exc_tps | None => exc_tps end) = Ok exc_p
  /\ ulen (print_fetch (fc_wire_resp wcomp ex_content) ++ []) <= i32_max
  /\ script exc_st = OWrote (ulen (frame exc_p)) :: OData (p_i32 (ulen (print_fetch (fc_wire_resp wcomp ex_content) ++ [])))
                     :: map OData (C02ExtraB.chunk_list (length (print_fetch (fc_wire_resp wcomp ex_content) ++ []))
                                                        (print_fetch (fc_wire_resp wcomp ex_content) ++ []))
                        ++ [OData [x09]]
  /\ codec_ok (env exc_st) wcomp /\ wf_fetch (fc_wire_resp wcomp ex_content).
Proof.
  split; [vm_compute; reflexivity|]. split; [vm_compute; reflexivity|].
  split; [vm_compute; reflexivity|]. split; [vm_compute; discriminate|].
  split; [reflexivity|]. split; [apply wcomp_codec_ok|apply ex_content_wf].
Qed.

Example C10_fetch_one_content_ex :
  fst (C10Extra.fetch_one 1 C02ExtraB.exb_h exc_tps exc_st) = Ok (fc_view wcomp exc_tps ex_content)
  /\ script (snd (C10Extra.fetch_one 1 C02ExtraB.exb_h exc_tps exc_st)) = [OData [x09]].
Proof. vm_compute. split; reflexivity. Qed.

Check C10_message_set_delivered.
Check C10_fetch_content_decode.
Check C10_fetch_content_complete.
Check C10_last_message_kept.
Check C10_last_message_in_batch_kept.
Check C10_fetch_one_content.
Check C10_fetch_exchange_content.
Check C10_delivered_plain.
Check C10_delivered_complete.
Check C10_delivered_batch.

Print Assumptions C10_message_set_delivered.
Print Assumptions C10_fetch_content_decode.
Print Assumptions C10_fetch_content_complete.
Print Assumptions C10_last_message_kept.
Print Assumptions C10_last_message_in_batch_kept.
Print Assumptions C10_fetch_one_content.
Print Assumptions C10_fetch_exchange_content.
