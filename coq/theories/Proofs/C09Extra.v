(* C09, additional theorems (mutation adequacy).  Clauses of C09 that no theorem of Props/C09.v touches:

   (A) "a correlation id that never decreases and is never shared by two API calls" over HISTORIES that
       interleave id hand-outs with the other operations on the client state (clear_metadata,
       update_metadata, set/remove_group_coordinator) and, at the level of the public operations of
       src/client/mod.rs, over reset_metadata / load_metadata_all / load_metadata / fetch_offsets /
       list_offsets / fetch_messages / produce_messages / the group calls.
       [seeded change C09-3: clear_metadata := ClientState::new() restarts the counter]
   (B) "the header carries the configured client id and [the fresh] correlation id", "max wait, min bytes,
       acks, timeout, group [come from the settings / the arguments]": which arguments the public
       operations hand to the encoders (call_* theorems).
   (C) "restricted to partitions led by the addressed broker": see C09Extra2.v.
   Everything is about the unchanged model; no axioms. *)
From Coq Require Import ZifyBool Sorted.
From KV Require Import Base.Prelude Gen.Consts Model.Codecs Model.Requests Model.Responses
                       Model.ClientState Model.Net Model.Client.
From KV Require Import Proofs.BytesFacts Proofs.NetFacts Proofs.C09Facts.
Ltac Zify.zify_post_hook ::= Z.div_mod_to_equations.

(* ================================================================================================ *)
(* A. correlation ids over histories of the client state (src/client/state.rs)                      *)
(* ================================================================================================ *)

Lemma update_metadata_corr s md s' : update_metadata s md = Ok s' -> correlation s' = correlation s.
Proof.
  unfold update_metadata. destruct (update_brokers s md) as [bs idx].
  destruct (update_topics idx (md_topics md) (topic_partitions s)) as [tps| |]; cbn [bind]; intros H;
    inversion H; subst; reflexivity.
Qed.

Lemma set_group_coordinator_corr s g gc : correlation (snd (set_group_coordinator s g gc)) = correlation s.
Proof. unfold set_group_coordinator. destruct (find_node (brokers s) (gc_broker gc) 0); reflexivity. Qed.

(* every operation ClientState offers; OpNext is the only one that hands out an id *)
Inductive cs_op :=
| OpNext
| OpClear
| OpUpdate (md : metadata_resp)
| OpSetGC (group : bytes) (gc : coordinator_resp)
| OpRemoveGC (group : bytes).

Definition cs_step (s : cstate) (op : cs_op) : list Z * cstate :=
  match op with
  | OpNext => ([fst (next_correlation_id s)], snd (next_correlation_id s))
  | OpClear => ([], clear_metadata s)
  | OpUpdate md => ([], match update_metadata s md with Ok s' => s' | _ => s end)
  | OpSetGC g gc => ([], snd (set_group_coordinator s g gc))
  | OpRemoveGC g => ([], remove_group_coordinator s g)
  end.

(* the ids handed out along a history, in order, and the final state *)
Fixpoint cs_run (ops : list cs_op) (s : cstate) : list Z * cstate :=
  match ops with
  | [] => ([], s)
  | op :: r => (fst (cs_step s op) ++ fst (cs_run r (snd (cs_step s op))), snd (cs_run r (snd (cs_step s op))))
  end.

Definition is_next (op : cs_op) : bool := match op with OpNext => true | _ => false end.
Definition n_next (ops : list cs_op) : nat := length (filter is_next ops).

Lemma cs_step_other s op : is_next op = false ->
  fst (cs_step s op) = [] /\ correlation (snd (cs_step s op)) = correlation s.
Proof.
  destruct op as [| |md|g gc|g]; intros H; try discriminate H; cbn [cs_step fst snd]; split; try reflexivity.
  - destruct (update_metadata s md) as [s'| |] eqn:E; [apply (update_metadata_corr _ _ _ E)|reflexivity|reflexivity].
  - apply set_group_coordinator_corr.
Qed.

Lemma cs_run_ids : forall ops s, 0 <= correlation s ->
  correlation s + Z.of_nat (n_next ops) < CORRELATION_MODULUS ->
  fst (cs_run ops s) = map (fun i => correlation s + Z.of_nat i) (seq 1 (n_next ops)) /\
  correlation (snd (cs_run ops s)) = correlation s + Z.of_nat (n_next ops).
Proof.
  assert (Hm : CORRELATION_MODULUS = 1073741824) by reflexivity.
  induction ops as [|op ops IH]; intros s H0 Hn.
  - cbn. split; [reflexivity|lia].
  - cbn [cs_run fst snd]. destruct (is_next op) eqn:E.
    + destruct op; try discriminate E. unfold n_next in *. cbn [filter is_next length] in *.
      assert (Hr : 0 <= correlation s < CORRELATION_MODULUS - 1) by lia.
      destruct (C09_corr_increases s Hr) as [Hid Hst].
      cbn [cs_step fst snd]. destruct (IH (snd (next_correlation_id s))) as [I1 I2]; [lia|lia|].
      rewrite I1, I2, Hid, Hst. split; [|lia].
      cbn [seq map app]. apply (f_equal2 (@cons Z)); [lia|].
      rewrite <- (seq_shift _ 1), map_map. apply map_ext. intros i. lia.
    + destruct (cs_step_other s op E) as [E1 E2]. rewrite E1. cbn [app].
      assert (En : n_next (op :: ops) = n_next ops) by (unfold n_next; cbn [filter]; rewrite E; reflexivity).
      rewrite En in *. destruct (IH (snd (cs_step s op))) as [I1 I2]; [lia|lia|].
      rewrite I1, I2, E2. split; reflexivity.
Qed.

(* Over ANY history of client-state operations the ids handed out are c+1, c+2, ...: strictly
   increasing, hence never decreasing and never handed out twice (up to the wrap of C09_corr_wrap_refuted). *)
Theorem C09_corr_history : forall ops s, 0 <= correlation s ->
  correlation s + Z.of_nat (n_next ops) < CORRELATION_MODULUS ->
  fst (cs_run ops s) = map (fun i => correlation s + Z.of_nat i) (seq 1 (n_next ops)) /\
  StronglySorted Z.lt (fst (cs_run ops s)) /\ NoDup (fst (cs_run ops s)) /\
  correlation (snd (cs_run ops s)) = correlation s + Z.of_nat (n_next ops).
Proof.
  intros ops s H0 Hn. destruct (cs_run_ids ops s H0 Hn) as [E1 E2].
  assert (Hs : StronglySorted Z.lt (fst (cs_run ops s))) by (rewrite E1; apply sorted_affine_seq).
  split; [exact E1|split; [exact Hs|split; [apply sorted_lt_nodup; exact Hs|exact E2]]].
Qed.

Definition ex_md_a : metadata_resp :=
  {| md_corr := 1;
     md_brokers := [{| bm_node := 1; bm_host := tag "h1"; bm_port := 9092 |}];
     md_topics := [{| tm_error := 0; tm_topic := tag "a";
                      tm_partitions := [{| pm_error := 0; pm_id := 0; pm_leader := 1; pm_replicas := [1]; pm_isr := [1] |}] |}] |}.
(* the history of the seeded demonstration: two ids, clear_metadata, a metadata load, two more ids *)
Example C09_corr_history_ex :
  fst (cs_run [OpNext; OpNext; OpClear; OpUpdate ex_md_a; OpNext; OpSetGC (tag "g") {| gc_corr := 0; gc_error := 0; gc_broker := 1; gc_host := tag "h1"; gc_port := 9092 |}; OpRemoveGC (tag "g"); OpNext] cstate_new)
  = [1; 2; 3; 4].
Proof. vm_compute. reflexivity. Qed.

Theorem C09_clear_metadata_keeps_counter : forall s, correlation (clear_metadata s) = correlation s.
Proof. reflexivity. Qed.

(* ================================================================================================ *)
(* B. the public operations of src/client/mod.rs: which id / client id / settings go to the encoders *)
(*    and what each call does to the counter                                                        *)
(* ================================================================================================ *)

Definition corr_of (x : st) : Z := correlation (cs (cl x)).
(* CORRELATION id arithmetic of next_correlation_id *)
Definition stepc (c : Z) : Z := Z.rem (c + 1) CORRELATION_MODULUS.
(* the state after `self.state.next_correlation_id()`: only the counter differs *)
Definition bump (x : st) : st := snd (set_cs (snd (next_correlation_id (cs (cl x)))) x).

Lemma next_corr_run x : next_corr x = (Ok (stepc (corr_of x)), bump x).
Proof. reflexivity. Qed.

Lemma corr_of_bump x : corr_of (bump x) = stepc (corr_of x).
Proof. reflexivity. Qed.

Lemma bump_frame x :
  script (bump x) = script x /\ trace (bump x) = trace x /\ cfg (cl (bump x)) = cfg (cl x) /\
  conns (cl (bump x)) = conns (cl x) /\ brokers (cs (cl (bump x))) = brokers (cs (cl x)) /\
  topic_partitions (cs (cl (bump x))) = topic_partitions (cs (cl x)) /\
  group_coordinators (cs (cl (bump x))) = group_coordinators (cs (cl x)).
Proof. repeat split. Qed.

(* ---- the id, the client id and the settings each call encodes with ------------------------------ *)
Theorem C09_call_fetch_metadata : forall topics x,
  fetch_metadata topics x
  = fetch_metadata_hosts (stepc (corr_of x)) topics (hosts (cfg (cl x))) (bump x).
Proof. intros. unfold fetch_metadata. rewrite (mbind_ok _ _ _ _ _ (next_corr_run x)). reflexivity. Qed.

Theorem C09_call_fetch_offsets : forall topics time x,
  fetch_offsets topics time x
  = (let+ reqs := ordered (offset_reqs (cs (cl (bump x))) topics time) in
     offsets_exchange (enc_offset_req (stepc (corr_of x)) (Net.client_id (cfg (cl x))))
                      dec_offset_resp to_offset por_partition reqs []) (bump x).
Proof. intros. unfold fetch_offsets. rewrite (mbind_ok _ _ _ _ _ (next_corr_run x)). reflexivity. Qed.

Theorem C09_call_list_offsets : forall topics time x,
  list_offsets topics time x
  = (let+ reqs := ordered (offset_reqs (cs (cl (bump x))) topics time) in
     offsets_exchange (enc_list_offsets_req (stepc (corr_of x)) (Net.client_id (cfg (cl x))))
                      dec_list_offsets_resp lop_to_offset lop_partition reqs []) (bump x).
Proof. intros. unfold list_offsets. rewrite (mbind_ok _ _ _ _ _ (next_corr_run x)). reflexivity. Qed.

Theorem C09_call_fetch_messages : forall input x,
  fetch_messages input x
  = (let+ reqs := ordered (fetch_reqs (cl (bump x)) input) in fetch_exchange (stepc (corr_of x)) reqs []) (bump x).
Proof. intros. unfold fetch_messages. rewrite (mbind_ok _ _ _ _ _ (next_corr_run x)). reflexivity. Qed.

(* one step of fetch_exchange: the request written to host h is the encoding of exactly the entry of
   the request map (in the observed HashMap order), with the configured client id, max wait, min bytes *)
Theorem C09_call_fetch_exchange_step : forall corr h tps r acc x,
  fetch_exchange corr ((h, tps) :: r) acc x
  = (let+ _ := get_conn h in
     let+ _ := send_request h (enc_fetch_req corr (Net.client_id (cfg (cl x))) (fetch_max_wait_time (cfg (cl x)))
                                             (fetch_min_bytes (cfg (cl x)))
                                             (match assoc_bytes h (fetchq x) with Some o => order_fetch o tps | None => tps end)) in
     let+ b := get_response_bytes h in
     let+ resp := lift (fetch_from_vec (env x) decode_depth (fetch_crc_validation (cfg (cl x))) tps b) in
     fetch_exchange corr r (acc ++ [resp])) x.
Proof. intros. reflexivity. Qed.

Theorem C09_call_produce : forall acks timeout msgs x,
  internal_produce_messages acks timeout msgs x
  = match produce_reqs (cs (cl (bump x))) msgs [] with
    | None => (Err (EKafka KC_UnknownTopicOrPartition), bump x)
    | Some reqs => (let+ reqs' := ordered reqs in produce_exchange (stepc (corr_of x)) acks timeout reqs' []) (bump x)
    end.
Proof.
  intros. unfold internal_produce_messages. rewrite (mbind_ok _ _ _ _ _ (next_corr_run x)).
  unfold mbind at 1, get_client at 1. destruct (produce_reqs (cs (cl (bump x))) msgs []); reflexivity.
Qed.

Theorem C09_call_produce_exchange_step : forall corr acks timeout h tps r acc x,
  produce_exchange corr acks timeout ((h, tps) :: r) acc x
  = (let payload := enc_produce_req (env x) corr (Net.client_id (cfg (cl x))) acks timeout (compression (cfg (cl x))) tps in
     if acks =? 0 then
       let+ _ := get_conn h in let+ _ := send_request h payload in produce_exchange corr acks timeout r acc
     else
       let+ '(_, rtps) := send_receive dec_produce_resp h payload in
       produce_exchange corr acks timeout r (acc ++ map (fun '(t, ps) => (t, map produce_confirm ps)) rtps)) x.
Proof. intros. cbn [produce_exchange]. unfold mbind at 1 2, get_client, get_env. reflexivity. Qed.

(* commit: version 0 (zookeeper storage) or 1 (kafka storage), never a version the encoder panics on *)
Theorem C09_commit_version_known : forall storage, commit_version storage = 0 \/ commit_version storage = 1.
Proof. intros. unfold commit_version. destruct (storage =? 0); [left|right]; reflexivity. Qed.
Theorem C09_fetch_version_known : forall storage, fetch_version storage = 0 \/ fetch_version storage = 1.
Proof. intros. unfold fetch_version. destruct (storage =? 0); [left|right]; reflexivity. Qed.

Theorem C09_call_commit_offsets : forall group os x tps,
  0 <= offset_storage (cfg (cl x)) -> commit_tps (cs (cl x)) os [] = Some tps -> tps <> [] ->
  commit_offsets group os x
  = with_fuel (fun f => commit_loop f group
                 (enc_offset_commit_req (stepc (corr_of x)) (Net.client_id (cfg (cl x))) group
                                        (commit_version (offset_storage (cfg (cl x)))) tps) 1) (bump x).
Proof.
  intros group os x tps Hs Ht Hne. unfold commit_offsets. unfold mbind at 1, get_client at 1.
  destruct (offset_storage (cfg (cl x)) <? 0) eqn:E; [lia|].
  rewrite (mbind_ok _ _ _ _ _ (next_corr_run x)). rewrite Ht. destruct tps; [congruence|reflexivity].
Qed.

Theorem C09_call_fetch_group_offsets : forall group ps x tps,
  0 <= offset_storage (cfg (cl x)) -> group_fetch_tps (cs (cl x)) ps [] = Some tps ->
  fetch_group_offsets group ps x
  = with_fuel (fun f => group_fetch_loop f group
                 (enc_offset_fetch_req (stepc (corr_of x)) (Net.client_id (cfg (cl x))) group
                                       (fetch_version (offset_storage (cfg (cl x)))) tps) 1) (bump x).
Proof.
  intros group ps x tps Hs Ht. unfold fetch_group_offsets. unfold mbind at 1, get_client at 1.
  destruct (offset_storage (cfg (cl x)) <? 0) eqn:E; [lia|].
  rewrite (mbind_ok _ _ _ _ _ (next_corr_run x)). rewrite Ht. reflexivity.
Qed.

Theorem C09_call_get_group_coordinator : forall group x,
  group_coordinator (cs (cl x)) group = None ->
  get_group_coordinator group x
  = with_fuel (fun f => group_lookup_loop f group
                 (enc_group_coordinator_req (stepc (corr_of x)) (Net.client_id (cfg (cl x))) group) 1) (bump x).
Proof.
  intros group x H. unfold get_group_coordinator. unfold mbind at 1, get_client at 1. rewrite H.
  rewrite (mbind_ok _ _ _ _ _ (next_corr_run x)). reflexivity.
Qed.

(* ---- what each call does to the counter ---------------------------------------------------------- *)
Definition same_corr (s s' : st) : Prop := corr_of s' = corr_of s.
Lemma preorder_same_corr : preorder same_corr.
Proof. split; [intros s; reflexivity|intros s s1 s2 H1 H2; unfold same_corr in *; congruence]. Qed.

Lemma sc_of_conns s s' : same_but_conns s s' -> same_corr s s'.
Proof. intros (_ & _ & _ & _ & _ & _ & H). unfold same_corr, corr_of. rewrite H. reflexivity. Qed.
Lemma sc_of_io s s' : same_but_io s s' -> same_corr s s'.
Proof. intros H. apply sc_of_conns, same_but_io_conns, H. Qed.
Lemma sc_of_cl s s' : same_cl s s' -> same_corr s s'.
Proof. unfold same_cl, same_corr, corr_of. intros ->. reflexivity. Qed.

Lemma sc_get_conn h : keeps same_corr (get_conn h).
Proof. eapply keeps_weaken; [apply sc_of_conns|apply frame_get_conn]. Qed.
Lemma sc_send_request h p : keeps same_corr (send_request h p).
Proof. eapply keeps_weaken; [apply sc_of_io|apply frame_send_request]. Qed.
Lemma sc_get_response {A} (d : dec A) h : keeps same_corr (get_response d h).
Proof. eapply keeps_weaken; [apply sc_of_io|apply frame_get_response]. Qed.
Lemma sc_get_response_bytes h : keeps same_corr (get_response_bytes h).
Proof. eapply keeps_weaken; [apply sc_of_io|apply frame_get_response_bytes]. Qed.
Lemma sc_send_receive {A} (d : dec A) h p : keeps same_corr (send_receive d h p).
Proof. eapply keeps_weaken; [apply sc_of_conns|apply frame_send_receive]. Qed.
Lemma sc_get_conn_any : keeps same_corr get_conn_any.
Proof. eapply keeps_weaken; [apply sc_of_cl|apply frame_get_conn_any]. Qed.
Lemma sc_pop_hosts : keeps same_corr pop_hosts.
Proof. intros s r s' H. unfold pop_hosts in H. destruct (hostq s); inversion H; subst; reflexivity. Qed.
Lemma sc_ordered {V} (reqs : list (bytes * V)) : keeps same_corr (ordered reqs).
Proof.
  unfold ordered. destruct reqs; [apply keeps_ret, preorder_same_corr|].
  apply keeps_bind; [apply preorder_same_corr|apply sc_pop_hosts|intros; apply keeps_ret, preorder_same_corr].
Qed.

(* `let c = get_client; ... set_cs (g (cs c))` where g keeps the counter *)
Lemma sc_set_cs_at (x : cstate) s r s' : set_cs x s = (r, s') -> correlation x = corr_of s -> same_corr s s'.
Proof. intros H E. inversion H; subst. unfold same_corr, corr_of. cbn. exact E. Qed.

Ltac sc_step :=
  first
  [ apply keeps_ret; apply preorder_same_corr
  | apply keeps_fail; apply preorder_same_corr
  | apply keeps_mpanic; apply preorder_same_corr
  | apply keeps_lift; apply preorder_same_corr
  | apply keeps_get_client; apply preorder_same_corr
  | apply keeps_get_env; apply preorder_same_corr
  | apply keeps_get_fetch_order; apply preorder_same_corr
  | apply sc_get_conn | apply sc_send_request | apply sc_get_response | apply sc_get_response_bytes
  | apply sc_send_receive | apply sc_get_conn_any | apply sc_pop_hosts | apply sc_ordered
  | apply keeps_mtry
  | apply keeps_with_fuel; intros ?
  | apply keeps_bind; [apply preorder_same_corr| |intros ?]
  | match goal with |- keeps _ (match ?x with _ => _ end) => destruct x end
  | match goal with |- keeps _ (if ?x then _ else _) => destruct x end ].
Ltac sc := repeat sc_step.

Lemma sc_fetch_metadata_hosts corr topics : forall hs, keeps same_corr (fetch_metadata_hosts corr topics hs).
Proof. induction hs as [|h hs IH]; cbn [fetch_metadata_hosts]; sc; exact IH. Qed.

Lemma sc_offsets_exchange {P V} enc (d : dec (Z * list (bytes * list P))) (conv : P -> V + Z) pid :
  forall reqs m, keeps same_corr (offsets_exchange enc d conv pid reqs m).
Proof. induction reqs as [|[h tps] reqs IH]; intros m; cbn [offsets_exchange]; sc; apply IH. Qed.

Lemma sc_fetch_exchange corr : forall reqs acc, keeps same_corr (fetch_exchange corr reqs acc).
Proof. induction reqs as [|[h tps] reqs IH]; intros acc; cbn [fetch_exchange]; sc; apply IH. Qed.

Lemma sc_produce_exchange corr acks timeout : forall reqs acc, keeps same_corr (produce_exchange corr acks timeout reqs acc).
Proof. induction reqs as [|[h tps] reqs IH]; intros acc; cbn [produce_exchange]; sc; apply IH. Qed.

(* reset_metadata (KafkaClient::reset_metadata -> ClientState::clear_metadata) leaves the counter alone *)
Theorem C09_reset_metadata_counter : forall x r x', reset_metadata x = (r, x') -> corr_of x' = corr_of x.
Proof. intros x r x' H. inversion H; subst. reflexivity. Qed.

Lemma load_metadata_counter topics x r x' : load_metadata topics x = (r, x') -> corr_of x' = stepc (corr_of x).
Proof.
  intros H. unfold load_metadata in H. bind_inv H md s1 H1 H2.
  - rewrite C09_call_fetch_metadata in H1. apply sc_fetch_metadata_hosts in H1. unfold same_corr in H1.
    rewrite corr_of_bump in H1. rewrite <- H1.
    unfold mbind at 1, get_client at 1 in H2. bind_inv H2 s2 s3 H3 H4.
    + unfold lift in H3. injection H3 as E3 E4. subst s3. apply sc_set_cs_at in H4; [exact H4|].
      apply (update_metadata_corr _ _ _ E3).
    + unfold lift in H3. injection H3 as E3 E4. subst. reflexivity.
    + unfold lift in H3. injection H3 as E3 E4. subst. reflexivity.
  - rewrite C09_call_fetch_metadata in H1. apply sc_fetch_metadata_hosts in H1. rewrite <- corr_of_bump. exact H1.
  - rewrite C09_call_fetch_metadata in H1. apply sc_fetch_metadata_hosts in H1. rewrite <- corr_of_bump. exact H1.
Qed.

(* every metadata load, whatever its outcome, moves the counter on by exactly one id *)
Theorem C09_load_metadata_counter : forall topics x r x',
  load_metadata topics x = (r, x') -> corr_of x' = stepc (corr_of x).
Proof. exact load_metadata_counter. Qed.

(* load_metadata_all = reset_metadata; load_metadata []: the reset in front does NOT restart the counter *)
Theorem C09_load_metadata_all_counter : forall x r x',
  load_metadata_all x = (r, x') -> corr_of x' = stepc (corr_of x).
Proof.
  intros x r x' H. unfold load_metadata_all in H. bind_inv H u s1 H1 H2.
  - rewrite (load_metadata_counter _ _ _ _ H2). f_equal. eapply C09_reset_metadata_counter; exact H1.
  - inversion H1.
  - inversion H1.
Qed.

Ltac at_bump H tac :=
  match type of H with ?m (bump ?x) = _ =>
    let K := fresh "K" in assert (K : keeps same_corr m) by tac; apply K in H; unfold same_corr in H;
    rewrite corr_of_bump in H; exact H end.

Theorem C09_fetch_offsets_counter : forall topics time x r x',
  fetch_offsets topics time x = (r, x') -> corr_of x' = stepc (corr_of x).
Proof.
  intros topics time x r x' H. rewrite C09_call_fetch_offsets in H.
  at_bump H ltac:(sc; apply sc_offsets_exchange).
Qed.

Theorem C09_list_offsets_counter : forall topics time x r x',
  list_offsets topics time x = (r, x') -> corr_of x' = stepc (corr_of x).
Proof.
  intros topics time x r x' H. rewrite C09_call_list_offsets in H.
  at_bump H ltac:(sc; apply sc_offsets_exchange).
Qed.

Theorem C09_fetch_messages_counter : forall input x r x',
  fetch_messages input x = (r, x') -> corr_of x' = stepc (corr_of x).
Proof.
  intros input x r x' H. rewrite C09_call_fetch_messages in H.
  at_bump H ltac:(sc; apply sc_fetch_exchange).
Qed.

Theorem C09_internal_produce_counter : forall acks timeout msgs x r x',
  internal_produce_messages acks timeout msgs x = (r, x') -> corr_of x' = stepc (corr_of x).
Proof.
  intros acks timeout msgs x r x' H. rewrite C09_call_produce in H.
  destruct (produce_reqs (cs (cl (bump x))) msgs []).
  - at_bump H ltac:(sc; apply sc_produce_exchange).
  - inversion H; subst. apply corr_of_bump.
Qed.

(* produce_messages: an ack timeout that does not fit into i32 milliseconds fails before an id is taken *)
Theorem C09_produce_messages_counter : forall acks ack_timeout msgs x r x',
  produce_messages acks ack_timeout msgs x = (r, x') ->
  match to_millis_i32 ack_timeout with
  | Ok _ => corr_of x' = stepc (corr_of x)
  | _ => corr_of x' = corr_of x
  end.
Proof.
  intros acks ack_timeout msgs x r x' H. unfold produce_messages in H.
  destruct (to_millis_i32 ack_timeout) as [t| |] eqn:E.
  - unfold mbind at 1, lift at 1 in H. eapply C09_internal_produce_counter; exact H.
  - inversion H; subst. reflexivity.
  - inversion H; subst. reflexivity.
Qed.

(* ---- the group calls: the retry loops may look the coordinator up again, each time with a new id --- *)
(* at most n ids were taken between s and s', and nothing else happened to the counter *)
Definition adv (n : nat) (s s' : st) : Prop :=
  exists k, (k <= n)%nat /\ corr_of s' = Nat.iter k stepc (corr_of s).

Lemma iter_plus {A} (f : A -> A) a b x : Nat.iter a f (Nat.iter b f x) = Nat.iter (a + b) f x.
Proof. induction a as [|a IH]; cbn [Nat.iter plus nat_rect]; [reflexivity|]. unfold Nat.iter in *. cbn. rewrite IH. reflexivity. Qed.

Lemma adv_refl n s : adv n s s.
Proof. exists O. split; [lia|reflexivity]. Qed.
Lemma adv_of_same n s s' : same_corr s s' -> adv n s s'.
Proof. intros H. exists O. split; [lia|exact H]. Qed.
Lemma adv_trans a b s s1 s2 : adv a s s1 -> adv b s1 s2 -> adv (a + b) s s2.
Proof.
  intros (k1 & L1 & E1) (k2 & L2 & E2). exists (k2 + k1)%nat. split; [lia|].
  rewrite E2, E1. apply iter_plus.
Qed.
Lemma adv_mono a b s s' : (a <= b)%nat -> adv a s s' -> adv b s s'.
Proof. intros L (k & Lk & E). exists k. split; [lia|exact E]. Qed.
Lemma adv_same_l n s s1 s' : same_corr s s1 -> adv n s1 s' -> adv n s s'.
Proof. intros E (k & Lk & Ek). exists k. split; [exact Lk|]. rewrite Ek, E. reflexivity. Qed.
Lemma adv_one s : adv 1 s (bump s).
Proof. exists 1%nat. split; [lia|reflexivity]. Qed.

Lemma adv_bind {A B} a b (m : M A) (f : A -> M B) :
  keeps (adv a) m -> (forall x, keeps (adv b) (f x)) -> keeps (adv (a + b)) (mbind m f).
Proof.
  intros Hm Hf s r s' H. bind_inv H x s1 H1 H2.
  - eapply adv_trans; [eapply Hm; exact H1|eapply Hf; exact H2].
  - eapply adv_mono; [|eapply Hm; exact H1]. lia.
  - eapply adv_mono; [|eapply Hm; exact H1]. lia.
Qed.
Lemma adv_sc {A} n (m : M A) : keeps same_corr m -> keeps (adv n) m.
Proof. intros K s r s' H. apply adv_of_same. eapply K; exact H. Qed.

(* without a wrap in reach, `adv` is: the counter did not go down and rose by at most n *)
Lemma iter_stepc : forall k c, 0 <= c -> c + Z.of_nat k < CORRELATION_MODULUS -> Nat.iter k stepc c = c + Z.of_nat k.
Proof.
  assert (Hm : CORRELATION_MODULUS = 1073741824) by reflexivity.
  induction k as [|k IH]; intros c H0 Hk; [cbn; lia|].
  change (Nat.iter (S k) stepc c) with (stepc (Nat.iter k stepc c)). rewrite IH by lia.
  unfold stepc. rewrite Z.rem_small by lia. lia.
Qed.
Theorem C09_adv_monotone : forall n s s', adv n s s' -> 0 <= corr_of s ->
  corr_of s + Z.of_nat n < CORRELATION_MODULUS -> corr_of s <= corr_of s' <= corr_of s + Z.of_nat n.
Proof. intros n s s' (k & Lk & E) H0 Hn. rewrite E, iter_stepc by lia. lia. Qed.

Lemma sc_group_lookup_attempt req : keeps same_corr (group_lookup_attempt req).
Proof. unfold group_lookup_attempt. sc. Qed.

Lemma sc_group_lookup_loop : forall fuel group req attempt, keeps same_corr (group_lookup_loop fuel group req attempt).
Proof.
  induction fuel as [|f IH]; intros group req attempt; cbn [group_lookup_loop]; [sc|].
  apply keeps_bind; [apply preorder_same_corr|apply sc_group_lookup_attempt|intros r].
  destruct (from_protocol (gc_error r)) as [code|].
  - sc. apply IH.
  - intros s rr s' H. unfold mbind at 1, get_client at 1 in H.
    pose proof (set_group_coordinator_corr (cs (cl s)) group r) as E.
    destruct (set_group_coordinator (cs (cl s)) group r) as [h s2]. cbn [snd] in E.
    bind_inv H u s1 H1 H2.
    + inversion H2; subst. eapply sc_set_cs_at; [exact H1|exact E].
    + eapply sc_set_cs_at; [exact H1|exact E].
    + eapply sc_set_cs_at; [exact H1|exact E].
Qed.

(* get_group_coordinator: a cached coordinator costs no id, a lookup exactly one *)
Theorem C09_get_group_coordinator_counter : forall group x r x',
  get_group_coordinator group x = (r, x') ->
  corr_of x' = match group_coordinator (cs (cl x)) group with Some _ => corr_of x | None => stepc (corr_of x) end.
Proof.
  intros group x r x' H. destruct (group_coordinator (cs (cl x)) group) as [h|] eqn:E.
  - unfold get_group_coordinator in H. unfold mbind at 1, get_client at 1 in H. rewrite E in H.
    inversion H; subst. reflexivity.
  - rewrite (C09_call_get_group_coordinator _ _ E) in H. unfold with_fuel in H.
    apply sc_group_lookup_loop in H. exact H.
Qed.

Lemma adv_get_group_coordinator group : keeps (adv 1) (get_group_coordinator group).
Proof.
  intros x r x' H. apply C09_get_group_coordinator_counter in H.
  destruct (group_coordinator (cs (cl x)) group).
  - exists O. split; [lia|exact H].
  - exists 1%nat. split; [lia|exact H].
Qed.

Lemma sc_maybe_reset (reset : bool) group s r s1 :
  (if reset then set_cs (remove_group_coordinator (cs (cl s)) group) else ret tt) s = (r, s1) -> same_corr s s1.
Proof.
  destruct reset; intros H.
  - eapply sc_set_cs_at; [exact H|reflexivity].
  - inversion H; subst. reflexivity.
Qed.

Lemma adv_commit_loop : forall fuel group req attempt, keeps (adv fuel) (commit_loop fuel group req attempt).
Proof.
  induction fuel as [|f IH]; intros group req attempt; cbn [commit_loop].
  - apply adv_sc. sc.
  - change (S f) with (1 + f)%nat. apply adv_bind; [apply adv_get_group_coordinator|intros h].
    change f with (0 + f)%nat. apply adv_bind; [apply adv_sc, sc_send_receive|intros [c tps]].
    destruct (commit_scan tps) as [|code reset|code]; [apply adv_sc; sc| |apply adv_sc; sc].
    intros s r s' H. unfold mbind at 1, get_client at 1 in H. bind_inv H u s1 H1 H2.
    + apply sc_maybe_reset in H1. eapply adv_same_l; [exact H1|].
      destruct (attempt <? retry_max_attempts (cfg (cl s))); [eapply IH; exact H2|].
      inversion H2; subst. apply adv_refl.
    + apply sc_maybe_reset in H1. apply adv_of_same, H1.
    + apply sc_maybe_reset in H1. apply adv_of_same, H1.
Qed.

Lemma adv_group_fetch_loop : forall fuel group req attempt, keeps (adv fuel) (group_fetch_loop fuel group req attempt).
Proof.
  induction fuel as [|f IH]; intros group req attempt; cbn [group_fetch_loop].
  - apply adv_sc. sc.
  - change (S f) with (1 + f)%nat. apply adv_bind; [apply adv_get_group_coordinator|intros h].
    change f with (0 + f)%nat. apply adv_bind; [apply adv_sc, sc_send_receive|intros [c tps]].
    destruct (group_scan tps []) as [[m|[code reset]]|code]; [apply adv_sc; sc| |apply adv_sc; sc].
    intros s r s' H. unfold mbind at 1, get_client at 1 in H. bind_inv H u s1 H1 H2.
    + apply sc_maybe_reset in H1. eapply adv_same_l; [exact H1|].
      destruct (attempt <? retry_max_attempts (cfg (cl s))); [eapply IH; exact H2|].
      inversion H2; subst. apply adv_refl.
    + apply sc_maybe_reset in H1. apply adv_of_same, H1.
    + apply sc_maybe_reset in H1. apply adv_of_same, H1.
Qed.

(* commit_offsets / fetch_group_offsets / fetch_group_topic_offset: one id for the call plus at most one per
   turn of the retry loop (a fresh coordinator lookup), and every turn consumes an answer of the script *)
Theorem C09_commit_offsets_counter : forall group os x r x',
  commit_offsets group os x = (r, x') -> adv (2 + length (script x)) x x'.
Proof.
  intros group os x r x' H. unfold commit_offsets in H. unfold mbind at 1, get_client at 1 in H.
  destruct (offset_storage (cfg (cl x)) <? 0); [inversion H; subst; apply adv_refl|].
  rewrite (mbind_ok _ _ _ _ _ (next_corr_run x)) in H.
  destruct (commit_tps (cs (cl x)) os []) as [[|tp tps]|].
  - inversion H; subst. eapply adv_mono; [|apply adv_one]. lia.
  - unfold with_fuel in H. apply adv_commit_loop in H.
    change (2 + length (script x))%nat with (1 + S (length (script (bump x))))%nat.
    eapply adv_trans; [apply adv_one|exact H].
  - inversion H; subst. eapply adv_mono; [|apply adv_one]. lia.
Qed.

Theorem C09_fetch_group_offsets_counter : forall group ps x r x',
  fetch_group_offsets group ps x = (r, x') -> adv (2 + length (script x)) x x'.
Proof.
  intros group ps x r x' H. unfold fetch_group_offsets in H. unfold mbind at 1, get_client at 1 in H.
  destruct (offset_storage (cfg (cl x)) <? 0); [inversion H; subst; apply adv_refl|].
  rewrite (mbind_ok _ _ _ _ _ (next_corr_run x)) in H.
  destruct (group_fetch_tps (cs (cl x)) ps []) as [tps|].
  - unfold with_fuel in H. apply adv_group_fetch_loop in H.
    change (2 + length (script x))%nat with (1 + S (length (script (bump x))))%nat.
    eapply adv_trans; [apply adv_one|exact H].
  - inversion H; subst. eapply adv_mono; [|apply adv_one]. lia.
Qed.

Theorem C09_fetch_group_topic_offset_counter : forall group topic x r x',
  fetch_group_topic_offset group topic x = (r, x') -> adv (2 + length (script x)) x x'.
Proof.
  intros group topic x r x' H. unfold fetch_group_topic_offset in H. unfold mbind at 1, get_client at 1 in H.
  destruct (offset_storage (cfg (cl x)) <? 0); [inversion H; subst; apply adv_refl|].
  rewrite (mbind_ok _ _ _ _ _ (next_corr_run x)) in H.
  destruct (partitions_for (cs (cl x)) topic) as [ps|].
  - bind_inv H m s1 H1 H2.
    + inversion H2; subst. unfold with_fuel in H1. apply adv_group_fetch_loop in H1.
      change (2 + length (script x))%nat with (1 + S (length (script (bump x))))%nat.
      eapply adv_trans; [apply adv_one|exact H1].
    + unfold with_fuel in H1. apply adv_group_fetch_loop in H1.
      change (2 + length (script x))%nat with (1 + S (length (script (bump x))))%nat.
      eapply adv_trans; [apply adv_one|exact H1].
    + unfold with_fuel in H1. apply adv_group_fetch_loop in H1.
      change (2 + length (script x))%nat with (1 + S (length (script (bump x))))%nat.
      eapply adv_trans; [apply adv_one|exact H1].
  - inversion H; subst. eapply adv_mono; [|apply adv_one]. lia.
Qed.


(* ================================================================================================ *)
(* Non-vacuity: concrete sessions                                                                    *)
(* ================================================================================================ *)
Definition ex_env0 : codecs :=
  {| gz_compress := fun b => b; sn_compress := fun b => b; gz_decompress := fun b => Some b; debug_build := false |}.
(* a fresh client with one bootstrap host; the broker refuses the connection every time (OConn false) *)
Definition ex_x0 : st :=
  {| script := [OConn false; OConn false; OConn false]; trace := []; anyq := []; hostq := []; fetchq := []; entryq := [];
     cl := client_new [tag "h:9092"]; env := ex_env0 |}.

(* the seeded session: load_metadata_all, fetch_offsets, fetch_messages, load_metadata_all again,
   reset_metadata + load_metadata: the counter reads 1, 2, 3, 4, 4, 5 - it never restarts *)
Example C09_session_counter_ex :
  let x1 := snd (load_metadata_all ex_x0) in
  let x2 := snd (fetch_offsets [tag "a"] (-1) x1) in
  let x3 := snd (fetch_messages [] x2) in
  let x4 := snd (load_metadata_all x3) in
  let x5 := snd (reset_metadata x4) in
  let x6 := snd (load_metadata [tag "a"] x5) in
  map corr_of [ex_x0; x1; x2; x3; x4; x5; x6] = [0; 1; 2; 3; 4; 4; 5] /\
  fst (load_metadata_all x3) = Err ENoHostReachable.
Proof. vm_compute. split; reflexivity. Qed.

(* the second load_metadata_all of that session encodes its request with id 4 and the configured client id *)
Example C09_call_fetch_metadata_ex :
  let x3 := snd (fetch_messages [] (snd (fetch_offsets [tag "a"] (-1) (snd (load_metadata_all ex_x0))))) in
  stepc (corr_of (snd (reset_metadata x3))) = 4 /\
  enc_metadata_req (stepc (corr_of (snd (reset_metadata x3)))) (Net.client_id (cfg (cl x3))) []
  = Ok [x00; x03; x00; x00; x00; x00; x00; x04; x00; x00; x00; x00; x00; x00].
Proof. vm_compute. split; reflexivity. Qed.

(* a client that knows topic "a" (partition 0 led by h:9092), kafka offset storage, a pooled connection,
   no cached coordinator, and a silent broker: commit_offsets takes id 1 for the commit and id 2 for the
   coordinator lookup it has to do first *)
Definition ex_cs1 : cstate :=
  {| correlation := 0; brokers := [{| b_node := 1; b_host := tag "h:9092" |}];
     topic_partitions := [(tag "a", [0])]; group_coordinators := [] |}.
Definition ex_cfg1 : config :=
  {| Net.client_id := tag "me"; hosts := [tag "h:9092"]; compression := 0; fetch_max_wait_time := 100;
     fetch_min_bytes := 1; fetch_max_bytes_per_partition := 1000; fetch_crc_validation := true;
     offset_storage := 1; retry_backoff_time := (0, 0); retry_max_attempts := 3; idle_timeout := (1, 0) |}.
Definition ex_x1 : st :=
  {| script := [OWrote 1000]; trace := []; anyq := []; hostq := []; fetchq := []; entryq := [];
     cl := {| cfg := ex_cfg1; cs := ex_cs1; conns := [tag "h:9092"] |}; env := ex_env0 |}.
Definition ex_commit : list commit_offset := [{| co_topic := tag "a"; co_partition := 0; co_offset := 42 |}].

Example C09_commit_offsets_counter_ex :
  corr_of (snd (commit_offsets (tag "g") ex_commit ex_x1)) = 2 /\
  adv (2 + length (script ex_x1)) ex_x1 (snd (commit_offsets (tag "g") ex_commit ex_x1)) /\
  0 <= offset_storage (cfg (cl ex_x1)) /\
  commit_tps (cs (cl ex_x1)) ex_commit [] = Some [(tag "a", [(0, 42)])] /\
  group_coordinator (cs (cl (bump ex_x1))) (tag "g") = None.
Proof.
  split; [vm_compute; reflexivity|]. split; [|vm_compute; repeat split; discriminate].
  exists 2%nat. split; [cbn; lia|vm_compute; reflexivity].
Qed.

(* the trace of that call: the only write is the GroupCoordinator request, framed, with id 2 and client id "me" *)
Example C09_commit_offsets_wire_ex :
  trace (snd (commit_offsets (tag "g") ex_commit ex_x1))
  = [ERead (tag "h:9092") 4;
     EWrite (tag "h:9092") [x00; x00; x00; x0f;  x00; x0a; x00; x00;  x00; x00; x00; x02;  x00; x02; x6d; x65;  x00; x01; x67]].
Proof. vm_compute. reflexivity. Qed.

Example C09_adv_monotone_ex :
  0 <= corr_of ex_x1 /\ corr_of ex_x1 + Z.of_nat (2 + length (script ex_x1)) < CORRELATION_MODULUS.
Proof. vm_compute. split; [discriminate|reflexivity]. Qed.

Example C09_produce_messages_counter_ex :
  corr_of (snd (produce_messages 1 (1, 0) [] ex_x1)) = 1 /\
  corr_of (snd (produce_messages 1 (9999999999, 0) [] ex_x1)) = 0 /\
  fst (produce_messages 1 (9999999999, 0) [] ex_x1) = Err EInvalidDuration.
Proof. vm_compute. repeat split; reflexivity. Qed.

(* OBSERVATION (a defect of the clause "a correlation id that never decreases", within ONE call): commit_offsets
   takes the id of the OffsetCommit request first (c+1) and the id of the GroupCoordinator lookup, which it has to
   SEND first, afterwards (c+2).  On the wire of this single call the ids read 2, 1. *)
Definition write_ids (tr : list ev_op) : list Z :=
  flat_map (fun e => match e with EWrite _ bs => [be_dec_s (firstn 4 (skipn 8 bs))] | _ => [] end) (rev tr).
Definition write_keys (tr : list ev_op) : list Z :=
  flat_map (fun e => match e with EWrite _ bs => [be_dec_s (firstn 2 (skipn 4 bs))] | _ => [] end) (rev tr).
Definition ex_coord_resp : bytes :=
  [x00; x00; x00; x02;  x00; x00;  x00; x00; x00; x01;  x00; x01; x68;  x00; x00; x23; x84].
Definition ex_x2 : st :=
  {| script := [OWrote 1000; OData [x00; x00; x00; x11]; OData ex_coord_resp; OWrote 1000];
     trace := []; anyq := []; hostq := []; fetchq := []; entryq := [];
     cl := {| cfg := ex_cfg1; cs := ex_cs1; conns := [tag "h:9092"] |}; env := ex_env0 |}.
Theorem C09_corr_order_within_call_refuted :
  exists x group os, write_keys (trace (snd (commit_offsets group os x))) = [10; 8] /\
                     write_ids (trace (snd (commit_offsets group os x))) = [2; 1].
Proof. exists ex_x2, (tag "g"), ex_commit. vm_compute. split; reflexivity. Qed.

Check C09_corr_order_within_call_refuted.
Check C09_corr_history.
Check C09_clear_metadata_keeps_counter.
Check C09_call_fetch_metadata.
Check C09_call_fetch_offsets.
Check C09_call_list_offsets.
Check C09_call_fetch_messages.
Check C09_call_fetch_exchange_step.
Check C09_call_produce.
Check C09_call_produce_exchange_step.
Check C09_commit_version_known.
Check C09_fetch_version_known.
Check C09_call_commit_offsets.
Check C09_call_fetch_group_offsets.
Check C09_call_get_group_coordinator.
Check C09_reset_metadata_counter.
Check C09_load_metadata_counter.
Check C09_load_metadata_all_counter.
Check C09_fetch_offsets_counter.
Check C09_list_offsets_counter.
Check C09_fetch_messages_counter.
Check C09_internal_produce_counter.
Check C09_produce_messages_counter.
Check C09_adv_monotone.
Check C09_get_group_coordinator_counter.
Check C09_commit_offsets_counter.
Check C09_fetch_group_offsets_counter.
Check C09_fetch_group_topic_offset_counter.

Print Assumptions C09_corr_order_within_call_refuted.
Print Assumptions C09_corr_history.
Print Assumptions C09_clear_metadata_keeps_counter.
Print Assumptions C09_call_fetch_metadata.
Print Assumptions C09_call_fetch_offsets.
Print Assumptions C09_call_list_offsets.
Print Assumptions C09_call_fetch_messages.
Print Assumptions C09_call_fetch_exchange_step.
Print Assumptions C09_call_produce.
Print Assumptions C09_call_produce_exchange_step.
Print Assumptions C09_commit_version_known.
Print Assumptions C09_fetch_version_known.
Print Assumptions C09_call_commit_offsets.
Print Assumptions C09_call_fetch_group_offsets.
Print Assumptions C09_call_get_group_coordinator.
Print Assumptions C09_reset_metadata_counter.
Print Assumptions C09_load_metadata_counter.
Print Assumptions C09_load_metadata_all_counter.
Print Assumptions C09_fetch_offsets_counter.
Print Assumptions C09_list_offsets_counter.
Print Assumptions C09_fetch_messages_counter.
Print Assumptions C09_internal_produce_counter.
Print Assumptions C09_produce_messages_counter.
Print Assumptions C09_adv_monotone.
Print Assumptions C09_get_group_coordinator_counter.
Print Assumptions C09_commit_offsets_counter.
Print Assumptions C09_fetch_group_offsets_counter.
Print Assumptions C09_fetch_group_topic_offset_counter.
