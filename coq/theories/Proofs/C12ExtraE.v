(* C12, fourth adequacy pass (round-seven seed).

   Seed C12-7 (`ClientState::update_metadata` folded into `entry().or_insert_with` + "add the missing slots":
   a known topic's partition vector is no longer TRUNCATED when a re-load lists fewer partitions, so the tail
   keeps its old leaders; a producer built on such a client - `Producer::from_client` after
   `load_metadata(&["t"])` - snapshots the OLD count and ghost available ids).
   Model counterpart: `ClientState.update_topics` (`resize_refs ps m` for a known topic).

   NOT COVERED by Props/C12.v before this file: every statement there is about `partition`, `producer_state s`,
   `send_all_reqs s ...` for an ARBITRARY client state s ("the modulus is the length of the vector the client
   holds"), none says where that vector comes from.  Confirmed in a scratch copy of the development with the change
   mirrored (`Some ps => ps ++ resize_refs [] (m - length ps)`): Model/*, Proofs/C12Facts, C12Extra, C12ExtraB,
   C12ExtraC and Props/C12.v all compile UNCHANGED.  (Props/C10.v does notice: C10_update_metadata_routing states
   the number of slots after an update; C06Facts.resize_refs_eq stops compiling.)

   What this file adds (all about the UNCHANGED model; C6 = Proofs.C06Facts, `C6.last_topic tms t` = the last
   entry of a metadata response that names topic t):

   Part A - model level, no invariant and no size hypothesis needed:
   - C12_partition_count_after_update / C12_partition_count_unlisted: after `update_metadata` a topic LISTED in
     the response has exactly as many partitions as the response lists - whatever the client knew before -, a
     topic not listed keeps its vector.
   - C12_snapshot_after_update: State::new on the updated client: num_all = the listed count, every available
     id is inside 0..count-1 and has a leader.
   - C12_keyed_after_update [seed 7, clause B]: a keyed record goes to XXH32(key) mod (number of partitions the
     LAST response listed for the topic), for every earlier history of the client.
   - C12_keyed_same_across_histories [seed 7, clause B "identical across producer instances"]: two clients with
     arbitrary, different histories whose last load of the topic listed the same number of partitions choose
     the same partition for the same key.
   - C12_keyless_after_update_in_range, C12_rotation_after_update [seed 7, clauses C1/C2]: a key-less record is
     never put under a partition id >= the listed count; a full rotation window has no repeats, stays inside
     0..count-1 and contains exactly the partitions find_broker resolves.
   - C12_available_after_update (needs the representation invariant C6.inv): the FORWARD/CONVERSE reading in
     terms of what the broker said: partition k (listed with leader l) takes part in the rotation IF AND ONLY
     IF the response lists a broker with node id l or the client knew one before.
   Part B - whole public calls and what one call leaves behind for the next:
   - C12_create_from_client_keeps_metadata: `Producer::from_client(c).create()` does no I/O and leaves the
     client's metadata alone.
   - C12_from_client_after_load: `client.load_metadata(topics)` (an UPDATE, after any earlier history) followed
     by `Producer::from_client(client).create()`: for every topic of the response that load_metadata received,
     the producer's snapshot has the listed count, in-range available ids, and keyed records go to
     XXH32(key) mod listed count.  This is the seed's own scenario.
   - C12_send_all_after_load: the same carried to `Producer::send_all` of any later producer value with that
     snapshot (any counter): send_all IS internal_produce_messages on a message list whose i-th element, for
     a keyed record of a listed topic, carries partition XXH32(key) mod listed count, and for a key-less one a
     partition below the listed count.
   - C12_create_from_hosts_snapshot: `Producer::from_hosts(hs).create()`: the snapshot is a function of the ONE
     response load_metadata_all received: listed topics have the listed count, topics not listed are unknown
     to the producer (clause D: such records are rejected, C12_unknown_topic_rejected_anywhere) - nothing of
     the client's earlier metadata survives.

   Part C - any history of loads and resets (C6.step_c) of the client the producer is built on:
   - C12_partition_count_after_history / C12_keyed_after_history: the count (hence the keyed partition) is that of
     the LAST listing of the topic not followed by a reset; a topic forgotten by a reset is unassigned; a topic the
     history never mentions behaves as before.

   Confirmed on the changed model (scratch copy, mut7/neg/Neg7.v): the NEGATIONS of C12_partition_count_after_update,
   C12_keyed_after_update, C12_keyless_after_update_in_range and C12_keyed_same_across_histories are proved there with
   the seed's own input (topic t loaded with 6 partitions, re-loaded with 4, key "key-3": 5 instead of 3; key-less
   record with counter 4 goes to partition 4).

   Not done / not proved: the forward direction from the BYTES of the metadata reply on the stream to the value
   fetch_metadata returns (no forward lemma for get_response/read_exact in NetFacts; C10_metadata_routing covers
   decode + update for a printed response); the wire bytes of the produce request. *)
From Coq Require Import ZifyBool Sorting.Permutation Sorting.Sorted.
From KV Require Import Base.Prelude Base.Xxh32 Gen.Consts Model.Codecs Model.Requests Model.Responses
                       Model.ClientState Model.Net Model.Client Model.Producer
                       Proofs.C12Facts Proofs.C12Extra Proofs.C12ExtraB Proofs.C12ExtraC.
From KV Require Proofs.C06Facts Proofs.C06Extra Proofs.C10Extra.
Ltac Zify.zify_post_hook ::= Z.div_mod_to_equations.

Module C6 := KV.Proofs.C06Facts.
Module C6X := KV.Proofs.C06Extra.
Module C10X := KV.Proofs.C10Extra.

(* ================================================================================================ *)
(* Part A.  update_metadata -> State::new -> DefaultPartitioner                                      *)
(* ================================================================================================ *)

Lemma sync_fun_length idx : forall pms ps, length (C6.sync_fun idx pms ps) = length ps.
Proof.
  induction pms as [|pm pms IH]; intros ps; cbn [C6.sync_fun]; [reflexivity|].
  destruct ((pm_id pm <? 0) || (ulen ps <=? pm_id pm)); [apply IH|].
  rewrite IH. apply C6.set_nth_length.
Qed.

Lemma topic_vec_length idx old pms : length (C6.topic_vec idx old pms) = length pms.
Proof. unfold C6.topic_vec. rewrite sync_fun_length. apply C6.resize_length. Qed.

Lemma topics_fun_unlisted idx : forall tms tps t, C6.last_topic tms t = None ->
  assoc_bytes t (C6.topics_fun idx tms tps) = assoc_bytes t tps.
Proof.
  induction tms as [|tm tms IH]; intros tps t H; cbn [C6.topics_fun]; [reflexivity|].
  cbn [C6.last_topic] in H. destruct (C6.last_topic tms t) eqn:E; [discriminate|].
  destruct (bytes_eqb (tm_topic tm) t) eqn:Eb; [discriminate|].
  rewrite IH by exact E. rewrite C6.assoc_bytes_bset, Eb. reflexivity.
Qed.

Lemma topics_fun_listed idx : forall tms tps t tm, C6.last_topic tms t = Some tm ->
  exists old, assoc_bytes t (C6.topics_fun idx tms tps) = Some (C6.topic_vec idx old (tm_partitions tm)).
Proof.
  induction tms as [|a tms IH]; intros tps t tm H; cbn [C6.last_topic] in H; [discriminate|].
  cbn [C6.topics_fun]. destruct (C6.last_topic tms t) as [x|] eqn:E.
  - injection H as ->. apply IH. exact E.
  - destruct (bytes_eqb (tm_topic a) t) eqn:Eb; [|discriminate]. injection H as ->.
    exists (assoc_bytes (tm_topic tm) tps). rewrite topics_fun_unlisted by exact E.
    rewrite C6.assoc_bytes_bset, Eb. reflexivity.
Qed.

(* [seed 7] a topic the response lists has, afterwards, exactly as many partitions as the response lists -
   whatever the client knew about it before (more, fewer, nothing) *)
Theorem C12_partition_count_after_update : forall s md s' t tm,
  update_metadata s md = Ok s' -> C6.last_topic (md_topics md) t = Some tm ->
  exists l, partitions_for s' t = Some l /\ length l = length (tm_partitions tm).
Proof.
  intros s md s' t tm H Hlt. rewrite C6.update_metadata_eq in H. injection H as <-.
  unfold partitions_for, C6.upd_fun. cbn [topic_partitions].
  destruct (topics_fun_listed (snd (update_brokers s md)) (md_topics md) (topic_partitions s) t tm Hlt) as [old Ho].
  rewrite Ho. eexists. split; [reflexivity|apply topic_vec_length].
Qed.

Theorem C12_partition_count_unlisted : forall s md s' t,
  update_metadata s md = Ok s' -> C6.last_topic (md_topics md) t = None ->
  partitions_for s' t = partitions_for s t.
Proof.
  intros s md s' t H Hlt. rewrite C6.update_metadata_eq in H. injection H as <-.
  unfold partitions_for, C6.upd_fun. cbn [topic_partitions]. apply topics_fun_unlisted. exact Hlt.
Qed.

Lemma find_broker_range s t id host l :
  find_broker s t id = Some host -> partitions_for s t = Some l -> 0 <= id < ulen l.
Proof.
  unfold find_broker, partition_ref, nth_z. intros H Hl. rewrite Hl in H.
  destruct ((id <? 0) || (ulen l <=? id)) eqn:E; [discriminate|]. lia.
Qed.

(* State::new on the updated client *)
Theorem C12_snapshot_after_update : forall s md s' t tm,
  update_metadata s md = Ok s' -> C6.last_topic (md_topics md) t = Some tm ->
  exists ps, assoc_bytes t (producer_state s') = Some ps
             /\ num_all ps = ulen (tm_partitions tm)
             /\ (forall id, In id (available_ids ps) ->
                   0 <= id < ulen (tm_partitions tm) /\ exists host, find_broker s' t id = Some host).
Proof.
  intros s md s' t tm H Hlt.
  destruct (C12_partition_count_after_update s md s' t tm H Hlt) as (l & Hl & Hlen).
  assert (Hul : ulen l = ulen (tm_partitions tm)) by (unfold ulen; rewrite Hlen; reflexivity).
  exists {| available_ids := map fst (leaders_from s' l 0); num_all := ulen l |}.
  assert (Ha : assoc_bytes t (producer_state s')
               = Some {| available_ids := map fst (leaders_from s' l 0); num_all := ulen l |}).
  { rewrite producer_state_assoc, Hl. reflexivity. }
  split; [exact Ha|]. split; [exact Hul|].
  intros id Hin. apply (C12_available_iff_leader s' t _ id Ha) in Hin. destruct Hin as [host Hh].
  split; [|exists host; exact Hh]. rewrite <- Hul. exact (find_broker_range s' t id host l Hh Hl).
Qed.

(* [seed 7, clause B] keyed, no partition: XXH32(key) mod the count the LAST response listed *)
Theorem C12_keyed_after_update : forall s md s' t tm cntr p k,
  update_metadata s md = Ok s' -> C6.last_topic (md_topics md) t = Some tm ->
  p < 0 -> 0 < ulen (tm_partitions tm) <= 2147483648 ->
  partition (producer_state s') cntr t p (Some k) = (xxh32 0 k mod ulen (tm_partitions tm), cntr)
  /\ 0 <= xxh32 0 k mod ulen (tm_partitions tm) < ulen (tm_partitions tm).
Proof.
  intros s md s' t tm cntr p k H Hlt Hp Hn.
  destruct (C12_partition_count_after_update s md s' t tm H Hlt) as (l & Hl & Hlen).
  assert (Hul : ulen l = ulen (tm_partitions tm)) by (unfold ulen; rewrite Hlen; reflexivity).
  rewrite <- Hul in *. exact (C12_keyed_total_count s' cntr t p k l Hp Hl Hn).
Qed.

(* [seed 7, clause B: "identical across producer instances"] two clients with arbitrary histories *)
Theorem C12_keyed_same_across_histories : forall s1 md1 s1' s2 md2 s2' t tm1 tm2 c1 c2 p k,
  update_metadata s1 md1 = Ok s1' -> update_metadata s2 md2 = Ok s2' ->
  C6.last_topic (md_topics md1) t = Some tm1 -> C6.last_topic (md_topics md2) t = Some tm2 ->
  length (tm_partitions tm1) = length (tm_partitions tm2) -> p < 0 ->
  fst (partition (producer_state s1') c1 t p (Some k)) = fst (partition (producer_state s2') c2 t p (Some k)).
Proof.
  intros s1 md1 s1' s2 md2 s2' t tm1 tm2 c1 c2 p k H1 H2 Hl1 Hl2 Hlen Hp.
  destruct (C12_partition_count_after_update _ _ _ _ _ H1 Hl1) as (l1 & Hp1 & Hn1).
  destruct (C12_partition_count_after_update _ _ _ _ _ H2 Hl2) as (l2 & Hp2 & Hn2).
  apply (C12_keyed_same_across_producers s1' s2' c1 c2 t p k l1 l2 Hp Hp1 Hp2). congruence.
Qed.

(* [seed 7, clause C1] key-less, no partition: never an id at or beyond the listed count *)
Lemma keyless_choice_in parts c t p ps :
  p < 0 -> assoc_bytes t parts = Some ps ->
  fst (partition parts c t p None) = p \/ In (fst (partition parts c t p None)) (available_ids ps).
Proof.
  intros Hp Ha. unfold partition. destruct (0 <=? p) eqn:E; [lia|]. rewrite Ha.
  destruct (available_ids ps) as [|a av] eqn:Hav; [left; reflexivity|]. right. cbn [fst].
  apply nth_In. unfold ulen. cbn [length].
  assert (0 <= c mod Z.of_nat (S (length av)) < Z.of_nat (S (length av))) by (apply Z.mod_pos_bound; lia). lia.
Qed.

Theorem C12_keyless_after_update_in_range : forall s md s' t tm cntr p,
  update_metadata s md = Ok s' -> C6.last_topic (md_topics md) t = Some tm -> p < 0 ->
  fst (partition (producer_state s') cntr t p None) < ulen (tm_partitions tm)
  /\ (0 <= fst (partition (producer_state s') cntr t p None) ->
      exists host, find_broker s' t (fst (partition (producer_state s') cntr t p None)) = Some host).
Proof.
  intros s md s' t tm cntr p H Hlt Hp.
  destruct (C12_snapshot_after_update s md s' t tm H Hlt) as (ps & Ha & Hn & Hav).
  destruct (keyless_choice_in (producer_state s') cntr t p ps Hp Ha) as [He|Hin].
  - rewrite He. split; [unfold ulen; lia|lia].
  - destruct (Hav _ Hin) as [Hr Hh]. split; [lia|intros _; exact Hh].
Qed.

(* [seed 7, clause C2] a full rotation window after a re-load *)
Theorem C12_rotation_after_update : forall s md s' t tm cntr ps,
  update_metadata s md = Ok s' -> C6.last_topic (md_topics md) t = Some tm ->
  assoc_bytes t (producer_state s') = Some ps -> available_ids ps <> [] ->
  0 <= cntr -> cntr + ulen (available_ids ps) <= 4294967296 ->
  let window := fst (keyless_run (producer_state s') cntr t (length (available_ids ps))) in
  NoDup window
  /\ (forall id, In id window -> 0 <= id < ulen (tm_partitions tm))
  /\ (forall id, In id window <-> exists host, find_broker s' t id = Some host)
  /\ (length window <= length (tm_partitions tm))%nat.
Proof.
  intros s md s' t tm cntr ps H Hlt Ha Hne Hc Hw window.
  destruct (C12_rotation_led_exactly_once s' cntr t ps Ha Hne Hc Hw) as [Hnd Hiff].
  fold window in Hnd, Hiff.
  destruct (C12_partition_count_after_update s md s' t tm H Hlt) as (l & Hl & Hlen).
  assert (Hul : ulen l = ulen (tm_partitions tm)) by (unfold ulen; rewrite Hlen; reflexivity).
  assert (Hrange : forall id, In id window -> 0 <= id < ulen (tm_partitions tm)).
  { intros id Hin. apply Hiff in Hin. destruct Hin as [host Hh]. rewrite <- Hul.
    exact (find_broker_range s' t id host l Hh Hl). }
  split; [exact Hnd|]. split; [exact Hrange|]. split; [exact Hiff|].
  (* no repeats + all inside 0..m-1: at most m of them *)
  assert (Hincl : incl window (iota_z (length (tm_partitions tm)) 0)).
  { intros id Hin. apply C6.iota_in. specialize (Hrange id Hin). unfold ulen in Hrange. lia. }
  pose proof (NoDup_incl_length Hnd Hincl) as Hle. rewrite C6.iota_length in Hle. exact Hle.
Qed.

(* the same in terms of what the broker SAID (needs the representation invariant of the client state, C6.inv,
   which every state reached from KafkaClient::new by loads has: C06_inv_init / C06_inv_step): partition k,
   listed with leader l, takes part in the key-less rotation if and only if the response lists a broker with
   node id l, or the client knew such a broker before *)
Theorem C12_available_after_update : forall s md s' t tm ps k l,
  C6.inv s -> ulen (brokers s) + ulen (md_brokers md) <= UNKNOWN_BROKER_INDEX ->
  update_metadata s md = Ok s' -> C6.last_topic (md_topics md) t = Some tm ->
  assoc_bytes t (producer_state s') = Some ps ->
  0 <= k < ulen (tm_partitions tm) -> C6.listed_leader (tm_partitions tm) k = Some l ->
  (In k (available_ids ps) <->
     (exists m, C6.last_broker (md_brokers md) l = Some m)
     \/ (exists h, assoc_z l (map C6.bpair (brokers s)) = Some h)).
Proof.
  intros s md s' t tm ps k l Hinv Hsz H Hlt Ha Hk Hl.
  rewrite (C12_available_iff_leader s' t ps k Ha).
  destruct (C10X.C10_update_metadata_routing s md s' t tm k l Hinv Hsz H Hlt Hk Hl) as [Hfb _].
  rewrite Hfb. destruct (C6.last_broker (md_brokers md) l) as [m|]; split.
  - intros _. left. exists m. reflexivity.
  - intros _. eexists. reflexivity.
  - intros [host Hh]. right. exists host. exact Hh.
  - intros [[m Hm]|[h Hh]]; [discriminate|]. exists h. exact Hh.
Qed.

(* ---- non-vacuity: the seed's own history ---------------------------------------------------------- *)
(* two brokers; topic t first with 6 partitions, then (deleted and re-created) with 4; partition 2 of the
   second listing is led by node 3, which nobody advertises *)
Definition e7_brokers : list broker_md := [C6.ex_bm 1 (tag "a") 9092; C6.ex_bm 2 (tag "b") 9092].
Definition e7_tm6 : topic_md :=
  C6.ex_tm (tag "t") [C6.ex_pm 0 1; C6.ex_pm 1 2; C6.ex_pm 2 1; C6.ex_pm 3 2; C6.ex_pm 4 1; C6.ex_pm 5 2].
Definition e7_tm4 : topic_md := C6.ex_tm (tag "t") [C6.ex_pm 0 1; C6.ex_pm 1 2; C6.ex_pm 2 1; C6.ex_pm 3 2].
Definition e7_tm4x : topic_md := C6.ex_tm (tag "t") [C6.ex_pm 0 1; C6.ex_pm 1 2; C6.ex_pm 2 3; C6.ex_pm 3 2].
Definition e7_md6 : metadata_resp := {| md_corr := 1; md_brokers := e7_brokers; md_topics := [e7_tm6] |}.
Definition e7_md4 : metadata_resp := {| md_corr := 2; md_brokers := e7_brokers; md_topics := [e7_tm4] |}.
Definition e7_md4x : metadata_resp := {| md_corr := 2; md_brokers := e7_brokers; md_topics := [e7_tm4x] |}.
Definition e7_s6 : cstate := C6.ex_load cstate_new e7_md6.
Definition e7_s64 : cstate := C6.ex_load e7_s6 e7_md4.
Definition e7_s4 : cstate := C6.ex_load cstate_new e7_md4.
Definition e7_s64x : cstate := C6.ex_load e7_s6 e7_md4x.

Example C12_after_update_ex :
  update_metadata e7_s6 e7_md4 = Ok e7_s64 /\ C6.last_topic (md_topics e7_md4) (tag "t") = Some e7_tm4
  /\ option_map (@length Z) (partitions_for e7_s6 (tag "t")) = Some 6%nat
  /\ option_map (@length Z) (partitions_for e7_s64 (tag "t")) = Some 4%nat
  /\ assoc_bytes (tag "t") (producer_state e7_s64) = Some {| available_ids := [0; 1; 2; 3]; num_all := 4 |}
  /\ xxh32 0 (tag "key-3") mod 4 = 3 /\ xxh32 0 (tag "key-3") mod 6 = 5
  /\ partition (producer_state e7_s6) 7 (tag "t") (-1) (Some (tag "key-3")) = (5, 7)
  /\ partition (producer_state e7_s64) 7 (tag "t") (-1) (Some (tag "key-3")) = (3, 7)
  /\ partition (producer_state e7_s4) 0 (tag "t") (-1) (Some (tag "key-3")) = (3, 0)
  /\ partition (producer_state e7_s64) 4 (tag "t") (-1) None = (0, 5)
  /\ fst (keyless_run (producer_state e7_s64) 2 (tag "t") 4) = [2; 3; 0; 1]
  /\ find_broker e7_s64 (tag "t") 4 = None /\ find_broker e7_s6 (tag "t") 4 = Some (tag "a:9092").
Proof. vm_compute. repeat split; reflexivity. Qed.

(* partition 2 re-listed with a leader nobody advertises: it leaves the rotation, 0, 1, 3 stay *)
Example C12_available_after_update_ex :
  C6.inv e7_s6 /\ ulen (brokers e7_s6) + ulen (md_brokers e7_md4x) <= UNKNOWN_BROKER_INDEX
  /\ update_metadata e7_s6 e7_md4x = Ok e7_s64x
  /\ assoc_bytes (tag "t") (producer_state e7_s64x) = Some {| available_ids := [0; 1; 3]; num_all := 4 |}
  /\ C6.listed_leader (tm_partitions e7_tm4x) 2 = Some 3 /\ C6.last_broker (md_brokers e7_md4x) 3 = None
  /\ assoc_z 3 (map C6.bpair (brokers e7_s6)) = None
  /\ C6.listed_leader (tm_partitions e7_tm4x) 3 = Some 2
  /\ C6.last_broker (md_brokers e7_md4x) 2 = Some (C6.ex_bm 2 (tag "b") 9092).
Proof.
  split; [apply (C6.C06_inv_step cstate_new e7_md6); [apply C6.C06_inv_init|vm_compute; reflexivity]|].
  vm_compute. repeat split; try reflexivity; discriminate.
Qed.

(* ================================================================================================ *)
(* Part B.  Whole public calls: load_metadata, Builder::create, send_all                             *)
(* ================================================================================================ *)
From KV Require Proofs.C10ExtraB.
Module C10B := KV.Proofs.C10ExtraB.

(* Producer::from_client(c).create(): no I/O, the client's metadata is left alone *)
Theorem C12_create_from_client_keeps_metadata : forall c0 calls s p s',
  producer_create (inr c0) calls s = (Ok p, s') ->
  cs (cl s') = cs (cl s) /\ conns (cl s') = conns (cl s) /\ script s' = script s /\ trace s' = trace s
  /\ p_parts p = producer_state (cs (cl s)) /\ p_cntr p = 0.
Proof.
  intros c0 calls s p s' H.
  destruct (C12_create_state _ _ _ _ _ H) as (Hparts & Hcntr & _).
  unfold producer_create in H.
  apply mbind_ok in H. destruct H as [c [s1 [Hc H]]]. unfold get_client in Hc. injection Hc as Hc Hs1. subst c s1.
  apply mbind_ok in H. destruct H as [u1 [s2 [H2 H]]]. unfold set_client in H2. injection H2 as _ Hs2. subst s2.
  apply mbind_ok in H. destruct H as [tmo [s3 [H3 H]]]. unfold lift in H3. injection H3 as _ Hs3. subst s3.
  apply mbind_ok in H. destruct H as [u2 [s4 [H4 H]]]. unfold ret in H4. injection H4 as _ Hs4. subst s4.
  apply mbind_ok in H. destruct H as [c' [s5 [H5 H]]]. unfold get_client in H5. injection H5 as _ Hs5. subst s5.
  unfold ret in H. injection H as _ Hs. subst s'. cbn [cl cs conns script trace] in *.
  repeat split; assumption.
Qed.

(* [seed 7, the seed's own scenario]  client.load_metadata(topics) - an UPDATE of whatever the client knew, s0 is
   ANY earlier state - then Producer::from_client(client).create(): for every topic of the response that the
   load received, the producer's snapshot is the one of the response *)
Theorem C12_from_client_after_load : forall topics s0 s1 c0 calls p s2,
  load_metadata topics s0 = (Ok tt, s1) ->
  producer_create (inr c0) calls s1 = (Ok p, s2) ->
  exists md sx, fetch_metadata topics s0 = (Ok md, sx) /\ p_cntr p = 0 /\
    (forall t tm, C6.last_topic (md_topics md) t = Some tm ->
       exists ps, assoc_bytes t (p_parts p) = Some ps /\ num_all ps = ulen (tm_partitions tm)
         /\ (forall id, In id (available_ids ps) ->
               0 <= id < ulen (tm_partitions tm) /\ exists host, find_broker (cs (cl s2)) t id = Some host)
         /\ (forall cntr pn k, pn < 0 -> 0 < ulen (tm_partitions tm) <= 2147483648 ->
               partition (p_parts p) cntr t pn (Some k) = (xxh32 0 k mod ulen (tm_partitions tm), cntr))
         /\ (forall cntr pn, pn < 0 -> fst (partition (p_parts p) cntr t pn None) < ulen (tm_partitions tm))) /\
    (forall t, C6.last_topic (md_topics md) t = None ->
       option_map num_all (assoc_bytes t (p_parts p)) = option_map (@ulen Z) (partitions_for (cs (cl s0)) t)).
Proof.
  intros topics s0 s1 c0 calls p s2 Hload Hcreate.
  destruct (C10B.load_metadata_update topics s0 s1 Hload) as (md & sx & Hf & Hu).
  destruct (C12_create_from_client_keeps_metadata c0 calls s1 p s2 Hcreate) as (Hcs & _ & _ & _ & Hparts & Hcntr).
  exists md, sx. split; [exact Hf|]. split; [exact Hcntr|]. rewrite Hparts, Hcs. split.
  - intros t tm Hlt.
    destruct (C12_snapshot_after_update _ md _ t tm Hu Hlt) as (ps & Ha & Hn & Hav).
    exists ps. split; [exact Ha|]. split; [exact Hn|]. split; [exact Hav|]. split.
    + intros cntr pn k Hpn Hm. exact (proj1 (C12_keyed_after_update _ md _ t tm cntr pn k Hu Hlt Hpn Hm)).
    + intros cntr pn Hpn. exact (proj1 (C12_keyless_after_update_in_range _ md _ t tm cntr pn Hu Hlt Hpn)).
  - intros t Hlt. rewrite producer_state_assoc.
    rewrite (C12_partition_count_unlisted _ md _ t Hu Hlt).
    change (partitions_for (snd (next_correlation_id (cs (cl s0)))) t) with (partitions_for (cs (cl s0)) t).
    destruct (partitions_for (cs (cl s0)) t); reflexivity.
Qed.

(* ... and what Producer::send_all then hands to the client, for ANY later value p' of that producer (the
   snapshot never changes: C12_send_all_chain) and any counter: the i-th message of the list given to
   KafkaClient::internal_produce_messages *)
Theorem C12_send_all_after_load : forall topics s0 s1 c0 calls p s2 p' recs s,
  load_metadata topics s0 = (Ok tt, s1) ->
  producer_create (inr c0) calls s1 = (Ok p, s2) ->
  p_parts p' = p_parts p ->
  exists md sx msgs, fetch_metadata topics s0 = (Ok md, sx) /\
    producer_send_all p' recs s
    = mbind (internal_produce_messages (p_acks p') (p_ack_timeout p') msgs)
            (fun cf => ret (cf, producer_set_cntr p' (snd (assign (p_parts p') (p_cntr p') recs)))) s /\
    length msgs = length recs /\
    (forall i r tm, nth_error recs i = Some r -> r_partition r < 0 ->
       C6.last_topic (md_topics md) (r_topic r) = Some tm ->
       exists q, nth_error msgs i = Some {| pq_topic := r_topic r; pq_partition := q;
                                           pq_key := to_option (r_key r); pq_value := to_option (r_value r) |}
         /\ (r_key r <> [] -> 0 < ulen (tm_partitions tm) <= 2147483648 ->
               q = xxh32 0 (r_key r) mod ulen (tm_partitions tm))
         /\ (r_key r = [] -> q < ulen (tm_partitions tm))).
Proof.
  intros topics s0 s1 c0 calls p s2 p' recs s Hload Hcreate Hsame.
  destruct (C12_from_client_after_load topics s0 s1 c0 calls p s2 Hload Hcreate) as (md & sx & Hf & _ & Hlisted & _).
  exists md, sx, (assigned_msgs recs (fst (assign (p_parts p') (p_cntr p') recs))).
  split; [exact Hf|]. split; [apply C12_send_all_is_client_produce|].
  split; [apply assigned_msgs_length, assign_length|].
  intros i r tm Hr Hneg Hlt.
  destruct (assign_nth_some (p_parts p') recs (p_cntr p') i r Hr) as [c Hq].
  exists (fst (choice (p_parts p') c r)). split; [exact (C12_assigned_msgs_nth recs _ i r _ Hr Hq)|].
  destruct (Hlisted _ tm Hlt) as (ps & Ha & Hn & Hav & Hkeyed & Hkeyless).
  unfold choice. rewrite Hsame. split.
  - intros Hk Hm. destruct (r_key r) as [|b k] eqn:Ek; [congruence|]. cbn [to_option].
    rewrite (Hkeyed c (r_partition r) (b :: k) Hneg Hm). reflexivity.
  - intros Hk. rewrite Hk. cbn [to_option]. exact (Hkeyless c (r_partition r) Hneg).
Qed.

(* Producer::from_hosts(hs).create(): load_metadata_all = reset + load; the snapshot is a function of the ONE
   response received - listed topics with the listed count, every other topic unknown to the producer *)
Theorem C12_create_from_hosts_snapshot : forall hs calls s p s',
  producer_create (inl hs) calls s = (Ok p, s') ->
  exists s1 md sx, script s1 = script s /\ trace s1 = trace s /\
    fetch_metadata [] (C6X.reset_st s1) = (Ok md, sx) /\ p_cntr p = 0 /\
    (forall t tm, C6.last_topic (md_topics md) t = Some tm ->
       exists ps, assoc_bytes t (p_parts p) = Some ps /\ num_all ps = ulen (tm_partitions tm)
         /\ (forall id, In id (available_ids ps) ->
               0 <= id < ulen (tm_partitions tm) /\ exists host, find_broker (cs (cl s')) t id = Some host)
         /\ (forall cntr pn k, pn < 0 -> 0 < ulen (tm_partitions tm) <= 2147483648 ->
               partition (p_parts p) cntr t pn (Some k) = (xxh32 0 k mod ulen (tm_partitions tm), cntr))) /\
    (forall t, C6.last_topic (md_topics md) t = None ->
       assoc_bytes t (p_parts p) = None /\
       forall cntr pn key, pn < 0 -> partition (p_parts p) cntr t pn key = (pn, cntr)).
Proof.
  intros hs calls s p s' H.
  destruct (C12_create_state _ _ _ _ _ H) as (Hparts & Hcntr & _).
  unfold producer_create in H.
  apply mbind_ok in H. destruct H as [c [sa [Hc H]]]. unfold get_client in Hc. injection Hc as Hc Hsa. subst c sa.
  apply mbind_ok in H. destruct H as [u1 [s1 [H2 H]]]. unfold set_client in H2. injection H2 as _ Hs1.
  apply mbind_ok in H. destruct H as [tmo [s3 [H3 H]]]. unfold lift in H3. injection H3 as _ Hs3. subst s3.
  apply mbind_ok in H. destruct H as [u2 [s4 [H4 H]]].
  apply mbind_ok in H. destruct H as [c' [s5 [H5 H]]]. unfold get_client in H5. injection H5 as _ Hs5. subst s5.
  unfold ret in H. injection H as _ Hs. subst s4. destruct u2.
  assert (Hl : load_metadata [] (C6X.reset_st s1) = (Ok tt, s')) by exact H4.
  destruct (C10B.load_metadata_update [] (C6X.reset_st s1) s' Hl) as (md & sx & Hf & Hu).
  exists s1, md, sx. split; [subst s1; reflexivity|]. split; [subst s1; reflexivity|].
  split; [exact Hf|]. split; [exact Hcntr|]. rewrite Hparts. split.
  - intros t tm Hlt.
    destruct (C12_snapshot_after_update _ md _ t tm Hu Hlt) as (ps & Ha & Hn & Hav).
    exists ps. split; [exact Ha|]. split; [exact Hn|]. split; [exact Hav|].
    intros cntr pn k Hpn Hm. exact (proj1 (C12_keyed_after_update _ md _ t tm cntr pn k Hu Hlt Hpn Hm)).
  - intros t Hlt.
    assert (Hnone : assoc_bytes t (producer_state (cs (cl s'))) = None).
    { rewrite producer_state_assoc. rewrite (C12_partition_count_unlisted _ md _ t Hu Hlt). reflexivity. }
    split; [exact Hnone|]. intros cntr pn key Hpn. exact (C12_unknown _ cntr t pn key Hpn Hnone).
Qed.

(* ---- non-vacuity of Part B: the seed's scenario through the entry points ------------------------------ *)
From KV Require Import Spec.RespGrammar.
(* the reply of a conforming broker after topic t was re-created with 4 partitions *)
Definition e7_r4 : w_metadata :=
  {| wm_corr := 1;
     wm_brokers := Some [ {| wb_node := 1; wb_host := Some (tag "a"); wb_port := 9092 |};
                          {| wb_node := 2; wb_host := Some (tag "b"); wb_port := 9092 |} ];
     wm_topics := Some [ {| wtm_error := 0; wtm_name := Some (tag "t");
                            wtm_partitions := Some [C10X.ex_wpm 0 1; C10X.ex_wpm 1 2; C10X.ex_wpm 2 1;
                                                    C10X.ex_wpm 3 2] |} ] |}.
(* a client that loaded t when it had 6 partitions (e7_s6); the next reply on the stream is e7_r4 *)
Definition e7_st : st :=
  {| script := [OConn true; OWrote 1000; OData (enc_i32 (ulen (print_metadata e7_r4))); OData (print_metadata e7_r4)];
     trace := []; anyq := []; hostq := []; fetchq := []; entryq := [];
     cl := {| cfg := default_config [tag "a:9092"]; cs := e7_s6; conns := [] |}; env := C6.ex_env |}.
Definition e7_md4w : metadata_resp := KV.Proofs.C10Facts.view_metadata e7_r4.
Definition e7_recs : list record :=
  [ ex_rec (tag "t") (-1) (tag "key-3") (tag "v"); ex_rec (tag "t") (-1) [] (tag "v");
    ex_rec (tag "t") (-1) [] (tag "v"); ex_rec (tag "t") (-1) [] (tag "v"); ex_rec (tag "t") (-1) [] (tag "v");
    ex_rec (tag "t") (-1) [] (tag "v"); ex_rec (tag "t") 5 (tag "key-3") (tag "v") ].

Example C12_from_client_after_load_ex :
  option_map num_all (assoc_bytes (tag "t") (producer_state (cs (cl e7_st)))) = Some 6 /\
  let '(r, s1) := load_metadata [tag "t"] e7_st in
  r = Ok tt /\ fst (fetch_metadata [tag "t"] e7_st) = Ok e7_md4w /\
  map (fun tm => (tm_topic tm, length (tm_partitions tm))) (md_topics e7_md4w) = [(tag "t", 4%nat)] /\
  match producer_create (inr (cl s1)) [PWithAcks 1] s1 with
  | (Ok p, s2) =>
      p_cntr p = 0 /\ trace s2 = trace s1 /\
      assoc_bytes (tag "t") (p_parts p) = Some {| available_ids := [0; 1; 2; 3]; num_all := 4 |} /\
      partition (p_parts p) 0 (tag "t") (-1) (Some (tag "key-3")) = (3, 0) /\
      (* keyed -> 3; five key-less ones rotate over 0..3; explicit 5 is kept ... *)
      fst (assign (p_parts p) 0 e7_recs) = [3; 0; 1; 2; 3; 0; 5] /\
      (* ... and, being outside the topic now, makes the batch fail locally; without it the batch goes out *)
      fst (send_all_reqs (cs (cl s2)) (p_parts p) 0 e7_recs []) = None /\
      fst (send_all_reqs (cs (cl s2)) (p_parts p) 0 (firstn 6 e7_recs) []) <> None
  | _ => False
  end.
Proof. vm_compute. repeat split; try reflexivity; discriminate. Qed.

(* from_hosts on the same client and stream: nothing of the 6-partition past survives, other topics unknown *)
Example C12_create_from_hosts_snapshot_ex :
  match producer_create (inl [tag "a:9092"]) [] e7_st with
  | (Ok p, s') =>
      assoc_bytes (tag "t") (p_parts p) = Some {| available_ids := [0; 1; 2; 3]; num_all := 4 |} /\
      assoc_bytes (tag "u") (p_parts p) = None /\
      partition (p_parts p) 9 (tag "t") (-1) (Some (tag "key-3")) = (3, 9) /\
      partition (p_parts p) 9 (tag "u") (-1) (Some (tag "key-3")) = (-1, 9) /\
      length (trace s') = 4%nat
  | _ => False
  end.
Proof. vm_compute. repeat split; reflexivity. Qed.

(* the instance of C12_send_all_after_load on that run: whatever producer value carries the snapshot *)
Example C12_send_all_after_load_instance : forall s1 p s2 p' s,
  load_metadata [tag "t"] e7_st = (Ok tt, s1) ->
  producer_create (inr (cl s1)) [] s1 = (Ok p, s2) -> p_parts p' = p_parts p ->
  exists msgs,
    producer_send_all p' e7_recs s
    = mbind (internal_produce_messages (p_acks p') (p_ack_timeout p') msgs)
            (fun cf => ret (cf, producer_set_cntr p' (snd (assign (p_parts p') (p_cntr p') e7_recs)))) s /\
    nth_error msgs 0 = Some {| pq_topic := tag "t"; pq_partition := 3; pq_key := Some (tag "key-3");
                               pq_value := Some (tag "v") |}.
Proof.
  intros s1 p s2 p' s Hl Hc Hsame.
  destruct (C12_send_all_after_load _ _ _ _ _ _ _ p' e7_recs s Hl Hc Hsame) as (md & sx & msgs & Hf & Heq & _ & Hmsg).
  exists msgs. split; [exact Heq|].
  assert (Hmd : md = e7_md4w).
  { assert (Hf' : fst (fetch_metadata [tag "t"] e7_st) = Ok e7_md4w) by (vm_compute; reflexivity).
    rewrite Hf in Hf'. cbn [fst] in Hf'. injection Hf' as ->. reflexivity. }
  subst md.
  destruct (Hmsg 0%nat (ex_rec (tag "t") (-1) (tag "key-3") (tag "v")) (hd e7_tm4 (md_topics e7_md4w)))
    as (q & Hq & Hkeyed & _).
  - reflexivity.
  - vm_compute. reflexivity.
  - vm_compute. reflexivity.
  - rewrite Hq. rewrite Hkeyed.
    + vm_compute. reflexivity.
    + cbn [r_key ex_rec]. discriminate.
    + vm_compute. split; [reflexivity|discriminate].
Qed.

(* ================================================================================================ *)
(* Part C.  Any HISTORY of loads and resets of the client the producer is built on                    *)
(* ================================================================================================ *)
(* C6.step_c: Some md = a load (full or by name) that received md, None = reset_metadata.  What a history says
   about topic t: None = never touched; Some None = forgotten by a reset and not listed since;
   Some (Some tm) = tm is the LAST listing of t that is not followed by a reset *)
Fixpoint hist_listing (ops : list (option metadata_resp)) (t : bytes) : option (option topic_md) :=
  match ops with
  | [] => None
  | op :: r => match hist_listing r t with
               | Some x => Some x
               | None => match op with
                         | None => Some None
                         | Some md => option_map Some (C6.last_topic (md_topics md) t)
                         end
               end
  end.

Theorem C12_partition_count_after_history : forall ops s s' t,
  fold_left C6.step_c ops (Ok s) = Ok s' ->
  match hist_listing ops t with
  | Some (Some tm) => exists l, partitions_for s' t = Some l /\ length l = length (tm_partitions tm)
  | Some None => partitions_for s' t = None
  | None => partitions_for s' t = partitions_for s t
  end.
Proof.
  induction ops as [|op r IH]; intros s s' t H.
  - cbn [fold_left] in H. injection H as <-. reflexivity.
  - cbn [fold_left hist_listing] in *.
    assert (Hstep : exists s1, C6.step_c (Ok s) op = Ok s1 /\
              match op with None => s1 = clear_metadata s | Some md => update_metadata s md = Ok s1 end).
    { destruct op as [md|]; cbn [C6.step_c bind].
      - exists (C6.upd_fun s md). split; apply C6.update_metadata_eq.
      - exists (clear_metadata s). split; reflexivity. }
    destruct Hstep as (s1 & Hs1 & Hop). rewrite Hs1 in H. specialize (IH s1 s' t H).
    destruct (hist_listing r t) as [x|]; [exact IH|]. rewrite IH.
    destruct op as [md|].
    + destruct (C6.last_topic (md_topics md) t) as [tm|] eqn:Hlt; cbn [option_map].
      * exact (C12_partition_count_after_update s md s1 t tm Hop Hlt).
      * exact (C12_partition_count_unlisted s md s1 t Hop Hlt).
    + subst s1. reflexivity.
Qed.

(* [seed 7 over any history; clauses B and D] a producer built on a client with history `ops`: a keyed record
   goes to XXH32(key) mod the count of the last listing; a topic forgotten by a reset is unassigned *)
Theorem C12_keyed_after_history : forall ops s s' t cntr p k,
  fold_left C6.step_c ops (Ok s) = Ok s' -> p < 0 ->
  match hist_listing ops t with
  | Some (Some tm) => 0 < ulen (tm_partitions tm) <= 2147483648 ->
                      partition (producer_state s') cntr t p (Some k) = (xxh32 0 k mod ulen (tm_partitions tm), cntr)
  | Some None => partition (producer_state s') cntr t p (Some k) = (p, cntr)
                 /\ partition (producer_state s') cntr t p None = (p, cntr)
  | None => fst (partition (producer_state s') cntr t p (Some k))
            = fst (partition (producer_state s) cntr t p (Some k))
  end.
Proof.
  intros ops s s' t cntr p k H Hp. pose proof (C12_partition_count_after_history ops s s' t H) as Hc.
  destruct (hist_listing ops t) as [[tm|]|].
  - intros Hn. destruct Hc as (l & Hl & Hlen).
    assert (Hul : ulen l = ulen (tm_partitions tm)) by (unfold ulen; rewrite Hlen; reflexivity).
    rewrite <- Hul in *. exact (proj1 (C12_keyed_total_count s' cntr t p k l Hp Hl Hn)).
  - assert (Hnone : assoc_bytes t (producer_state s') = None) by (rewrite producer_state_assoc, Hc; reflexivity).
    split; apply C12_unknown; assumption.
  - destruct (partitions_for s t) as [l|] eqn:Hl.
    + exact (C12_keyed_same_across_producers s' s cntr cntr t p k l l Hp Hc Hl eq_refl).
    + assert (Hn' : assoc_bytes t (producer_state s') = None) by (rewrite producer_state_assoc, Hc; reflexivity).
      assert (Hn : assoc_bytes t (producer_state s) = None) by (rewrite producer_state_assoc, Hl; reflexivity).
      rewrite (C12_unknown _ cntr t p (Some k) Hp Hn'), (C12_unknown _ cntr t p (Some k) Hp Hn). reflexivity.
Qed.

(* 6 partitions, then 4; 6, reset, nothing; 6, then a load that does not mention t *)
Example C12_after_history_ex :
  fold_left C6.step_c [Some e7_md6; Some e7_md4] (Ok cstate_new) = Ok e7_s64
  /\ hist_listing [Some e7_md6; Some e7_md4] (tag "t") = Some (Some e7_tm4)
  /\ hist_listing [Some e7_md6; None] (tag "t") = Some None
  /\ hist_listing [Some e7_md6; Some C6.ex_md2] (tag "t") = Some (Some e7_tm6)
  /\ hist_listing [None; Some C6.ex_md2] (tag "t") = Some None
  /\ hist_listing [Some C6.ex_md2] (tag "t") = None
  /\ match fold_left C6.step_c [Some e7_md4; Some e7_md6; Some C6.ex_md2] (Ok cstate_new) with
     | Ok s' => partition (producer_state s') 1 (tag "t") (-1) (Some (tag "key-3")) = (5, 1)
     | _ => False end
  /\ match fold_left C6.step_c [Some e7_md6; None; Some C6.ex_md2] (Ok cstate_new) with
     | Ok s' => partition (producer_state s') 1 (tag "t") (-1) (Some (tag "key-3")) = (-1, 1)
     | _ => False end.
Proof. vm_compute. repeat split; reflexivity. Qed.

Print Assumptions C12_partition_count_after_update.
Print Assumptions C12_partition_count_unlisted.
Print Assumptions C12_snapshot_after_update.
Print Assumptions C12_keyed_after_update.
Print Assumptions C12_keyed_same_across_histories.
Print Assumptions C12_keyless_after_update_in_range.
Print Assumptions C12_rotation_after_update.
Print Assumptions C12_available_after_update.
Print Assumptions C12_create_from_client_keeps_metadata.
Print Assumptions C12_from_client_after_load.
Print Assumptions C12_send_all_after_load.
Print Assumptions C12_create_from_hosts_snapshot.
Print Assumptions C12_partition_count_after_history.
Print Assumptions C12_keyed_after_history.
