(* C14: bounded retries of the group operations (coordinator lookup, offset commit, group
   offset fetch): repeated on the retryable answers for at most retry_max_attempts attempts
   (at least one), never looping indefinitely; re-lookup after "not coordinator for group". *)
From KV Require Import Base.Prelude Gen.ErrorCodes Gen.Consts Model.Codecs Model.Requests Model.Responses
                       Model.ClientState Model.Net Model.Client.
From KV Require Import Proofs.BytesFacts Proofs.C11Facts Proofs.NetFacts.
From Coq Require Import ZifyBool.

(* ================================================================================== *)
(* 1. counting attempts in the trace                                                  *)
(* ================================================================================== *)

(* an attempt: the whole frame is offered to some host *)
Definition is_attempt (fr : bytes) (e : ev_op) : bool :=
  match e with EWrite _ b => bytes_eqb b fr | _ => false end.
Definition is_intr (o : ev_out) : bool := match o with OWriteIntr => true | _ => false end.
Definition count_att (fr : bytes) (ops : list ev_op) : Z := Z.of_nat (length (filter (is_attempt fr) ops)).
Definition count_intr (outs : list ev_out) : Z := Z.of_nat (length (filter is_intr outs)).
Definition attempts (fr : bytes) (s s' : st) : Z := count_att fr (performed s s').
(* an interrupted write (EINTR) makes write_all offer the same buffer again *)
Definition interruptions (s s' : st) : Z := count_intr (consumed s s').

Lemma count_att_app fr a b : count_att fr (a ++ b) = count_att fr a + count_att fr b.
Proof. unfold count_att. rewrite filter_app, app_length. lia. Qed.
Lemma count_intr_app a b : count_intr (a ++ b) = count_intr a + count_intr b.
Proof. unfold count_intr. rewrite filter_app, app_length. lia. Qed.
Lemma count_att_nonneg fr a : 0 <= count_att fr a.
Proof. unfold count_att. lia. Qed.
Lemma count_intr_nonneg a : 0 <= count_intr a.
Proof. unfold count_intr. lia. Qed.
Lemma count_att_cons fr e a : count_att fr (e :: a) = (if is_attempt fr e then 1 else 0) + count_att fr a.
Proof. unfold count_att. cbn [filter]. destruct (is_attempt fr e); cbn [length]; lia. Qed.
Lemma count_intr_cons o a : count_intr (o :: a) = (if is_intr o then 1 else 0) + count_intr a.
Proof. unfold count_intr. cbn [filter]. destruct (is_intr o); cbn [length]; lia. Qed.

Lemma count_att_none (P : ev_op -> Prop) fr l :
  (forall e, P e -> is_attempt fr e = false) -> Forall P l -> count_att fr l = 0.
Proof.
  intros HP. induction 1 as [|e l He Hl IH]; [reflexivity|]. rewrite count_att_cons, (HP _ He), IH. reflexivity.
Qed.

Definition att_le (fr : bytes) (n : Z) (s s' : st) : Prop :=
  ext s s' /\ attempts fr s s' <= n + interruptions s s'.
Definition quiet (fr : bytes) : st -> st -> Prop := att_le fr 0.

Lemma att_le_refl fr n s : 0 <= n -> att_le fr n s s.
Proof.
  intros Hn. split; [apply ext_refl|]. unfold attempts, interruptions.
  rewrite performed_refl, consumed_refl. cbn. lia.
Qed.
Lemma att_le_trans fr n1 n2 s s1 s2 : att_le fr n1 s s1 -> att_le fr n2 s1 s2 -> att_le fr (n1 + n2) s s2.
Proof.
  intros [E1 L1] [E2 L2]. split; [eapply ext_trans; eassumption|]. unfold attempts, interruptions in *.
  rewrite (performed_app _ _ _ E1 E2), (consumed_app _ _ _ E1 E2), count_att_app, count_intr_app. lia.
Qed.
Lemma att_le_mono fr n n' s s' : n <= n' -> att_le fr n s s' -> att_le fr n' s s'.
Proof. intros Hn [E L]. split; [exact E|lia]. Qed.
Lemma preorder_quiet fr : preorder (quiet fr).
Proof.
  split; [intros s; apply att_le_refl; lia|].
  intros s s1 s2 H1 H2. exact (att_le_trans fr 0 0 _ _ _ H1 H2).
Qed.

Lemma keeps_bind_att {A B} fr n1 n2 (m : M A) (f : A -> M B) :
  0 <= n2 -> keeps (att_le fr n1) m -> (forall a, keeps (att_le fr n2) (f a)) ->
  keeps (att_le fr (n1 + n2)) (mbind m f).
Proof.
  intros Hn Hm Hf s r s' H. bind_inv H a s1 H1 H2.
  - eapply att_le_trans; [eapply Hm, H1|eapply Hf, H2].
  - eapply att_le_mono; [|eapply Hm, H1]. lia.
  - eapply att_le_mono; [|eapply Hm, H1]. lia.
Qed.

Lemma ops_in_quiet (P : ev_op -> Prop) fr s s' :
  (forall e, P e -> is_attempt fr e = false) -> ops_in P s s' -> quiet fr s s'.
Proof.
  intros HP [E F]. split; [exact E|]. unfold attempts. rewrite (count_att_none P fr _ HP F).
  pose proof (count_intr_nonneg (consumed s s')). unfold interruptions. lia.
Qed.

Lemma keeps_quiet_of_ops {A} (P : ev_op -> Prop) fr (m : M A) :
  (forall e, P e -> is_attempt fr e = false) -> keeps (ops_in P) m -> keeps (quiet fr) m.
Proof. intros HP Hm s r s' H. eapply ops_in_quiet; [exact HP|eapply Hm, H]. Qed.

Lemma short_write_not_attempt h n fr e : (n < length fr)%nat -> write_to_le h n e -> is_attempt fr e = false.
Proof.
  intros Hn [b0 [-> Hl]]. cbn [is_attempt]. apply bytes_eqb_neq. intros ->. lia.
Qed.
Lemma conn_event_not_attempt h fr e : conn_event h e -> is_attempt fr e = false.
Proof. intros [-> | ->]; reflexivity. Qed.
Lemma read_event_not_attempt h fr e : read_event h e -> is_attempt fr e = false.
Proof. intros [n ->]. reflexivity. Qed.
Lemma not_write_not_attempt fr e : not_write e -> is_attempt fr e = false.
Proof. destruct e; cbn; intros H; try reflexivity. contradiction. Qed.

(* one write_all of a buffer no longer than the frame offers the frame at most once, plus once
   more per interruption *)
Lemma wsteps_count h fr b ops outs chunks b' : wsteps h b ops outs chunks b' ->
  (length b <= length fr)%nat -> count_att fr (ops ++ [EWrite h b']) <= 1 + count_intr outs.
Proof.
  induction 1 as [b|b k ops outs chunks b' Hne Hk Hw IH|b ops outs chunks b' Hne Hw IH]; intros Hl.
  - cbn [app]. rewrite count_att_cons. cbn [is_attempt]. destruct (bytes_eqb b fr); cbn; lia.
  - cbn [app]. rewrite count_att_cons, count_intr_cons. cbn [is_intr].
    assert (Hz : count_att fr (ops ++ [EWrite h b']) = 0).
    { apply (count_att_none (write_to_le h (length (skipn (Z.to_nat k) b)))).
      - intros e He. eapply short_write_not_attempt; [|exact He]. rewrite skipn_length.
        destruct b; [contradiction|]. cbn [length] in *. lia.
      - eapply wsteps_writes; exact Hw. }
    rewrite Hz. pose proof (count_intr_nonneg outs). destruct (is_attempt fr (EWrite h b)); lia.
  - cbn [app]. rewrite count_att_cons, count_intr_cons. cbn [is_intr]. specialize (IH Hl).
    destruct (is_attempt fr (EWrite h b)); lia.
Qed.

Lemma write_all_att fuel h buf fr s r s' :
  write_all fuel h buf s = (r, s') -> (length buf <= length fr)%nat -> att_le fr 1 s s'.
Proof.
  intros H Hl. destruct (write_all_run _ _ _ _ _ _ H) as [_ (ops & outs & chunks & b' & Hw & He)].
  pose proof (wsteps_count _ fr _ _ _ _ _ Hw Hl) as Hc. rewrite count_att_app in Hc.
  pose proof (count_att_nonneg fr [EWrite h b']) as Hn.
  split; [eapply write_end_seg; exact He|]. unfold attempts, interruptions.
  destruct He as [Hr Hb Hs|o Hb Hbad Hs|Hb Hr Hd Hs|Hb Hr Hf Hs];
    rewrite (seg_performed _ _ _ _ Hs), (seg_consumed _ _ _ _ Hs);
    rewrite ?count_att_app, ?count_intr_app; try lia.
  pose proof (count_intr_nonneg [o]). lia.
Qed.

(* requests whose frame is shorter than fr never look like an attempt, even partially written *)
Definition short (fr : bytes) (req : res bytes) : Prop :=
  forall q, req = Ok q -> (length (frame q) < length fr)%nat.

Lemma send_att h msg fr : (length msg <= length fr)%nat -> keeps (att_le fr 1) (send h msg).
Proof.
  intros Hl. change 1 with (1 + 0). apply keeps_bind_att; [lia| |].
  - intros s r s' H. unfold with_fuel in H. eapply write_all_att; eassumption.
  - intros _. apply keeps_ret, preorder_quiet.
Qed.
Lemma send_quiet h msg fr : (length msg < length fr)%nat -> keeps (quiet fr) (send h msg).
Proof.
  intros Hl. apply keeps_bind; [apply preorder_quiet| |intros _; apply keeps_ret, preorder_quiet].
  intros s r s' H. unfold with_fuel in H.
  eapply ops_in_quiet; [|eapply write_all_ops; exact H]. intros e He. eapply short_write_not_attempt; eassumption.
Qed.

Lemma send_request_att h p : keeps (att_le (frame p) 1) (send_request h (Ok p)).
Proof.
  unfold send_request. intros s r s' H. unfold mbind at 1 in H. unfold lift in H.
  eapply send_att; [|exact H]. lia.
Qed.
Lemma send_request_quiet h req fr : short fr req -> keeps (quiet fr) (send_request h req).
Proof.
  intros Hs. unfold send_request. intros s r s' H. unfold mbind at 1 in H. unfold lift in H.
  destruct req as [q|e|w].
  - eapply send_quiet; [|exact H]. apply Hs. reflexivity.
  - inversion H; subst. apply preorder_quiet.
  - inversion H; subst. apply preorder_quiet.
Qed.

Lemma get_conn_quiet h fr : keeps (quiet fr) (get_conn h).
Proof. eapply keeps_quiet_of_ops; [|apply ops_get_conn]. apply conn_event_not_attempt. Qed.
Lemma get_response_quiet {A} (d : dec A) h fr : keeps (quiet fr) (get_response d h).
Proof. eapply keeps_quiet_of_ops; [|apply ops_get_response]. apply read_event_not_attempt. Qed.
Lemma get_conn_any_quiet fr : keeps (quiet fr) get_conn_any.
Proof. eapply keeps_quiet_of_ops; [|apply ops_get_conn_any]. apply not_write_not_attempt. Qed.

Lemma send_receive_att {A} (d : dec A) h p : keeps (att_le (frame p) 1) (send_receive d h (Ok p)).
Proof.
  unfold send_receive. change 1 with (0 + (1 + 0)).
  apply keeps_bind_att; [lia|apply get_conn_quiet|]. intros _.
  apply keeps_bind_att; [lia|apply send_request_att|]. intros _. apply get_response_quiet.
Qed.
Lemma send_receive_quiet {A} (d : dec A) h req fr : short fr req -> keeps (quiet fr) (send_receive d h req).
Proof.
  intros Hs. unfold send_receive.
  apply keeps_bind; [apply preorder_quiet|apply get_conn_quiet|]. intros _.
  apply keeps_bind; [apply preorder_quiet|apply send_request_quiet; exact Hs|]. intros _. apply get_response_quiet.
Qed.

(* ================================================================================== *)
(* 2. the response decoders of the group operations never run out of fuel             *)
(* ================================================================================== *)

Definition shrinks {A} (d : dec A) (k : nat) : Prop :=
  forall bs a r, d bs = Ok (a, r) -> (length r + k <= length bs)%nat.
Definition nf {A} (d : dec A) : Prop := forall bs, d bs <> Err EOutOfFuel.

Lemma cread_shrinks n : shrinks (cread n) n.
Proof.
  intros bs a r H. rewrite cread_unfold in H. destruct (Nat.ltb (length bs) n) eqn:E; [discriminate|].
  inversion H; subst. rewrite skipn_length. apply Nat.ltb_ge in E. lia.
Qed.
Lemma cread_nf n : nf (cread n).
Proof. intros bs H. rewrite cread_unfold in H. destruct (Nat.ltb (length bs) n); discriminate. Qed.

Ltac dec_int_shrinks :=
  let bs := fresh "bs" in let a := fresh "a" in let r := fresh "r" in let H := fresh "H" in
  let x := fresh "x" in let r' := fresh "r'" in let E := fresh "E" in
  intros bs a r H;
  match type of H with ?f bs = _ => unfold f in H end;
  match type of H with bind (cread ?n bs) _ = _ =>
    destruct (cread n bs) as [[x r']| |] eqn:E; cbn [bind] in H; [|discriminate|discriminate];
    inversion H; subst; exact (cread_shrinks n _ _ _ E) end.
Ltac dec_int_nf :=
  let bs := fresh "bs" in let H := fresh "H" in let x := fresh "x" in let r' := fresh "r'" in
  let E := fresh "E" in
  intros bs H;
  match type of H with ?f bs = _ => unfold f in H end;
  match type of H with bind (cread ?n bs) _ = _ =>
    destruct (cread n bs) as [[x r']| |] eqn:E; cbn [bind] in H; [discriminate| |discriminate];
    inversion H; subst; exact (cread_nf n _ E) end.

Lemma dec_i16_shrinks : shrinks dec_i16 2. Proof. dec_int_shrinks. Qed.
Lemma dec_i32_shrinks : shrinks dec_i32 4. Proof. dec_int_shrinks. Qed.
Lemma dec_i64_shrinks : shrinks dec_i64 8. Proof. dec_int_shrinks. Qed.
Lemma dec_i16_nf : nf dec_i16. Proof. dec_int_nf. Qed.
Lemma dec_i32_nf : nf dec_i32. Proof. dec_int_nf. Qed.
Lemma dec_i64_nf : nf dec_i64. Proof. dec_int_nf. Qed.

Lemma dec_string_shrinks : shrinks dec_string 2.
Proof.
  intros bs a r H. unfold dec_string in H. destruct (dec_i16 bs) as [[len r']| |] eqn:E; cbn [bind] in H;
    try discriminate. apply dec_i16_shrinks in E. destruct (len <=? 0); [inversion H; subst; lia|].
  cbv zeta in H. destruct (_ && _); [|discriminate]. inversion H; subst. rewrite skipn_length. lia.
Qed.
Lemma dec_string_nf : nf dec_string.
Proof.
  intros bs H. unfold dec_string in H. destruct (dec_i16 bs) as [[len r']| |] eqn:E; cbn [bind] in H.
  - destruct (len <=? 0); [discriminate|]. cbv zeta in H. destruct (_ && _); discriminate.
  - inversion H; subst. exact (dec_i16_nf _ E).
  - discriminate.
Qed.

Lemma dec_many_shrinks {A} (d : dec A) : shrinks d 0 -> forall fuel count, shrinks (dec_many d fuel count) 0.
Proof.
  intros Hd. induction fuel as [|f IH]; intros count bs a r H; cbn [dec_many] in H;
    destruct (count <=? 0); try discriminate; try (inversion H; subst; lia).
  destruct (d bs) as [[x r1]| |] eqn:E; cbn [bind] in H; try discriminate.
  destruct (dec_many d f (count - 1) r1) as [[xs r2]| |] eqn:E2; cbn [bind] in H; try discriminate.
  inversion H; subst. apply Hd in E. apply IH in E2. lia.
Qed.
Lemma dec_many_nf {A} (d : dec A) : shrinks d 1 -> nf d ->
  forall fuel count bs, (length bs < fuel)%nat -> dec_many d fuel count bs <> Err EOutOfFuel.
Proof.
  intros Hd Hn. induction fuel as [|f IH]; intros count bs Hl H; [lia|]. cbn [dec_many] in H.
  destruct (count <=? 0); [discriminate|].
  destruct (d bs) as [[x r1]|e|w] eqn:E; cbn [bind] in H.
  - destruct (dec_many d f (count - 1) r1) as [[xs r2]|e|w] eqn:E2; cbn [bind] in H; try discriminate.
    inversion H; subst. apply Hd in E. apply (IH (count - 1) r1); [lia|exact E2].
  - inversion H; subst. exact (Hn _ E).
  - discriminate.
Qed.
Lemma dec_vec_shrinks {A} sz (d : dec A) : shrinks d 0 -> shrinks (dec_vec sz d) 4.
Proof.
  intros Hd bs a r H. unfold dec_vec in H. destruct (dec_i32 bs) as [[len r']| |] eqn:E; cbn [bind] in H;
    try discriminate. apply dec_i32_shrinks in E. destruct (len <=? 0); [inversion H; subst; lia|].
  apply (dec_many_shrinks d Hd) in H. lia.
Qed.
Lemma dec_vec_nf {A} sz (d : dec A) : shrinks d 1 -> nf d -> nf (dec_vec sz d).
Proof.
  intros Hd Hn bs H. unfold dec_vec in H. destruct (dec_i32 bs) as [[len r']|e|w] eqn:E; cbn [bind] in H.
  - destruct (len <=? 0); [discriminate|]. apply (dec_many_nf d Hd Hn) in H; [exact H|lia].
  - inversion H; subst. exact (dec_i32_nf _ E).
  - discriminate.
Qed.
Lemma shrinks_weaken {A} (d : dec A) k k' : (k' <= k)%nat -> shrinks d k -> shrinks d k'.
Proof. intros Hk Hd bs a r H. apply Hd in H. lia. Qed.

(* chains `let* '(x, r) := d1 bs in ...` *)
Ltac chain_shrinks H :=
  repeat match type of H with
  | bind (?d ?bs) _ = Ok _ =>
      let x := fresh "x" in let r := fresh "r" in let E := fresh "E" in
      destruct (d bs) as [[x r]| |] eqn:E; cbn [bind] in H; [|discriminate|discriminate]
  end.
Ltac chain_nf H lem :=
  repeat match type of H with
  | bind (?d ?bs) _ = Err EOutOfFuel =>
      let x := fresh "x" in let r := fresh "r" in let e := fresh "e" in let E := fresh "E" in
      destruct (d bs) as [[x r]|e|] eqn:E; cbn [bind] in H;
      [|inversion H; subst; exfalso; revert E; first [apply dec_i16_nf|apply dec_i32_nf|apply dec_i64_nf|apply dec_string_nf|lem]
       |discriminate]
  end.

Lemma dec_offset_commit_part_shrinks : shrinks dec_offset_commit_part 1.
Proof.
  intros bs a r H. unfold dec_offset_commit_part in H. chain_shrinks H. inversion H; subst.
  apply dec_i32_shrinks in E. apply dec_i16_shrinks in E0. lia.
Qed.
Lemma dec_offset_commit_part_nf : nf dec_offset_commit_part.
Proof. intros bs H. unfold dec_offset_commit_part in H. chain_nf H ltac:(fail). discriminate. Qed.

Lemma dec_offset_fetch_part_shrinks : shrinks dec_offset_fetch_part 1.
Proof.
  intros bs a r H. unfold dec_offset_fetch_part in H. chain_shrinks H. inversion H; subst.
  apply dec_i32_shrinks in E. apply dec_i64_shrinks in E0. apply dec_string_shrinks in E1.
  apply dec_i16_shrinks in E2. lia.
Qed.
Lemma dec_offset_fetch_part_nf : nf dec_offset_fetch_part.
Proof. intros bs H. unfold dec_offset_fetch_part in H. chain_nf H ltac:(fail). discriminate. Qed.

Lemma dec_tps_nf {P} psize (dp : dec P) : shrinks dp 1 -> nf dp -> nf (dec_tps psize dp).
Proof.
  intros Hs Hn. unfold dec_tps. apply dec_vec_nf.
  - intros bs a r H. chain_shrinks H. inversion H; subst. apply dec_string_shrinks in E.
    apply (dec_vec_shrinks psize dp (shrinks_weaken dp 1 0 (Nat.le_0_l 1) Hs)) in E0. lia.
  - intros bs H. chain_nf H ltac:(apply (dec_vec_nf psize dp Hs Hn)). discriminate.
Qed.

Lemma dec_offset_commit_resp_nf : nf dec_offset_commit_resp.
Proof.
  intros bs H. unfold dec_offset_commit_resp, dec_corr in H.
  chain_nf H ltac:(apply (dec_tps_nf 8 _ dec_offset_commit_part_shrinks dec_offset_commit_part_nf)).
  discriminate.
Qed.
Lemma dec_offset_fetch_resp_nf : nf dec_offset_fetch_resp.
Proof.
  intros bs H. unfold dec_offset_fetch_resp, dec_corr in H.
  chain_nf H ltac:(apply (dec_tps_nf 48 _ dec_offset_fetch_part_shrinks dec_offset_fetch_part_nf)).
  discriminate.
Qed.
Lemma dec_coordinator_resp_nf : nf dec_coordinator_resp.
Proof. intros bs H. unfold dec_coordinator_resp, dec_corr in H. chain_nf H ltac:(fail). discriminate. Qed.

(* ================================================================================== *)
(* 3. coordinator lookup                                                              *)
(* ================================================================================== *)

Definition with_cs (s : st) (x : cstate) : st := snd (set_cs x s).

Lemma set_cs_eq x s : set_cs x s = (Ok tt, with_cs s x).
Proof. reflexivity. Qed.
Lemma with_cs_seg s x : seg s (with_cs s x) [] [].
Proof. split; reflexivity. Qed.
Lemma with_cs_cfg s x : cfg (cl (with_cs s x)) = cfg (cl s).
Proof. reflexivity. Qed.
Lemma with_cs_cs s x : cs (cl (with_cs s x)) = x.
Proof. reflexivity. Qed.
Lemma with_cs_quiet fr s x : quiet fr s (with_cs s x).
Proof.
  pose proof (with_cs_seg s x) as Hs. split; [exists [], []; exact Hs|].
  unfold attempts, interruptions. rewrite (seg_performed _ _ _ _ Hs), (seg_consumed _ _ _ _ Hs). cbn. lia.
Qed.
Lemma with_cs_ext s x : ext s (with_cs s x).
Proof. exists [], []. apply with_cs_seg. Qed.

(* the config is never touched *)
Definition same_cfgc (s s' : st) : Prop := cfg (cl s') = cfg (cl s).
Lemma preorder_same_cfgc : preorder same_cfgc.
Proof. split; [intros s; reflexivity|intros s s1 s2 H1 H2; unfold same_cfgc in *; congruence]. Qed.

(* ---- one attempt ----------------------------------------------------------------------- *)
Section LookupAttempt.
  Variable R : st -> st -> Prop.
  Hypothesis HR : preorder R.
  Variable req : res bytes.
  Hypothesis Hany : keeps R get_conn_any.
  Hypothesis Hsend : forall h, keeps R (send_request h req).
  Hypothesis Hresp : forall h, keeps R (get_response dec_coordinator_resp h).

  Lemma keepsR_lookup_attempt : keeps R (group_lookup_attempt req).
  Proof.
    apply keeps_bind; [exact HR|exact Hany|]. intros [h|]; [|apply keeps_mpanic; exact HR].
    apply keeps_bind; [exact HR|apply Hsend|]. intros _. apply Hresp.
  Qed.
End LookupAttempt.

Lemma lookup_attempt_ext req : keeps ext (group_lookup_attempt req).
Proof.
  apply keepsR_lookup_attempt; [apply preorder_ext|apply ext_get_conn_any| |]; intros h.
  - apply tracks_ext, tracks_send_request.
  - apply tracks_ext, tracks_get_response.
Qed.
Lemma lookup_attempt_same_cl req : keeps same_cl (group_lookup_attempt req).
Proof.
  apply keepsR_lookup_attempt; [apply preorder_same_cl|apply frame_get_conn_any| |]; intros h s r s' H.
  - apply (frame_send_request _ _ _ _ _ H).
  - apply (frame_get_response _ _ _ _ _ _ H).
Qed.
Lemma lookup_attempt_quiet req fr : short fr req -> keeps (quiet fr) (group_lookup_attempt req).
Proof.
  intros Hs. apply keepsR_lookup_attempt; [apply preorder_quiet|apply get_conn_any_quiet| |]; intros h.
  - apply send_request_quiet. exact Hs.
  - apply get_response_quiet.
Qed.
Lemma lookup_attempt_att p : keeps (att_le (frame p) 1) (group_lookup_attempt (Ok p)).
Proof.
  unfold group_lookup_attempt. change 1 with (0 + 1).
  apply keeps_bind_att; [lia|apply get_conn_any_quiet|]. intros [h|].
  - change 1 with (1 + 0). apply keeps_bind_att; [lia|apply send_request_att|]. intros _. apply get_response_quiet.
  - intros s r s' H. inversion H; subst. apply att_le_refl. lia.
Qed.

Lemma get_response_nofuel {A} (d : dec A) h : nf d -> nofuel (get_response d h).
Proof.
  intros Hd s r s' H Hr. destruct (get_response_inv _ _ _ _ _ H) as [[b [Hb Hq]]|[e [Hb Hq]]]; subst r.
  - destruct (d b) as [[a rest]|e|w] eqn:E; try discriminate. inversion Hq; subst. exact (Hd _ E).
  - inversion Hq; subst. exact (nofuel_get_response_bytes _ _ _ _ Hb eq_refl).
Qed.
Lemma nofuel_lift {A} (x : res A) : x <> Err EOutOfFuel -> nofuel (lift x).
Proof. intros Hx s r s' H. inversion H; subst. exact Hx. Qed.
Lemma nofuel_mpanic {A} w : nofuel (@mpanic A w).
Proof. intros s r s' H. inversion H; subst. discriminate. Qed.
Lemma send_request_nofuel h req : req <> Err EOutOfFuel -> nofuel (send_request h req).
Proof. intros Hq. apply nofuel_bind; [apply nofuel_lift; exact Hq|intros p; apply nofuel_send]. Qed.
Lemma send_receive_nofuel {A} (d : dec A) h req : nf d -> req <> Err EOutOfFuel -> nofuel (send_receive d h req).
Proof.
  intros Hd Hq. apply nofuel_bind; [apply nofuel_get_conn|]. intros _.
  apply nofuel_bind; [apply send_request_nofuel; exact Hq|]. intros _. apply get_response_nofuel. exact Hd.
Qed.
Lemma lookup_attempt_nofuel req : req <> Err EOutOfFuel -> nofuel (group_lookup_attempt req).
Proof.
  intros Hq. apply nofuel_bind; [apply nofuel_get_conn_any|]. intros [h|]; [|apply nofuel_mpanic].
  apply nofuel_bind; [apply send_request_nofuel; exact Hq|]. intros _.
  apply get_response_nofuel, dec_coordinator_resp_nf.
Qed.

Lemma send_request_ok_inv h req s z s' : send_request h req s = (Ok z, s') ->
  exists p, req = Ok p /\ (length (script s') < length (script s))%nat.
Proof.
  intros H. unfold send_request in H. unfold mbind at 1 in H. unfold lift in H.
  destruct req as [p|e|w]; try discriminate. exists p. split; [reflexivity|].
  unfold send in H. bind_inv H u s1 H1 H2; try discriminate. inversion H2; subst. destruct u.
  unfold with_fuel in H1. exact (write_all_ok_shrinks _ _ _ _ _ H1 (frame_nonempty p)).
Qed.

(* a decoded answer means the attempt consumed at least one script item *)
Lemma lookup_attempt_ok_shrinks req s resp s1 :
  group_lookup_attempt req s = (Ok resp, s1) -> (length (script s1) < length (script s))%nat.
Proof.
  intros H. unfold group_lookup_attempt in H. bind_inv H oh s0 H1 H2; try discriminate.
  destruct oh as [h|]; [|discriminate]. bind_inv H2 z s2 H3 H4; try discriminate.
  destruct (send_request_ok_inv _ _ _ _ _ H3) as [p [_ Hl]].
  pose proof (ext_script_le _ _ (ext_get_conn_any _ _ _ H1)).
  pose proof (ext_script_le _ _ (tracks_ext _ (tracks_get_response _ h) _ _ _ H4)). lia.
Qed.

(* ---- the loop: one iteration spelled out --------------------------------------------------- *)
Lemma lookup_loop_step f group req attempt s :
  group_lookup_loop (S f) group req attempt s =
  match group_lookup_attempt req s with
  | (Ok resp, s1) =>
      match from_protocol (gc_error resp) with
      | None => (Ok (fst (set_group_coordinator (cs (cl s1)) group resp)),
                 with_cs s1 (snd (set_group_coordinator (cs (cl s1)) group resp)))
      | Some code =>
          if code =? KC_GroupCoordinatorNotAvailable then
            if attempt <? retry_max_attempts (cfg (cl s1)) then group_lookup_loop f group req (attempt + 1) s1
            else (Err (EKafka code), s1)
          else (Err (EKafka code), s1)
      end
  | (Err e, s1) => (Err e, s1)
  | (Panic w, s1) => (Panic w, s1)
  end.
Proof.
  cbn [group_lookup_loop]. unfold mbind at 1.
  destruct (group_lookup_attempt req s) as [[resp|e|w] s1]; try reflexivity.
  destruct (from_protocol (gc_error resp)) as [code|].
  - destruct (code =? KC_GroupCoordinatorNotAvailable); [|reflexivity].
    unfold mbind at 1. unfold get_client at 1. destruct (attempt <? retry_max_attempts (cfg (cl s1))); reflexivity.
  - unfold mbind at 1. unfold get_client at 1.
    destruct (set_group_coordinator (cs (cl s1)) group resp) as [h cs'] eqn:E. cbn [fst snd].
    unfold mbind. rewrite set_cs_eq. reflexivity.
Qed.

Lemma lookup_loop_cfg fuel group req : forall attempt, keeps (fun s s' => ext s s' /\ same_cfgc s s') (group_lookup_loop fuel group req attempt).
Proof.
  induction fuel as [|f IH]; intros attempt s r s' H.
  - inversion H; subst. split; [apply ext_refl|reflexivity].
  - rewrite lookup_loop_step in H.
    destruct (group_lookup_attempt req s) as [[resp|e|w] s1] eqn:E.
    + pose proof (lookup_attempt_ext _ _ _ _ E) as E1. pose proof (lookup_attempt_same_cl _ _ _ _ E) as C1.
      unfold same_cl in C1. unfold same_cfgc.
      destruct (from_protocol (gc_error resp)) as [code|].
      * destruct (code =? KC_GroupCoordinatorNotAvailable);
          [destruct (attempt <? retry_max_attempts (cfg (cl s1)))|]; try (inversion H; subst; split; [exact E1|congruence]).
        destruct (IH _ _ _ _ H) as [E2 C2]. unfold same_cfgc in C2.
        split; [eapply ext_trans; eassumption|congruence].
      * inversion H; subst. split; [eapply ext_trans; [exact E1|apply with_cs_ext]|]. rewrite with_cs_cfg. congruence.
    + inversion H; subst. split; [eapply lookup_attempt_ext; exact E|].
      pose proof (lookup_attempt_same_cl _ _ _ _ E) as C1. unfold same_cl in C1. unfold same_cfgc. congruence.
    + inversion H; subst. split; [eapply lookup_attempt_ext; exact E|].
      pose proof (lookup_attempt_same_cl _ _ _ _ E) as C1. unfold same_cl in C1. unfold same_cfgc. congruence.
Qed.

Lemma lookup_loop_quiet fuel group req fr : short fr req ->
  forall attempt, keeps (quiet fr) (group_lookup_loop fuel group req attempt).
Proof.
  intros Hs. induction fuel as [|f IH]; intros attempt s r s' H.
  - inversion H; subst. apply preorder_quiet.
  - rewrite lookup_loop_step in H.
    destruct (group_lookup_attempt req s) as [[resp|e|w] s1] eqn:E;
      pose proof (lookup_attempt_quiet _ fr Hs _ _ _ E) as Q1.
    + destruct (from_protocol (gc_error resp)) as [code|].
      * destruct (code =? KC_GroupCoordinatorNotAvailable);
          [destruct (attempt <? retry_max_attempts (cfg (cl s1)))|]; try (inversion H; subst; exact Q1).
        eapply (proj2 (preorder_quiet fr)); [exact Q1|eapply IH; exact H].
      * inversion H; subst. eapply (proj2 (preorder_quiet fr)); [exact Q1|apply with_cs_quiet].
    + inversion H; subst. exact Q1.
    + inversion H; subst. exact Q1.
Qed.

(* ---- C14 for the lookup ------------------------------------------------------------------------- *)

(* The bound.  The count requested in the task (events EWrite _ (frame p)) also counts the
   re-offers write_all makes after an interrupted write (OWriteIntr), so the bound holds up to
   the number of interruptions consumed; see C14_lookup_bound_refuted and C14_lookup_bound. *)
Theorem C14_lookup_bound_partial : forall fuel group p attempt s r s',
  group_lookup_loop fuel group (Ok p) attempt s = (r, s') ->
  attempts (frame p) s s' <= Z.max 1 (retry_max_attempts (cfg (cl s)) - attempt + 1) + interruptions s s'.
Proof.
  intros fuel group p. 
  assert (K : forall fuel attempt s r s', group_lookup_loop fuel group (Ok p) attempt s = (r, s') ->
              att_le (frame p) (Z.max 1 (retry_max_attempts (cfg (cl s)) - attempt + 1)) s s').
  { clear fuel. induction fuel as [|f IH]; intros attempt s r s' H.
    - inversion H; subst. apply att_le_refl. lia.
    - rewrite lookup_loop_step in H.
      destruct (group_lookup_attempt (Ok p) s) as [[resp|e|w] s1] eqn:E;
        pose proof (lookup_attempt_att p _ _ _ E) as Q1;
        pose proof (lookup_attempt_same_cl _ _ _ _ E) as C1; unfold same_cl in C1.
      + destruct (from_protocol (gc_error resp)) as [code|].
        * destruct (code =? KC_GroupCoordinatorNotAvailable);
            [destruct (attempt <? retry_max_attempts (cfg (cl s1))) eqn:Ea|];
            try (inversion H; subst; eapply att_le_mono; [|exact Q1]; lia).
          specialize (IH _ _ _ _ H). rewrite C1 in IH, Ea.
          eapply att_le_mono; [|eapply att_le_trans; [exact Q1|exact IH]]. lia.
        * inversion H; subst. eapply att_le_mono; [|eapply att_le_trans; [exact Q1|apply with_cs_quiet]]. lia.
      + inversion H; subst. eapply att_le_mono; [|exact Q1]. lia.
      + inversion H; subst. eapply att_le_mono; [|exact Q1]. lia. }
  intros attempt s r s' H. exact (proj2 (K _ _ _ _ _ H)).
Qed.

Lemma count_intr_zero outs : ~ In OWriteIntr outs -> count_intr outs = 0.
Proof.
  induction outs as [|o outs IH]; intros Hn; [reflexivity|]. rewrite count_intr_cons, IH.
  - destruct o; cbn [is_intr]; try reflexivity. exfalso. apply Hn. left. reflexivity.
  - intros Hi. apply Hn. right. exact Hi.
Qed.

(* as stated in the task, for streams without interrupted writes (1 <= attempt is not needed) *)
Theorem C14_lookup_bound : forall fuel group p attempt s r s',
  group_lookup_loop fuel group (Ok p) attempt s = (r, s') -> 1 <= attempt ->
  ~ In OWriteIntr (consumed s s') ->
  attempts (frame p) s s' <= Z.max 1 (retry_max_attempts (cfg (cl s)) - attempt + 1).
Proof.
  intros fuel group p attempt s r s' H _ Hn. pose proof (C14_lookup_bound_partial _ _ _ _ _ _ _ H) as B.
  unfold interruptions in B. rewrite (count_intr_zero _ Hn) in B. lia.
Qed.

(* never out of fuel: every iteration that goes on consumed at least one script item *)
Lemma lookup_loop_nofuel fuel group req : req <> Err EOutOfFuel -> forall attempt s r s',
  group_lookup_loop fuel group req attempt s = (r, s') -> (length (script s) < fuel)%nat -> r <> Err EOutOfFuel.
Proof.
  intros Hq. induction fuel as [|f IH]; intros attempt s r s' H Hl; [lia|].
  rewrite lookup_loop_step in H. destruct (group_lookup_attempt req s) as [[resp|e|w] s1] eqn:E.
  - pose proof (lookup_attempt_ok_shrinks _ _ _ _ E) as Hs.
    destruct (from_protocol (gc_error resp)) as [code|]; [|inversion H; subst; discriminate].
    destruct (code =? KC_GroupCoordinatorNotAvailable);
      [destruct (attempt <? retry_max_attempts (cfg (cl s1)))|]; try (inversion H; subst; discriminate).
    eapply IH; [exact H|lia].
  - inversion H; subst. intros Hr. inversion Hr; subst. exact (lookup_attempt_nofuel _ Hq _ _ _ E eq_refl).
  - inversion H; subst. discriminate.
Qed.

(* ---- result ---------------------------------------------------------------------------------------- *)
(* n attempts in a row were answered "coordinator not available" and were retried *)
Inductive lookup_retried (req : res bytes) : nat -> Z -> st -> st -> Prop :=
| LR_O attempt s : lookup_retried req O attempt s s
| LR_S n attempt s resp s1 sk :
    group_lookup_attempt req s = (Ok resp, s1) ->
    from_protocol (gc_error resp) = Some KC_GroupCoordinatorNotAvailable ->
    attempt < retry_max_attempts (cfg (cl s1)) ->
    lookup_retried req n (attempt + 1) s1 sk ->
    lookup_retried req (S n) attempt s sk.

(* how the attempt that ends the loop determines the result *)
Definition lookup_final (group : bytes) (req : res bytes) (last_attempt : Z) (sk : st) (r : res bytes) (s' : st) : Prop :=
  match group_lookup_attempt req sk with
  | (Ok resp, s1) =>
      match from_protocol (gc_error resp) with
      | None => gc_error resp = 0 /\
                r = Ok (fst (set_group_coordinator (cs (cl s1)) group resp)) /\
                s' = with_cs s1 (snd (set_group_coordinator (cs (cl s1)) group resp))
      | Some c => r = Err (EKafka c) /\ s' = s1 /\
                  (c = KC_GroupCoordinatorNotAvailable -> retry_max_attempts (cfg (cl s1)) <= last_attempt)
      end
  | (Err e, s1) => r = Err e /\ s' = s1
  | (Panic w, s1) => r = Panic w /\ s' = s1
  end.

Lemma from_protocol_none n : from_protocol n = None -> n = 0.
Proof.
  unfold from_protocol. destruct (n =? 0) eqn:E; [lia|]. destruct (_ && _); discriminate.
Qed.

Theorem C14_lookup_result : forall fuel group req attempt s r s',
  group_lookup_loop fuel group req attempt s = (r, s') -> (length (script s) < fuel)%nat ->
  exists n sk, lookup_retried req n attempt s sk /\ lookup_final group req (attempt + Z.of_nat n) sk r s'.
Proof.
  induction fuel as [|f IH]; intros group req attempt s r s' H Hl; [lia|].
  rewrite lookup_loop_step in H. destruct (group_lookup_attempt req s) as [[resp|e|w] s1] eqn:E.
  - destruct (from_protocol (gc_error resp)) as [code|] eqn:Ep.
    + destruct (code =? KC_GroupCoordinatorNotAvailable) eqn:Ec.
      * assert (code = KC_GroupCoordinatorNotAvailable) as -> by lia.
        destruct (attempt <? retry_max_attempts (cfg (cl s1))) eqn:Ea.
        -- pose proof (lookup_attempt_ok_shrinks _ _ _ _ E) as Hs.
           destruct (IH _ _ _ _ _ _ H ltac:(lia)) as (n & sk & Hr & Hf).
           exists (S n), sk. split; [eapply LR_S; [exact E|exact Ep|lia|exact Hr]|].
           replace (attempt + Z.of_nat (S n)) with (attempt + 1 + Z.of_nat n) by lia. exact Hf.
        -- inversion H; subst. exists O, s. split; [constructor|]. unfold lookup_final. rewrite E, Ep.
           repeat split. intros _. cbn. lia.
      * inversion H; subst. exists O, s. split; [constructor|]. unfold lookup_final. rewrite E, Ep.
        repeat split. intros ->. lia.
    + inversion H; subst. exists O, s. split; [constructor|]. unfold lookup_final. rewrite E, Ep.
      repeat split. apply from_protocol_none. exact Ep.
  - inversion H; subst. exists O, s. split; [constructor|]. unfold lookup_final. rewrite E. split; reflexivity.
  - inversion H; subst. exists O, s. split; [constructor|]. unfold lookup_final. rewrite E. split; reflexivity.
Qed.

(* attempt increases by exactly one per retry, the limit is the same all along *)
Lemma lookup_retried_cfg req n attempt s sk : lookup_retried req n attempt s sk -> cfg (cl sk) = cfg (cl s).
Proof.
  induction 1 as [|n attempt s resp s1 sk E Ep Ea Hr IH]; [reflexivity|].
  pose proof (lookup_attempt_same_cl _ _ _ _ E) as C1. unfold same_cl in C1. congruence.
Qed.

(* the readable consequences *)
Corollary C14_lookup_ok_iff : forall fuel group req attempt s r s',
  group_lookup_loop fuel group req attempt s = (r, s') -> (length (script s) < fuel)%nat ->
  ((exists host, r = Ok host) <->
   exists n sk resp s1, lookup_retried req n attempt s sk /\
     group_lookup_attempt req sk = (Ok resp, s1) /\ gc_error resp = 0).
Proof.
  intros fuel group req attempt s r s' H Hl.
  destruct (C14_lookup_result _ _ _ _ _ _ _ H Hl) as (n & sk & Hr & Hf). split.
  - intros [host ->]. unfold lookup_final in Hf.
    destruct (group_lookup_attempt req sk) as [[resp|e|w] s1] eqn:E.
    + destruct (from_protocol (gc_error resp)) as [c|] eqn:Ep.
      * destruct Hf as [Hx _]. discriminate.
      * exists n, sk, resp, s1. split; [exact Hr|]. split; [exact E|apply Hf].
    + destruct Hf as [Hx _]. discriminate.
    + destruct Hf as [Hx _]. discriminate.
  - intros (n' & sk' & resp & s1 & Hr' & E & H0).
    (* the run is deterministic: the two descriptions coincide *)
    assert (Hdet : forall n1 a s0 k1, lookup_retried req n1 a s0 k1 ->
              forall n2 k2 resp2 s2, lookup_retried req n2 a s0 k2 ->
                group_lookup_attempt req k2 = (Ok resp2, s2) -> gc_error resp2 = 0 ->
                (n1 <= n2)%nat).
    { clear. induction 1 as [|n1 a s0 resp s1 k1 E Ep Ea Hr IH]; intros n2 k2 resp2 s2 H2 E2 H0; [lia|].
      inversion H2 as [|n0 a0 s0' resp' s1' sk' E' Ep' Ea' Hr']; subst.
      - rewrite E in E2. inversion E2; subst. rewrite H0 in Ep. discriminate.
      - rewrite E in E'. inversion E'; subst. specialize (IH _ _ _ _ Hr' E2 H0). lia. }
    assert (Hdet2 : forall n1 a s0 k1, lookup_retried req n1 a s0 k1 ->
              forall k2, lookup_retried req n1 a s0 k2 -> k1 = k2).
    { clear. induction 1 as [|n1 a s0 resp s1 k1 E Ep Ea Hr IH]; intros k2 H2;
        inversion H2 as [|n0 a0 s0' resp' s1' sk' E' Ep' Ea' Hr']; subst; [reflexivity|].
      rewrite E in E'. inversion E'; subst. apply IH. assumption. }
    assert (Hpre : forall n1 a s0 k1, lookup_retried req n1 a s0 k1 -> forall n2 k2, lookup_retried req n2 a s0 k2 ->
              (n1 < n2)%nat -> exists resp1 s1, group_lookup_attempt req k1 = (Ok resp1, s1) /\
                                 from_protocol (gc_error resp1) = Some KC_GroupCoordinatorNotAvailable /\
                                 a + Z.of_nat n1 < retry_max_attempts (cfg (cl s1))).
    { clear. induction 1 as [|n1 a s0 resp s1 k1 E Ep Ea Hr IH]; intros n2 k2 H2 Hlt.
      - inversion H2 as [|n0 a0 s0' resp' s1' sk' E' Ep' Ea' Hr']; subst; [lia|].
        exists resp', s1'. split; [assumption|]. split; [assumption|]. lia.
      - inversion H2 as [|n0 a0 s0' resp' s1' sk' E' Ep' Ea' Hr']; subst; [lia|].
        rewrite E in E'. inversion E'; subst.
        destruct (IH _ _ Hr' ltac:(lia)) as (resp1 & s2 & A1 & A2 & A3). exists resp1, s2.
        split; [exact A1|]. split; [exact A2|]. lia. }
    pose proof (Hdet _ _ _ _ Hr _ _ _ _ Hr' E H0) as Hle.
    destruct (Nat.eq_dec n n') as [->|Hne].
    + rewrite (Hdet2 _ _ _ _ Hr _ Hr') in Hf. unfold lookup_final in Hf. rewrite E, H0 in Hf.
      cbn [from_protocol Z.eqb] in Hf. destruct Hf as (_ & -> & _). eexists. reflexivity.
    + exfalso. destruct (Hpre _ _ _ _ Hr _ _ Hr' ltac:(lia)) as (resp1 & s2 & A1 & A2 & A3).
      unfold lookup_final in Hf. rewrite A1, A2 in Hf. destruct Hf as (_ & _ & Hf). specialize (Hf eq_refl). lia.
Qed.

(* ================================================================================== *)
(* 4. get_group_coordinator                                                           *)
(* ================================================================================== *)

Lemma ggc_unfold group s :
  get_group_coordinator group s =
  match group_coordinator (cs (cl s)) group with
  | Some h => (Ok h, s)
  | None =>
      group_lookup_loop (S (length (script s))) group
        (enc_group_coordinator_req (fst (next_correlation_id (cs (cl s)))) (client_id (cfg (cl s))) group) 1
        (with_cs s (snd (next_correlation_id (cs (cl s)))))
  end.
Proof.
  unfold get_group_coordinator. unfold mbind at 1. unfold get_client at 1.
  destruct (group_coordinator (cs (cl s)) group); reflexivity.
Qed.

Lemma ggc_cfg group : keeps (fun s s' => ext s s' /\ same_cfgc s s') (get_group_coordinator group).
Proof.
  intros s r s' H. rewrite ggc_unfold in H. destruct (group_coordinator (cs (cl s)) group).
  - inversion H; subst. split; [apply ext_refl|reflexivity].
  - destruct (lookup_loop_cfg _ _ _ _ _ _ _ H) as [E C]. split; [eapply ext_trans; [apply with_cs_ext|exact E]|].
    unfold same_cfgc in *. rewrite C. apply with_cs_cfg.
Qed.

Lemma be_enc_ulen n z : ulen (be_enc n z) = Z.of_nat n.
Proof. unfold ulen. rewrite be_enc_length. reflexivity. Qed.

Lemma enc_gc_req_len corr cid group q :
  enc_group_coordinator_req corr cid group = Ok q -> ulen q = 12 + ulen cid + ulen group.
Proof.
  unfold enc_group_coordinator_req, enc_header, enc_str. intros H.
  destruct (ulen cid <=? i16_max); cbn [bind] in H; [|discriminate].
  destruct (ulen group <=? i16_max); cbn [bind] in H; [|discriminate].
  inversion H; subst. unfold ulen. cbn [length]. rewrite app_length. cbn [length]. lia.
Qed.
Lemma enc_gc_req_nofuel corr cid group : enc_group_coordinator_req corr cid group <> Err EOutOfFuel.
Proof.
  unfold enc_group_coordinator_req, enc_header, enc_str.
  destruct (ulen cid <=? i16_max); cbn [bind]; [|discriminate].
  destruct (ulen group <=? i16_max); cbn [bind]; discriminate.
Qed.

(* the frame of interest is longer than any coordinator request of this client for this group *)
Definition gc_short (fr cid group : bytes) : Prop := ulen cid + ulen group + 16 < ulen fr.

Lemma frame_ulen p : ulen (frame p) = 4 + ulen p.
Proof. unfold frame, ulen. rewrite app_length. unfold enc_i32. rewrite be_enc_length. lia. Qed.

Lemma gc_short_short fr cid group corr : gc_short fr cid group -> short fr (enc_group_coordinator_req corr cid group).
Proof.
  intros Hs q Hq. apply enc_gc_req_len in Hq. pose proof (frame_ulen q). unfold gc_short, ulen in *. lia.
Qed.

Lemma ggc_quiet group fr s r s' :
  get_group_coordinator group s = (r, s') -> gc_short fr (client_id (cfg (cl s))) group -> quiet fr s s'.
Proof.
  intros H Hs. rewrite ggc_unfold in H. destruct (group_coordinator (cs (cl s)) group).
  - inversion H; subst. apply preorder_quiet.
  - eapply (proj2 (preorder_quiet fr)); [apply with_cs_quiet|].
    eapply lookup_loop_quiet; [|exact H]. apply gc_short_short. exact Hs.
Qed.

Lemma ggc_nofuel group : nofuel (get_group_coordinator group).
Proof.
  intros s r s' H. rewrite ggc_unfold in H. destruct (group_coordinator (cs (cl s)) group).
  - inversion H; subst. discriminate.
  - eapply lookup_loop_nofuel; [apply enc_gc_req_nofuel|exact H|]. cbn. lia.
Qed.

(* ================================================================================== *)
(* 5. commit and group offset fetch: one generic retry loop                           *)
(* ================================================================================== *)

Definition exchange_attempt {A} (d : dec A) (group : bytes) (req : res bytes) : M A :=
  let+ h := get_group_coordinator group in send_receive d h req.

Inductive verdict (B : Type) := VDone (b : B) | VFatal (c : Z) | VRetry (code : Z) (reset : bool).
Arguments VDone {B} b. Arguments VFatal {B} c. Arguments VRetry {B} code reset.

Definition after_retry (group : bytes) (reset : bool) (s : st) : st :=
  if reset then with_cs s (remove_group_coordinator (cs (cl s)) group) else s.

Fixpoint retry_loop {A B} (d : dec A) (judge : A -> verdict B) (fuel : nat) (group : bytes) (req : res bytes)
         (attempt : Z) : M B :=
  match fuel with
  | O => fail EOutOfFuel
  | S f => fun s =>
      match exchange_attempt d group req s with
      | (Ok a, s2) =>
          match judge a with
          | VDone b => (Ok b, s2)
          | VFatal c => (Err (EKafka c), s2)
          | VRetry code reset =>
              if attempt <? retry_max_attempts (cfg (cl s2))
              then retry_loop d judge f group req (attempt + 1) (after_retry group reset s2)
              else (Err (EKafka code), after_retry group reset s2)
          end
      | (Err e, s2) => (Err e, s2)
      | (Panic w, s2) => (Panic w, s2)
      end
  end.

Definition commit_judge (a : Z * list (bytes * list (Z * Z))) : verdict unit :=
  match commit_scan (snd a) with
  | ScanOk => VDone tt
  | ScanRetry code reset => VRetry code reset
  | ScanFatal c => VFatal c
  end.
Definition fetch_judge (a : Z * list (bytes * list offset_fetch_part)) : verdict (list (bytes * list (Z * Z))) :=
  match group_scan (snd a) [] with
  | inl (inl m) => VDone m
  | inl (inr (code, reset)) => VRetry code reset
  | inr c => VFatal c
  end.

Lemma commit_loop_eq fuel group req : forall attempt s,
  commit_loop fuel group req attempt s = retry_loop dec_offset_commit_resp commit_judge fuel group req attempt s.
Proof.
  induction fuel as [|f IH]; intros attempt s; [reflexivity|].
  cbn [commit_loop retry_loop]. unfold exchange_attempt.
  destruct (get_group_coordinator group s) as [[h|e|w] s1] eqn:Eg.
  - rewrite !(mbind_ok _ _ s h s1 Eg).
    destruct (send_receive dec_offset_commit_resp h req s1) as [[[c tps]|e|w] s2] eqn:Es.
    + rewrite (mbind_ok _ _ s1 _ s2 Es). unfold commit_judge. cbn [snd].
      destruct (commit_scan tps) as [|code reset|c0]; try reflexivity.
      unfold mbind at 1. unfold get_client at 1. unfold after_retry. destruct reset.
      * unfold mbind at 1. rewrite set_cs_eq.
        destruct (attempt <? retry_max_attempts (cfg (cl s2))); [apply IH|reflexivity].
      * unfold mbind at 1. unfold ret.
        destruct (attempt <? retry_max_attempts (cfg (cl s2))); [apply IH|reflexivity].
    + rewrite (mbind_err _ _ s1 _ s2 Es). reflexivity.
    + rewrite (mbind_panic _ _ s1 _ s2 Es). reflexivity.
  - rewrite !(mbind_err _ _ s e s1 Eg). reflexivity.
  - rewrite !(mbind_panic _ _ s w s1 Eg). reflexivity.
Qed.

Lemma group_fetch_loop_eq fuel group req : forall attempt s,
  group_fetch_loop fuel group req attempt s = retry_loop dec_offset_fetch_resp fetch_judge fuel group req attempt s.
Proof.
  induction fuel as [|f IH]; intros attempt s; [reflexivity|].
  cbn [group_fetch_loop retry_loop]. unfold exchange_attempt.
  destruct (get_group_coordinator group s) as [[h|e|w] s1] eqn:Eg.
  - rewrite !(mbind_ok _ _ s h s1 Eg).
    destruct (send_receive dec_offset_fetch_resp h req s1) as [[[c tps]|e|w] s2] eqn:Es.
    + rewrite (mbind_ok _ _ s1 _ s2 Es). unfold fetch_judge. cbn [snd].
      destruct (group_scan tps []) as [[m|[code reset]]|c0]; try reflexivity.
      unfold mbind at 1. unfold get_client at 1. unfold after_retry. destruct reset.
      * unfold mbind at 1. rewrite set_cs_eq.
        destruct (attempt <? retry_max_attempts (cfg (cl s2))); [apply IH|reflexivity].
      * unfold mbind at 1. unfold ret.
        destruct (attempt <? retry_max_attempts (cfg (cl s2))); [apply IH|reflexivity].
    + rewrite (mbind_err _ _ s1 _ s2 Es). reflexivity.
    + rewrite (mbind_panic _ _ s1 _ s2 Es). reflexivity.
  - rewrite !(mbind_err _ _ s e s1 Eg). reflexivity.
  - rewrite !(mbind_panic _ _ s w s1 Eg). reflexivity.
Qed.

(* ---- one attempt ------------------------------------------------------------------------------- *)
Lemma exchange_attempt_cfg {A} (d : dec A) group req :
  keeps (fun s s' => ext s s' /\ same_cfgc s s') (exchange_attempt d group req).
Proof.
  assert (P : preorder (fun s s' => ext s s' /\ same_cfgc s s')).
  { split; [intros s; split; [apply ext_refl|reflexivity]|].
    intros s s1 s2 [E1 C1] [E2 C2]. split; [eapply ext_trans; eassumption|]. unfold same_cfgc in *. congruence. }
  apply keeps_bind; [exact P|apply ggc_cfg|]. intros h s r s' H.
  split; [eapply tracks_ext; [apply tracks_send_receive|exact H]|].
  apply (frame_send_receive _ _ _ _ _ _ _ H).
Qed.

Lemma exchange_attempt_att {A} (d : dec A) group p s r s' :
  exchange_attempt d group (Ok p) s = (r, s') -> gc_short (frame p) (client_id (cfg (cl s))) group ->
  att_le (frame p) 1 s s'.
Proof.
  intros H Hs. unfold exchange_attempt in H. bind_inv H h s1 H1 H2.
  - change 1 with (0 + 1). eapply att_le_trans; [eapply ggc_quiet; eassumption|eapply send_receive_att; exact H2].
  - eapply att_le_mono; [|eapply ggc_quiet; eassumption]. lia.
  - eapply att_le_mono; [|eapply ggc_quiet; eassumption]. lia.
Qed.

Lemma exchange_attempt_nofuel {A} (d : dec A) group req : nf d -> req <> Err EOutOfFuel ->
  nofuel (exchange_attempt d group req).
Proof.
  intros Hd Hq. apply nofuel_bind; [apply ggc_nofuel|]. intros h. apply send_receive_nofuel; assumption.
Qed.

Lemma send_receive_ok_shrinks_any {A} (d : dec A) h req s a s' :
  send_receive d h req s = (Ok a, s') -> (length (script s') < length (script s))%nat.
Proof.
  intros H. unfold send_receive in H. bind_inv H u s1 H1 H2; try discriminate.
  bind_inv H2 z s2 H3 H4; try discriminate.
  destruct (send_request_ok_inv _ _ _ _ _ H3) as [p [_ Hl]].
  pose proof (ext_script_le _ _ (tracks_ext _ (tracks_get_conn h) _ _ _ H1)).
  pose proof (ext_script_le _ _ (tracks_ext _ (tracks_get_response d h) _ _ _ H4)). lia.
Qed.

Lemma exchange_attempt_ok_shrinks {A} (d : dec A) group req s a s' :
  exchange_attempt d group req s = (Ok a, s') -> (length (script s') < length (script s))%nat.
Proof.
  intros H. unfold exchange_attempt in H. bind_inv H h s1 H1 H2; try discriminate.
  pose proof (ext_script_le _ _ (proj1 (ggc_cfg _ _ _ _ H1))).
  pose proof (send_receive_ok_shrinks_any _ _ _ _ _ _ H2). lia.
Qed.

Lemma after_retry_quiet fr group reset s : quiet fr s (after_retry group reset s).
Proof. unfold after_retry. destruct reset; [apply with_cs_quiet|apply preorder_quiet]. Qed.
Lemma after_retry_cfg group reset s : cfg (cl (after_retry group reset s)) = cfg (cl s).
Proof. unfold after_retry. destruct reset; reflexivity. Qed.
Lemma after_retry_script group reset s : script (after_retry group reset s) = script s.
Proof. unfold after_retry. destruct reset; reflexivity. Qed.

(* ---- the generic theorems ------------------------------------------------------------------------ *)
Lemma retry_loop_bound {A B} (d : dec A) (judge : A -> verdict B) group p : forall fuel attempt s r s',
  retry_loop d judge fuel group (Ok p) attempt s = (r, s') ->
  gc_short (frame p) (client_id (cfg (cl s))) group ->
  att_le (frame p) (Z.max 1 (retry_max_attempts (cfg (cl s)) - attempt + 1)) s s' /\ same_cfgc s s'.
Proof.
  induction fuel as [|f IH]; intros attempt s r s' H Hs.
  - inversion H; subst. split; [apply att_le_refl; lia|reflexivity].
  - cbn [retry_loop] in H.
    destruct (exchange_attempt d group (Ok p) s) as [[a|e|w] s2] eqn:E;
      pose proof (exchange_attempt_att _ _ _ _ _ _ E Hs) as Q1;
      destruct (exchange_attempt_cfg _ _ _ _ _ _ E) as [_ C1]; unfold same_cfgc in C1.
    + destruct (judge a) as [b|c|code reset].
      * inversion H; subst. split; [eapply att_le_mono; [|exact Q1]; lia|exact C1].
      * inversion H; subst. split; [eapply att_le_mono; [|exact Q1]; lia|exact C1].
      * pose proof (after_retry_quiet (frame p) group reset s2) as Q2.
        pose proof (after_retry_cfg group reset s2) as C2.
        destruct (attempt <? retry_max_attempts (cfg (cl s2))) eqn:Ea.
        -- destruct (IH _ _ _ _ H) as [Q3 C3]; [rewrite C2, C1; exact Hs|]. unfold same_cfgc in C3.
           rewrite C2, C1 in Q3. rewrite C1 in Ea. split; [|unfold same_cfgc; congruence].
           eapply att_le_mono; [|eapply att_le_trans; [eapply att_le_trans; [exact Q1|exact Q2]|exact Q3]]. lia.
        -- inversion H; subst. split; [|unfold same_cfgc; congruence].
           eapply att_le_mono; [|eapply att_le_trans; [exact Q1|exact Q2]]. lia.
    + inversion H; subst. split; [eapply att_le_mono; [|exact Q1]; lia|exact C1].
    + inversion H; subst. split; [eapply att_le_mono; [|exact Q1]; lia|exact C1].
Qed.

Lemma retry_loop_nofuel {A B} (d : dec A) (judge : A -> verdict B) group req : nf d -> req <> Err EOutOfFuel ->
  forall fuel attempt s r s', retry_loop d judge fuel group req attempt s = (r, s') ->
    (length (script s) < fuel)%nat -> r <> Err EOutOfFuel.
Proof.
  intros Hd Hq. induction fuel as [|f IH]; intros attempt s r s' H Hl; [lia|].
  cbn [retry_loop] in H. destruct (exchange_attempt d group req s) as [[a|e|w] s2] eqn:E.
  - pose proof (exchange_attempt_ok_shrinks _ _ _ _ _ _ E) as Hsh.
    destruct (judge a) as [b|c|code reset]; try (inversion H; subst; discriminate).
    destruct (attempt <? retry_max_attempts (cfg (cl s2))); [|inversion H; subst; discriminate].
    eapply IH; [exact H|]. rewrite after_retry_script. lia.
  - inversion H; subst. intros Hr. inversion Hr; subst. exact (exchange_attempt_nofuel d group req Hd Hq _ _ _ E eq_refl).
  - inversion H; subst. discriminate.
Qed.

(* n attempts in a row got a retryable verdict and were retried *)
Inductive loop_retried {A B} (d : dec A) (judge : A -> verdict B) (group : bytes) (req : res bytes)
  : nat -> Z -> st -> st -> Prop :=
| RR_O attempt s : loop_retried d judge group req O attempt s s
| RR_S n attempt s a s2 code reset sk :
    exchange_attempt d group req s = (Ok a, s2) -> judge a = VRetry code reset ->
    attempt < retry_max_attempts (cfg (cl s2)) ->
    loop_retried d judge group req n (attempt + 1) (after_retry group reset s2) sk ->
    loop_retried d judge group req (S n) attempt s sk.

Definition loop_final {A B} (d : dec A) (judge : A -> verdict B) (group : bytes) (req : res bytes)
           (last_attempt : Z) (sk : st) (r : res B) (s' : st) : Prop :=
  match exchange_attempt d group req sk with
  | (Ok a, s2) =>
      match judge a with
      | VDone b => r = Ok b /\ s' = s2
      | VFatal c => r = Err (EKafka c) /\ s' = s2
      | VRetry code reset => r = Err (EKafka code) /\ s' = after_retry group reset s2 /\
                             retry_max_attempts (cfg (cl s2)) <= last_attempt
      end
  | (Err e, s2) => r = Err e /\ s' = s2
  | (Panic w, s2) => r = Panic w /\ s' = s2
  end.

Lemma retry_loop_result {A B} (d : dec A) (judge : A -> verdict B) group req : forall fuel attempt s r s',
  retry_loop d judge fuel group req attempt s = (r, s') -> (length (script s) < fuel)%nat ->
  exists n sk, loop_retried d judge group req n attempt s sk /\
               loop_final d judge group req (attempt + Z.of_nat n) sk r s'.
Proof.
  induction fuel as [|f IH]; intros attempt s r s' H Hl; [lia|].
  cbn [retry_loop] in H. destruct (exchange_attempt d group req s) as [[a|e|w] s2] eqn:E.
  - destruct (judge a) as [b|c|code reset] eqn:Ej.
    + inversion H; subst. exists O, s. split; [constructor|]. unfold loop_final. rewrite E, Ej. split; reflexivity.
    + inversion H; subst. exists O, s. split; [constructor|]. unfold loop_final. rewrite E, Ej. split; reflexivity.
    + destruct (attempt <? retry_max_attempts (cfg (cl s2))) eqn:Ea.
      * pose proof (exchange_attempt_ok_shrinks _ _ _ _ _ _ E) as Hsh.
        destruct (IH _ _ _ _ H) as (n & sk & Hr & Hf); [rewrite after_retry_script; lia|].
        exists (S n), sk. split; [eapply RR_S; [exact E|exact Ej|lia|exact Hr]|].
        replace (attempt + Z.of_nat (S n)) with (attempt + 1 + Z.of_nat n) by lia. exact Hf.
      * inversion H; subst. exists O, s. split; [constructor|]. unfold loop_final. rewrite E, Ej.
        repeat split. cbn. lia.
  - inversion H; subst. exists O, s. split; [constructor|]. unfold loop_final. rewrite E. split; reflexivity.
  - inversion H; subst. exists O, s. split; [constructor|]. unfold loop_final. rewrite E. split; reflexivity.
Qed.

(* ================================================================================== *)
(* 6. C14 for offset commit and group offset fetch                                    *)
(* ================================================================================== *)

(* As for the lookup, the count of `EWrite _ (frame p)` also sees the re-offers after interrupted
   writes.  The hypothesis gc_short says that the request is longer than the coordinator lookups
   the loop may interleave (true of every commit / fetch request this client encodes, see
   commit_req_gc_short / fetch_req_gc_short): otherwise a partially written lookup could offer
   a buffer equal to `frame p` and be counted. *)
Theorem C14_commit_bound_partial : forall fuel group p attempt s r s',
  commit_loop fuel group (Ok p) attempt s = (r, s') ->
  gc_short (frame p) (client_id (cfg (cl s))) group ->
  attempts (frame p) s s' <= Z.max 1 (retry_max_attempts (cfg (cl s)) - attempt + 1) + interruptions s s'.
Proof.
  intros fuel group p attempt s r s' H Hs. rewrite commit_loop_eq in H.
  exact (proj2 (proj1 (retry_loop_bound _ _ _ _ _ _ _ _ _ H Hs))).
Qed.

Theorem C14_commit_bound : forall fuel group p attempt s r s',
  commit_loop fuel group (Ok p) attempt s = (r, s') -> 1 <= attempt ->
  gc_short (frame p) (client_id (cfg (cl s))) group -> ~ In OWriteIntr (consumed s s') ->
  attempts (frame p) s s' <= Z.max 1 (retry_max_attempts (cfg (cl s)) - attempt + 1).
Proof.
  intros fuel group p attempt s r s' H _ Hs Hn. pose proof (C14_commit_bound_partial _ _ _ _ _ _ _ H Hs) as B.
  unfold interruptions in B. rewrite (count_intr_zero _ Hn) in B. lia.
Qed.

Theorem C14_group_fetch_bound_partial : forall fuel group p attempt s r s',
  group_fetch_loop fuel group (Ok p) attempt s = (r, s') ->
  gc_short (frame p) (client_id (cfg (cl s))) group ->
  attempts (frame p) s s' <= Z.max 1 (retry_max_attempts (cfg (cl s)) - attempt + 1) + interruptions s s'.
Proof.
  intros fuel group p attempt s r s' H Hs. rewrite group_fetch_loop_eq in H.
  exact (proj2 (proj1 (retry_loop_bound _ _ _ _ _ _ _ _ _ H Hs))).
Qed.

Theorem C14_group_fetch_bound : forall fuel group p attempt s r s',
  group_fetch_loop fuel group (Ok p) attempt s = (r, s') -> 1 <= attempt ->
  gc_short (frame p) (client_id (cfg (cl s))) group -> ~ In OWriteIntr (consumed s s') ->
  attempts (frame p) s s' <= Z.max 1 (retry_max_attempts (cfg (cl s)) - attempt + 1).
Proof.
  intros fuel group p attempt s r s' H _ Hs Hn. pose proof (C14_group_fetch_bound_partial _ _ _ _ _ _ _ H Hs) as B.
  unfold interruptions in B. rewrite (count_intr_zero _ Hn) in B. lia.
Qed.

(* the loops never touch the configuration (so the limit is the same at every iteration) *)
Lemma retry_loop_cfg {A B} (d : dec A) (judge : A -> verdict B) group req : forall fuel attempt,
  keeps (fun s s' => ext s s' /\ same_cfgc s s') (retry_loop d judge fuel group req attempt).
Proof.
  induction fuel as [|f IH]; intros attempt s r s' H.
  - inversion H; subst. split; [apply ext_refl|reflexivity].
  - cbn [retry_loop] in H. destruct (exchange_attempt d group req s) as [[a|e|w] s2] eqn:E;
      destruct (exchange_attempt_cfg _ _ _ _ _ _ E) as [E1 C1]; unfold same_cfgc in *;
      try (inversion H; subst; split; assumption).
    assert (E2 : ext s2 (after_retry group true s2)) by apply with_cs_ext.
    destruct (judge a) as [b|c|code reset]; try (inversion H; subst; split; assumption).
    assert (E3 : ext s (after_retry group reset s2)).
    { destruct reset; [eapply ext_trans; eassumption|exact E1]. }
    pose proof (after_retry_cfg group reset s2) as C2.
    destruct (attempt <? retry_max_attempts (cfg (cl s2))).
    + destruct (IH _ _ _ _ H) as [E4 C4]. split; [eapply ext_trans; eassumption|congruence].
    + inversion H; subst. split; [exact E3|congruence].
Qed.

Theorem C14_cfg_unchanged : forall fuel group req attempt s,
  (forall r s', group_lookup_loop fuel group req attempt s = (r, s') -> cfg (cl s') = cfg (cl s)) /\
  (forall r s', commit_loop fuel group req attempt s = (r, s') -> cfg (cl s') = cfg (cl s)) /\
  (forall r s', group_fetch_loop fuel group req attempt s = (r, s') -> cfg (cl s') = cfg (cl s)).
Proof.
  intros fuel group req attempt s. split; [|split]; intros r s' H.
  - exact (proj2 (lookup_loop_cfg _ _ _ _ _ _ _ H)).
  - rewrite commit_loop_eq in H. exact (proj2 (retry_loop_cfg _ _ _ _ _ _ _ _ _ H)).
  - rewrite group_fetch_loop_eq in H. exact (proj2 (retry_loop_cfg _ _ _ _ _ _ _ _ _ H)).
Qed.

(* ---- which answers are retried ------------------------------------------------------------------- *)
Lemma commit_scan_parts_retry ps code reset : commit_scan_parts ps = ScanRetry code reset ->
  (reset = false /\ code = KC_GroupLoadInProgress) \/ (reset = true /\ code = KC_NotCoordinatorForGroup).
Proof.
  induction ps as [|[p e] ps IH]; cbn [commit_scan_parts]; [discriminate|].
  destruct (from_protocol e) as [c|]; [|exact IH].
  destruct (c =? KC_GroupLoadInProgress) eqn:E1; [intros H; inversion H; subst; left; split; [reflexivity|lia]|].
  destruct (c =? KC_NotCoordinatorForGroup) eqn:E2; [intros H; inversion H; subst; right; split; [reflexivity|lia]|].
  discriminate.
Qed.
Lemma commit_scan_retry tps code reset : commit_scan tps = ScanRetry code reset ->
  (reset = false /\ code = KC_GroupLoadInProgress) \/ (reset = true /\ code = KC_NotCoordinatorForGroup).
Proof.
  induction tps as [|[t ps] tps IH]; cbn [commit_scan]; [discriminate|].
  destruct (commit_scan_parts ps) as [|c r|c] eqn:E; [exact IH| |discriminate].
  intros H. inversion H; subst. exact (commit_scan_parts_retry _ _ _ E).
Qed.
Lemma group_scan_parts_retry ps : forall acc code reset, group_scan_parts ps acc = GRetry code reset ->
  (reset = false /\ code = KC_GroupLoadInProgress) \/ (reset = true /\ code = KC_NotCoordinatorForGroup).
Proof.
  induction ps as [|p ps IH]; intros acc code reset; cbn [group_scan_parts]; [discriminate|].
  destruct (get_offsets p) as [v|c]; [apply IH|].
  destruct (c =? KC_GroupLoadInProgress) eqn:E1; [intros H; inversion H; subst; left; split; [reflexivity|lia]|].
  destruct (c =? KC_NotCoordinatorForGroup) eqn:E2; [intros H; inversion H; subst; right; split; [reflexivity|lia]|].
  discriminate.
Qed.
Lemma group_scan_retry tps : forall m code reset, group_scan tps m = inl (inr (code, reset)) ->
  (reset = false /\ code = KC_GroupLoadInProgress) \/ (reset = true /\ code = KC_NotCoordinatorForGroup).
Proof.
  induction tps as [|[t ps] tps IH]; intros m code reset; cbn [group_scan]; [discriminate|].
  destruct (group_scan_parts ps []) as [vs|c r|c] eqn:E; [apply IH| |discriminate].
  intros H. inversion H; subst. exact (group_scan_parts_retry _ _ _ _ E).
Qed.

(* the first non-zero code of the response decides *)
Lemma commit_scan_parts_first ps : forall pre p e post c,
  ps = pre ++ (p, e) :: post -> (forall q, In q pre -> snd q = 0) -> from_protocol e = Some c ->
  commit_scan_parts ps =
    if c =? KC_GroupLoadInProgress then ScanRetry c false
    else if c =? KC_NotCoordinatorForGroup then ScanRetry c true else ScanFatal c.
Proof.
  intros pre. revert ps. induction pre as [|[q0 e0] pre IH]; intros ps p e post c -> Hpre He.
  - cbn [commit_scan_parts app]. rewrite He. reflexivity.
  - cbn [commit_scan_parts app]. assert (e0 = 0) as -> by (apply (Hpre (q0, e0)); left; reflexivity).
    rewrite from_protocol_zero. apply (IH _ p e post c eq_refl); [|exact He]. intros q Hq. apply Hpre. right. exact Hq.
Qed.
Lemma commit_scan_first tps : forall pre t ps post,
  tps = pre ++ (t, ps) :: post -> (forall x, In x pre -> commit_scan_parts (snd x) = ScanOk) ->
  commit_scan_parts ps <> ScanOk -> commit_scan tps = commit_scan_parts ps.
Proof.
  intros pre. revert tps. induction pre as [|[t0 ps0] pre IH]; intros tps t ps post -> Hpre Hne.
  - cbn [commit_scan app]. destruct (commit_scan_parts ps); [contradiction|reflexivity|reflexivity].
  - cbn [commit_scan app]. pose proof (Hpre (t0, ps0) (or_introl eq_refl)) as H0. cbn [snd] in H0. rewrite H0.
    apply (IH _ t ps post eq_refl); [|exact Hne]. intros x Hx. apply Hpre. right. exact Hx.
Qed.

(* ---- results ---------------------------------------------------------------------------------------- *)
Theorem C14_commit_result : forall fuel group req attempt s r s',
  commit_loop fuel group req attempt s = (r, s') -> (length (script s) < fuel)%nat ->
  exists n sk, loop_retried dec_offset_commit_resp commit_judge group req n attempt s sk /\
               loop_final dec_offset_commit_resp commit_judge group req (attempt + Z.of_nat n) sk r s'.
Proof. intros fuel group req attempt s r s' H Hl. rewrite commit_loop_eq in H. eapply retry_loop_result; eassumption. Qed.

Theorem C14_group_fetch_result : forall fuel group req attempt s r s',
  group_fetch_loop fuel group req attempt s = (r, s') -> (length (script s) < fuel)%nat ->
  exists n sk, loop_retried dec_offset_fetch_resp fetch_judge group req n attempt s sk /\
               loop_final dec_offset_fetch_resp fetch_judge group req (attempt + Z.of_nat n) sk r s'.
Proof. intros fuel group req attempt s r s' H Hl. rewrite group_fetch_loop_eq in H. eapply retry_loop_result; eassumption. Qed.

(* what the verdicts mean *)
Lemma commit_judge_spec a :
  match commit_judge a with
  | VDone _ => commit_scan (snd a) = ScanOk
  | VFatal c => commit_scan (snd a) = ScanFatal c
  | VRetry code reset => commit_scan (snd a) = ScanRetry code reset /\
      ((reset = false /\ code = KC_GroupLoadInProgress) \/ (reset = true /\ code = KC_NotCoordinatorForGroup))
  end.
Proof.
  unfold commit_judge. destruct (commit_scan (snd a)) as [|c r|c] eqn:E; try reflexivity.
  split; [reflexivity|]. exact (commit_scan_retry _ _ _ E).
Qed.
Lemma fetch_judge_spec a :
  match fetch_judge a with
  | VDone m => group_scan (snd a) [] = inl (inl m)
  | VFatal c => group_scan (snd a) [] = inr c
  | VRetry code reset => group_scan (snd a) [] = inl (inr (code, reset)) /\
      ((reset = false /\ code = KC_GroupLoadInProgress) \/ (reset = true /\ code = KC_NotCoordinatorForGroup))
  end.
Proof.
  unfold fetch_judge. destruct (group_scan (snd a) []) as [[m|[c r]]|c] eqn:E; try reflexivity.
  split; [reflexivity|]. exact (group_scan_retry _ _ _ _ E).
Qed.

(* ---- termination ------------------------------------------------------------------------------------- *)
Theorem C14_no_out_of_fuel : forall group req attempt s,
  req <> Err EOutOfFuel ->
  fst (with_fuel (fun f => group_lookup_loop f group req attempt) s) <> Err EOutOfFuel /\
  fst (with_fuel (fun f => commit_loop f group req attempt) s) <> Err EOutOfFuel /\
  fst (with_fuel (fun f => group_fetch_loop f group req attempt) s) <> Err EOutOfFuel.
Proof.
  intros group req attempt s Hq. unfold with_fuel. split; [|split].
  - destruct (group_lookup_loop _ group req attempt s) as [r s'] eqn:E. cbn [fst].
    eapply lookup_loop_nofuel; [exact Hq|exact E|lia].
  - destruct (commit_loop _ group req attempt s) as [r s'] eqn:E. cbn [fst]. rewrite commit_loop_eq in E.
    eapply retry_loop_nofuel; [apply dec_offset_commit_resp_nf|exact Hq|exact E|lia].
  - destruct (group_fetch_loop _ group req attempt s) as [r s'] eqn:E. cbn [fst]. rewrite group_fetch_loop_eq in E.
    eapply retry_loop_nofuel; [apply dec_offset_fetch_resp_nf|exact Hq|exact E|lia].
Qed.

(* ================================================================================== *)
(* 7. re-lookup after "not coordinator for group"; code 15 on commit / fetch          *)
(* ================================================================================== *)

(* the coordinator cache has one entry per group: true of cstate_new and kept by every update *)
Definition gc_wf (x : cstate) : Prop := NoDup (map fst (group_coordinators x)).

Lemma assoc_bytes_notin {V} g (l : list (bytes * V)) : ~ In g (map fst l) -> assoc_bytes g l = None.
Proof.
  induction l as [|[k v] l IH]; intros Hn; [reflexivity|]. cbn [assoc_bytes].
  destruct (bytes_eqb k g) eqn:E.
  - exfalso. apply Hn. left. apply bytes_eqb_eq in E. exact E.
  - apply IH. intros Hi. apply Hn. right. exact Hi.
Qed.
Lemma gc_remove_assoc l g : NoDup (map fst l) -> assoc_bytes g (gc_remove l g) = None.
Proof.
  induction l as [|[k v] l IH]; intros Hn; [reflexivity|]. cbn [map fst] in Hn. inversion Hn as [|x xs Hx Hxs]; subst.
  cbn [gc_remove]. destruct (bytes_eqb k g) eqn:E.
  - apply bytes_eqb_eq in E. subst k. apply assoc_bytes_notin. exact Hx.
  - cbn [assoc_bytes]. rewrite E. apply IH. exact Hxs.
Qed.
Lemma group_coordinator_removed x g : gc_wf x -> group_coordinator (remove_group_coordinator x g) g = None.
Proof. intros H. unfold group_coordinator, remove_group_coordinator. cbn [group_coordinators]. rewrite gc_remove_assoc by exact H. reflexivity. Qed.

Lemma gc_set_keys l g i x : In x (map fst (gc_set l g i)) -> In x (map fst l) \/ x = g.
Proof.
  induction l as [|[k v] l IH]; cbn [gc_set map fst In].
  - intros [H|[]]. right. symmetry. exact H.
  - destruct (bytes_eqb k g); cbn [map fst In]; [intros H; left; exact H|].
    intros [H|H]; [left; left; exact H|]. destruct (IH H) as [H'|H']; [left; right; exact H'|right; exact H'].
Qed.
Lemma gc_set_wf l g i : NoDup (map fst l) -> NoDup (map fst (gc_set l g i)).
Proof.
  induction l as [|[k v] l IH]; intros Hn; cbn [gc_set].
  - cbn. constructor; [intros []|constructor].
  - cbn [map fst] in Hn. inversion Hn as [|x xs Hx Hxs]; subst. destruct (bytes_eqb k g) eqn:E.
    + cbn [map fst]. constructor; assumption.
    + cbn [map fst]. constructor; [|apply IH; exact Hxs]. intros Hi.
      destruct (gc_set_keys _ _ _ _ Hi) as [H|H]; [contradiction|]. subst k. rewrite bytes_eqb_refl in E. discriminate.
Qed.
Lemma gc_remove_keys l g x : In x (map fst (gc_remove l g)) -> In x (map fst l).
Proof.
  induction l as [|[k v] l IH]; cbn [gc_remove map fst In]; [intros []|].
  destruct (bytes_eqb k g); cbn [map fst In]; [intros H; right; exact H|].
  intros [H|H]; [left; exact H|right; apply IH; exact H].
Qed.
Lemma gc_remove_wf l g : NoDup (map fst l) -> NoDup (map fst (gc_remove l g)).
Proof.
  induction l as [|[k v] l IH]; intros Hn; cbn [gc_remove]; [constructor|].
  cbn [map fst] in Hn. inversion Hn as [|x xs Hx Hxs]; subst. destruct (bytes_eqb k g); [exact Hxs|].
  cbn [map fst]. constructor; [|apply IH; exact Hxs]. intros Hi. apply Hx. eapply gc_remove_keys; exact Hi.
Qed.
Lemma gc_wf_new : gc_wf cstate_new.
Proof. constructor. Qed.
Lemma gc_wf_set x g r : gc_wf x -> gc_wf (snd (set_group_coordinator x g r)).
Proof.
  intros H. unfold set_group_coordinator. destruct (find_node (brokers x) (gc_broker r) 0); cbn [snd];
    unfold gc_wf; cbn [group_coordinators]; apply gc_set_wf; exact H.
Qed.
Lemma gc_wf_remove x g : gc_wf x -> gc_wf (remove_group_coordinator x g).
Proof. intros H. unfold gc_wf, remove_group_coordinator. cbn [group_coordinators]. apply gc_remove_wf. exact H. Qed.
Lemma gc_wf_next_corr x : gc_wf x -> gc_wf (snd (next_correlation_id x)).
Proof. intros H. exact H. Qed.

Lemma retry_loop_relookup {A B} (d : dec A) (judge : A -> verdict B) group req f attempt s a s2 code :
  exchange_attempt d group req s = (Ok a, s2) -> judge a = VRetry code true ->
  attempt < retry_max_attempts (cfg (cl s2)) -> gc_wf (cs (cl s2)) ->
  let s3 := after_retry group true s2 in
  (* the next iteration starts from s3, in which the group has no cached coordinator ... *)
  retry_loop d judge (S f) group req attempt s = retry_loop d judge f group req (attempt + 1) s3 /\
  group_coordinator (cs (cl s3)) group = None /\
  (* ... so get_group_coordinator performs a lookup (a fresh correlation id, attempts from 1) ... *)
  get_group_coordinator group s3 =
    group_lookup_loop (S (length (script s3))) group
      (enc_group_coordinator_req (fst (next_correlation_id (cs (cl s3)))) (client_id (cfg (cl s3))) group) 1
      (with_cs s3 (snd (next_correlation_id (cs (cl s3))))) /\
  (* ... and the next request is exchanged with the host that lookup returned, and only with it *)
  forall h' s4, get_group_coordinator group s3 = (Ok h', s4) ->
    exchange_attempt d group req s3 = send_receive d h' req s4 /\
    forall r5 s5, send_receive d h' req s4 = (r5, s5) -> Forall (on_host h') (performed s4 s5).
Proof.
  intros E Ej Ea Hwf s3.
  assert (Hnone : group_coordinator (cs (cl s3)) group = None).
  { unfold s3, after_retry. rewrite with_cs_cs. apply group_coordinator_removed. exact Hwf. }
  split; [|split; [exact Hnone|split]].
  - cbn [retry_loop]. rewrite E, Ej. destruct (attempt <? retry_max_attempts (cfg (cl s2))) eqn:Eb; [reflexivity|lia].
  - rewrite ggc_unfold, Hnone. reflexivity.
  - intros h' s4 Hg. split.
    + unfold exchange_attempt. exact (mbind_ok _ (fun h => send_receive d h req) _ _ _ Hg).
    + intros r5 s5 H5. apply (ops_send_receive _ _ _ _ _ _ _ H5).
Qed.

Theorem C14_relookup : forall f group req attempt s c tps s2 code,
  exchange_attempt dec_offset_commit_resp group req s = (Ok (c, tps), s2) ->
  commit_scan tps = ScanRetry code true ->              (* the first non-zero code of the answer is 16 *)
  attempt < retry_max_attempts (cfg (cl s2)) -> gc_wf (cs (cl s2)) ->
  let s3 := after_retry group true s2 in
  code = KC_NotCoordinatorForGroup /\
  commit_loop (S f) group req attempt s = commit_loop f group req (attempt + 1) s3 /\
  group_coordinator (cs (cl s3)) group = None /\
  get_group_coordinator group s3 =
    group_lookup_loop (S (length (script s3))) group
      (enc_group_coordinator_req (fst (next_correlation_id (cs (cl s3)))) (client_id (cfg (cl s3))) group) 1
      (with_cs s3 (snd (next_correlation_id (cs (cl s3))))) /\
  forall h' s4, get_group_coordinator group s3 = (Ok h', s4) ->
    exchange_attempt dec_offset_commit_resp group req s3 = send_receive dec_offset_commit_resp h' req s4 /\
    forall r5 s5, send_receive dec_offset_commit_resp h' req s4 = (r5, s5) -> Forall (on_host h') (performed s4 s5).
Proof.
  intros f group req attempt s c tps s2 code E Es Ea Hwf s3.
  assert (Ej : commit_judge (c, tps) = VRetry code true) by (unfold commit_judge; cbn [snd]; rewrite Es; reflexivity).
  split.
  - destruct (commit_scan_retry _ _ _ Es) as [[Hx _]|[_ Hx]]; [discriminate|exact Hx].
  - rewrite !commit_loop_eq. exact (retry_loop_relookup _ _ _ _ f _ _ _ _ _ E Ej Ea Hwf).
Qed.

Theorem C14_relookup_group_fetch : forall f group req attempt s c tps s2 code,
  exchange_attempt dec_offset_fetch_resp group req s = (Ok (c, tps), s2) ->
  group_scan tps [] = inl (inr (code, true)) ->
  attempt < retry_max_attempts (cfg (cl s2)) -> gc_wf (cs (cl s2)) ->
  let s3 := after_retry group true s2 in
  code = KC_NotCoordinatorForGroup /\
  group_fetch_loop (S f) group req attempt s = group_fetch_loop f group req (attempt + 1) s3 /\
  group_coordinator (cs (cl s3)) group = None /\
  get_group_coordinator group s3 =
    group_lookup_loop (S (length (script s3))) group
      (enc_group_coordinator_req (fst (next_correlation_id (cs (cl s3)))) (client_id (cfg (cl s3))) group) 1
      (with_cs s3 (snd (next_correlation_id (cs (cl s3))))) /\
  forall h' s4, get_group_coordinator group s3 = (Ok h', s4) ->
    exchange_attempt dec_offset_fetch_resp group req s3 = send_receive dec_offset_fetch_resp h' req s4 /\
    forall r5 s5, send_receive dec_offset_fetch_resp h' req s4 = (r5, s5) -> Forall (on_host h') (performed s4 s5).
Proof.
  intros f group req attempt s c tps s2 code E Es Ea Hwf s3.
  assert (Ej : fetch_judge (c, tps) = VRetry code true) by (unfold fetch_judge; cbn [snd]; rewrite Es; reflexivity).
  split.
  - destruct (group_scan_retry _ _ _ _ Es) as [[Hx _]|[_ Hx]]; [discriminate|exact Hx].
  - rewrite !group_fetch_loop_eq. exact (retry_loop_relookup _ _ _ _ f _ _ _ _ _ E Ej Ea Hwf).
Qed.

(* ---- finding F21: code 15 ends a commit / group offset fetch at once ---------------------------------- *)
Lemma from_protocol_15 : from_protocol 15 = Some KC_GroupCoordinatorNotAvailable.
Proof. reflexivity. Qed.

Lemma commit_scan_code15 tps pre t ps post pre' p post' :
  tps = pre ++ (t, ps) :: post -> (forall x, In x pre -> commit_scan_parts (snd x) = ScanOk) ->
  ps = pre' ++ (p, 15) :: post' -> (forall q, In q pre' -> snd q = 0) ->
  commit_scan tps = ScanFatal KC_GroupCoordinatorNotAvailable.
Proof.
  intros Ht Hpre Hps Hpre'.
  pose proof (commit_scan_parts_first ps pre' p 15 post' _ Hps Hpre' from_protocol_15) as Hp.
  change (KC_GroupCoordinatorNotAvailable =? KC_GroupLoadInProgress) with false in Hp.
  change (KC_GroupCoordinatorNotAvailable =? KC_NotCoordinatorForGroup) with false in Hp. cbv iota in Hp.
  rewrite (commit_scan_first tps pre t ps post Ht Hpre); [exact Hp|]. rewrite Hp. discriminate.
Qed.

(* Whatever the attempt number and the limit: an answer whose deciding code is 15
   (GroupCoordinatorNotAvailable) ends the call with that error after this single attempt,
   although the informal property lists 15 among the retryable answers. *)
Theorem C14_code15_not_retried_on_commit : forall f group req attempt s c tps s2,
  exchange_attempt dec_offset_commit_resp group req s = (Ok (c, tps), s2) ->
  commit_scan tps = ScanFatal KC_GroupCoordinatorNotAvailable ->
  commit_loop (S f) group req attempt s = (Err (EKafka KC_GroupCoordinatorNotAvailable), s2).
Proof.
  intros f group req attempt s c tps s2 E Es. rewrite commit_loop_eq. cbn [retry_loop]. rewrite E.
  unfold commit_judge. cbn [snd]. rewrite Es. reflexivity.
Qed.

Lemma group_scan_parts_code15 p r acc : ofp_error p = 15 ->
  group_scan_parts (p :: r) acc = GFatal KC_GroupCoordinatorNotAvailable.
Proof. intros H. cbn [group_scan_parts]. unfold get_offsets. rewrite H, from_protocol_15. reflexivity. Qed.

Theorem C14_code15_not_retried_on_group_fetch : forall f group req attempt s c tps s2,
  exchange_attempt dec_offset_fetch_resp group req s = (Ok (c, tps), s2) ->
  group_scan tps [] = inr KC_GroupCoordinatorNotAvailable ->
  group_fetch_loop (S f) group req attempt s = (Err (EKafka KC_GroupCoordinatorNotAvailable), s2).
Proof.
  intros f group req attempt s c tps s2 E Es. rewrite group_fetch_loop_eq. cbn [retry_loop]. rewrite E.
  unfold fetch_judge. cbn [snd]. rewrite Es. reflexivity.
Qed.

(* ================================================================================== *)
(* 8. concrete runs                                                                   *)
(* ================================================================================== *)

Definition h1 : bytes := tag "b1:9092".
Definition h2 : bytes := tag "b2:9092".
Definition env0 : codecs :=
  {| gz_compress := fun b => b; sn_compress := fun b => b; gz_decompress := fun _ => None; debug_build := false |}.
Definition cfg_n (n : Z) : config :=
  {| client_id := tag "cid"; hosts := [h1]; compression := 0; fetch_max_wait_time := 100;
     fetch_min_bytes := 4096; fetch_max_bytes_per_partition := 32768; fetch_crc_validation := true;
     offset_storage := 1; retry_backoff_time := (0, 100000000); retry_max_attempts := n;
     idle_timeout := (540, 0) |}.
(* broker 1 = b1:9092 is known, leads t/0 and is the cached coordinator of group "g" *)
Definition csg (cached : bool) : cstate :=
  {| correlation := 0; brokers := [{| b_node := 1; b_host := h1 |}];
     topic_partitions := [(tag "t", [0])];
     group_coordinators := if cached then [(tag "g", 0)] else [] |}.
Definition mkst (n : Z) (cached : bool) (sc : list ev_out) : st :=
  {| script := sc; trace := []; anyq := []; hostq := []; fetchq := []; entryq := [];
     cl := {| cfg := cfg_n n; cs := csg cached; conns := [h1] |}; env := env0 |}.

(* one request accepted at once and its reply delivered as a 4-byte header and a body *)
Definition answer (b : bytes) : list ev_out := [OWrote 1000; OData (enc_i32 (ulen b)); OData b].
Definition commit_resp (corr code : Z) : bytes :=
  enc_i32 corr ++ enc_i32 1 ++ enc_i16 1 ++ tag "t" ++ enc_i32 1 ++ enc_i32 0 ++ enc_i16 code.
Definition coord_resp (corr code broker : Z) (host : bytes) (port : Z) : bytes :=
  enc_i32 corr ++ enc_i16 code ++ enc_i32 broker ++ enc_i16 (ulen host) ++ host ++ enc_i32 port.
Definition the_commit : list commit_offset := [{| co_topic := tag "t"; co_partition := 0; co_offset := 5 |}].
Definition unres (r : res bytes) : bytes := match r with Ok p => p | _ => [] end.
Definition commit_p : bytes := unres (enc_offset_commit_req 1 (tag "cid") (tag "g") 1 [(tag "t", [(0, 5)])]).
Definition lookup_p (corr : Z) : bytes := unres (enc_group_coordinator_req corr (tag "cid") (tag "g")).

(* commit: three answers "offsets loading" (14) with a limit of 3: exactly three attempts, then the
   last retryable error; the fourth answer in the script is never asked for *)
Example C14_commit_exhausted_ex :
  let s := mkst 3 true (answer (commit_resp 1 14) ++ answer (commit_resp 1 14) ++ answer (commit_resp 1 14)
                        ++ answer (commit_resp 1 0)) in
  let '(r, s') := commit_offsets (tag "g") the_commit s in
  r = Err (EKafka KC_GroupLoadInProgress) /\ attempts (frame commit_p) s s' = 3 /\
  interruptions s s' = 0 /\ script s' = answer (commit_resp 1 0) /\
  gc_short (frame commit_p) (client_id (cfg (cl s))) (tag "g").
Proof. vm_compute. repeat split. Qed.

(* a limit of 0 still gives one attempt; success within the limit is success *)
Example C14_commit_zero_limit_ex :
  let s := mkst 0 true (answer (commit_resp 1 14) ++ answer (commit_resp 1 0)) in
  let '(r, s') := commit_offsets (tag "g") the_commit s in
  r = Err (EKafka KC_GroupLoadInProgress) /\ attempts (frame commit_p) s s' = 1.
Proof. vm_compute. repeat split. Qed.
Example C14_commit_success_ex :
  let s := mkst 3 true (answer (commit_resp 1 14) ++ answer (commit_resp 1 14) ++ answer (commit_resp 1 0)) in
  let '(r, s') := commit_offsets (tag "g") the_commit s in
  r = Ok tt /\ attempts (frame commit_p) s s' = 3 /\ script s' = [].
Proof. vm_compute. repeat split. Qed.

(* re-lookup: the commit is answered 16 by b1; the coordinator is looked up again (asking b1, the
   pooled connection), the answer names broker 2 = b2:9092; a connection to b2 is opened and the
   second commit request goes there *)
Example C14_relookup_ex :
  let s := mkst 3 true (answer (commit_resp 1 16) ++ answer (coord_resp 2 0 2 (tag "b2") 9092)
                        ++ [OConn true] ++ answer (commit_resp 1 0)) in
  let '(r, s') := commit_offsets (tag "g") the_commit s in
  r = Ok tt /\
  filter (fun e => match e with ERead _ _ => false | _ => true end) (performed s s')
    = [EWrite h1 (frame commit_p); EWrite h1 (frame (lookup_p 2)); EConnect h2; EWrite h2 (frame commit_p)] /\
  group_coordinator (cs (cl s')) (tag "g") = Some h2 /\ attempts (frame commit_p) s s' = 2.
Proof. vm_compute. repeat split. Qed.

(* F21: code 15 on a commit is final although the limit is 3 and this is the first attempt *)
Example C14_code15_commit_ex :
  let s := mkst 3 true (answer (commit_resp 1 15) ++ answer (commit_resp 1 0)) in
  let '(r, s') := commit_offsets (tag "g") the_commit s in
  r = Err (EKafka KC_GroupCoordinatorNotAvailable) /\ attempts (frame commit_p) s s' = 1 /\
  script s' = answer (commit_resp 1 0).
Proof. vm_compute. repeat split. Qed.

(* lookup: 15 is retried up to the limit *)
Example C14_lookup_exhausted_ex :
  let s := mkst 3 false (answer (coord_resp 1 15 0 [] 0) ++ answer (coord_resp 1 15 0 [] 0)
                         ++ answer (coord_resp 1 15 0 [] 0) ++ answer (coord_resp 1 0 1 (tag "b1") 9092)) in
  let '(r, s') := get_group_coordinator (tag "g") s in
  r = Err (EKafka KC_GroupCoordinatorNotAvailable) /\ attempts (frame (lookup_p 1)) s s' = 3 /\
  script s' = answer (coord_resp 1 0 1 (tag "b1") 9092).
Proof. vm_compute. repeat split. Qed.
Example C14_lookup_success_ex :
  let s := mkst 3 false (answer (coord_resp 1 15 0 [] 0) ++ answer (coord_resp 1 0 1 (tag "b1") 9092)) in
  let '(r, s') := get_group_coordinator (tag "g") s in
  r = Ok h1 /\ attempts (frame (lookup_p 1)) s s' = 2 /\ group_coordinator (cs (cl s')) (tag "g") = Some h1.
Proof. vm_compute. repeat split. Qed.
(* any other code ends the lookup at once *)
Example C14_lookup_fatal_ex :
  let s := mkst 3 false (answer (coord_resp 1 16 0 [] 0) ++ answer (coord_resp 1 0 1 (tag "b1") 9092)) in
  let '(r, s') := get_group_coordinator (tag "g") s in
  r = Err (EKafka KC_NotCoordinatorForGroup) /\ attempts (frame (lookup_p 1)) s s' = 1.
Proof. vm_compute. repeat split. Qed.

(* group offset fetch *)
Definition fetch_p : bytes := unres (enc_offset_fetch_req 1 (tag "cid") (tag "g") 1 [(tag "t", [0])]).
Definition ofetch_resp (corr offset code : Z) : bytes :=
  enc_i32 corr ++ enc_i32 1 ++ enc_i16 1 ++ tag "t" ++ enc_i32 1 ++ enc_i32 0 ++ enc_i64 offset ++ enc_i16 0 ++ enc_i16 code.
Example C14_group_fetch_ex :
  let s := mkst 2 true (answer (ofetch_resp 1 0 14) ++ answer (ofetch_resp 1 77 0)) in
  let '(r, s') := fetch_group_offsets (tag "g") [(tag "t", 0)] s in
  r = Ok [(tag "t", [(0, 77)])] /\ attempts (frame fetch_p) s s' = 2.
Proof. vm_compute. repeat split. Qed.
Example C14_group_fetch_exhausted_ex :
  let s := mkst 2 true (answer (ofetch_resp 1 0 14) ++ answer (ofetch_resp 1 0 14) ++ answer (ofetch_resp 1 77 0)) in
  let '(r, s') := fetch_group_offsets (tag "g") [(tag "t", 0)] s in
  r = Err (EKafka KC_GroupLoadInProgress) /\ attempts (frame fetch_p) s s' = 2 /\
  script s' = answer (ofetch_resp 1 77 0).
Proof. vm_compute. repeat split. Qed.
Example C14_code15_group_fetch_ex :
  let s := mkst 2 true (answer (ofetch_resp 1 0 15) ++ answer (ofetch_resp 1 77 0)) in
  let '(r, s') := fetch_group_offsets (tag "g") [(tag "t", 0)] s in
  r = Err (EKafka KC_GroupCoordinatorNotAvailable) /\ attempts (frame fetch_p) s s' = 1.
Proof. vm_compute. repeat split. Qed.

(* The bound as literally requested (no allowance for interrupted writes) is false: with the
   limit reached (attempt = limit = 3) a single attempt whose first write is interrupted offers
   the whole frame twice. *)
Theorem C14_lookup_bound_refuted :
  exists fuel group p attempt s,
    let '(r, s') := group_lookup_loop fuel group (Ok p) attempt s in
    1 <= attempt /\ r = Ok h1 /\
    ~ (attempts (frame p) s s' <= Z.max 1 (retry_max_attempts (cfg (cl s)) - attempt + 1)).
Proof.
  exists 10%nat, (tag "g"), (lookup_p 1), 3,
         (mkst 3 false ([OWriteIntr] ++ answer (coord_resp 1 0 1 (tag "b1") 9092))).
  vm_compute. split; [discriminate|]. split; [reflexivity|]. intros H. apply H. reflexivity.
Qed.
Theorem C14_commit_bound_refuted :
  exists fuel group p attempt s,
    let '(r, s') := commit_loop fuel group (Ok p) attempt s in
    1 <= attempt /\ r = Ok tt /\ gc_short (frame p) (client_id (cfg (cl s))) group /\
    ~ (attempts (frame p) s s' <= Z.max 1 (retry_max_attempts (cfg (cl s)) - attempt + 1)).
Proof.
  exists 10%nat, (tag "g"), commit_p, 3, (mkst 3 true ([OWriteIntr] ++ answer (commit_resp 1 0))).
  vm_compute. split; [discriminate|]. split; [reflexivity|]. split; [reflexivity|]. intros H. apply H. reflexivity.
Qed.

(* ================================================================================== *)
(* 9. the public calls                                                                *)
(* ================================================================================== *)

(* ---- the requests this client encodes are longer than its coordinator lookups ---------------- *)
Ltac len_solve :=
  unfold ulen in *; unfold enc_i16, enc_i32, enc_i64 in *;
  repeat (progress (rewrite ?app_length, ?be_enc_length in *; cbn [length] in * )); lia.

Lemma enc_str_len x g : enc_str x = Ok g -> ulen g = 2 + ulen x.
Proof.
  unfold enc_str. destruct (ulen x <=? i16_max); [|discriminate]. intros H. injection H as <-. len_solve.
Qed.
Lemma enc_header_len k v corr cid hd : enc_header k v corr cid = Ok hd -> ulen hd = 10 + ulen cid.
Proof.
  unfold enc_header. destruct (enc_str cid) as [c| |] eqn:E; cbn [bind]; try discriminate.
  intros H. injection H as <-. apply enc_str_len in E. len_solve.
Qed.
Lemma enc_array_len {A} (f : A -> res bytes) xs b : enc_array f xs = Ok b -> 4 <= ulen b.
Proof.
  unfold enc_array. destruct (ulen xs <=? i32_max); [|discriminate].
  destruct (enc_all f xs) as [body| |]; cbn [bind]; try discriminate. intros H. injection H as <-. len_solve.
Qed.

Lemma commit_req_gc_short corr cid group version tps p :
  enc_offset_commit_req corr cid group version tps = Ok p -> gc_short (frame p) cid group.
Proof.
  unfold enc_offset_commit_req. destruct (negb _); [discriminate|].
  destruct (enc_header _ _ _ _) as [hd| |] eqn:Eh; cbn [bind]; try discriminate.
  destruct (enc_str group) as [g| |] eqn:Eg; cbn [bind]; try discriminate.
  destruct (enc_str []) as [empty| |] eqn:Ee; cbn [bind]; try discriminate. cbv zeta.
  destruct (enc_tps _ tps) as [b| |] eqn:Eb; cbn [bind]; try discriminate.
  intros H. injection H as <-. apply enc_header_len in Eh. apply enc_str_len in Eg. apply enc_array_len in Eb.
  unfold gc_short. rewrite frame_ulen. len_solve.
Qed.
Lemma fetch_req_gc_short corr cid group version tps p :
  enc_offset_fetch_req corr cid group version tps = Ok p -> gc_short (frame p) cid group.
Proof.
  unfold enc_offset_fetch_req.
  destruct (enc_header _ _ _ _) as [hd| |] eqn:Eh; cbn [bind]; try discriminate.
  destruct (enc_str group) as [g| |] eqn:Eg; cbn [bind]; try discriminate.
  destruct (enc_tps _ tps) as [b| |] eqn:Eb; cbn [bind]; try discriminate.
  intros H. injection H as <-. apply enc_header_len in Eh. apply enc_str_len in Eg. apply enc_array_len in Eb.
  unfold gc_short. rewrite frame_ulen. len_solve.
Qed.

(* ---- the encoders never produce the model's out-of-fuel error -------------------------------------- *)
Lemma enc_str_nofuel x : enc_str x <> Err EOutOfFuel.
Proof. unfold enc_str. destruct (_ <=? _); discriminate. Qed.
Lemma enc_header_nofuel k v corr cid : enc_header k v corr cid <> Err EOutOfFuel.
Proof.
  unfold enc_header. pose proof (enc_str_nofuel cid). destruct (enc_str cid); cbn [bind]; try discriminate; assumption.
Qed.
Lemma enc_all_nofuel {A} (f : A -> res bytes) xs : (forall x, f x <> Err EOutOfFuel) -> enc_all f xs <> Err EOutOfFuel.
Proof.
  intros Hf. induction xs as [|x xs IH]; cbn [enc_all]; [discriminate|].
  pose proof (Hf x). destruct (f x); cbn [bind]; try discriminate; [|assumption].
  destruct (enc_all f xs); cbn [bind]; try discriminate; assumption.
Qed.
Lemma enc_array_nofuel {A} (f : A -> res bytes) xs : (forall x, f x <> Err EOutOfFuel) -> enc_array f xs <> Err EOutOfFuel.
Proof.
  intros Hf. unfold enc_array. destruct (_ <=? _); [|discriminate].
  pose proof (enc_all_nofuel f xs Hf). destruct (enc_all f xs); cbn [bind]; try discriminate; assumption.
Qed.
Lemma enc_tps_nofuel {P} (encp : P -> res bytes) tps : (forall x, encp x <> Err EOutOfFuel) -> enc_tps encp tps <> Err EOutOfFuel.
Proof.
  intros Hf. unfold enc_tps. apply enc_array_nofuel. intros [t ps].
  pose proof (enc_str_nofuel t). destruct (enc_str t); cbn [bind]; try discriminate; [|assumption].
  pose proof (enc_array_nofuel encp ps Hf). destruct (enc_array encp ps); cbn [bind]; try discriminate; assumption.
Qed.
Lemma enc_offset_commit_req_nofuel corr cid group version tps :
  enc_offset_commit_req corr cid group version tps <> Err EOutOfFuel.
Proof.
  unfold enc_offset_commit_req. destruct (negb _); [discriminate|].
  pose proof (enc_header_nofuel API_KEY_OFFSET_COMMIT version corr cid).
  destruct (enc_header _ _ _ _); cbn [bind]; try discriminate; [|assumption].
  pose proof (enc_str_nofuel group). destruct (enc_str group); cbn [bind]; try discriminate; [|assumption].
  pose proof (enc_str_nofuel []). destruct (enc_str []); cbn [bind]; try discriminate; [|assumption]. cbv zeta.
  match goal with |- bind (enc_tps ?f tps) _ <> _ =>
    assert (Hb : enc_tps f tps <> Err EOutOfFuel) by (apply enc_tps_nofuel; intros [x y]; discriminate);
    destruct (enc_tps f tps); cbn [bind]; try discriminate; assumption end.
Qed.
Lemma enc_offset_fetch_req_nofuel corr cid group version tps :
  enc_offset_fetch_req corr cid group version tps <> Err EOutOfFuel.
Proof.
  unfold enc_offset_fetch_req.
  pose proof (enc_header_nofuel API_KEY_OFFSET_FETCH version corr cid).
  destruct (enc_header _ _ _ _); cbn [bind]; try discriminate; [|assumption].
  pose proof (enc_str_nofuel group). destruct (enc_str group); cbn [bind]; try discriminate; [|assumption].
  match goal with |- bind (enc_tps ?f tps) _ <> _ =>
    assert (Hb : enc_tps f tps <> Err EOutOfFuel) by (apply enc_tps_nofuel; intros x; discriminate);
    destruct (enc_tps f tps); cbn [bind]; try discriminate; assumption end.
Qed.

(* ---- the calls, unfolded ------------------------------------------------------------------------------ *)
Definition after_corr (s : st) : st := with_cs s (snd (next_correlation_id (cs (cl s)))).
Definition commit_req (group : bytes) (s : st) (tps : list (bytes * list (Z * Z))) : res bytes :=
  enc_offset_commit_req (fst (next_correlation_id (cs (cl s)))) (client_id (cfg (cl s))) group
                        (commit_version (offset_storage (cfg (cl s)))) tps.
Definition fetch_req (group : bytes) (s : st) (tps : list (bytes * list Z)) : res bytes :=
  enc_offset_fetch_req (fst (next_correlation_id (cs (cl s)))) (client_id (cfg (cl s))) group
                       (fetch_version (offset_storage (cfg (cl s)))) tps.

Lemma commit_offsets_unfold group os s :
  commit_offsets group os s =
  if offset_storage (cfg (cl s)) <? 0 then (Err EUnsetOffsetStorage, s)
  else match commit_tps (cs (cl s)) os [] with
       | None => (Err (EKafka KC_UnknownTopicOrPartition), after_corr s)
       | Some [] => (Ok tt, after_corr s)
       | Some (x :: xs) =>
           commit_loop (S (length (script s))) group (commit_req group s (x :: xs)) 1 (after_corr s)
       end.
Proof.
  unfold commit_offsets. unfold mbind at 1. unfold get_client at 1.
  destruct (offset_storage (cfg (cl s)) <? 0); [reflexivity|].
  destruct (commit_tps (cs (cl s)) os []) as [[|x xs]|]; reflexivity.
Qed.
Lemma fetch_group_offsets_unfold group ps s :
  fetch_group_offsets group ps s =
  if offset_storage (cfg (cl s)) <? 0 then (Err EUnsetOffsetStorage, s)
  else match group_fetch_tps (cs (cl s)) ps [] with
       | None => (Err (EKafka KC_UnknownTopicOrPartition), after_corr s)
       | Some tps => group_fetch_loop (S (length (script s))) group (fetch_req group s tps) 1 (after_corr s)
       end.
Proof.
  unfold fetch_group_offsets. unfold mbind at 1. unfold get_client at 1.
  destruct (offset_storage (cfg (cl s)) <? 0); [reflexivity|].
  destruct (group_fetch_tps (cs (cl s)) ps []); reflexivity.
Qed.

(* every call terminates with a proper result, for every answer stream and every limit *)
Theorem C14_calls_no_out_of_fuel : forall group s,
  fst (get_group_coordinator group s) <> Err EOutOfFuel /\
  (forall os, fst (commit_offsets group os s) <> Err EOutOfFuel) /\
  (forall ps, fst (fetch_group_offsets group ps s) <> Err EOutOfFuel).
Proof.
  intros group s. split; [|split].
  - destruct (get_group_coordinator group s) as [r s'] eqn:E. cbn [fst]. exact (ggc_nofuel _ _ _ _ E).
  - intros os. rewrite commit_offsets_unfold. destruct (_ <? 0); [cbn; discriminate|].
    destruct (commit_tps (cs (cl s)) os []) as [[|x xs]|]; try (cbn; discriminate).
    destruct (commit_loop _ _ _ _ _) as [r s'] eqn:E. cbn [fst]. rewrite commit_loop_eq in E.
    eapply retry_loop_nofuel; [apply dec_offset_commit_resp_nf|apply enc_offset_commit_req_nofuel|exact E|].
    cbn. lia.
  - intros ps. rewrite fetch_group_offsets_unfold. destruct (_ <? 0); [cbn; discriminate|].
    destruct (group_fetch_tps (cs (cl s)) ps []) as [tps|]; try (cbn; discriminate).
    destruct (group_fetch_loop _ _ _ _ _) as [r s'] eqn:E. cbn [fst]. rewrite group_fetch_loop_eq in E.
    eapply retry_loop_nofuel; [apply dec_offset_fetch_resp_nf|apply enc_offset_fetch_req_nofuel|exact E|].
    cbn. lia.
Qed.

Lemma after_corr_quiet fr s : quiet fr s (after_corr s).
Proof. apply with_cs_quiet. Qed.

(* the bounds for the calls: at most max 1 limit requests, no side condition left *)
Theorem C14_commit_offsets_bound : forall group os s r s' tps p,
  commit_offsets group os s = (r, s') ->
  commit_tps (cs (cl s)) os [] = Some tps -> commit_req group s tps = Ok p ->
  attempts (frame p) s s' <= Z.max 1 (retry_max_attempts (cfg (cl s))) + interruptions s s'.
Proof.
  intros group os s r s' tps p H Ht Hp. rewrite commit_offsets_unfold, Ht in H.
  assert (Hq : forall s1, quiet (frame p) s s1 ->
                 attempts (frame p) s s1 <= Z.max 1 (retry_max_attempts (cfg (cl s))) + interruptions s s1).
  { intros s1 [_ Hle]. lia. }
  destruct (_ <? 0); [inversion H; subst; apply Hq, preorder_quiet|].
  destruct tps as [|x xs]; [inversion H; subst; apply Hq, after_corr_quiet|].
  rewrite Hp, commit_loop_eq in H.
  assert (Hs : gc_short (frame p) (client_id (cfg (cl (after_corr s)))) group).
  { unfold commit_req in Hp. apply commit_req_gc_short in Hp. exact Hp. }
  destruct (retry_loop_bound _ _ _ _ _ _ _ _ _ H Hs) as [B _].
  pose proof (att_le_trans _ _ _ _ _ _ (after_corr_quiet (frame p) s) B) as [_ B'].
  unfold after_corr in B'. rewrite with_cs_cfg in B'. lia.
Qed.

Theorem C14_fetch_group_offsets_bound : forall group ps s r s' tps p,
  fetch_group_offsets group ps s = (r, s') ->
  group_fetch_tps (cs (cl s)) ps [] = Some tps -> fetch_req group s tps = Ok p ->
  attempts (frame p) s s' <= Z.max 1 (retry_max_attempts (cfg (cl s))) + interruptions s s'.
Proof.
  intros group ps s r s' tps p H Ht Hp. rewrite fetch_group_offsets_unfold, Ht in H.
  destruct (_ <? 0).
  { inversion H; subst. unfold attempts, interruptions. rewrite performed_refl, consumed_refl. cbn. lia. }
  rewrite Hp, group_fetch_loop_eq in H.
  assert (Hs : gc_short (frame p) (client_id (cfg (cl (after_corr s)))) group).
  { unfold fetch_req in Hp. apply fetch_req_gc_short in Hp. exact Hp. }
  destruct (retry_loop_bound _ _ _ _ _ _ _ _ _ H Hs) as [B _].
  pose proof (att_le_trans _ _ _ _ _ _ (after_corr_quiet (frame p) s) B) as [_ B'].
  unfold after_corr in B'. rewrite with_cs_cfg in B'. lia.
Qed.

Theorem C14_get_group_coordinator_bound : forall group s r s' p,
  get_group_coordinator group s = (r, s') ->
  enc_group_coordinator_req (fst (next_correlation_id (cs (cl s)))) (client_id (cfg (cl s))) group = Ok p ->
  attempts (frame p) s s' <= Z.max 1 (retry_max_attempts (cfg (cl s))) + interruptions s s'.
Proof.
  intros group s r s' p H Hp. rewrite ggc_unfold in H. destruct (group_coordinator (cs (cl s)) group).
  - inversion H; subst. unfold attempts, interruptions. rewrite performed_refl, consumed_refl. cbn. lia.
  - rewrite Hp in H. pose proof (C14_lookup_bound_partial _ _ _ _ _ _ _ H) as B.
    pose proof (with_cs_ext s (snd (next_correlation_id (cs (cl s))))) as E0.
    pose proof (proj1 (lookup_loop_cfg _ _ _ _ _ _ _ H)) as E1.
    pose proof (with_cs_seg s (snd (next_correlation_id (cs (cl s))))) as Hs.
    unfold attempts, interruptions in *. rewrite (performed_app _ _ _ E0 E1), (consumed_app _ _ _ E0 E1).
    rewrite (seg_performed _ _ _ _ Hs), (seg_consumed _ _ _ _ Hs). cbn [app].
    rewrite with_cs_cfg in B. lia.
Qed.

Print Assumptions C14_lookup_bound_partial.
Print Assumptions C14_lookup_bound.
Print Assumptions C14_lookup_bound_refuted.
Print Assumptions C14_lookup_result.
Print Assumptions C14_lookup_ok_iff.
Print Assumptions C14_commit_bound_partial.
Print Assumptions C14_commit_bound.
Print Assumptions C14_commit_bound_refuted.
Print Assumptions C14_commit_result.
Print Assumptions C14_group_fetch_bound_partial.
Print Assumptions C14_group_fetch_bound.
Print Assumptions C14_group_fetch_result.
Print Assumptions C14_cfg_unchanged.
Print Assumptions C14_relookup.
Print Assumptions C14_relookup_group_fetch.
Print Assumptions C14_no_out_of_fuel.
Print Assumptions C14_calls_no_out_of_fuel.
Print Assumptions C14_code15_not_retried_on_commit.
Print Assumptions C14_code15_not_retried_on_group_fetch.
Print Assumptions C14_commit_offsets_bound.
Print Assumptions C14_fetch_group_offsets_bound.
Print Assumptions C14_get_group_coordinator_bound.
