(* C14: bounded retries of the group operations (coordinator lookup, offset commit, group
   offset fetch): repeated on the retryable answers for at most retry_max_attempts attempts
   (at least one), never looping indefinitely; re-lookup after "not coordinator for group". *)
From KV Require Import Base.Prelude Gen.ErrorCodes Gen.Consts Model.Codecs Model.Requests Model.Responses
                       Model.ClientState Model.Net Model.Client.
From KV Require Import Proofs.BytesFacts Proofs.C11Facts Proofs.NetFacts.
From Coq Require Import ZifyBool.

(* ================================================================================== *)
(* 1. counting attempts in the trace                                                  *)
(* ================================================================================== *)

(* an attempt: the whole frame is offered to some host *)
Definition is_attempt (fr : bytes) (e : ev_op) : bool :=
  match e with EWrite _ b => bytes_eqb b fr | _ => false end.
Definition is_intr (o : ev_out) : bool := match o with OWriteIntr => true | _ => false end.
Definition count_att (fr : bytes) (ops : list ev_op) : Z := Z.of_nat (length (filter (is_attempt fr) ops)).
Definition count_intr (outs : list ev_out) : Z := Z.of_nat (length (filter is_intr outs)).
Definition attempts (fr : bytes) (s s' : st) : Z := count_att fr (performed s s').
(* an interrupted write (EINTR) makes write_all offer the same buffer again *)
Definition interruptions (s s' : st) : Z := count_intr (consumed s s').

Lemma count_att_app fr a b : count_att fr (a ++ b) = count_att fr a + count_att fr b.
Proof. unfold count_att. rewrite filter_app, app_length. lia. Qed.
Lemma count_intr_app a b : count_intr (a ++ b) = count_intr a + count_intr b.
Proof. unfold count_intr. rewrite filter_app, app_length. lia. Qed.
Lemma count_att_nonneg fr a : 0 <= count_att fr a.
Proof. unfold count_att. lia. Qed.
Lemma count_intr_nonneg a : 0 <= count_intr a.
Proof. unfold count_intr. lia. Qed.
Lemma count_att_cons fr e a : count_att fr (e :: a) = (if is_attempt fr e then 1 else 0) + count_att fr a.
Proof. unfold count_att. cbn [filter]. destruct (is_attempt fr e); cbn [length]; lia. Qed.
Lemma count_intr_cons o a : count_intr (o :: a) = (if is_intr o then 1 else 0) + count_intr a.
Proof. unfold count_intr. cbn [filter]. destruct (is_intr o); cbn [length]; lia. Qed.

Lemma count_att_none (P : ev_op -> Prop) fr l :
  (forall e, P e -> is_attempt fr e = false) -> Forall P l -> count_att fr l = 0.
Proof.
  intros HP. induction 1 as [|e l He Hl IH]; [reflexivity|]. rewrite count_att_cons, (HP _ He), IH. reflexivity.
Qed.

Definition att_le (fr : bytes) (n : Z) (s s' : st) : Prop :=
  ext s s' /\ attempts fr s s' <= n + interruptions s s'.
Definition quiet (fr : bytes) : st -> st -> Prop := att_le fr 0.

Lemma att_le_refl fr n s : 0 <= n -> att_le fr n s s.
Proof.
  intros Hn. split; [apply ext_refl|]. unfold attempts, interruptions.
  rewrite performed_refl, consumed_refl. cbn. lia.
Qed.
Lemma att_le_trans fr n1 n2 s s1 s2 : att_le fr n1 s s1 -> att_le fr n2 s1 s2 -> att_le fr (n1 + n2) s s2.
Proof.
  intros [E1 L1] [E2 L2]. split; [eapply ext_trans; eassumption|]. unfold attempts, interruptions in *.
  rewrite (performed_app _ _ _ E1 E2), (consumed_app _ _ _ E1 E2), count_att_app, count_intr_app. lia.
Qed.
Lemma att_le_mono fr n n' s s' : n <= n' -> att_le fr n s s' -> att_le fr n' s s'.
Proof. intros Hn [E L]. split; [exact E|lia]. Qed.
Lemma preorder_quiet fr : preorder (quiet fr).
Proof.
  split; [intros s; apply att_le_refl; lia|].
  intros s s1 s2 H1 H2. exact (att_le_trans fr 0 0 _ _ _ H1 H2).
Qed.

Lemma keeps_bind_att {A B} fr n1 n2 (m : M A) (f : A -> M B) :
  0 <= n2 -> keeps (att_le fr n1) m -> (forall a, keeps (att_le fr n2) (f a)) ->
  keeps (att_le fr (n1 + n2)) (mbind m f).
Proof.
  intros Hn Hm Hf s r s' H. bind_inv H a s1 H1 H2.
  - eapply att_le_trans; [eapply Hm, H1|eapply Hf, H2].
  - eapply att_le_mono; [|eapply Hm, H1]. lia.
  - eapply att_le_mono; [|eapply Hm, H1]. lia.
Qed.

Lemma ops_in_quiet (P : ev_op -> Prop) fr s s' :
  (forall e, P e -> is_attempt fr e = false) -> ops_in P s s' -> quiet fr s s'.
Proof.
  intros HP [E F]. split; [exact E|]. unfold attempts. rewrite (count_att_none P fr _ HP F).
  pose proof (count_intr_nonneg (consumed s s')). unfold interruptions. lia.
Qed.

Lemma keeps_quiet_of_ops {A} (P : ev_op -> Prop) fr (m : M A) :
  (forall e, P e -> is_attempt fr e = false) -> keeps (ops_in P) m -> keeps (quiet fr) m.
Proof. intros HP Hm s r s' H. eapply ops_in_quiet; [exact HP|eapply Hm, H]. Qed.

Lemma short_write_not_attempt h n fr e : (n < length fr)%nat -> write_to_le h n e -> is_attempt fr e = false.
Proof.
  intros Hn [b0 [-> Hl]]. cbn [is_attempt]. apply bytes_eqb_neq. intros ->. lia.
Qed.
Lemma conn_event_not_attempt h fr e : conn_event h e -> is_attempt fr e = false.
Proof. intros [-> | ->]; reflexivity. Qed.
Lemma read_event_not_attempt h fr e : read_event h e -> is_attempt fr e = false.
Proof. intros [n ->]. reflexivity. Qed.
Lemma not_write_not_attempt fr e : not_write e -> is_attempt fr e = false.
Proof. destruct e; cbn; intros H; try reflexivity. contradiction. Qed.

(* one write_all of a buffer no longer than the frame offers the frame at most once, plus once
   more per interruption *)
Lemma wsteps_count h fr b ops outs chunks b' : wsteps h b ops outs chunks b' ->
  (length b <= length fr)%nat -> count_att fr (ops ++ [EWrite h b']) <= 1 + count_intr outs.
Proof.
  induction 1 as [b|b k ops outs chunks b' Hne Hk Hw IH|b ops outs chunks b' Hne Hw IH]; intros Hl.
  - cbn [app]. rewrite count_att_cons. cbn [is_attempt]. destruct (bytes_eqb b fr); cbn; lia.
  - cbn [app]. rewrite count_att_cons, count_intr_cons. cbn [is_intr].
    assert (Hz : count_att fr (ops ++ [EWrite h b']) = 0).
    { apply (count_att_none (write_to_le h (length (skipn (Z.to_nat k) b)))).
      - intros e He. eapply short_write_not_attempt; [|exact He]. rewrite skipn_length.
        destruct b; [contradiction|]. cbn [length] in *. lia.
      - eapply wsteps_writes; exact Hw. }
    rewrite Hz. pose proof (count_intr_nonneg outs). destruct (is_attempt fr (EWrite h b)); lia.
  - cbn [app]. rewrite count_att_cons, count_intr_cons. cbn [is_intr]. specialize (IH Hl).
    destruct (is_attempt fr (EWrite h b)); lia.
Qed.

Lemma write_all_att fuel h buf fr s r s' :
  write_all fuel h buf s = (r, s') -> (length buf <= length fr)%nat -> att_le fr 1 s s'.
Proof.
  intros H Hl. destruct (write_all_run _ _ _ _ _ _ H) as [_ (ops & outs & chunks & b' & Hw & He)].
  pose proof (wsteps_count _ fr _ _ _ _ _ Hw Hl) as Hc. rewrite count_att_app in Hc.
  pose proof (count_att_nonneg fr [EWrite h b']) as Hn.
  split; [eapply write_end_seg; exact He|]. unfold attempts, interruptions.
  destruct He as [Hr Hb Hs|o Hb Hbad Hs|Hb Hr Hd Hs|Hb Hr Hf Hs];
    rewrite (seg_performed _ _ _ _ Hs), (seg_consumed _ _ _ _ Hs);
    rewrite ?count_att_app, ?count_intr_app; try lia.
  pose proof (count_intr_nonneg [o]). lia.
Qed.

(* requests whose frame is shorter than fr never look like an attempt, even partially written *)
Definition short (fr : bytes) (req : res bytes) : Prop :=
  forall q, req = Ok q -> (length (frame q) < length fr)%nat.

Lemma send_att h msg fr : (length msg <= length fr)%nat -> keeps (att_le fr 1) (send h msg).
Proof.
  intros Hl. change 1 with (1 + 0). apply keeps_bind_att; [lia| |].
  - intros s r s' H. unfold with_fuel in H. eapply write_all_att; eassumption.
  - intros _. apply keeps_ret, preorder_quiet.
Qed.
Lemma send_quiet h msg fr : (length msg < length fr)%nat -> keeps (quiet fr) (send h msg).
Proof.
  intros Hl. apply keeps_bind; [apply preorder_quiet| |intros _; apply keeps_ret, preorder_quiet].
  intros s r s' H. unfold with_fuel in H.
  eapply ops_in_quiet; [|eapply write_all_ops; exact H]. intros e He. eapply short_write_not_attempt; eassumption.
Qed.

Lemma send_request_att h p : keeps (att_le (frame p) 1) (send_request h (Ok p)).
Proof.
  unfold send_request. intros s r s' H. unfold mbind at 1 in H. unfold lift in H.
  eapply send_att; [|exact H]. lia.
Qed.
Lemma send_request_quiet h req fr : short fr req -> keeps (quiet fr) (send_request h req).
Proof.
  intros Hs. unfold send_request. intros s r s' H. unfold mbind at 1 in H. unfold lift in H.
  destruct req as [q|e|w].
  - eapply send_quiet; [|exact H]. apply Hs. reflexivity.
  - inversion H; subst. apply preorder_quiet.
  - inversion H; subst. apply preorder_quiet.
Qed.

Lemma get_conn_quiet h fr : keeps (quiet fr) (get_conn h).
Proof. eapply keeps_quiet_of_ops; [|apply ops_get_conn]. apply conn_event_not_attempt. Qed.
Lemma get_response_quiet {A} (d : dec A) h fr : keeps (quiet fr) (get_response d h).
Proof. eapply keeps_quiet_of_ops; [|apply ops_get_response]. apply read_event_not_attempt. Qed.
Lemma get_conn_any_quiet fr : keeps (quiet fr) get_conn_any.
Proof. eapply keeps_quiet_of_ops; [|apply ops_get_conn_any]. apply not_write_not_attempt. Qed.

Lemma send_receive_att {A} (d : dec A) h p : keeps (att_le (frame p) 1) (send_receive d h (Ok p)).
Proof.
  unfold send_receive. change 1 with (0 + (1 + 0)).
  apply keeps_bind_att; [lia|apply get_conn_quiet|]. intros _.
  apply keeps_bind_att; [lia|apply send_request_att|]. intros _. apply get_response_quiet.
Qed.
Lemma send_receive_quiet {A} (d : dec A) h req fr : short fr req -> keeps (quiet fr) (send_receive d h req).
Proof.
  intros Hs. unfold send_receive.
  apply keeps_bind; [apply preorder_quiet|apply get_conn_quiet|]. intros _.
  apply keeps_bind; [apply preorder_quiet|apply send_request_quiet; exact Hs|]. intros _. apply get_response_quiet.
Qed.
