(* C14: bounded retries of the group operations (coordinator lookup, offset commit, group
   offset fetch): repeated on the retryable answers for at most retry_max_attempts attempts
   (at least one), never looping indefinitely; re-lookup after "not coordinator for group". *)
From KV Require Import Base.Prelude Gen.ErrorCodes Gen.Consts Model.Codecs Model.Requests Model.Responses
                       Model.ClientState Model.Net Model.Client.
From KV Require Import Proofs.BytesFacts Proofs.C11Facts Proofs.NetFacts.
From Coq Require Import ZifyBool.

(* ================================================================================== *)
(* 1. counting attempts in the trace                                                  *)
(* ================================================================================== *)

(* an attempt: the whole frame is offered to some host *)
Definition is_attempt (fr : bytes) (e : ev_op) : bool :=
  match e with EWrite _ b => bytes_eqb b fr | _ => false end.
Definition is_intr (o : ev_out) : bool := match o with OWriteIntr => true | _ => false end.
Definition count_att (fr : bytes) (ops : list ev_op) : Z := Z.of_nat (length (filter (is_attempt fr) ops)).
Definition count_intr (outs : list ev_out) : Z := Z.of_nat (length (filter is_intr outs)).
Definition attempts (fr : bytes) (s s' : st) : Z := count_att fr (performed s s').
(* an interrupted write (EINTR) makes write_all offer the same buffer again *)
Definition interruptions (s s' : st) : Z := count_intr (consumed s s').

Lemma count_att_app fr a b : count_att fr (a ++ b) = count_att fr a + count_att fr b.
Proof. unfold count_att. rewrite filter_app, app_length. lia. Qed.
Lemma count_intr_app a b : count_intr (a ++ b) = count_intr a + count_intr b.
Proof. unfold count_intr. rewrite filter_app, app_length. lia. Qed.
Lemma count_att_nonneg fr a : 0 <= count_att fr a.
Proof. unfold count_att. lia. Qed.
Lemma count_intr_nonneg a : 0 <= count_intr a.
Proof. unfold count_intr. lia. Qed.
Lemma count_att_cons fr e a : count_att fr (e :: a) = (if is_attempt fr e then 1 else 0) + count_att fr a.
Proof. unfold count_att. cbn [filter]. destruct (is_attempt fr e); cbn [length]; lia. Qed.
Lemma count_intr_cons o a : count_intr (o :: a) = (if is_intr o then 1 else 0) + count_intr a.
Proof. unfold count_intr. cbn [filter]. destruct (is_intr o); cbn [length]; lia. Qed.

Lemma count_att_none (P : ev_op -> Prop) fr l :
  (forall e, P e -> is_attempt fr e = false) -> Forall P l -> count_att fr l = 0.
Proof.
  intros HP. induction 1 as [|e l He Hl IH]; [reflexivity|]. rewrite count_att_cons, (HP _ He), IH. reflexivity.
Qed.

Definition att_le (fr : bytes) (n : Z) (s s' : st) : Prop :=
  ext s s' /\ attempts fr s s' <= n + interruptions s s'.
Definition quiet (fr : bytes) : st -> st -> Prop := att_le fr 0.

Lemma att_le_refl fr n s : 0 <= n -> att_le fr n s s.
Proof.
  intros Hn. split; [apply ext_refl|]. unfold attempts, interruptions.
  rewrite performed_refl, consumed_refl. cbn. lia.
Qed.
Lemma att_le_trans fr n1 n2 s s1 s2 : att_le fr n1 s s1 -> att_le fr n2 s1 s2 -> att_le fr (n1 + n2) s s2.
Proof.
  intros [E1 L1] [E2 L2]. split; [eapply ext_trans; eassumption|]. unfold attempts, interruptions in *.
  rewrite (performed_app _ _ _ E1 E2), (consumed_app _ _ _ E1 E2), count_att_app, count_intr_app. lia.
Qed.
Lemma att_le_mono fr n n' s s' : n <= n' -> att_le fr n s s' -> att_le fr n' s s'.
Proof. intros Hn [E L]. split; [exact E|lia]. Qed.
Lemma preorder_quiet fr : preorder (quiet fr).
Proof.
  split; [intros s; apply att_le_refl; lia|].
  intros s s1 s2 H1 H2. exact (att_le_trans fr 0 0 _ _ _ H1 H2).
Qed.

Lemma keeps_bind_att {A B} fr n1 n2 (m : M A) (f : A -> M B) :
  0 <= n2 -> keeps (att_le fr n1) m -> (forall a, keeps (att_le fr n2) (f a)) ->
  keeps (att_le fr (n1 + n2)) (mbind m f).
Proof.
  intros Hn Hm Hf s r s' H. bind_inv H a s1 H1 H2.
  - eapply att_le_trans; [eapply Hm, H1|eapply Hf, H2].
  - eapply att_le_mono; [|eapply Hm, H1]. lia.
  - eapply att_le_mono; [|eapply Hm, H1]. lia.
Qed.

Lemma ops_in_quiet (P : ev_op -> Prop) fr s s' :
  (forall e, P e -> is_attempt fr e = false) -> ops_in P s s' -> quiet fr s s'.
Proof.
  intros HP [E F]. split; [exact E|]. unfold attempts. rewrite (count_att_none P fr _ HP F).
  pose proof (count_intr_nonneg (consumed s s')). unfold interruptions. lia.
Qed.

Lemma keeps_quiet_of_ops {A} (P : ev_op -> Prop) fr (m : M A) :
  (forall e, P e -> is_attempt fr e = false) -> keeps (ops_in P) m -> keeps (quiet fr) m.
Proof. intros HP Hm s r s' H. eapply ops_in_quiet; [exact HP|eapply Hm, H]. Qed.

Lemma short_write_not_attempt h n fr e : (n < length fr)%nat -> write_to_le h n e -> is_attempt fr e = false.
Proof.
  intros Hn [b0 [-> Hl]]. cbn [is_attempt]. apply bytes_eqb_neq. intros ->. lia.
Qed.
Lemma conn_event_not_attempt h fr e : conn_event h e -> is_attempt fr e = false.
Proof. intros [-> | ->]; reflexivity. Qed.
Lemma read_event_not_attempt h fr e : read_event h e -> is_attempt fr e = false.
Proof. intros [n ->]. reflexivity. Qed.
Lemma not_write_not_attempt fr e : not_write e -> is_attempt fr e = false.
Proof. destruct e; cbn; intros H; try reflexivity. contradiction. Qed.

(* one write_all of a buffer no longer than the frame offers the frame at most once, plus once
   more per interruption *)
Lemma wsteps_count h fr b ops outs chunks b' : wsteps h b ops outs chunks b' ->
  (length b <= length fr)%nat -> count_att fr (ops ++ [EWrite h b']) <= 1 + count_intr outs.
Proof.
  induction 1 as [b|b k ops outs chunks b' Hne Hk Hw IH|b ops outs chunks b' Hne Hw IH]; intros Hl.
  - cbn [app]. rewrite count_att_cons. cbn [is_attempt]. destruct (bytes_eqb b fr); cbn; lia.
  - cbn [app]. rewrite count_att_cons, count_intr_cons. cbn [is_intr].
    assert (Hz : count_att fr (ops ++ [EWrite h b']) = 0).
    { apply (count_att_none (write_to_le h (length (skipn (Z.to_nat k) b)))).
      - intros e He. eapply short_write_not_attempt; [|exact He]. rewrite skipn_length.
        destruct b; [contradiction|]. cbn [length] in *. lia.
      - eapply wsteps_writes; exact Hw. }
    rewrite Hz. pose proof (count_intr_nonneg outs). destruct (is_attempt fr (EWrite h b)); lia.
  - cbn [app]. rewrite count_att_cons, count_intr_cons. cbn [is_intr]. specialize (IH Hl).
    destruct (is_attempt fr (EWrite h b)); lia.
Qed.

Lemma write_all_att fuel h buf fr s r s' :
  write_all fuel h buf s = (r, s') -> (length buf <= length fr)%nat -> att_le fr 1 s s'.
Proof.
  intros H Hl. destruct (write_all_run _ _ _ _ _ _ H) as [_ (ops & outs & chunks & b' & Hw & He)].
  pose proof (wsteps_count _ fr _ _ _ _ _ Hw Hl) as Hc. rewrite count_att_app in Hc.
  pose proof (count_att_nonneg fr [EWrite h b']) as Hn.
  split; [eapply write_end_seg; exact He|]. unfold attempts, interruptions.
  destruct He as [Hr Hb Hs|o Hb Hbad Hs|Hb Hr Hd Hs|Hb Hr Hf Hs];
    rewrite (seg_performed _ _ _ _ Hs), (seg_consumed _ _ _ _ Hs);
    rewrite ?count_att_app, ?count_intr_app; try lia.
  pose proof (count_intr_nonneg [o]). lia.
Qed.

(* requests whose frame is shorter than fr never look like an attempt, even partially written *)
Definition short (fr : bytes) (req : res bytes) : Prop :=
  forall q, req = Ok q -> (length (frame q) < length fr)%nat.

Lemma send_att h msg fr : (length msg <= length fr)%nat -> keeps (att_le fr 1) (send h msg).
Proof.
  intros Hl. change 1 with (1 + 0). apply keeps_bind_att; [lia| |].
  - intros s r s' H. unfold with_fuel in H. eapply write_all_att; eassumption.
  - intros _. apply keeps_ret, preorder_quiet.
Qed.
Lemma send_quiet h msg fr : (length msg < length fr)%nat -> keeps (quiet fr) (send h msg).
Proof.
  intros Hl. apply keeps_bind; [apply preorder_quiet| |intros _; apply keeps_ret, preorder_quiet].
  intros s r s' H. unfold with_fuel in H.
  eapply ops_in_quiet; [|eapply write_all_ops; exact H]. intros e He. eapply short_write_not_attempt; eassumption.
Qed.

Lemma send_request_att h p : keeps (att_le (frame p) 1) (send_request h (Ok p)).
Proof.
  unfold send_request. intros s r s' H. unfold mbind at 1 in H. unfold lift in H.
  eapply send_att; [|exact H]. lia.
Qed.
Lemma send_request_quiet h req fr : short fr req -> keeps (quiet fr) (send_request h req).
Proof.
  intros Hs. unfold send_request. intros s r s' H. unfold mbind at 1 in H. unfold lift in H.
  destruct req as [q|e|w].
  - eapply send_quiet; [|exact H]. apply Hs. reflexivity.
  - inversion H; subst. apply preorder_quiet.
  - inversion H; subst. apply preorder_quiet.
Qed.

Lemma get_conn_quiet h fr : keeps (quiet fr) (get_conn h).
Proof. eapply keeps_quiet_of_ops; [|apply ops_get_conn]. apply conn_event_not_attempt. Qed.
Lemma get_response_quiet {A} (d : dec A) h fr : keeps (quiet fr) (get_response d h).
Proof. eapply keeps_quiet_of_ops; [|apply ops_get_response]. apply read_event_not_attempt. Qed.
Lemma get_conn_any_quiet fr : keeps (quiet fr) get_conn_any.
Proof. eapply keeps_quiet_of_ops; [|apply ops_get_conn_any]. apply not_write_not_attempt. Qed.

Lemma send_receive_att {A} (d : dec A) h p : keeps (att_le (frame p) 1) (send_receive d h (Ok p)).
Proof.
  unfold send_receive. change 1 with (0 + (1 + 0)).
  apply keeps_bind_att; [lia|apply get_conn_quiet|]. intros _.
  apply keeps_bind_att; [lia|apply send_request_att|]. intros _. apply get_response_quiet.
Qed.
Lemma send_receive_quiet {A} (d : dec A) h req fr : short fr req -> keeps (quiet fr) (send_receive d h req).
Proof.
  intros Hs. unfold send_receive.
  apply keeps_bind; [apply preorder_quiet|apply get_conn_quiet|]. intros _.
  apply keeps_bind; [apply preorder_quiet|apply send_request_quiet; exact Hs|]. intros _. apply get_response_quiet.
Qed.

(* ================================================================================== *)
(* 2. the response decoders of the group operations never run out of fuel             *)
(* ================================================================================== *)

Definition shrinks {A} (d : dec A) (k : nat) : Prop :=
  forall bs a r, d bs = Ok (a, r) -> (length r + k <= length bs)%nat.
Definition nf {A} (d : dec A) : Prop := forall bs, d bs <> Err EOutOfFuel.

Lemma cread_shrinks n : shrinks (cread n) n.
Proof.
  intros bs a r H. unfold cread in H. destruct (Nat.ltb (length bs) n) eqn:E; [discriminate|].
  inversion H; subst. rewrite skipn_length. apply Nat.ltb_ge in E. lia.
Qed.
Lemma cread_nf n : nf (cread n).
Proof. intros bs H. unfold cread in H. destruct (Nat.ltb (length bs) n); discriminate. Qed.

Ltac dec_int_shrinks :=
  let bs := fresh "bs" in let a := fresh "a" in let r := fresh "r" in let H := fresh "H" in
  let x := fresh "x" in let r' := fresh "r'" in let E := fresh "E" in
  intros bs a r H;
  match type of H with ?f bs = _ => unfold f in H end;
  match type of H with bind (cread ?n bs) _ = _ =>
    destruct (cread n bs) as [[x r']| |] eqn:E; cbn [bind] in H; [|discriminate|discriminate];
    inversion H; subst; exact (cread_shrinks n _ _ _ E) end.
Ltac dec_int_nf :=
  let bs := fresh "bs" in let H := fresh "H" in let x := fresh "x" in let r' := fresh "r'" in
  let E := fresh "E" in
  intros bs H;
  match type of H with ?f bs = _ => unfold f in H end;
  match type of H with bind (cread ?n bs) _ = _ =>
    destruct (cread n bs) as [[x r']| |] eqn:E; cbn [bind] in H; [discriminate| |discriminate];
    inversion H; subst; exact (cread_nf n _ E) end.

Lemma dec_i16_shrinks : shrinks dec_i16 2. Proof. dec_int_shrinks. Qed.
Lemma dec_i32_shrinks : shrinks dec_i32 4. Proof. dec_int_shrinks. Qed.
Lemma dec_i64_shrinks : shrinks dec_i64 8. Proof. dec_int_shrinks. Qed.
Lemma dec_i16_nf : nf dec_i16. Proof. dec_int_nf. Qed.
Lemma dec_i32_nf : nf dec_i32. Proof. dec_int_nf. Qed.
Lemma dec_i64_nf : nf dec_i64. Proof. dec_int_nf. Qed.

Lemma dec_string_shrinks : shrinks dec_string 2.
Proof.
  intros bs a r H. unfold dec_string in H. destruct (dec_i16 bs) as [[len r']| |] eqn:E; cbn [bind] in H;
    try discriminate. apply dec_i16_shrinks in E. destruct (len <=? 0); [inversion H; subst; lia|].
  cbv zeta in H. destruct (_ && _); [|discriminate]. inversion H; subst. rewrite skipn_length. lia.
Qed.
Lemma dec_string_nf : nf dec_string.
Proof.
  intros bs H. unfold dec_string in H. destruct (dec_i16 bs) as [[len r']| |] eqn:E; cbn [bind] in H.
  - destruct (len <=? 0); [discriminate|]. cbv zeta in H. destruct (_ && _); discriminate.
  - inversion H; subst. exact (dec_i16_nf _ E).
  - discriminate.
Qed.

Lemma dec_many_shrinks {A} (d : dec A) : shrinks d 0 -> forall fuel count, shrinks (dec_many d fuel count) 0.
Proof.
  intros Hd. induction fuel as [|f IH]; intros count bs a r H; cbn [dec_many] in H;
    destruct (count <=? 0); try discriminate; try (inversion H; subst; lia).
  destruct (d bs) as [[x r1]| |] eqn:E; cbn [bind] in H; try discriminate.
  destruct (dec_many d f (count - 1) r1) as [[xs r2]| |] eqn:E2; cbn [bind] in H; try discriminate.
  inversion H; subst. apply Hd in E. apply IH in E2. lia.
Qed.
Lemma dec_many_nf {A} (d : dec A) : shrinks d 1 -> nf d ->
  forall fuel count bs, (length bs < fuel)%nat -> dec_many d fuel count bs <> Err EOutOfFuel.
Proof.
  intros Hd Hn. induction fuel as [|f IH]; intros count bs Hl H; [lia|]. cbn [dec_many] in H.
  destruct (count <=? 0); [discriminate|].
  destruct (d bs) as [[x r1]|e|w] eqn:E; cbn [bind] in H.
  - destruct (dec_many d f (count - 1) r1) as [[xs r2]|e|w] eqn:E2; cbn [bind] in H; try discriminate.
    inversion H; subst. apply Hd in E. apply (IH (count - 1) r1); [lia|exact E2].
  - inversion H; subst. exact (Hn _ E).
  - discriminate.
Qed.
Lemma dec_vec_shrinks {A} sz (d : dec A) : shrinks d 0 -> shrinks (dec_vec sz d) 4.
Proof.
  intros Hd bs a r H. unfold dec_vec in H. destruct (dec_i32 bs) as [[len r']| |] eqn:E; cbn [bind] in H;
    try discriminate. apply dec_i32_shrinks in E. destruct (len <=? 0); [inversion H; subst; lia|].
  apply (dec_many_shrinks d Hd) in H. lia.
Qed.
Lemma dec_vec_nf {A} sz (d : dec A) : shrinks d 1 -> nf d -> nf (dec_vec sz d).
Proof.
  intros Hd Hn bs H. unfold dec_vec in H. destruct (dec_i32 bs) as [[len r']|e|w] eqn:E; cbn [bind] in H.
  - destruct (len <=? 0); [discriminate|]. apply (dec_many_nf d Hd Hn) in H; [exact H|lia].
  - inversion H; subst. exact (dec_i32_nf _ E).
  - discriminate.
Qed.
Lemma shrinks_weaken {A} (d : dec A) k k' : (k' <= k)%nat -> shrinks d k -> shrinks d k'.
Proof. intros Hk Hd bs a r H. apply Hd in H. lia. Qed.

(* chains `let* '(x, r) := d1 bs in ...` *)
Ltac chain_shrinks H :=
  repeat match type of H with
  | bind (?d ?bs) _ = Ok _ =>
      let x := fresh "x" in let r := fresh "r" in let E := fresh "E" in
      destruct (d bs) as [[x r]| |] eqn:E; cbn [bind] in H; [|discriminate|discriminate]
  end.
Ltac chain_nf H lem :=
  repeat match type of H with
  | bind (?d ?bs) _ = Err EOutOfFuel =>
      let x := fresh "x" in let r := fresh "r" in let e := fresh "e" in let E := fresh "E" in
      destruct (d bs) as [[x r]|e|] eqn:E; cbn [bind] in H;
      [|inversion H; subst; exfalso; revert E; first [apply dec_i16_nf|apply dec_i32_nf|apply dec_i64_nf|apply dec_string_nf|lem]
       |discriminate]
  end.

Lemma dec_offset_commit_part_shrinks : shrinks dec_offset_commit_part 1.
Proof.
  intros bs a r H. unfold dec_offset_commit_part in H. chain_shrinks H. inversion H; subst.
  apply dec_i32_shrinks in E. apply dec_i16_shrinks in E0. lia.
Qed.
Lemma dec_offset_commit_part_nf : nf dec_offset_commit_part.
Proof. intros bs H. unfold dec_offset_commit_part in H. chain_nf H ltac:(fail). discriminate. Qed.

Lemma dec_offset_fetch_part_shrinks : shrinks dec_offset_fetch_part 1.
Proof.
  intros bs a r H. unfold dec_offset_fetch_part in H. chain_shrinks H. inversion H; subst.
  apply dec_i32_shrinks in E. apply dec_i64_shrinks in E0. apply dec_string_shrinks in E1.
  apply dec_i16_shrinks in E2. lia.
Qed.
Lemma dec_offset_fetch_part_nf : nf dec_offset_fetch_part.
Proof. intros bs H. unfold dec_offset_fetch_part in H. chain_nf H ltac:(fail). discriminate. Qed.

Lemma dec_tps_nf {P} psize (dp : dec P) : shrinks dp 1 -> nf dp -> nf (dec_tps psize dp).
Proof.
  intros Hs Hn. unfold dec_tps. apply dec_vec_nf.
  - intros bs a r H. chain_shrinks H. inversion H; subst. apply dec_string_shrinks in E.
    apply (dec_vec_shrinks psize dp (shrinks_weaken dp 1 0 (Nat.le_0_l 1) Hs)) in E0. lia.
  - intros bs H. chain_nf H ltac:(apply (dec_vec_nf psize dp Hs Hn)). discriminate.
Qed.

Lemma dec_offset_commit_resp_nf : nf dec_offset_commit_resp.
Proof.
  intros bs H. unfold dec_offset_commit_resp, dec_corr in H.
  chain_nf H ltac:(apply (dec_tps_nf 8 _ dec_offset_commit_part_shrinks dec_offset_commit_part_nf)).
  discriminate.
Qed.
Lemma dec_offset_fetch_resp_nf : nf dec_offset_fetch_resp.
Proof.
  intros bs H. unfold dec_offset_fetch_resp, dec_corr in H.
  chain_nf H ltac:(apply (dec_tps_nf 48 _ dec_offset_fetch_part_shrinks dec_offset_fetch_part_nf)).
  discriminate.
Qed.
Lemma dec_coordinator_resp_nf : nf dec_coordinator_resp.
Proof. intros bs H. unfold dec_coordinator_resp, dec_corr in H. chain_nf H ltac:(fail). discriminate. Qed.

(* ================================================================================== *)
(* 3. coordinator lookup                                                              *)
(* ================================================================================== *)

Definition with_cs (s : st) (x : cstate) : st := snd (set_cs x s).

Lemma set_cs_eq x s : set_cs x s = (Ok tt, with_cs s x).
Proof. reflexivity. Qed.
Lemma with_cs_seg s x : seg s (with_cs s x) [] [].
Proof. split; reflexivity. Qed.
Lemma with_cs_cfg s x : cfg (cl (with_cs s x)) = cfg (cl s).
Proof. reflexivity. Qed.
Lemma with_cs_cs s x : cs (cl (with_cs s x)) = x.
Proof. reflexivity. Qed.
Lemma with_cs_quiet fr s x : quiet fr s (with_cs s x).
Proof.
  pose proof (with_cs_seg s x) as Hs. split; [exists [], []; exact Hs|].
  unfold attempts, interruptions. rewrite (seg_performed _ _ _ _ Hs), (seg_consumed _ _ _ _ Hs). cbn. lia.
Qed.
Lemma with_cs_ext s x : ext s (with_cs s x).
Proof. exists [], []. apply with_cs_seg. Qed.

(* the config is never touched *)
Definition same_cfgc (s s' : st) : Prop := cfg (cl s') = cfg (cl s).
Lemma preorder_same_cfgc : preorder same_cfgc.
Proof. split; [intros s; reflexivity|intros s s1 s2 H1 H2; unfold same_cfgc in *; congruence]. Qed.

(* ---- one attempt ----------------------------------------------------------------------- *)
Section LookupAttempt.
  Variable R : st -> st -> Prop.
  Hypothesis HR : preorder R.
  Variable req : res bytes.
  Hypothesis Hany : keeps R get_conn_any.
  Hypothesis Hsend : forall h, keeps R (send_request h req).
  Hypothesis Hresp : forall h, keeps R (get_response dec_coordinator_resp h).

  Lemma keepsR_lookup_attempt : keeps R (group_lookup_attempt req).
  Proof.
    apply keeps_bind; [exact HR|exact Hany|]. intros [h|]; [|apply keeps_mpanic; exact HR].
    apply keeps_bind; [exact HR|apply Hsend|]. intros _. apply Hresp.
  Qed.
End LookupAttempt.

Lemma lookup_attempt_ext req : keeps ext (group_lookup_attempt req).
Proof.
  apply keepsR_lookup_attempt; [apply preorder_ext|apply ext_get_conn_any| |]; intros h.
  - apply tracks_ext, tracks_send_request.
  - apply tracks_ext, tracks_get_response.
Qed.
Lemma lookup_attempt_same_cl req : keeps same_cl (group_lookup_attempt req).
Proof.
  apply keepsR_lookup_attempt; [apply preorder_same_cl|apply frame_get_conn_any| |]; intros h s r s' H.
  - apply (frame_send_request _ _ _ _ _ H).
  - apply (frame_get_response _ _ _ _ _ _ H).
Qed.
Lemma lookup_attempt_quiet req fr : short fr req -> keeps (quiet fr) (group_lookup_attempt req).
Proof.
  intros Hs. apply keepsR_lookup_attempt; [apply preorder_quiet|apply get_conn_any_quiet| |]; intros h.
  - apply send_request_quiet. exact Hs.
  - apply get_response_quiet.
Qed.
Lemma lookup_attempt_att p : keeps (att_le (frame p) 1) (group_lookup_attempt (Ok p)).
Proof.
  unfold group_lookup_attempt. change 1 with (0 + 1).
  apply keeps_bind_att; [lia|apply get_conn_any_quiet|]. intros [h|].
  - change 1 with (1 + 0). apply keeps_bind_att; [lia|apply send_request_att|]. intros _. apply get_response_quiet.
  - intros s r s' H. inversion H; subst. apply att_le_refl. lia.
Qed.

Lemma get_response_nofuel {A} (d : dec A) h : nf d -> nofuel (get_response d h).
Proof.
  intros Hd s r s' H Hr. destruct (get_response_inv _ _ _ _ _ H) as [[b [Hb Hq]]|[e [Hb Hq]]]; subst r.
  - destruct (d b) as [[a rest]|e|w] eqn:E; try discriminate. inversion Hq; subst. exact (Hd _ E).
  - inversion Hq; subst. exact (nofuel_get_response_bytes _ _ _ _ Hb eq_refl).
Qed.
Lemma nofuel_lift {A} (x : res A) : x <> Err EOutOfFuel -> nofuel (lift x).
Proof. intros Hx s r s' H. inversion H; subst. exact Hx. Qed.
Lemma nofuel_mpanic {A} w : nofuel (@mpanic A w).
Proof. intros s r s' H. inversion H; subst. discriminate. Qed.
Lemma send_request_nofuel h req : req <> Err EOutOfFuel -> nofuel (send_request h req).
Proof. intros Hq. apply nofuel_bind; [apply nofuel_lift; exact Hq|intros p; apply nofuel_send]. Qed.
Lemma send_receive_nofuel {A} (d : dec A) h req : nf d -> req <> Err EOutOfFuel -> nofuel (send_receive d h req).
Proof.
  intros Hd Hq. apply nofuel_bind; [apply nofuel_get_conn|]. intros _.
  apply nofuel_bind; [apply send_request_nofuel; exact Hq|]. intros _. apply get_response_nofuel. exact Hd.
Qed.
Lemma lookup_attempt_nofuel req : req <> Err EOutOfFuel -> nofuel (group_lookup_attempt req).
Proof.
  intros Hq. apply nofuel_bind; [apply nofuel_get_conn_any|]. intros [h|]; [|apply nofuel_mpanic].
  apply nofuel_bind; [apply send_request_nofuel; exact Hq|]. intros _.
  apply get_response_nofuel, dec_coordinator_resp_nf.
Qed.

Lemma send_request_ok_inv h req s z s' : send_request h req s = (Ok z, s') ->
  exists p, req = Ok p /\ (length (script s') < length (script s))%nat.
Proof.
  intros H. unfold send_request in H. unfold mbind at 1 in H. unfold lift in H.
  destruct req as [p|e|w]; try discriminate. exists p. split; [reflexivity|].
  unfold send in H. bind_inv H u s1 H1 H2; try discriminate. inversion H2; subst. destruct u.
  unfold with_fuel in H1. exact (write_all_ok_shrinks _ _ _ _ _ H1 (frame_nonempty p)).
Qed.

(* a decoded answer means the attempt consumed at least one script item *)
Lemma lookup_attempt_ok_shrinks req s resp s1 :
  group_lookup_attempt req s = (Ok resp, s1) -> (length (script s1) < length (script s))%nat.
Proof.
  intros H. unfold group_lookup_attempt in H. bind_inv H oh s0 H1 H2; try discriminate.
  destruct oh as [h|]; [|discriminate]. bind_inv H2 z s2 H3 H4; try discriminate.
  destruct (send_request_ok_inv _ _ _ _ _ H3) as [p [_ Hl]].
  pose proof (ext_script_le _ _ (ext_get_conn_any _ _ _ H1)).
  pose proof (ext_script_le _ _ (tracks_ext _ (tracks_get_response _ h) _ _ _ H4)). lia.
Qed.

(* ---- the loop: one iteration spelled out --------------------------------------------------- *)
Lemma lookup_loop_step f group req attempt s :
  group_lookup_loop (S f) group req attempt s =
  match group_lookup_attempt req s with
  | (Ok resp, s1) =>
      match from_protocol (gc_error resp) with
      | None => (Ok (fst (set_group_coordinator (cs (cl s1)) group resp)),
                 with_cs s1 (snd (set_group_coordinator (cs (cl s1)) group resp)))
      | Some code =>
          if code =? KC_GroupCoordinatorNotAvailable then
            if attempt <? retry_max_attempts (cfg (cl s1)) then group_lookup_loop f group req (attempt + 1) s1
            else (Err (EKafka code), s1)
          else (Err (EKafka code), s1)
      end
  | (Err e, s1) => (Err e, s1)
  | (Panic w, s1) => (Panic w, s1)
  end.
Proof.
  cbn [group_lookup_loop]. unfold mbind at 1.
  destruct (group_lookup_attempt req s) as [[resp|e|w] s1]; try reflexivity.
  destruct (from_protocol (gc_error resp)) as [code|].
  - destruct (code =? KC_GroupCoordinatorNotAvailable); [|reflexivity].
    unfold mbind at 1. unfold get_client at 1. destruct (attempt <? retry_max_attempts (cfg (cl s1))); reflexivity.
  - unfold mbind at 1. unfold get_client at 1.
    destruct (set_group_coordinator (cs (cl s1)) group resp) as [h cs'] eqn:E. cbn [fst snd].
    unfold mbind. rewrite set_cs_eq. reflexivity.
Qed.

Lemma lookup_loop_cfg fuel group req : forall attempt, keeps (fun s s' => ext s s' /\ same_cfgc s s') (group_lookup_loop fuel group req attempt).
Proof.
  induction fuel as [|f IH]; intros attempt s r s' H.
  - inversion H; subst. split; [apply ext_refl|reflexivity].
  - rewrite lookup_loop_step in H.
    destruct (group_lookup_attempt req s) as [[resp|e|w] s1] eqn:E.
    + pose proof (lookup_attempt_ext _ _ _ _ E) as E1. pose proof (lookup_attempt_same_cl _ _ _ _ E) as C1.
      unfold same_cl in C1. unfold same_cfgc.
      destruct (from_protocol (gc_error resp)) as [code|].
      * destruct (code =? KC_GroupCoordinatorNotAvailable);
          [destruct (attempt <? retry_max_attempts (cfg (cl s1)))|]; try (inversion H; subst; split; [exact E1|congruence]).
        destruct (IH _ _ _ _ H) as [E2 C2]. unfold same_cfgc in C2.
        split; [eapply ext_trans; eassumption|congruence].
      * inversion H; subst. split; [eapply ext_trans; [exact E1|apply with_cs_ext]|]. rewrite with_cs_cfg. congruence.
    + inversion H; subst. split; [eapply lookup_attempt_ext; exact E|].
      pose proof (lookup_attempt_same_cl _ _ _ _ E) as C1. unfold same_cl in C1. unfold same_cfgc. congruence.
    + inversion H; subst. split; [eapply lookup_attempt_ext; exact E|].
      pose proof (lookup_attempt_same_cl _ _ _ _ E) as C1. unfold same_cl in C1. unfold same_cfgc. congruence.
Qed.

Lemma lookup_loop_quiet fuel group req fr : short fr req ->
  forall attempt, keeps (quiet fr) (group_lookup_loop fuel group req attempt).
Proof.
  intros Hs. induction fuel as [|f IH]; intros attempt s r s' H.
  - inversion H; subst. apply preorder_quiet.
  - rewrite lookup_loop_step in H.
    destruct (group_lookup_attempt req s) as [[resp|e|w] s1] eqn:E;
      pose proof (lookup_attempt_quiet _ fr Hs _ _ _ E) as Q1.
    + destruct (from_protocol (gc_error resp)) as [code|].
      * destruct (code =? KC_GroupCoordinatorNotAvailable);
          [destruct (attempt <? retry_max_attempts (cfg (cl s1)))|]; try (inversion H; subst; exact Q1).
        eapply (proj2 (preorder_quiet fr)); [exact Q1|eapply IH; exact H].
      * inversion H; subst. eapply (proj2 (preorder_quiet fr)); [exact Q1|apply with_cs_quiet].
    + inversion H; subst. exact Q1.
    + inversion H; subst. exact Q1.
Qed.

(* ---- C14 for the lookup ------------------------------------------------------------------------- *)

(* The bound.  The count requested in the task (events EWrite _ (frame p)) also counts the
   re-offers write_all makes after an interrupted write (OWriteIntr), so the bound holds up to
   the number of interruptions consumed; see C14_lookup_bound_refuted and C14_lookup_bound. *)
Theorem C14_lookup_bound_partial : forall fuel group p attempt s r s',
  group_lookup_loop fuel group (Ok p) attempt s = (r, s') ->
  attempts (frame p) s s' <= Z.max 1 (retry_max_attempts (cfg (cl s)) - attempt + 1) + interruptions s s'.
Proof.
  intros fuel group p. 
  assert (K : forall fuel attempt s r s', group_lookup_loop fuel group (Ok p) attempt s = (r, s') ->
              att_le (frame p) (Z.max 1 (retry_max_attempts (cfg (cl s)) - attempt + 1)) s s').
  { clear fuel. induction fuel as [|f IH]; intros attempt s r s' H.
    - inversion H; subst. apply att_le_refl. lia.
    - rewrite lookup_loop_step in H.
      destruct (group_lookup_attempt (Ok p) s) as [[resp|e|w] s1] eqn:E;
        pose proof (lookup_attempt_att p _ _ _ E) as Q1;
        pose proof (lookup_attempt_same_cl _ _ _ _ E) as C1; unfold same_cl in C1.
      + destruct (from_protocol (gc_error resp)) as [code|].
        * destruct (code =? KC_GroupCoordinatorNotAvailable);
            [destruct (attempt <? retry_max_attempts (cfg (cl s1))) eqn:Ea|];
            try (inversion H; subst; eapply att_le_mono; [|exact Q1]; lia).
          specialize (IH _ _ _ _ H). rewrite C1 in IH, Ea.
          eapply att_le_mono; [|eapply att_le_trans; [exact Q1|exact IH]]. lia.
        * inversion H; subst. eapply att_le_mono; [|eapply att_le_trans; [exact Q1|apply with_cs_quiet]]. lia.
      + inversion H; subst. eapply att_le_mono; [|exact Q1]. lia.
      + inversion H; subst. eapply att_le_mono; [|exact Q1]. lia. }
  intros attempt s r s' H. exact (proj2 (K _ _ _ _ _ H)).
Qed.

Lemma count_intr_zero outs : ~ In OWriteIntr outs -> count_intr outs = 0.
Proof.
  induction outs as [|o outs IH]; intros Hn; [reflexivity|]. rewrite count_intr_cons, IH.
  - destruct o; cbn [is_intr]; try reflexivity. exfalso. apply Hn. left. reflexivity.
  - intros Hi. apply Hn. right. exact Hi.
Qed.

(* as stated in the task, for streams without interrupted writes (1 <= attempt is not needed) *)
Theorem C14_lookup_bound : forall fuel group p attempt s r s',
  group_lookup_loop fuel group (Ok p) attempt s = (r, s') -> 1 <= attempt ->
  ~ In OWriteIntr (consumed s s') ->
  attempts (frame p) s s' <= Z.max 1 (retry_max_attempts (cfg (cl s)) - attempt + 1).
Proof.
  intros fuel group p attempt s r s' H _ Hn. pose proof (C14_lookup_bound_partial _ _ _ _ _ _ _ H) as B.
  unfold interruptions in B. rewrite (count_intr_zero _ Hn) in B. lia.
Qed.

(* never out of fuel: every iteration that goes on consumed at least one script item *)
Lemma lookup_loop_nofuel fuel group req : req <> Err EOutOfFuel -> forall attempt s r s',
  group_lookup_loop fuel group req attempt s = (r, s') -> (length (script s) < fuel)%nat -> r <> Err EOutOfFuel.
Proof.
  intros Hq. induction fuel as [|f IH]; intros attempt s r s' H Hl; [lia|].
  rewrite lookup_loop_step in H. destruct (group_lookup_attempt req s) as [[resp|e|w] s1] eqn:E.
  - pose proof (lookup_attempt_ok_shrinks _ _ _ _ E) as Hs.
    destruct (from_protocol (gc_error resp)) as [code|]; [|inversion H; subst; discriminate].
    destruct (code =? KC_GroupCoordinatorNotAvailable);
      [destruct (attempt <? retry_max_attempts (cfg (cl s1)))|]; try (inversion H; subst; discriminate).
    eapply IH; [exact H|lia].
  - inversion H; subst. intros Hr. inversion Hr; subst. exact (lookup_attempt_nofuel _ Hq _ _ _ E eq_refl).
  - inversion H; subst. discriminate.
Qed.

(* ---- result ---------------------------------------------------------------------------------------- *)
(* n attempts in a row were answered "coordinator not available" and were retried *)
Inductive lookup_retried (req : res bytes) : nat -> Z -> st -> st -> Prop :=
| LR_O attempt s : lookup_retried req O attempt s s
| LR_S n attempt s resp s1 sk :
    group_lookup_attempt req s = (Ok resp, s1) ->
    from_protocol (gc_error resp) = Some KC_GroupCoordinatorNotAvailable ->
    attempt < retry_max_attempts (cfg (cl s1)) ->
    lookup_retried req n (attempt + 1) s1 sk ->
    lookup_retried req (S n) attempt s sk.

(* how the attempt that ends the loop determines the result *)
Definition lookup_final (group : bytes) (req : res bytes) (last_attempt : Z) (sk : st) (r : res bytes) (s' : st) : Prop :=
  match group_lookup_attempt req sk with
  | (Ok resp, s1) =>
      match from_protocol (gc_error resp) with
      | None => gc_error resp = 0 /\
                r = Ok (fst (set_group_coordinator (cs (cl s1)) group resp)) /\
                s' = with_cs s1 (snd (set_group_coordinator (cs (cl s1)) group resp))
      | Some c => r = Err (EKafka c) /\ s' = s1 /\
                  (c = KC_GroupCoordinatorNotAvailable -> retry_max_attempts (cfg (cl s1)) <= last_attempt)
      end
  | (Err e, s1) => r = Err e /\ s' = s1
  | (Panic w, s1) => r = Panic w /\ s' = s1
  end.

Lemma from_protocol_none n : from_protocol n = None -> n = 0.
Proof.
  unfold from_protocol. destruct (n =? 0) eqn:E; [lia|]. destruct (_ && _); discriminate.
Qed.

Theorem C14_lookup_result : forall fuel group req attempt s r s',
  group_lookup_loop fuel group req attempt s = (r, s') -> (length (script s) < fuel)%nat ->
  exists n sk, lookup_retried req n attempt s sk /\ lookup_final group req (attempt + Z.of_nat n) sk r s'.
Proof.
  induction fuel as [|f IH]; intros group req attempt s r s' H Hl; [lia|].
  rewrite lookup_loop_step in H. destruct (group_lookup_attempt req s) as [[resp|e|w] s1] eqn:E.
  - destruct (from_protocol (gc_error resp)) as [code|] eqn:Ep.
    + destruct (code =? KC_GroupCoordinatorNotAvailable) eqn:Ec.
      * assert (code = KC_GroupCoordinatorNotAvailable) as -> by lia.
        destruct (attempt <? retry_max_attempts (cfg (cl s1))) eqn:Ea.
        -- pose proof (lookup_attempt_ok_shrinks _ _ _ _ E) as Hs.
           destruct (IH _ _ _ _ _ _ H ltac:(lia)) as (n & sk & Hr & Hf).
           exists (S n), sk. split; [eapply LR_S; [exact E|exact Ep|lia|exact Hr]|].
           replace (attempt + Z.of_nat (S n)) with (attempt + 1 + Z.of_nat n) by lia. exact Hf.
        -- inversion H; subst. exists O, s. split; [constructor|]. unfold lookup_final. rewrite E, Ep.
           repeat split. intros _. cbn. lia.
      * inversion H; subst. exists O, s. split; [constructor|]. unfold lookup_final. rewrite E, Ep.
        repeat split. intros ->. lia.
    + inversion H; subst. exists O, s. split; [constructor|]. unfold lookup_final. rewrite E, Ep.
      repeat split. apply from_protocol_none. exact Ep.
  - inversion H; subst. exists O, s. split; [constructor|]. unfold lookup_final. rewrite E. split; reflexivity.
  - inversion H; subst. exists O, s. split; [constructor|]. unfold lookup_final. rewrite E. split; reflexivity.
Qed.

(* attempt increases by exactly one per retry, the limit is the same all along *)
Lemma lookup_retried_cfg req n attempt s sk : lookup_retried req n attempt s sk -> cfg (cl sk) = cfg (cl s).
Proof.
  induction 1 as [|n attempt s resp s1 sk E Ep Ea Hr IH]; [reflexivity|].
  pose proof (lookup_attempt_same_cl _ _ _ _ E) as C1. unfold same_cl in C1. congruence.
Qed.

(* the readable consequences *)
Corollary C14_lookup_ok_iff : forall fuel group req attempt s r s',
  group_lookup_loop fuel group req attempt s = (r, s') -> (length (script s) < fuel)%nat ->
  ((exists host, r = Ok host) <->
   exists n sk resp s1, lookup_retried req n attempt s sk /\
     group_lookup_attempt req sk = (Ok resp, s1) /\ gc_error resp = 0).
Proof.
  intros fuel group req attempt s r s' H Hl.
  destruct (C14_lookup_result _ _ _ _ _ _ _ H Hl) as (n & sk & Hr & Hf). split.
  - intros [host ->]. unfold lookup_final in Hf.
    destruct (group_lookup_attempt req sk) as [[resp|e|w] s1] eqn:E.
    + destruct (from_protocol (gc_error resp)) as [c|] eqn:Ep.
      * destruct Hf as [Hx _]. discriminate.
      * exists n, sk, resp, s1. split; [exact Hr|]. split; [exact E|apply Hf].
    + destruct Hf as [Hx _]. discriminate.
    + destruct Hf as [Hx _]. discriminate.
  - intros (n' & sk' & resp & s1 & Hr' & E & H0).
    (* the run is deterministic: the two descriptions coincide *)
    assert (Hdet : forall n1 a s0 k1, lookup_retried req n1 a s0 k1 ->
              forall n2 k2 resp2 s2, lookup_retried req n2 a s0 k2 ->
                group_lookup_attempt req k2 = (Ok resp2, s2) -> gc_error resp2 = 0 ->
                (n1 <= n2)%nat).
    { clear. induction 1 as [|n1 a s0 resp s1 k1 E Ep Ea Hr IH]; intros n2 k2 resp2 s2 H2 E2 H0; [lia|].
      inversion H2 as [|n0 a0 s0' resp' s1' sk' E' Ep' Ea' Hr']; subst.
      - rewrite E in E2. inversion E2; subst. rewrite H0 in Ep. discriminate.
      - rewrite E in E'. inversion E'; subst. specialize (IH _ _ _ _ Hr' E2 H0). lia. }
    assert (Hdet2 : forall n1 a s0 k1, lookup_retried req n1 a s0 k1 ->
              forall k2, lookup_retried req n1 a s0 k2 -> k1 = k2).
    { clear. induction 1 as [|n1 a s0 resp s1 k1 E Ep Ea Hr IH]; intros k2 H2;
        inversion H2 as [|n0 a0 s0' resp' s1' sk' E' Ep' Ea' Hr']; subst; [reflexivity|].
      rewrite E in E'. inversion E'; subst. apply IH. assumption. }
    assert (Hpre : forall n1 a s0 k1, lookup_retried req n1 a s0 k1 -> forall n2 k2, lookup_retried req n2 a s0 k2 ->
              (n1 < n2)%nat -> exists resp1 s1, group_lookup_attempt req k1 = (Ok resp1, s1) /\
                                 from_protocol (gc_error resp1) = Some KC_GroupCoordinatorNotAvailable /\
                                 a + Z.of_nat n1 < retry_max_attempts (cfg (cl s1))).
    { clear. induction 1 as [|n1 a s0 resp s1 k1 E Ep Ea Hr IH]; intros n2 k2 H2 Hlt.
      - inversion H2 as [|n0 a0 s0' resp' s1' sk' E' Ep' Ea' Hr']; subst; [lia|].
        exists resp', s1'. split; [assumption|]. split; [assumption|]. lia.
      - inversion H2 as [|n0 a0 s0' resp' s1' sk' E' Ep' Ea' Hr']; subst; [lia|].
        rewrite E in E'. inversion E'; subst.
        destruct (IH _ _ Hr' ltac:(lia)) as (resp1 & s2 & A1 & A2 & A3). exists resp1, s2.
        split; [exact A1|]. split; [exact A2|]. lia. }
    pose proof (Hdet _ _ _ _ Hr _ _ _ _ Hr' E H0) as Hle.
    destruct (Nat.eq_dec n n') as [->|Hne].
    + rewrite (Hdet2 _ _ _ _ Hr _ Hr') in Hf. unfold lookup_final in Hf. rewrite E, H0 in Hf.
      cbn [from_protocol Z.eqb] in Hf. destruct Hf as (_ & -> & _). eexists. reflexivity.
    + exfalso. destruct (Hpre _ _ _ _ Hr _ _ Hr' ltac:(lia)) as (resp1 & s2 & A1 & A2 & A3).
      unfold lookup_final in Hf. rewrite A1, A2 in Hf. destruct Hf as (_ & _ & Hf). specialize (Hf eq_refl). lia.
Qed.

(* ================================================================================== *)
(* 4. get_group_coordinator                                                           *)
(* ================================================================================== *)

Lemma ggc_unfold group s :
  get_group_coordinator group s =
  match group_coordinator (cs (cl s)) group with
  | Some h => (Ok h, s)
  | None =>
      group_lookup_loop (S (length (script s))) group
        (enc_group_coordinator_req (fst (next_correlation_id (cs (cl s)))) (client_id (cfg (cl s))) group) 1
        (with_cs s (snd (next_correlation_id (cs (cl s)))))
  end.
Proof.
  unfold get_group_coordinator. unfold mbind at 1. unfold get_client at 1.
  destruct (group_coordinator (cs (cl s)) group); reflexivity.
Qed.

Lemma ggc_cfg group : keeps (fun s s' => ext s s' /\ same_cfgc s s') (get_group_coordinator group).
Proof.
  intros s r s' H. rewrite ggc_unfold in H. destruct (group_coordinator (cs (cl s)) group).
  - inversion H; subst. split; [apply ext_refl|reflexivity].
  - destruct (lookup_loop_cfg _ _ _ _ _ _ _ H) as [E C]. split; [eapply ext_trans; [apply with_cs_ext|exact E]|].
    unfold same_cfgc in *. rewrite C. apply with_cs_cfg.
Qed.

Lemma be_enc_ulen n z : ulen (be_enc n z) = Z.of_nat n.
Proof. unfold ulen. rewrite be_enc_length. reflexivity. Qed.

Lemma enc_gc_req_len corr cid group q :
  enc_group_coordinator_req corr cid group = Ok q -> ulen q = 12 + ulen cid + ulen group.
Proof.
  unfold enc_group_coordinator_req, enc_header, enc_str. intros H.
  destruct (ulen cid <=? i16_max); cbn [bind] in H; [|discriminate].
  destruct (ulen group <=? i16_max); cbn [bind] in H; [|discriminate].
  inversion H; subst. unfold ulen. cbn [length]. rewrite app_length. cbn [length]. lia.
Qed.
Lemma enc_gc_req_nofuel corr cid group : enc_group_coordinator_req corr cid group <> Err EOutOfFuel.
Proof.
  unfold enc_group_coordinator_req, enc_header, enc_str.
  destruct (ulen cid <=? i16_max); cbn [bind]; [|discriminate].
  destruct (ulen group <=? i16_max); cbn [bind]; discriminate.
Qed.

(* the frame of interest is longer than any coordinator request of this client for this group *)
Definition gc_short (fr cid group : bytes) : Prop := ulen cid + ulen group + 16 < ulen fr.

Lemma frame_ulen p : ulen (frame p) = 4 + ulen p.
Proof. unfold frame, ulen. rewrite app_length. unfold enc_i32. rewrite be_enc_length. lia. Qed.

Lemma gc_short_short fr cid group corr : gc_short fr cid group -> short fr (enc_group_coordinator_req corr cid group).
Proof.
  intros Hs q Hq. apply enc_gc_req_len in Hq. pose proof (frame_ulen q). unfold gc_short, ulen in *. lia.
Qed.

Lemma ggc_quiet group fr s r s' :
  get_group_coordinator group s = (r, s') -> gc_short fr (client_id (cfg (cl s))) group -> quiet fr s s'.
Proof.
  intros H Hs. rewrite ggc_unfold in H. destruct (group_coordinator (cs (cl s)) group).
  - inversion H; subst. apply preorder_quiet.
  - eapply (proj2 (preorder_quiet fr)); [apply with_cs_quiet|].
    eapply lookup_loop_quiet; [|exact H]. apply gc_short_short. exact Hs.
Qed.

Lemma ggc_nofuel group : nofuel (get_group_coordinator group).
Proof.
  intros s r s' H. rewrite ggc_unfold in H. destruct (group_coordinator (cs (cl s)) group).
  - inversion H; subst. discriminate.
  - eapply lookup_loop_nofuel; [apply enc_gc_req_nofuel|exact H|]. cbn. lia.
Qed.

(* ================================================================================== *)
(* 5. commit and group offset fetch: one generic retry loop                           *)
(* ================================================================================== *)

Definition exchange_attempt {A} (d : dec A) (group : bytes) (req : res bytes) : M A :=
  let+ h := get_group_coordinator group in send_receive d h req.

Inductive verdict (B : Type) := VDone (b : B) | VFatal (c : Z) | VRetry (code : Z) (reset : bool).
Arguments VDone {B} b. Arguments VFatal {B} c. Arguments VRetry {B} code reset.

Definition after_retry (group : bytes) (reset : bool) (s : st) : st :=
  if reset then with_cs s (remove_group_coordinator (cs (cl s)) group) else s.

Fixpoint retry_loop {A B} (d : dec A) (judge : A -> verdict B) (fuel : nat) (group : bytes) (req : res bytes)
         (attempt : Z) : M B :=
  match fuel with
  | O => fail EOutOfFuel
  | S f => fun s =>
      match exchange_attempt d group req s with
      | (Ok a, s2) =>
          match judge a with
          | VDone b => (Ok b, s2)
          | VFatal c => (Err (EKafka c), s2)
          | VRetry code reset =>
              if attempt <? retry_max_attempts (cfg (cl s2))
              then retry_loop d judge f group req (attempt + 1) (after_retry group reset s2)
              else (Err (EKafka code), after_retry group reset s2)
          end
      | (Err e, s2) => (Err e, s2)
      | (Panic w, s2) => (Panic w, s2)
      end
  end.

Definition commit_judge (a : Z * list (bytes * list (Z * Z))) : verdict unit :=
  match commit_scan (snd a) with
  | ScanOk => VDone tt
  | ScanRetry code reset => VRetry code reset
  | ScanFatal c => VFatal c
  end.
Definition fetch_judge (a : Z * list (bytes * list offset_fetch_part)) : verdict (list (bytes * list (Z * Z))) :=
  match group_scan (snd a) [] with
  | inl (inl m) => VDone m
  | inl (inr (code, reset)) => VRetry code reset
  | inr c => VFatal c
  end.

