(* C13, additional theorems (after the repair of F28: fetch.rs MAX_COMPRESSION_DEPTH).

   The decoder's nesting bound is now the code's own: `from_slice cz 0 ... = Err EUnsupportedCompression`, so decoding
   never ends in the model-only `Err EOutOfFuel` (C13Decode.from_slice_never_out_of_fuel, C13_fetch_response_depth).
   This file lifts that fact to the public calls and removes the old escape hatch from the statements:

   Part A  the decoders, restated without the escape hatch: Ok, a real error, the allocation request, the
           debug assertion - nothing else (C13_message_set_outcomes_exact, C13_fetch_response_outcomes_exact).
   Part B  `fetch_messages`, `consumer_fetch`, `consumer_poll` never return `Err EOutOfFuel` - for EVERY script,
           state and input.  No hypothesis about the model-only fuel of other loops is needed: the loops below these
           calls (write_all, read_exact, read_chunks: NetFacts; zread_many: C13Decode; ms_loop: C13Decode) are
           started with enough fuel by the model and that is discharged by the existing lemmas.
   Part C  the complete outcome classification of `fetch_messages` over all scripts (C13_fetch_messages_outcomes),
           and of `consumer_poll` (C13_consumer_poll_outcomes).
   Part D  the recursion is bounded: an instrumented decoder `from_slice_counted` (same result as `from_slice`,
           proved) counts decompressor calls and `from_slice` activations; at most `depth` decompressions and
           `depth + 1` activations, for the client `MAX_COMPRESSION_DEPTH = 8` and 9; the bound is attained. *)
From KV Require Import Base.Prelude Base.Snappy Gen.Consts Model.Codecs Model.Requests Model.Responses
                       Model.ClientState Model.Net Model.Client Model.Producer Model.Consumer.
From KV Require Import Proofs.BytesFacts Proofs.NetFacts Proofs.C14Facts Proofs.C04Extra.
From KV Require Import Proofs.C13Decode Proofs.C13Facts Proofs.C13Extra Proofs.C13ExtraC.
From Coq Require Import ZifyBool.

(* ====================================================================== *)
(* Part A: the decoders without the escape hatch                           *)
(* ====================================================================== *)
(* the four outcomes a fetch decoder can have *)
Definition four {A} (dbg : bool) (r : res A) : Prop :=
  (exists a, r = Ok a)
  \/ (exists e, r = Err e /\ e <> EOutOfFuel)
  \/ r = alloc_panic
  \/ (dbg = true /\ r = Panic dbg_tag).

Lemma alloc_dbg_distinct : alloc_tag <> dbg_tag.
Proof. vm_compute. discriminate. Qed.

Lemma four_of_outcomes {A} dbg (r : res A) :
  tri r \/ (dbg = true /\ r = Panic dbg_tag) -> r <> Err EOutOfFuel -> four dbg r.
Proof.
  intros [[H|[H|H]]|H] Hn.
  - destruct r as [a|e|w]; cbn [no_panic] in H; [left; eexists; reflexivity| |contradiction].
    right. left. exists e. split; [reflexivity|]. intros ->. exact H.
  - right. right. left. exact H.
  - contradiction.
  - right. right. right. exact H.
Qed.

Theorem C13_message_set_outcomes_exact : forall cz depth validate req bs,
  four (debug_build cz) (from_slice cz depth validate req bs).
Proof.
  intros. apply four_of_outcomes; [apply C13_message_set_outcomes|apply from_slice_never_out_of_fuel].
Qed.

Theorem C13_fetch_response_outcomes_exact : forall cz depth validate reqs bs,
  four (debug_build cz) (fetch_from_vec cz depth validate reqs bs).
Proof.
  intros. apply four_of_outcomes; [apply C13_fetch_response_outcomes|apply C13_fetch_response_depth].
Qed.

(* n identity-"gzip" wrappers around a set *)
Fixpoint wrapn (n : nat) (set : bytes) : bytes :=
  match n with O => set | S k => ex_entry 0 COMPRESSION_GZIP (wrapn k set) [] end.

(* all four outcomes occur; 7 wrappers are decoded by the client's depth, 8 (and 1000) are refused with an error *)
Example ex_four_outcomes :
  from_slice (ex_cz false) decode_depth false 0 (wrapn 7 ex_plain_set)
    = Ok [{| m_offset := 7; m_key := []; m_value := tag "v" |}]
  /\ from_slice (ex_cz false) decode_depth false 0 (wrapn 8 ex_plain_set) = Err EUnsupportedCompression
  /\ from_slice (ex_cz false) decode_depth false 0 (wrapn 1000 ex_plain_set) = Err EUnsupportedCompression
  /\ from_slice (ex_cz false) decode_depth false 0 (wrapn 7 ex_alloc_set) = alloc_panic
  /\ from_slice (ex_cz true) decode_depth false 0 (wrapn 7 ex_trailing_set) = Panic dbg_tag
  /\ fetch_from_vec (ex_cz false) decode_depth false [] (ex_fetch (wrapn 8 ex_plain_set)) = Err EUnsupportedCompression.
Proof. vm_compute. repeat split; reflexivity. Qed.

(* ====================================================================== *)
(* Part B: the public fetch calls never return the model-only error        *)
(* ====================================================================== *)
Lemma nfr_enc_fetch_req corr cid w m tps : enc_fetch_req corr cid w m tps <> Err EOutOfFuel.
Proof.
  unfold enc_fetch_req, enc_array_unchecked. apply nfr_bind; [apply enc_header_nofuel|]. intros h.
  apply nfr_bind; [|intros b; discriminate].
  apply nfr_bind; [|intros b; discriminate]. apply enc_all_nofuel. intros [t ps].
  apply nfr_bind; [apply enc_str_nofuel|]. intros n.
  apply nfr_bind; [|intros b; discriminate].
  apply nfr_bind; [|intros b; discriminate]. apply enc_all_nofuel. intros [p [off maxb]]. discriminate.
Qed.

Lemma nofuel_get_fetch_order h : nofuel (get_fetch_order h).
Proof. intros s r s' H. inversion H; subst. discriminate. Qed.

Lemma nofuel_fetch_exchange corr : forall reqs acc, nofuel (fetch_exchange corr reqs acc).
Proof.
  induction reqs as [|[h tps] r IH]; intros acc; cbn [fetch_exchange]; [apply nofuel_ret|].
  apply nofuel_bind; [apply nofuel_get_client|]. intros c.
  apply nofuel_bind; [apply nofuel_get_env|]. intros e.
  apply nofuel_bind; [apply nofuel_get_fetch_order|]. intros fo. cbv zeta.
  apply nofuel_bind; [apply nofuel_get_conn|]. intros _.
  apply nofuel_bind; [apply send_request_nofuel, nfr_enc_fetch_req|]. intros _.
  apply nofuel_bind; [apply nofuel_get_response_bytes|]. intros b.
  apply nofuel_bind; [apply nofuel_lift, C13_fetch_response_depth|]. intros resp. apply IH.
Qed.

Lemma nofuel_fetch_messages input : nofuel (fetch_messages input).
Proof.
  unfold fetch_messages. apply nofuel_bind; [apply nofuel_next_corr|]. intros corr.
  apply nofuel_bind; [apply nofuel_get_client|]. intros c.
  apply nofuel_bind; [apply nofuel_ordered|]. intros reqs. apply nofuel_fetch_exchange.
Qed.

(* KafkaClient::fetch_messages: whatever the brokers send, however the connections behave, whatever the input *)
Theorem C13_fetch_messages_never_out_of_fuel : forall input s,
  fst (fetch_messages input s) <> Err EOutOfFuel.
Proof.
  intros input s. destruct (fetch_messages input s) as [r s'] eqn:E. cbn [fst].
  exact (nofuel_fetch_messages input s r s' E).
Qed.

(* `mtry m` then a pure packaging of the outcome: the call itself never fails, and what it packages is an
   outcome of m *)
Lemma mtry_ret_nofuel {A B} (m : M A) (g : res A -> B) s :
  nofuel m ->
  fst (mbind (mtry m) (fun r => ret (g r)) s) <> Err EOutOfFuel
  /\ forall b, fst (mbind (mtry m) (fun r => ret (g r)) s) = Ok b ->
       exists r, b = g r /\ r <> Err EOutOfFuel /\ r = fst (m s).
Proof.
  intros Hm. unfold mbind, mtry, ret. destruct (m s) as [r s'] eqn:E. pose proof (Hm s r s' E) as Hr.
  destruct r as [a|e|w]; cbn [fst]; (split; [discriminate|]); intros b Hb; try discriminate;
    inversion Hb; subst; eexists; (split; [reflexivity|split; [exact Hr|reflexivity]]).
Qed.

(* Consumer's own fetch: never fails in the monad with the model-only error, and the Result it hands to
   `poll` is never that error either *)
Theorem C13_consumer_fetch_never_out_of_fuel : forall k s,
  fst (consumer_fetch k s) <> Err EOutOfFuel
  /\ forall n r k', fst (consumer_fetch k s) = Ok (n, r, k') -> r <> Err EOutOfFuel.
Proof.
  intros k s. unfold consumer_fetch. destruct (k_retry k) as [|tp rest].
  - match goal with |- context [mtry (fetch_messages ?i)] =>
      destruct (mtry_ret_nofuel (fetch_messages i) (fun r => (ulen (k_fetch k), r, k)) s (nofuel_fetch_messages i))
        as [H1 H2] end.
    split; [exact H1|]. intros n r k' H. destruct (H2 _ H) as [r0 [Hb [Hr _]]]. inversion Hb; subst. exact Hr.
  - destruct (tk_get tp (k_fetch k)) as [[off maxb]|].
    + match goal with |- context [mtry (fetch_messages ?i)] =>
        destruct (mtry_ret_nofuel (fetch_messages i)
                    (fun r => (1, r, consumer_with k (k_fetch k) rest (k_consumed k))) s (nofuel_fetch_messages i))
          as [H1 H2] end.
      split; [exact H1|]. intros n r k' H. destruct (H2 _ H) as [r0 [Hb [Hr _]]]. inversion Hb; subst. exact Hr.
    + unfold ret. cbn [fst]. split; [discriminate|]. intros n r k' H. inversion H; subst. discriminate.
Qed.

(* Consumer::poll: neither the call (in the monad) nor the Result it returns is ever the model-only error *)
Theorem C13_consumer_poll_never_out_of_fuel : forall k s,
  fst (consumer_poll k s) <> Err EOutOfFuel
  /\ forall r k', fst (consumer_poll k s) = Ok (r, k') -> r <> Err EOutOfFuel.
Proof.
  intros k s. destruct (C13_consumer_fetch_never_out_of_fuel k s) as [F1 F2].
  assert (G : forall o s2, consumer_poll k s = (o, s2) ->
              o <> Err EOutOfFuel /\ forall r k', o = Ok (r, k') -> r <> Err EOutOfFuel).
  { intros o s2. unfold consumer_poll. unfold mbind at 1.
    destruct (consumer_fetch k s) as [[[[n r] k1]|e|w] s1]; cbn [fst] in *.
    - specialize (F2 n r k1 eq_refl). unfold mbind, get_client, get_env, ret, mpanic.
      destruct r as [resps|er|w]; intros E; inversion E; subst.
      + split; [discriminate|]. intros r' k' H. injection H as Eq.
        match type of Eq with process_fetch_responses ?d ?kk ?nn ?rr = _ =>
          pose proof (C13_poll_layer_no_fuel d kk nn rr) as P end. rewrite Eq in P. exact P.
      + split; [discriminate|]. intros r' k' H. inversion H; subst. intros X. apply F2. inversion X. reflexivity.
      + split; discriminate.
    - intros E; inversion E; subst. split; [intros X; apply F1; inversion X; reflexivity|discriminate].
    - intros E; inversion E; subst. split; discriminate. }
  destruct (consumer_poll k s) as [o s2] eqn:E. cbn [fst]. exact (G o s2 eq_refl).
Qed.

(* non-vacuity: a consumer of topic "tp"/0 at offset 0; the broker answers with 8 nested wrappers (refused: an
   error VALUE of the poll), with 7 (delivered), and with the 1 GiB snappy header (the allocation request) *)
Definition exd_k : consumer :=
  {| k_client := ex_nocrc_client; k_group := []; k_fallback := FbLatest; k_retry_limit := 0;
     k_assign := [(tag "tp", [0])]; k_fetch := [((0, 0), (0, 1000))]; k_retry := []; k_consumed := [] |}.
Definition exd_q : list fetch_partition := [{| fq_topic := tag "tp"; fq_partition := 0; fq_offset := 0; fq_max_bytes := 0 |}].
Definition exd_st (set : bytes) (dbg : bool) : st := ex_st (ex_reply (ex_fetch set)) ex_nocrc_client dbg.

Example ex_fetch_calls_depth :
  fst (fetch_messages exd_q (exd_st (wrapn 8 ex_plain_set) false)) = Err EUnsupportedCompression
  /\ is_ok (fst (fetch_messages exd_q (exd_st (wrapn 7 ex_plain_set) false))) = true
  /\ fst (fetch_messages exd_q (exd_st (wrapn 1000 ex_plain_set) false)) = Err EUnsupportedCompression
  /\ match fst (consumer_poll exd_k (exd_st (wrapn 8 ex_plain_set) false)) with
     | Ok (Err EUnsupportedCompression, _) => True | _ => False end
  /\ match fst (consumer_poll exd_k (exd_st (wrapn 7 ex_plain_set) false)) with
     | Ok (Ok ms, k') => iterate ms = [(tag "tp", 0, [{| m_offset := 7; m_key := []; m_value := tag "v" |}])]
                         /\ k_fetch k' = [((0, 0), (8, fetch_max_bytes_per_partition (cfg ex_nocrc_client)))]
     | _ => False end
  /\ fst (consumer_poll exd_k (exd_st ex_alloc_set false)) = alloc_panic.
Proof. vm_compute. repeat split; reflexivity. Qed.

(* ====================================================================== *)
(* Part C: every outcome of fetch_messages, over all scripts               *)
(* ====================================================================== *)
Lemma mnp_fetch_io corr h tps : mnp (fetch_io corr h tps).
Proof.
  unfold fetch_io. apply mnp_bind; [mnp_tac|]. intros c. apply mnp_bind; [mnp_tac|]. intros fo. cbv zeta.
  apply mnp_bind; [mnp_tac|]. intros _.
  apply mnp_bind; [apply mnp_send_request, npb_enc_fetch_req|]. intros _. mnp_tac.
Qed.

(* "during the call started in state s, a framed reply b was received from a broker (the I/O of one per-broker
   exchange succeeded with b) and decoding b - with the codecs and the configured validation flag of s, the
   client's depth, and the request it answers - panicked with w" *)
Definition reply_panics (s : st) (w : bytes) : Prop :=
  exists corr h tps s1 b s2,
    fetch_io corr h tps s1 = (Ok b, s2)
    /\ fetch_from_vec (env s) decode_depth (fetch_crc_validation (cfg (cl s))) tps b = Panic w.

Lemma fetch_exchange_panic_origin corr : forall reqs acc s w,
  fst (fetch_exchange corr reqs acc s) = Panic w -> reply_panics s w.
Proof.
  induction reqs as [|[h tps] r IH]; intros acc s w; [cbn; discriminate|].
  rewrite C04_fetch_exchange_cons.
  pose proof (mnp_fetch_io corr h tps s) as Hn.
  destruct (fetch_io corr h tps s) as [[b|e|w'] s1] eqn:Eio; cbn [fst npb] in Hn; [|cbn; discriminate|contradiction].
  destruct (fetch_from_vec (env s) decode_depth (fetch_crc_validation (cfg (cl s))) tps b) as [resp|e|w'] eqn:Ed;
    cbn [fst]; [|discriminate|].
  - intros H. destruct (IH _ _ _ H) as (corr' & h' & tps' & sa & b' & sb & Hio & Hd).
    destruct (keeps_fetch_io corr h tps s _ _ Eio) as [He Hc]. rewrite He, Hc in Hd.
    exists corr', h', tps', sa, b', sb. split; assumption.
  - intros H. inversion H; subst. exists corr, h, tps, s, b, s1. split; assumption.
Qed.

Lemma fetch_messages_panic_origin input s w :
  fst (fetch_messages input s) = Panic w -> reply_panics s w.
Proof.
  unfold fetch_messages. unfold mbind at 1.
  pose proof (mnp_next_corr s) as Hn.
  destruct (next_corr s) as [[corr|e|w'] sa] eqn:Ec; cbn [fst npb] in Hn; [|cbn; discriminate|contradiction].
  destruct (keeps_next_corr s _ _ Ec) as [E1 C1].
  unfold mbind at 1. unfold get_client at 1. cbv beta iota. unfold mbind at 1.
  pose proof (mnp_ordered (fetch_reqs (cl sa) input) sa) as Ho.
  destruct (ordered (fetch_reqs (cl sa) input) sa) as [[reqs|e|w'] sb] eqn:Eo; cbn [fst npb] in Ho;
    [|cbn; discriminate|contradiction].
  destruct (keeps_ordered _ sa _ _ Eo) as [E2 C2].
  intros H. destruct (fetch_exchange_panic_origin corr reqs [] sb w H) as (corr' & h' & tps' & s1 & b' & s2 & Hio & Hd).
  rewrite E2, E1, C2, C1 in Hd. exists corr', h', tps', s1, b', s2. split; assumption.
Qed.

(* KafkaClient::fetch_messages, every script, every state, every input.  Exactly one of:
   (1) a value;
   (2) an error the real client returns too (never the model-only out-of-fuel error);
   (3) the allocation request: a reply received from a broker decodes to it, and (only so) some message set
       reaches - through at most MAX_COMPRESSION_DEPTH wrappers - a snappy stream whose chunk header announces
       >= 1 GiB;
   (4) the debug assertion `debug_assert!(r.is_empty())`: debug builds only, again from decoding a received reply.
   Nothing else: no other panic, no overflow, no unbounded recursion (Part D), no unbounded loop. *)
Theorem C13_fetch_messages_outcomes : forall input s,
  let r := fst (fetch_messages input s) in
  (exists v, r = Ok v)
  \/ (exists e, r = Err e /\ e <> EOutOfFuel)
  \/ (r = alloc_panic /\ reply_panics s alloc_tag
      /\ exists req ms v, reaches (env s) (fetch_crc_validation (cfg (cl s))) req ms COMPRESSION_SNAPPY v
                          /\ alloc_limit <= xerial_max_alloc v)
  \/ (r = Panic dbg_tag /\ reply_panics s dbg_tag /\ debug_build (env s) = true).
Proof.
  intros input s r. subst r.
  pose proof (C13_fetch_messages_never_out_of_fuel input s) as Hf.
  pose proof (fetch_messages_panic_origin input s) as Hp.
  destruct (fst (fetch_messages input s)) as [v|e|w].
  - left. exists v. reflexivity.
  - right. left. exists e. split; [reflexivity|]. intros ->. apply Hf. reflexivity.
  - right. right. specialize (Hp w eq_refl).
    destruct Hp as (corr & h & tps & s1 & b & s2 & Hio & Hd).
    destruct (C13_fetch_response_outcomes_exact (env s) decode_depth (fetch_crc_validation (cfg (cl s))) tps b)
      as [[a Ha]|[[e [He _]]|[Ha|[Hdbg Ha]]]]; rewrite Hd in Ha || rewrite Hd in He; try discriminate.
    + left. unfold alloc_panic in Ha. injection Ha as ->.
      split; [reflexivity|]. split; [exists corr, h, tps, s1, b, s2; split; assumption|].
      apply (C13_fetch_response_alloc_only_if (env s) decode_depth _ tps b). exact Hd.
    + right. injection Ha as ->.
      split; [reflexivity|]. split; [exists corr, h, tps, s1, b, s2; split; assumption|exact Hdbg].
Qed.

(* release builds: three outcomes *)
Corollary C13_fetch_messages_outcomes_release : forall input s,
  debug_build (env s) = false ->
  let r := fst (fetch_messages input s) in
  (exists v, r = Ok v) \/ (exists e, r = Err e /\ e <> EOutOfFuel)
  \/ (r = alloc_panic /\ exists req ms v, reaches (env s) (fetch_crc_validation (cfg (cl s))) req ms COMPRESSION_SNAPPY v
                                         /\ alloc_limit <= xerial_max_alloc v).
Proof.
  intros input s Hd r. subst r.
  destruct (C13_fetch_messages_outcomes input s) as [H|[H|[[H [_ H']]|[_ [_ H]]]]]; auto. congruence.
Qed.

(* the cases are mutually exclusive (the two panic words differ) and each one occurs *)
Example ex_fetch_messages_outcomes :
  alloc_tag <> dbg_tag
  /\ is_ok (fst (fetch_messages exd_q (exd_st ex_plain_set false))) = true
  /\ fst (fetch_messages exd_q (exd_st (wrapn 8 ex_plain_set) false)) = Err EUnsupportedCompression
  /\ fst (fetch_messages exd_q (exd_st (wrapn 7 ex_alloc_set) false)) = alloc_panic
  /\ fst (fetch_messages exd_q (exd_st (wrapn 8 ex_alloc_set) false)) = Err EUnsupportedCompression
  /\ fst (fetch_messages exd_q (exd_st ex_trailing_set true)) = Panic dbg_tag
  /\ is_ok (fst (fetch_messages exd_q (exd_st ex_trailing_set false))) = true
  (* the transport cut inside the frame *)
  /\ fst (fetch_messages exd_q (ex_st [OWrote 100000; OData (enc_i32 100); OData [x00]; OData []] ex_nocrc_client false))
     = Err (EIo IoUnexpectedEof).
Proof. split; [exact alloc_dbg_distinct|]. vm_compute. repeat split; reflexivity. Qed.

(* the theorem applied to the witness of the allocation request: the snappy header is found *)
Example ex_fetch_messages_outcomes_thm :
  exists req ms v, reaches (ex_cz false) false req ms COMPRESSION_SNAPPY v /\ alloc_limit <= xerial_max_alloc v.
Proof.
  destruct (C13_fetch_messages_outcomes exd_q (exd_st (wrapn 7 ex_alloc_set) false)) as [[v H]|[[e [H _]]|[[_ [_ H]]|[H _]]]].
  - vm_compute in H. discriminate.
  - vm_compute in H. discriminate.
  - exact H.
  - vm_compute in H. discriminate.
Qed.

(* ---- Consumer::poll ------------------------------------------------------------------------------------- *)
Lemma keeps_fetch_messages input : keeps cfgenv (fetch_messages input).
Proof.
  pose proof preorder_cfgenv as P. unfold fetch_messages.
  apply keeps_bind; [exact P|apply keeps_next_corr|]. intros corr.
  apply keeps_bind; [exact P|apply keeps_get_client; exact P|]. intros c.
  apply keeps_bind; [exact P|apply keeps_ordered|]. intros reqs. apply keeps_fetch_exchange.
Qed.

Lemma keeps_consumer_fetch k : keeps cfgenv (consumer_fetch k).
Proof.
  pose proof preorder_cfgenv as P. unfold consumer_fetch. destruct (k_retry k) as [|tp rest].
  - apply keeps_bind; [exact P|apply keeps_mtry, keeps_fetch_messages|]. intros r. apply keeps_ret; exact P.
  - destruct (tk_get tp (k_fetch k)) as [[off maxb]|]; [|apply keeps_ret; exact P].
    apply keeps_bind; [exact P|apply keeps_mtry, keeps_fetch_messages|]. intros r. apply keeps_ret; exact P.
Qed.

Lemma consumer_fetch_panic k s w : fst (consumer_fetch k s) = Panic w -> reply_panics s w.
Proof.
  unfold consumer_fetch. destruct (k_retry k) as [|tp rest].
  - unfold mbind, mtry, ret. destruct (fetch_messages _ s) as [[a|e|w'] s1] eqn:E; cbn [fst]; try discriminate.
    intros H. inversion H; subst. eapply fetch_messages_panic_origin. rewrite E. reflexivity.
  - destruct (tk_get tp (k_fetch k)) as [[off maxb]|]; [|cbn; discriminate].
    unfold mbind, mtry, ret. destruct (fetch_messages _ s) as [[a|e|w'] s1] eqn:E; cbn [fst]; try discriminate.
    intros H. inversion H; subst. eapply fetch_messages_panic_origin. rewrite E. reflexivity.
Qed.

(* Consumer::poll, every script / state / consumer: the call never fails in the monad; it either
   (1) returns - a value, an error of the real client (never out-of-fuel), or one of the three characterised
       panics of the response processing (C13_poll_layer_outside_known; the overflow in debug builds only) - or
   (2)/(3) ends in one of the two escapes of the fetch decoder, as for fetch_messages *)
Theorem C13_consumer_poll_outcomes : forall k s,
  let o := fst (consumer_poll k s) in
  (exists r k', o = Ok (r, k')
     /\ ((exists ms, r = Ok ms)
         \/ (exists e, r = Err e /\ e <> EOutOfFuel)
         \/ (exists w, r = Panic w
               /\ (w = tag "unknown topic in response" \/ w = tag "non-requested partition"
                   \/ (w = overflow_tag /\ debug_build (env s) = true)))))
  \/ (o = alloc_panic /\ reply_panics s alloc_tag)
  \/ (o = Panic dbg_tag /\ reply_panics s dbg_tag /\ debug_build (env s) = true).
Proof.
  intros k s o. subst o.
  destruct (C13_consumer_poll_never_out_of_fuel k s) as [N1 N2].
  assert (G : forall o s2, consumer_poll k s = (o, s2) ->
     (exists r k', o = Ok (r, k') /\
        forall w, r = Panic w -> w = tag "unknown topic in response" \/ w = tag "non-requested partition"
                                 \/ (w = overflow_tag /\ debug_build (env s) = true))
     \/ (exists w, o = Panic w /\ reply_panics s w)).
  { intros o s2. unfold consumer_poll. unfold mbind at 1.
    pose proof (consumer_fetch_panic k s) as Hp.
    destruct (consumer_fetch k s) as [[[[n r] k1]|e|w] s1] eqn:Ef; cbn [fst] in Hp.
    - destruct (keeps_consumer_fetch k s _ _ Ef) as [He _].
      unfold mbind, get_client, get_env, ret, mpanic. destruct r as [resps|er|w]; intros E; inversion E; subst.
      + left. match goal with |- context [Ok ?x] => destruct x as [q k2] eqn:Eq end.
        exists q, k2. split; [reflexivity|]. intros w ->.
        match type of Eq with process_fetch_responses ?d ?kk ?nn ?rr = _ =>
          pose proof (C13_poll_layer_outside_known d kk nn rr w) as P end.
        rewrite Eq in P. destruct (P eq_refl) as [[P1 _]|[[P1 _]|[P1 [P2 _]]]]; auto.
        right. right. split; [exact P1|]. rewrite <- He. exact P2.
      + left. eexists _, _. split; [reflexivity|]. discriminate.
      + exfalso. (* consumer_fetch packages the outcome of fetch_messages with mtry: never Ok (_, Panic _, _) *)
        revert Ef. unfold consumer_fetch. destruct (k_retry k) as [|tp rest].
        * unfold mbind, mtry, ret. destruct (fetch_messages _ s) as [[a|e|w'] sx]; intros X; inversion X.
        * destruct (tk_get tp (k_fetch k)) as [[off maxb]|]; [|intros X; inversion X].
          unfold mbind, mtry, ret. destruct (fetch_messages _ s) as [[a|e|w'] sx]; intros X; inversion X.
    - intros E. exfalso. revert Ef. unfold consumer_fetch. destruct (k_retry k) as [|tp rest].
      + unfold mbind, mtry, ret. destruct (fetch_messages _ s) as [[a|e'|w'] sx]; intros X; inversion X.
      + destruct (tk_get tp (k_fetch k)) as [[off maxb]|]; [|intros X; inversion X].
        unfold mbind, mtry, ret. destruct (fetch_messages _ s) as [[a|e'|w'] sx]; intros X; inversion X.
    - intros E. inversion E; subst. right. exists w. split; [reflexivity|apply Hp; reflexivity]. }
  destruct (consumer_poll k s) as [o s2] eqn:E. cbn [fst] in *.
  destruct (G o s2 eq_refl) as [(r & k' & Ho & Hw)|(w & Ho & Hr)].
  - left. exists r, k'. split; [exact Ho|]. specialize (N2 r k' Ho).
    destruct r as [ms|e|w]; [left; eexists; reflexivity|right; left|right; right].
    + exists e. split; [reflexivity|]. intros ->. apply N2. reflexivity.
    + exists w. split; [reflexivity|apply Hw; reflexivity].
  - right. subst o. destruct Hr as (corr & h & tps & s1 & b & s3 & Hio & Hd).
    destruct (C13_fetch_response_outcomes_exact (env s) decode_depth (fetch_crc_validation (cfg (cl s))) tps b)
      as [[a Ha]|[[e [He _]]|[Ha|[Hdbg Ha]]]]; rewrite Hd in Ha || rewrite Hd in He; try discriminate.
    + left. unfold alloc_panic in Ha. injection Ha as ->.
      split; [reflexivity|]. exists corr, h, tps, s1, b, s3. split; assumption.
    + right. injection Ha as ->.
      split; [reflexivity|]. split; [exists corr, h, tps, s1, b, s3; split; assumption|exact Hdbg].
Qed.

(* each case of the poll classification occurs (the error value and the delivered value are in ex_fetch_calls_depth) *)
Example ex_consumer_poll_outcomes :
  match fst (consumer_poll exd_k (exd_st (wrapn 8 ex_plain_set) false)) with
  | Ok (Err EUnsupportedCompression, _) => True | _ => False end
  /\ fst (consumer_poll exd_k (exd_st (wrapn 7 ex_alloc_set) false)) = alloc_panic
  /\ fst (consumer_poll exd_k (exd_st ex_trailing_set true)) = Panic dbg_tag
  (* a reply about a partition that was not requested: a panic VALUE of the poll layer *)
  /\ match fst (consumer_poll exd_k (ex_st (ex_reply (enc_i32 7 ++ enc_i32 1 ++ (enc_i16 2 ++ tag "tp" ++ enc_i32 1
                    ++ (enc_i32 3 ++ enc_i16 0 ++ enc_i64 9 ++ enc_i32 0)))) ex_nocrc_client false)) with
     | Ok (Panic w, _) => w = tag "non-requested partition" | _ => False end.
Proof. vm_compute. repeat split; reflexivity. Qed.

(* ====================================================================== *)
(* Part D: the number of nested decodes is bounded by `depth`               *)
(* ====================================================================== *)
(* The entry loop with the hand-over made explicit: it either ends by itself or meets a compressed message
   (codec c, value v) - exactly where `ms_loop` calls `inner c v`. *)
Inductive loop_end := LDone (r : res (list message)) | LWrap (c : Z) (v : bytes).

Fixpoint ms_scan (dbg validate : bool) (req : Z) (fuel : nat) (bs : bytes) (acc : list message) : loop_end :=
  match bs with
  | [] => LDone (Ok (rev acc))
  | _ =>
    match fuel with
    | O => LDone (Err EOutOfFuel)
    | S f =>
      match next_message dbg validate bs with
      | Err EUnexpectedEOF => LDone (Ok (rev acc))
      | Err e => LDone (Err e)
      | Panic w => LDone (Panic w)
      | Ok (off, (attr, k, v), r) =>
          let c := Z.land attr 7 in
          if c =? COMPRESSION_NONE then
            ms_scan dbg validate req f r
                    (if req <=? off then {| m_offset := off; m_key := k; m_value := v |} :: acc else acc)
          else if (c =? COMPRESSION_GZIP) || (c =? COMPRESSION_SNAPPY) then LWrap c v
          else LDone (Err EUnsupportedCompression)
      end
    end
  end.

Definition loop_finish (inner : Z -> bytes -> res (list message)) (e : loop_end) : res (list message) :=
  match e with LDone r => r | LWrap c v => inner c v end.

(* ms_scan IS ms_loop, for every continuation *)
Lemma ms_scan_spec inner dbg validate req : forall fuel bs acc,
  ms_loop inner dbg validate req fuel bs acc = loop_finish inner (ms_scan dbg validate req fuel bs acc).
Proof.
  induction fuel as [|f IH]; intros bs acc; destruct bs as [|b0 bs0]; try reflexivity.
  cbn [ms_loop ms_scan].
  destruct (next_message dbg validate (b0 :: bs0)) as [[[off [[attr k] v]] r]|e|w];
    [|destruct e; reflexivity|reflexivity].
  cbv zeta. destruct (Z.land attr 7 =? COMPRESSION_NONE); [apply IH|].
  destruct ((Z.land attr 7 =? COMPRESSION_GZIP) || (Z.land attr 7 =? COMPRESSION_SNAPPY)); reflexivity.
Qed.

(* the instrumented decoder: result, number of decompressor calls (gzip::uncompress / SnappyReader::read_to_end
   entered), number of from_slice activations (= recursion depth reached, the refusing activation included) *)
Fixpoint from_slice_counted (cz : codecs) (depth : nat) (validate : bool) (req : Z) (bs : bytes)
  : res (list message) * nat * nat :=
  match depth with
  | O => (Err EUnsupportedCompression, O, 1%nat)
  | S d =>
    match ms_scan (debug_build cz) validate req (S (length bs)) bs [] with
    | LDone r => (r, O, 1%nat)
    | LWrap c v =>
      if c =? COMPRESSION_GZIP then
        match gz_decompress cz v with
        | Some data => let '(r, n, l) := from_slice_counted cz d validate req data in (r, S n, S l)
        | None => (Err (EIo IoOther), 1%nat, 1%nat)
        end
      else if alloc_limit <=? xerial_max_alloc v then (alloc_panic, 1%nat, 1%nat)
      else match xerial_read_to_end v with
           | Ok data => let '(r, n, l) := from_slice_counted cz d validate req data in (r, S n, S l)
           | Err e => (Err e, 1%nat, 1%nat)
           | Panic w => (Panic w, 1%nat, 1%nat)
           end
    end
  end.

Definition fsc_result (x : res (list message) * nat * nat) : res (list message) := fst (fst x).
Definition fsc_decompressions (x : res (list message) * nat * nat) : nat := snd (fst x).
Definition fsc_activations (x : res (list message) * nat * nat) : nat := snd x.

(* the instrumentation does not change the result: for ALL inputs *)
Theorem C13_counted_decoder_faithful : forall cz validate req depth bs,
  fsc_result (from_slice_counted cz depth validate req bs) = from_slice cz depth validate req bs.
Proof.
  intros cz validate req. induction depth as [|d IH]; intros bs; [reflexivity|].
  rewrite from_slice_S, ms_scan_spec. cbn [from_slice_counted].
  destruct (ms_scan (debug_build cz) validate req (S (length bs)) bs []) as [r|c v]; [reflexivity|].
  cbn [loop_finish]. unfold fs_inner. destruct (c =? COMPRESSION_GZIP).
  - destruct (gz_decompress cz v) as [data|]; [|reflexivity].
    rewrite <- IH. destruct (from_slice_counted cz d validate req data) as [[r n] l]. reflexivity.
  - destruct (alloc_limit <=? xerial_max_alloc v); [reflexivity|].
    destruct (xerial_read_to_end v) as [data|e|w]; cbn [bind]; [|reflexivity|reflexivity].
    rewrite <- IH. destruct (from_slice_counted cz d validate req data) as [[r n] l]. reflexivity.
Qed.

(* decoding one message set with argument `depth`: at most `depth` decompressions, at most `depth + 1`
   activations of from_slice (never more than one beyond the decompressions) - for every input *)
Theorem C13_decode_recursion_bounded : forall cz validate req depth bs,
  let x := from_slice_counted cz depth validate req bs in
  (fsc_decompressions x <= depth)%nat
  /\ (fsc_activations x <= S (fsc_decompressions x))%nat
  /\ (fsc_activations x <= S depth)%nat.
Proof.
  intros cz validate req depth bs x. subst x.
  assert (G : forall depth bs, let x := from_slice_counted cz depth validate req bs in
                (fsc_decompressions x <= depth)%nat /\ (fsc_activations x <= S (fsc_decompressions x))%nat).
  { clear depth bs. unfold fsc_decompressions, fsc_activations.
    induction depth as [|d IH]; intros bs; cbn [from_slice_counted]; [cbn; lia|].
    destruct (ms_scan (debug_build cz) validate req (S (length bs)) bs []) as [r|c v]; [cbn; lia|].
    destruct (c =? COMPRESSION_GZIP).
    - destruct (gz_decompress cz v) as [data|]; [|cbn; lia].
      specialize (IH data). cbv zeta in IH. destruct (from_slice_counted cz d validate req data) as [[r n] l].
      cbn [fst snd] in *. lia.
    - destruct (alloc_limit <=? xerial_max_alloc v); [cbn; lia|].
      destruct (xerial_read_to_end v) as [data|e|w]; [|cbn; lia|cbn; lia].
      specialize (IH data). cbv zeta in IH. destruct (from_slice_counted cz d validate req data) as [[r n] l].
      cbn [fst snd] in *. lia. }
  destruct (G depth bs) as [A B]. repeat split; [exact A|exact B|lia].
Qed.

(* the client's call (Partition::read passes MAX_COMPRESSION_DEPTH): "recursion depth <= MAX_COMPRESSION_DEPTH"
   as a theorem - at most 8 decompressions and 9 activations per message set, whatever the broker sends *)
Corollary C13_client_decode_recursion_bounded : forall cz validate req bs,
  let x := from_slice_counted cz decode_depth validate req bs in
  fsc_result x = from_slice cz decode_depth validate req bs
  /\ (fsc_decompressions x <= MAX_COMPRESSION_DEPTH)%nat /\ MAX_COMPRESSION_DEPTH = 8%nat
  /\ (fsc_activations x <= 9)%nat.
Proof.
  intros cz validate req bs x. subst x.
  destruct (C13_decode_recursion_bounded cz validate req decode_depth bs) as [A [_ C]].
  split; [apply C13_counted_decoder_faithful|]. split; [exact A|]. split; [reflexivity|exact C].
Qed.

(* the bound is attained: a set that really contains `depth` compressed sets nested in one another costs exactly
   `depth` decompressions and `depth + 1` activations, and is then refused (the last decompression is wasted) *)
Lemma wrapper_scan dbg validate req bs c v :
  wrapper_of dbg validate req bs c v -> ms_scan dbg validate req (S (length bs)) bs [] = LWrap c v.
Proof.
  intros [_ H].
  pose proof (H (fun c0 v0 => Ok [{| m_offset := c0; m_key := v0; m_value := [] |}])) as H1.
  pose proof (H (fun _ _ => Err EOutOfFuel)) as H2. rewrite ms_scan_spec in H1, H2.
  destruct (ms_scan dbg validate req (S (length bs)) bs []) as [r|c' v']; cbn [loop_finish] in *.
  - rewrite H1 in H2. discriminate.
  - inversion H1. reflexivity.
Qed.

Theorem C13_decode_recursion_attained : forall cz validate req depth bs,
  nesting cz validate req depth bs ->
  from_slice_counted cz depth validate req bs = (Err EUnsupportedCompression, depth, S depth).
Proof.
  intros cz validate req. induction depth as [|d IH]; intros bs H; [reflexivity|].
  inversion H as [|n bs0 c v data Hw Hd Hn]; subst.
  cbn [from_slice_counted]. rewrite (wrapper_scan _ _ _ _ _ _ Hw).
  destruct Hd as [[-> Hz]|[-> [Ha Hx]]].
  - replace (COMPRESSION_GZIP =? COMPRESSION_GZIP) with true by reflexivity.
    rewrite Hz, (IH data Hn). reflexivity.
  - replace (COMPRESSION_SNAPPY =? COMPRESSION_GZIP) with false by reflexivity.
    destruct (alloc_limit <=? xerial_max_alloc v) eqn:Ea; [lia|]. rewrite Hx, (IH data Hn). reflexivity.
Qed.

(* fewer levels than the budget: as many decompressions as there are wrappers on the path *)
Example ex_counted :
  from_slice_counted (ex_cz false) decode_depth false 0 ex_plain_set
    = (Ok [{| m_offset := 7; m_key := []; m_value := tag "v" |}], 0, 1)%nat
  /\ from_slice_counted (ex_cz false) decode_depth false 0 (wrapn 2 ex_plain_set)
    = (Ok [{| m_offset := 7; m_key := []; m_value := tag "v" |}], 2, 3)%nat
  /\ from_slice_counted (ex_cz false) decode_depth false 0 (wrapn 7 ex_plain_set)
    = (Ok [{| m_offset := 7; m_key := []; m_value := tag "v" |}], 7, 8)%nat
  /\ from_slice_counted (ex_cz false) decode_depth false 0 (wrapn 8 ex_plain_set) = (Err EUnsupportedCompression, 8, 9)%nat
  /\ from_slice_counted (ex_cz false) decode_depth false 0 (wrapn 1000 ex_plain_set) = (Err EUnsupportedCompression, 8, 9)%nat
  (* the allocation request and a failing decompressor count as entered *)
  /\ from_slice_counted (ex_cz false) decode_depth false 0 (wrapn 3 ex_alloc_set) = (alloc_panic, 4, 4)%nat
  /\ from_slice_counted (ex_cz false) decode_depth false 0
       (ex_entry 0 COMPRESSION_SNAPPY (tag "garbage") []) = (Err EUnexpectedEOF, 1, 1)%nat.
Proof. vm_compute. repeat split; reflexivity. Qed.

(* C13_decode_recursion_attained applied to the two-level witness of C13Decode *)
Example ex_counted_attained :
  from_slice_counted (ex_cz false) 2 false 0 ex_nested_set = (Err EUnsupportedCompression, 2, 3)%nat.
Proof. apply C13_decode_recursion_attained. exact ex_nested_nesting. Qed.

Print Assumptions C13_message_set_outcomes_exact.
Print Assumptions C13_fetch_response_outcomes_exact.
Print Assumptions C13_fetch_messages_never_out_of_fuel.
Print Assumptions C13_consumer_fetch_never_out_of_fuel.
Print Assumptions C13_consumer_poll_never_out_of_fuel.
Print Assumptions C13_fetch_messages_outcomes.
Print Assumptions C13_fetch_messages_outcomes_release.
Print Assumptions C13_consumer_poll_outcomes.
Print Assumptions C13_counted_decoder_faithful.
Print Assumptions C13_decode_recursion_bounded.
Print Assumptions C13_client_decode_recursion_bounded.
Print Assumptions C13_decode_recursion_attained.
