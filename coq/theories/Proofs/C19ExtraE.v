(* C19, fourth adequacy pass (round-seven seed).

   Seed C19-7 (Consumer::seek replaces the whole FetchState with HashMap::insert and maps the returned None
   to the usual error - the insert has already happened, so a REFUSED seek on a non-consumed partition of an
   assigned topic leaves that partition in state.fetch_offsets, i.e. in the consumed set).

   The seed has two halves.
   (i)  the ACCEPTED seek now resets max_bytes to the client's fetch_max_bytes_per_partition.  That is a
        change of Model.Consumer.consumer_seek (`Some _ => Ok (.. tk_set (r, p) (off, fetch_max_bytes_per_
        partition (cfg (k_client k))) ..)`) and makes C19_seek_assigned FALSE (it pins the max_bytes of the
        sought partition to the old one) - negation proved in the scratch copy with ex_consumer, whose
        max_bytes 4096 differs from the client's 32768.  That is incidental: this half breaks no clause
        of C19, and the same seed written as `insert(tp, FetchState { offset, max_bytes: <old or default> })`
        only for the refused case would not touch consumer_seek at all.
   (ii) the REFUSED seek leaves the new entry behind - the property-breaking half.  It has NO counterpart in
        Model/Consumer.v: consumer_seek : res consumer hands back no consumer at all under Err ("an Err result
        carries no consumer", C19Facts).  That the caller goes on with the consumer it had is said in
        Model/Dispatch.v (`match r with Ok k' => OConsumer k' | _ => o end`), and the mirrored change is
        there (`| _ => OConsumer (seek_left k ..)`).  No theorem of Props/C19.v mentions dispatch; C19_reach
        (C19ExtraB) has steps for ACCEPTED calls only, i.e. it ASSUMES that a refused call changes nothing.
        With (ii) mirrored in the scratch copy every file below Props/C19.v is untouched.  NOT COVERED.

   Part A states (ii) on dispatch, for seek and - same shape of code, same clause - for consume_message:
   C19_dispatch_seek, C19_refused_seek_leaves_consumer, C19_refused_seek_no_trace, C19_dispatch_mark,
   C19_refused_mark_leaves_consumer (C19_dispatch_seek, C19_refused_seek_leaves_consumer and
   C19_refused_seek_no_trace are false on the scratch copy; negation of C19_refused_seek_leaves_consumer
   proved there).

   Part B lifts the history theorems of C19ExtraB from "sequences of ACCEPTED calls" (C19_reach) to
   "sequences of scripted calls whatever they answer": any consumer_op (seek, consume_message,
   commit_consumed, last_consumed_message, subscriptions, group, anything else) and any poll, accepted, refused,
   failed in the middle of I/O or panicking.  C19_scripted_step, C19_scripted_history_keeps_set,
   C19_scripted_history_keeps_marks, C19_scripted_history_exact (creation, then any such history: reported
   subscriptions == fetch input == what can be sought / marked == the set fixed by assignment map x metadata
   of creation; the subscriptions call itself answers that view and changes nothing).
   C19_scripted_history_keeps_set is false on the scratch copy (negation proved there: one refused seek).

   Part C: forward/converse statements for the scripted seek and mark: the answer is ok exactly for the
   consumed pairs (C19_dispatch_seek_ok_iff, C19_dispatch_mark_ok_iff); what a scripted query answers outside
   the set after any history (C19_scripted_query_foreign).

   Not done: the client swaps of dispatch (with_client after a failed commit / poll) are not C19_step's, so
   the histories here are not expressed as C19_reach; the invariants are carried directly instead. *)
From Coq Require Import ZifyBool Permutation.
From KV Require Import Base.Prelude Gen.ErrorCodes Gen.Consts Model.Codecs Model.Requests Model.Responses
                       Model.ClientState Model.Net Model.Client Model.Consumer Model.Val Model.Dispatch.
From KV Require Import Proofs.BytesFacts Proofs.C07Facts Proofs.C19Facts Proofs.C19Extra Proofs.C19ExtraB
                       Proofs.C19ExtraC.
Ltac Zify.zify_post_hook ::= Z.div_mod_to_equations.

(* ================================================================================== *)
(* A. a REFUSED seek / mark, as the harness runs it (Model/Dispatch.v)                 *)
(* ================================================================================== *)

(* the scripted calls *)
Definition seek_op (t : bytes) (p off : Z) : val := vt "consumer_op" [vt "seek" [VB t; VI p; VI off]].
Definition mark_op (t : bytes) (p off : Z) : val := vt "consumer_op" [vt "consume_message" [VB t; VI p; VI off]].
Definition query_op (t : bytes) (p : Z) : val := vt "consumer_op" [vt "last_consumed_message" [VB t; VI p]].
Definition subs_op : val := vt "consumer_op" [vt "subscriptions" []].

Lemma is_tag_VT n args s : is_tag (VT n args) s = bytes_eqb n (tag s).
Proof. reflexivity. Qed.

Ltac tags :=
  rewrite ?is_tag_VT;
  repeat match goal with
         | |- context [bytes_eqb (tag ?a) (tag ?b)] =>
             let r := eval vm_compute in (bytes_eqb (tag a) (tag b)) in
             change (bytes_eqb (tag a) (tag b)) with r
         end;
  cbv iota.

(* what the scripted seek does with the answer of Consumer::seek.  Ok: the consumer it returned.
   Err (or anything else): THE OLD consumer, untouched.  No I/O. *)
Theorem C19_dispatch_seek : forall k t p off hv scv ev,
  dispatch (OConsumer k) (seek_op t p off) hv scv ev
  = {| o_result := res_val (fun _ => vunit) (consumer_seek k t p off);
       o_obj := match consumer_seek k t p off with Ok k' => OConsumer k' | _ => OConsumer k end;
       o_trace := [] |}.
Proof.
  intros k t p off hv scv ev. unfold dispatch, seek_op, vt. cbv zeta.
  tags. cbn [varg vargs nth]. tags. cbn [vbytes vint]. reflexivity.
Qed.

Theorem C19_dispatch_mark : forall k t p off hv scv ev,
  dispatch (OConsumer k) (mark_op t p off) hv scv ev
  = {| o_result := res_val (fun _ => vunit) (consume_message k t p off);
       o_obj := match consume_message k t p off with Ok k' => OConsumer k' | _ => OConsumer k end;
       o_trace := [] |}.
Proof.
  intros k t p off hv scv ev. unfold dispatch, mark_op, vt. cbv zeta.
  tags. cbn [varg vargs nth]. tags. cbn [vbytes vint]. reflexivity.
Qed.

(* THE statement for seed C19-7.  Seeking a topic-partition the consumer does not consume: the call answers
   unknown-topic-or-partition (as a plain Kafka error when the topic is not assigned, as a topic-partition
   error when the topic is assigned and the partition is not consumed), nothing is written or read, and the
   consumer the application goes on with IS the consumer it had - fetch states (the consumed set, every offset,
   every max_bytes), retry queue, marks, table, client. *)
Theorem C19_refused_seek_leaves_consumer : forall k t p off hv scv ev,
  ~ assigned k t p ->
  let out := dispatch (OConsumer k) (seek_op t p off) hv scv ev in
  o_obj out = OConsumer k
  /\ o_trace out = []
  /\ (o_result out = vt "err" [err_val (EKafka KC_UnknownTopicOrPartition)]
      \/ o_result out = vt "err" [err_val (ETopicPartition t p KC_UnknownTopicOrPartition)]).
Proof.
  intros k t p off hv scv ev Hn out. subst out. rewrite C19_dispatch_seek. cbn [o_obj o_trace o_result].
  destruct (C19_foreign_seek k t p off Hn) as [H|H]; rewrite H; cbn [res_val]; auto.
Qed.

(* ... hence no later scripted call - subscriptions, poll (the fetch request), a mark, a query, a commit,
   a second seek - can tell whether the refused seek was made or not *)
Theorem C19_refused_seek_no_trace : forall k t p off hv scv ev,
  ~ assigned k t p ->
  forall op hv' scv' ev',
    dispatch (o_obj (dispatch (OConsumer k) (seek_op t p off) hv scv ev)) op hv' scv' ev'
    = dispatch (OConsumer k) op hv' scv' ev'.
Proof.
  intros k t p off hv scv ev Hn op hv' scv' ev'.
  destruct (C19_refused_seek_leaves_consumer k t p off hv scv ev Hn) as (H & _). cbv zeta in H. rewrite H. reflexivity.
Qed.

Theorem C19_refused_mark_leaves_consumer : forall k t p off hv scv ev,
  ~ assigned k t p ->
  let out := dispatch (OConsumer k) (mark_op t p off) hv scv ev in
  o_obj out = OConsumer k
  /\ o_trace out = []
  /\ o_result out = vt "err" [err_val (EKafka KC_UnknownTopicOrPartition)].
Proof.
  intros k t p off hv scv ev Hn out. subst out. rewrite C19_dispatch_mark. cbn [o_obj o_trace o_result].
  rewrite (C19_foreign_consume k t p off Hn). cbn [res_val]. auto.
Qed.

(* non-vacuity: ex_consumer (a [0;1], b [0]; C19Facts).  b:1 - a partition of an assigned topic which is not
   consumed, the situation of the seed - and c:0 are refused; the consumer, its subscriptions and the input
   of its next fetch are what they were; an accepted seek moves a:1 only *)
Definition exe_hv : val := VL [VL []; VL []; VL []; VL []].
Definition exe_ev : val := VL [VL []; VL []; VL []; VI 1].

Example C19_refused_seek_ex :
  let out := dispatch (OConsumer ex_consumer) (seek_op (tag "b") 1 5) exe_hv (VL []) exe_ev in
  let out2 := dispatch (OConsumer ex_consumer) (seek_op (tag "c") 0 5) exe_hv (VL []) exe_ev in
  let out3 := dispatch (OConsumer ex_consumer) (seek_op (tag "a") 1 5) exe_hv (VL []) exe_ev in
  ~ assigned ex_consumer (tag "b") 1
  /\ o_obj out = OConsumer ex_consumer
  /\ o_result out = vt "err" [vt "tperr" [VB (tag "b"); VI 1; VI 3]]
  /\ o_obj out2 = OConsumer ex_consumer
  /\ o_result out2 = vt "err" [vt "kafka" [VI 3]]
  /\ o_result (dispatch (o_obj out) subs_op exe_hv (VL []) exe_ev)
     = vt "ok" [VL [vt "topic" [VB (tag "a"); VL [VI 0; VI 1]]; vt "topic" [VB (tag "b"); VL [VI 0]]]]
  /\ o_result out3 = vt "ok" [vunit]
  /\ match o_obj out3 with
     | OConsumer k' => k_fetch k' = [((0, 0), (10, 4096)); ((0, 1), (5, 4096)); ((1, 0), (30, 4096))]
     | _ => False
     end.
Proof.
  cbv zeta. split.
  - intros (r & Hr & Hg). vm_compute in Hr. inversion Hr; subst r. apply Hg. vm_compute. reflexivity.
  - vm_compute. repeat split.
Qed.

Example C19_refused_mark_ex :
  let out := dispatch (OConsumer ex_consumer) (mark_op (tag "b") 1 5) exe_hv (VL []) exe_ev in
  o_obj out = OConsumer ex_consumer /\ o_result out = vt "err" [vt "kafka" [VI 3]].
Proof. vm_compute. repeat split. Qed.

(* ================================================================================== *)
(* B. histories of scripted calls, whatever they answer                               *)
(* ================================================================================== *)

Lemma consumer_with_client_id k : consumer_with_client k (k_client k) = k.
Proof. destruct k; reflexivity. Qed.

(* ONE scripted call on a consumer - any consumer_op whatever its argument, any poll - whatever it answers:
   the object afterwards is gone (a panic) or is a consumer which is the old one or the result of ONE accepted
   step (C19_step of C19ExtraB: seek / consume_message / poll / commit_consumed that handed back a consumer),
   around some client.  In particular a refused or failed call never edits the consumer. *)
Definition C19_call (op : val) : Prop := (exists a0, op = vt "consumer_op" [a0]) \/ (exists args, op = vt "poll" args).

Theorem C19_scripted_step : forall k op hv scv ev,
  C19_call op ->
  let out := dispatch (OConsumer k) op hv scv ev in
  o_obj out = ONone
  \/ exists k1 c, o_obj out = OConsumer (consumer_with_client k1 c) /\ (k1 = k \/ C19_step k k1).
Proof.
  intros k op hv scv ev [[a0 Hop]|[args Hop]] out; subst out op.
  - assert (Hsame : exists k1 c, OConsumer k = OConsumer (consumer_with_client k1 c) /\ (k1 = k \/ C19_step k k1)).
    { exists k, (k_client k). rewrite consumer_with_client_id. auto. }
    unfold dispatch, vt. cbv zeta. tags. cbn [varg vargs nth].
    destruct (is_tag a0 "seek") eqn:E1.
    { cbn [pure o_obj]. destruct (consumer_seek k _ _ _) as [k'|e|w] eqn:Es; [|right; exact Hsame|right; exact Hsame].
      right. exists k', (k_client k'). rewrite consumer_with_client_id. split; [reflexivity|]. right.
      eapply C19_step_seek. exact Es. }
    destruct (is_tag a0 "consume_message") eqn:E2.
    { cbn [pure o_obj]. destruct (consume_message k _ _ _) as [k'|e|w] eqn:Es; [|right; exact Hsame|right; exact Hsame].
      right. exists k', (k_client k'). rewrite consumer_with_client_id. split; [reflexivity|]. right.
      eapply C19_step_consume. exact Es. }
    destruct (is_tag a0 "commit_consumed") eqn:E3.
    { unfold run.
      match goal with |- context [commit_consumed k ?s0] =>
        destruct (commit_consumed k s0) as [[k'|e|w] s1] eqn:Ec end; cbn [o_obj].
      - right. exists k', (cl s1). split; [reflexivity|]. right. eapply C19_step_commit. exact Ec.
      - right. exists k, (cl s1). split; [reflexivity|]. left. reflexivity.
      - left. reflexivity. }
    destruct (is_tag a0 "last_consumed_message") eqn:E4; [right; exact Hsame|].
    destruct (is_tag a0 "subscriptions") eqn:E5; [right; exact Hsame|].
    destruct (is_tag a0 "group") eqn:E6; right; exact Hsame.
  - unfold dispatch, vt. cbv zeta. tags. unfold run.
    match goal with |- context [consumer_poll k ?s0] =>
      destruct (consumer_poll k s0) as [[[r k']|e|w] s1] eqn:Ec end; cbn [o_obj].
    + destruct r as [ms|e|w]; [| |left; reflexivity];
        (right; exists k', (cl s1); split; [reflexivity|]; right; eapply C19_step_poll; exact Ec).
    + right. exists k, (cl s1). split; [reflexivity|]. left. reflexivity.
    + left. reflexivity.
Qed.

(* a scripted call on a discarded object stays discarded *)
Lemma C19_scripted_none op hv scv ev : C19_call op -> o_obj (dispatch ONone op hv scv ev) = ONone.
Proof.
  intros [[a0 Hop]|[args Hop]]; subst op; unfold dispatch, vt; cbv zeta; tags; reflexivity.
Qed.

(* histories: any number of such calls, each with its own script, hints and codecs *)
Inductive C19_scripted (o0 : obj) : obj -> Prop :=
| C19_scripted_refl : C19_scripted o0 o0
| C19_scripted_call o op hv scv ev :
    C19_scripted o0 o -> C19_call op -> C19_scripted o0 (o_obj (dispatch o op hv scv ev)).

Lemma C19_inv_with_client k c : C19_inv k -> C19_inv (consumer_with_client k c).
Proof. intros H. exact H. Qed.

(* THE history statement: from a consumer with the invariant (every created consumer, C19_create_inv), after
   ANY history of scripted calls - accepted, refused, failed - the object is gone or is a consumer with the
   invariant, the table of creation and EXACTLY the consumed set of the start *)
Theorem C19_scripted_history_keeps_set : forall k0 o,
  C19_inv k0 -> C19_scripted (OConsumer k0) o ->
  o = ONone
  \/ exists k, o = OConsumer k /\ C19_inv k /\ k_assign k = k_assign k0
               /\ forall t p, assigned k t p <-> assigned k0 t p.
Proof.
  intros k0 o Hinv Hs. induction Hs as [|o op hv scv ev Hs IH Hop].
  - right. exists k0. split; [reflexivity|]. split; [exact Hinv|]. split; [reflexivity|]. intros t p. reflexivity.
  - destruct IH as [E|(k & E & I1 & I2 & I3)]; subst o.
    + left. apply C19_scripted_none. exact Hop.
    + destruct (C19_scripted_step k op hv scv ev Hop) as [E|(k1 & c & E & Hk1)]; [left; exact E|].
      right. exists (consumer_with_client k1 c). split; [exact E|].
      destruct Hk1 as [Hk1|Hk1].
      * subst k1. split; [exact I1|]. split; [exact I2|]. exact I3.
      * destruct (C19_step_inv _ _ Hk1 I1) as (J1 & J2 & J3).
        split; [exact J1|]. split; [cbn [consumer_with_client k_assign]; rewrite J2; exact I2|].
        intros t p. rewrite <- I3. apply (J3 t p).
Qed.

Theorem C19_scripted_history_keeps_marks : forall k0 o,
  C19_marks_inv k0 -> C19_scripted (OConsumer k0) o ->
  o = ONone \/ exists k, o = OConsumer k /\ C19_marks_inv k.
Proof.
  intros k0 o Hm Hs. induction Hs as [|o op hv scv ev Hs IH Hop].
  - right. exists k0. split; [reflexivity|exact Hm].
  - destruct IH as [E|(k & E & I1)]; subst o.
    + left. apply C19_scripted_none. exact Hop.
    + destruct (C19_scripted_step k op hv scv ev Hop) as [E|(k1 & c & E & Hk1)]; [left; exact E|].
      right. exists (consumer_with_client k1 c). split; [exact E|].
      destruct Hk1 as [Hk1|Hk1].
      * subst k1. exact I1.
      * exact (C19_step_marks _ _ Hk1 I1).
Qed.

(* the scripted subscriptions call: answers the view of Consumer::subscriptions, changes nothing *)
Theorem C19_dispatch_subscriptions : forall k hv scv ev,
  dispatch (OConsumer k) subs_op hv scv ev
  = {| o_result := vt "ok" [VL (map (fun '(t, ps) => vt "topic" [VB t; VL (map VI ps)]) (subscriptions k))];
       o_obj := OConsumer k; o_trace := [] |}.
Proof.
  intros k hv scv ev. unfold dispatch, subs_op, vt. cbv zeta.
  tags. cbn [varg vargs nth]. tags. reflexivity.
Qed.

Lemma res_val_ok_iff {A} (r : res A) : res_val (fun _ => vunit) r = vt "ok" [vunit] <-> exists a, r = Ok a.
Proof.
  split.
  - destruct r as [a|e|w]; cbn [res_val]; intros H; [exists a; reflexivity| |];
      exfalso; unfold vt in H; injection H as H _; vm_compute in H; discriminate H.
  - intros [a E]. subst r. reflexivity.
Qed.

(* the scripted seek / mark answers ok exactly for the consumed pairs (forward and converse) *)
Theorem C19_dispatch_seek_ok_iff : forall k t p off hv scv ev,
  o_result (dispatch (OConsumer k) (seek_op t p off) hv scv ev) = vt "ok" [vunit] <-> assigned k t p.
Proof.
  intros k t p off hv scv ev. rewrite C19_dispatch_seek. cbn [o_result]. rewrite res_val_ok_iff.
  apply C19_seek_ok_iff.
Qed.

Theorem C19_dispatch_mark_ok_iff : forall k t p off hv scv ev,
  o_result (dispatch (OConsumer k) (mark_op t p off) hv scv ev) = vt "ok" [vunit] <-> assigned k t p.
Proof.
  intros k t p off hv scv ev. rewrite C19_dispatch_mark. cbn [o_result]. rewrite res_val_ok_iff.
  apply C19_consume_ok_iff.
Qed.

(* the property's "always exactly this set", over all histories of SCRIPTED calls of a created consumer,
   whatever each call answered: the set is the one fixed by (assignment map x metadata loaded at creation) *)
Theorem C19_scripted_history_exact : forall src calls s k0 s0 k,
  consumer_create src calls s = (Ok k0, s0) -> C19_scripted (OConsumer k0) (OConsumer k) ->
  let b := fold_left cbuilder_apply calls (cbuilder_new src) in
  exists wait s1,
    to_millis_i32 (cb_max_wait b) = Ok wait
    /\ create_metadata src (create_start src calls s wait) = (Ok tt, s1)
    /\ (forall t p,
          (assigned k t p <-> C19_set (cb_assign b) (cs (cl s1)) t p)
          /\ (In (t, p) (flat_tps (subscriptions k)) <-> C19_set (cb_assign b) (cs (cl s1)) t p)
          /\ ((exists q, In q (fetch_all_input k) /\ fq_topic q = t /\ fq_partition q = p)
              <-> C19_set (cb_assign b) (cs (cl s1)) t p)
          /\ (forall off hv scv ev,
                o_result (dispatch (OConsumer k) (seek_op t p off) hv scv ev) = vt "ok" [vunit]
                <-> C19_set (cb_assign b) (cs (cl s1)) t p)
          /\ (forall off hv scv ev,
                o_result (dispatch (OConsumer k) (mark_op t p off) hv scv ev) = vt "ok" [vunit]
                <-> C19_set (cb_assign b) (cs (cl s1)) t p)
          /\ (forall c, fetch_named (fetch_reqs c (fetch_all_input k)) t p -> C19_set (cb_assign b) (cs (cl s1)) t p))
    /\ (forall tp, In tp (k_retry k) -> C19_set (cb_assign b) (cs (cl s1)) (topic_name k (fst tp)) (snd tp))
    /\ (forall dbg order os, commit_entries dbg (reorder_entries order (dirty_entries k)) = Ok os ->
          Forall (fun c => C19_set (cb_assign b) (cs (cl s1)) (co_topic c) (co_partition c)) os)
    /\ (cb_group b = [] -> forall t p, ~ C19_set (cb_assign b) (cs (cl s1)) t p -> last_consumed_message k t p = None).
Proof.
  intros src calls s k0 s0 k H Hs b.
  destruct (C19_create_inv _ _ _ _ _ H) as [Hinv0 _].
  destruct (C19_scripted_history_keeps_set _ _ Hinv0 Hs) as [E|(k' & E & Hinv & _ & Hsame)]; [discriminate E|].
  injection E as E. subst k'.
  destruct (C19_history_exact _ _ _ _ _ _ H (C19_reach_refl k0)) as (wait & s1 & Hw & Hmd & Hall & _).
  fold b in Hw, Hmd, Hall.
  assert (Hset : forall t p, assigned k t p <-> C19_set (cb_assign b) (cs (cl s1)) t p).
  { intros t p. rewrite Hsame. apply (Hall t p). }
  exists wait, s1. split; [exact Hw|]. split; [exact Hmd|]. split; [|split; [|split]].
  - intros t p. split; [apply Hset|]. split; [|split; [|split; [|split]]].
    + rewrite <- Hset. apply C19_subscriptions_assigned. exact Hinv.
    + rewrite <- Hset. apply C19_fetch_exactly_assigned. exact Hinv.
    + intros off hv scv ev. rewrite <- Hset. apply C19_dispatch_seek_ok_iff.
    + intros off hv scv ev. rewrite <- Hset. apply C19_dispatch_mark_ok_iff.
    + intros c Hn. apply Hset. eapply C19_fetch_reqs_only_assigned; eassumption.
  - intros [r p] Hin. cbn [fst snd]. apply Hset. pose proof Hinv as (_ & _ & _ & I4).
    apply (inv_key_assigned k r p Hinv). apply I4. exact Hin.
  - intros dbg order os Hos. pose proof (C19_commit_only_assigned k dbg order os Hinv Hos) as Hf.
    rewrite Forall_forall in Hf |- *. intros c Hin. apply Hset. apply Hf. exact Hin.
  - intros Hg t p Hn. apply C19_query_foreign_none.
    + assert (Hm0 : C19_marks_inv k0) by (eapply C19_create_groupless_marks; eassumption).
      destruct (C19_scripted_history_keeps_marks _ _ Hm0 Hs) as [E|(k' & E & Hm)]; [discriminate E|].
      injection E as E. subst k'. exact Hm.
    + intros Ha. apply Hn. apply Hset. exact Ha.
Qed.

(* non-vacuity: the consumer created in C19Extra (a: 3 partitions, whole topic; b [0]), then - all through
   dispatch - a REFUSED seek of a:3 (beyond the topic), a refused seek of c:0, a refused mark of b:1, an accepted
   mark of a:1, an accepted seek of b:0: a history of five scripted calls; the subscriptions call then answers
   the set of creation *)
Example C19_scripted_history_ex :
  match fst (consumer_create (inr ex_md_client) ex_create_calls ex_create_st) with
  | Ok k0 =>
      let o1 := o_obj (dispatch (OConsumer k0) (seek_op (tag "a") 3 5) exe_hv (VL []) exe_ev) in
      let o2 := o_obj (dispatch o1 (seek_op (tag "c") 0 5) exe_hv (VL []) exe_ev) in
      let o3 := o_obj (dispatch o2 (mark_op (tag "b") 1 5) exe_hv (VL []) exe_ev) in
      let o4 := o_obj (dispatch o3 (mark_op (tag "a") 1 41) exe_hv (VL []) exe_ev) in
      let o5 := o_obj (dispatch o4 (seek_op (tag "b") 0 77) exe_hv (VL []) exe_ev) in
      C19_scripted (OConsumer k0) o5
      /\ o3 = OConsumer k0
      /\ o_result (dispatch o5 subs_op exe_hv (VL []) exe_ev)
         = vt "ok" [VL [vt "topic" [VB (tag "a"); VL [VI 0; VI 1; VI 2]]; vt "topic" [VB (tag "b"); VL [VI 0]]]]
      /\ match o5 with
         | OConsumer k5 => k_fetch k5 = [((0, 0), (5, 32768)); ((0, 1), (-1, 32768)); ((0, 2), (7, 32768)); ((1, 0), (77, 32768))]
                           /\ last_consumed_message k5 (tag "a") 1 = Some 41
         | _ => False
         end
  | _ => False
  end.
Proof.
  destruct (fst (consumer_create (inr ex_md_client) ex_create_calls ex_create_st)) as [k0|e|w] eqn:E0;
    [|vm_compute in E0; discriminate E0|vm_compute in E0; discriminate E0].
  cbv zeta. split.
  - repeat (apply C19_scripted_call; [|left; eexists; reflexivity]). apply C19_scripted_refl.
  - vm_compute in E0. injection E0 as E0. subst k0. vm_compute. repeat split.
Qed.

(* ================================================================================== *)
(* C. the scripted query outside the set                                               *)
(* ================================================================================== *)

Theorem C19_dispatch_query : forall k t p hv scv ev,
  dispatch (OConsumer k) (query_op t p) hv scv ev
  = {| o_result := vt "ok" [match last_consumed_message k t p with
                            | Some off => vt "some" [VI off] | None => vt "none" [] end];
       o_obj := OConsumer k; o_trace := [] |}.
Proof.
  intros k t p hv scv ev. unfold dispatch, query_op, vt. cbv zeta.
  tags. cbn [varg vargs nth]. tags. cbn [vbytes vint]. reflexivity.
Qed.

(* a consumer whose marks all belong to consumed pairs (every group-less created consumer,
   C19_create_groupless_marks; a consumer with a group whose OffsetFetch answer stayed within what was asked,
   C19_create_group_marks): after ANY history of scripted calls - refused seeks and marks included - the query
   of a pair outside the set of the start answers "none" and changes nothing *)
Theorem C19_scripted_query_foreign : forall k0 k t p hv scv ev,
  C19_inv k0 -> C19_marks_inv k0 -> C19_scripted (OConsumer k0) (OConsumer k) ->
  ~ assigned k0 t p ->
  dispatch (OConsumer k) (query_op t p) hv scv ev
  = {| o_result := vt "ok" [vt "none" []]; o_obj := OConsumer k; o_trace := [] |}.
Proof.
  intros k0 k t p hv scv ev Hinv Hm Hs Hn. rewrite C19_dispatch_query.
  destruct (C19_scripted_history_keeps_set _ _ Hinv Hs) as [E|(k' & E & _ & _ & Hsame)]; [discriminate E|].
  injection E as E. subst k'.
  destruct (C19_scripted_history_keeps_marks _ _ Hm Hs) as [E|(k' & E & Hm')]; [discriminate E|].
  injection E as E. subst k'.
  rewrite (C19_query_foreign_none k t p Hm'); [reflexivity|]. intros Ha. apply Hn. apply Hsame. exact Ha.
Qed.

(* non-vacuity: ex_consumer (its single mark a:1 is inside the set, C19ExtraB), a refused seek of b:1, then
   the query of b:1 *)
Example C19_scripted_query_foreign_ex :
  let o1 := o_obj (dispatch (OConsumer ex_consumer) (seek_op (tag "b") 1 5) exe_hv (VL []) exe_ev) in
  C19_scripted (OConsumer ex_consumer) o1
  /\ o_result (dispatch o1 (query_op (tag "b") 1) exe_hv (VL []) exe_ev) = vt "ok" [vt "none" []]
  /\ o_result (dispatch o1 (query_op (tag "a") 1) exe_hv (VL []) exe_ev) = vt "ok" [vt "some" [VI 19]].
Proof.
  cbv zeta. split.
  - apply C19_scripted_call; [apply C19_scripted_refl|left; eexists; reflexivity].
  - vm_compute. split; reflexivity.
Qed.

Check C19_dispatch_seek.
Check C19_dispatch_mark.
Check C19_refused_seek_leaves_consumer.
Check C19_refused_seek_no_trace.
Check C19_refused_mark_leaves_consumer.
Check C19_scripted_step.
Check C19_scripted_history_keeps_set.
Check C19_scripted_history_keeps_marks.
Check C19_dispatch_subscriptions.
Check C19_dispatch_seek_ok_iff.
Check C19_dispatch_mark_ok_iff.
Check C19_scripted_history_exact.
Check C19_dispatch_query.
Check C19_scripted_query_foreign.

Print Assumptions C19_dispatch_seek.
Print Assumptions C19_dispatch_mark.
Print Assumptions C19_refused_seek_leaves_consumer.
Print Assumptions C19_refused_seek_no_trace.
Print Assumptions C19_refused_mark_leaves_consumer.
Print Assumptions C19_scripted_step.
Print Assumptions C19_scripted_history_keeps_set.
Print Assumptions C19_scripted_history_keeps_marks.
Print Assumptions C19_dispatch_subscriptions.
Print Assumptions C19_dispatch_seek_ok_iff.
Print Assumptions C19_dispatch_mark_ok_iff.
Print Assumptions C19_scripted_history_exact.
Print Assumptions C19_dispatch_query.
Print Assumptions C19_scripted_query_foreign.
