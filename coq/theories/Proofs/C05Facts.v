(* C05: the produce requests built from a batch (src/client/mod.rs: internal_produce_messages,
   __produce_messages; src/protocol/produce.rs: ProduceRequest::add; src/producer.rs: send_all).

   For `produce_reqs s msgs [] = Some reqs`:
   - C05_exactly_once   the message set stored for (host, topic, partition) is exactly the sub-sequence of the
                        batch destined there (same order, each record once);
   - C05_single_set     hosts / topics of one host / partitions of one topic are pairwise distinct, so
                        "the message set for (host, topic, partition)" is one entry of one request
                        (C05_entry_is_msgs_for);
   - C05_leader_only    every entry sits in the request of the leader of its partition and is non-empty;
   - C05_reorder_harmless  the HashMap iteration order only permutes the per-host requests;
   - C05_noack_no_read  with acks = 0 nothing is ever read and the result is [];
   - C05_producer_same  the producer's send_all builds the same requests from the partitioned records.
   The association-list lemmas come from C20Facts.v (Part 0). *)
From Coq Require Import ZifyBool Sorting.Permutation.
From KV Require Import Base.Prelude Gen.Consts Model.Codecs Model.Requests Model.Responses
                       Model.ClientState Model.Net Model.Client Model.Producer.
From KV Require Import Proofs.BytesFacts Proofs.C20Facts.

(* ================================================================================================== *)
(* Part 1: the message set of a destination                                                            *)
(* ================================================================================================== *)
(* the concatenation, over the requests addressed to `host`, their entries for topic `t` and the
   partition entries `p` of those, of the message lists (see msgs_for_flat_map for the spelled-out form) *)
Definition msgs_for (reqs : list (bytes * produce_tps)) (host t : bytes) (p : Z) : list pmsg :=
  sel bytes_eqb host (sel bytes_eqb t (sel Z.eqb p (fun ms : list pmsg => ms))) reqs.

Lemma msgs_for_flat_map reqs host t p :
  msgs_for reqs host t p
  = flat_map (fun '(h, tps) =>
                if bytes_eqb h host
                then flat_map (fun '(t', ps) =>
                                 if bytes_eqb t' t
                                 then flat_map (fun '(p', ms) => if p' =? p then ms else []) ps
                                 else []) (tps : produce_tps)
                else []) reqs.
Proof.
  unfold msgs_for, sel. apply flat_map_ext. intros [h tps]. cbn [fst snd].
  destruct (bytes_eqb h host); [|reflexivity].
  apply flat_map_ext. intros [t' ps]. cbn [fst snd]. destruct (bytes_eqb t' t); [|reflexivity].
  apply flat_map_ext. intros [p' ms]. reflexivity.
Qed.

(* keys distinct at the three levels *)
Definition wf_tps (tps : produce_tps) : Prop :=
  NoDup (map fst tps) /\ forall t ps, In (t, ps) tps -> NoDup (map fst ps).
Definition wf_reqs (reqs : list (bytes * produce_tps)) : Prop :=
  NoDup (map fst reqs) /\ forall h tps, In (h, tps) reqs -> wf_tps tps.

Lemma wf_tps_nil : wf_tps [].
Proof. split; [constructor|intros t ps []]. Qed.
Lemma wf_reqs_nil : wf_reqs [].
Proof. split; [constructor|intros h tps []]. Qed.

Lemma produce_add_wf tps t p m : wf_tps tps -> wf_tps (produce_add tps t p m).
Proof.
  intros [H1 H2]. split; [apply produce_add_NoDup; exact H1|].
  rewrite produce_add_upsert.
  apply (upsert_all bytes_eqb bytes_eqb_eq (fun _ ps => NoDup (map fst ps))).
  - exact H2.
  - intros v _ Hv. apply pp_add_NoDup. exact Hv.
  - apply pp_add_NoDup. constructor.
Qed.

Lemma phost_add_wf reqs h t p m : wf_reqs reqs -> wf_reqs (phost_add reqs h t p m).
Proof.
  intros [H1 H2]. split; [apply phost_add_NoDup; exact H1|].
  rewrite phost_add_upsert.
  apply (upsert_all bytes_eqb bytes_eqb_eq (fun _ tps => wf_tps tps)).
  - exact H2.
  - intros v _ Hv. apply produce_add_wf. exact Hv.
  - apply produce_add_wf. exact wf_tps_nil.
Qed.

Lemma produce_reqs_wf s msgs : forall acc reqs,
  wf_reqs acc -> produce_reqs s msgs acc = Some reqs -> wf_reqs reqs.
Proof.
  induction msgs as [|m r IH]; intros acc reqs Hacc; cbn [produce_reqs].
  - intros H. injection H as <-. exact Hacc.
  - destruct (find_broker s (pq_topic m) (pq_partition m)) as [host|]; [|discriminate].
    apply IH. apply phost_add_wf. exact Hacc.
Qed.

(* one insert appends the message to the set of its destination and changes no other set *)
Lemma sel_pp_add ps p' m p : NoDup (map fst ps) ->
  sel Z.eqb p (fun ms : list pmsg => ms) (pp_add ps p' m)
  = sel Z.eqb p (fun ms : list pmsg => ms) ps ++ (if p' =? p then [m] else []).
Proof.
  intros H. rewrite pp_add_upsert.
  apply (sel_upsert Z.eqb Z.eqb_eq p (fun ms : list pmsg => ms) ps p' (fun ms => ms ++ [m]) [m] [m] H).
  - intros v _. reflexivity.
  - reflexivity.
Qed.

Lemma sel_produce_add tps t' p' m t p : wf_tps tps ->
  sel bytes_eqb t (sel Z.eqb p (fun ms : list pmsg => ms)) (produce_add tps t' p' m)
  = sel bytes_eqb t (sel Z.eqb p (fun ms : list pmsg => ms)) tps
    ++ (if bytes_eqb t' t then (if p' =? p then [m] else []) else []).
Proof.
  intros [H1 H2]. rewrite produce_add_upsert.
  apply (sel_upsert bytes_eqb bytes_eqb_eq t (sel Z.eqb p (fun ms : list pmsg => ms)) tps t'
                    (fun ps => pp_add ps p' m) (pp_add [] p' m) (if p' =? p then [m] else []) H1).
  - intros ps Hps. apply sel_pp_add. apply (H2 t' ps Hps).
  - rewrite sel_pp_add by constructor. reflexivity.
Qed.

Lemma msgs_for_phost_add reqs h t' p' m host t p : wf_reqs reqs ->
  msgs_for (phost_add reqs h t' p' m) host t p
  = msgs_for reqs host t p
    ++ (if bytes_eqb h host then (if bytes_eqb t' t then (if p' =? p then [m] else []) else []) else []).
Proof.
  intros [H1 H2]. unfold msgs_for. rewrite phost_add_upsert.
  apply (sel_upsert bytes_eqb bytes_eqb_eq host (sel bytes_eqb t (sel Z.eqb p (fun ms : list pmsg => ms)))
                    reqs h (fun tps => produce_add tps t' p' m) (produce_add [] t' p' m)
                    (if bytes_eqb t' t then (if p' =? p then [m] else []) else []) H1).
  - intros tps Htps. apply sel_produce_add. apply (H2 h tps Htps).
  - rewrite sel_produce_add by exact wf_tps_nil. reflexivity.
Qed.

(* the records of the batch destined to (host, t, p): topic and partition equal and `host` is the
   leader find_broker resolves for that partition *)
Definition dest (s : cstate) (host t : bytes) (p : Z) (m : produce_message) : bool :=
  bytes_eqb (pq_topic m) t && (pq_partition m =? p)
  && match find_broker s t p with Some h => bytes_eqb h host | None => false end.

Definition pmsg_of (m : produce_message) : pmsg := (pq_key m, pq_value m).

Lemma produce_reqs_msgs_for s msgs : forall acc reqs,
  wf_reqs acc -> produce_reqs s msgs acc = Some reqs ->
  forall host t p,
    msgs_for reqs host t p = msgs_for acc host t p ++ map pmsg_of (filter (dest s host t p) msgs).
Proof.
  induction msgs as [|m r IH]; intros acc reqs Hacc; cbn [produce_reqs filter map].
  - intros H host t p. injection H as <-. rewrite app_nil_r. reflexivity.
  - destruct (find_broker s (pq_topic m) (pq_partition m)) as [h|] eqn:E; [|discriminate].
    intros H host t p. rewrite (IH _ _ (phost_add_wf _ _ _ _ _ Hacc) H host t p).
    rewrite msgs_for_phost_add by exact Hacc. rewrite <- app_assoc. f_equal.
    unfold dest at 2.
    destruct (bytes_eqb (pq_topic m) t) eqn:Et.
    + destruct (pq_partition m =? p) eqn:Ep.
      * apply bytes_eqb_eq in Et. apply Z.eqb_eq in Ep. rewrite <- Et, <- Ep, E. cbn [andb].
        destruct (bytes_eqb h host); reflexivity.
      * cbn [andb]. destruct (bytes_eqb h host); reflexivity.
    + cbn [andb]. destruct (bytes_eqb h host); reflexivity.
Qed.

Theorem C05_exactly_once : forall s msgs reqs,
  produce_reqs s msgs [] = Some reqs ->
  forall host t p, msgs_for reqs host t p = map pmsg_of (filter (dest s host t p) msgs).
Proof.
  intros s msgs reqs H host t p.
  rewrite (produce_reqs_msgs_for s msgs [] reqs wf_reqs_nil H host t p). reflexivity.
Qed.

(* to no other broker: a host that is not the leader of t/p gets nothing for t/p *)
Corollary C05_no_other_broker : forall s msgs reqs,
  produce_reqs s msgs [] = Some reqs ->
  forall host t p, find_broker s t p <> Some host -> msgs_for reqs host t p = [].
Proof.
  intros s msgs reqs H host t p Hne. rewrite (C05_exactly_once s msgs reqs H).
  assert (Hf : forall m, dest s host t p m = false).
  { intros m. unfold dest. destruct (find_broker s t p) as [h|]; [|apply andb_false_r].
    destruct (bytes_eqb h host) eqn:Eh; [|apply andb_false_r].
    apply bytes_eqb_eq in Eh. subst h. contradiction Hne. reflexivity. }
  clear H. induction msgs as [|m r IH]; cbn [filter map]; [reflexivity|]. rewrite Hf. exact IH.
Qed.

(* and the leader gets every record of t/p, in batch order *)
Corollary C05_leader_gets_all : forall s msgs reqs,
  produce_reqs s msgs [] = Some reqs ->
  forall host t p, find_broker s t p = Some host ->
    msgs_for reqs host t p
    = map pmsg_of (filter (fun m => bytes_eqb (pq_topic m) t && (pq_partition m =? p)) msgs).
Proof.
  intros s msgs reqs H host t p Hl. rewrite (C05_exactly_once s msgs reqs H). f_equal.
  apply filter_ext. intros m. unfold dest. rewrite Hl, bytes_eqb_refl. apply andb_true_r.
Qed.

Theorem C05_single_set : forall s msgs reqs,
  produce_reqs s msgs [] = Some reqs ->
  NoDup (map fst reqs)
  /\ forall host tps, In (host, tps) reqs ->
       NoDup (map fst tps) /\ forall t ps, In (t, ps) tps -> NoDup (map fst ps).
Proof. intros s msgs reqs H. exact (produce_reqs_wf s msgs [] reqs wf_reqs_nil H). Qed.

(* with distinct keys, the message set of a destination IS the entry stored there *)
Lemma wf_entry_is_msgs_for reqs host tps t ps p ms :
  wf_reqs reqs -> In (host, tps) reqs -> In (t, ps) tps -> In (p, ms) ps -> msgs_for reqs host t p = ms.
Proof.
  intros [H1 H2] Hh Ht Hp. destruct (H2 host tps Hh) as [H3 H4]. specialize (H4 t ps Ht).
  unfold msgs_for. unfold produce_tps, produce_parts in *.
  rewrite (sel_gassoc bytes_eqb bytes_eqb_eq) by exact H1.
  assert (E1 : gassoc bytes_eqb host reqs = Some tps) by (apply (In_gassoc bytes_eqb bytes_eqb_eq); assumption).
  rewrite E1.
  rewrite (sel_gassoc bytes_eqb bytes_eqb_eq) by exact H3.
  assert (E2 : gassoc bytes_eqb t tps = Some ps) by (apply (In_gassoc bytes_eqb bytes_eqb_eq); assumption).
  rewrite E2.
  rewrite (sel_gassoc Z.eqb Z.eqb_eq) by exact H4.
  assert (E3 : gassoc Z.eqb p ps = Some ms) by (apply (In_gassoc Z.eqb Z.eqb_eq); assumption).
  rewrite E3. reflexivity.
Qed.

Theorem C05_entry_is_msgs_for : forall s msgs reqs,
  produce_reqs s msgs [] = Some reqs ->
  forall host tps t ps p ms, In (host, tps) reqs -> In (t, ps) tps -> In (p, ms) ps ->
    ms = map pmsg_of (filter (fun m => bytes_eqb (pq_topic m) t && (pq_partition m =? p)) msgs).
Proof.
  intros s msgs reqs H host tps t ps p ms Hh Ht Hp.
  rewrite <- (wf_entry_is_msgs_for reqs host tps t ps p ms (produce_reqs_wf s msgs [] reqs wf_reqs_nil H) Hh Ht Hp).
  apply (C05_leader_gets_all s msgs reqs H).
  apply (C20_produce_leader s msgs reqs H host tps t ps p ms Hh Ht Hp).
Qed.

Theorem C05_leader_only : forall s msgs reqs,
  produce_reqs s msgs [] = Some reqs ->
  forall host tps t ps p ms, In (host, tps) reqs -> In (t, ps) tps -> In (p, ms) ps ->
    find_broker s t p = Some host /\ ms <> [].
Proof. exact C20_produce_leader. Qed.

(* every record of the batch is in the message set of its own destination *)
Corollary C05_every_record_sent : forall s msgs reqs,
  produce_reqs s msgs [] = Some reqs ->
  forall m, In m msgs ->
    exists host, find_broker s (pq_topic m) (pq_partition m) = Some host
                 /\ In (pmsg_of m) (msgs_for reqs host (pq_topic m) (pq_partition m)).
Proof.
  intros s msgs reqs H m Hm.
  destruct (find_broker s (pq_topic m) (pq_partition m)) as [host|] eqn:E.
  - exists host. split; [reflexivity|]. rewrite (C05_leader_gets_all s msgs reqs H host _ _ E).
    apply in_map. apply filter_In. split; [exact Hm|]. rewrite bytes_eqb_refl, Z.eqb_refl. reflexivity.
  - exfalso. assert (Hn : produce_reqs s msgs [] = None) by (apply C20_produce_local_fail; exists m; auto).
    rewrite Hn in H. discriminate.
Qed.

Theorem C05_reorder_harmless : forall order (reqs : list (bytes * produce_tps)),
  Permutation (reorder order reqs) reqs.
Proof. intros order reqs. apply reorder_perm. Qed.

(* the same sets are found after reordering *)
Lemma sel_perm {V W} (g : V -> list W) k (l l' : list (bytes * V)) :
  NoDup (map fst l) -> Permutation l' l -> sel bytes_eqb k g l' = sel bytes_eqb k g l.
Proof.
  intros Hnd Hp.
  assert (Hnd' : NoDup (map fst l')).
  { eapply Permutation_NoDup; [apply Permutation_sym; apply Permutation_map; exact Hp|exact Hnd]. }
  rewrite !(sel_gassoc bytes_eqb bytes_eqb_eq) by assumption.
  destruct (gassoc bytes_eqb k l) as [v|] eqn:E.
  - apply (gassoc_In bytes_eqb bytes_eqb_eq) in E.
    rewrite (In_gassoc bytes_eqb bytes_eqb_eq k v l' Hnd'); [reflexivity|].
    eapply Permutation_in; [apply Permutation_sym; exact Hp|exact E].
  - destruct (gassoc bytes_eqb k l') as [v'|] eqn:E'; [|reflexivity].
    apply (gassoc_In bytes_eqb bytes_eqb_eq) in E'.
    assert (Hin : In (k, v') l) by (eapply Permutation_in; [exact Hp|exact E']).
    rewrite (In_gassoc bytes_eqb bytes_eqb_eq k v' l Hnd Hin) in E. discriminate.
Qed.

Corollary C05_reorder_same_sets : forall s msgs reqs order,
  produce_reqs s msgs [] = Some reqs ->
  forall host t p, msgs_for (reorder order reqs) host t p = msgs_for reqs host t p.
Proof.
  intros s msgs reqs order H host t p. unfold msgs_for. apply sel_perm.
  - apply (C05_single_set s msgs reqs H).
  - apply reorder_perm.
Qed.

(* ================================================================================================== *)
(* Part 2: what the exchange loop does on the wire                                                     *)
(* ================================================================================================== *)
Definition is_read (e : ev_op) : bool := match e with ERead _ _ => true | _ => false end.
Definition ev_host (e : ev_op) : bytes :=
  match e with EConnect h => h | EWrite h _ => h | ERead h _ => h | EShutdown h => h end.

(* running m only pushes events satisfying P onto the trace *)
Definition grows {A} (P : ev_op -> Prop) (m : M A) : Prop :=
  forall x r x', m x = (r, x') -> exists evs, trace x' = evs ++ trace x /\ Forall P evs.

Lemma grows_weaken {A} (P Q : ev_op -> Prop) (m : M A) : (forall e, P e -> Q e) -> grows P m -> grows Q m.
Proof.
  intros HPQ Hm x r x' E. destruct (Hm x r x' E) as [evs [H1 H2]]. exists evs. split; [exact H1|].
  eapply Forall_impl; [exact HPQ|exact H2].
Qed.

Lemma grows_silent {A} (P : ev_op -> Prop) (m : M A) : (forall x, trace (snd (m x)) = trace x) -> grows P m.
Proof.
  intros H x r x' E. exists []. specialize (H x). rewrite E in H. split; [exact H|constructor].
Qed.

Lemma grows_ret {A} (P : ev_op -> Prop) (a : A) : grows P (ret a).
Proof. apply grows_silent. reflexivity. Qed.
Lemma grows_fail {A} (P : ev_op -> Prop) e : grows P (@fail A e).
Proof. apply grows_silent. reflexivity. Qed.
Lemma grows_lift {A} (P : ev_op -> Prop) (r : res A) : grows P (lift r).
Proof. apply grows_silent. reflexivity. Qed.
Lemma grows_get_client (P : ev_op -> Prop) : grows P get_client.
Proof. apply grows_silent. reflexivity. Qed.
Lemma grows_get_env (P : ev_op -> Prop) : grows P get_env.
Proof. apply grows_silent. reflexivity. Qed.
Lemma grows_set_client (P : ev_op -> Prop) c : grows P (set_client c).
Proof. apply grows_silent. reflexivity. Qed.

Lemma grows_bind {A B} (P : ev_op -> Prop) (m : M A) (f : A -> M B) : grows P m -> (forall a, grows P (f a)) -> grows P (mbind m f).
Proof.
  intros Hm Hf x r x' E. unfold mbind in E. destruct (m x) as [[a|e|w] x1] eqn:E1.
  - destruct (Hm _ _ _ E1) as [ev1 [T1 F1]]. destruct (Hf a _ _ _ E) as [ev2 [T2 F2]].
    exists (ev2 ++ ev1). rewrite T2, T1, app_assoc. split; [reflexivity|]. apply Forall_app. split; assumption.
  - injection E as <- <-. apply (Hm _ _ _ E1).
  - injection E as <- <-. apply (Hm _ _ _ E1).
Qed.

Lemma grows_io (P : ev_op -> Prop) op : P op -> grows P (io op).
Proof.
  intros HP x r x' E. unfold io in E. exists [op].
  destruct (script x); injection E as <- <-; (split; [reflexivity|constructor; [exact HP|constructor]]).
Qed.

Lemma grows_with_fuel {A} (P : ev_op -> Prop) (f : nat -> M A) : (forall n, grows P (f n)) -> grows P (with_fuel f).
Proof. intros H x r x' E. unfold with_fuel in E. apply (H _ _ _ _ E). Qed.

Lemma grows_set_conns (P : ev_op -> Prop) l : grows P (set_conns l).
Proof. unfold set_conns. apply grows_bind; [apply grows_get_client|intros c; apply grows_set_client]. Qed.

(* events of the write side / of the read side of a connection to h are allowed *)
Definition okw (P : ev_op -> Prop) (h : bytes) : Prop :=
  P (EConnect h) /\ P (EShutdown h) /\ forall b, P (EWrite h b).
Definition okr (P : ev_op -> Prop) (h : bytes) : Prop := forall n, P (ERead h n).

Lemma grows_write_all (P : ev_op -> Prop) h : (forall b, P (EWrite h b)) -> forall fuel buf, grows P (write_all fuel h buf).
Proof.
  intros HP. induction fuel as [|f IH]; intros [|b bs]; cbn [write_all];
    try apply grows_ret; try apply grows_fail.
  apply grows_bind; [apply grows_io; apply HP|].
  intros o. destruct o; try apply grows_fail.
  - destruct (k <=? 0); [apply grows_fail|apply IH].
  - apply IH.
Qed.

Lemma grows_send (P : ev_op -> Prop) h msg : okw P h -> grows P (send h msg).
Proof.
  intros (_ & _ & HW). unfold send. apply grows_bind; [|intros _; apply grows_ret].
  apply grows_with_fuel. intros n. apply grows_write_all. exact HW.
Qed.

Lemma grows_send_request (P : ev_op -> Prop) h payload : okw P h -> grows P (send_request h payload).
Proof.
  intros H. unfold send_request. apply grows_bind; [apply grows_lift|]. intros p. apply grows_send. exact H.
Qed.

Lemma grows_new_conn (P : ev_op -> Prop) h : P (EConnect h) -> grows P (new_conn h).
Proof.
  intros H. unfold new_conn. apply grows_bind; [apply grows_io; exact H|].
  intros o. destruct o as [[|]| | | | | | |]; try apply grows_fail. apply grows_ret.
Qed.

Lemma grows_shutdown (P : ev_op -> Prop) h : P (EShutdown h) -> grows P (shutdown h).
Proof.
  intros H. unfold shutdown. apply grows_bind; [apply grows_io; exact H|]. intros _. apply grows_ret.
Qed.

Lemma grows_get_conn (P : ev_op -> Prop) h : okw P h -> grows P (get_conn h).
Proof.
  intros (HC & HS & _). unfold get_conn. apply grows_bind; [apply grows_get_client|]. intros c.
  destruct (in_pool h (conns c)).
  - destruct (idle_expired (cfg c)); [|apply grows_ret].
    apply grows_bind; [apply grows_new_conn; exact HC|]. intros _. apply grows_shutdown. exact HS.
  - apply grows_bind; [apply grows_new_conn; exact HC|]. intros _. apply grows_set_conns.
Qed.

Lemma grows_read_exact (P : ev_op -> Prop) h : okr P h -> forall fuel n acc, grows P (read_exact fuel h n acc).
Proof.
  intros HP. induction fuel as [|f IH]; intros n acc; cbn [read_exact]; destruct (n <=? 0);
    try apply grows_ret; try apply grows_fail.
  apply grows_bind; [apply grows_io; apply HP|].
  intros o. destruct o as [| | | |bs| | |]; try apply grows_fail.
  - destruct bs; [apply grows_fail|apply IH].
  - apply IH.
Qed.

Lemma grows_read_chunks (P : ev_op -> Prop) h : okr P h -> forall fuel remaining acc, grows P (read_chunks fuel h remaining acc).
Proof.
  intros HP. induction fuel as [|f IH]; intros n acc; cbn [read_chunks]; destruct (n <=? 0);
    try apply grows_ret; try apply grows_fail.
  cbv zeta. apply grows_bind; [|intros b; apply IH].
  apply grows_with_fuel. intros g. apply grows_read_exact. exact HP.
Qed.

Lemma grows_get_response_bytes (P : ev_op -> Prop) h : okr P h -> grows P (get_response_bytes h).
Proof.
  intros HP. unfold get_response_bytes, get_response_size, read_exact_alloc.
  apply grows_bind.
  - apply grows_bind; [apply grows_with_fuel; intros f; apply grows_read_exact; exact HP|].
    intros b. cbv zeta. destruct (be_dec_s b <? 0); [apply grows_fail|apply grows_ret].
  - intros size. apply grows_with_fuel. intros f. apply grows_read_chunks. exact HP.
Qed.

Lemma grows_get_response {A} (P : ev_op -> Prop) (d : dec A) h : okr P h -> grows P (get_response d h).
Proof.
  intros HP. unfold get_response. apply grows_bind; [apply grows_get_response_bytes; exact HP|].
  intros b. apply grows_bind; [apply grows_lift|]. intros [a rest]. apply grows_ret.
Qed.

Lemma grows_send_receive {A} (P : ev_op -> Prop) (d : dec A) h payload : okw P h -> okr P h -> grows P (send_receive d h payload).
Proof.
  intros HW HR. unfold send_receive. apply grows_bind; [apply grows_get_conn; exact HW|]. intros _.
  apply grows_bind; [apply grows_send_request; exact HW|]. intros _. apply grows_get_response. exact HR.
Qed.

(* whatever acks is: every I/O event of the exchange loop concerns a host that has a request *)
Theorem C05_only_request_hosts : forall corr acks timeout reqs acc,
  grows (fun e => In (ev_host e) (map fst reqs)) (produce_exchange corr acks timeout reqs acc).
Proof.
  intros corr acks timeout reqs. induction reqs as [|[h tps] r IH]; intros acc; cbn [produce_exchange].
  - apply grows_ret.
  - assert (HW : okw (fun e => In (ev_host e) (map fst ((h, tps) :: r))) h).
    { repeat split; intros; left; reflexivity. }
    assert (HR : okr (fun e => In (ev_host e) (map fst ((h, tps) :: r))) h).
    { intros n. left. reflexivity. }
    assert (Hrec : forall acc', grows (fun e => In (ev_host e) (map fst ((h, tps) :: r)))
                                      (produce_exchange corr acks timeout r acc')).
    { intros acc'. eapply grows_weaken; [|apply IH]. intros e He. right. exact He. }
    apply grows_bind; [apply grows_get_client|]. intros c.
    apply grows_bind; [apply grows_get_env|]. intros e. cbv zeta.
    destruct (acks =? 0).
    + apply grows_bind; [apply grows_get_conn; exact HW|]. intros _.
      apply grows_bind; [apply grows_send_request; exact HW|]. intros _. apply Hrec.
    + apply grows_bind; [apply grows_send_receive; assumption|]. intros [z rtps]. apply Hrec.
Qed.

Lemma mbind_Ok_inv {A B} (m : M A) (f : A -> M B) x v x' :
  mbind m f x = (Ok v, x') -> exists a x1, m x = (Ok a, x1) /\ f a x1 = (Ok v, x').
Proof.
  unfold mbind. destruct (m x) as [[a|e|w] x1]; [|discriminate|discriminate].
  intros H. exists a, x1. split; [reflexivity|exact H].
Qed.

Lemma produce_exchange_noack_nil corr timeout reqs : forall acc x v x',
  produce_exchange corr 0 timeout reqs acc x = (Ok v, x') -> v = [].
Proof.
  induction reqs as [|[h tps] r IH]; intros acc x v x' H; cbn [produce_exchange] in H.
  - change (0 =? 0) with true in H. cbv iota in H. injection H as <- _. reflexivity.
  - apply mbind_Ok_inv in H. destruct H as (c & x1 & _ & H).
    apply mbind_Ok_inv in H. destruct H as (e & x2 & _ & H).
    cbv zeta in H. change (0 =? 0) with true in H. cbv iota in H.
    apply mbind_Ok_inv in H. destruct H as (u1 & x3 & _ & H).
    apply mbind_Ok_inv in H. destruct H as (u2 & x4 & _ & H).
    apply (IH _ _ _ _ H).
Qed.

Theorem C05_noack_no_read : forall corr timeout reqs acc x r x',
  produce_exchange corr 0 timeout reqs acc x = (r, x') ->
  (exists evs, trace x' = evs ++ trace x
               /\ Forall (fun e => is_read e = false /\ In (ev_host e) (map fst reqs)) evs)
  /\ (forall v, r = Ok v -> v = []).
Proof.
  intros corr timeout reqs acc x r x' H. split.
  - revert acc x r x' H. change (forall acc, grows (fun e => is_read e = false /\ In (ev_host e) (map fst reqs))
                                               (produce_exchange corr 0 timeout reqs acc)).
    induction reqs as [|[h tps] rs IH]; intros acc; cbn [produce_exchange].
    + apply grows_ret.
    + assert (HW : okw (fun e => is_read e = false /\ In (ev_host e) (map fst ((h, tps) :: rs))) h).
      { repeat split; intros; left; reflexivity. }
      apply grows_bind; [apply grows_get_client|]. intros c.
      apply grows_bind; [apply grows_get_env|]. intros e. cbv zeta.
      change (0 =? 0) with true. cbv iota.
      apply grows_bind; [apply grows_get_conn; exact HW|]. intros _.
      apply grows_bind; [apply grows_send_request; exact HW|]. intros _.
      eapply grows_weaken; [|apply IH]. intros e0 [H1 H2]. split; [exact H1|right; exact H2].
  - intros v ->. apply (produce_exchange_noack_nil corr timeout reqs acc x v x' H).
Qed.

(* with acks <> 0: the confirmations are acc followed, request by request in the order the requests
   are sent, by the per-partition results of the decoded response of that request *)
Definition confirms_of (rtps : list (bytes * list produce_part)) : list confirm :=
  map (fun '(t, ps) => (t, map produce_confirm ps)) rtps.

Theorem C05_confirms : forall corr acks timeout reqs acc x v x',
  acks <> 0 ->
  produce_exchange corr acks timeout reqs acc x = (Ok v, x') ->
  exists resps : list (list (bytes * list produce_part)),
    length resps = length reqs /\ v = acc ++ flat_map confirms_of resps.
Proof.
  intros corr acks timeout reqs acc x v x' Hacks. apply Z.eqb_neq in Hacks.
  revert acc x v x'. induction reqs as [|[h tps] r IH]; intros acc x v x' H; cbn [produce_exchange] in H.
  - rewrite Hacks in H. injection H as <- _. exists []. split; [reflexivity|]. cbn [flat_map]. rewrite app_nil_r. reflexivity.
  - apply mbind_Ok_inv in H. destruct H as (c & x1 & _ & H).
    apply mbind_Ok_inv in H. destruct H as (e & x2 & _ & H).
    cbv zeta in H. rewrite Hacks in H.
    apply mbind_Ok_inv in H. destruct H as ([z rtps] & x3 & _ & H).
    apply IH in H. destruct H as (resps & Hl & ->). exists (rtps :: resps). split; [cbn [length]; rewrite Hl; reflexivity|].
    cbn [flat_map]. unfold confirms_of at 2. rewrite <- app_assoc. reflexivity.
Qed.

(* the call: local failure, or exactly one correlation id, then the (reordered) requests go out *)
Theorem C05_call_unfold : forall acks timeout msgs x,
  match produce_reqs (cs (cl x)) msgs [] with
  | None => internal_produce_messages acks timeout msgs x
            = (Err (EKafka KC_UnknownTopicOrPartition), bump_corr x)
  | Some reqs => internal_produce_messages acks timeout msgs x
                 = (let+ reqs' := ordered reqs in
                    produce_exchange (fst (next_correlation_id (cs (cl x)))) acks timeout reqs' []) (bump_corr x)
  end.
Proof.
  intros acks timeout msgs x. unfold internal_produce_messages.
  rewrite (mbind_run _ _ _ _ _ (next_corr_run x)).
  rewrite (mbind_run _ _ _ _ _ (get_client_run (bump_corr x))).
  change (cs (cl (bump_corr x))) with (snd (next_correlation_id (cs (cl x)))).
  rewrite (produce_reqs_ext _ (cs (cl x)) (find_broker_next_corr (cs (cl x)))).
  destruct (produce_reqs (cs (cl x)) msgs []); reflexivity.
Qed.

(* ---- in aggregate: the requests hold the records of the batch, nothing else, nothing twice ---------- *)
Definition all_msgs (reqs : list (bytes * produce_tps)) : list pmsg :=
  flat_map (fun htps => flat_map (fun tps => flat_map snd (snd tps)) (snd htps)) reqs.

Lemma flat_map_upsert_perm {K V W} (eqb : K -> K -> bool) (G : V -> list W) l k f d extra :
  (forall v, Permutation (G (f v)) (G v ++ extra)) -> Permutation (G d) extra ->
  Permutation (flat_map (fun kv => G (snd kv)) (upsert eqb l k f d))
              (flat_map (fun kv => G (snd kv)) l ++ extra).
Proof.
  intros Hf Hd. induction l as [|[k' v] r IH]; cbn [upsert flat_map snd app].
  - rewrite app_nil_r. exact Hd.
  - destruct (eqb k' k); cbn [flat_map snd].
    + eapply perm_trans; [apply Permutation_app_tail; apply Hf|].
      rewrite <- !app_assoc. apply Permutation_app_head. apply Permutation_app_comm.
    + rewrite <- app_assoc. apply Permutation_app_head. exact IH.
Qed.

Lemma all_msgs_phost_add reqs h t p m : Permutation (all_msgs (phost_add reqs h t p m)) (all_msgs reqs ++ [m]).
Proof.
  unfold all_msgs. rewrite phost_add_upsert.
  apply (flat_map_upsert_perm bytes_eqb
           (fun tps : produce_tps => flat_map (fun tps0 => flat_map snd (snd tps0)) tps)).
  - intros tps. rewrite produce_add_upsert.
    apply (flat_map_upsert_perm bytes_eqb
             (fun ps : produce_parts => flat_map snd ps)).
    + intros ps. rewrite pp_add_upsert.
      apply (flat_map_upsert_perm Z.eqb (fun ms : list pmsg => ms)); intros; apply Permutation_refl.
    + apply Permutation_refl.
  - apply Permutation_refl.
Qed.

Lemma produce_reqs_all_msgs s msgs : forall acc reqs,
  produce_reqs s msgs acc = Some reqs -> Permutation (all_msgs reqs) (all_msgs acc ++ map pmsg_of msgs).
Proof.
  induction msgs as [|m r IH]; intros acc reqs; cbn [produce_reqs map].
  - intros H. injection H as <-. rewrite app_nil_r. apply Permutation_refl.
  - destruct (find_broker s (pq_topic m) (pq_partition m)) as [h|]; [|discriminate].
    intros H. eapply perm_trans; [apply (IH _ _ H)|].
    eapply perm_trans; [apply Permutation_app_tail; apply all_msgs_phost_add|].
    rewrite <- app_assoc. apply Permutation_refl.
Qed.

Theorem C05_all_records_once : forall s msgs reqs,
  produce_reqs s msgs [] = Some reqs ->
  Permutation (all_msgs reqs) (map pmsg_of msgs) /\ length (all_msgs reqs) = length msgs.
Proof.
  intros s msgs reqs H. pose proof (produce_reqs_all_msgs s msgs [] reqs H) as Hp. cbn [all_msgs flat_map app] in Hp.
  split; [exact Hp|]. rewrite (Permutation_length Hp), map_length. reflexivity.
Qed.

(* ================================================================================================== *)
(* Part 3: the producer builds the same requests                                                       *)
(* ================================================================================================== *)
(* the records after partitioning, in order, with the counter threaded through (a right fold over the
   records); unlike send_all it does not stop at the first unknown destination *)
Fixpoint partitioned (parts : list (bytes * pparts)) (cntr : Z) (recs : list record) : list produce_message * Z :=
  match recs with
  | [] => ([], cntr)
  | r :: rest =>
      let key := to_option (r_key r) in
      let '(p, cntr') := partition parts cntr (r_topic r) (r_partition r) key in
      let '(ms, c) := partitioned parts cntr' rest in
      ({| pq_topic := r_topic r; pq_partition := p; pq_key := key; pq_value := to_option (r_value r) |} :: ms, c)
  end.

Theorem C05_producer_same : forall s parts recs cntr reqs,
  fst (send_all_reqs s parts cntr recs reqs) = produce_reqs s (fst (partitioned parts cntr recs)) reqs.
Proof.
  intros s parts. induction recs as [|r rest IH]; intros cntr reqs; cbn [send_all_reqs partitioned]; [reflexivity|].
  cbv zeta. destruct (partition parts cntr (r_topic r) (r_partition r) (to_option (r_key r))) as [p c'].
  destruct (partitioned parts c' rest) as [ms c] eqn:E2.
  cbn [fst produce_reqs pq_topic pq_partition pq_key pq_value].
  destruct (find_broker s (r_topic r) p) as [host|]; [|reflexivity].
  rewrite IH, E2. reflexivity.
Qed.

(* on success the counter is the one after partitioning every record *)
Theorem C05_producer_counter : forall s parts recs cntr reqs,
  fst (send_all_reqs s parts cntr recs reqs) <> None ->
  snd (send_all_reqs s parts cntr recs reqs) = snd (partitioned parts cntr recs).
Proof.
  intros s parts. induction recs as [|r rest IH]; intros cntr reqs; cbn [send_all_reqs partitioned]; [reflexivity|].
  cbv zeta. destruct (partition parts cntr (r_topic r) (r_partition r) (to_option (r_key r))) as [p c'].
  destruct (partitioned parts c' rest) as [ms c] eqn:E2.
  destruct (find_broker s (r_topic r) p) as [host|]; [|intros H; exfalso; apply H; reflexivity].
  intros H. rewrite (IH _ _ H), E2. reflexivity.
Qed.

Lemma send_all_reqs_ext s s' parts : (forall t p, find_broker s t p = find_broker s' t p) ->
  forall recs cntr reqs, send_all_reqs s parts cntr recs reqs = send_all_reqs s' parts cntr recs reqs.
Proof.
  intros H. induction recs as [|r rest IH]; intros cntr reqs; cbn [send_all_reqs]; [reflexivity|].
  cbv zeta. destruct (partition parts cntr (r_topic r) (r_partition r) (to_option (r_key r))) as [p c'].
  rewrite H. destruct (find_broker s' (r_topic r) p); [apply IH|reflexivity].
Qed.

(* the producer's send_all: a record with an unknown destination fails the call before any I/O *)
Theorem C05_producer_local_fail : forall p recs x,
  produce_reqs (cs (cl x)) (fst (partitioned (p_parts p) (p_cntr p) recs)) [] = None ->
  producer_send_all p recs x = (Err (EKafka KC_UnknownTopicOrPartition), bump_corr x).
Proof.
  intros p recs x H. unfold producer_send_all.
  rewrite (mbind_run _ _ _ _ _ (next_corr_run x)).
  rewrite (mbind_run _ _ _ _ _ (get_client_run (bump_corr x))).
  change (cs (cl (bump_corr x))) with (snd (next_correlation_id (cs (cl x)))).
  rewrite (send_all_reqs_ext _ (cs (cl x)) _ (find_broker_next_corr (cs (cl x)))).
  pose proof (C05_producer_same (cs (cl x)) (p_parts p) recs (p_cntr p) []) as Hs. rewrite H in Hs.
  destruct (send_all_reqs (cs (cl x)) (p_parts p) (p_cntr p) recs []) as [oreqs c']. cbn [fst] in Hs. subst oreqs.
  reflexivity.
Qed.

Theorem C05_producer_call_unfold : forall p recs x reqs,
  produce_reqs (cs (cl x)) (fst (partitioned (p_parts p) (p_cntr p) recs)) [] = Some reqs ->
  producer_send_all p recs x
  = (let+ reqs' := ordered reqs in
     let+ cf := produce_exchange (fst (next_correlation_id (cs (cl x)))) (p_acks p) (p_ack_timeout p) reqs' [] in
     ret (cf, producer_set_cntr p (snd (partitioned (p_parts p) (p_cntr p) recs)))) (bump_corr x).
Proof.
  intros p recs x reqs H. unfold producer_send_all.
  rewrite (mbind_run _ _ _ _ _ (next_corr_run x)).
  rewrite (mbind_run _ _ _ _ _ (get_client_run (bump_corr x))).
  change (cs (cl (bump_corr x))) with (snd (next_correlation_id (cs (cl x)))).
  rewrite (send_all_reqs_ext _ (cs (cl x)) _ (find_broker_next_corr (cs (cl x)))).
  pose proof (C05_producer_same (cs (cl x)) (p_parts p) recs (p_cntr p) []) as Hs. rewrite H in Hs.
  pose proof (C05_producer_counter (cs (cl x)) (p_parts p) recs (p_cntr p) []) as Hc.
  destruct (send_all_reqs (cs (cl x)) (p_parts p) (p_cntr p) recs []) as [oreqs c']. cbn [fst snd] in Hs, Hc.
  subst oreqs. rewrite Hc by discriminate. reflexivity.
Qed.

(* ================================================================================================== *)
(* Examples: the state and batch of C20Facts.v (two brokers; the batch interleaves t1 and t2, names    *)
(* t1/0 and t2/0 twice, and its records go to both brokers)                                            *)
(* ================================================================================================== *)
Definition c05_reqs : list (bytes * produce_tps) :=
  [ (tag "h0:9092", [ (tag "t1", [ (0, [(None, Some (tag "a")); (None, Some (tag "c"))]);
                                   (3, [(None, Some (tag "f"))]) ]);
                      (tag "t2", [ (1, [(None, Some (tag "e"))]) ]) ]);
    (tag "h1:9092", [ (tag "t2", [ (0, [(Some (tag "k"), Some (tag "b")); (None, Some (tag "g"))]) ]);
                      (tag "t1", [ (2, [(None, None)]) ]) ]) ].

Example c05_reqs_ex : produce_reqs c20_state c20_batch [] = Some c05_reqs.
Proof. vm_compute. reflexivity. Qed.

Example C05_exactly_once_ex :
  msgs_for c05_reqs (tag "h0:9092") (tag "t1") 0 = [(None, Some (tag "a")); (None, Some (tag "c"))]
  /\ map pmsg_of (filter (dest c20_state (tag "h0:9092") (tag "t1") 0) c20_batch)
     = [(None, Some (tag "a")); (None, Some (tag "c"))]
  /\ msgs_for c05_reqs (tag "h1:9092") (tag "t2") 0 = [(Some (tag "k"), Some (tag "b")); (None, Some (tag "g"))]
  /\ msgs_for c05_reqs (tag "h1:9092") (tag "t1") 0 = []
  /\ map pmsg_of (filter (dest c20_state (tag "h1:9092") (tag "t1") 0) c20_batch) = []
  /\ msgs_for c05_reqs (tag "h0:9092") (tag "t1") 1 = [].
Proof. vm_compute. repeat split; reflexivity. Qed.

Example C05_single_set_ex :
  map fst c05_reqs = [tag "h0:9092"; tag "h1:9092"]
  /\ map (fun htps => map fst (snd htps)) c05_reqs = [[tag "t1"; tag "t2"]; [tag "t2"; tag "t1"]]
  /\ map (fun htps => map (fun tps => map fst (snd tps)) (snd htps)) c05_reqs = [[[0; 3]; [1]]; [[0]; [2]]].
Proof. vm_compute. repeat split; reflexivity. Qed.

Example C05_leader_only_ex :
  In (tag "h1:9092", [ (tag "t2", [ (0, [(Some (tag "k"), Some (tag "b")); (None, Some (tag "g"))]) ]);
                       (tag "t1", [ (2, [(None, None)]) ]) ]) c05_reqs
  /\ find_broker c20_state (tag "t2") 0 = Some (tag "h1:9092")
  /\ find_broker c20_state (tag "t1") 2 = Some (tag "h1:9092").
Proof. split; [right; left; reflexivity|]. vm_compute. split; reflexivity. Qed.

Example C05_reorder_harmless_ex :
  reorder [tag "h1:9092"; tag "h7:1"] c05_reqs = rev c05_reqs
  /\ reorder [tag "h7:1"] c05_reqs = c05_reqs.
Proof. vm_compute. split; reflexivity. Qed.

Example C05_all_records_once_ex :
  length (all_msgs c05_reqs) = 7%nat /\ length c20_batch = 7%nat.
Proof. vm_compute. split; reflexivity. Qed.

(* acks = 0: both requests are written (second host first, as hostq says; a short write and an
   interrupted write on the way), nothing is read - the OData item stays in the script *)
Definition c05_st0 : st :=
  {| script := [OConn true; OWrote 1000; OConn true; OWrote 10; OWriteIntr; OWrote 1000; OData (tag "never read")];
     trace := []; anyq := []; hostq := [[tag "h1:9092"]];
     fetchq := []; entryq := []; cl := c20_client 1; env := c20_env |}.

Example C05_noack_no_read_ex :
  fst (internal_produce_messages 0 1000 c20_batch c05_st0) = Ok []
  /\ map (fun e => (ev_host e, is_read e)) (trace (snd (internal_produce_messages 0 1000 c20_batch c05_st0)))
     = [ (tag "h0:9092", false); (tag "h0:9092", false); (tag "h0:9092", false); (tag "h0:9092", false);
         (tag "h1:9092", false); (tag "h1:9092", false) ]
  /\ script (snd (internal_produce_messages 0 1000 c20_batch c05_st0)) = [OData (tag "never read")].
Proof. vm_compute. repeat split; reflexivity. Qed.

(* acks = 1: one response per request, confirmations in the order the requests went out *)
Definition c05_resp (corr : Z) (t : bytes) (p off : Z) : bytes :=
  enc_i32 corr ++ enc_i32 1 ++ enc_i16 (ulen t) ++ t ++ enc_i32 1 ++ enc_i32 p ++ enc_i16 0 ++ enc_i64 off.

Definition c05_st1 : st :=
  {| script := [ OConn true; OWrote 1000; OData (enc_i32 (ulen (c05_resp 8 (tag "t2") 0 40)));
                 OData (c05_resp 8 (tag "t2") 0 40);
                 OConn true; OWrote 1000; OData (enc_i32 (ulen (c05_resp 8 (tag "t1") 3 77)));
                 OData (c05_resp 8 (tag "t1") 3 77) ];
     trace := []; anyq := []; hostq := [[tag "h1:9092"]];
     fetchq := []; entryq := []; cl := c20_client 1; env := c20_env |}.

Example C05_confirms_ex :
  fst (internal_produce_messages 1 1000 c20_batch c05_st1)
  = Ok [ (tag "t2", [(0, inl 40)]); (tag "t1", [(3, inl 77)]) ]
  /\ map ev_host (trace (snd (internal_produce_messages 1 1000 c20_batch c05_st1)))
     = [ tag "h0:9092"; tag "h0:9092"; tag "h0:9092"; tag "h0:9092";
         tag "h1:9092"; tag "h1:9092"; tag "h1:9092"; tag "h1:9092" ].
Proof. vm_compute. split; reflexivity. Qed.

(* the producer: keyless records rotate over the available partitions 0, 2, 3 of t1; a keyed one is hashed *)
Definition c05_rec t p k v := {| r_topic := t; r_partition := p; r_key := k; r_value := v |}.
Definition c05_recs : list record :=
  [ c05_rec (tag "t1") (-1) [] (tag "a"); c05_rec (tag "t2") 0 (tag "k") (tag "b");
    c05_rec (tag "t1") (-1) [] (tag "c"); c05_rec (tag "t1") (-1) [] (tag "d");
    c05_rec (tag "t1") (-1) (tag "key") (tag "e"); c05_rec (tag "t1") (-1) [] [] ].

Example C05_producer_same_ex :
  map (fun m => (pq_topic m, pq_partition m)) (fst (partitioned (producer_state c20_state) 0 c05_recs))
  = [ (tag "t1", 0); (tag "t2", 0); (tag "t1", 2); (tag "t1", 3); (tag "t1", 0); (tag "t1", 0) ]
  /\ snd (partitioned (producer_state c20_state) 0 c05_recs) = 4
  /\ send_all_reqs c20_state (producer_state c20_state) 0 c05_recs []
     = (Some [ (tag "h0:9092", [ (tag "t1", [ (0, [(None, Some (tag "a")); (Some (tag "key"), Some (tag "e")); (None, None)]);
                                              (3, [(None, Some (tag "d"))]) ]) ]);
               (tag "h1:9092", [ (tag "t2", [ (0, [(Some (tag "k"), Some (tag "b"))]) ]);
                                 (tag "t1", [ (2, [(None, Some (tag "c"))]) ]) ]) ], 4)
  /\ fst (send_all_reqs c20_state (producer_state c20_state) 0 (c05_recs ++ [c05_rec (tag "t1") 1 [] (tag "x")]) []) = None.
Proof. vm_compute. repeat split; reflexivity. Qed.

Print Assumptions C05_exactly_once.
Print Assumptions C05_no_other_broker.
Print Assumptions C05_leader_gets_all.
Print Assumptions C05_single_set.
Print Assumptions C05_entry_is_msgs_for.
Print Assumptions C05_leader_only.
Print Assumptions C05_every_record_sent.
Print Assumptions C05_all_records_once.
Print Assumptions C05_reorder_harmless.
Print Assumptions C05_reorder_same_sets.
Print Assumptions C05_only_request_hosts.
Print Assumptions C05_noack_no_read.
Print Assumptions C05_confirms.
Print Assumptions C05_call_unfold.
Print Assumptions C05_producer_same.
Print Assumptions C05_producer_counter.
Print Assumptions C05_producer_local_fail.
Print Assumptions C05_producer_call_unfold.
