(* C03, fourth adequacy pass (seeded change C03-7).

   C03-7: client/mod.rs - the body of `__send_request` becomes `__render_request(buffer, request)` (reserve 4 bytes,
   encode, store `buffer.len() - 4` at `buffer[0..4]`), and the RequiredAcks::None branch of `__produce_messages`
   renders ALL per-broker requests into ONE buffer before sending the slices.  With two or more brokers the first
   slice announces "all bytes - 4" and every other slice announces 0: no broker receives a produce request.

   Where that code is in the model: `Net.send_request` (= `send h (frame p)`, `Requests.frame` being the size prefix)
   and the `acks =? 0` branch of `Client.produce_exchange`.  The mirrored change (scratch copy /tmp/pw/C03/mut7:
   `render_request buffer p := enc_i32 (ulen (buffer ++ 0000 ++ p) - 4) ++ skipn 4 (buffer ++ 0000 ++ p)`, all
   requests rendered first, then `get_conn h; send h slice` per host) is COVERED by C03_call_stream (and by
   C03_produce_messages_stream / C03_given_stream, which are instances of it): its second part demands, for every
   record of a successful call, a write `EWrite h (frame bs)` to the record's leader.  On the mutated model the
   NEGATION of that statement was proved with the two-broker batch of C05Facts (c20_batch, c05_st0, acks 0:
   the writes start 00 00 01 37 .. for h1 - the size of both frames - and 00 00 00 00 .. for h0).
   (C03_call_in_order / C03_produce_messages_in_order / C03_producer_in_order only say that the call IS
   `produce_exchange ..` and stay provable: they start before the changed code.)

   What C03_call_stream leaves open, and what this file adds.  It is a statement about single write() calls: every
   write offers "the rest of some frame", and on success the whole frame was OFFERED once.  It does not say what a
   broker has RECEIVED: the bytes the stream accepted (the answers `OWrote k` of the script, k bytes of the offered
   buffer each time), put together, over the whole call and over successive calls.  A client that offered the whole
   frame and then re-sent part of it, sent a frame twice, or appended something after it would still satisfy it.
   The property's observation point is exactly that: "bytes of produce requests received by the reference broker".

   Part 1: `received h s s'` - the bytes host h accepted between two states - and its algebra (histories).
   Part 2: what `send`, `get_conn`, `get_response` deliver.
   Part 3: the exchange loop and the whole call: on success every broker of the request map has received EXACTLY the
           frame of its own request - nothing before, nothing after, no other broker anything - for every acks
           (0 included: the branch the seed changes) and every way the stream splits the writes.
   Part 4: histories: what two successive calls leave at a broker is the two frames back to back; and the reading of
           the received bytes by the request grammar / strict message-set parser / independent decompressor.

   (Also checked on the mutated scratch copy: the NEGATION of C03_call_received - h0 has not received `frame p0` -
   with the same witness; /tmp/pw/C03/mut7/scratch/Neg7.v and Neg7b.v.)

   Not done: the received bytes of a FAILED call (a prefix of the frame for the host that failed, whole frames for
   the hosts before it, nothing for the hosts after it) - `write_end`'s three error cases would each need the
   analogue of `delivers_send`; the Producer-level wrappers (send_all is `internal_produce_messages` followed by a
   pure step, C05_producer_call_unfold). *)
From Coq Require Import ZifyBool Sorting.Permutation.
From KV Require Import Base.Prelude Base.Crc32 Gen.Consts Model.Codecs Model.Requests Model.Responses
                       Model.ClientState Model.Net Model.Client Model.Producer.
From KV Require Import Spec.MsgSetSpec Spec.ReqGrammar.
From KV Require Import Proofs.BytesFacts Proofs.NetFacts Proofs.C03Facts Proofs.C09Facts Proofs.C20Facts
                       Proofs.C05Facts Proofs.C05Extra2 Proofs.C05ExtraB Proofs.C03Extra Proofs.C03ExtraB.
Ltac Zify.zify_post_hook ::= Z.div_mod_to_equations.

(* ================================================================================================== *)
(* Part 1: the bytes a host has received                                                               *)
(* ================================================================================================== *)

(* operations in execution order next to the answers they got: a write to h answered `OWrote k` handed the first
   k bytes of the offered buffer to h; nothing else hands anything to anybody *)
Fixpoint accepted (h : bytes) (ops : list ev_op) (outs : list ev_out) : bytes :=
  match ops, outs with
  | op :: ops', o :: outs' =>
      match op, o with
      | EWrite h' b, OWrote k => if bytes_eqb h' h then firstn (Z.to_nat k) b else []
      | _, _ => []
      end ++ accepted h ops' outs'
  | _, _ => []
  end.

(* between two states of one run *)
Definition received (h : bytes) (s s' : st) : bytes := accepted h (performed s s') (consumed s s').

Lemma accepted_app h : forall o1 u1 o2 u2, length o1 = length u1 ->
  accepted h (o1 ++ o2) (u1 ++ u2) = accepted h o1 u1 ++ accepted h o2 u2.
Proof.
  induction o1 as [|op o1 IH]; intros [|u u1] o2 u2 L; cbn [length] in L; try discriminate L; [reflexivity|].
  cbn [app accepted]. rewrite IH by (injection L as L; exact L). rewrite app_assoc. reflexivity.
Qed.

Lemma received_seg h s s' outs ops : seg s s' outs ops -> received h s s' = accepted h ops outs.
Proof. intros H. unfold received. rewrite (seg_consumed _ _ _ _ H), (seg_performed _ _ _ _ H). reflexivity. Qed.

Lemma received_refl h s : received h s s = [].
Proof. rewrite (received_seg h s s [] [] (seg_refl s)). reflexivity. Qed.

(* HISTORIES: what h has received over two stretches of a run is what it received in the first followed by what
   it received in the second (the first stretch having all its operations answered, e.g. a call that returned Ok) *)
Theorem C03_received_history : forall h s s1 s2,
  full s s1 -> ext s1 s2 -> received h s s2 = received h s s1 ++ received h s1 s2.
Proof.
  intros h s s1 s2 (o1 & p1 & S1 & L1) E2. apply ext_seg in E2.
  rewrite (received_seg h _ _ _ _ (seg_trans _ _ _ _ _ _ _ S1 E2)), (received_seg h _ _ _ _ S1).
  unfold received at 1. apply accepted_app. exact L1.
Qed.

Lemma accepted_quiet h ops : Forall not_write ops -> forall outs, accepted h ops outs = [].
Proof.
  induction 1 as [|op ops Hop _ IH]; intros [|o outs]; cbn [accepted]; try reflexivity.
  rewrite IH. destruct op; try reflexivity. contradiction Hop.
Qed.

Lemma wsteps_accepted h h' b ops outs chunks b' :
  wsteps h b ops outs chunks b' -> accepted h' ops outs = if bytes_eqb h h' then concat chunks else [].
Proof.
  induction 1 as [b|b k ops outs chunks b' Hne Hk Hw IH|b ops outs chunks b' Hne Hw IH].
  - cbn [accepted concat]. destruct (bytes_eqb h h'); reflexivity.
  - cbn [accepted concat]. rewrite IH. destruct (bytes_eqb h h'); reflexivity.
  - cbn [accepted]. exact IH.
Qed.

(* `delivers wire s s'`: between s and s' every operation was answered and every host has received exactly the
   messages addressed to it in `wire` (host, bytes), in this order, and nothing else *)
Definition for_host (h : bytes) (wire : list (bytes * bytes)) : bytes :=
  concat (map snd (filter (fun w => bytes_eqb (fst w) h) wire)).
Definition delivers (wire : list (bytes * bytes)) (s s' : st) : Prop :=
  full s s' /\ forall h, received h s s' = for_host h wire.

Lemma for_host_app h w1 w2 : for_host h (w1 ++ w2) = for_host h w1 ++ for_host h w2.
Proof. unfold for_host. rewrite filter_app, map_app, concat_app. reflexivity. Qed.

Lemma delivers_app w1 w2 s s1 s2 : delivers w1 s s1 -> delivers w2 s1 s2 -> delivers (w1 ++ w2) s s2.
Proof.
  intros [F1 R1] [F2 R2]. split; [eapply full_trans; eassumption|]. intros h.
  rewrite (C03_received_history h s s1 s2 F1 (full_ext _ _ F2)), R1, R2, for_host_app. reflexivity.
Qed.

(* ================================================================================================== *)
(* Part 2: what the pieces deliver                                                                     *)
(* ================================================================================================== *)

Lemma delivers_quiet {A} (m : M A) (P : ev_op -> Prop) :
  tracks m -> keeps (ops_in P) m -> (forall e, P e -> not_write e) ->
  forall x a x', m x = (Ok a, x') -> delivers [] x x'.
Proof.
  intros Ht Hk HP x a x' E. split; [exact (stepsR_ok_full a _ _ (Ht _ _ _ E))|].
  intros h. unfold received. destruct (Hk _ _ _ E) as [_ F]. apply accepted_quiet.
  eapply Forall_impl; [exact HP|exact F].
Qed.

(* KafkaConnection::send (write_all): when it returns Ok, h has received exactly `msg` - however the stream cut
   it up (short writes, interrupted writes) - and no other host anything *)
Lemma delivers_send h msg x n x' : send h msg x = (Ok n, x') -> delivers [(h, msg)] x x'.
Proof.
  intros E. unfold send in E. apply mbind_Ok_inv in E. destruct E as (u & x1 & E & Er).
  unfold ret in Er. injection Er as _ <-. unfold with_fuel in E.
  destruct (write_all_run _ _ _ _ _ _ E) as [_ (ops & outs & chunks & b' & Hw & He)].
  destruct He as [Hr Hb Hs|o Hb Hbad Hs|Hb Hr Hd Hs|Hb Hr Hf Hs]; try discriminate Hr.
  2:{ exfalso. destruct u. exact (write_bad_not_ok _ _ Hbad eq_refl). }
  subst b'. split.
  - exists outs, ops. split; [exact Hs|]. exact (wsteps_length _ _ _ _ _ _ Hw).
  - intros h'. rewrite (received_seg h' _ _ _ _ Hs), (wsteps_accepted _ h' _ _ _ _ _ Hw).
    pose proof (wsteps_concat _ _ _ _ _ _ Hw) as Hc. rewrite app_nil_r in Hc.
    unfold for_host. cbn [filter fst]. destruct (bytes_eqb h h'); cbn [map snd concat].
    + rewrite app_nil_r. symmetry. exact Hc.
    + reflexivity.
Qed.

Lemma conn_not_write h e : conn_event h e -> not_write e.
Proof. intros [->| ->]; exact I. Qed.
Lemma read_not_write h e : read_event h e -> not_write e.
Proof. intros [n ->]. exact I. Qed.

Lemma delivers_get_conn h x a x' : get_conn h x = (Ok a, x') -> delivers [] x x'.
Proof. exact (delivers_quiet (get_conn h) _ (tracks_get_conn h) (ops_get_conn h) (conn_not_write h) x a x'). Qed.

Lemma delivers_get_response {A} (d : dec A) h x a x' : get_response d h x = (Ok a, x') -> delivers [] x x'.
Proof.
  exact (delivers_quiet (get_response d h) _ (tracks_get_response d h) (ops_get_response A d h)
                        (read_not_write h) x a x').
Qed.

(* __send_request: the host receives the frame of the payload: its size, then the payload *)
Lemma delivers_send_request h payload x n x' :
  send_request h payload x = (Ok n, x') -> exists p, payload = Ok p /\ delivers [(h, frame p)] x x'.
Proof.
  intros E. unfold send_request in E. destruct payload as [p|e|w]; [|cbv in E; discriminate|cbv in E; discriminate].
  change (mbind (lift (Ok p)) (fun p0 => send h (frame p0)) x) with (send h (frame p) x) in E.
  exists p. split; [reflexivity|]. exact (delivers_send _ _ _ _ _ E).
Qed.

(* ================================================================================================== *)
(* Part 3: the exchange loop and the whole call                                                        *)
(* ================================================================================================== *)

(* `wire` is, request by request and in the same order, (host, frame of the encoded request of that host) *)
Definition wire_of (e0 : codecs) (g0 : config) (corr acks timeout : Z)
           (reqs : list (bytes * produce_tps)) (wire : list (bytes * bytes)) : Prop :=
  Forall2 (fun q w => fst w = fst q /\
                      exists p, enc_produce_req e0 corr (Net.client_id g0) acks timeout (compression g0) (snd q) = Ok p
                                /\ snd w = frame p) reqs wire.

Lemma exchange_delivers e0 g0 corr acks timeout : forall reqs acc x v x',
  env x = e0 -> cfg (cl x) = g0 ->
  produce_exchange corr acks timeout reqs acc x = (Ok v, x') ->
  exists wire, wire_of e0 g0 corr acks timeout reqs wire /\ delivers wire x x'.
Proof.
  induction reqs as [|[h tps] r IH]; intros acc x v x' He Hg E; cbn [produce_exchange] in E.
  - unfold ret in E. injection E as _ <-. exists []. split; [constructor|].
    split; [apply full_refl|]. intros h. rewrite received_refl. reflexivity.
  - rewrite (mbind_run _ _ _ _ _ (get_client_run x)) in E.
    rewrite (mbind_run get_env _ x (env x) x eq_refl) in E. cbv zeta in E. rewrite He, Hg in E.
    assert (Hfin : forall xm p acc',
               env xm = e0 -> cfg (cl xm) = g0 ->
               enc_produce_req e0 corr (Net.client_id g0) acks timeout (compression g0) tps = Ok p ->
               delivers [(h, frame p)] x xm ->
               produce_exchange corr acks timeout r acc' xm = (Ok v, x') ->
               exists wire, wire_of e0 g0 corr acks timeout ((h, tps) :: r) wire /\ delivers wire x x').
    { intros xm p acc' Hem Hgm Hp D Er.
      destruct (IH acc' xm v x' Hem Hgm Er) as (wire & W & D').
      exists ((h, frame p) :: wire). split.
      - constructor; [|exact W]. cbn [fst snd]. split; [reflexivity|]. exists p. split; [exact Hp|reflexivity].
      - exact (delivers_app [(h, frame p)] wire _ _ _ D D'). }
    destruct (acks =? 0).
    + apply mbind_Ok_inv in E. destruct E as (u1 & x1 & E1 & E).
      apply mbind_Ok_inv in E. destruct E as (u2 & x2 & E2 & E).
      destruct (NetFacts.frame_get_conn h _ _ _ E1) as (_ & _ & _ & _ & He1 & Hg1 & _).
      destruct (NetFacts.frame_send_request h _ _ _ _ E2) as (_ & _ & _ & _ & Hcl2 & He2).
      destruct (delivers_send_request _ _ _ _ _ E2) as (p & Hp & D2).
      apply (Hfin x2 p acc); [congruence|congruence|exact Hp| |exact E].
      exact (delivers_app [] [(h, frame p)] _ _ _ (delivers_get_conn _ _ _ _ E1) D2).
    + apply mbind_Ok_inv in E. destruct E as ([z rtps] & x3 & E1 & E).
      unfold send_receive in E1.
      apply mbind_Ok_inv in E1. destruct E1 as (u1 & x1 & E1 & E1').
      apply mbind_Ok_inv in E1'. destruct E1' as (u2 & x2 & E2 & E3).
      destruct (NetFacts.frame_get_conn h _ _ _ E1) as (_ & _ & _ & _ & He1 & Hg1 & _).
      destruct (NetFacts.frame_send_request h _ _ _ _ E2) as (_ & _ & _ & _ & Hcl2 & He2).
      destruct (NetFacts.frame_get_response _ dec_produce_resp h _ _ _ E3) as (_ & _ & _ & _ & Hcl3 & He3).
      destruct (delivers_send_request _ _ _ _ _ E2) as (p & Hp & D2).
      apply (Hfin x3 p (acc ++ map (fun '(t, ps) => (t, map produce_confirm ps)) rtps));
        [congruence|congruence|exact Hp| |exact E].
      pose proof (delivers_app [] [(h, frame p)] _ _ _ (delivers_get_conn _ _ _ _ E1) D2) as D12.
      pose proof (delivers_app _ [] _ _ _ D12 (delivers_get_response _ _ _ _ _ E3)) as D123.
      cbn [app] in D123. exact D123.
Qed.

(* __produce_messages (both branches): when the loop returns Ok, every host has received the frames of the
   requests addressed to it, in the order of the request list, and nothing else *)
Theorem C03_exchange_received : forall corr acks timeout reqs acc x v x',
  produce_exchange corr acks timeout reqs acc x = (Ok v, x') ->
  exists wire, wire_of (env x) (cfg (cl x)) corr acks timeout reqs wire /\ delivers wire x x'.
Proof.
  intros corr acks timeout reqs acc x v x' E.
  exact (exchange_delivers (env x) (cfg (cl x)) corr acks timeout reqs acc x v x' eq_refl eq_refl E).
Qed.

(* reading a wire whose hosts are pairwise different: one frame for a host of the map, nothing for any other *)
Lemma wire_none e0 g0 corr acks timeout reqs wire h :
  wire_of e0 g0 corr acks timeout reqs wire -> ~ In h (map fst reqs) -> for_host h wire = [].
Proof.
  induction 1 as [|q w reqs wire [Hw _] _ IH]; intros Hn; [reflexivity|].
  cbn [map In] in Hn. unfold for_host. cbn [filter].
  destruct (bytes_eqb (fst w) h) eqn:Eb.
  - exfalso. apply bytes_eqb_eq in Eb. apply Hn. left. congruence.
  - apply IH. intros Hin. apply Hn. right. exact Hin.
Qed.

Lemma wire_one e0 g0 corr acks timeout reqs wire h tps :
  wire_of e0 g0 corr acks timeout reqs wire -> NoDup (map fst reqs) -> In (h, tps) reqs ->
  exists p, enc_produce_req e0 corr (Net.client_id g0) acks timeout (compression g0) tps = Ok p
            /\ for_host h wire = frame p.
Proof.
  induction 1 as [|q w reqs wire [Hw (p & Hp & Hf)] HF IH]; intros Hnd Hin; [contradiction Hin|].
  cbn [map] in Hnd. inversion Hnd as [|a l Hnotin Hnd']; subst a l.
  destruct Hin as [->|Hin].
  - cbn [fst snd] in *. exists p. split; [exact Hp|].
    change (w :: wire) with ([w] ++ wire). rewrite for_host_app.
    rewrite (wire_none _ _ _ _ _ _ _ h HF Hnotin), app_nil_r.
    unfold for_host. cbn [filter]. rewrite Hw, bytes_eqb_refl. cbn [map concat]. rewrite app_nil_r. exact Hf.
  - destruct (IH Hnd' Hin) as (p' & Hp' & Hf'). exists p'. split; [exact Hp'|].
    change (w :: wire) with ([w] ++ wire). rewrite for_host_app, Hf'.
    unfold for_host. cbn [filter].
    assert (Hne : bytes_eqb (fst w) h = false).
    { apply bytes_eqb_neq. intros Heq. apply Hnotin. rewrite <- Hw, Heq.
      change h with (fst (h, tps)). apply in_map. exact Hin. }
    rewrite Hne. reflexivity.
Qed.

(* KafkaClient::internal_produce_messages (after the duration conversion), any acks - 0 included, where nothing is
   read back and the client cannot notice anything.  If the call returns Ok then, over the whole call and whatever
   way the streams cut the writes,
     - every broker that leads a partition of the batch has received EXACTLY the frame (4-byte size, then the
       request) of the one request built from its entry of the request map: no byte before it, none after it;
     - no other broker has received a single byte. *)
Theorem C03_call_received : forall acks t msgs reqs x v x',
  produce_reqs (cs (cl x)) msgs [] = Some reqs ->
  internal_produce_messages acks t msgs x = (Ok v, x') ->
  full x x' /\
  (forall h tps, In (h, tps) reqs ->
     exists p, call_payload x acks t tps = Ok p /\ received h x x' = frame p) /\
  (forall h, ~ In h (map fst reqs) -> received h x x' = []).
Proof.
  intros acks t msgs reqs x v x' Hreqs E.
  pose proof (C05_call_unfold acks t msgs x) as Hc. rewrite Hreqs in Hc. rewrite Hc in E. clear Hc.
  destruct (ordered_run_io reqs (bump_corr x)) as (o & y & Ho & Ht & Hs & He & Hcl).
  rewrite (mbind_run _ _ _ _ _ Ho) in E.
  destruct (C03_exchange_received _ _ _ _ _ _ _ _ E) as (wire & W & [F R]).
  rewrite He, Hcl in W. change (env (bump_corr x)) with (env x) in W.
  change (cfg (cl (bump_corr x))) with (cfg (cl x)) in W.
  destruct (bump_corr_trace x) as [Bt Bs]. rewrite Bt in Ht. rewrite Bs in Hs.
  assert (Hrec : forall h, received h x x' = received h y x').
  { intros h. unfold received, performed, consumed. rewrite Ht, Hs. reflexivity. }
  assert (Hperm : Permutation (reorder o reqs) reqs) by apply reorder_perm.
  assert (Hnd : NoDup (map fst (reorder o reqs))).
  { eapply Permutation_NoDup; [apply Permutation_map, Permutation_sym, Hperm|].
    exact (proj1 (produce_reqs_wf _ _ _ _ wf_reqs_nil Hreqs)). }
  split; [|split].
  - destruct F as (outs & ops & S & L). exists outs, ops. split; [|exact L].
    exact (seg_same_io _ _ _ _ _ Ht Hs S).
  - intros h tps Hin. rewrite Hrec, R.
    apply (wire_one _ _ _ _ _ _ _ h tps W Hnd). eapply Permutation_in; [apply Permutation_sym, Hperm|exact Hin].
  - intros h Hn. rewrite Hrec, R. apply (wire_none _ _ _ _ _ _ _ h W). intros Hin. apply Hn.
    eapply Permutation_in; [apply Permutation_map, Hperm|exact Hin].
Qed.

(* ================================================================================================== *)
(* Part 4: reading what was received; histories of calls                                               *)
(* ================================================================================================== *)

(* what the leader of any record of a successful call has RECEIVED is one frame, and - read by the independent
   request grammar, the strict message-set parser and the independent decompressor - that frame is a produce
   request with the call's acks and timeout whose entries are for partitions this broker leads and read back as
   exactly the caller's records for them, in the caller's order; the record's own partition is among them *)
Theorem C03_call_received_reads : forall dz acks t msgs reqs x v x' m,
  codec (compression (cfg (cl x))) -> inverts dz (env x) ->
  Forall (fun m => in_i32 (pq_partition m)) msgs -> ulen msgs <= i32_max ->
  (compression (cfg (cl x)) <> COMPRESSION_NONE -> Forall (fun m => fits (pmsg_of m)) msgs) ->
  in_i16 acks -> in_i32 t ->
  produce_reqs (cs (cl x)) msgs [] = Some reqs ->
  internal_produce_messages acks t msgs x = (Ok v, x') ->
  In m msgs ->
  exists h bs,
    find_broker (cs (cl x)) (pq_topic m) (pq_partition m) = Some h /\
    received h x x' = frame bs /\
    (ulen bs <= i32_max ->
     request_reads dz x acks t h (fun tp p => sent_to tp p msgs) bs /\
     exists topics ps sb,
       parse_frame (frame bs)
         = Some (produce_hdr (fst (next_correlation_id (cs (cl x)))) (Net.client_id (cfg (cl x))),
                 ProduceRequest acks t topics) /\
       In (pq_topic m, ps) topics /\ In (pq_partition m, sb) ps /\
       broker_read dz (compression (cfg (cl x))) sb = Some (sent_to (pq_topic m) (pq_partition m) msgs)).
Proof.
  intros dz acks t msgs reqs x v x' m Hc Hinv Hpart Hlen Hfit Ha Ht Hreqs E Hm.
  destruct (C03_call_received acks t msgs reqs x v x' Hreqs E) as (_ & Hone & _).
  destruct (C03_batch_complete (cs (cl x)) msgs reqs m Hreqs Hm) as [h [tps [ps [recs [Hl [Hh [Htp Hpp]]]]]]].
  destruct (Hone h tps Hh) as (bs & Hbs & Hrec).
  exists h, bs. split; [exact Hl|]. split; [exact Hrec|]. intros Hsz. unfold call_payload in Hbs. split.
  - unfold request_reads.
    eapply (C03_batch_in_order dz (env x) (cs (cl x)) msgs reqs h tps acks t); try eassumption.
    apply in_i32_next_corr.
  - pose proof (batch_wf_produce (cs (cl x)) msgs reqs h tps Hpart Hlen Hreqs Hh) as Hwf.
    assert (Hall : compression (cfg (cl x)) <> COMPRESSION_NONE -> all_fit tps).
    { intros Hn. eapply batch_all_fit; [exact (Hfit Hn)|exact Hreqs|exact Hh]. }
    destruct (C03_request_roundtrip dz (env x) tps acks t (compression (cfg (cl x)))
                (fst (next_correlation_id (cs (cl x)))) (Net.client_id (cfg (cl x))) bs
                Hc Hinv Hwf Ha Ht (in_i32_next_corr _) Hsz Hall Hbs) as [topics [Hparse Hrel]].
    unfold entries_rel in Hrel.
    destruct (Forall2_in_l _ _ _ _ Hrel Htp) as [[tq psq] [Htq [Hn Hps]]]. cbn [fst snd] in Hn, Hps. subst tq.
    destruct (Forall2_in_l _ _ _ _ Hps Hpp) as [[pq sb] [Hpq [Hn Hread]]]. cbn [fst snd] in Hn, Hread. subst pq.
    exists topics, psq, sb. split; [exact Hparse|]. split; [exact Htq|]. split; [exact Hpq|].
    rewrite Hread. f_equal.
    destruct (entry_partition_in_batch (cs (cl x)) msgs reqs h tps _ ps _ recs Hreqs Hh Htp Hpp) as [-> _].
    unfold sent_to. rewrite map_map. reflexivity.
Qed.

(* HISTORY of two calls (what the first leaves behind for the second): a broker that has a request in both has,
   after the two calls, received the first call's frame immediately followed by the second call's frame - the
   second request starts exactly where the first one's announced size ends; a broker that has a request only in the
   second has received just that *)
Theorem C03_two_calls_received : forall a1 t1 msgs1 reqs1 a2 t2 msgs2 reqs2 x v1 x1 v2 x2 h tps2,
  produce_reqs (cs (cl x)) msgs1 [] = Some reqs1 ->
  internal_produce_messages a1 t1 msgs1 x = (Ok v1, x1) ->
  produce_reqs (cs (cl x1)) msgs2 [] = Some reqs2 ->
  internal_produce_messages a2 t2 msgs2 x1 = (Ok v2, x2) ->
  In (h, tps2) reqs2 ->
  exists p2, call_payload x1 a2 t2 tps2 = Ok p2 /\
    (forall tps1, In (h, tps1) reqs1 ->
       exists p1, call_payload x a1 t1 tps1 = Ok p1 /\ received h x x2 = frame p1 ++ frame p2) /\
    (~ In h (map fst reqs1) -> received h x x2 = frame p2).
Proof.
  intros a1 t1 msgs1 reqs1 a2 t2 msgs2 reqs2 x v1 x1 v2 x2 h tps2 R1 E1 R2 E2 Hin2.
  destruct (C03_call_received _ _ _ _ _ _ _ R1 E1) as (F1 & One1 & None1).
  destruct (C03_call_received _ _ _ _ _ _ _ R2 E2) as (F2 & One2 & _).
  destruct (One2 h tps2 Hin2) as (p2 & Hp2 & Hr2). exists p2. split; [exact Hp2|].
  pose proof (C03_received_history h x x1 x2 F1 (full_ext _ _ F2)) as Hh. split.
  - intros tps1 Hin1. destruct (One1 h tps1 Hin1) as (p1 & Hp1 & Hr1). exists p1. split; [exact Hp1|].
    rewrite Hh, Hr1, Hr2. reflexivity.
  - intros Hn. rewrite Hh, (None1 h Hn), Hr2. reflexivity.
Qed.

(* ================================================================================================== *)
(* Examples (non-vacuity)                                                                               *)
(* ================================================================================================== *)

(* the acks = 0 run of C05Facts: two brokers in one call (the configuration seed C03-7 needs), the request for h1
   going out first; h0's stream takes 10 bytes, is interrupted once, then takes the rest *)
Definition exe_run := internal_produce_messages 0 1000 c20_batch c05_st0.
Definition exe_val := Eval vm_compute in exe_run.
Lemma exe_eq : internal_produce_messages 0 1000 c20_batch c05_st0 = exe_val.
Proof. vm_compute. reflexivity. Qed.

Definition exe_payload (h : bytes) : res bytes :=
  match filter (fun q => bytes_eqb (fst q) h) c05_reqs with
  | (_, tps) :: _ => call_payload c05_st0 0 1000 tps
  | [] => Err ECodec
  end.

(* the hypotheses of C03_call_received hold ... *)
Example C03_call_received_hyps_ex :
  produce_reqs (cs (cl c05_st0)) c20_batch [] = Some c05_reqs
  /\ internal_produce_messages 0 1000 c20_batch c05_st0 = (Ok [], snd exe_val)
  /\ map fst c05_reqs = [tag "h0:9092"; tag "h1:9092"].
Proof. split; [vm_compute; reflexivity|]. split; [exact exe_eq|reflexivity]. Qed.

(* ... and its conclusion, computed: each of the two brokers has received exactly the frame of its own request
   (size prefix = length of the rest), although h0 was written to three times; a third host nothing *)
Example C03_call_received_ex :
  match exe_payload (tag "h0:9092"), exe_payload (tag "h1:9092") with
  | Ok p0, Ok p1 =>
      received (tag "h0:9092") c05_st0 (snd exe_val) = frame p0
      /\ received (tag "h1:9092") c05_st0 (snd exe_val) = frame p1
      /\ received (tag "h2:9092") c05_st0 (snd exe_val) = []
      /\ firstn 4 (frame p0) = enc_i32 (ulen p0) /\ firstn 4 (frame p1) = enc_i32 (ulen p1)
      /\ p0 <> p1
      /\ length (filter (fun e => match e with EWrite h _ => bytes_eqb h (tag "h0:9092") | _ => false end)
                        (trace (snd exe_val))) = 3%nat
  | _, _ => False
  end.
Proof. vm_compute. repeat split; try reflexivity. intros H; discriminate H. Qed.

(* a history: the same call twice in a row (second script appended); h0 and h1 each hold two frames back to back,
   the second with the next correlation id *)
Definition exe_st2 : st :=
  {| script := [OConn true; OWrote 1000; OConn true; OWrote 10; OWriteIntr; OWrote 1000; OWrote 1000; OWrote 7; OWrote 1000];
     trace := []; anyq := []; hostq := [[tag "h1:9092"]; [tag "h0:9092"]];
     fetchq := []; entryq := []; cl := c20_client 1; env := c20_env |}.
Definition exe_val2 :=
  Eval vm_compute in
    (let r1 := internal_produce_messages 0 1000 c20_batch exe_st2 in
     let r2 := internal_produce_messages 0 1000 c20_batch (snd r1) in
     (fst r1, snd r1, fst r2, snd r2)).

Example C03_two_calls_received_ex :
  let '(r1, x1, r2, x2) := exe_val2 in
  r1 = Ok [] /\ r2 = Ok []
  /\ match call_payload exe_st2 0 1000 (snd (hd (tag "", []) c05_reqs)),
           call_payload x1 0 1000 (snd (hd (tag "", []) c05_reqs)) with
     | Ok p1, Ok p2 => received (tag "h0:9092") exe_st2 x2 = frame p1 ++ frame p2 /\ p1 <> p2
     | _, _ => False
     end.
Proof. vm_compute. repeat split; try reflexivity. intros H; discriminate H. Qed.

Check C03_received_history.
Check C03_exchange_received.
Check C03_call_received.
Check C03_call_received_reads.
Check C03_two_calls_received.

Print Assumptions C03_received_history.
Print Assumptions C03_exchange_received.
Print Assumptions C03_call_received.
Print Assumptions C03_call_received_reads.
Print Assumptions C03_two_calls_received.
