(* C16, additional theorems (2): the KafkaClient setters and getters; the fetch size of a freshly built consumer. *)
From KV Require Import Base.Prelude Gen.ErrorCodes Gen.Consts Model.Codecs Model.Requests Model.Responses
                       Model.ClientState Model.Net Model.Client Model.Val Model.Producer Model.Consumer Model.Dispatch.
From KV Require Import Proofs.BytesFacts Proofs.NetFacts Proofs.C07Facts Proofs.C19Facts Proofs.C16Facts Proofs.C16Extra.
From Coq Require Import ZifyBool.

(* ================================================================================== *)
(* 1. client setters (the KafkaClient set_ functions) and the getters                             *)
(* ================================================================================== *)

(* the configuration of the client after one call `op` *)
Definition cfg_after (c : client) (op hv scv ev : val) : option config :=
  match o_obj (dispatch (OClient c) op hv scv ev) with OClient c' => Some (cfg c') | _ => None end.

(* every setter replaces exactly its own field (upd_cfg lists the nine settable fields in the order
   client id, compression, max wait, min bytes, max bytes, crc, storage, retry attempts, idle time-out) *)
Theorem C16_client_setters : forall c hv scv ev,
  let g := cfg c in
  (forall id, cfg_after c (vt "set_client_id" [VB id]) hv scv ev
     = Some (upd_cfg g id (compression g) (fetch_max_wait_time g) (fetch_min_bytes g) (fetch_max_bytes_per_partition g)
                     (fetch_crc_validation g) (offset_storage g) (retry_max_attempts g) (idle_timeout g))) /\
  (forall x, cfg_after c (vt "set_compression" [VI x]) hv scv ev
     = Some (upd_cfg g (client_id g) x (fetch_max_wait_time g) (fetch_min_bytes g) (fetch_max_bytes_per_partition g)
                     (fetch_crc_validation g) (offset_storage g) (retry_max_attempts g) (idle_timeout g))) /\
  (forall x, cfg_after c (vt "set_fetch_min_bytes" [VI x]) hv scv ev
     = Some (upd_cfg g (client_id g) (compression g) (fetch_max_wait_time g) x (fetch_max_bytes_per_partition g)
                     (fetch_crc_validation g) (offset_storage g) (retry_max_attempts g) (idle_timeout g))) /\
  (forall x, cfg_after c (vt "set_fetch_max_bytes_per_partition" [VI x]) hv scv ev
     = Some (upd_cfg g (client_id g) (compression g) (fetch_max_wait_time g) (fetch_min_bytes g) x
                     (fetch_crc_validation g) (offset_storage g) (retry_max_attempts g) (idle_timeout g))) /\
  (forall x, cfg_after c (vt "set_fetch_crc_validation" [VI x]) hv scv ev
     = Some (upd_cfg g (client_id g) (compression g) (fetch_max_wait_time g) (fetch_min_bytes g)
                     (fetch_max_bytes_per_partition g) (negb (x =? 0)) (offset_storage g) (retry_max_attempts g)
                     (idle_timeout g))) /\
  (forall x, cfg_after c (vt "set_group_offset_storage" [VI x]) hv scv ev
     = Some (upd_cfg g (client_id g) (compression g) (fetch_max_wait_time g) (fetch_min_bytes g)
                     (fetch_max_bytes_per_partition g) (fetch_crc_validation g)
                     (if (x =? 0) || (x =? 1) then x else -1) (retry_max_attempts g) (idle_timeout g))) /\
  (forall x, cfg_after c (vt "set_retry_max_attempts" [VI x]) hv scv ev
     = Some (upd_cfg g (client_id g) (compression g) (fetch_max_wait_time g) (fetch_min_bytes g)
                     (fetch_max_bytes_per_partition g) (fetch_crc_validation g) (offset_storage g) x (idle_timeout g))) /\
  (forall a b, cfg_after c (vt "set_connection_idle_timeout" [VI a; VI b]) hv scv ev
     = Some (upd_cfg g (client_id g) (compression g) (fetch_max_wait_time g) (fetch_min_bytes g)
                     (fetch_max_bytes_per_partition g) (fetch_crc_validation g) (offset_storage g)
                     (retry_max_attempts g) (a, b))).
Proof. intros c hv scv ev g. repeat match goal with |- _ /\ _ => split end; intros; reflexivity. Qed.

(* the one setter that takes a duration for a wire field: accepted iff it fits, otherwise rejected and
   nothing changes *)
Theorem C16_client_set_max_wait : forall c hv scv ev a b,
  let g := cfg c in
  (forall m, to_millis_i32 (a, b) = Ok m ->
     cfg_after c (vt "set_fetch_max_wait_time" [VI a; VI b]) hv scv ev
     = Some (upd_cfg g (client_id g) (compression g) m (fetch_min_bytes g) (fetch_max_bytes_per_partition g)
                     (fetch_crc_validation g) (offset_storage g) (retry_max_attempts g) (idle_timeout g))) /\
  (to_millis_i32 (a, b) = Err EInvalidDuration ->
     dispatch (OClient c) (vt "set_fetch_max_wait_time" [VI a; VI b]) hv scv ev
     = pure (OClient c) (vt "err" [err_val EInvalidDuration])).
Proof.
  intros c hv scv ev a b g. split.
  - intros m H. unfold cfg_after. cbn -[to_millis_i32]. rewrite H. reflexivity.
  - intros H. cbn -[to_millis_i32]. rewrite H. reflexivity.
Qed.

(* the getters show the configuration *)
Theorem C16_client_getters : forall c hv scv ev,
  o_result (dispatch (OClient c) (vt "get_config" []) hv scv ev) = vt "ok" [config_view (cfg c)].
Proof. intros. reflexivity. Qed.

Example C16_client_setters_ex :
  let c := client_new [tag "h:9092"] in
  let hv := VL [] in
  cfg_after c (vt "set_fetch_min_bytes" [VI 77]) hv (VL []) (VL [])
  = Some (upd_cfg (cfg c) [] DEFAULT_COMPRESSION DEFAULT_FETCH_MAX_WAIT_TIME_MILLIS 77
                  DEFAULT_FETCH_MAX_BYTES_PER_PARTITION DEFAULT_FETCH_CRC_VALIDATION (-1) DEFAULT_RETRY_MAX_ATTEMPTS
                  (idle_timeout (cfg c)))
  /\ cfg_after c (vt "set_fetch_max_wait_time" [VI 2; VI 5000000]) hv (VL []) (VL [])
     = Some (upd_cfg (cfg c) [] DEFAULT_COMPRESSION 2005 DEFAULT_FETCH_MIN_BYTES
                  DEFAULT_FETCH_MAX_BYTES_PER_PARTITION DEFAULT_FETCH_CRC_VALIDATION (-1) DEFAULT_RETRY_MAX_ATTEMPTS
                  (idle_timeout (cfg c)))
  /\ to_millis_i32 (18446744073709552, 0) = Err EInvalidDuration     (* u64::MAX / 1000 + 1 seconds: not wrapped to 384 *)
  /\ o_result (dispatch (OClient c) (vt "set_fetch_max_wait_time" [VI 18446744073709552; VI 0]) hv (VL []) (VL []))
     = vt "err" [err_val EInvalidDuration].
Proof. vm_compute. repeat split. Qed.

(* ================================================================================== *)
(* 2. fetch max bytes: every fetch state of a freshly built consumer carries the       *)
(*    builder's fetch_max_bytes_per_partition                                          *)
(* ================================================================================== *)

Definition all_maxb (m : Z) (f : list (tpkey * (Z * Z))) : Prop := Forall (fun e => snd (snd e) = m) f.

Lemma tk_set_maxb m key o : forall f, all_maxb m f -> all_maxb m (tk_set key (o, m) f).
Proof.
  induction f as [|[k' v'] f IH]; intros H; cbn [tk_set].
  - constructor; [reflexivity|constructor].
  - pose proof (Forall_inv H) as Hx. pose proof (Forall_inv_tail H) as Hr. destruct (tpkey_eqb k' key).
    + constructor; [reflexivity|exact Hr].
    + constructor; [exact Hx|apply IH; exact Hr].
Qed.

Lemma fallback_states_maxb asg offsets m : forall subs acc r,
  all_maxb m acc -> fallback_states asg offsets m subs acc = Ok r -> all_maxb m r.
Proof.
  induction subs as [|[t ps] rest IH]; intros acc r Hacc H; cbn [fallback_states] in H.
  - inversion H; subst. exact Hacc.
  - destruct (topic_ref asg t) as [rf|]; [|discriminate H].
    destruct (assoc_bytes t offsets) as [offs|]; [|discriminate H].
    eapply IH; [|exact H]. clear H. revert acc Hacc.
    induction ps as [|p ps IHp]; intros acc Hacc; cbn [fold_left]; [exact Hacc|].
    apply IHp. apply tk_set_maxb. exact Hacc.
Qed.

Lemma range_parts_maxb dbg fb consumed latest earliest m t rf : forall ps acc r,
  all_maxb m acc -> range_parts dbg fb consumed latest earliest m t rf ps acc = Ok r -> all_maxb m r.
Proof.
  induction ps as [|p ps IH]; intros acc r Hacc H; cbn [range_parts] in H.
  - inversion H; subst. exact Hacc.
  - destruct (start_offset dbg fb (tk_get (rf, p) consumed) (lookup_off earliest t p) (lookup_off latest t p))
      as [off|e|w]; cbn [bind] in H; try discriminate H.
    eapply IH; [|exact H]. apply tk_set_maxb. exact Hacc.
Qed.

Lemma range_states_maxb dbg fb asg consumed latest earliest m : forall subs acc r,
  all_maxb m acc -> range_states dbg fb asg consumed latest earliest m subs acc = Ok r -> all_maxb m r.
Proof.
  induction subs as [|[t ps] rest IH]; intros acc r Hacc H; cbn [range_states] in H.
  - inversion H; subst. exact Hacc.
  - destruct (topic_ref asg t) as [rf|]; [|discriminate H].
    destruct (range_parts dbg fb consumed latest earliest m t rf ps acc) as [acc'|e|w] eqn:E; cbn [bind] in H;
      try discriminate H.
    eapply IH; [|exact H]. eapply range_parts_maxb; [exact Hacc|exact E].
Qed.

Lemma load_fetch_states_maxb fb asg subs consumed s f s' :
  load_fetch_states fb asg subs consumed s = (Ok f, s') ->
  all_maxb (fetch_max_bytes_per_partition (cfg (cl s))) f.
Proof.
  intros H. unfold load_fetch_states in H. cbv beta iota zeta delta [mbind get_client get_env] in H.
  destruct consumed as [|c0 cr].
  - destruct (load_partition_offsets (map fst subs) (fallback_time fb) s) as [[offsets|e|w] s1]; try discriminate H.
    unfold lift in H. inversion H as [[H1 H2]]. eapply fallback_states_maxb; [constructor|exact H1].
  - destruct (load_partition_offsets (map fst subs) FETCH_OFFSET_LATEST s) as [[latest|e|w] s1]; try discriminate H.
    destruct (load_partition_offsets (map fst subs) FETCH_OFFSET_EARLIEST s1) as [[earliest|e|w] s2]; try discriminate H.
    unfold lift in H. inversion H as [[H1 H2]]. eapply range_states_maxb; [constructor|exact H1].
Qed.

Theorem C16_consumer_create_max_bytes : forall src calls s k s',
  consumer_create src calls s = (Ok k, s') ->
  let b := fold_left cbuilder_apply calls (cbuilder_new src) in
  Forall (fun e : tpkey * (Z * Z) => snd (snd e) = cb_max_bytes b) (k_fetch k)
  /\ fetch_max_bytes_per_partition (cfg (k_client k)) = cb_max_bytes b.
Proof.
  intros src calls s k s' H b.
  destruct (C16_consumer_create_uses _ _ _ _ _ H) as (_ & _ & _ & _ & _ & wait & Hw). fold b in Hw.
  assert (Ha : cb_assign b <> []).
  { intros Ea. unfold consumer_create in H. fold b in H. cbv zeta in H. rewrite Ea in H. discriminate H. }
  pose proof (C16_consumer_create_wire _ _ _ _ _ wait H Ha Hw) as (_ & _ & _ & Hk). fold b in Hk.
  split; [|rewrite (Hk k eq_refl); reflexivity].
  rewrite (C16_consumer_create_config src calls s wait Ha Hw) in H. fold b in H.
  set (g := cfg_set_consumer (cfg (cl s)) b wait) in *.
  set (s0 := st_with_client s {| cfg := g; cs := cs (cl s); conns := conns (cl s) |}) in *.
  set (L := Lgroup (cb_group b)).
  assert (HG : okG L (cb_group b)) by reflexivity.
  unfold consumer_create_rest in H.
  apply C16Facts.mbind_ok in H. destruct H as (u & s1 & H1 & H). cbv zeta in H.
  assert (R1 : Rg g (env s) L s0 s1).
  { destruct src; [eapply (good_load_metadata_all g (env s) L s0); [reflexivity|reflexivity|exact H1]|].
    inversion H1; subst. apply preorder_Rg. }
  destruct R1 as (_ & C1 & E1).
  apply C16Facts.mbind_ok in H. destruct H as (c1 & s2 & H2 & H). inversion H2; subst c1 s2. clear H2.
  apply C16Facts.mbind_ok in H. destruct H as (subs & s3 & H3 & H). unfold lift in H3. inversion H3; subst s3. clear H3.
  apply C16Facts.mbind_ok in H. destruct H as (consumed & s4 & H4 & H).
  destruct (good_load_consumed_offsets g (env s) L _ _ _ HG s1 _ _ C1 E1 H4) as (_ & C4 & E4).
  apply C16Facts.mbind_ok in H. destruct H as (fetch & s5 & H5 & H).
  pose proof (load_fetch_states_maxb _ _ _ _ _ _ _ H5) as Hm.
  apply C16Facts.mbind_ok in H. destruct H as (c2 & s6 & H6 & H). unfold ret in H. inversion H; subst k.
  cbn [k_fetch]. rewrite C4, C1 in Hm. exact Hm.
Qed.

Example C16_consumer_create_max_bytes_ex :
  let b := fold_left cbuilder_apply [CWithMaxBytes 4096; CWithTopic (tag "t")] (cbuilder_new (inr ex_client)) in
  cb_max_bytes b = 4096 /\ fetch_max_bytes_per_partition (cfg_set_consumer ex_cfg b 250) = 4096.
Proof. split; reflexivity. Qed.

(* ================================================================================== *)
(* 3. fetch max bytes: what KafkaClient::fetch_messages puts into its requests         *)
(* ================================================================================== *)
Definition tps_ok (P : Z -> Prop) (tps : fetch_tps) : Prop :=
  Forall (fun tp : bytes * fetch_parts => Forall (fun e : Z * (Z * Z) => P (snd (snd e))) (snd tp)) tps.

Lemma fp_insert_ok (P : Z -> Prop) p off mb : P mb -> forall ps,
  Forall (fun e : Z * (Z * Z) => P (snd (snd e))) ps -> Forall (fun e : Z * (Z * Z) => P (snd (snd e))) (fp_insert ps p (off, mb)).
Proof.
  intros Hmb. induction ps as [|[q w] r IH]; intros H; cbn [fp_insert].
  - constructor; [exact Hmb|constructor].
  - pose proof (Forall_inv H) as Hx. pose proof (Forall_inv_tail H) as Hr. destruct (q =? p).
    + constructor; [exact Hmb|exact Hr].
    + constructor; [exact Hx|apply IH; exact Hr].
Qed.

Lemma fetch_add_ok (P : Z -> Prop) topic p off mb : P mb -> forall tps, tps_ok P tps -> tps_ok P (fetch_add tps topic p off mb).
Proof.
  intros Hmb. induction tps as [|[t ps] r IH]; intros H; cbn [fetch_add].
  - constructor; [|constructor]. cbn [snd]. constructor; [exact Hmb|constructor].
  - pose proof (Forall_inv H) as Hx. pose proof (Forall_inv_tail H) as Hr. destruct (bytes_eqb t topic).
    + constructor; [|exact Hr]. cbn [snd] in *. apply fp_insert_ok; assumption.
    + constructor; [exact Hx|apply IH; exact Hr].
Qed.

Lemma fhost_add_ok (P : Z -> Prop) host topic p off mb : P mb -> forall reqs,
  Forall (fun hr : bytes * fetch_tps => tps_ok P (snd hr)) reqs ->
  Forall (fun hr : bytes * fetch_tps => tps_ok P (snd hr)) (fhost_add reqs host topic p off mb).
Proof.
  intros Hmb. induction reqs as [|[h tps] r IH]; intros H; cbn [fhost_add].
  - constructor; [|constructor]. cbn [snd]. apply (fetch_add_ok P topic p off mb Hmb []). constructor.
  - pose proof (Forall_inv H) as Hx. pose proof (Forall_inv_tail H) as Hr. destruct (bytes_eqb h host).
    + constructor; [|exact Hr]. cbn [snd] in *. apply fetch_add_ok; assumption.
    + constructor; [exact Hx|apply IH; exact Hr].
Qed.

(* every partition entry of every per-broker request carries the caller's max_bytes if that is positive,
   else the configured fetch_max_bytes_per_partition *)
Theorem C16_fetch_reqs_max_bytes : forall c input (P : Z -> Prop),
  (forall q, In q input ->
     P (if 0 <? fq_max_bytes q then fq_max_bytes q else fetch_max_bytes_per_partition (cfg c))) ->
  Forall (fun hr : bytes * fetch_tps => tps_ok P (snd hr)) (fetch_reqs c input).
Proof.
  intros c input P. unfold fetch_reqs.
  assert (G : forall acc, Forall (fun hr : bytes * fetch_tps => tps_ok P (snd hr)) acc ->
     (forall q, In q input -> P (if 0 <? fq_max_bytes q then fq_max_bytes q else fetch_max_bytes_per_partition (cfg c))) ->
     Forall (fun hr : bytes * fetch_tps => tps_ok P (snd hr))
       (fold_left (fun reqs q =>
               match find_broker (cs c) (fq_topic q) (fq_partition q) with
               | None => reqs
               | Some host =>
                   fhost_add reqs host (fq_topic q) (fq_partition q) (fq_offset q)
                             (if 0 <? fq_max_bytes q then fq_max_bytes q
                              else fetch_max_bytes_per_partition (cfg c))
               end) input acc)).
  { induction input as [|q rest IH]; intros acc Hacc Hin; cbn [fold_left]; [exact Hacc|].
    apply IH; [|intros q' Hq'; apply Hin; right; exact Hq'].
    destruct (find_broker (cs c) (fq_topic q) (fq_partition q)) as [host|]; [|exact Hacc].
    apply fhost_add_ok; [apply Hin; left; reflexivity|exact Hacc]. }
  intros Hin. apply G; [constructor|exact Hin].
Qed.

Example C16_fetch_reqs_max_bytes_ex :
  fetch_reqs ex_client [{| fq_topic := tag "t"; fq_partition := 0; fq_offset := 5; fq_max_bytes := 0 |}]
  = [(exh, [(tag "t", [(0, (5, 999))])])].
Proof. vm_compute. reflexivity. Qed.

Print Assumptions C16_client_setters.
Print Assumptions C16_client_set_max_wait.
Print Assumptions C16_client_getters.
Print Assumptions C16_consumer_create_max_bytes.
Print Assumptions C16_fetch_reqs_max_bytes.
