(* C01, additional theorems, third pass (seeds C01-5 and C01-6).  New file; nothing existing is edited.

   MUTATION CHECKS (scratch copies /tmp/pw/C01/mut5, /tmp/pw/C01/mut6; the real model untouched):
   - C01-5 (protocol/fetch.rs TopicPartitionFetchRequest: Vec + push in add(), binary search in get()) mirrored in
     Requests.fp_insert (append, replacing the last element when it is the same partition) and in
     Responses.read_partition (assoc_z replaced by the loop of slice::binary_search_by_key): Proofs/C01Facts.v compiles
     unchanged, Proofs/C01Extra.v stops at read_partition_lower_bound, and the NEGATION of
     C01_decoded_from_requested_offset is proved there (Scratch/Refute5.v: request built by fetch_add for t/1 then t/0,
     reply with offsets 10, 11 for t/1 although 11 was asked: offset 10 is handed out).  COVERED.
   - C01-6 (Consumer::process_fetch_responses: the partition-error pre-check done per response inside the bookkeeping
     loop) mirrored in Consumer.process_fetch_responses: the NEGATIONS of C01_failed_poll_keeps_offsets and of
     C01_failed_poll_skips_nothing are proved there (Scratch/Refute6.v: b1's response with t:0 @2,@3 first, b2's response
     with error 6 for t:1 second: the poll is Err (EKafka 6) and t:0 has moved from 2 to 4).  COVERED.

   So neither seed needs a new theorem.  What C01-5 attacks, though, was only stated piecewise (decoder against the
   per-broker request; per-broker request against the request list; request list against k_fetch) - the "NOT PROVED
   HERE" of C01Extra.v: "D is stated against the per-broker request, not against k_fetch".  PROVED HERE (all Qed, no
   axioms), about the UNCHANGED model, the clause "from the consumer's start (or last seek) offset onward ... every
   message once" at the level of Consumer::poll / Consumer::seek:
   A. C01_poll_from_fetch_offsets : whatever bytes the brokers send, a successful (non-retry) poll hands out, in the
      response of the broker that leads a partition, only messages at or above the offset the consumer's fetch table
      holds for that partition (compressed batch starting below it included: its head is dropped).
   B. C01_seek_then_poll : after seek(t, p, off) = Ok the same with `off` for (t, p) and the old offsets for all other
      partitions: nothing below the seek offset is delivered (the demonstration of C01-5: seek to 7 inside the batch
      5..9 must not hand out 5 and 6).
   C. C01_no_redelivery_next_poll : two successive successful polls: what the second one hands out for a partition, in
      the response of its leader, lies strictly above the last message the first one handed out for it.
   NOT PROVED HERE: the same for the responses of brokers that do NOT lead the partition (a broker that answers for a
   partition it was not asked for is decoded against offset 0: C01_unasked_broker_unfiltered shows it; a conforming
   broker never does that); a statement over an arbitrary number of polls; the forward direction from the script. *)
From Coq Require Import ZifyBool.
From KV Require Import Base.Prelude Gen.Consts Model.Codecs Model.Requests Model.Responses
                       Model.ClientState Model.Net Model.Client Model.Consumer.
From KV Require Import Proofs.BytesFacts Proofs.NetFacts Proofs.C02Extra Proofs.C01Facts Proofs.C01Extra Proofs.C01ExtraB.
From KV Require Proofs.C19Facts.

(* ======================================================================================================= *)
(* A. a poll hands out nothing below the consumer's fetch offsets                                            *)
(* ======================================================================================================= *)

(* the consumer's fetch table is a map (distinct keys) and distinct topic refs in it stand for distinct topic names
   (both hold for a table built by Builder::create from sorted, duplicate-free assignments) *)
Definition fetch_table_ok (k : consumer) : Prop :=
  NoDup (map fst (k_fetch k)) /\
  forall r1 p1 r2 p2, In (r1, p1) (map fst (k_fetch k)) -> In (r2, p2) (map fst (k_fetch k)) ->
                      topic_name k r1 = topic_name k r2 -> r1 = r2.

(* every message of `resp` for a partition that broker `h` leads (according to the client state `c`) and that the
   consumer fetches lies at or above the consumer's fetch offset for it *)
Definition resp_above_table (k : consumer) (c : cstate) (h : bytes) (resp : fetch_resp) : Prop :=
  forall ft fp hw msgs m r off maxb,
    In ft (fr_topics resp) -> In fp (ft_partitions ft) -> fp_data fp = inl (hw, msgs) -> In m msgs ->
    topic_name k r = ft_topic ft -> tk_get (r, fp_partition fp) (k_fetch k) = Some (off, maxb) ->
    find_broker c (ft_topic ft) (fp_partition fp) = Some h ->
    off <= m_offset m.

Lemma Forall2_mono {A B} (P Q : A -> B -> Prop) (l : list A) (l' : list B) :
  (forall a b, P a b -> Q a b) -> Forall2 P l l' -> Forall2 Q l l'.
Proof. intros HPQ H. induction H; constructor; auto. Qed.

Lemma Forall2_with_in {A B} (P : A -> B -> Prop) (l : list A) (l' : list B) :
  Forall2 P l l' -> Forall2 (fun a b => In a l /\ P a b) l l'.
Proof.
  intros H. induction H as [|a b l l' Hab Hl IH]; [constructor|].
  constructor; [split; [left; reflexivity|exact Hab]|].
  eapply Forall2_mono; [|exact IH]. intros a0 b0 [Hin Hp]. split; [right; exact Hin|exact Hp].
Qed.

Lemma requested_offset_is_req_lookup reqs t p : requested_offset reqs t p = req_lookup reqs t p.
Proof. reflexivity. Qed.

Theorem C01_poll_from_fetch_offsets : forall k s ms k' s',
  k_retry k = [] -> fetch_table_ok k ->
  consumer_poll k s = (Ok (Ok ms, k'), s') ->
  exists input reqs,
    poll_requests k = Some input /\
    (forall h tps, In (h, tps) reqs -> In (h, tps) (fetch_reqs (after_corr (cl s)) input)) /\
    Forall2 (fun rq resp => resp_above_table k (cs (cl s)) (fst rq) resp) reqs (ms_responses ms).
Proof.
  intros k s ms k' s' Hretry [Hnd Hinj] H.
  destruct (C01_poll_delivers_log _ _ _ _ _ H) as (input & reqs & Hreq & Hsub & Hall & _).
  exists input, reqs. split; [exact Hreq|]. split; [exact Hsub|].
  apply Forall2_with_in in Hall. eapply Forall2_mono; [|exact Hall].
  intros [h tps] resp [Hin (validate & s2 & s3 & b & _ & Hdec & _)]. cbn [fst snd] in *.
  intros ft fp hw msgs m r off maxb Hft Hfp Hd Hm Hname Hget Hb.
  pose proof (C01_decoded_from_requested_offset _ _ _ _ _ _ Hdec ft fp hw msgs m Hft Hfp Hd Hm) as Hle.
  rewrite requested_offset_is_req_lookup in Hle.
  assert (Hb' : find_broker (cs (after_corr (cl s))) (ft_topic ft) (fp_partition fp) = Some h) by exact Hb.
  rewrite (C01_request_offset_is_consumers _ _ _ _ _ _ _ Hsub Hin Hb') in Hle.
  destruct (C01_poll_request_offsets k r (fp_partition fp) off maxb Hretry Hnd Hinj Hget) as (input' & Hreq' & Hoff).
  rewrite Hreq in Hreq'. inversion Hreq'; subst input'. rewrite Hname in Hoff. lia.
Qed.

(* non-vacuity, and the scenario of C01-5: the consumer adds t/1 before t/0 (the hash order of the demonstration), its
   offset for t:1 is 11, the broker answers with the stretch 10, 11 (as it must when 10 and 11 sit in one compressed
   batch; here simply a broker that starts early): only 11 is handed out. *)
Definition exc_k : consumer := exx_k [((0, 1), (11, 32768)); ((0, 0), (5, 32768))] [].

Example C01_poll_from_fetch_offsets_ex :
  k_retry exc_k = [] /\ fetch_table_ok exc_k /\
  find_broker (cs (cl (ex_st exx_script_two))) (tag "t") 1 = Some (tag "h:9092") /\
  exists ms k1 s',
    consumer_poll exc_k (ex_st exx_script_two) = (Ok (Ok ms, k1), s') /\
    iterate ms = [ (tag "t", 1, [ {| m_offset := 11; m_key := []; m_value := tag "b" |} ]) ] /\
    k_fetch k1 = [((0, 1), (12, 32768)); ((0, 0), (5, 32768))].
Proof.
  split; [reflexivity|]. split.
  { split.
    - vm_compute. repeat constructor; cbn [In]; intuition discriminate.
    - intros r1 p1 r2 p2 H1 H2 _. vm_compute in H1, H2.
      destruct H1 as [H1|[H1|[]]], H2 as [H2|[H2|[]]]; congruence. }
  split; [vm_compute; reflexivity|].
  eexists. eexists. eexists. split; [vm_compute; reflexivity|]. vm_compute. split; reflexivity.
Qed.

(* ======================================================================================================= *)
(* B. seek, then poll: nothing below the seek offset                                                         *)
(* ======================================================================================================= *)

Lemma topic_name_of_ref k t r : topic_ref (k_assign k) t = Some r -> topic_name k r = t.
Proof. intros H. destruct (topic_ref_name _ _ _ H) as [v Hv]. unfold topic_name. rewrite Hv. reflexivity. Qed.

(* Consumer::seek as a function of the fetch table *)
Lemma seek_ok_inv k t p off k1 :
  consumer_seek k t p off = Ok k1 ->
  exists r old maxb, topic_ref (k_assign k) t = Some r /\ tk_get (r, p) (k_fetch k) = Some (old, maxb) /\
    k1 = consumer_with k (tk_set (r, p) (off, maxb) (k_fetch k)) (k_retry k) (k_consumed k).
Proof.
  unfold consumer_seek. destruct (topic_ref (k_assign k) t) as [r|] eqn:Hr; [|discriminate].
  destruct (tk_get (r, p) (k_fetch k)) as [[old maxb]|] eqn:Hg; [|discriminate].
  intros H. inversion H. exists r, old, maxb. auto.
Qed.

Lemma seek_keeps_table_ok k t p off k1 :
  consumer_seek k t p off = Ok k1 -> fetch_table_ok k -> fetch_table_ok k1.
Proof.
  intros H [Hnd Hinj]. destruct (seek_ok_inv _ _ _ _ _ H) as (r & old & maxb & _ & Hg & ->).
  unfold fetch_table_ok. cbn [consumer_with k_fetch].
  rewrite tk_set_keys by (rewrite Hg; discriminate). split; [exact Hnd|exact Hinj].
Qed.

(* After seek(t, p, off) = Ok, whatever bytes the brokers send: in the response of the broker that leads a partition,
   a successful (non-retry) poll hands out for (t, p) only messages at or above `off`, and for every other fetched
   partition only messages at or above the offset it had before the seek. *)
Theorem C01_seek_then_poll : forall k t p off k1 s ms k' s',
  k_retry k = [] -> fetch_table_ok k ->
  consumer_seek k t p off = Ok k1 ->
  consumer_poll k1 s = (Ok (Ok ms, k'), s') ->
  exists input reqs,
    poll_requests k1 = Some input /\
    (forall h tps, In (h, tps) reqs -> In (h, tps) (fetch_reqs (after_corr (cl s)) input)) /\
    Forall2 (fun rq resp =>
               forall ft fp hw msgs m,
                 In ft (fr_topics resp) -> In fp (ft_partitions ft) -> fp_data fp = inl (hw, msgs) -> In m msgs ->
                 find_broker (cs (cl s)) (ft_topic ft) (fp_partition fp) = Some (fst rq) ->
                 (ft_topic ft = t -> fp_partition fp = p -> off <= m_offset m) /\
                 (forall r o maxb, (ft_topic ft, fp_partition fp) <> (t, p) -> topic_name k r = ft_topic ft ->
                                   tk_get (r, fp_partition fp) (k_fetch k) = Some (o, maxb) -> o <= m_offset m))
            reqs (ms_responses ms).
Proof.
  intros k t p off k1 s ms k' s' Hretry Hok Hseek Hpoll.
  pose proof (seek_keeps_table_ok _ _ _ _ _ Hseek Hok) as Hok1.
  destruct (seek_ok_inv _ _ _ _ _ Hseek) as (r & old & maxb & Hr & Hg & Hk1).
  assert (Hretry1 : k_retry k1 = []) by (rewrite Hk1; exact Hretry).
  destruct (C01_poll_from_fetch_offsets _ _ _ _ _ Hretry1 Hok1 Hpoll) as (input & reqs & Hreq & Hsub & Hall).
  exists input, reqs. split; [exact Hreq|]. split; [exact Hsub|].
  eapply Forall2_mono; [|exact Hall]. intros rq resp Hab ft fp hw msgs m Hft Hfp Hd Hm Hb.
  assert (Hname : forall r0, topic_name k1 r0 = topic_name k r0) by (intros r0; rewrite Hk1; reflexivity).
  split.
  - intros Et Ep. apply (Hab ft fp hw msgs m r off maxb Hft Hfp Hd Hm); [| |exact Hb].
    + rewrite Hname, Et. apply topic_name_of_ref. exact Hr.
    + rewrite Ep, Hk1. cbn [consumer_with k_fetch]. apply tk_get_set_same.
  - intros r0 o maxb0 Hne Hn0 Hg0. apply (Hab ft fp hw msgs m r0 o maxb0 Hft Hfp Hd Hm); [| |exact Hb].
    + rewrite Hname. exact Hn0.
    + rewrite Hk1. cbn [consumer_with k_fetch]. rewrite tk_get_set_other; [exact Hg0|].
      intros E. inversion E; subst r0. apply Hne. rewrite <- Hn0, (topic_name_of_ref _ _ _ Hr). congruence.
Qed.

(* non-vacuity: both partitions at 5; seek(t, 1, 11); the broker answers t:1 with 10 and 11: only 11 comes out *)
Definition exc_k0 : consumer := exx_k [((0, 1), (5, 32768)); ((0, 0), (5, 32768))] [].

Example C01_seek_then_poll_ex :
  k_retry exc_k0 = [] /\ fetch_table_ok exc_k0 /\
  consumer_seek exc_k0 (tag "t") 1 11 = Ok exc_k /\
  exists ms k1 s',
    consumer_poll exc_k (ex_st exx_script_two) = (Ok (Ok ms, k1), s') /\
    iterate ms = [ (tag "t", 1, [ {| m_offset := 11; m_key := []; m_value := tag "b" |} ]) ].
Proof.
  split; [reflexivity|]. split.
  { split.
    - vm_compute. repeat constructor; cbn [In]; intuition discriminate.
    - intros r1 p1 r2 p2 H1 H2 _. vm_compute in H1, H2.
      destruct H1 as [H1|[H1|[]]], H2 as [H2|[H2|[]]]; congruence. }
  split; [vm_compute; reflexivity|].
  eexists. eexists. eexists. split; vm_compute; reflexivity.
Qed.

(* why the leader hypothesis is there: a broker that answers for a partition it was NOT asked for is decoded against
   offset 0, so its messages come out unfiltered.  Here broker h:9092 leads t:0 only (t:1 has no leader in the client's
   metadata, so it is not asked at all), yet answers with t:1 @10, @11 while the consumer stands at 11 for t:1. *)
Definition exc_cs_noleader : cstate :=
  {| correlation := 0; brokers := [ {| b_node := 1; b_host := tag "h:9092" |} ];
     topic_partitions := [ (tag "t", [0; -1]) ]; group_coordinators := [] |}.
Definition exc_st_noleader (script : list ev_out) : st :=
  {| script := script; trace := []; anyq := []; hostq := []; fetchq := []; entryq := [];
     cl := {| cfg := default_config [tag "h:9092"]; cs := exc_cs_noleader; conns := [] |}; env := ex_env |}.

Example C01_unasked_broker_unfiltered :
  find_broker exc_cs_noleader (tag "t") 1 = None /\
  exists ms k1 s',
    consumer_poll exc_k (exc_st_noleader exx_script_two) = (Ok (Ok ms, k1), s') /\
    iterate ms = [ (tag "t", 1, [ {| m_offset := 10; m_key := []; m_value := tag "a" |};
                                  {| m_offset := 11; m_key := []; m_value := tag "b" |} ]) ].
Proof. split; [vm_compute; reflexivity|]. eexists. eexists. eexists. split; vm_compute; reflexivity. Qed.

(* ======================================================================================================= *)
(* C. two successive polls: nothing is handed out a second time                                              *)
(* ======================================================================================================= *)

Lemma sane_polled k c resps : sane k resps -> sane (polled k c) resps.
Proof. intros [H1 H2 H3]. constructor; [exact H1|exact H2|exact H3]. Qed.

(* Two successive successful polls (the second one not a single-partition retry; anything may happen to the client
   state in between).  Whatever bytes the brokers send: if the first poll handed out, for some topic and partition, a
   message list ending in m, then every message the second poll hands out for that topic and partition in the response
   of the broker leading it lies strictly above m.  (`sane`: the first poll's responses list only fetched partitions,
   each once, with offsets below i64::MAX.) *)
Theorem C01_no_redelivery_next_poll : forall k s ms k1 s1 s2 ms2 k2 s3,
  fetch_table_ok k -> sane k (ms_responses ms) ->
  consumer_poll k s = (Ok (Ok ms, k1), s1) ->
  k_retry k1 = [] ->
  consumer_poll k1 s2 = (Ok (Ok ms2, k2), s3) ->
  exists input reqs,
    poll_requests k1 = Some input /\
    (forall h tps, In (h, tps) reqs -> In (h, tps) (fetch_reqs (after_corr (cl s2)) input)) /\
    Forall2 (fun rq resp2 =>
               forall rs ft fp hw msgs m,
                 In rs (ms_responses ms) -> In ft (fr_topics rs) -> In fp (ft_partitions ft) ->
                 fp_data fp = inl (hw, msgs) -> last_msg msgs = Some m ->
                 forall ft2 fp2 hw2 msgs2 m2,
                   In ft2 (fr_topics resp2) -> In fp2 (ft_partitions ft2) -> fp_data fp2 = inl (hw2, msgs2) -> In m2 msgs2 ->
                   ft_topic ft2 = ft_topic ft -> fp_partition fp2 = fp_partition fp ->
                   find_broker (cs (cl s2)) (ft_topic ft) (fp_partition fp) = Some (fst rq) ->
                   m_offset m < m_offset m2)
            reqs (ms_responses ms2).
Proof.
  intros k s ms k1 s1 s2 ms2 k2 s3 [Hnd Hinj] Hsane H1 Hretry1 H2.
  destruct (C18Extra2.C18_poll_hands_out_fetch_result _ _ _ _ _ H1) as (input0 & Hreq0 & Hf0).
  rewrite (C01_poll_success _ _ _ _ _ Hreq0 Hf0) in H1. inversion H1 as [Hp]. clear H1.
  set (kp := polled k (cl s1)) in *.
  pose proof (sane_polled k (cl s1) _ Hsane) as Hsanep. fold kp in Hsanep.
  destruct (pfr_ok _ _ _ _ _ _ Hp) as (Hfe & _).
  destruct (C01_consumed_untouched _ _ _ _ _ _ Hp) as (_ & Hasg & _).
  pose proof (C01_fetch_keys_stable _ _ _ _ _ _ Hp) as Hkeys.
  assert (Hasg1 : k_assign k1 = k_assign k) by (rewrite Hasg; reflexivity).
  assert (Hkeys1 : map fst (k_fetch k1) = map fst (k_fetch k)) by (rewrite Hkeys; reflexivity).
  assert (Hname : forall r0, topic_name k1 r0 = topic_name k r0) by (intros r0; unfold topic_name; rewrite Hasg1; reflexivity).
  assert (Hok1 : fetch_table_ok k1).
  { split; [rewrite Hkeys1; exact Hnd|]. intros r1 p1 r2 p2. rewrite Hkeys1, !Hname. apply Hinj. }
  destruct (C01_poll_from_fetch_offsets _ _ _ _ _ Hretry1 Hok1 H2) as (input & reqs & Hreq & Hsub & Hall).
  exists input, reqs. split; [exact Hreq|]. split; [exact Hsub|].
  eapply Forall2_mono; [|exact Hall].
  intros rq resp2 Hab rs ft fp hw msgs m Hrs Hft Hfp Hd Hl ft2 fp2 hw2 msgs2 m2 Hft2 Hfp2 Hd2 Hm2 Et Ep Hb.
  destruct (sane_assigned _ _ Hsane rs ft Hrs Hft) as (r & Hr & _).
  destruct (C01_offsets_advance _ _ _ _ _ _ Hsanep Hfe Hp r (fp_partition fp)) as [Hadv _].
  pose proof (Hadv rs ft fp hw msgs m Hrs Hft Hfp Hr eq_refl Hd Hl) as Hg.
  assert (Hle : m_offset m + 1 <= m_offset m2); [|lia].
  apply (Hab ft2 fp2 hw2 msgs2 m2 r (m_offset m + 1) (fetch_max_bytes_per_partition (cfg (k_client kp))) Hft2 Hfp2 Hd2 Hm2).
  - rewrite Hname, Et. apply topic_name_of_ref. exact Hr.
  - rewrite Ep. exact Hg.
  - rewrite Et, Ep. exact Hb.
Qed.

(* non-vacuity: the consumer stands at 11 for t:1 and at 5 for t:0 (t:0's log ends at 5).  Poll 1: the broker sends
   t:1 @10, @11: 11 is handed out, t:1 moves to 12.  Poll 2: the broker sends t:1 @11, @12 (a batch that starts
   early): only 12 is handed out. *)
Definition exc_resp1 : fetch_resp :=
  {| fr_corr := 1;
     fr_topics := [ {| ft_topic := tag "t";
                       ft_partitions := [ {| fp_partition := 0; fp_data := inl (5, []) |};
                                          {| fp_partition := 1;
                                             fp_data := inl (12, [ {| m_offset := 11; m_key := []; m_value := tag "b" |} ]) |} ] |} ] |}.
Definition exc_body1 : bytes :=
  enc_i32 1 ++ enc_i32 1 ++ enc_i16 1 ++ tag "t" ++ enc_i32 2 ++
  enc_i32 0 ++ enc_i16 0 ++ enc_i64 5 ++ enc_i32 0 ++
  enc_i32 1 ++ enc_i16 0 ++ enc_i64 12 ++ enc_i32 (ulen exx_set) ++ exx_set.
Definition exc_set2 : bytes := exx_wire_msg 11 (tag "b") ++ exx_wire_msg 12 (tag "c").
Definition exc_body2 : bytes :=
  enc_i32 2 ++ enc_i32 1 ++ enc_i16 1 ++ tag "t" ++ enc_i32 2 ++
  enc_i32 0 ++ enc_i16 0 ++ enc_i64 5 ++ enc_i32 0 ++
  enc_i32 1 ++ enc_i16 0 ++ enc_i64 13 ++ enc_i32 (ulen exc_set2) ++ exc_set2.
Definition exc_script (b : bytes) : list ev_out := [OConn true; OWrote 1000; OData (enc_i32 (ulen b)); OData b].

Lemma exc_sane : sane exc_k [exc_resp1].
Proof.
  constructor.
  - intros rs ft [Hrs|[]] Hft. subst rs. destruct Hft as [Hft|[]]. subst ft. exists 0. split; [reflexivity|].
    intros fp [Hfp|[Hfp|[]]]; subst fp; vm_compute; discriminate.
  - vm_compute. repeat constructor; cbn [In]; intuition discriminate.
  - intros t fp hw msgs m Hin Hd Hm. vm_compute in Hin.
    destruct Hin as [Hin|[Hin|[]]]; inversion Hin; subst; cbn [fp_data] in Hd; inversion Hd; subst.
    + destruct Hm.
    + destruct Hm as [Hm|[]]; subst m; vm_compute; (split; [discriminate|reflexivity]).
Qed.

Example C01_no_redelivery_next_poll_ex :
  exists ms k1 s1 ms2 k2 s3,
    consumer_poll exc_k (ex_st (exc_script exc_body1)) = (Ok (Ok ms, k1), s1) /\
    ms_responses ms = [exc_resp1] /\ sane exc_k (ms_responses ms) /\ k_retry k1 = [] /\
    consumer_poll k1 (ex_st (exc_script exc_body2)) = (Ok (Ok ms2, k2), s3) /\
    find_broker (cs (cl (ex_st (exc_script exc_body2)))) (tag "t") 1 = Some (tag "h:9092") /\
    iterate ms = [ (tag "t", 1, [ {| m_offset := 11; m_key := []; m_value := tag "b" |} ]) ] /\
    iterate ms2 = [ (tag "t", 1, [ {| m_offset := 12; m_key := []; m_value := tag "c" |} ]) ].
Proof.
  eexists. eexists. eexists. eexists. eexists. eexists.
  split; [vm_compute; reflexivity|]. split; [reflexivity|]. split; [exact exc_sane|]. split; [reflexivity|].
  split; [vm_compute; reflexivity|]. split; [vm_compute; reflexivity|]. split; vm_compute; reflexivity.
Qed.

Print Assumptions C01_poll_from_fetch_offsets.
Print Assumptions C01_seek_then_poll.
Print Assumptions C01_no_redelivery_next_poll.
