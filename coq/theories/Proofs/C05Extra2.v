(* C05, additional theorems, second file: the BYTES of the produce requests.

   Part C  (encoder; seeded change C05 "shared scratch buffer")
     C05_wire_request: the frame of enc_produce_req, read by the independent request grammar (Spec/ReqGrammar.v),
       is a ProduceRequest with the given acks and timeout whose topic / partition entries are those of the
       request map, in order, and the message-set field of EVERY entry, read by the strict message-set
       parser (Spec/MsgSetSpec.v), is exactly the records of THAT entry, in order (uncompressed), resp. one
       wrapper message around the compression of such a set (gzip / snappy).
     C05_wire_exactly_once: the same for a request of `produce_reqs s msgs []`: on the wire every
       topic-partition occurs at most once, is led by the addressee, holds exactly the records of the batch
       for it in batch order, and every record led by the addressee has its set in the request.
   Part D  (exchange loop; clause "one request per involved broker carrying the configured acks and timeout")
     C05_exchange_writes: every buffer produce_exchange hands to write() for host h is a suffix of the
       frame of enc_produce_req (client id, correlation id, acks, timeout, compression of the configuration)
       of the request-map entry of h; all other I/O events concern hosts of the map.
     C05_call_writes / C05_producer_writes: the same for internal_produce_messages and for the producer's
       send_all, where acks / timeout are the producer's p_acks / p_ack_timeout (see C05Extra.v, Part A, for
       where these come from). *)
From Coq Require Import ZifyBool Sorting.Permutation.
From KV Require Import Base.Prelude Base.Crc32 Gen.Consts Model.Codecs Model.Requests Model.Responses
                       Model.ClientState.
From KV Require Import Spec.ReqGrammar Spec.MsgSetSpec.
From KV Require Import Model.Net Model.Client Model.Producer.
From KV Require Import Proofs.BytesFacts Proofs.C03Facts Proofs.C09Facts Proofs.C20Facts Proofs.C05Facts.
From KV Require Proofs.NetFacts.

(* ================================================================================================== *)
(* Part C: what a broker reads in the message-set fields                                               *)
(* ================================================================================================== *)

Definition compress_of (cz : codecs) (c : Z) (buf : bytes) : bytes :=
  if c =? COMPRESSION_GZIP then gz_compress cz buf else sn_compress cz buf.

(* `setbytes` is the message set of exactly the records ms, in order: read strictly (sizes exact, magic 0,
   CRC recomputed, every byte accounted for) it is ms with offset 0 and attributes 0; under compression it is
   ONE wrapper message (attributes = codec, null key) whose value is the compression of such a set *)
Definition set_holds (cz : codecs) (c : Z) (ms : list pmsg) (setbytes : bytes) : Prop :=
  if c =? COMPRESSION_NONE then spec_parse setbytes = Some (map plain_raw ms)
  else exists plain,
         spec_parse plain = Some (map plain_raw ms)
         /\ spec_parse setbytes
            = Some [{| rm_offset := 0; rm_attr := c; rm_key := None; rm_value := Some (compress_of cz c plain) |}].

(* the size hypotheses of C03: every record fits an int32-sized message, and so does the wrapper *)
Definition set_fits (cz : codecs) (c : Z) (ms : list pmsg) : Prop :=
  Forall fits ms
  /\ (c <> COMPRESSION_NONE ->
      forall plain, enc_messages ms = Ok plain -> blen (compress_of cz c plain) < 2 ^ 31 - 26).
Definition records_fit (cz : codecs) (c : Z) (tps : produce_tps) : Prop :=
  Forall (fun tp => Forall (fun pm => set_fits cz c (snd pm)) (snd tp)) tps.

(* request map and request on the wire agree entry by entry, in order *)
Definition wire_matches (cz : codecs) (c : Z) (tps : produce_tps) (wtps : by_topic (Z * bytes)) : Prop :=
  Forall2 (fun tp wtp =>
             fst wtp = fst tp
             /\ Forall2 (fun pm wpm => fst wpm = fst pm /\ set_holds cz c (snd pm) (snd wpm)) (snd tp) (snd wtp))
          tps wtps.

Lemma app_inv_len {A} (a b x y : list A) : length a = length b -> a ++ x = b ++ y -> x = y.
Proof.
  revert b. induction a as [|u a IH]; intros [|v b] Hl H; cbn [length app] in *; try discriminate.
  - exact H.
  - injection H as _ H. apply (IH b); [lia|exact H].
Qed.

Lemma set_holds_enc cz c p ms out :
  c = COMPRESSION_NONE \/ c = COMPRESSION_GZIP \/ c = COMPRESSION_SNAPPY ->
  set_fits cz c ms ->
  enc_partition_produce cz c p ms = Ok out ->
  set_holds cz c ms (message_set_bytes cz c ms).
Proof.
  intros Hc [Hfit Hsmall] H.
  destruct (C09_produce_partition_bytes _ _ _ _ _ H) as (buf' & Hbuf & Hmsb & _ & Hout).
  rewrite Hmsb. unfold set_holds.
  destruct Hc as [->|Hc].
  - change (COMPRESSION_NONE =? COMPRESSION_NONE) with true. cbv iota.
    unfold model_message_set in Hbuf. apply bind_ok in Hbuf. destruct Hbuf as (buf & Hb & Hbuf).
    change (COMPRESSION_NONE =? COMPRESSION_NONE) with true in Hbuf. cbv iota in Hbuf. apply Ok_inj in Hbuf. rewrite <- Hbuf.
    exact (C03_plain ms buf Hfit Hb).
  - assert (Hcn : (c =? COMPRESSION_NONE) = false) by (destruct Hc as [->| ->]; reflexivity).
    rewrite Hcn.
    assert (Hne : c <> COMPRESSION_NONE) by (destruct Hc as [->| ->]; discriminate).
    destruct (C03_wrapped cz c ms p out Hc Hfit (Hsmall Hne) H) as (plain & v & setbytes & Hp & Hv & Hs & Hout').
    exists plain. split; [exact (C03_plain ms plain Hfit Hp)|].
    rewrite Hout in Hout'. apply app_inv_head in Hout'.
    apply app_inv_len in Hout'; [|unfold enc_i32; rewrite !be_enc_length; reflexivity].
    rewrite Hout'. rewrite Hs. unfold compress_of. rewrite <- Hv. reflexivity.
Qed.

Lemma Forall2_map_in {A B} (R : A -> B -> Prop) (f : A -> B) l :
  (forall x, In x l -> R x (f x)) -> Forall2 R l (map f l).
Proof.
  induction l as [|x r IH]; intros H; cbn [map]; constructor.
  - apply H. left. reflexivity.
  - apply IH. intros y Hy. apply H. right. exact Hy.
Qed.

(* every partition entry of a request that encodes, encodes *)
Lemma enc_produce_req_parts cz corr cid acks timeout c tps bs :
  enc_produce_req cz corr cid acks timeout c tps = Ok bs ->
  forall t ps, In (t, ps) tps -> forall p ms, In (p, ms) ps -> exists out, enc_partition_produce cz c p ms = Ok out.
Proof.
  intros H t ps Ht p ms Hp. rewrite enc_produce_req_eq in H.
  apply bind_ok in H. destruct H as (h & _ & H). apply bind_ok in H. destruct H as (b & Hb & _).
  assert (Hall : Forall (fun x => exists b, enc_topic_unchecked (m_produce_part cz c) x = Ok b) tps).
  { apply (proj1 (enc_array_ok_iff _ tps)). exists b. exact Hb. }
  rewrite Forall_forall in Hall. destruct (Hall _ Ht) as (bt & Hbt).
  unfold enc_topic_unchecked in Hbt. apply bind_ok in Hbt. destruct Hbt as (n & _ & Hbt).
  apply bind_ok in Hbt. destruct Hbt as (pb & Hpb & _).
  assert (Hps : Forall (fun x => exists b, m_produce_part cz c x = Ok b) ps).
  { apply (proj1 (enc_array_unchecked_ok_iff _ ps)). exists pb. exact Hpb. }
  rewrite Forall_forall in Hps. exact (Hps _ Hp).
Qed.

Theorem C05_wire_request : forall cz tps acks timeout c corr cid bs,
  c = COMPRESSION_NONE \/ c = COMPRESSION_GZIP \/ c = COMPRESSION_SNAPPY ->
  wf_produce tps -> records_fit cz c tps ->
  in_i16 acks -> in_i32 timeout -> in_i32 corr -> ulen bs <= i32_max ->
  enc_produce_req cz corr cid acks timeout c tps = Ok bs ->
  exists wtps,
    parse_frame (frame bs) = Some (mk_hdr 0 0 corr cid, ProduceRequest acks timeout wtps)
    /\ wire_matches cz c tps wtps.
Proof.
  intros cz tps acks timeout c corr cid bs Hc Hwf Hfit Ha Ht Hcorr Hlen H.
  exists (abs_by_topic (abs_produce_part cz c) tps). split.
  - exact (C09_produce_frame cz tps acks timeout c corr cid bs Hwf Ha Ht Hcorr Hlen H).
  - unfold wire_matches, abs_by_topic. apply Forall2_map_in. intros [t ps] Htp. cbn [fst snd].
    split; [reflexivity|]. apply Forall2_map_in. intros [p ms] Hpm. unfold abs_produce_part. cbn [fst snd].
    split; [reflexivity|].
    destruct (enc_produce_req_parts _ _ _ _ _ _ _ _ H t ps Htp p ms Hpm) as (out & Hout).
    apply (set_holds_enc cz c p ms out Hc); [|exact Hout].
    unfold records_fit in Hfit. rewrite Forall_forall in Hfit. specialize (Hfit _ Htp). cbn [snd] in Hfit.
    rewrite Forall_forall in Hfit. exact (Hfit _ Hpm).
Qed.

(* ---- plumbing between the entry-by-entry relation and membership ---------------------------------- *)
Lemma Forall2_in_r {A B} (R : A -> B -> Prop) l l' y :
  Forall2 R l l' -> In y l' -> exists x, In x l /\ R x y.
Proof.
  induction 1 as [|a b l l' Hab _ IH]; intros Hy; [contradiction|].
  destruct Hy as [->|Hy]; [exists a; split; [left; reflexivity|exact Hab]|].
  destruct (IH Hy) as (x & Hx & Hr). exists x. split; [right; exact Hx|exact Hr].
Qed.
Lemma Forall2_in_l {A B} (R : A -> B -> Prop) l l' x :
  Forall2 R l l' -> In x l -> exists y, In y l' /\ R x y.
Proof.
  induction 1 as [|a b l l' Hab _ IH]; intros Hx; [contradiction|].
  destruct Hx as [->|Hx]; [exists b; split; [left; reflexivity|exact Hab]|].
  destruct (IH Hx) as (y & Hy & Hr). exists y. split; [right; exact Hy|exact Hr].
Qed.
Lemma Forall2_fst_eq {A B C} (R : A * B -> A * C -> Prop) l l' :
  Forall2 R l l' -> (forall x y, R x y -> fst y = fst x) -> map fst l' = map fst l.
Proof.
  intros H Hfst. induction H as [|a b l l' Hab _ IH]; cbn [map]; [reflexivity|].
  rewrite IH, (Hfst _ _ Hab). reflexivity.
Qed.

(* a record of the batch led by `host` has an entry in the request for `host` *)
Lemma produce_reqs_entry_exists s msgs reqs host tps m :
  produce_reqs s msgs [] = Some reqs -> In (host, tps) reqs -> In m msgs ->
  find_broker s (pq_topic m) (pq_partition m) = Some host ->
  exists ps ms, In (pq_topic m, ps) tps /\ In (pq_partition m, ms) ps.
Proof.
  intros H Hh Hm Hl.
  assert (Hin : In (pmsg_of m) (msgs_for reqs host (pq_topic m) (pq_partition m))).
  { rewrite (C05_leader_gets_all s msgs reqs H host _ _ Hl). apply in_map. apply filter_In.
    split; [exact Hm|]. rewrite bytes_eqb_refl, Z.eqb_refl. reflexivity. }
  rewrite msgs_for_flat_map in Hin. apply in_flat_map in Hin. destruct Hin as ([h tps'] & Hh' & Hin).
  destruct (bytes_eqb h host) eqn:Eh; [|contradiction]. apply bytes_eqb_eq in Eh. subst h.
  assert (tps' = tps).
  { destruct (C05_single_set s msgs reqs H) as [Hnd _].
    pose proof (In_gassoc bytes_eqb bytes_eqb_eq host tps' reqs Hnd Hh') as E1.
    pose proof (In_gassoc bytes_eqb bytes_eqb_eq host tps reqs Hnd Hh) as E2. congruence. }
  subst tps'. apply in_flat_map in Hin. destruct Hin as ([t' ps] & Ht' & Hin).
  destruct (bytes_eqb t' (pq_topic m)) eqn:Et; [|contradiction]. apply bytes_eqb_eq in Et. subst t'.
  apply in_flat_map in Hin. destruct Hin as ([p' ms] & Hp' & Hin).
  destruct (p' =? pq_partition m) eqn:Ep; [|contradiction]. apply Z.eqb_eq in Ep. subst p'.
  exists ps, ms. split; assumption.
Qed.

(* THE wire-level form of "every record exactly once, inside the single message set of its
   topic-partition, in a request addressed to that partition's leader, order kept" *)
Theorem C05_wire_exactly_once : forall cz s msgs reqs host tps acks timeout c corr cid bs,
  produce_reqs s msgs [] = Some reqs -> In (host, tps) reqs ->
  c = COMPRESSION_NONE \/ c = COMPRESSION_GZIP \/ c = COMPRESSION_SNAPPY ->
  wf_produce tps -> records_fit cz c tps ->
  in_i16 acks -> in_i32 timeout -> in_i32 corr -> ulen bs <= i32_max ->
  enc_produce_req cz corr cid acks timeout c tps = Ok bs ->
  exists wtps,
    parse_frame (frame bs) = Some (mk_hdr 0 0 corr cid, ProduceRequest acks timeout wtps)
    /\ NoDup (map fst wtps)
    /\ (forall t wps, In (t, wps) wtps ->
          NoDup (map fst wps)
          /\ forall p setbytes, In (p, setbytes) wps ->
               find_broker s t p = Some host
               /\ set_holds cz c (map pmsg_of (filter (fun m => bytes_eqb (pq_topic m) t && (pq_partition m =? p)) msgs))
                            setbytes)
    /\ (forall m, In m msgs -> find_broker s (pq_topic m) (pq_partition m) = Some host ->
          exists wps setbytes, In (pq_topic m, wps) wtps /\ In (pq_partition m, setbytes) wps).
Proof.
  intros cz s msgs reqs host tps acks timeout c corr cid bs H Hh Hc Hwf Hfit Ha Ht Hcorr Hlen Henc.
  destruct (C05_wire_request cz tps acks timeout c corr cid bs Hc Hwf Hfit Ha Ht Hcorr Hlen Henc)
    as (wtps & Hparse & Hm).
  destruct (C05_single_set s msgs reqs H) as [_ Hss]. destruct (Hss host tps Hh) as [Hndt Hndp].
  exists wtps. split; [exact Hparse|]. unfold wire_matches in Hm. split; [|split].
  - rewrite (Forall2_fst_eq _ _ _ Hm); [exact Hndt|]. intros x y [E _]. exact E.
  - intros t wps Hw. destruct (Forall2_in_r _ _ _ _ Hm Hw) as ([t' ps] & Htp & Et & Hps).
    cbn [fst snd] in Et, Hps. subst t'. split.
    + rewrite (Forall2_fst_eq _ _ _ Hps); [exact (Hndp t ps Htp)|]. intros x y [E _]. exact E.
    + intros p setbytes Hsb. destruct (Forall2_in_r _ _ _ _ Hps Hsb) as ([p' ms] & Hpm & Ep & Hset).
      cbn [fst snd] in Ep, Hset. subst p'. split.
      * exact (proj1 (C05_leader_only s msgs reqs H host tps t ps p ms Hh Htp Hpm)).
      * rewrite <- (C05_entry_is_msgs_for s msgs reqs H host tps t ps p ms Hh Htp Hpm). exact Hset.
  - intros m Hmin Hl.
    destruct (produce_reqs_entry_exists s msgs reqs host tps m H Hh Hmin Hl) as (ps & ms & Htp & Hpm).
    destruct (Forall2_in_l _ _ _ _ Hm Htp) as ([t' wps] & Hw & Et & Hps). cbn [fst snd] in Et, Hps. subst t'.
    destruct (Forall2_in_l _ _ _ _ Hps Hpm) as ([p' sb] & Hsb & Ep & _). cbn [fst snd] in Ep. subst p'.
    exists wps, sb. split; assumption.
Qed.

(* ---- the side conditions on the request map follow from conditions on the batch ----------------------- *)
Lemma len_le_flat_map {A B} (f : A -> list B) l :
  (forall x, In x l -> f x <> []) -> (length l <= length (flat_map f l))%nat.
Proof.
  induction l as [|x r IH]; intros H; cbn [flat_map length]; [lia|].
  rewrite app_length. assert (Hx : f x <> []) by (apply H; left; reflexivity).
  assert (IHr : (length r <= length (flat_map f r))%nat) by (apply IH; intros y Hy; apply H; right; exact Hy).
  destruct (f x); [contradiction|cbn [length]; lia].
Qed.
Lemma In_flat_map_len {A B} (f : A -> list B) l x : In x l -> (length (f x) <= length (flat_map f l))%nat.
Proof.
  induction l as [|y r IH]; intros H; [contradiction|]. cbn [flat_map]. rewrite app_length.
  destruct H as [->|H]; [lia|]. specialize (IH H). lia.
Qed.

Lemma produce_reqs_wf_produce s msgs reqs host tps :
  produce_reqs s msgs [] = Some reqs -> In (host, tps) reqs ->
  Forall (fun m => in_i32 (pq_partition m)) msgs -> ulen msgs <= i32_max ->
  wf_produce tps.
Proof.
  intros H Hh Hp Hlen. unfold wf_produce. apply Forall_forall. intros [t ps] Htp. cbn [snd]. split.
  - apply Forall_forall. intros [p ms] Hpm. unfold wf_produce_part. cbn [fst].
    destruct (C05_leader_only s msgs reqs H host tps t ps p ms Hh Htp Hpm) as [_ Hne].
    pose proof (C05_entry_is_msgs_for s msgs reqs H host tps t ps p ms Hh Htp Hpm) as Hms.
    destruct (filter (fun m => bytes_eqb (pq_topic m) t && (pq_partition m =? p)) msgs) as [|m0 r] eqn:Ef;
      [subst ms; contradiction Hne; reflexivity|].
    assert (Hin : In m0 (filter (fun m => bytes_eqb (pq_topic m) t && (pq_partition m =? p)) msgs))
      by (rewrite Ef; left; reflexivity).
    apply filter_In in Hin. destruct Hin as [Hin Hf]. rewrite Forall_forall in Hp. specialize (Hp m0 Hin).
    apply andb_prop in Hf. destruct Hf as [_ Hf]. apply Z.eqb_eq in Hf. rewrite <- Hf. exact Hp.
  - assert (H1 : (length ps <= length (flat_map snd ps))%nat).
    { apply len_le_flat_map. intros [p ms] Hpm. cbn [snd].
      exact (proj2 (C05_leader_only s msgs reqs H host tps t ps p ms Hh Htp Hpm)). }
    set (F := fun tp : bytes * produce_parts => flat_map snd (snd tp)).
    assert (H2 : (length (flat_map snd ps) <= length (flat_map F tps))%nat)
      by exact (In_flat_map_len F tps (t, ps) Htp).
    assert (H3 : (length (flat_map F tps) <= length (all_msgs reqs))%nat)
      by exact (In_flat_map_len (fun htps : bytes * produce_tps => flat_map F (snd htps)) reqs (host, tps) Hh).
    destruct (C05_all_records_once s msgs reqs H) as [_ H4].
    unfold ulen in *. lia.
Qed.

Lemma produce_reqs_records_fit_plain cz s msgs reqs host tps :
  produce_reqs s msgs [] = Some reqs -> In (host, tps) reqs ->
  Forall (fun m => fits (pmsg_of m)) msgs ->
  records_fit cz COMPRESSION_NONE tps.
Proof.
  intros H Hh Hf. unfold records_fit. apply Forall_forall. intros [t ps] Htp. apply Forall_forall.
  intros [p ms] Hpm. cbn [snd]. split; [|intros Hne; contradiction Hne; reflexivity].
  rewrite (C05_entry_is_msgs_for s msgs reqs H host tps t ps p ms Hh Htp Hpm).
  apply Forall_forall. intros x Hx. apply in_map_iff in Hx. destruct Hx as (m & <- & Hm).
  apply filter_In in Hm. rewrite Forall_forall in Hf. apply Hf. exact (proj1 Hm).
Qed.

(* the uncompressed case with every hypothesis on the BATCH: records that fit a message, partition ids
   that are int32, fewer than 2^31 records *)
Theorem C05_wire_exactly_once_plain : forall cz s msgs reqs host tps acks timeout corr cid bs,
  produce_reqs s msgs [] = Some reqs -> In (host, tps) reqs ->
  Forall (fun m => fits (pmsg_of m) /\ in_i32 (pq_partition m)) msgs -> ulen msgs <= i32_max ->
  in_i16 acks -> in_i32 timeout -> in_i32 corr -> ulen bs <= i32_max ->
  enc_produce_req cz corr cid acks timeout COMPRESSION_NONE tps = Ok bs ->
  exists wtps,
    parse_frame (frame bs) = Some (mk_hdr 0 0 corr cid, ProduceRequest acks timeout wtps)
    /\ NoDup (map fst wtps)
    /\ (forall t wps, In (t, wps) wtps ->
          NoDup (map fst wps)
          /\ forall p setbytes, In (p, setbytes) wps ->
               find_broker s t p = Some host
               /\ spec_parse setbytes
                  = Some (map plain_raw
                              (map pmsg_of (filter (fun m => bytes_eqb (pq_topic m) t && (pq_partition m =? p)) msgs))))
    /\ (forall m, In m msgs -> find_broker s (pq_topic m) (pq_partition m) = Some host ->
          exists wps setbytes, In (pq_topic m, wps) wtps /\ In (pq_partition m, setbytes) wps).
Proof.
  intros cz s msgs reqs host tps acks timeout corr cid bs H Hh Hm Hlen Ha Ht Hc Hbs Henc.
  assert (Hm1 : Forall (fun m => in_i32 (pq_partition m)) msgs) by (eapply Forall_impl; [|exact Hm]; intros m [_ X]; exact X).
  assert (Hm2 : Forall (fun m => fits (pmsg_of m)) msgs) by (eapply Forall_impl; [|exact Hm]; intros m [X _]; exact X).
  exact (C05_wire_exactly_once cz s msgs reqs host tps acks timeout COMPRESSION_NONE corr cid bs H Hh
           (or_introl eq_refl) (produce_reqs_wf_produce s msgs reqs host tps H Hh Hm1 Hlen)
           (produce_reqs_records_fit_plain cz s msgs reqs host tps H Hh Hm2) Ha Ht Hc Hbs Henc).
Qed.

(* non-vacuity: the batch of the seeded demonstration - topic t with partitions 0, 1, 2 all led by the
   same broker, so that they share one request and one topic entry; the second and third partition entry
   are where a shared scratch buffer would show *)
Definition c05y_state : cstate :=
  {| correlation := 0; brokers := [ {| b_node := 1; b_host := tag "b1:9092" |} ];
     topic_partitions := [ (tag "t", [0; 0; 0]); (tag "u", [0]) ]; group_coordinators := [] |}.
Definition c05y_msg t p v : produce_message :=
  {| pq_topic := t; pq_partition := p; pq_key := None; pq_value := Some v |}.
Definition c05y_batch : list produce_message :=
  [c05y_msg (tag "t") 0 (tag "a0"); c05y_msg (tag "t") 1 (tag "b0"); c05y_msg (tag "t") 0 (tag "a1");
   c05y_msg (tag "u") 0 (tag "c0"); c05y_msg (tag "t") 1 (tag "b1"); c05y_msg (tag "t") 2 (tag "d0")].
Definition c05y_tps : produce_tps :=
  [ (tag "t", [ (0, [(None, Some (tag "a0")); (None, Some (tag "a1"))]);
                (1, [(None, Some (tag "b0")); (None, Some (tag "b1"))]);
                (2, [(None, Some (tag "d0"))]) ]);
    (tag "u", [ (0, [(None, Some (tag "c0"))]) ]) ].

Example c05y_reqs_ex : produce_reqs c05y_state c05y_batch [] = Some [(tag "b1:9092", c05y_tps)].
Proof. vm_compute. reflexivity. Qed.

Lemma c05y_fits c : c = COMPRESSION_NONE \/ c = COMPRESSION_GZIP \/ c = COMPRESSION_SNAPPY ->
  wf_produce c05y_tps /\ records_fit cz_id c c05y_tps.
Proof.
  intros Hc. split.
  - unfold wf_produce, c05y_tps. repeat (constructor; cbn [fst snd]); unfold wf_produce_part, in_i32, i32_max, ulen;
      cbn [fst snd length]; lia.
  - assert (Hs : forall ms, In ms [ [(None, Some (tag "a0")); (None, Some (tag "a1"))];
                                    [(None, Some (tag "b0")); (None, Some (tag "b1"))];
                                    [(None, Some (tag "d0"))]; [(None, Some (tag "c0"))] ] ->
                              set_fits cz_id c ms).
    { intros ms Hin. cbn [In] in Hin.
      destruct Hin as [<-|[<-|[<-|[<-|[]]]]];
        (split; [repeat (apply Forall_cons; [vm_compute; repeat split; reflexivity|]); apply Forall_nil
                |intros _ plain Hp; vm_compute in Hp; apply Ok_inj in Hp; subst plain;
                 destruct Hc as [->|[->| ->]]; vm_compute; reflexivity]). }
    unfold records_fit. apply Forall_forall. intros tp Htp. apply Forall_forall. intros pm Hpm. apply Hs.
    unfold c05y_tps in Htp. cbn [In] in Htp. destruct Htp as [<-|[<-|[]]]; cbn [snd In] in Hpm.
    + destruct Hpm as [<-|[<-|[<-|[]]]]; cbn [snd In]; tauto.
    + destruct Hpm as [<-|[]]; cbn [snd In]; tauto.
Qed.

Example C05_wire_exactly_once_ex :
  match enc_produce_req cz_id 5 (tag "me") (-1) 1500 COMPRESSION_NONE c05y_tps with
  | Ok bs =>
      ulen bs <= i32_max
      /\ match parse_frame (frame bs) with
         | Some (_, ProduceRequest acks timeout wtps) =>
             acks = -1 /\ timeout = 1500
             /\ map (fun tw => (fst tw, map (fun pw => (fst pw, option_map (map rm_value) (spec_parse (snd pw)))) (snd tw))) wtps
                = [ (tag "t", [ (0, Some [Some (tag "a0"); Some (tag "a1")]);
                                (1, Some [Some (tag "b0"); Some (tag "b1")]);
                                (2, Some [Some (tag "d0")]) ]);
                    (tag "u", [ (0, Some [Some (tag "c0")]) ]) ]
         | _ => False
         end
  | _ => False
  end.
Proof. vm_compute. split; [discriminate|]. repeat split; reflexivity. Qed.

Example C05_wire_exactly_once_plain_hyps_ex :
  Forall (fun m => fits (pmsg_of m) /\ in_i32 (pq_partition m)) c05y_batch /\ ulen c05y_batch <= i32_max
  /\ In (tag "b1:9092", c05y_tps) [(tag "b1:9092", c05y_tps)].
Proof.
  split; [|split; [vm_compute; discriminate|left; reflexivity]].
  repeat (apply Forall_cons; [vm_compute; repeat split; discriminate|]). apply Forall_nil.
Qed.

(* ================================================================================================== *)
(* Part D: what the exchange loop writes                                                               *)
(* ================================================================================================== *)

(* the only events the exchange for `reqs` may perform: a write to h offers (a suffix of) the frame of the
   produce request built from the entry of h with THESE corr / client id / acks / timeout / compression;
   connects, reads and shutdowns concern hosts of the map *)
Definition wire_ok (e0 : codecs) (g0 : config) (corr acks timeout : Z) (reqs : list (bytes * produce_tps))
           (e : ev_op) : Prop :=
  match e with
  | EWrite h b =>
      exists tps p pre,
        In (h, tps) reqs
        /\ enc_produce_req e0 corr (Net.client_id g0) acks timeout (compression g0) tps = Ok p
        /\ frame p = pre ++ b
  | _ => In (ev_host e) (map fst reqs)
  end.

Lemma wire_ok_weaken e0 g0 corr acks timeout reqs reqs' e :
  (forall x, In x reqs -> In x reqs') ->
  wire_ok e0 g0 corr acks timeout reqs e -> wire_ok e0 g0 corr acks timeout reqs' e.
Proof.
  intros Hsub. assert (Hk : forall h, In h (map fst reqs) -> In h (map fst reqs')).
  { intros h Hin. apply in_map_iff in Hin. destruct Hin as (x & <- & Hx). apply in_map. apply Hsub. exact Hx. }
  destruct e as [h|h b|h n|h]; cbn [wire_ok ev_host]; try apply Hk.
  intros (tps & p & pre & Hin & Henc & Hf). exists tps, p, pre. split; [apply Hsub; exact Hin|split; assumption].
Qed.

Lemma grows_write_all_suffix (P : ev_op -> Prop) h full :
  (forall pre b, full = pre ++ b -> P (EWrite h b)) ->
  forall fuel buf pre, full = pre ++ buf -> grows P (write_all fuel h buf).
Proof.
  intros HP. induction fuel as [|f IH]; intros [|b bs] pre Hs; cbn [write_all];
    try apply grows_ret; try apply grows_fail.
  apply grows_bind; [apply grows_io; apply (HP pre); exact Hs|].
  intros o. destruct o; try apply grows_fail.
  - destruct (k <=? 0); [apply grows_fail|].
    apply (IH _ (pre ++ firstn (Z.to_nat k) (b :: bs))).
    rewrite <- app_assoc, firstn_skipn. exact Hs.
  - apply (IH _ pre). exact Hs.
Qed.

Lemma grows_send_request_payload (P : ev_op -> Prop) h payload :
  (forall p pre b, payload = Ok p -> frame p = pre ++ b -> P (EWrite h b)) -> grows P (send_request h payload).
Proof.
  intros HP x r x' E. unfold send_request in E. destruct payload as [p|e|w].
  - change (mbind (lift (Ok p)) (fun p0 => send h (frame p0)) x) with (send h (frame p) x) in E.
    revert x r x' E. change (grows P (send h (frame p))). unfold send.
    apply grows_bind; [|intros _; apply grows_ret]. apply grows_with_fuel. intros n.
    apply (grows_write_all_suffix P h (frame p)) with (pre := []); [|reflexivity].
    intros pre b Hs. apply (HP p pre b); [reflexivity|exact Hs].
  - cbv in E. injection E as <- <-. exists []. split; [reflexivity|constructor].
  - cbv in E. injection E as <- <-. exists []. split; [reflexivity|constructor].
Qed.

Lemma grows_get_conn' (P : ev_op -> Prop) h : P (EConnect h) -> P (EShutdown h) -> grows P (get_conn h).
Proof.
  intros HC HS. unfold get_conn. apply grows_bind; [apply grows_get_client|]. intros c.
  destruct (in_pool h (conns c)).
  - destruct (idle_expired (cfg c)); [|apply grows_ret].
    apply grows_bind; [apply grows_new_conn; exact HC|]. intros _. apply grows_shutdown. exact HS.
  - apply grows_bind; [apply grows_new_conn; exact HC|]. intros _. apply grows_set_conns.
Qed.

(* runs started in a state with codecs e0 and configuration g0 only push events satisfying P *)
Definition okfrom (e0 : codecs) (g0 : config) (P : ev_op -> Prop) {A} (m : M A) : Prop :=
  forall x r x', env x = e0 -> cfg (cl x) = g0 -> m x = (r, x') ->
    exists evs, trace x' = evs ++ trace x /\ Forall P evs.

Lemma okfrom_bind e0 g0 P {A B} (m : M A) (f : A -> M B) :
  grows P m -> NetFacts.keeps NetFacts.same_but_conns m -> (forall a, okfrom e0 g0 P (f a)) ->
  okfrom e0 g0 P (mbind m f).
Proof.
  intros Hm Hk Hf x r x' He Hg E. unfold mbind in E. destruct (m x) as [[a|e|w] x1] eqn:E1.
  - destruct (Hm _ _ _ E1) as [ev1 [T1 F1]].
    destruct (Hk _ _ _ E1) as (_ & _ & _ & _ & He1 & Hg1 & _).
    destruct (Hf a x1 r x') as [ev2 [T2 F2]]; [congruence|congruence|exact E|].
    exists (ev2 ++ ev1). rewrite T2, T1, app_assoc. split; [reflexivity|]. apply Forall_app. split; assumption.
  - injection E as <- <-. apply (Hm _ _ _ E1).
  - injection E as <- <-. apply (Hm _ _ _ E1).
Qed.

Lemma keeps_io_to_conns {A} (m : M A) : NetFacts.keeps NetFacts.same_but_io m -> NetFacts.keeps NetFacts.same_but_conns m.
Proof. apply NetFacts.keeps_weaken. exact NetFacts.same_but_io_conns. Qed.

Lemma exchange_okfrom e0 g0 corr acks timeout : forall reqs acc,
  okfrom e0 g0 (wire_ok e0 g0 corr acks timeout reqs) (produce_exchange corr acks timeout reqs acc).
Proof.
  induction reqs as [|[h tps] r IH]; intros acc x res x' He Hg E; cbn [produce_exchange] in E.
  - unfold ret in E. injection E as _ <-. exists []. split; [reflexivity|constructor].
  - set (P := wire_ok e0 g0 corr acks timeout ((h, tps) :: r)).
    rewrite (mbind_run _ _ _ _ _ (get_client_run x)) in E.
    rewrite (mbind_run get_env _ x (env x) x eq_refl) in E. cbv zeta in E. rewrite He, Hg in E.
    assert (Hrest : forall acc', okfrom e0 g0 P (produce_exchange corr acks timeout r acc')).
    { intros acc' y ry y' Hey Hgy Ey. destruct (IH acc' y ry y' Hey Hgy Ey) as (evs & T & F).
      exists evs. split; [exact T|]. eapply Forall_impl; [|exact F]. intros e.
      apply wire_ok_weaken. intros q Hq. right. exact Hq. }
    assert (HC : P (EConnect h)) by (left; reflexivity).
    assert (HS : P (EShutdown h)) by (left; reflexivity).
    assert (HR : okr P h) by (intros n; left; reflexivity).
    assert (HW : forall p pre b,
               enc_produce_req e0 corr (Net.client_id g0) acks timeout (compression g0) tps = Ok p ->
               frame p = pre ++ b -> P (EWrite h b)).
    { intros p pre b Hp Hf. exists tps, p, pre. split; [left; reflexivity|split; assumption]. }
    destruct (acks =? 0).
    + refine (okfrom_bind e0 g0 P _ _ (grows_get_conn' P h HC HS) (NetFacts.frame_get_conn h) _ x res x' He Hg E).
      intros _.
      refine (okfrom_bind e0 g0 P _ _ (grows_send_request_payload P h _ HW)
                          (keeps_io_to_conns _ (NetFacts.frame_send_request h _)) _).
      intros _. apply Hrest.
    + refine (okfrom_bind e0 g0 P _ _ _ (NetFacts.frame_send_receive _ _ h _) _ x res x' He Hg E).
      * unfold send_receive. apply grows_bind; [apply grows_get_conn'; assumption|]. intros _.
        apply grows_bind; [apply grows_send_request_payload; exact HW|]. intros _.
        apply grows_get_response. exact HR.
      * intros [z rtps]. apply Hrest.
Qed.

Theorem C05_exchange_writes : forall corr acks timeout reqs acc x r x',
  produce_exchange corr acks timeout reqs acc x = (r, x') ->
  exists evs, trace x' = evs ++ trace x
              /\ Forall (wire_ok (env x) (cfg (cl x)) corr acks timeout reqs) evs.
Proof.
  intros corr acks timeout reqs acc x r x' E.
  exact (exchange_okfrom (env x) (cfg (cl x)) corr acks timeout reqs acc x r x' eq_refl eq_refl E).
Qed.

(* the HashMap iteration order only decides the order of the requests *)
Lemma ordered_run (reqs : list (bytes * produce_tps)) y :
  exists o y', ordered reqs y = (Ok (reorder o reqs), y')
               /\ trace y' = trace y /\ env y' = env y /\ cl y' = cl y.
Proof.
  destruct reqs as [|q qs].
  - exists [], y. repeat split; reflexivity.
  - unfold ordered, pop_hosts, mbind, ret. destruct (hostq y) as [|o os].
    + exists [], y. repeat split; reflexivity.
    + eexists o, _. repeat split; reflexivity.
Qed.

Lemma wire_ok_reorder e0 g0 corr acks timeout o reqs e :
  wire_ok e0 g0 corr acks timeout (reorder o reqs) e -> wire_ok e0 g0 corr acks timeout reqs e.
Proof. apply wire_ok_weaken. intros x. apply Permutation_in. apply reorder_perm. Qed.

(* KafkaClient::produce_messages (after the duration conversion): whatever the outcome, everything written
   is (part of) the frame of the request for that host's entry of the request map of the batch, with the
   call's acks and timeout and the client's configuration; one correlation id for the whole call *)
Theorem C05_call_writes : forall acks timeout msgs reqs x r x',
  produce_reqs (cs (cl x)) msgs [] = Some reqs ->
  internal_produce_messages acks timeout msgs x = (r, x') ->
  exists evs, trace x' = evs ++ trace x
              /\ Forall (wire_ok (env x) (cfg (cl x)) (fst (next_correlation_id (cs (cl x)))) acks timeout reqs) evs.
Proof.
  intros acks timeout msgs reqs x r x' Hreqs E.
  pose proof (C05_call_unfold acks timeout msgs x) as Hc. rewrite Hreqs in Hc. rewrite Hc in E. clear Hc.
  destruct (ordered_run reqs (bump_corr x)) as (o & y' & Ho & Ht & He & Hcl).
  rewrite (mbind_run _ _ _ _ _ Ho) in E.
  destruct (C05_exchange_writes _ _ _ _ _ _ _ _ E) as (evs & T & F).
  exists evs. split; [rewrite T, Ht; reflexivity|].
  rewrite He, Hcl in F. eapply Forall_impl; [|exact F]. intros e. apply wire_ok_reorder.
Qed.

(* Producer::send_all: the same with the producer's own required acks and ack timeout *)
Theorem C05_producer_writes : forall p recs reqs x r x',
  produce_reqs (cs (cl x)) (fst (partitioned (p_parts p) (p_cntr p) recs)) [] = Some reqs ->
  producer_send_all p recs x = (r, x') ->
  exists evs, trace x' = evs ++ trace x
              /\ Forall (wire_ok (env x) (cfg (cl x)) (fst (next_correlation_id (cs (cl x))))
                                 (p_acks p) (p_ack_timeout p) reqs) evs.
Proof.
  intros p recs reqs x r x' Hreqs E.
  rewrite (C05_producer_call_unfold p recs x reqs Hreqs) in E.
  destruct (ordered_run reqs (bump_corr x)) as (o & y' & Ho & Ht & He & Hcl).
  rewrite (mbind_run _ _ _ _ _ Ho) in E.
  unfold mbind at 1 in E.
  destruct (produce_exchange (fst (next_correlation_id (cs (cl x)))) (p_acks p) (p_ack_timeout p) (reorder o reqs) [] y')
    as [rr y2] eqn:E2.
  destruct (C05_exchange_writes _ _ _ _ _ _ _ _ E2) as (evs & T & F).
  assert (Hx' : trace x' = trace y2) by (destruct rr; injection E as _ <-; reflexivity).
  exists evs. split; [rewrite Hx', T, Ht; reflexivity|].
  rewrite He, Hcl in F. eapply Forall_impl; [|exact F]. intros e. apply wire_ok_reorder.
Qed.

(* ---- and, on success, every request of the map was offered to its host in full ---------------------- *)
Definition anyev (e : ev_op) : Prop := True.

Lemma frame_nonempty p : frame p <> [].
Proof.
  unfold frame. intros H. apply (f_equal (@length byte)) in H. rewrite app_length in H.
  unfold enc_i32 in H. rewrite be_enc_length in H. cbn [length] in H. lia.
Qed.

Lemma send_request_ok_first h payload x n x' :
  send_request h payload x = (Ok n, x') ->
  exists p evs, payload = Ok p /\ trace x' = evs ++ trace x /\ In (EWrite h (frame p)) evs.
Proof.
  intros E. unfold send_request in E. destruct payload as [p|e|w]; [|cbv in E; discriminate|cbv in E; discriminate].
  change (mbind (lift (Ok p)) (fun p0 => send h (frame p0)) x) with (send h (frame p) x) in E.
  exists p. unfold send in E. apply mbind_Ok_inv in E. destruct E as (u & x1 & E & Er).
  unfold ret in Er. injection Er as _ <-. unfold with_fuel in E.
  destruct (frame p) as [|b0 bs] eqn:Ef; [exfalso; exact (frame_nonempty p Ef)|].
  cbn [write_all] in E. apply mbind_Ok_inv in E. destruct E as (o & xa & Eio & Ek).
  assert (Hxa : trace xa = EWrite h (b0 :: bs) :: trace x).
  { unfold io in Eio. destruct (script x); [discriminate|]. injection Eio as _ <-. reflexivity. }
  assert (Hk : exists e2, trace x1 = e2 ++ trace xa).
  { destruct o; try discriminate.
    - destruct (k <=? 0); [discriminate|].
      destruct (grows_write_all anyev h (fun _ => I) _ _ _ _ _ Ek) as (e2 & T & _). exists e2. exact T.
    - destruct (grows_write_all anyev h (fun _ => I) _ _ _ _ _ Ek) as (e2 & T & _). exists e2. exact T. }
  destruct Hk as (e2 & T). exists (e2 ++ [EWrite h (b0 :: bs)]). split; [reflexivity|]. split.
  - rewrite T, Hxa, <- app_assoc. reflexivity.
  - apply in_or_app. right. left. reflexivity.
Qed.

Lemma okw_any h : okw anyev h.
Proof. repeat split. Qed.

Lemma exchange_sends_all e0 g0 corr acks timeout : forall reqs acc x v x',
  env x = e0 -> cfg (cl x) = g0 ->
  produce_exchange corr acks timeout reqs acc x = (Ok v, x') ->
  exists evs, trace x' = evs ++ trace x
    /\ forall h tps, In (h, tps) reqs ->
         exists p, enc_produce_req e0 corr (Net.client_id g0) acks timeout (compression g0) tps = Ok p
                   /\ In (EWrite h (frame p)) evs.
Proof.
  induction reqs as [|[h tps] r IH]; intros acc x v x' He Hg E; cbn [produce_exchange] in E.
  - unfold ret in E. injection E as _ <-. exists []. split; [reflexivity|]. intros h tps [].
  - rewrite (mbind_run _ _ _ _ _ (get_client_run x)) in E.
    rewrite (mbind_run get_env _ x (env x) x eq_refl) in E. cbv zeta in E. rewrite He, Hg in E.
    assert (Hfin : forall e1 xm,
               trace xm = e1 ++ trace x -> env xm = e0 -> cfg (cl xm) = g0 ->
               (exists p, enc_produce_req e0 corr (Net.client_id g0) acks timeout (compression g0) tps = Ok p
                          /\ In (EWrite h (frame p)) e1) ->
               forall acc', produce_exchange corr acks timeout r acc' xm = (Ok v, x') ->
               exists evs, trace x' = evs ++ trace x
                 /\ forall h0 tps0, In (h0, tps0) ((h, tps) :: r) ->
                      exists p, enc_produce_req e0 corr (Net.client_id g0) acks timeout (compression g0) tps0 = Ok p
                                /\ In (EWrite h0 (frame p)) evs).
    { intros e1 xm T1 Hem Hgm (p & Hp & Hin) acc' Er.
      destruct (IH acc' xm v x' Hem Hgm Er) as (e3 & T3 & H3).
      exists (e3 ++ e1). split; [rewrite T3, T1, app_assoc; reflexivity|].
      intros h0 tps0 [Eq|Hin0].
      - injection Eq as <- <-. exists p. split; [exact Hp|]. apply in_or_app. right. exact Hin.
      - destruct (H3 h0 tps0 Hin0) as (p0 & Hp0 & Hi0). exists p0. split; [exact Hp0|].
        apply in_or_app. left. exact Hi0. }
    destruct (acks =? 0).
    + apply mbind_Ok_inv in E. destruct E as (u1 & x1 & E1 & E).
      apply mbind_Ok_inv in E. destruct E as (u2 & x2 & E2 & E).
      destruct (grows_get_conn anyev h (okw_any h) _ _ _ E1) as (ev1 & T1 & _).
      destruct (NetFacts.frame_get_conn h _ _ _ E1) as (_ & _ & _ & _ & He1 & Hg1 & _).
      destruct (send_request_ok_first _ _ _ _ _ E2) as (p & ev2 & Hp & T2 & Hin).
      destruct (NetFacts.frame_send_request h _ _ _ _ E2) as (_ & _ & _ & _ & Hcl2 & He2).
      apply (Hfin (ev2 ++ ev1) x2) with (acc' := acc); [rewrite T2, T1, app_assoc; reflexivity|congruence|congruence| |exact E].
      exists p. split; [exact Hp|]. apply in_or_app. left. exact Hin.
    + apply mbind_Ok_inv in E. destruct E as ([z rtps] & x3 & E1 & E).
      unfold send_receive in E1.
      apply mbind_Ok_inv in E1. destruct E1 as (u1 & x1 & E1 & E1').
      apply mbind_Ok_inv in E1'. destruct E1' as (u2 & x2 & E2 & E3).
      destruct (grows_get_conn anyev h (okw_any h) _ _ _ E1) as (ev1 & T1 & _).
      destruct (NetFacts.frame_get_conn h _ _ _ E1) as (_ & _ & _ & _ & He1 & Hg1 & _).
      destruct (send_request_ok_first _ _ _ _ _ E2) as (p & ev2 & Hp & T2 & Hin).
      destruct (NetFacts.frame_send_request h _ _ _ _ E2) as (_ & _ & _ & _ & Hcl2 & He2).
      destruct (grows_get_response anyev dec_produce_resp h (fun _ => I) _ _ _ E3) as (ev3 & T3 & _).
      destruct (NetFacts.frame_get_response _ dec_produce_resp h _ _ _ E3) as (_ & _ & _ & _ & Hcl3 & He3).
      apply (Hfin (ev3 ++ ev2 ++ ev1) x3) with (acc' := acc ++ map (fun '(t, ps) => (t, map produce_confirm ps)) rtps);
        [rewrite T3, T2, T1, !app_assoc; reflexivity|congruence|congruence| |exact E].
      exists p. split; [exact Hp|]. apply in_or_app. right. apply in_or_app. left. exact Hin.
Qed.

(* a call that succeeds has offered to every host of the request map the whole frame of ITS entry (the
   first write() of a request offers all of it; write_all only returns Ok once everything was accepted):
   no involved broker is skipped, also with acks = 0 where nothing is read back *)
Theorem C05_exchange_sends_all : forall corr acks timeout reqs acc x v x',
  produce_exchange corr acks timeout reqs acc x = (Ok v, x') ->
  exists evs, trace x' = evs ++ trace x
    /\ forall h tps, In (h, tps) reqs ->
         exists p, enc_produce_req (env x) corr (Net.client_id (cfg (cl x))) acks timeout (compression (cfg (cl x))) tps = Ok p
                   /\ In (EWrite h (frame p)) evs.
Proof.
  intros corr acks timeout reqs acc x v x' E.
  exact (exchange_sends_all (env x) (cfg (cl x)) corr acks timeout reqs acc x v x' eq_refl eq_refl E).
Qed.

(* non-vacuity: the acks = 0 run of C05_noack_no_read_ex succeeds; both hosts were offered a whole frame *)
Example C05_exchange_sends_all_ex :
  fst (internal_produce_messages 0 1000 c20_batch c05_st0) = Ok []
  /\ map (fun e => match e with
                   | EWrite h b => match parse_frame b with
                                   | Some (_, ProduceRequest a t wtps) => Some (h, a, t, map fst wtps)
                                   | _ => None end
                   | _ => None end) (rev (trace (snd (internal_produce_messages 0 1000 c20_batch c05_st0))))
     = [ None; Some (tag "h1:9092", 0, 1000, [tag "t2"; tag "t1"]);
         None; Some (tag "h0:9092", 0, 1000, [tag "t1"; tag "t2"]); None; None ].
Proof. vm_compute. split; reflexivity. Qed.

(* non-vacuity: the run of C05_confirms_ex (acks = 1, timeout 1000, two brokers, the request for h1 first):
   the first write to each host IS the whole frame (pre = []) of a request that encodes, and read by the
   request grammar it carries acks 1 and timeout 1000 *)
Example C05_call_writes_ex :
  let x' := snd (internal_produce_messages 1 1000 c20_batch c05_st1) in
  map (fun e => match e with
                | EWrite h b => match parse_frame b with
                                | Some (hd, ProduceRequest a t wtps) => Some (h, correlation_id hd, a, t, map fst wtps)
                                | _ => None end
                | _ => None end) (rev (trace x'))
  = [ None; Some (tag "h1:9092", 8, 1, 1000, [tag "t2"; tag "t1"]); None; None;
      None; Some (tag "h0:9092", 8, 1, 1000, [tag "t1"; tag "t2"]); None; None ]
  /\ produce_reqs (cs (cl c05_st1)) c20_batch [] = Some c05_reqs.
Proof. vm_compute. split; reflexivity. Qed.

Check C05_wire_request.
Check C05_wire_exactly_once.
Check C05_wire_exactly_once_plain.
Check C05_exchange_writes.
Check C05_call_writes.
Check C05_producer_writes.
Check C05_exchange_sends_all.

Print Assumptions C05_wire_request.
Print Assumptions C05_wire_exactly_once.
Print Assumptions C05_wire_exactly_once_plain.
Print Assumptions C05_exchange_writes.
Print Assumptions C05_call_writes.
Print Assumptions C05_producer_writes.
Print Assumptions C05_exchange_sends_all.
