(* C16, third adequacy pass: "group" and "fallback offset" IN BEHAVIOUR.

   Seed C16-5 (consumer::Builder::create applies the offset storage only if it is Some(_)) is mirrored by a
   change of `cfg_set_consumer` and falsifies C16_consumer_applied (clause `offset_storage g' = cb_storage b`);
   nothing had to be added for it except the end-to-end corollary in section 5.

   Seed C16-6 (consumer::state::load_fetch_states: guard of the short cut changed from "no committed offsets
   were loaded" to "the consumer has no group") is mirrored by a change of `load_fetch_states` (the guard
   `match consumed with [] => ..` becomes `match group with [] => ..`, the group being handed in by
   `consumer_create`).  No theorem of Props/C16.v noticed: they stop at `k_fallback k = cb_fallback b` (the
   field is copied) and at `write_ok`, whose clause RQ_offset allows ANY time in an Offset request.  What was
   missing is the behaviour the option selects:

   (A) whatever the group: if no committed offset was loaded, Builder::create performs exactly ONE offset
       look-up, with the time of the configured fallback offset (Earliest -> -2, Latest -> -1, ByTime t -> t),
       and its outcome is the outcome of create (sections 1, 2);
   (B) on the wire: every byte written by that look-up belongs to an Offset request all of whose partition
       entries carry that time (section 3);
   (C) every assigned partition then starts at the offset the broker returned for that time (section 4);
   (D) with committed offsets (the general path): a partition without a usable committed offset starts at the
       latest / earliest offset according to the option, and ByTime is refused with Kafka(Unknown) - only
       there (section 4).

   The mirrored change sends a consumer with a group and nothing committed down the general path: (A) fails
   (two look-ups at -1 and -2 instead of one at the configured time; ByTime t: Err (Kafka Unknown) instead of
   a consumer). *)
From KV Require Import Base.Prelude Gen.ErrorCodes Gen.Consts Model.Codecs Model.Requests Model.Responses
                       Model.ClientState Model.Net Model.Client Model.Producer Model.Consumer.
From KV Require Import Proofs.BytesFacts Proofs.NetFacts Proofs.C07Facts Proofs.C19Facts Proofs.C16Facts
                       Proofs.C16Extra.
From Coq Require Import ZifyBool.

(* ================================================================================== *)
(* 1. nothing committed: the short cut, whatever the group                            *)
(* ================================================================================== *)

(* one look-up with the time of the fallback offset; every partition starts at the answer *)
Definition shortcut_states (fb : fallback) (asg subs : list (bytes * list Z)) : M (list (tpkey * (Z * Z))) :=
  fun s =>
    match load_partition_offsets (map fst subs) (fallback_time fb) s with
    | (Ok offsets, s1) => (fallback_states asg offsets (fetch_max_bytes_per_partition (cfg (cl s))) subs [], s1)
    | (Err e, s1) => (Err e, s1)
    | (Panic w, s1) => (Panic w, s1)
    end.

Theorem C16_fallback_nothing_committed : forall fb asg subs s,
  load_fetch_states fb asg subs [] s = shortcut_states fb asg subs s.
Proof.
  intros fb asg subs s. unfold load_fetch_states, shortcut_states.
  cbv beta iota delta [mbind get_client get_env lift].
  destruct (load_partition_offsets (map fst subs) (fallback_time fb) s) as [[o|e|w] s1]; reflexivity.
Qed.

Theorem C16_fallback_time_values : forall t,
  fallback_time FbEarliest = -2 /\ fallback_time FbLatest = -1 /\ fallback_time (FbByTime t) = t.
Proof. intros t. repeat split. Qed.

(* the configuration is not touched by the steps of create that precede the look-up *)
Lemma cfg_load_metadata_all s r s' : load_metadata_all s = (r, s') -> ext s s' /\ cfg (cl s') = cfg (cl s).
Proof.
  intros H. destruct (good_load_metadata_all (cfg (cl s)) (env s) Lnone s r s' eq_refl eq_refl H) as ([E _] & C & _).
  split; assumption.
Qed.

Lemma cfg_load_consumed_offsets group asg subs s r s' :
  load_consumed_offsets group asg subs s = (r, s') -> ext s s' /\ cfg (cl s') = cfg (cl s).
Proof.
  intros H.
  destruct (good_load_consumed_offsets (cfg (cl s)) (env s) (Lgroup group) group asg subs eq_refl s r s' eq_refl eq_refl H)
    as ([E _] & C & _).
  split; assumption.
Qed.

Lemma cfg_create_prefix (src : list bytes + client) s r s' :
  (match src with inl _ => load_metadata_all | inr _ => ret tt end) s = (r, s') -> ext s s' /\ cfg (cl s') = cfg (cl s).
Proof.
  destruct src as [hs|c]; [apply cfg_load_metadata_all|].
  intros H. inversion H; subst. split; [apply ext_refl|reflexivity].
Qed.

(* (A), forward: from the state in which the group's offsets were looked up and none was found, create IS
   the single look-up at the configured time followed by `fallback_states` *)
Theorem C16_consumer_create_nothing_committed : forall src calls s wait s1 subs s2,
  let b := fold_left cbuilder_apply calls (cbuilder_new src) in
  cb_assign b <> [] -> to_millis_i32 (cb_max_wait b) = Ok wait ->
  (match src with inl _ => load_metadata_all | inr _ => ret tt end)
    (st_with_client s {| cfg := cfg_set_consumer (cfg (cl s)) b wait; cs := cs (cl s); conns := conns (cl s) |})
  = (Ok tt, s1) ->
  subscriptions_of (cs (cl s1)) (from_map (cb_assign b)) = Ok subs ->
  load_consumed_offsets (cb_group b) (from_map (cb_assign b)) subs s1 = (Ok [], s2) ->
  consumer_create src calls s =
  match load_partition_offsets (map fst subs) (fallback_time (cb_fallback b)) s2 with
  | (Ok offsets, s3) =>
      match fallback_states (from_map (cb_assign b)) offsets (cb_max_bytes b) subs [] with
      | Ok f => (Ok {| k_client := cl s3; k_group := cb_group b; k_fallback := cb_fallback b;
                       k_retry_limit := cb_retry_limit b; k_assign := from_map (cb_assign b); k_fetch := f;
                       k_retry := []; k_consumed := [] |}, s3)
      | Err e => (Err e, s3)
      | Panic w => (Panic w, s3)
      end
  | (Err e, s3) => (Err e, s3)
  | (Panic w, s3) => (Panic w, s3)
  end.
Proof.
  intros src calls s wait s1 subs s2 b Ha Hw Hmeta Hsubs Hcons.
  rewrite (C16_consumer_create_config src calls s wait Ha Hw). fold b.
  set (s0 := st_with_client s {| cfg := cfg_set_consumer (cfg (cl s)) b wait; cs := cs (cl s); conns := conns (cl s) |}) in *.
  assert (Hcfg : fetch_max_bytes_per_partition (cfg (cl s2)) = cb_max_bytes b).
  { destruct (cfg_create_prefix _ _ _ _ Hmeta) as [_ C1]. destruct (cfg_load_consumed_offsets _ _ _ _ _ _ Hcons) as [_ C2].
    rewrite C2, C1. reflexivity. }
  unfold consumer_create_rest.
  rewrite (NetFacts.mbind_ok _ _ _ _ _ Hmeta). cbv zeta.
  rewrite (NetFacts.mbind_ok get_client _ s1 (cl s1) s1 eq_refl).
  rewrite Hsubs. rewrite (NetFacts.mbind_ok (lift (Ok subs)) _ s1 subs s1 eq_refl).
  rewrite (NetFacts.mbind_ok _ _ _ _ _ Hcons).
  unfold mbind at 1. rewrite C16_fallback_nothing_committed. unfold shortcut_states. rewrite Hcfg.
  destruct (load_partition_offsets (map fst subs) (fallback_time (cb_fallback b)) s2) as [[offsets|e|w] s3]; try reflexivity.
Qed.

(* ================================================================================== *)
(* 2. the same, read off a consumer that was built                                    *)
(* ================================================================================== *)

(* (A), backward: a consumer that came out of create without committed offsets was started by one look-up
   at the time of the builder's fallback offset, the last thing create did *)
Theorem C16_consumer_create_fallback_in_force : forall src calls s k s',
  consumer_create src calls s = (Ok k, s') -> k_consumed k = [] ->
  let b := fold_left cbuilder_apply calls (cbuilder_new src) in
  exists subs s1 s2 offsets,
    ext s s1 /\ cfg (cl s1) = cfg (k_client k) /\
    subscriptions_of (cs (cl s1)) (k_assign k) = Ok subs /\
    load_consumed_offsets (k_group k) (k_assign k) subs s1 = (Ok [], s2) /\
    cfg (cl s2) = cfg (k_client k) /\
    load_partition_offsets (map fst subs) (fallback_time (cb_fallback b)) s2 = (Ok offsets, s') /\
    fallback_states (k_assign k) offsets (cb_max_bytes b) subs [] = Ok (k_fetch k).
Proof.
  intros src calls s k s' H Hk b.
  destruct (C16_consumer_create_uses _ _ _ _ _ H) as (_ & _ & _ & _ & _ & wait & Hw). fold b in Hw.
  assert (Ha : cb_assign b <> []).
  { intros E. unfold consumer_create in H. fold b in H. cbv zeta in H. rewrite E in H. discriminate H. }
  destruct (C16_consumer_create_wire _ _ _ _ _ wait H Ha Hw) as (_ & _ & Cs' & Ck). specialize (Ck k eq_refl).
  rewrite (C16_consumer_create_config src calls s wait Ha Hw) in H. fold b in H.
  set (s0 := st_with_client s {| cfg := cfg_set_consumer (cfg (cl s)) b wait; cs := cs (cl s); conns := conns (cl s) |}) in *.
  unfold consumer_create_rest in H.
  apply C16Facts.mbind_ok in H. destruct H as (u & s1 & Hmeta & H). cbv zeta in H.
  apply C16Facts.mbind_ok in H. destruct H as (c1 & s1' & Hc1 & H). unfold get_client in Hc1. inversion Hc1; subst c1 s1'.
  apply C16Facts.mbind_ok in H. destruct H as (subs & s1' & Hsubs & H). unfold lift in Hsubs. inversion Hsubs as [[Hsubs' Es]]. subst s1'.
  apply C16Facts.mbind_ok in H. destruct H as (consumed & s2 & Hcons & H).
  apply C16Facts.mbind_ok in H. destruct H as (fetch & s3 & Hf & H).
  apply C16Facts.mbind_ok in H. destruct H as (c2 & s3' & Hc2 & H). unfold get_client in Hc2. inversion Hc2; subst c2 s3'.
  unfold ret in H. inversion H; subst k s3. cbn [k_consumed k_assign k_fetch k_client k_group] in *. subst consumed.
  destruct (cfg_create_prefix _ _ _ _ Hmeta) as [E1 C1]. destruct (cfg_load_consumed_offsets _ _ _ _ _ _ Hcons) as [E2 C2].
  assert (C0 : cfg (cl s0) = cfg_set_consumer (cfg (cl s)) b wait) by reflexivity.
  assert (Hmb : fetch_max_bytes_per_partition (cfg (cl s2)) = cb_max_bytes b) by (rewrite C2, C1, C0; reflexivity).
  rewrite C16_fallback_nothing_committed in Hf. unfold shortcut_states in Hf. rewrite Hmb in Hf.
  destruct (load_partition_offsets (map fst subs) (fallback_time (cb_fallback b)) s2) as [[offsets|e|w] s3] eqn:El;
    try discriminate Hf.
  inversion Hf as [[Hfs Es3]]. subst s3.
  exists subs, s1, s2, offsets.
  split; [exact E1|].
  split; [rewrite Ck, C1; exact C0|].
  split; [exact Hsubs'|].
  split; [exact Hcons|].
  split; [rewrite Ck, C2, C1; exact C0|].
  split; [exact El|first [exact Hfs|reflexivity]].
Qed.

(* ================================================================================== *)
(* 3. the look-up on the wire: every Offset request carries the requested time        *)
(* ================================================================================== *)

(* every partition entry (partition, time) of the request body carries `time` *)
Definition times_are (time : Z) (tps : list (bytes * list (Z * Z))) : Prop :=
  Forall (fun tp => Forall (fun pe => snd pe = time) (snd tp)) tps.

(* p is an Offset request (api key 2, version 0) under client id `cid`, all of whose entries ask for `time` *)
Definition offset_req_at (cid : bytes) (time : Z) (p : bytes) : Prop :=
  exists corr tps, enc_offset_req corr cid tps = Ok p /\ times_are time tps.

(* a write offers the unwritten rest of the frame of a payload satisfying Q *)
Definition wr_ok (Q : bytes -> Prop) (e : ev_op) : Prop :=
  match e with
  | EWrite _ b => exists p pre, Q p /\ frame p = pre ++ b
  | _ => True
  end.

Lemma tp_add_times time : forall tps topic p, times_are time tps -> times_are time (tp_add tps topic (p, time)).
Proof.
  induction tps as [|[t ps] r IH]; intros topic p H; cbn [tp_add].
  - constructor; [|constructor]. cbn [snd]. constructor; [reflexivity|constructor].
  - inversion H as [|? ? H1 H2]; subst. destruct (bytes_eqb t topic).
    + constructor; [|exact H2]. cbn [snd] in *. apply Forall_app. split; [exact H1|]. constructor; [reflexivity|constructor].
    + constructor; [exact H1|]. apply IH. exact H2.
Qed.

Definition hosts_times (time : Z) (reqs : list (bytes * list (bytes * list (Z * Z)))) : Prop :=
  Forall (fun hr => times_are time (snd hr)) reqs.

Lemma host_add_times time : forall reqs host topic p,
  hosts_times time reqs -> hosts_times time (host_add reqs host topic (p, time)).
Proof.
  induction reqs as [|[h tps] r IH]; intros host topic p H; cbn [host_add].
  - constructor; [|constructor]. cbn [snd]. apply tp_add_times. constructor.
  - inversion H as [|? ? H1 H2]; subst. destruct (bytes_eqb h host).
    + constructor; [|exact H2]. cbn [snd] in *. apply tp_add_times. exact H1.
    + constructor; [exact H1|]. apply IH. exact H2.
Qed.

Lemma offset_reqs_times s time : forall topics, hosts_times time (offset_reqs s topics time).
Proof.
  intros topics. unfold offset_reqs.
  assert (G : forall acc, hosts_times time acc ->
            hosts_times time (fold_left (fun reqs topic =>
               match partitions_for s topic with
               | None => reqs
               | Some ps => fold_left (fun reqs '(id, host) => host_add reqs host topic (id, time))
                                      (leaders_from s ps 0) reqs
               end) topics acc)).
  { induction topics as [|t r IH]; intros acc Hacc; cbn [fold_left]; [exact Hacc|].
    apply IH. destruct (partitions_for s t) as [ps|]; [|exact Hacc].
    generalize (leaders_from s ps 0) acc Hacc. clear.
    induction l as [|[id host] l IH]; intros acc Hacc; cbn [fold_left]; [exact Hacc|].
    apply IH. apply host_add_times. exact Hacc. }
  apply G. constructor.
Qed.

Lemma take_key_Forall {V} (P : bytes * V -> Prop) k : forall l x r,
  take_key k l = Some (x, r) -> Forall P l -> P x /\ Forall P r.
Proof.
  induction l as [|[k' v] l IH]; intros x r H HF; cbn [take_key] in H; [discriminate|].
  inversion HF as [|? ? H1 H2]; subst. destruct (bytes_eqb k' k).
  - inversion H; subst. split; assumption.
  - destruct (take_key k l) as [[x0 r0]|] eqn:E; [|discriminate]. inversion H; subst.
    destruct (IH _ _ eq_refl H2) as [Px Pr]. split; [exact Px|constructor; assumption].
Qed.

Lemma reorder_Forall {V} (P : bytes * V -> Prop) : forall order l, Forall P l -> Forall P (reorder order l).
Proof.
  induction order as [|k ks IH]; intros l H; cbn [reorder]; [exact H|].
  destruct (take_key k l) as [[x r]|] eqn:E; [|apply IH; exact H].
  destruct (take_key_Forall P k _ _ _ E H) as [Px Pr]. constructor; [exact Px|apply IH; exact Pr].
Qed.

Section WireQ.
  Variable Q : bytes -> Prop.
  Let R := ops_in (wr_ok Q).

  Lemma preorder_RQ : preorder R.
  Proof. apply preorder_ops_in. Qed.

  Lemma RQ_quiet s s' : script s' = script s -> trace s' = trace s -> R s s'.
  Proof.
    intros Hs Ht. assert (Hseg : seg s s' [] []) by (split; cbn [app rev]; congruence).
    split; [exists [], []; exact Hseg|]. rewrite (seg_performed _ _ _ _ Hseg). constructor.
  Qed.

  Lemma keeps_RQ_io op : wr_ok Q op -> keeps R (io op).
  Proof. intros H. apply keeps_io_ops. exact H. Qed.

  Lemma keeps_RQ_write_all p (Hp : Q p) fuel h :
    forall buf pre, frame p = pre ++ buf -> keeps R (write_all fuel h buf).
  Proof.
    induction fuel as [|f IH]; intros [|b0 buf] pre Hpre; cbn [write_all];
      try (apply keeps_ret; exact preorder_RQ); try (apply keeps_fail; exact preorder_RQ).
    apply keeps_bind; [exact preorder_RQ|apply keeps_RQ_io; exists p, pre; split; assumption|].
    intros [ok|k| |e|bs| |e|]; try (apply keeps_fail; exact preorder_RQ).
    - destruct (k <=? 0); [apply keeps_fail; exact preorder_RQ|].
      apply (IH _ (pre ++ firstn (Z.to_nat k) (b0 :: buf))).
      rewrite <- app_assoc, firstn_skipn. exact Hpre.
    - apply (IH _ pre). exact Hpre.
  Qed.

  Lemma keeps_RQ_send_request h payload :
    (forall p, payload = Ok p -> Q p) -> keeps R (send_request h payload).
  Proof.
    intros Hp s r s' H. unfold send_request in H. destruct payload as [p|e|w];
      cbv beta iota delta [mbind lift] in H.
    - revert s r s' H. unfold send.
      apply keeps_bind; [exact preorder_RQ| |intros _; apply keeps_ret; exact preorder_RQ].
      apply keeps_with_fuel. intros n. apply (keeps_RQ_write_all p (Hp p eq_refl) n h (frame p) []). reflexivity.
    - inversion H; subst. apply preorder_RQ.
    - inversion H; subst. apply preorder_RQ.
  Qed.

  Lemma keeps_RQ_send_receive {A} (d : dec A) h payload :
    (forall p, payload = Ok p -> Q p) -> keeps R (send_receive d h payload).
  Proof.
    intros Hp. unfold send_receive.
    apply keeps_bind; [exact preorder_RQ| |]. 
    { apply (keepsR_get_conn _ preorder_RQ h); intros; try (apply keeps_RQ_io; exact I). apply keeps_set_conns_ops. }
    intros _.
    apply keeps_bind; [exact preorder_RQ|apply keeps_RQ_send_request; exact Hp|]. intros _.
    apply (keepsR_get_response _ preorder_RQ h); intros; apply keeps_RQ_io; exact I.
  Qed.

  Lemma keeps_RQ_offsets_exchange {P V} enc (d : dec (Z * list (bytes * list P))) (conv : P -> V + Z) pid :
    forall reqs m, Forall (fun hr => forall p, enc (snd hr) = Ok p -> Q p) reqs ->
    keeps R (offsets_exchange enc d conv pid reqs m).
  Proof.
    induction reqs as [|[h tps] r IH]; intros m HF; cbn [offsets_exchange]; [apply keeps_ret; exact preorder_RQ|].
    inversion HF as [|? ? H1 H2]; subst. cbn [snd] in H1.
    apply keeps_bind; [exact preorder_RQ|apply keeps_RQ_send_receive; exact H1|].
    intros [c rtps]. apply keeps_bind; [exact preorder_RQ|apply keeps_lift; exact preorder_RQ|].
    intros m'. apply IH. exact H2.
  Qed.
End WireQ.

Lemma next_corr_quiet s r s' : next_corr s = (r, s') ->
  script s' = script s /\ trace s' = trace s /\ cfg (cl s') = cfg (cl s).
Proof.
  unfold next_corr. cbv beta iota delta [mbind get_client]. destruct (next_correlation_id (cs (cl s))) as [n x].
  cbv beta iota delta [mbind set_cs get_client set_client ret]. intros H. inversion H; subst. repeat split.
Qed.

Lemma ordered_inv {V} (reqs : list (bytes * V)) s r s' : ordered reqs s = (r, s') ->
  script s' = script s /\ trace s' = trace s /\ cl s' = cl s /\ exists o, r = Ok (reorder o reqs).
Proof.
  unfold ordered. destruct reqs as [|x l].
  - intros H. inversion H; subst. repeat split. exists []. reflexivity.
  - cbv beta iota delta [mbind pop_hosts ret]. destruct (hostq s) as [|o q]; intros H; inversion H; subst; cbn [script trace cl];
      (split; [reflexivity|split; [reflexivity|split; [reflexivity|]]]); [exists []|exists o]; reflexivity.
Qed.

(* (B) *)
Theorem C16_fetch_offsets_time_on_wire : forall topics time s r s',
  fetch_offsets topics time s = (r, s') ->
  ext s s' /\ Forall (wr_ok (offset_req_at (client_id (cfg (cl s))) time)) (performed s s').
Proof.
  intros topics time s r s' H.
  set (Q := offset_req_at (client_id (cfg (cl s))) time).
  change (ops_in (wr_ok Q) s s'). unfold fetch_offsets in H.
  bind_inv H corr s1 H1 H2.
  - destruct (next_corr_quiet _ _ _ H1) as (A1 & A2 & A3).
    eapply (proj2 (preorder_RQ Q)); [apply RQ_quiet; eassumption|].
    cbv beta iota delta [mbind get_client] in H2.
    destruct (ordered (offset_reqs (cs (cl s1)) topics time) s1) as [[reqs|e|w] s2] eqn:Eo.
    + destruct (ordered_inv _ _ _ _ Eo) as (B1 & B2 & B3 & o & Ho). inversion Ho; subst reqs.
      eapply (proj2 (preorder_RQ Q)); [apply RQ_quiet; eassumption|].
      eapply (keeps_RQ_offsets_exchange Q); [|exact H2].
      apply reorder_Forall. eapply Forall_impl; [|apply offset_reqs_times].
      intros [h tps] Ht p Hp. cbn [snd] in *. exists corr, tps. rewrite A3 in Hp. split; [exact Hp|exact Ht].
    + destruct (ordered_inv _ _ _ _ Eo) as (B1 & B2 & B3 & o & Ho). discriminate Ho.
    + destruct (ordered_inv _ _ _ _ Eo) as (B1 & B2 & B3 & o & Ho). discriminate Ho.
  - destruct (next_corr_quiet _ _ _ H1) as (A1 & A2 & A3). apply RQ_quiet; assumption.
  - destruct (next_corr_quiet _ _ _ H1) as (A1 & A2 & A3). apply RQ_quiet; assumption.
Qed.

Theorem C16_offset_lookup_time_on_wire : forall topics time s r s',
  load_partition_offsets topics time s = (r, s') ->
  ext s s' /\ Forall (wr_ok (offset_req_at (client_id (cfg (cl s))) time)) (performed s s') /\ cfg (cl s') = cfg (cl s).
Proof.
  intros topics time s r s' H.
  destruct (good_load_partition_offsets (cfg (cl s)) (env s) Lnone topics time s r s' eq_refl eq_refl H) as (_ & C & _).
  unfold load_partition_offsets in H. bind_inv H m s1 H1 H2.
  - unfold ret in H2. inversion H2; subst. destruct (C16_fetch_offsets_time_on_wire _ _ _ _ _ H1) as [E F].
    split; [exact E|split; [exact F|exact C]].
  - destruct (C16_fetch_offsets_time_on_wire _ _ _ _ _ H1) as [E F]. split; [exact E|split; [exact F|exact C]].
  - destruct (C16_fetch_offsets_time_on_wire _ _ _ _ _ H1) as [E F]. split; [exact E|split; [exact F|exact C]].
Qed.

(* ================================================================================== *)
(* 4. the start offsets                                                               *)
(* ================================================================================== *)

(* tpkey_eqb_eq : tpkey_eqb a b = true <-> a = b  is C07Facts.tpkey_eqb_eq *)

Lemma tk_get_set {V} key key' (v : V) : forall m,
  tk_get key (tk_set key' v m) = if tpkey_eqb key' key then Some v else tk_get key m.
Proof.
  induction m as [|[k0 v0] m IH]; cbn [tk_set tk_get].
  - destruct (tpkey_eqb key' key); reflexivity.
  - destruct (tpkey_eqb k0 key') eqn:E0.
    + apply tpkey_eqb_eq in E0. subst k0. cbn [tk_get]. destruct (tpkey_eqb key' key); reflexivity.
    + cbn [tk_get]. rewrite IH. destruct (tpkey_eqb k0 key) eqn:E1; [|reflexivity].
      destruct (tpkey_eqb key' key) eqn:E2; [|reflexivity].
      apply tpkey_eqb_eq in E1. apply tpkey_eqb_eq in E2. subst. rewrite (proj2 (tpkey_eqb_eq key key) eq_refl) in E0.
      discriminate E0.
Qed.

(* the partitions of one topic: each gets (f p, maxb); everything else stays *)
Lemma fold_tk_set_get (r : Z) (f : Z -> Z) (maxb : Z) key : forall ps acc,
  tk_get key (fold_left (fun acc p => tk_set (r, p) (f p, maxb) acc) ps acc)
  = if (fst key =? r) && existsb (Z.eqb (snd key)) ps then Some (f (snd key), maxb) else tk_get key acc.
Proof.
  induction ps as [|p ps IH]; intros acc; cbn [fold_left existsb].
  - rewrite andb_false_r. reflexivity.
  - rewrite IH, tk_get_set. destruct key as [kr kp]. unfold tpkey_eqb. cbn [fst snd].
    destruct (kr =? r) eqn:Er; cbn [andb]; [|replace (r =? kr) with false by lia; reflexivity].
    destruct (existsb (Z.eqb kp) ps); [rewrite orb_true_r; reflexivity|]. rewrite orb_false_r.
    replace (r =? kr) with true by lia. cbn [andb]. destruct (kp =? p) eqn:Ep.
    + replace (p =? kp) with true by lia. f_equal. f_equal. f_equal. lia.
    + replace (p =? kp) with false by lia. reflexivity.
Qed.

Lemma existsb_eqb_In x l : existsb (Z.eqb x) l = true <-> In x l.
Proof.
  rewrite existsb_exists. split.
  - intros (y & Hy & E). replace x with y by lia. exact Hy.
  - intros H. exists x. split; [exact H|lia].
Qed.

(* the offset the broker answered for partition p of topic t (-1 if it did not mention it) *)
Definition answered (offsets : list (bytes * list (Z * Z))) (t : bytes) (p : Z) : Z := lookup_off offsets t p.

(* (C), soundness: every start offset of the short cut is the broker's answer for that topic and partition,
   with the configured max bytes *)
Theorem C16_fallback_states_sound : forall asg offsets maxb subs acc f,
  fallback_states asg offsets maxb subs acc = Ok f ->
  forall r p v, tk_get (r, p) f = Some v ->
    tk_get (r, p) acc = Some v \/
    exists t ps, In (t, ps) subs /\ topic_ref asg t = Some r /\ In p ps /\ v = (answered offsets t p, maxb).
Proof.
  intros asg offsets maxb. induction subs as [|[t ps] rest IH]; intros acc f H r p v Hg; cbn [fallback_states] in H.
  - inversion H; subst. left. exact Hg.
  - destruct (topic_ref asg t) as [rt|] eqn:Et; [|discriminate H].
    destruct (assoc_bytes t offsets) as [offs|] eqn:Eo; [|discriminate H].
    destruct (IH _ _ H r p v Hg) as [Hacc|(t' & ps' & Hin & Ht' & Hp & Hv)].
    + rewrite fold_tk_set_get in Hacc. cbn [fst snd] in Hacc.
      destruct ((r =? rt) && existsb (Z.eqb p) ps) eqn:Ec; [|left; exact Hacc].
      right. exists t, ps. apply andb_prop in Ec. destruct Ec as [Er Ep].
      split; [left; reflexivity|]. split; [rewrite Et; f_equal; lia|]. split; [apply existsb_eqb_In; exact Ep|].
      inversion Hacc. unfold answered, lookup_off. rewrite Eo. reflexivity.
    + right. exists t', ps'. split; [right; exact Hin|]. split; [exact Ht'|]. split; [exact Hp|exact Hv].
Qed.

(* (C), completeness: every subscribed partition gets that entry (C07Facts.C07_fallback_states says the same
   with the look-up spelled out; repeated here in the vocabulary of `answered` so that sound + complete read
   as one characterisation) *)
Theorem C16_fallback_states_complete : forall asg offsets maxb subs acc f,
  fallback_states asg offsets maxb subs acc = Ok f ->
  forall t ps p r, In (t, ps) subs -> In p ps -> topic_ref asg t = Some r ->
    tk_get (r, p) f = Some (answered offsets t p, maxb).
Proof.
  intros asg offsets maxb.
  (* an entry that already holds the answer keeps it *)
  assert (K : forall subs acc f, fallback_states asg offsets maxb subs acc = Ok f ->
              forall t p r, topic_ref asg t = Some r -> tk_get (r, p) acc = Some (answered offsets t p, maxb) ->
              tk_get (r, p) f = Some (answered offsets t p, maxb)).
  { induction subs as [|[t0 ps0] rest IH]; intros acc f H t p r Ht Hg; cbn [fallback_states] in H.
    - inversion H; subst. exact Hg.
    - destruct (topic_ref asg t0) as [rt|] eqn:Et; [|discriminate H].
      destruct (assoc_bytes t0 offsets) as [offs|] eqn:Eo; [|discriminate H].
      apply (IH _ _ H t p r Ht). rewrite fold_tk_set_get. cbn [fst snd].
      destruct ((r =? rt) && existsb (Z.eqb p) ps0) eqn:Ec; [|exact Hg].
      apply andb_prop in Ec. destruct Ec as [Er _]. assert (r = rt) by lia. subst rt.
      rewrite (topic_ref_inj asg t t0 r Ht Et). unfold answered, lookup_off. rewrite Eo. reflexivity. }
  induction subs as [|[t0 ps0] rest IH]; intros acc f H t ps p r Hin Hp Ht; [destruct Hin|].
  cbn [fallback_states] in H.
  destruct (topic_ref asg t0) as [rt|] eqn:Et; [|discriminate H].
  destruct (assoc_bytes t0 offsets) as [offs|] eqn:Eo; [|discriminate H].
  destruct Hin as [E|Hin].
  - inversion E; subst t0 ps0. rewrite Ht in Et. inversion Et; subst rt.
    apply (K _ _ _ H t p r Ht). rewrite fold_tk_set_get. cbn [fst snd].
    rewrite (proj2 (existsb_eqb_In p ps) Hp). replace (r =? r) with true by lia. cbn [andb].
    unfold answered, lookup_off. rewrite Eo. reflexivity.
  - apply (IH _ _ H t ps p r Hin Hp Ht).
Qed.

(* (D) the general path, per partition.  co = the committed offset loaded for the partition (stored as
   offset - 1), e / l = the earliest / latest offset of the partition *)
Definition usable (co : option (Z * bool)) (e l : Z) : bool :=
  match co with Some (o, _) => (e <=? o + 1) && (o <? l) | None => false end.

Theorem C16_start_offset_spec : forall dbg fb co e l,
  (forall o d, co = Some (o, d) -> i64_min <= o + 1 <= i64_max) ->
  start_offset dbg fb co e l =
  if usable co e l then Ok (match co with Some (o, _) => o + 1 | None => 0 end)
  else match fb with FbLatest => Ok l | FbEarliest => Ok e | FbByTime _ => Err (EKafka KC_Unknown) end.
Proof.
  intros dbg fb co e l Hr. unfold start_offset, usable. destruct co as [[o d]|]; [|reflexivity].
  rewrite (i64_op_in dbg (o + 1) (Hr o d eq_refl)). cbn [bind].
  destruct ((e <=? o + 1) && (o <? l)); reflexivity.
Qed.

Example C16_start_offset_ex :
  start_offset true (FbByTime 1234567) None 3 20 = Err (EKafka KC_Unknown) /\
  start_offset true FbLatest None 3 20 = Ok 20 /\ start_offset true FbEarliest None 3 20 = Ok 3 /\
  start_offset true (FbByTime 1234567) (Some (6, false)) 3 20 = Ok 7 /\
  start_offset true FbEarliest (Some (25, false)) 3 20 = Ok 3.
Proof. vm_compute. repeat split. Qed.

(* ================================================================================== *)
(* 5. offset storage end to end (seed C16-5 is covered by C16_consumer_applied; these  *)
(*    are its consequences for create, stated on the resulting objects)               *)
(* ================================================================================== *)

Theorem C16_consumer_create_storage_in_force : forall src calls s r s' wait,
  consumer_create src calls s = (r, s') ->
  let b := fold_left cbuilder_apply calls (cbuilder_new src) in
  cb_assign b <> [] -> to_millis_i32 (cb_max_wait b) = Ok wait ->
  offset_storage (cfg (cl s')) = cb_storage b /\
  (forall k, r = Ok k -> offset_storage (cfg (k_client k)) = cb_storage b).
Proof.
  intros src calls s r s' wait H b Ha Hw.
  destruct (C16_consumer_create_wire _ _ _ _ _ wait H Ha Hw) as (_ & _ & C & Ck).
  split; [rewrite C; reflexivity|]. intros k Hk. rewrite (Ck k Hk). reflexivity.
Qed.

(* "no storage" is a value of the option: with a group, nothing group-related is sent *)
Theorem C16_unset_storage_refuses_group : forall group asg subs s,
  group <> [] -> offset_storage (cfg (cl s)) < 0 ->
  load_consumed_offsets group asg subs s = (Err EUnsetOffsetStorage, s).
Proof.
  intros group asg subs s Hg Hs. unfold load_consumed_offsets. destruct group as [|g0 gr]; [congruence|].
  unfold fetch_group_offsets. cbv beta iota delta [mbind get_client].
  replace (offset_storage (cfg (cl s)) <? 0) with true by lia. reflexivity.
Qed.

(* ================================================================================== *)
(* 6. non-vacuity: the seeded scenarios in the model                                  *)
(* ================================================================================== *)

Definition sized (b : bytes) : list ev_out := [OData (enc_i32 (ulen b)); OData b].
(* OffsetFetch v1 answer: topic t, partition 0, offset -1 (nothing committed), no error *)
Definition ex_ofetch_none : bytes :=
  enc_i32 1 ++ enc_i32 1 ++ okp (enc_str (tag "t")) ++ enc_i32 1 ++ enc_i32 0 ++ enc_i64 (-1) ++ okp (enc_str []) ++ enc_i16 0.
(* Offset answer: topic t, partition 0, no error, one offset o *)
Definition ex_offs (o : Z) : bytes :=
  enc_i32 2 ++ enc_i32 1 ++ okp (enc_str (tag "t")) ++ enc_i32 1 ++ enc_i32 0 ++ enc_i16 0 ++ enc_i32 1 ++ enc_i64 o.
(* a new group: the coordinator answers "nothing committed", then the broker answers offset 11 *)
Definition ex_new_group : st :=
  st_with (ex_st ex_client) ([OConn true; OWrote 1000] ++ sized ex_ofetch_none ++ [OWrote 1000] ++ sized (ex_offs 11)) [].
Definition ex_by_time : list cbuilder_call :=
  [CWithTopic (tag "t"); CWithGroup (tag "g"); CWithFallback (FbByTime 1234567)].

(* seed C16-6: group g, nothing committed, fallback ByTime(1234567): create succeeds, the configured time is
   what the broker is asked for, and the partition starts at the broker's answer *)
Example C16_fallback_by_time_ex :
  let r := consumer_create (inr ex_client) ex_by_time ex_new_group in
  (exists k, fst r = Ok k /\ k_group k = tag "g" /\ k_consumed k = [] /\ k_fetch k = [((0, 0), (11, 999))]) /\
  script (snd r) = [] /\
  performed ex_new_group (snd r)
  = [EConnect exh;
     EWrite exh (frame (okp (enc_offset_fetch_req 1 (tag "me") (tag "g") OFFSET_FETCH_V1 [(tag "t", [0])])));
     ERead exh 4; ERead exh (ulen ex_ofetch_none);
     EWrite exh (frame (okp (enc_offset_req 2 (tag "me") [(tag "t", [(0, 1234567)])])));
     ERead exh 4; ERead exh (ulen (ex_offs 11))].
Proof. vm_compute. split; [eexists; repeat split|repeat split]. Qed.

(* the hypotheses of C16_consumer_create_nothing_committed on that run *)
Example C16_consumer_create_nothing_committed_ex :
  let b := fold_left cbuilder_apply ex_by_time (cbuilder_new (inr ex_client)) in
  let s0 := st_with_client ex_new_group {| cfg := cfg_set_consumer (cfg ex_client) b 250; cs := cs ex_client; conns := [] |} in
  cb_assign b <> [] /\ to_millis_i32 (cb_max_wait b) = Ok 250 /\ cb_group b = tag "g" /\
  subscriptions_of (cs (cl s0)) (from_map (cb_assign b)) = Ok [(tag "t", [0])] /\
  fst (load_consumed_offsets (cb_group b) (from_map (cb_assign b)) [(tag "t", [0])] s0) = Ok [].
Proof. vm_compute. repeat split. discriminate. Qed.

Example C16_offset_lookup_time_on_wire_ex :
  let s := ex_run ex_client in
  performed s (snd (load_partition_offsets [tag "t"] 1234567 s))
  = [EConnect exh; EWrite exh (frame (okp (enc_offset_req 1 (tag "me") [(tag "t", [(0, 1234567)])]))); ERead exh 4] /\
  offset_req_at (tag "me") 1234567 (okp (enc_offset_req 1 (tag "me") [(tag "t", [(0, 1234567)])])).
Proof.
  split; [vm_compute; reflexivity|]. exists 1, [(tag "t", [(0, 1234567)])]. split; [vm_compute; reflexivity|].
  repeat constructor.
Qed.

Example C16_fallback_states_ex :
  fallback_states [(tag "a", []); (tag "t", [])] [(tag "t", [(0, 11); (1, 12)]); (tag "a", [(0, 5)])] 999
                  [(tag "a", [0]); (tag "t", [1; 0])] []
  = Ok [((0, 0), (5, 999)); ((1, 1), (12, 999)); ((1, 0), (11, 999))] /\
  topic_ref [(tag "a", @nil Z); (tag "t", [])] (tag "t") = Some 1 /\
  answered [(tag "t", [(0, 11); (1, 12)]); (tag "a", [(0, 5)])] (tag "t") 1 = 12.
Proof. vm_compute. repeat split. Qed.

(* seed C16-5: from a client whose storage is Kafka (1), with_offset_storage(None) and a group: create fails
   with UnsetOffsetStorage and nothing is sent; without a group the client ends up without storage *)
Example C16_storage_none_ex :
  let s := ex_run ex_client in
  offset_storage (cfg ex_client) = 1 /\
  cb_storage (fold_left cbuilder_apply [CWithTopic (tag "t"); CWithStorage (-1); CWithGroup (tag "g")] (cbuilder_new (inr ex_client))) = -1 /\
  fst (consumer_create (inr ex_client) [CWithTopic (tag "t"); CWithStorage (-1); CWithGroup (tag "g")] s) = Err EUnsetOffsetStorage /\
  trace (snd (consumer_create (inr ex_client) [CWithTopic (tag "t"); CWithStorage (-1); CWithGroup (tag "g")] s)) = [] /\
  offset_storage (cfg (cl (snd (consumer_create (inr ex_client) [CWithStorage (-1); CWithTopic (tag "t")] s)))) = -1.
Proof. vm_compute. repeat split. Qed.

(* Not done / not proved:
   - the general path as a whole (`range_states`): only its per-partition rule `start_offset` is specified (D);
     a statement "with committed offsets, create performs exactly two look-ups, at -1 and at -2, and every
     partition starts at start_offset of its entries" would be the analogue of sections 1-2 and follows the
     same pattern (range_parts / range_states are folds of tk_set like fallback_states).
   - (B) is stated with the model's encoder (`enc_offset_req corr cid tps` with `times_are time tps`), not as
     a byte grammar; the position of the time field inside the bytes is covered by the request grammar of
     Spec/ReqGrammar.v, not here.
   - that the short cut is taken ONLY when nothing was loaded is not a property (with commits the two paths
     agree for Latest / Earliest whenever no committed offset is usable); nothing is claimed about it. *)

Print Assumptions C16_fallback_nothing_committed.
Print Assumptions C16_consumer_create_nothing_committed.
Print Assumptions C16_consumer_create_fallback_in_force.
Print Assumptions C16_fetch_offsets_time_on_wire.
Print Assumptions C16_offset_lookup_time_on_wire.
Print Assumptions C16_fallback_states_sound.
Print Assumptions C16_fallback_states_complete.
Print Assumptions C16_start_offset_spec.
Print Assumptions C16_consumer_create_storage_in_force.
Print Assumptions C16_unset_storage_refuses_group.
