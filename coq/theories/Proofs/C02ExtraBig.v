(* C02: one non-vacuity example that is expensive to evaluate (about 20 s under vm_compute, far longer in coqchk);
   kept apart so that coqchk on Props/C02 does not have to re-evaluate it. *)
From KV Require Import Base.Prelude Base.Crc32 Base.Snappy Gen.ErrorCodes Gen.Consts
                       Model.Codecs Model.Requests Model.Responses
                       Model.ClientState Model.Net Model.Client
                       Spec.MsgSetSpec Spec.RespGrammar
                       Proofs.BytesFacts Proofs.C10Facts Proofs.C02Lemmas Proofs.C02Facts Proofs.C02Extra.
From KV Require Proofs.SnappyFacts.
From Coq Require Import ZifyBool.

(* one chunk whose COMPRESSED length (40003) is above max_compress_len(32 KiB) = 38261 *)
Example C02_xerial_big_chunk :
  (let x := repeat x41 (Z.to_nat 40000) in
   (Z.of_nat (length (snappy_lit_compress x)) =? 40670)
   && match xerial_read_to_end (xerial_frame [snappy_lit_compress x]) with
      | Ok y => bytes_eqb y x
      | _ => false
      end) = true.
Proof. vm_cast_no_check (eq_refl true). Qed.   (* evaluated once, at Qed: about 20 s *)
