(* C07, additional theorems (mutation adequacy).

   Props/C07.v speaks about start_offset / range_states / fallback_states only, i.e. about the
   decision taken once the three tables (consumed, earliest, latest) are there.  Two of the three
   seeded changes sit in the construction of these tables:
     - seeded/C07-3: load_consumed_offsets (consumed_parts) stops at the first partition with
       nothing committed;
     - seeded/C07-2: KafkaClient::fetch_offsets (merge_topics / res_push) lets the answer of a
       later broker replace what an earlier broker reported for the same topic.
   This file states what these tables hold, for the real functions of the model, over all inputs:
     A. consumed_parts / consumed_topics : the table holds committed - 1 for exactly the partitions
        the OffsetFetch answer reports a commit for, wherever they are listed;
     B. offsets_exchange / fetch_offsets / load_partition_offsets : the earliest / latest / fallback
        table holds, per partition, what the broker leading it reported, for any number of brokers;
     C. load_fetch_states / load_consumed_offsets / consumer_create : which tables are asked for
        (fallback position -> time constant, latest vs. earliest not swapped, group-less -> no
        consumed table) and the composition "committed and in range -> first fetch offset". *)
From KV Require Import Base.Prelude Gen.ErrorCodes Gen.Consts Model.Codecs Model.Requests Model.Responses
                       Model.ClientState Model.Net Model.Client Model.Consumer.
From KV Require Import Proofs.BytesFacts Proofs.C07Facts Proofs.C10Facts.
From Coq Require Import ZifyBool.
Ltac Zify.zify_post_hook ::= Z.div_mod_to_equations.

(* ================================================================================== *)
(* A. the consumed table: consumed_parts / consumed_topics (load_consumed_offsets)    *)
(* ================================================================================== *)

(* i64 subtraction as the model does it: exact inside i64, wrapped outside (release build) *)
Definition norm64 (z : Z) : Z := if (i64_min <=? z) && (z <=? i64_max) then z else wrap_s 64 z.

Lemma i64_op_norm dbg z o : i64_op dbg z = Ok o -> o = norm64 z.
Proof.
  unfold i64_op, norm64. destruct ((i64_min <=? z) && (z <=? i64_max)).
  - intros H. inversion H. reflexivity.
  - destruct dbg; [discriminate|]. intros H. inversion H. reflexivity.
Qed.
Lemma norm64_in z : i64_min <= z <= i64_max -> norm64 z = z.
Proof. intros H. unfold norm64. destruct ((i64_min <=? z) && (z <=? i64_max)) eqn:E; [reflexivity|lia]. Qed.

(* the offset of the LAST entry of the answer for partition p that carries a commit (offset <> -1) *)
Fixpoint last_commit (p : Z) (pos : list (Z * Z)) : option Z :=
  match pos with
  | [] => None
  | (p', off) :: rest =>
      match last_commit p rest with
      | Some c => Some c
      | None => if (p' =? p) && negb (off =? -1) then Some off else None
      end
  end.
(* the same over the topics of the answer *)
Fixpoint last_commit_t (t : bytes) (p : Z) (tpos : list (bytes * list (Z * Z))) : option Z :=
  match tpos with
  | [] => None
  | (t', pos) :: rest =>
      match last_commit_t t p rest with
      | Some c => Some c
      | None => if bytes_eqb t' t then last_commit p pos else None
      end
  end.

Lemma consumed_parts_spec dbg r : forall pos m m',
  consumed_parts dbg r pos m = Ok m' ->
  (forall p, tk_get (r, p) m' = match last_commit p pos with
                                | Some c => Some (norm64 (c - 1), false)
                                | None => tk_get (r, p) m
                                end)
  /\ (forall r' p, r' <> r -> tk_get (r', p) m' = tk_get (r', p) m).
Proof.
  induction pos as [|[p0 off] rest IH]; intros m m' H; cbn [consumed_parts] in H.
  - inversion H; subst. split; reflexivity.
  - destruct (off =? -1) eqn:E.
    + destruct (IH _ _ H) as [IH1 IH2]. split; [|exact IH2].
      intros p. rewrite IH1. cbn [last_commit]. rewrite E. cbn [negb]. rewrite andb_false_r.
      destruct (last_commit p rest); reflexivity.
    + apply bind_ok in H. destruct H as (o & Ho & H). apply i64_op_norm in Ho.
      destruct (IH _ _ H) as [IH1 IH2]. split.
      * intros p. rewrite IH1. cbn [last_commit]. rewrite E. cbn [negb]. rewrite andb_true_r.
        destruct (last_commit p rest); [reflexivity|].
        destruct (p0 =? p) eqn:Ep.
        -- apply Z.eqb_eq in Ep. subst p0. rewrite tk_get_set_same. subst o. reflexivity.
        -- apply tk_get_set_other. intros Hk. inversion Hk. lia.
      * intros r' p Hr. rewrite IH2 by exact Hr. apply tk_get_set_other. intros Hk. inversion Hk. contradiction.
Qed.

Lemma last_commit_all_minus1 p : forall pos,
  forallb (fun '(_, off) => off =? -1) pos = true -> last_commit p pos = None.
Proof.
  induction pos as [|[p0 off] rest IH]; intros H; [reflexivity|].
  cbn [forallb] in H. apply andb_true_iff in H. destruct H as [H1 H2].
  cbn [last_commit]. rewrite (IH H2), H1. cbn [negb]. rewrite andb_false_r. reflexivity.
Qed.

(* THE CONSUMED TABLE, exactly: after load_consumed_offsets' loop over the OffsetFetch answer
   `tpos`, the entry of (t, p) is (c - 1, clean) where c is the last commit the answer reports
   for (t, p) - wherever in the answer it is listed, whatever the other partitions report - and
   the entry is left as it was (absent, for the initial empty table) when the answer reports none. *)
Theorem C07_consumed_topics_spec : forall dbg asg tpos m m',
  consumed_topics dbg asg tpos m = Ok m' ->
  forall t r p, topic_ref asg t = Some r ->
  tk_get (r, p) m' = match last_commit_t t p tpos with
                     | Some c => Some (norm64 (c - 1), false)
                     | None => tk_get (r, p) m
                     end.
Proof.
  intros dbg asg tpos. induction tpos as [|[t0 pos] rest IH]; intros m m' H t r p Hr.
  - cbn [consumed_topics] in H. inversion H. reflexivity.
  - cbn [last_commit_t].
    assert (Hskip : consumed_topics dbg asg rest m = Ok m' -> last_commit p pos = None ->
                    tk_get (r, p) m' =
                    match match last_commit_t t p rest with
                          | Some c => Some c
                          | None => if bytes_eqb t0 t then last_commit p pos else None
                          end with
                    | Some c => Some (norm64 (c - 1), false)
                    | None => tk_get (r, p) m
                    end).
    { intros H0 Hn. rewrite (IH _ _ H0 t r p Hr). rewrite Hn.
      destruct (last_commit_t t p rest); [reflexivity|]. destruct (bytes_eqb t0 t); reflexivity. }
    cbn [consumed_topics] in H. destruct pos as [|x pos'].
    + apply Hskip; [exact H|reflexivity].
    + remember (x :: pos') as pos eqn:Hpos.
      destruct (forallb (fun '(_, off) => off =? -1) pos) eqn:Ef.
      * apply Hskip; [exact H|]. apply last_commit_all_minus1. exact Ef.
      * destruct (topic_ref asg t0) as [r0|] eqn:Hr0; [|discriminate].
        apply bind_ok in H. destruct H as (m1 & Hp & H).
        rewrite (IH _ _ H t r p Hr).
        destruct (last_commit_t t p rest); [reflexivity|].
        destruct (consumed_parts_spec dbg r0 pos m m1 Hp) as [Hp1 Hp2].
        destruct (bytes_eqb_spec t0 t) as [->|Hne].
        -- rewrite Hr in Hr0. inversion Hr0. subst r0. apply Hp1.
        -- apply Hp2. intros ->. apply Hne. eapply topic_ref_inj; eassumption.
Qed.

Lemma last_commit_absent p : forall pos, ~ In p (map fst pos) -> last_commit p pos = None.
Proof.
  induction pos as [|[p0 off] rest IH]; intros H; [reflexivity|].
  cbn [map fst In] in H. cbn [last_commit]. rewrite IH by tauto.
  destruct (p0 =? p) eqn:E; [apply Z.eqb_eq in E; tauto|reflexivity].
Qed.
Lemma last_commit_in p c : forall pos,
  NoDup (map fst pos) -> In (p, c) pos -> c <> -1 -> last_commit p pos = Some c.
Proof.
  induction pos as [|[p0 off] rest IH]; intros Hnd Hin Hc; [destruct Hin|].
  cbn [map fst] in Hnd. inversion Hnd as [|? ? Hnot Hnd']. subst.
  cbn [last_commit]. destruct Hin as [Hh|Ht].
  - inversion Hh. subst p0 off. rewrite last_commit_absent by exact Hnot.
    rewrite Z.eqb_refl. destruct (c =? -1) eqn:E; [lia|reflexivity].
  - rewrite (IH Hnd' Ht Hc). reflexivity.
Qed.
Lemma last_commit_none p : forall pos,
  (forall c, In (p, c) pos -> c = -1) -> last_commit p pos = None.
Proof.
  induction pos as [|[p0 off] rest IH]; intros H; [reflexivity|].
  cbn [last_commit]. rewrite IH by (intros c Hc; apply H; right; exact Hc).
  destruct (p0 =? p) eqn:E; [|reflexivity]. apply Z.eqb_eq in E. subst p0.
  rewrite (H off (or_introl eq_refl)). reflexivity.
Qed.

Lemma last_commit_t_absent t p : forall tpos, ~ In t (map fst tpos) -> last_commit_t t p tpos = None.
Proof.
  induction tpos as [|[t0 pos] rest IH]; intros H; [reflexivity|].
  cbn [map fst In] in H. cbn [last_commit_t]. rewrite IH by tauto.
  destruct (bytes_eqb_spec t0 t) as [->|Hne]; [tauto|reflexivity].
Qed.
Lemma last_commit_t_in t p : forall tpos pos,
  NoDup (map fst tpos) -> In (t, pos) tpos -> last_commit_t t p tpos = last_commit p pos.
Proof.
  induction tpos as [|[t0 pos0] rest IH]; intros pos Hnd Hin; [destruct Hin|].
  cbn [map fst] in Hnd. inversion Hnd as [|? ? Hnot Hnd']. subst.
  cbn [last_commit_t]. destruct Hin as [Hh|Ht].
  - inversion Hh. subst t0 pos0. rewrite last_commit_t_absent by exact Hnot.
    rewrite bytes_eqb_refl. reflexivity.
  - rewrite (IH pos Hnd' Ht).
    destruct (last_commit p pos) eqn:E; [reflexivity|].
    destruct (bytes_eqb_spec t0 t) as [->|Hne]; [|reflexivity].
    exfalso. apply Hnot. apply (in_map fst) in Ht. exact Ht.
Qed.
Lemma last_commit_t_none t p : forall tpos,
  (forall pos c, In (t, pos) tpos -> In (p, c) pos -> c = -1) -> last_commit_t t p tpos = None.
Proof.
  induction tpos as [|[t0 pos0] rest IH]; intros H; [reflexivity|].
  cbn [last_commit_t]. rewrite IH by (intros pos c H1 H2; apply (H pos c); [right; exact H1|exact H2]).
  destruct (bytes_eqb_spec t0 t) as [->|Hne]; [|reflexivity].
  apply last_commit_none. intros c Hc. apply (H pos0 c); [left; reflexivity|exact Hc].
Qed.

(* seeded/C07-3: a partition with a commit is recorded as committed - 1 wherever it is listed:
   partitions of the same topic listed before it that have nothing committed (-1) do not matter.
   (The answer is a HashMap of Vecs: each topic once, each partition once.) *)
Theorem C07_consumed_committed : forall dbg asg tpos consumed t pos p c r,
  consumed_topics dbg asg tpos [] = Ok consumed ->
  NoDup (map fst tpos) -> In (t, pos) tpos -> NoDup (map fst pos) -> In (p, c) pos ->
  c <> -1 -> i64_min < c <= i64_max -> topic_ref asg t = Some r ->
  tk_get (r, p) consumed = Some (c - 1, false).
Proof.
  intros dbg asg tpos consumed t pos p c r H Hnd Hin Hndp Hp Hc Hc64 Hr.
  rewrite (C07_consumed_topics_spec _ _ _ _ _ H t r p Hr).
  rewrite (last_commit_t_in t p tpos pos Hnd Hin), (last_commit_in p c pos Hndp Hp Hc).
  rewrite norm64_in by lia. reflexivity.
Qed.

(* ... and a partition for which the answer reports nothing committed has no entry *)
Theorem C07_consumed_uncommitted : forall dbg asg tpos consumed t p r,
  consumed_topics dbg asg tpos [] = Ok consumed ->
  (forall pos c, In (t, pos) tpos -> In (p, c) pos -> c = -1) -> topic_ref asg t = Some r ->
  tk_get (r, p) consumed = None.
Proof.
  intros dbg asg tpos consumed t p r H Hall Hr.
  rewrite (C07_consumed_topics_spec _ _ _ _ _ H t r p Hr).
  rewrite (last_commit_t_none t p tpos Hall). reflexivity.
Qed.

(* the demonstration of seeded/C07-3: p0 has nothing committed and is listed first *)
Example C07_consumed_committed_ex :
  let asg := [(tag "t", [0; 1; 2; 3]); (tag "u", [0; 1])] in
  consumed_topics true asg [(tag "t", [(0, -1); (1, 12); (2, 9); (3, 10)]); (tag "u", [(0, 150); (1, -1)])] []
  = Ok [((0, 1), (11, false)); ((0, 2), (8, false)); ((0, 3), (9, false)); ((1, 0), (149, false))]
  /\ topic_ref asg (tag "t") = Some 0
  /\ NoDup (map fst [(0, -1); (1, 12); (2, 9); (3, 10)]).
Proof.
  split; [vm_compute; reflexivity|]. split; [vm_compute; reflexivity|].
  cbn [map fst]. repeat (constructor; [cbn [In]; lia|]). constructor.
Qed.

(* ================================================================================== *)
(* B. the earliest / latest / fallback tables: fetch_offsets over several brokers     *)
(* ================================================================================== *)

Lemma mbind_ok {A B} (m : M A) (f : A -> M B) s b s' :
  mbind m f s = (Ok b, s') -> exists a s1, m s = (Ok a, s1) /\ f a s1 = (Ok b, s').
Proof.
  unfold mbind. destruct (m s) as [[a|e|w] s1]; intros H; [eauto|discriminate|discriminate].
Qed.

(* the offset of the LAST entry for partition p *)
Fixpoint last_off (p : Z) (vs : list (Z * Z)) : option Z :=
  match vs with
  | [] => None
  | (p', o) :: rest => match last_off p rest with
                       | Some x => Some x
                       | None => if p' =? p then Some o else None
                       end
  end.

Lemma assoc_z_idx_insert p : forall m k v,
  assoc_z p (idx_insert m k v) = if k =? p then Some v else assoc_z p m.
Proof.
  induction m as [|[k' v'] m IH]; intros k v; cbn [idx_insert assoc_z].
  - reflexivity.
  - destruct (k' =? k) eqn:E; cbn [assoc_z].
    + apply Z.eqb_eq in E. subst k'. destruct (k =? p); reflexivity.
    + rewrite IH. destruct (k' =? p) eqn:E2; [|reflexivity].
      destruct (k =? p) eqn:E3; [lia|reflexivity].
Qed.

Lemma assoc_z_pidx_gen p : forall vs m,
  assoc_z p (fold_left (fun m '(p, o) => idx_insert m p o) vs m)
  = match last_off p vs with Some o => Some o | None => assoc_z p m end.
Proof.
  induction vs as [|[p0 o0] rest IH]; intros m; cbn [fold_left last_off]; [reflexivity|].
  rewrite IH. destruct (last_off p rest); [reflexivity|]. rewrite assoc_z_idx_insert.
  destruct (p0 =? p); reflexivity.
Qed.
Lemma assoc_z_pidx p vs : assoc_z p (pidx vs) = last_off p vs.
Proof. unfold pidx. rewrite assoc_z_pidx_gen. destruct (last_off p vs); reflexivity. Qed.

Definition indexed (m : list (bytes * list (Z * Z))) : list (bytes * list (Z * Z)) :=
  map (fun '(t, ps) => (t, pidx ps)) m.

Lemma lookup_off_indexed m t p :
  lookup_off (indexed m) t p = match last_off p (lookup t m) with Some o => o | None => -1 end.
Proof.
  unfold lookup_off, indexed, lookup.
  assert (Ha : assoc_bytes t (map (fun '(t, ps) => (t, pidx ps)) m) = option_map pidx (assoc_bytes t m)).
  { induction m as [|[t0 ps0] m IH]; [reflexivity|]. cbn [map assoc_bytes].
    destruct (bytes_eqb t0 t); [reflexivity|exact IH]. }
  rewrite Ha. destruct (assoc_bytes t m) as [ps|]; cbn [option_map]; [|reflexivity].
  rewrite assoc_z_pidx. reflexivity.
Qed.

Lemma collect_inl_all {P V} (conv : P -> V + Z) pid : forall ps acc vs,
  collect conv pid ps acc = inl vs -> forall p, In p ps -> exists v, conv p = inl v.
Proof.
  induction ps as [|q ps IH]; intros acc vs H p Hin; [destruct Hin|].
  cbn [collect] in H. destruct (conv q) as [v|c] eqn:E; [|discriminate].
  destruct Hin as [->|Hin]; [eauto|]. eapply IH; eassumption.
Qed.
Lemma merge_topics_ok_all_conv {P V} (conv : P -> V + Z) pid : forall tps m m',
  merge_topics conv pid tps m = Ok m' -> all_conv conv tps.
Proof.
  induction tps as [|[t ps] tps IH]; intros m m' H t0 ps0 p Hin Hp; [destruct Hin|].
  cbn [merge_topics] in H. destruct (collect conv pid ps []) as [vs|[q c]] eqn:E; [|discriminate].
  destruct Hin as [Hh|Ht].
  - inversion Hh. subst t0 ps0. eapply collect_inl_all; eassumption.
  - eapply (IH _ _ H); eassumption.
Qed.

(* whenever the exchange with the brokers succeeds, the result map holds for every topic ALL the
   partition offsets of ALL the answers, in the order they came in: nothing an earlier broker
   reported is replaced or dropped by the answer of a later one *)
Theorem C07_offsets_exchange_inv : forall {P V} enc (d : dec (Z * list (bytes * list P)))
    (conv : P -> V + Z) (pid : P -> Z) reqs m s m' s',
  offsets_exchange enc d conv pid reqs m s = (Ok m', s') ->
  exists resps, exchanges enc d reqs s resps s' /\ all_conv conv (concat resps)
                /\ forall t, lookup t m' = lookup t m ++ flat_map (occ conv t) resps.
Proof.
  intros P V enc d conv pid reqs. induction reqs as [|[h tps] reqs IH]; intros m s m' s' H.
  - cbn [offsets_exchange] in H. inversion H. subst. exists []. split; [constructor|]. split.
    + intros t ps p [].
    + intros t. cbn [flat_map]. rewrite app_nil_r. reflexivity.
  - cbn [offsets_exchange] in H. apply mbind_ok in H. destruct H as ([c rtps] & s1 & Hsr & H).
    apply mbind_ok in H. destruct H as (m1 & s1' & Hm & H).
    unfold lift in Hm. inversion Hm. subst s1'. clear Hm. rename H1 into Hm.
    destruct (IH _ _ _ _ H) as (resps & Hex & Hall & Hl).
    pose proof (merge_topics_ok_all_conv conv pid rtps m m1 Hm) as Hr.
    exists (rtps :: resps). split; [econstructor; eassumption|]. split.
    + cbn [concat]. intros t ps p Hin Hp. apply in_app_or in Hin. destruct Hin as [Hin|Hin].
      * eapply Hr; eassumption.
      * eapply Hall; eassumption.
    + intros t. destruct (C10_merge_all conv pid rtps m Hr) as (m1' & Hm1' & Hl1).
      rewrite Hm in Hm1'. inversion Hm1'. subst m1'.
      rewrite Hl, Hl1. cbn [flat_map]. rewrite <- app_assoc. reflexivity.
Qed.

Lemma ordered_spec {V} (l l' : list (bytes * V)) s s' :
  ordered l s = (Ok l', s') -> exists o, l' = reorder o l.
Proof.
  unfold ordered. destruct l as [|x l0].
  - intros H. inversion H. exists []. reflexivity.
  - intros H. apply mbind_ok in H. destruct H as (o & s1 & _ & H). inversion H. exists o. reflexivity.
Qed.

(* KafkaClient::fetch_offsets + load_partition_offsets, for any number of brokers and any script:
   when it succeeds, the requests went to the hosts leading the partitions (in some order) with the
   time that was asked for, and the table it returns answers, for EVERY topic and partition, with the
   last offset any of the brokers reported for it (-1 only if none did) *)
Theorem C07_load_partition_offsets_spec : forall topics time s offs s',
  load_partition_offsets topics time s = (Ok offs, s') ->
  exists corr c order s0 resps,
    exchanges (enc_offset_req corr (client_id (cfg c))) dec_offset_resp
              (reorder order (offset_reqs (cs c) topics time)) s0 resps s'
    /\ all_conv to_offset (concat resps)
    /\ forall t p, lookup_off offs t p =
                   match last_off p (flat_map (occ to_offset t) resps) with Some o => o | None => -1 end.
Proof.
  intros topics time s offs s' H. unfold load_partition_offsets in H.
  apply mbind_ok in H. destruct H as (m & s1 & Hf & H). inversion H. subst offs s1. clear H.
  unfold fetch_offsets in Hf.
  apply mbind_ok in Hf. destruct Hf as (corr & s2 & _ & Hf).
  apply mbind_ok in Hf. destruct Hf as (c & s3 & Hc & Hf).
  apply mbind_ok in Hf. destruct Hf as (reqs & s4 & Ho & Hf).
  apply ordered_spec in Ho. destruct Ho as [order ->].
  apply C07_offsets_exchange_inv in Hf. destruct Hf as (resps & Hex & Hall & Hl).
  exists corr, c, order, s4, resps. split; [exact Hex|]. split; [exact Hall|].
  intros t p. change (map (fun '(t0, ps) => (t0, pidx ps)) m) with (indexed m).
  rewrite lookup_off_indexed, Hl. reflexivity.
Qed.

Lemma last_off_absent p : forall vs, ~ In p (map fst vs) -> last_off p vs = None.
Proof.
  induction vs as [|[p0 o] rest IH]; intros H; [reflexivity|].
  cbn [map fst In] in H. cbn [last_off]. rewrite IH by tauto.
  destruct (p0 =? p) eqn:E; [apply Z.eqb_eq in E; tauto|reflexivity].
Qed.
Lemma last_off_in p o : forall vs, NoDup (map fst vs) -> In (p, o) vs -> last_off p vs = Some o.
Proof.
  induction vs as [|[p0 o0] rest IH]; intros Hnd Hin; [destruct Hin|].
  cbn [map fst] in Hnd. inversion Hnd as [|? ? Hnot Hnd']. subst.
  cbn [last_off]. destruct Hin as [Hh|Ht].
  - inversion Hh. subst p0 o0. rewrite last_off_absent by exact Hnot. rewrite Z.eqb_refl. reflexivity.
  - rewrite (IH Hnd' Ht). reflexivity.
Qed.

Lemma in_occ {P V} (conv : P -> V + Z) t : forall (resps : list (list (bytes * list P))) rtps ps q v,
  In rtps resps -> In (t, ps) rtps -> In q ps -> conv q = inl v ->
  In v (flat_map (occ conv t) resps).
Proof.
  intros resps rtps ps q v Hr Ht Hq Hv. apply in_flat_map. exists rtps. split; [exact Hr|].
  unfold occ. apply in_flat_map. exists (t, ps). split; [exact Ht|].
  cbn [fst snd]. rewrite bytes_eqb_refl. unfold conv_vals. apply in_flat_map.
  exists q. split; [exact Hq|]. rewrite Hv. left. reflexivity.
Qed.

(* seeded/C07-2: with the partitions of a topic spread over several brokers (each partition is
   answered by its one leader), the table holds for each of them what ITS broker answered,
   whichever broker that is and in whichever order the brokers were asked *)
Theorem C07_offset_of_every_broker_survives : forall topics time s offs s',
  load_partition_offsets topics time s = (Ok offs, s') ->
  exists corr c order s0 resps,
    exchanges (enc_offset_req corr (client_id (cfg c))) dec_offset_resp
              (reorder order (offset_reqs (cs c) topics time)) s0 resps s'
    /\ forall t rtps ps q,
         NoDup (map fst (flat_map (occ to_offset t) resps)) ->
         In rtps resps -> In (t, ps) rtps -> In q ps ->
         lookup_off offs t (por_partition q) = match por_offsets q with o :: _ => o | [] => -1 end.
Proof.
  intros topics time s offs s' H.
  destruct (C07_load_partition_offsets_spec _ _ _ _ _ H) as (corr & c & order & s0 & resps & Hex & Hall & Hl).
  exists corr, c, order, s0, resps. split; [exact Hex|].
  intros t rtps ps q Hnd Hr Ht Hq. rewrite Hl.
  assert (Hc : exists v, to_offset q = inl v).
  { apply (Hall t ps q); [|exact Hq]. apply in_concat. exists rtps. split; assumption. }
  destruct Hc as [v Hv]. pose proof Hv as Hv'. unfold to_offset in Hv'.
  destruct (from_protocol (por_error q)); [discriminate|]. inversion Hv'. clear Hv'.
  rewrite (last_off_in (por_partition q) (match por_offsets q with o :: _ => o | [] => -1 end) _ Hnd).
  - reflexivity.
  - rewrite H1. eapply in_occ; eassumption.
Qed.

(* the pure core on the layout of the demonstration of seeded/C07-2: t:0, t:1 on broker 1, t:2 on broker 2 *)
Definition ex_por (p o : Z) : part_offset_resp := {| por_partition := p; por_error := 0; por_offsets := [o] |}.
Example C07_two_brokers_ex :
  let resps := [ [ (tag "t", [ex_por 0 5; ex_por 1 3]) ]; [ (tag "t", [ex_por 2 7]) ] ] in
  exists m, merge_responses to_offset por_partition resps [] = Ok m
  /\ lookup_off (indexed m) (tag "t") 0 = 5 /\ lookup_off (indexed m) (tag "t") 1 = 3
  /\ lookup_off (indexed m) (tag "t") 2 = 7 /\ lookup_off (indexed m) (tag "t") 3 = -1
  /\ NoDup (map fst (flat_map (occ to_offset (tag "t")) resps)).
Proof.
  eexists. split; [vm_compute; reflexivity|]. repeat (split; [vm_compute; reflexivity|]).
  vm_compute. repeat (constructor; [cbn [In]; lia|]). constructor.
Qed.

(* ================================================================================== *)
(* C. which tables are loaded, and the composition                                    *)
(* ================================================================================== *)

Definition sub_pairs (subs : list (bytes * list Z)) : list (bytes * Z) :=
  flat_map (fun '(t, ps) => map (fun p => (t, p)) ps) subs.

(* load_consumed_offsets: no group -> nothing is asked and the table is empty; a group -> the
   table is computed (consumed_topics) from the answer to ONE OffsetFetch for all subscribed partitions *)
Theorem C07_load_consumed_offsets_spec : forall group asg subs s consumed s',
  load_consumed_offsets group asg subs s = (Ok consumed, s') ->
  (group = [] /\ consumed = [] /\ s' = s)
  \/ (group <> [] /\ exists tpos,
        fetch_group_offsets group (sub_pairs subs) s = (Ok tpos, s')
        /\ consumed_topics (debug_build (env s')) asg tpos [] = Ok consumed).
Proof.
  intros group asg subs s consumed s' H. unfold load_consumed_offsets in H.
  destruct group as [|g0 g].
  - left. inversion H. auto.
  - right. split; [discriminate|].
    apply mbind_ok in H. destruct H as (tpos & s1 & Hf & H).
    apply mbind_ok in H. destruct H as (e & s2 & He & H).
    unfold get_env in He. inversion He. subst e s2. unfold lift in H. inversion H. subst s1.
    exists tpos. split; [exact Hf|reflexivity].
Qed.

(* load_fetch_states: with an empty consumed table ONE offset table is loaded, for the time of the
   configured fallback position; otherwise the LATEST and then the EARLIEST table are loaded and
   handed to range_states in that role (latest = upper bound, earliest = lower bound) *)
Theorem C07_load_fetch_states_spec : forall fb asg subs consumed s fetch s',
  load_fetch_states fb asg subs consumed s = (Ok fetch, s') ->
  (consumed = [] /\ exists offsets,
      load_partition_offsets (map fst subs) (fallback_time fb) s = (Ok offsets, s')
      /\ fallback_states asg offsets (fetch_max_bytes_per_partition (cfg (cl s))) subs [] = Ok fetch)
  \/ (consumed <> [] /\ exists latest s1 earliest,
      load_partition_offsets (map fst subs) FETCH_OFFSET_LATEST s = (Ok latest, s1)
      /\ load_partition_offsets (map fst subs) FETCH_OFFSET_EARLIEST s1 = (Ok earliest, s')
      /\ range_states (debug_build (env s)) fb asg consumed latest earliest
                      (fetch_max_bytes_per_partition (cfg (cl s))) subs [] = Ok fetch).
Proof.
  intros fb asg subs consumed s fetch s' H. unfold load_fetch_states in H.
  apply mbind_ok in H. destruct H as (c & s1 & Hc & H). unfold get_client in Hc. inversion Hc. subst c s1.
  apply mbind_ok in H. destruct H as (e & s1 & He & H). unfold get_env in He. inversion He. subst e s1.
  destruct consumed as [|x consumed'].
  - left. split; [reflexivity|].
    apply mbind_ok in H. destruct H as (offsets & s1 & Ho & H). unfold lift in H. inversion H. subst s1.
    exists offsets. split; [exact Ho|reflexivity].
  - right. split; [discriminate|].
    apply mbind_ok in H. destruct H as (latest & s1 & Hl & H).
    apply mbind_ok in H. destruct H as (earliest & s2 & Hea & H). unfold lift in H. inversion H. subst s2.
    exists latest, s1, earliest. split; [exact Hl|]. split; [exact Hea|reflexivity].
Qed.

Definition fallback_is (fb : fallback) (e l off : Z) : Prop :=
  match fb with FbEarliest => off = e | FbLatest => off = l | FbByTime _ => False end.

Lemma fallback_is_of fb e l off :
  match fb with FbLatest => Ok l | FbEarliest => Ok e | FbByTime _ => Err (EKafka KC_Unknown) end = Ok off ->
  fallback_is fb e l off.
Proof. destruct fb; intros H; inversion H; reflexivity. Qed.

(* A GROUP WITH COMMITS, end to end over the three broker conversations of creation (OffsetFetch,
   Offset/latest, Offset/earliest), for every subscribed partition (t, p) - multi-topic,
   multi-partition, whatever the other partitions report:
     - the answer's commit c for (t, p) within [earliest, latest]  -> first fetch offset c;
     - c outside [earliest, latest]                                 -> the fallback position's offset;
     - no commit for (t, p) in the answer (mixed group state)       -> the fallback position's offset;
   and in the two fallback cases the fallback is Earliest or Latest (with ByTime creation fails). *)
Theorem C07_group_start_offsets : forall group asg subs fb s consumed s1 fetch s2,
  load_consumed_offsets group asg subs s = (Ok consumed, s1) ->
  load_fetch_states fb asg subs consumed s1 = (Ok fetch, s2) ->
  consumed <> [] ->
  exists tpos latest s' earliest,
    fetch_group_offsets group (sub_pairs subs) s = (Ok tpos, s1)
    /\ load_partition_offsets (map fst subs) FETCH_OFFSET_LATEST s1 = (Ok latest, s')
    /\ load_partition_offsets (map fst subs) FETCH_OFFSET_EARLIEST s' = (Ok earliest, s2)
    /\ forall t ps p, In (t, ps) subs -> In p ps ->
       exists r off, topic_ref asg t = Some r
         /\ tk_get (r, p) fetch = Some (off, fetch_max_bytes_per_partition (cfg (cl s1)))
         /\ (forall c, last_commit_t t p tpos = Some c -> i64_min < c <= i64_max ->
               (lookup_off earliest t p <= c <= lookup_off latest t p -> off = c)
               /\ (c < lookup_off earliest t p \/ lookup_off latest t p < c ->
                   fallback_is fb (lookup_off earliest t p) (lookup_off latest t p) off))
         /\ (last_commit_t t p tpos = None ->
               fallback_is fb (lookup_off earliest t p) (lookup_off latest t p) off).
Proof.
  intros group asg subs fb s consumed s1 fetch s2 Hc Hf Hne.
  apply C07_load_consumed_offsets_spec in Hc.
  destruct Hc as [(_ & Hc & _)|(Hg & tpos & Hgo & Hct)]; [contradiction|].
  apply C07_load_fetch_states_spec in Hf.
  destruct Hf as [(Hc & _)|(_ & latest & s' & earliest & Hl & He & Hr)]; [contradiction|].
  exists tpos, latest, s', earliest. repeat (split; [assumption|]).
  intros t ps p Hin Hp.
  destruct (C07_range_states _ _ _ _ _ _ _ _ _ _ Hr t ps p Hin Hp) as (r & off & Htr & Hso & Hg').
  exists r, off. split; [exact Htr|]. split; [exact Hg'|].
  rewrite (C07_consumed_topics_spec _ _ _ _ _ Hct t r p Htr) in Hso. cbn [tk_get] in Hso.
  split.
  - intros c Hlc Hc64. rewrite Hlc in Hso. rewrite norm64_in in Hso by lia. split.
    + intros Hrange. rewrite C07_start_valid in Hso by assumption. inversion Hso. reflexivity.
    + intros Hout. rewrite C07_start_invalid in Hso by assumption. apply fallback_is_of. exact Hso.
  - intros Hlc. rewrite Hlc in Hso. rewrite C07_start_none in Hso. apply fallback_is_of. exact Hso.
Qed.

(* NOTHING COMMITTED AT ALL (group-less consumer, or a group whose answer holds no commit): one
   Offset conversation for the time of the fallback position - Earliest, Latest or the ByTime
   value - and every subscribed partition starts at what that table holds for it *)
Theorem C07_nothing_committed_start_offsets : forall fb asg subs s fetch s',
  load_fetch_states fb asg subs [] s = (Ok fetch, s') ->
  exists offsets,
    load_partition_offsets (map fst subs) (fallback_time fb) s = (Ok offsets, s')
    /\ forall t ps p, In (t, ps) subs -> In p ps ->
       exists r, topic_ref asg t = Some r
         /\ tk_get (r, p) fetch = Some (lookup_off offsets t p, fetch_max_bytes_per_partition (cfg (cl s))).
Proof.
  intros fb asg subs s fetch s' H. apply C07_load_fetch_states_spec in H.
  destruct H as [(_ & offsets & Ho & Hfs)|(Hne & _)]; [|contradiction].
  exists offsets. split; [exact Ho|]. intros t ps p Hin Hp.
  destruct (C07_fallback_states _ _ _ _ _ _ Hfs t ps p Hin Hp) as (r & offs & Hr & Ha & Hg).
  exists r. split; [exact Hr|]. rewrite Hg. unfold lookup_off. rewrite Ha. reflexivity.
Qed.

Theorem C07_groupless_loads_nothing : forall asg subs s, load_consumed_offsets [] asg subs s = (Ok [], s).
Proof. reflexivity. Qed.

(* a group whose answer holds no commit for any partition gives the empty table, hence the case above *)
Theorem C07_no_commit_empty_table : forall dbg asg tpos consumed,
  consumed_topics dbg asg tpos [] = Ok consumed ->
  (forall t pos p c, In (t, pos) tpos -> In (p, c) pos -> c = -1) -> consumed = [].
Proof.
  intros dbg asg tpos. induction tpos as [|[t0 pos] rest IH]; intros consumed H Hall.
  - inversion H. reflexivity.
  - cbn [consumed_topics] in H.
    assert (Hrest : forall t pos p c, In (t, pos) rest -> In (p, c) pos -> c = -1).
    { intros t pos0 p c H1 H2. apply (Hall t pos0 p c); [right; exact H1|exact H2]. }
    destruct pos as [|x pos']; [apply IH; assumption|].
    assert (Hf : forallb (fun '(_, off) => off =? -1) (x :: pos') = true).
    { apply forallb_forall. intros [p c] Hin. rewrite (Hall t0 (x :: pos') p c (or_introl eq_refl) Hin). reflexivity. }
    rewrite Hf in H. apply IH; assumption.
Qed.

Example C07_no_commit_empty_table_ex :
  consumed_topics true [(tag "t", [0; 1])] [(tag "t", [(0, -1); (1, -1)]); (tag "zz", [(0, -1)])] [] = Ok [].
Proof. vm_compute. reflexivity. Qed.

(* Builder::create: the tables are loaded for the builder's group, fallback position and assignment,
   in this order, and they are what the new consumer holds; nothing is queued for retry, so the first
   poll fetches every assigned partition at its k_fetch offset *)
Theorem C07_create_spec : forall src calls s k s',
  consumer_create src calls s = (Ok k, s') ->
  let b := fold_left cbuilder_apply calls (cbuilder_new src) in
  let asg := from_map (cb_assign b) in
  exists s1 s2 subs,
    subscriptions_of (cs (cl s1)) asg = Ok subs
    /\ load_consumed_offsets (cb_group b) asg subs s1 = (Ok (k_consumed k), s2)
    /\ load_fetch_states (cb_fallback b) asg subs (k_consumed k) s2 = (Ok (k_fetch k), s')
    /\ k_assign k = asg /\ k_group k = cb_group b /\ k_fallback k = cb_fallback b /\ k_retry k = [].
Proof.
  intros src calls s k s' H b asg. subst asg. unfold consumer_create in H. fold b in H.
  destruct (cb_assign b) as [|a0 al] eqn:Ea; [discriminate|]. rewrite <- Ea in H |- *.
  apply mbind_ok in H. destruct H as (c & sa & _ & H).
  apply mbind_ok in H. destruct H as (wait & sb & _ & H).
  apply mbind_ok in H. destruct H as (u1 & sc & _ & H).
  apply mbind_ok in H. destruct H as (u2 & sd & _ & H).
  apply mbind_ok in H. destruct H as (c1 & s1 & Hc1 & H). unfold get_client in Hc1. inversion Hc1. subst c1 sd.
  apply mbind_ok in H. destruct H as (subs & s1' & Hs & H). unfold lift in Hs. inversion Hs. subst s1'.
  apply mbind_ok in H. destruct H as (consumed & s2 & Hco & H).
  apply mbind_ok in H. destruct H as (fetch & s3 & Hfe & H).
  apply mbind_ok in H. destruct H as (c2 & s3' & Hc2 & H). unfold get_client in Hc2. inversion Hc2. subst c2 s3'.
  unfold ret in H. inversion H. subst s3. cbn [k_consumed k_fetch k_assign k_group k_fallback k_retry].
  exists s1, s2, subs. repeat (split; [first [assumption|reflexivity]|]). reflexivity.
Qed.

(* the first poll of a consumer with nothing queued for retry asks for every k_fetch entry at its offset *)
Theorem C07_first_fetch_uses_fetch_states : forall k, k_retry k = [] ->
  consumer_fetch k =
  (let+ r := mtry (fetch_messages
                     (map (fun '((tr, p), (off, maxb)) =>
                             {| fq_topic := topic_name k tr; fq_partition := p; fq_offset := off;
                                fq_max_bytes := maxb |}) (k_fetch k))) in
   ret (ulen (k_fetch k), r, k)).
Proof. intros k H. unfold consumer_fetch. rewrite H. reflexivity. Qed.

(* ================================================================================== *)
(* D. non-vacuity over a scripted two-broker cluster                                   *)
(* ================================================================================== *)
(* topic "t": partitions 0, 1 led by broker "a", partition 2 led by broker "b"; group "g" with
   coordinator "a".  (earliest, latest, committed):
     t:0 = (0, 9, none)   - nothing committed and listed FIRST in the OffsetFetch answer (seeded/C07-3)
     t:1 = (12, 20, 12)   - committed = earliest                                         (seeded/C07)
     t:2 = (7, 31, 8)     - led by the second broker                                     (seeded/C07-2) *)
From KV Require Import Spec.RespGrammar.

Definition xt : bytes := [x74].
Definition xg : bytes := [x67].
Definition xa : bytes := [x61].
Definition xb : bytes := [x62].

Definition ex_fetch_part (p c : Z) : w_offset_fetch_part :=
  {| wof_partition := p; wof_offset := c; wof_metadata := None; wof_error := 0 |}.
Definition ex_group_answer : bytes :=
  print_offset_fetch {| wr_corr := 1; wr_topics := Some [ {| wt_name := Some xt;
      wt_partitions := Some [ex_fetch_part 0 (-1); ex_fetch_part 1 12; ex_fetch_part 2 8] |} ] |}.
Definition ex_off_part (p o : Z) : w_offsets_part := {| wo_partition := p; wo_error := 0; wo_offsets := Some [o] |}.
Definition ex_off_answer (ps : list w_offsets_part) : bytes :=
  print_offsets {| wr_corr := 2; wr_topics := Some [ {| wt_name := Some xt; wt_partitions := Some ps |} ] |}.

Definition ex_talk (payload : bytes) : list ev_out :=
  [OWrote 1000; OData (p_i32 (Z.of_nat (length payload))); OData payload].

Definition ex_cfg : config :=
  {| client_id := []; hosts := [xa; xb]; compression := DEFAULT_COMPRESSION;
     fetch_max_wait_time := 100; fetch_min_bytes := 1; fetch_max_bytes_per_partition := 4096;
     fetch_crc_validation := true; offset_storage := 1; retry_backoff_time := (0, 100000000);
     retry_max_attempts := 3; idle_timeout := (600, 0) |}.
Definition ex_client : client :=
  {| cfg := ex_cfg;
     cs := {| correlation := 0; brokers := [ {| b_node := 1; b_host := xa |}; {| b_node := 2; b_host := xb |} ];
              topic_partitions := [ (xt, [0; 0; 1]) ]; group_coordinators := [ (xg, 0) ] |};
     conns := [] |}.
Definition ex_script2 : list ev_out :=
  (* OffsetFetch to the coordinator "a" *)
  OConn true :: ex_talk ex_group_answer
  (* Offset/latest: "a" (pooled), then "b" *)
  ++ ex_talk (ex_off_answer [ex_off_part 0 9; ex_off_part 1 20])
  ++ OConn true :: ex_talk (ex_off_answer [ex_off_part 2 31])
  (* Offset/earliest: "a", then "b" *)
  ++ ex_talk (ex_off_answer [ex_off_part 0 0; ex_off_part 1 12])
  ++ ex_talk (ex_off_answer [ex_off_part 2 7]).
Definition ex_st2 : st :=
  {| script := ex_script2; trace := []; anyq := []; hostq := []; fetchq := []; entryq := [];
     cl := ex_client; env := ex_codecs |}.
Definition ex_calls : list cbuilder_call := [CWithGroup xg; CWithTopic xt; CWithFallback FbLatest].

(* creation succeeds on this script (hypothesis of C07_create_spec), the consumed table is not empty
   (hypothesis of C07_group_start_offsets) and the three partitions start at 9 (fallback Latest),
   12 (= committed = earliest) and 8 (committed, second broker) *)
Example C07_create_ex : exists k s',
  consumer_create (inr ex_client) ex_calls ex_st2 = (Ok k, s')
  /\ k_consumed k = [((0, 1), (11, false)); ((0, 2), (7, false))]
  /\ k_fetch k = [((0, 0), (9, 4096)); ((0, 1), (12, 4096)); ((0, 2), (8, 4096))]
  /\ script s' = [].
Proof. eexists. eexists. split; [vm_compute; reflexivity|]. vm_compute. repeat split. Qed.

(* hypotheses of C07_load_partition_offsets_spec / C07_offset_of_every_broker_survives and of
   C07_nothing_committed_start_offsets: a group-less consumer with fallback Earliest on the same cluster *)
Definition ex_st3 : st :=
  {| script := OConn true :: ex_talk (ex_off_answer [ex_off_part 0 0; ex_off_part 1 12])
               ++ OConn true :: ex_talk (ex_off_answer [ex_off_part 2 7]);
     trace := []; anyq := []; hostq := []; fetchq := []; entryq := [];
     cl := ex_client; env := ex_codecs |}.
Example C07_load_partition_offsets_ex : exists offs s',
  load_partition_offsets [xt] FETCH_OFFSET_EARLIEST ex_st3 = (Ok offs, s')
  /\ lookup_off offs xt 0 = 0 /\ lookup_off offs xt 1 = 12 /\ lookup_off offs xt 2 = 7.
Proof. eexists. eexists. split; [vm_compute; reflexivity|]. vm_compute. repeat split. Qed.
Example C07_nothing_committed_ex : exists fetch s',
  load_fetch_states FbEarliest [(xt, [])] [(xt, [0; 1; 2])] [] ex_st3 = (Ok fetch, s')
  /\ fetch = [((0, 0), (0, 4096)); ((0, 1), (12, 4096)); ((0, 2), (7, 4096))].
Proof. eexists. eexists. split; [vm_compute; reflexivity|]. reflexivity. Qed.

(* ================================================================================== *)
(* E. where the OffsetFetch answer comes from (offset storage Zookeeper / Kafka)       *)
(* ================================================================================== *)

(* "nothing committed" on the wire: offset -1 without error (Kafka storage, v1) or the error
   UnknownTopicOrPartition (Zookeeper storage, v0); both arrive as offset -1, any other error
   fails the call, a reported offset is handed on unchanged *)
Theorem C07_get_offsets_cases : forall p,
  (ofp_error p = 0 -> get_offsets p = inl (ofp_partition p, ofp_offset p))
  /\ (ofp_error p = 3 -> get_offsets p = inl (ofp_partition p, -1))
  /\ (forall v, get_offsets p = inl v -> ofp_error p = 0 \/ from_protocol (ofp_error p) = Some KC_UnknownTopicOrPartition).
Proof.
  intros p. unfold get_offsets. split; [|split].
  - intros ->. reflexivity.
  - intros ->. vm_compute. reflexivity.
  - intros v H. destruct (from_protocol (ofp_error p)) as [c|] eqn:E.
    + destruct (c =? KC_UnknownTopicOrPartition) eqn:Ec; [|discriminate].
      right. apply Z.eqb_eq in Ec. subst c. reflexivity.
    + left. unfold from_protocol in E. destruct (ofp_error p =? 0) eqn:E0; [lia|].
      destruct ((from_protocol_lo <=? ofp_error p) && (ofp_error p <=? from_protocol_hi)); discriminate.
Qed.

(* the table of committed offsets is the scan of the LAST answer the coordinator gave (earlier
   answers only caused retries) *)
Lemma group_fetch_loop_inv : forall fuel group req attempt s tpos s',
  group_fetch_loop fuel group req attempt s = (Ok tpos, s') ->
  exists h s0 c tps, send_receive dec_offset_fetch_resp h req s0 = (Ok (c, tps), s')
                     /\ group_scan tps [] = inl (inl tpos).
Proof.
  induction fuel as [|f IH]; intros group req attempt s tpos s' H; cbn [group_fetch_loop] in H; [discriminate|].
  apply mbind_ok in H. destruct H as (h & s1 & _ & H).
  apply mbind_ok in H. destruct H as ([c tps] & s2 & Hsr & H). cbv beta iota in H.
  destruct (group_scan tps []) as [[m|[code reset]]|c0] eqn:Eg.
  - inversion H. subst. exists h, s1, c, tps. split; [exact Hsr|exact Eg].
  - apply mbind_ok in H. destruct H as (cl0 & s3 & _ & H).
    apply mbind_ok in H. destruct H as (u & s4 & _ & H).
    destruct (attempt <? retry_max_attempts (cfg cl0)); [|discriminate].
    eapply IH. exact H.
  - discriminate.
Qed.

(* fetch_group_offsets: one OffsetFetch request for exactly the asked partitions, in the version that
   belongs to the configured offset storage (v0 = Zookeeper, v1 = Kafka), answered by the coordinator *)
Theorem C07_fetch_group_offsets_inv : forall group ps s tpos s',
  fetch_group_offsets group ps s = (Ok tpos, s') ->
  0 <= offset_storage (cfg (cl s))
  /\ exists corr tps h s0 c rtps,
       group_fetch_tps (cs (cl s)) ps [] = Some tps
       /\ send_receive dec_offset_fetch_resp h
            (enc_offset_fetch_req corr (client_id (cfg (cl s))) group
                                  (fetch_version (offset_storage (cfg (cl s)))) tps) s0 = (Ok (c, rtps), s')
       /\ group_scan rtps [] = inl (inl tpos).
Proof.
  intros group ps s tpos s' H. unfold fetch_group_offsets in H.
  apply mbind_ok in H. destruct H as (c & s1 & Hc & H). unfold get_client in Hc. inversion Hc. subst c s1.
  destruct (offset_storage (cfg (cl s)) <? 0) eqn:Es; [discriminate|]. split; [lia|].
  apply mbind_ok in H. destruct H as (corr & s1 & _ & H).
  destruct (group_fetch_tps (cs (cl s)) ps []) as [tps|] eqn:Et; [|discriminate].
  unfold with_fuel in H. apply group_fetch_loop_inv in H. destruct H as (h & s0 & c & rtps & Hsr & Hg).
  exists corr, tps, h, s0, c, rtps. auto.
Qed.

Example C07_fetch_group_offsets_ex : exists tpos s',
  fetch_group_offsets xg [(xt, 0); (xt, 1); (xt, 2)] ex_st2 = (Ok tpos, s')
  /\ tpos = [(xt, [(0, -1); (1, 12); (2, 8)])]
  /\ fetch_version (offset_storage (cfg (cl ex_st2))) = STORAGE_KAFKA_FETCH_VERSION.
Proof. eexists. eexists. split; [vm_compute; reflexivity|]. split; reflexivity. Qed.

(* ================================================================================== *)
(* F. a start "elsewhere" that is not finding F22                                      *)
(* ================================================================================== *)
(* The property says the consumer never starts anywhere else: where no offset can be determined
   creation fails.  F22 is the partition without a leader.  There is a second way: the Offset (v0)
   answer of the partition's own leader may carry an EMPTY offset list without an error code - that
   is what a broker answers for a time before the oldest segment - and to_offset turns the empty
   list into -1 (self.offset.first().unwrap_or(-1), src/protocol/offset.rs).  Creation succeeds and
   the first fetch of the partition asks for offset -1. *)
Theorem C07_empty_offset_list_is_minus1 : forall p,
  from_protocol (por_error p) = None -> por_offsets p = [] -> to_offset p = inl (por_partition p, -1).
Proof. intros p He Ho. unfold to_offset. rewrite He, Ho. reflexivity. Qed.

Definition ex_st4 : st :=
  {| script := OConn true :: ex_talk (ex_off_answer [ {| wo_partition := 0; wo_error := 0; wo_offsets := Some [] |};
                                                       ex_off_part 1 12 ])
               ++ OConn true :: ex_talk (ex_off_answer [ex_off_part 2 7]);
     trace := []; anyq := []; hostq := []; fetchq := []; entryq := [];
     cl := ex_client; env := ex_codecs |}.

Theorem C07_never_elsewhere_create_refuted : exists src calls s k s' r p maxb,
  consumer_create src calls s = (Ok k, s')
  /\ tk_get (r, p) (k_fetch k) = Some (-1, maxb)
  (* although the partition has a leader the client knows ... *)
  /\ find_broker (cs (k_client k)) (topic_name k r) p <> None
  (* ... and every answer was free of error codes *)
  /\ script s' = [].
Proof.
  exists (inr ex_client), [CWithTopic xt; CWithFallback (FbByTime 1)], ex_st4.
  eexists. eexists. exists 0, 0, 4096.
  split; [vm_compute; reflexivity|]. split; [vm_compute; reflexivity|].
  split; [vm_compute; discriminate|vm_compute; reflexivity].
Qed.

Check C07_consumed_topics_spec.
Check C07_consumed_committed.
Check C07_consumed_uncommitted.
Check C07_offsets_exchange_inv.
Check C07_load_partition_offsets_spec.
Check C07_offset_of_every_broker_survives.
Check C07_load_consumed_offsets_spec.
Check C07_load_fetch_states_spec.
Check C07_group_start_offsets.
Check C07_nothing_committed_start_offsets.
Check C07_groupless_loads_nothing.
Check C07_no_commit_empty_table.
Check C07_create_spec.
Check C07_first_fetch_uses_fetch_states.

Print Assumptions C07_consumed_topics_spec.
Print Assumptions C07_consumed_committed.
Print Assumptions C07_consumed_uncommitted.
Print Assumptions C07_offsets_exchange_inv.
Print Assumptions C07_load_partition_offsets_spec.
Print Assumptions C07_offset_of_every_broker_survives.
Print Assumptions C07_load_consumed_offsets_spec.
Print Assumptions C07_load_fetch_states_spec.
Print Assumptions C07_group_start_offsets.
Print Assumptions C07_nothing_committed_start_offsets.
Print Assumptions C07_groupless_loads_nothing.
Print Assumptions C07_no_commit_empty_table.
Print Assumptions C07_create_spec.
Print Assumptions C07_first_fetch_uses_fetch_states.
Check C07_get_offsets_cases.
Check C07_fetch_group_offsets_inv.
Check C07_empty_offset_list_is_minus1.
Check C07_never_elsewhere_create_refuted.
Print Assumptions C07_get_offsets_cases.
Print Assumptions C07_fetch_group_offsets_inv.
Print Assumptions C07_empty_offset_list_is_minus1.
Print Assumptions C07_never_elsewhere_create_refuted.
