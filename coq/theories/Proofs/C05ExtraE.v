(* C05, additional theorems, fifth file (fourth adequacy pass; seeded change C05-7).

   C05-7 (MessageProduceRequest::new turns a present-but-empty key / value, Some(&[]), into an absent one):
     COVERED.  The model has no separate constructor: a message of a request IS the pair `(pq_key m, pq_value m)`
     built in Client.produce_reqs (Producer.send_all_reqs builds `(to_option k, to_option v)`, the wrapper of a
     compressed set is `(None, Some cdata)` in Requests.enc_partition_produce).  Mirrored at these three sites
     (scratch copy, `new_pmsg k v := (nonempty k, nonempty v)`), the first script to fail is
     produce_reqs_msgs_for of Proofs/C05Facts.v, the lemma behind C05_exactly_once, and the NEGATION of the
     statement of C05_exactly_once was proved there with the one-record batch (t/0, key Some [], value "a1")
     (C05_leader_gets_all, C05_entry_is_msgs_for, C05_every_record_sent, C05_all_records_once and the two
     C05_wire_exactly_once* fall with it: all of them compare with `pmsg_of m = (pq_key m, pq_value m)`).
     Mirrored instead at the ENCODER (enc_message renders `nonempty (fst m)`, `nonempty (snd m)`), the request map
     theorems survive and the wire theorems break: the negation of the statement of C05_wire_request was proved
     there for tps = [(t, [(0, [(Some [], Some "a1")])])], no compression.
     Part H below only adds the statement of the seed's clause in the form the README puts it ("a DIFFERENT
     record does") and the two entry points side by side.

   Part H  content of the records (quantifier "keys, values"; "the producer OR the client's produce call")
     C05_records_injective       two batches of fitting records that render to the same message-set bytes are the
                                 same list of (key, value) pairs - with Some [] and None kept apart;
     C05_client_call_keeps_empty the request map of the client call holds every record with the key and value
                                 AS GIVEN: a record is sent with an absent key (value) only if it was given so;
     C05_producer_record_content the producer's records become (to_option key, to_option value), in order:
                                 through a Producer empty means absent, and a present-but-empty key or value
                                 never occurs in its request map (C05_producer_never_empty).

   Part I  the FORWARD direction of the exchange (the item "not done" of C05ExtraB.v and C05ExtraC.v):
     `served` = what the brokers do, request by request, in the order the requests go out: the connection
                events of get_conn answered (none for a pooled connection, OConn true for a new one, OConn true
                and the answer to the shutdown of the old stream for an idle-expired one), the frame of the
                request accepted (in any pieces, with interruptions), a 4-byte size header and a body delivered
                (any pieces, interruptions), the body decoding to the response rtps.
     C05_exchange_forward   script = such answers ++ rest  ==>  the loop returns acc ++ the per-partition results
                of exactly these responses, consumes exactly these answers, and leaves every host of the
                requests pooled, nothing else changed;
     C05_call_forward       the same for KafkaClient::produce_messages as a whole (duration conversion,
                correlation id, grouping, HashMap order hint), with the state it LEAVES BEHIND: correlation
                counter advanced by one call, one order hint consumed, all hosts of the batch pooled;
     C05_producer_forward   the same for Producer::send_all, with the producer's acks / timeout and the counter
                the returned producer carries;
     C05_call_then_call_forward   a HISTORY: two client calls in a row; the second runs with the next
                correlation id, finds the hosts of the first pooled (so, with a live connection, is served
                WITHOUT connection events for them) and returns the results of ITS OWN responses;
     C05_call_noack_forward acks = 0: connections and accepted frames only; the call returns [] and reads nothing.

   Part J  from the whole call to what a broker parses (the clause of the seed at the level of the public call):
     C05_call_records_on_wire   a successful KafkaClient::produce_messages without compression wrote, for EVERY
                record of the batch, one whole frame to the leader of the record's partition that parses (request
                grammar, strict message-set parser) to a produce request with the call's acks / timeout whose
                set for the record's topic-partition is exactly the batch's records for it, in order, with
                rm_key = pq_key and rm_value = pq_value (Some [] and None kept apart).  Breaks under both
                placements of the seed's change.

   Not done / not proved:
   - the forward theorems ask for a response body of at most one 64 KiB allocation step (read_exact_alloc reads
     a longer body in several read_exact runs; a produce response of that size needs thousands of partitions);
   - forward statements for the FAILING answers (refused connection, short write, end of stream ...): the
     backward theorem C05_call_failure says what a failed call looks like, nothing says "this answer makes the
     call fail with that error";
   - Part J only without compression (the gzip / snappy analogue goes through C05_wire_exactly_once and `set_holds`
     in the same way) and only for a call that succeeded (for a failed call C05_call_failure tells which requests
     were exchanged completely; the composition with the wire theorems was not made). *)
From Coq Require Import ZifyBool Sorting.Permutation.
From KV Require Import Base.Prelude Gen.Consts Model.Codecs Model.Requests Model.Responses
                       Model.ClientState Model.Net Model.Client Model.Producer.
From KV Require Import Proofs.BytesFacts Proofs.C20Facts Proofs.C05Facts.
From KV Require Import Proofs.NetFacts Proofs.C05ExtraB.
From KV Require Proofs.C03Facts Proofs.C09Facts Proofs.C15ExtraB Proofs.C05Extra2 Spec.MsgSetSpec Spec.ReqGrammar.

(* ================================================================================================== *)
(* Part H: the content of the records                                                                  *)
(* ================================================================================================== *)

Lemma plain_raw_inj m1 m2 : C03Facts.plain_raw m1 = C03Facts.plain_raw m2 -> m1 = m2.
Proof.
  destruct m1 as [k1 v1], m2 as [k2 v2]. unfold C03Facts.plain_raw. cbn [fst snd]. intros H.
  injection H as -> ->. reflexivity.
Qed.

Lemma map_inj {A B} (f : A -> B) : (forall a b, f a = f b -> a = b) ->
  forall l1 l2, map f l1 = map f l2 -> l1 = l2.
Proof.
  intros Hf. induction l1 as [|a l1 IH]; intros [|b l2] H; cbn [map] in H; try discriminate; [reflexivity|].
  injection H as H1 H2. rewrite (Hf _ _ H1), (IH _ H2). reflexivity.
Qed.

(* the encoder of a message set is injective on fitting records: different records - in particular a record
   with a present, empty key or value and the record with that key or value absent - never give the same bytes *)
Theorem C05_records_injective : forall (ms1 ms2 : list pmsg) (b : bytes),
  Forall C03Facts.fits ms1 -> Forall C03Facts.fits ms2 ->
  enc_messages ms1 = Ok b -> enc_messages ms2 = Ok b -> ms1 = ms2.
Proof.
  intros ms1 ms2 b F1 F2 E1 E2.
  pose proof (C03Facts.C03_plain ms1 b F1 E1) as P1. pose proof (C03Facts.C03_plain ms2 b F2 E2) as P2.
  rewrite P1 in P2. injection P2 as P2.
  change (map C03Facts.plain_raw ms1 = map C03Facts.plain_raw ms2) in P2.
  exact (map_inj _ plain_raw_inj _ _ P2).
Qed.

Example C05_records_injective_ex :
  Forall C03Facts.fits [(Some [], Some (tag "a1"))] /\ Forall C03Facts.fits [(None, Some (tag "a1"))]
  /\ (exists b1 b2, enc_messages [(Some [], Some (tag "a1"))] = Ok b1 /\ enc_messages [(None, Some (tag "a1"))] = Ok b2
                    /\ b1 <> b2 /\ length b1 = length b2)
  /\ (exists b1 b2, enc_messages [(Some (tag "k"), Some [])] = Ok b1 /\ enc_messages [(Some (tag "k"), None)] = Ok b2
                    /\ b1 <> b2).
Proof.
  split; [repeat constructor; vm_compute; reflexivity|]. split; [repeat constructor; vm_compute; reflexivity|].
  split; eexists; eexists; (split; [vm_compute; reflexivity|]); (split; [vm_compute; reflexivity|]).
  - split; [discriminate|reflexivity].
  - discriminate.
Qed.

(* the client call: whatever is in the set of (host, t, p) is a record of the batch for t / p with the key and the
   value as given; so an absent key (value) on the way out was absent on the way in, and a present one - empty
   or not - is the one given *)
Theorem C05_client_call_keeps_empty : forall (s : cstate) (msgs : list produce_message) (reqs : list (bytes * produce_tps)),
  produce_reqs s msgs [] = Some reqs ->
  forall (host t : bytes) (p : Z) (k v : option bytes),
    In (k, v) (msgs_for reqs host t p) ->
    exists m, In m msgs /\ pq_topic m = t /\ pq_partition m = p /\ pq_key m = k /\ pq_value m = v.
Proof.
  intros s msgs reqs H host t p k v Hin.
  rewrite (C05_exactly_once s msgs reqs H host t p) in Hin.
  apply in_map_iff in Hin. destruct Hin as [m [Hm Hf]]. apply filter_In in Hf. destruct Hf as [Hi Hd].
  unfold dest in Hd. apply andb_true_iff in Hd. destruct Hd as [Hd _]. apply andb_true_iff in Hd.
  destruct Hd as [Ht Hp]. apply bytes_eqb_eq in Ht. apply Z.eqb_eq in Hp.
  unfold pmsg_of in Hm. injection Hm as Hk Hv. exists m. repeat split; assumption.
Qed.

(* the producer: records become (to_option key, to_option value), in order *)
Theorem C05_producer_record_content : forall (parts : list (bytes * pparts)) (recs : list record) (cntr : Z),
  map pmsg_of (fst (partitioned parts cntr recs))
  = map (fun r => (to_option (r_key r), to_option (r_value r))) recs
  /\ map pq_topic (fst (partitioned parts cntr recs)) = map r_topic recs.
Proof.
  intros parts. induction recs as [|r rest IH]; intros cntr; cbn [partitioned]; [split; reflexivity|].
  cbv zeta. destruct (partition parts cntr (r_topic r) (r_partition r) (to_option (r_key r))) as [p c'].
  destruct (IH c') as [IH1 IH2]. destruct (partitioned parts c' rest) as [ms c]. cbn [fst map] in *.
  rewrite IH1, IH2. split; reflexivity.
Qed.

Lemma to_option_not_empty b : to_option b <> Some [].
Proof. destruct b; cbn [to_option]; discriminate. Qed.

(* hence a present-but-empty key or value never occurs in a request map built by Producer::send_all *)
Theorem C05_producer_never_empty : forall (s : cstate) (parts : list (bytes * pparts)) (recs : list record) (cntr : Z)
    (reqs : list (bytes * produce_tps)),
  fst (send_all_reqs s parts cntr recs []) = Some reqs ->
  forall (host t : bytes) (p : Z) (k v : option bytes),
    In (k, v) (msgs_for reqs host t p) -> k <> Some [] /\ v <> Some [].
Proof.
  intros s parts recs cntr reqs H host t p k v Hin.
  rewrite C05_producer_same in H.
  destruct (C05_client_call_keeps_empty s _ reqs H host t p k v Hin) as (m & Hm & _ & _ & Hk & Hv).
  assert (Hpm : In (pmsg_of m) (map pmsg_of (fst (partitioned parts cntr recs)))) by (apply in_map; exact Hm).
  rewrite (proj1 (C05_producer_record_content parts recs cntr)) in Hpm.
  apply in_map_iff in Hpm. destruct Hpm as [r [Hr _]]. unfold pmsg_of in Hr. injection Hr as Hk' Hv'.
  rewrite <- Hk, <- Hv, <- Hk', <- Hv'. split; apply to_option_not_empty.
Qed.

(* the two entry points on "the same data": key empty, value empty *)
Example C05_entry_points_differ_ex :
  let m := {| pq_topic := tag "t2"; pq_partition := 0; pq_key := Some []; pq_value := Some [] |} in
  let r := {| r_topic := tag "t2"; r_partition := 0; r_key := []; r_value := [] |} in
  option_map (fun reqs => msgs_for reqs (tag "h1:9092") (tag "t2") 0) (produce_reqs c20_state [m] [])
  = Some [(Some [], Some [])]
  /\ option_map (fun reqs => msgs_for reqs (tag "h1:9092") (tag "t2") 0)
                (fst (send_all_reqs c20_state (producer_state c20_state) 0 [r] []))
     = Some [(None, None)].
Proof. vm_compute. split; reflexivity. Qed.

(* ================================================================================================== *)
(* Part I: the forward direction - the brokers answer thus, therefore the call returns that            *)
(* ================================================================================================== *)
Import C15ExtraB.

Definition with_conns (c : client) (l : list bytes) : client := {| cfg := cfg c; cs := cs c; conns := l |}.
(* Connections::get_conn: a host not yet pooled is appended *)
Definition pool_add (l : list bytes) (h : bytes) : list bytes := if in_pool h l then l else l ++ [h].

(* the answers get_conn h consumes when it succeeds *)
Definition conn_script (g : config) (pool : list bytes) (h : bytes) (couts : list ev_out) : Prop :=
  if in_pool h pool
  then (if idle_expired g then exists o, couts = [OConn true; o] else couts = [])
  else couts = [OConn true].

Lemma with_conns_same c : with_conns c (conns c) = c.
Proof. destruct c; reflexivity. Qed.

Lemma get_conn_forward h s couts rest :
  conn_script (cfg (cl s)) (conns (cl s)) h couts -> script s = couts ++ rest ->
  exists s', get_conn h s = (Ok tt, s') /\ script s' = rest
             /\ cl s' = with_conns (cl s) (pool_add (conns (cl s)) h)
             /\ env s' = env s /\ hostq s' = hostq s.
Proof.
  unfold conn_script, pool_add, get_conn. intros Hc Hs.
  change (mbind get_client ?f s) with (f (cl s) s). cbv beta.
  destruct (in_pool h (conns (cl s))) eqn:Ep.
  - destruct (idle_expired (cfg (cl s))) eqn:Ei.
    + destruct Hc as [o ->]. cbn [app] in Hs.
      exists (st_with (st_with s (o :: rest) (EConnect h :: trace s)) rest (EShutdown h :: EConnect h :: trace s)).
      unfold new_conn, shutdown, mbind, io, ret. rewrite Hs. cbn [st_with script trace].
      rewrite with_conns_same. repeat split; reflexivity.
    + subst couts. exists s. rewrite with_conns_same. repeat split; try reflexivity. exact Hs.
  - subst couts. cbn [app] in Hs.
    eexists. unfold new_conn, set_conns, set_client, get_client, mbind, io, ret. rewrite Hs.
    cbn [st_with script trace cl anyq hostq fetchq entryq env]. repeat split; reflexivity.
Qed.

(* one exchange: C15_exchange_forward with the connection events and with the state left behind *)
Lemma send_receive_forward {A} (d : dec A) h p s couts wouts houts bouts rest a tl :
  conn_script (cfg (cl s)) (conns (cl s)) h couts ->
  script s = couts ++ wouts ++ houts ++ bouts ++ rest ->
  wcovers (ulen (frame p)) wouts = true ->
  rcovers 4 houts = true ->
  0 <= be_dec_s (payloads houts) <= read_chunk ->
  rcovers (be_dec_s (payloads houts)) bouts = true ->
  d (payloads bouts) = Ok (a, tl) ->
  exists s', send_receive d h (Ok p) s = (Ok a, s') /\ script s' = rest
             /\ cl s' = with_conns (cl s) (pool_add (conns (cl s)) h)
             /\ env s' = env s /\ hostq s' = hostq s.
Proof.
  intros Hconn Hs Hw Hh Hsz Hb Hd.
  destruct (get_conn_forward h s couts _ Hconn Hs) as (s1 & H1 & Hs1 & Hc1 & He1 & Hq1).
  destruct (C15_send_forward h p s1 wouts (houts ++ bouts ++ rest) Hs1 Hw) as (s2 & H2 & Hs2 & Hc2).
  destruct (read_exact_forward_ok h houts 4 [] (S (length (script s2))) s2 (bouts ++ rest) Hh Hs2) as (s3 & H3 & Hs3 & Hc3).
  { rewrite Hs2, app_length. lia. }
  cbn [app] in H3. set (size := be_dec_s (payloads houts)) in *.
  assert (Hbytes : exists s', read_exact_alloc h size s3 = (Ok (payloads bouts), s') /\ script s' = rest /\ cl s' = cl s3).
  { unfold read_exact_alloc, with_fuel. cbn [read_chunks]. destruct (size <=? 0) eqn:Ez.
    - assert (Hz : size <= 0) by lia. rewrite (rcovers_done _ _ Hz Hb) in *. exists s3.
      split; [reflexivity|]. split; [exact Hs3|reflexivity].
    - cbv zeta. replace (Z.min size read_chunk) with size by lia.
      destruct (read_exact_forward_ok h bouts size [] (S (length (script s3))) s3 rest Hb Hs3) as (s4 & H4 & Hs4 & Hc4).
      { rewrite Hs3, app_length. lia. }
      cbn [app] in H4. exists s4. split; [|split; [exact Hs4|exact Hc4]].
      rewrite (mbind_ok _ _ s3 (payloads bouts) s4); [|unfold with_fuel; exact H4].
      replace (size - size) with 0 by lia. destruct (length (script s3)); reflexivity. }
  destruct Hbytes as (s' & H4 & Hs' & Hc').
  assert (Hrun : send_receive d h (Ok p) s = (Ok a, s')).
  { unfold send_receive.
    rewrite (mbind_ok _ _ _ _ _ H1). rewrite (mbind_ok _ _ _ _ _ H2).
    unfold get_response, get_response_bytes, get_response_size.
    assert (Hsize : (let+ b := with_fuel (fun f => read_exact f h 4 []) in
                     let size := be_dec_s b in if size <? 0 then fail ECodec else ret size) s2 = (Ok size, s3)).
    { rewrite (mbind_ok _ _ s2 (payloads houts) s3); [|unfold with_fuel; exact H3].
      cbv zeta. fold size. destruct (size <? 0) eqn:En; [lia|reflexivity]. }
    rewrite (mbind_ok _ _ s2 (payloads bouts) s').
    - unfold mbind, lift. rewrite Hd. reflexivity.
    - rewrite (mbind_ok _ _ _ _ _ Hsize). exact H4. }
  exists s'. split; [exact Hrun|]. split; [exact Hs'|].
  split; [rewrite Hc', Hc3, Hc2; exact Hc1|].
  destruct (frame_send_receive _ d h (Ok p) s _ s' Hrun) as (_ & Hq & _ & _ & He & _). split; assumption.
Qed.

(* what the brokers do for the requests `reqs` sent in this order by a client with configuration g and the
   connections `pool` (the pool decides which connection events there are), and the responses `resps` they give *)
Fixpoint served (e0 : codecs) (g : config) (corr acks timeout : Z) (pool : list bytes)
         (reqs : list (bytes * produce_tps)) (outs : list ev_out) (resps : list presp) : Prop :=
  match reqs, resps with
  | [], [] => outs = []
  | (h, tps) :: r, rtps :: rs =>
      exists p couts wouts houts bouts rc tl outs',
        enc_produce_req e0 corr (client_id g) acks timeout (compression g) tps = Ok p
        /\ outs = couts ++ wouts ++ houts ++ bouts ++ outs'
        /\ conn_script g pool h couts
        /\ wcovers (ulen (frame p)) wouts = true
        /\ rcovers 4 houts = true
        /\ 0 <= be_dec_s (payloads houts) <= read_chunk
        /\ rcovers (be_dec_s (payloads houts)) bouts = true
        /\ dec_produce_resp (payloads bouts) = Ok ((rc, rtps), tl)
        /\ served e0 g corr acks timeout (pool_add pool h) r outs' rs
  | _, _ => False
  end.

Definition pool_after (l : list bytes) (hs : list bytes) : list bytes := fold_left pool_add hs l.

Theorem C05_exchange_forward : forall (corr acks timeout : Z) (reqs : list (bytes * produce_tps)) (outs : list ev_out)
    (resps : list presp) (acc : list confirm) (x : st) (rest : list ev_out),
  acks <> 0 ->
  served (env x) (cfg (cl x)) corr acks timeout (conns (cl x)) reqs outs resps ->
  script x = outs ++ rest ->
  exists x', produce_exchange corr acks timeout reqs acc x = (Ok (acc ++ flat_map confirms_of resps), x')
             /\ script x' = rest
             /\ cl x' = with_conns (cl x) (pool_after (conns (cl x)) (map fst reqs))
             /\ env x' = env x /\ hostq x' = hostq x.
Proof.
  intros corr acks timeout reqs. induction reqs as [|[h tps] r IH]; intros outs resps acc x rest Ha Hsv Hs.
  - destruct resps as [|? ?]; [|destruct Hsv]. cbn [served] in Hsv. subst outs. cbn [app] in Hs.
    exists x. cbn [produce_exchange flat_map map pool_after fold_left]. destruct (acks =? 0) eqn:E; [lia|].
    rewrite app_nil_r, with_conns_same. repeat split; try reflexivity. exact Hs.
  - destruct resps as [|rtps rs]; [destruct Hsv|]. cbn [served] in Hsv.
    destruct Hsv as (p & couts & wouts & houts & bouts & rc & tl & outs' & Hp & -> & Hc & Hw & Hh & Hsz & Hb & Hd & Hsv).
    rewrite <- !app_assoc in Hs.
    destruct (send_receive_forward dec_produce_resp h p x couts wouts houts bouts (outs' ++ rest) (rc, rtps) tl
                Hc Hs Hw Hh Hsz Hb Hd) as (x1 & H1 & Hs1 & Hc1 & He1 & Hq1).
    assert (Hsv1 : served (env x1) (cfg (cl x1)) corr acks timeout (conns (cl x1)) r outs' rs)
      by (rewrite He1, Hc1; exact Hsv).
    destruct (IH outs' rs (acc ++ confirms_of rtps) x1 rest Ha Hsv1 Hs1) as (x' & H2 & Hs2 & Hc2 & He2 & Hq2).
    exists x'. split.
    + cbn [produce_exchange]. destruct (acks =? 0) eqn:E; [lia|].
      change (mbind get_client ?f x) with (f (cl x) x). cbv beta.
      change (mbind get_env ?f x) with (f (env x) x). cbv beta.
      rewrite Hp. rewrite (mbind_ok _ _ _ _ _ H1). cbv beta iota.
      change (map (fun '(t, ps) => (t, map produce_confirm ps)) rtps) with (confirms_of rtps). rewrite H2.
      cbn [flat_map]. rewrite app_assoc. reflexivity.
    + split; [exact Hs2|]. split; [|split; [rewrite He2; exact He1|rewrite Hq2; exact Hq1]].
      rewrite Hc2, Hc1. cbn [map fst pool_after fold_left with_conns cfg cs conns]. reflexivity.
Qed.

(* ---- the order hint ---------------------------------------------------------------------------- *)
Lemma reorder_nil {V} o : @reorder V o [] = [].
Proof. induction o as [|k ks IH]; cbn [reorder take_key]; [reflexivity|exact IH]. Qed.

(* the state after `ordered`: only the order hint is consumed, and only if there is something to order *)
Definition hint_used {V} (reqs : list (bytes * V)) (q : list (list bytes)) : list (list bytes) :=
  match reqs with [] => q | _ => tl q end.

Lemma ordered_run_hd {V} (reqs : list (bytes * V)) y :
  exists y', ordered reqs y = (Ok (reorder (hd [] (hostq y)) reqs), y')
             /\ script y' = script y /\ trace y' = trace y /\ cl y' = cl y /\ env y' = env y
             /\ hostq y' = hint_used reqs (hostq y).
Proof.
  destruct reqs as [|q qs].
  - exists y. rewrite reorder_nil. repeat split; reflexivity.
  - unfold ordered, pop_hosts, mbind, ret, hint_used. destruct (hostq y) as [|o os] eqn:E.
    + exists y. cbn [hd tl reorder]. rewrite E. repeat split; reflexivity.
    + eexists. cbn [hd tl]. repeat split; reflexivity.
Qed.

(* the client after a successful call: configuration kept, correlation counter advanced by one call, the hosts
   of the requests pooled *)
Definition client_after (c : client) (hs : list bytes) : client :=
  {| cfg := cfg c; cs := snd (next_correlation_id (cs c)); conns := pool_after (conns c) hs |}.

(* KafkaClient::produce_messages as a whole *)
Theorem C05_call_forward : forall (acks : Z) (d : Z * Z) (t : Z) (msgs : list produce_message)
    (reqs : list (bytes * produce_tps)) (x : st) (outs : list ev_out) (resps : list presp) (rest : list ev_out),
  acks <> 0 -> to_millis_i32 d = Ok t ->
  produce_reqs (cs (cl x)) msgs [] = Some reqs ->
  served (env x) (cfg (cl x)) (fst (next_correlation_id (cs (cl x)))) acks t (conns (cl x))
         (reorder (hd [] (hostq x)) reqs) outs resps ->
  script x = outs ++ rest ->
  exists x', produce_messages acks d msgs x = (Ok (flat_map confirms_of resps), x')
             /\ script x' = rest
             /\ cl x' = client_after (cl x) (map fst (reorder (hd [] (hostq x)) reqs))
             /\ env x' = env x /\ hostq x' = hint_used reqs (hostq x).
Proof.
  intros acks d t msgs reqs x outs resps rest Ha Hd Hreqs Hsv Hs.
  rewrite (produce_messages_millis acks d t msgs x Hd).
  pose proof (C05_call_unfold acks t msgs x) as Hc. rewrite Hreqs in Hc. rewrite Hc. clear Hc.
  destruct (ordered_run_hd reqs (bump_corr x)) as (y & Ho & Hsy & _ & Hcy & Hey & Hqy).
  rewrite (mbind_run _ _ _ _ _ Ho).
  change (hostq (bump_corr x)) with (hostq x) in *.
  assert (Hsv' : served (env y) (cfg (cl y)) (fst (next_correlation_id (cs (cl x)))) acks t (conns (cl y))
                        (reorder (hd [] (hostq x)) reqs) outs resps) by (rewrite Hey, Hcy; exact Hsv).
  assert (Hs' : script y = outs ++ rest) by (rewrite Hsy; exact Hs).
  destruct (C05_exchange_forward _ acks t _ outs resps [] y rest Ha Hsv' Hs') as (x' & H & Hs2 & Hc2 & He2 & Hq2).
  exists x'. cbn [app] in H. split; [exact H|]. split; [exact Hs2|].
  split; [rewrite Hc2, Hcy; reflexivity|]. split; [rewrite He2; exact Hey|rewrite Hq2; exact Hqy].
Qed.

(* Producer::send_all as a whole: the producer's acks and ack timeout, and the producer handed back carries the
   counter after partitioning every record *)
Theorem C05_producer_forward : forall (p : producer) (recs : list record) (reqs : list (bytes * produce_tps)) (x : st)
    (outs : list ev_out) (resps : list presp) (rest : list ev_out),
  p_acks p <> 0 ->
  produce_reqs (cs (cl x)) (fst (partitioned (p_parts p) (p_cntr p) recs)) [] = Some reqs ->
  served (env x) (cfg (cl x)) (fst (next_correlation_id (cs (cl x)))) (p_acks p) (p_ack_timeout p) (conns (cl x))
         (reorder (hd [] (hostq x)) reqs) outs resps ->
  script x = outs ++ rest ->
  exists x', producer_send_all p recs x
             = (Ok (flat_map confirms_of resps, producer_set_cntr p (snd (partitioned (p_parts p) (p_cntr p) recs))), x')
             /\ script x' = rest
             /\ cl x' = client_after (cl x) (map fst (reorder (hd [] (hostq x)) reqs))
             /\ env x' = env x /\ hostq x' = hint_used reqs (hostq x).
Proof.
  intros p recs reqs x outs resps rest Ha Hreqs Hsv Hs.
  rewrite (C05_producer_call_unfold p recs x reqs Hreqs).
  destruct (ordered_run_hd reqs (bump_corr x)) as (y & Ho & Hsy & _ & Hcy & Hey & Hqy).
  rewrite (mbind_run _ _ _ _ _ Ho).
  change (hostq (bump_corr x)) with (hostq x) in *.
  assert (Hsv' : served (env y) (cfg (cl y)) (fst (next_correlation_id (cs (cl x)))) (p_acks p) (p_ack_timeout p)
                        (conns (cl y)) (reorder (hd [] (hostq x)) reqs) outs resps) by (rewrite Hey, Hcy; exact Hsv).
  assert (Hs' : script y = outs ++ rest) by (rewrite Hsy; exact Hs).
  destruct (C05_exchange_forward _ (p_acks p) (p_ack_timeout p) _ outs resps [] y rest Ha Hsv' Hs')
    as (x' & H & Hs2 & Hc2 & He2 & Hq2).
  exists x'. cbn [app] in H. split; [rewrite (mbind_run _ _ _ _ _ H); reflexivity|]. split; [exact Hs2|].
  split; [rewrite Hc2, Hcy; reflexivity|]. split; [rewrite He2; exact Hey|rewrite Hq2; exact Hqy].
Qed.

(* ---- what a call leaves behind for the next ------------------------------------------------------- *)
Lemma in_pool_app h l l' : in_pool h (l ++ l') = in_pool h l || in_pool h l'.
Proof. unfold in_pool. apply existsb_app. Qed.

Lemma in_pool_add_mono h l h' : in_pool h l = true -> in_pool h (pool_add l h') = true.
Proof.
  intros H. unfold pool_add. destruct (in_pool h' l); [exact H|]. rewrite in_pool_app, H. reflexivity.
Qed.

Lemma in_pool_add_self l h : in_pool h (pool_add l h) = true.
Proof.
  unfold pool_add. destruct (in_pool h l) eqn:E; [exact E|]. rewrite in_pool_app. unfold in_pool at 2.
  cbn [existsb]. rewrite (proj2 (bytes_eqb_eq h h) eq_refl). rewrite orb_true_r. reflexivity.
Qed.

Lemma in_pool_after_mono h hs : forall l, in_pool h l = true -> in_pool h (pool_after l hs) = true.
Proof.
  unfold pool_after. induction hs as [|h' hs IH]; intros l H; cbn [fold_left]; [exact H|].
  apply IH. apply in_pool_add_mono. exact H.
Qed.

(* every host a successful call talked to is pooled afterwards, and so is every host that was pooled before *)
Theorem C05_hosts_pooled_after : forall (l hs : list bytes) (h : bytes),
  In h hs \/ in_pool h l = true -> in_pool h (pool_after l hs) = true.
Proof.
  intros l hs h [Hin|Hp]; [|apply in_pool_after_mono; exact Hp].
  revert l. induction hs as [|h' hs IH]; intros l; [destruct Hin|].
  unfold pool_after. cbn [fold_left]. destruct Hin as [->|Hin].
  - apply (in_pool_after_mono h hs). apply in_pool_add_self.
  - apply (IH Hin).
Qed.

(* so, with a connection that does not idle-expire, the next call is served without any connection event for them *)
Theorem C05_pooled_no_connect : forall (g : config) (l hs : list bytes) (h : bytes) (couts : list ev_out),
  idle_expired g = false -> In h hs \/ in_pool h l = true ->
  (conn_script g (pool_after l hs) h couts <-> couts = []).
Proof.
  intros g l hs h couts Hi Hh. unfold conn_script. rewrite (C05_hosts_pooled_after l hs h Hh), Hi. tauto.
Qed.

(* a HISTORY of two client calls: the second uses the next correlation id, the pool the first left, the next
   order hint - and returns the per-partition results of the responses to ITS requests *)
Theorem C05_call_then_call_forward : forall (a1 a2 : Z) (d1 d2 : Z * Z) (t1 t2 : Z) (msgs1 msgs2 : list produce_message)
    (reqs1 reqs2 : list (bytes * produce_tps)) (x : st) (outs1 outs2 : list ev_out) (resps1 resps2 : list presp)
    (rest : list ev_out),
  a1 <> 0 -> a2 <> 0 -> to_millis_i32 d1 = Ok t1 -> to_millis_i32 d2 = Ok t2 ->
  produce_reqs (cs (cl x)) msgs1 [] = Some reqs1 ->
  produce_reqs (cs (cl x)) msgs2 [] = Some reqs2 ->
  let o1 := hd [] (hostq x) in
  let o2 := hd [] (hint_used reqs1 (hostq x)) in
  let s1 := snd (next_correlation_id (cs (cl x))) in
  served (env x) (cfg (cl x)) (fst (next_correlation_id (cs (cl x)))) a1 t1 (conns (cl x)) (reorder o1 reqs1) outs1 resps1 ->
  served (env x) (cfg (cl x)) (fst (next_correlation_id s1)) a2 t2
         (pool_after (conns (cl x)) (map fst (reorder o1 reqs1))) (reorder o2 reqs2) outs2 resps2 ->
  script x = outs1 ++ outs2 ++ rest ->
  exists x1 x2,
    produce_messages a1 d1 msgs1 x = (Ok (flat_map confirms_of resps1), x1)
    /\ produce_messages a2 d2 msgs2 x1 = (Ok (flat_map confirms_of resps2), x2)
    /\ script x1 = outs2 ++ rest /\ script x2 = rest
    /\ conns (cl x2) = pool_after (pool_after (conns (cl x)) (map fst (reorder o1 reqs1))) (map fst (reorder o2 reqs2))
    /\ cs (cl x2) = snd (next_correlation_id s1).
Proof.
  intros a1 a2 d1 d2 t1 t2 msgs1 msgs2 reqs1 reqs2 x outs1 outs2 resps1 resps2 rest Ha1 Ha2 Hd1 Hd2 Hr1 Hr2
         o1 o2 s1 Hsv1 Hsv2 Hs.
  destruct (C05_call_forward a1 d1 t1 msgs1 reqs1 x outs1 resps1 (outs2 ++ rest) Ha1 Hd1 Hr1 Hsv1 Hs)
    as (x1 & H1 & Hs1 & Hc1 & He1 & Hq1).
  assert (Hr2' : produce_reqs (cs (cl x1)) msgs2 [] = Some reqs2).
  { rewrite Hc1. cbn [client_after cs].
    rewrite (produce_reqs_ext _ (cs (cl x)) (find_broker_next_corr (cs (cl x)))). exact Hr2. }
  assert (Hsv2' : served (env x1) (cfg (cl x1)) (fst (next_correlation_id (cs (cl x1)))) a2 t2 (conns (cl x1))
                         (reorder (hd [] (hostq x1)) reqs2) outs2 resps2).
  { rewrite He1, Hq1, Hc1. cbn [client_after cfg cs conns]. exact Hsv2. }
  destruct (C05_call_forward a2 d2 t2 msgs2 reqs2 x1 outs2 resps2 rest Ha2 Hd2 Hr2' Hsv2' Hs1)
    as (x2 & H2 & Hs2 & Hc2 & He2 & Hq2).
  exists x1, x2. split; [exact H1|]. split; [exact H2|]. split; [exact Hs1|]. split; [exact Hs2|].
  rewrite Hc2, Hq1, Hc1. cbn [client_after cfg cs conns]. split; reflexivity.
Qed.

(* ---- acks = 0 ---------------------------------------------------------------------------------- *)
(* connections opened as needed and every frame accepted; nothing else is asked of the brokers *)
Fixpoint served_noack (e0 : codecs) (g : config) (corr timeout : Z) (pool : list bytes)
         (reqs : list (bytes * produce_tps)) (outs : list ev_out) : Prop :=
  match reqs with
  | [] => outs = []
  | (h, tps) :: r =>
      exists p couts wouts outs',
        enc_produce_req e0 corr (client_id g) 0 timeout (compression g) tps = Ok p
        /\ outs = couts ++ wouts ++ outs'
        /\ conn_script g pool h couts
        /\ wcovers (ulen (frame p)) wouts = true
        /\ served_noack e0 g corr timeout (pool_add pool h) r outs'
  end.

Theorem C05_exchange_noack_forward : forall (corr timeout : Z) (reqs : list (bytes * produce_tps)) (outs : list ev_out)
    (acc : list confirm) (x : st) (rest : list ev_out),
  served_noack (env x) (cfg (cl x)) corr timeout (conns (cl x)) reqs outs ->
  script x = outs ++ rest ->
  exists x', produce_exchange corr 0 timeout reqs acc x = (Ok [], x')
             /\ script x' = rest
             /\ cl x' = with_conns (cl x) (pool_after (conns (cl x)) (map fst reqs))
             /\ env x' = env x /\ hostq x' = hostq x.
Proof.
  intros corr timeout reqs. induction reqs as [|[h tps] r IH]; intros outs acc x rest Hsv Hs.
  - cbn [served_noack] in Hsv. subst outs. cbn [app] in Hs.
    exists x. cbn [produce_exchange map pool_after fold_left]. change (0 =? 0) with true. cbv iota.
    rewrite with_conns_same. repeat split; try reflexivity. exact Hs.
  - cbn [served_noack] in Hsv. destruct Hsv as (p & couts & wouts & outs' & Hp & -> & Hc & Hw & Hsv).
    rewrite <- !app_assoc in Hs.
    destruct (get_conn_forward h x couts _ Hc Hs) as (x1 & H1 & Hs1 & Hc1 & He1 & Hq1).
    destruct (C15_send_forward h p x1 wouts (outs' ++ rest) Hs1 Hw) as (x2 & H2 & Hs2 & Hc2).
    destruct (frame_send_request h (Ok p) x1 _ x2 H2) as (_ & Hq2 & _ & _ & _ & He2).
    assert (Hsv2 : served_noack (env x2) (cfg (cl x2)) corr timeout (conns (cl x2)) r outs')
      by (rewrite He2, He1, Hc2, Hc1; exact Hsv).
    destruct (IH outs' acc x2 rest Hsv2 Hs2) as (x' & H3 & Hs3 & Hc3 & He3 & Hq3).
    exists x'. split.
    + cbn [produce_exchange]. change (0 =? 0) with true. cbv iota.
      change (mbind get_client ?f x) with (f (cl x) x). cbv beta.
      change (mbind get_env ?f x) with (f (env x) x). cbv beta.
      rewrite Hp. rewrite (mbind_ok _ _ _ _ _ H1). rewrite (mbind_ok _ _ _ _ _ H2). exact H3.
    + split; [exact Hs3|]. split; [|split; [rewrite He3, He2; exact He1|rewrite Hq3, Hq2; exact Hq1]].
      rewrite Hc3, Hc2, Hc1. cbn [map fst pool_after fold_left with_conns cfg cs conns]. reflexivity.
Qed.

(* KafkaClient::produce_messages with acks = 0: the call returns no confirmation and leaves what follows in the
   script - in particular anything a broker might have sent - unread *)
Theorem C05_call_noack_forward : forall (d : Z * Z) (t : Z) (msgs : list produce_message)
    (reqs : list (bytes * produce_tps)) (x : st) (outs : list ev_out) (rest : list ev_out),
  to_millis_i32 d = Ok t ->
  produce_reqs (cs (cl x)) msgs [] = Some reqs ->
  served_noack (env x) (cfg (cl x)) (fst (next_correlation_id (cs (cl x)))) t (conns (cl x))
               (reorder (hd [] (hostq x)) reqs) outs ->
  script x = outs ++ rest ->
  exists x', produce_messages 0 d msgs x = (Ok [], x')
             /\ script x' = rest
             /\ cl x' = client_after (cl x) (map fst (reorder (hd [] (hostq x)) reqs))
             /\ env x' = env x /\ hostq x' = hint_used reqs (hostq x).
Proof.
  intros d t msgs reqs x outs rest Hd Hreqs Hsv Hs.
  rewrite (produce_messages_millis 0 d t msgs x Hd).
  pose proof (C05_call_unfold 0 t msgs x) as Hc. rewrite Hreqs in Hc. rewrite Hc. clear Hc.
  destruct (ordered_run_hd reqs (bump_corr x)) as (y & Ho & Hsy & _ & Hcy & Hey & Hqy).
  rewrite (mbind_run _ _ _ _ _ Ho).
  change (hostq (bump_corr x)) with (hostq x) in *.
  assert (Hsv' : served_noack (env y) (cfg (cl y)) (fst (next_correlation_id (cs (cl x)))) t (conns (cl y))
                              (reorder (hd [] (hostq x)) reqs) outs) by (rewrite Hey, Hcy; exact Hsv).
  assert (Hs' : script y = outs ++ rest) by (rewrite Hsy; exact Hs).
  destruct (C05_exchange_noack_forward _ t _ outs [] y rest Hsv' Hs') as (x' & H & Hs2 & Hc2 & He2 & Hq2).
  exists x'. split; [exact H|]. split; [exact Hs2|].
  split; [rewrite Hc2, Hcy; reflexivity|]. split; [rewrite He2; exact Hey|rewrite Hq2; exact Hqy].
Qed.

(* ================================================================================================== *)
(* Examples (state, batch and script of C05Facts / C05ExtraB: two brokers, the order hint sends h1 first) *)
(* ================================================================================================== *)
Ltac norm_reorder :=
  match goal with
  | |- context [reorder ?o ?l] => let r := eval vm_compute in (reorder o l) in change (reorder o l) with r
  end.

(* the hypotheses of C05_call_forward hold of c05_st1: both hosts are new (one OConn true each), each frame is
   taken in one write, the header and the body come in one read each *)
Example C05_call_forward_ex :
  1 <> 0 /\ to_millis_i32 (1, 0) = Ok 1000
  /\ produce_reqs (cs (cl c05_st1)) c20_batch [] = Some c05_reqs
  /\ (exists resps,
        served (env c05_st1) (cfg (cl c05_st1)) (fst (next_correlation_id (cs (cl c05_st1)))) 1 1000 (conns (cl c05_st1))
               (reorder (hd [] (hostq c05_st1)) c05_reqs) (script c05_st1) resps
        /\ flat_map confirms_of resps = [ (tag "t2", [(0, inl 40)]); (tag "t1", [(3, inl 77)]) ])
  /\ script c05_st1 = script c05_st1 ++ []
  /\ fst (produce_messages 1 (1, 0) c20_batch c05_st1) = Ok [ (tag "t2", [(0, inl 40)]); (tag "t1", [(3, inl 77)]) ]
  /\ conns (cl (snd (produce_messages 1 (1, 0) c20_batch c05_st1))) = [tag "h1:9092"; tag "h0:9092"]
  /\ correlation (cs (cl (snd (produce_messages 1 (1, 0) c20_batch c05_st1)))) = 8.
Proof.
  split; [discriminate|]. split; [reflexivity|]. split; [vm_compute; reflexivity|].
  split.
  - refine (ex_intro _ [_; _] _). split.
    { norm_reorder. cbn [served].
    eexists _, [OConn true], [OWrote 1000], [OData (enc_i32 (ulen (c05_resp 8 (tag "t2") 0 40)))],
           [OData (c05_resp 8 (tag "t2") 0 40)], _, _,
           [OConn true; OWrote 1000; OData (enc_i32 (ulen (c05_resp 8 (tag "t1") 3 77))); OData (c05_resp 8 (tag "t1") 3 77)].
    split; [vm_compute; reflexivity|]. split; [reflexivity|]. split; [vm_compute; reflexivity|].
    split; [vm_compute; reflexivity|]. split; [vm_compute; reflexivity|].
    split; [vm_compute; split; discriminate|]. split; [vm_compute; reflexivity|]. split; [vm_compute; reflexivity|].
    eexists _, [OConn true], [OWrote 1000], [OData (enc_i32 (ulen (c05_resp 8 (tag "t1") 3 77)))],
           [OData (c05_resp 8 (tag "t1") 3 77)], _, _, [].
    split; [vm_compute; reflexivity|]. split; [reflexivity|]. split; [vm_compute; reflexivity|].
    split; [vm_compute; reflexivity|]. split; [vm_compute; reflexivity|].
    split; [vm_compute; split; discriminate|]. split; [vm_compute; reflexivity|]. split; [vm_compute; reflexivity|].
    reflexivity. }
    vm_compute. reflexivity.
  - split; [rewrite app_nil_r; reflexivity|]. vm_compute. repeat split; reflexivity.
Qed.

(* one step of `served` / `served_noack` with the cut of the script given *)
Ltac serve couts wouts houts bouts outs' :=
  cbn [served]; eexists _, couts, wouts, houts, bouts, _, _, outs';
  (split; [vm_compute; reflexivity|]); (split; [reflexivity|]);
  (split; [vm_compute; first [reflexivity|eexists; reflexivity]|]);
  (split; [vm_compute; reflexivity|]); (split; [vm_compute; reflexivity|]);
  (split; [vm_compute; split; discriminate|]); (split; [vm_compute; reflexivity|]); (split; [vm_compute; reflexivity|]).
Ltac serve0 couts wouts outs' :=
  cbn [served_noack]; eexists _, couts, wouts, outs';
  (split; [vm_compute; reflexivity|]); (split; [reflexivity|]);
  (split; [vm_compute; first [reflexivity|eexists; reflexivity]|]);
  (split; [vm_compute; reflexivity|]).

(* C05_exchange_forward with a pooled connection that idle-expires at once (reconnect, the old stream shut down),
   the frame taken in pieces with an interruption, the size header in two reads; the next item is left alone *)
Definition c05e_idle : st :=
  let r := c05_resp 8 (tag "t2") 0 40 in
  {| script := [ OConn true; OShut; OWrote 3; OWriteIntr; OWrote 1000;
                 OData (firstn 2 (enc_i32 (ulen r))); OReadIntr; OData (skipn 2 (enc_i32 (ulen r)));
                 OData (firstn 5 r); OData (skipn 5 r); OData (tag "next") ];
     trace := []; anyq := []; hostq := []; fetchq := []; entryq := [];
     cl := {| cfg := cfg_set_producer (c20_cfg 1) {| pb_compression := 0; pb_ack_timeout := (1, 0); pb_idle := (0, 0);
                                                      pb_acks := 1; pb_client_id := None |};
              cs := c20_state; conns := [tag "h1:9092"] |};
     env := c20_env |}.

Example C05_exchange_forward_ex :
  let reqs := [hd (tag "", []) (rev c05_reqs)] in
  idle_expired (cfg (cl c05e_idle)) = true /\ in_pool (tag "h1:9092") (conns (cl c05e_idle)) = true
  /\ (exists outs resps,
        served (env c05e_idle) (cfg (cl c05e_idle)) 8 1 1000 (conns (cl c05e_idle)) reqs outs resps
        /\ script c05e_idle = outs ++ [OData (tag "next")]
        /\ flat_map confirms_of resps = [ (tag "t2", [(0, inl 40)]) ])
  /\ produce_exchange 8 1 1000 reqs [] c05e_idle
     = (Ok [ (tag "t2", [(0, inl 40)]) ], snd (produce_exchange 8 1 1000 reqs [] c05e_idle))
  /\ script (snd (produce_exchange 8 1 1000 reqs [] c05e_idle)) = [OData (tag "next")].
Proof.
  cbv zeta. split; [reflexivity|]. split; [reflexivity|]. split.
  - exists (firstn 10 (script c05e_idle)). refine (ex_intro _ [_] _). split; [|split].
    + let r := eval vm_compute in (hd (tag "", []) (rev c05_reqs)) in change (hd (tag "", []) (rev c05_reqs)) with r.
      serve [OConn true; OShut] [OWrote 3; OWriteIntr; OWrote 1000]
            [OData (firstn 2 (enc_i32 (ulen (c05_resp 8 (tag "t2") 0 40)))); OReadIntr;
             OData (skipn 2 (enc_i32 (ulen (c05_resp 8 (tag "t2") 0 40))))]
            [OData (firstn 5 (c05_resp 8 (tag "t2") 0 40)); OData (skipn 5 (c05_resp 8 (tag "t2") 0 40))]
            (@nil ev_out).
      reflexivity.
    + reflexivity.
    + vm_compute. reflexivity.
  - vm_compute. split; reflexivity.
Qed.

(* the producer of C05ExtraB (acks -1, timeout 1500) on a script that serves both requests *)
Definition c05e_prod_st : st :=
  {| script := [ OConn true; OWrote 1000; OData (enc_i32 (ulen (c05_resp 8 (tag "t2") 0 40)));
                 OData (c05_resp 8 (tag "t2") 0 40);
                 OConn true; OWrote 1000; OData (enc_i32 (ulen (c05_resp 8 (tag "t1") 0 77)));
                 OData (c05_resp 8 (tag "t1") 0 77) ];
     trace := []; anyq := []; hostq := [[tag "h1:9092"]];
     fetchq := []; entryq := []; cl := c20_client 1; env := c20_env |}.

Example C05_producer_forward_ex :
  p_acks c05b_producer <> 0
  /\ (exists reqs resps,
        produce_reqs (cs (cl c05e_prod_st)) (fst (partitioned (p_parts c05b_producer) (p_cntr c05b_producer) c05_recs)) []
        = Some reqs
        /\ served (env c05e_prod_st) (cfg (cl c05e_prod_st)) (fst (next_correlation_id (cs (cl c05e_prod_st))))
                  (p_acks c05b_producer) (p_ack_timeout c05b_producer) (conns (cl c05e_prod_st))
                  (reorder (hd [] (hostq c05e_prod_st)) reqs) (script c05e_prod_st) resps
        /\ flat_map confirms_of resps = [ (tag "t2", [(0, inl 40)]); (tag "t1", [(0, inl 77)]) ])
  /\ fst (producer_send_all c05b_producer c05_recs c05e_prod_st)
     = Ok ([ (tag "t2", [(0, inl 40)]); (tag "t1", [(0, inl 77)]) ], producer_set_cntr c05b_producer 4)
  /\ script (snd (producer_send_all c05b_producer c05_recs c05e_prod_st)) = [].
Proof.
  split; [discriminate|]. split.
  - eexists. refine (ex_intro _ [_; _] _). split; [vm_compute; reflexivity|]. split.
    { norm_reorder.
      serve [OConn true] [OWrote 1000] [OData (enc_i32 (ulen (c05_resp 8 (tag "t2") 0 40)))]
            [OData (c05_resp 8 (tag "t2") 0 40)]
            [OConn true; OWrote 1000; OData (enc_i32 (ulen (c05_resp 8 (tag "t1") 0 77))); OData (c05_resp 8 (tag "t1") 0 77)].
      serve [OConn true] [OWrote 1000] [OData (enc_i32 (ulen (c05_resp 8 (tag "t1") 0 77)))]
            [OData (c05_resp 8 (tag "t1") 0 77)] (@nil ev_out).
      reflexivity. }
    vm_compute. reflexivity.
  - vm_compute. split; reflexivity.
Qed.

(* two calls in a row: the first opens both connections (correlation id 8, order hint h1 first); the second
   (correlation id 9, no hint left: h0 first) is served without a connection event and returns ITS offsets *)
Definition c05e_two : st :=
  {| script := [ OConn true; OWrote 1000; OData (enc_i32 (ulen (c05_resp 8 (tag "t2") 0 40))); OData (c05_resp 8 (tag "t2") 0 40);
                 OConn true; OWrote 1000; OData (enc_i32 (ulen (c05_resp 8 (tag "t1") 3 77))); OData (c05_resp 8 (tag "t1") 3 77);
                 OWrote 1000; OData (enc_i32 (ulen (c05_resp 9 (tag "t1") 3 78))); OData (c05_resp 9 (tag "t1") 3 78);
                 OWrote 1000; OData (enc_i32 (ulen (c05_resp 9 (tag "t2") 0 41))); OData (c05_resp 9 (tag "t2") 0 41);
                 OData (tag "later") ];
     trace := []; anyq := []; hostq := [[tag "h1:9092"]];
     fetchq := []; entryq := []; cl := c20_client 1; env := c20_env |}.

Example C05_call_then_call_forward_ex :
  let x := c05e_two in
  let o1 := hd [] (hostq x) in
  let o2 := hd [] (hint_used c05_reqs (hostq x)) in
  let s1 := snd (next_correlation_id (cs (cl x))) in
  produce_reqs (cs (cl x)) c20_batch [] = Some c05_reqs
  /\ fst (next_correlation_id (cs (cl x))) = 8 /\ fst (next_correlation_id s1) = 9
  /\ pool_after (conns (cl x)) (map fst (reorder o1 c05_reqs)) = [tag "h1:9092"; tag "h0:9092"]
  /\ (exists resps1 resps2,
        served (env x) (cfg (cl x)) 8 1 1000 (conns (cl x)) (reorder o1 c05_reqs) (firstn 8 (script x)) resps1
        /\ served (env x) (cfg (cl x)) 9 1 1000 [tag "h1:9092"; tag "h0:9092"] (reorder o2 c05_reqs)
                  (firstn 6 (skipn 8 (script x))) resps2
        /\ flat_map confirms_of resps2 = [ (tag "t1", [(3, inl 78)]); (tag "t2", [(0, inl 41)]) ])
  /\ script x = firstn 8 (script x) ++ firstn 6 (skipn 8 (script x)) ++ [OData (tag "later")]
  /\ (let x1 := snd (produce_messages 1 (1, 0) c20_batch x) in
      fst (produce_messages 1 (1, 0) c20_batch x1) = Ok [ (tag "t1", [(3, inl 78)]); (tag "t2", [(0, inl 41)]) ]
      /\ script (snd (produce_messages 1 (1, 0) c20_batch x1)) = [OData (tag "later")]).
Proof.
  cbv zeta. split; [vm_compute; reflexivity|]. split; [reflexivity|]. split; [reflexivity|].
  split; [vm_compute; reflexivity|]. split.
  - refine (ex_intro _ [_; _] _). refine (ex_intro _ [_; _] _). split; [|split].
    + norm_reorder.
      serve [OConn true] [OWrote 1000] [OData (enc_i32 (ulen (c05_resp 8 (tag "t2") 0 40)))]
            [OData (c05_resp 8 (tag "t2") 0 40)]
            [OConn true; OWrote 1000; OData (enc_i32 (ulen (c05_resp 8 (tag "t1") 3 77))); OData (c05_resp 8 (tag "t1") 3 77)].
      serve [OConn true] [OWrote 1000] [OData (enc_i32 (ulen (c05_resp 8 (tag "t1") 3 77)))]
            [OData (c05_resp 8 (tag "t1") 3 77)] (@nil ev_out).
      reflexivity.
    + norm_reorder.
      serve (@nil ev_out) [OWrote 1000] [OData (enc_i32 (ulen (c05_resp 9 (tag "t1") 3 78)))]
            [OData (c05_resp 9 (tag "t1") 3 78)]
            [OWrote 1000; OData (enc_i32 (ulen (c05_resp 9 (tag "t2") 0 41))); OData (c05_resp 9 (tag "t2") 0 41)].
      serve (@nil ev_out) [OWrote 1000] [OData (enc_i32 (ulen (c05_resp 9 (tag "t2") 0 41)))]
            [OData (c05_resp 9 (tag "t2") 0 41)] (@nil ev_out).
      reflexivity.
    + vm_compute. reflexivity.
  - split; [reflexivity|]. vm_compute. split; reflexivity.
Qed.

(* acks = 0 on the script of C05_noack_no_read_ex: a short and an interrupted write on the way, the data item
   after the last frame is not read *)
Example C05_call_noack_forward_ex :
  to_millis_i32 (1, 0) = Ok 1000
  /\ produce_reqs (cs (cl c05_st0)) c20_batch [] = Some c05_reqs
  /\ served_noack (env c05_st0) (cfg (cl c05_st0)) (fst (next_correlation_id (cs (cl c05_st0)))) 1000 (conns (cl c05_st0))
                  (reorder (hd [] (hostq c05_st0)) c05_reqs) (firstn 6 (script c05_st0))
  /\ script c05_st0 = firstn 6 (script c05_st0) ++ [OData (tag "never read")]
  /\ fst (produce_messages 0 (1, 0) c20_batch c05_st0) = Ok []
  /\ script (snd (produce_messages 0 (1, 0) c20_batch c05_st0)) = [OData (tag "never read")].
Proof.
  split; [reflexivity|]. split; [vm_compute; reflexivity|]. split.
  - norm_reorder.
    serve0 [OConn true] [OWrote 1000] [OConn true; OWrote 10; OWriteIntr; OWrote 1000].
    serve0 [OConn true] [OWrote 10; OWriteIntr; OWrote 1000] (@nil ev_out).
    reflexivity.
  - split; [reflexivity|]. vm_compute. split; reflexivity.
Qed.

Example C05_hosts_pooled_after_ex :
  pool_after [tag "h9:1"] [tag "h1:9092"; tag "h9:1"; tag "h0:9092"; tag "h1:9092"] = [tag "h9:1"; tag "h1:9092"; tag "h0:9092"]
  /\ (conn_script (c20_cfg 1) (pool_after [tag "h9:1"] [tag "h1:9092"; tag "h0:9092"]) (tag "h0:9092") [] <-> @nil ev_out = [])
  /\ conn_script (c20_cfg 1) [tag "h9:1"] (tag "h0:9092") [OConn true].
Proof.
  split; [vm_compute; reflexivity|]. split; [|vm_compute; reflexivity].
  apply C05_pooled_no_connect; [reflexivity|]. left. right. left. reflexivity.
Qed.

(* ================================================================================================== *)
(* Part J: from the whole call to the records a broker parses (no compression)                          *)
(* ================================================================================================== *)
Lemma msgs_for_host reqs host t p (m : pmsg) :
  In m (msgs_for reqs host t p) -> exists tps, In (host, tps) reqs.
Proof.
  rewrite msgs_for_flat_map. intros H. apply in_flat_map in H. destruct H as [[h tps] [Hin H]].
  destruct (bytes_eqb h host) eqn:E; [|destruct H]. apply bytes_eqb_eq in E. subst h. exists tps. exact Hin.
Qed.

(* KafkaClient::produce_messages, successful, compression NONE: for EVERY record of the batch the events of the
   call contain the write of a whole frame to the leader of the record's partition which, read by the independent
   request grammar, is a produce request with the call's acks and timeout holding an entry for the record's
   topic and partition whose message set, read by the strict message-set parser, is exactly the records of the
   batch for that topic-partition, in batch order, keys and values AS GIVEN (rm_key = pq_key, rm_value =
   pq_value: Some [] stays Some [], None stays None).  The size hypotheses are those of C05_wire_exactly_once_plain. *)
Theorem C05_call_records_on_wire : forall (acks : Z) (d : Z * Z) (t : Z) (msgs : list produce_message)
    (reqs : list (bytes * produce_tps)) (x : st) (v : list confirm) (x' : st),
  let corr := fst (next_correlation_id (cs (cl x))) in
  to_millis_i32 d = Ok t -> in_i32 t -> in_i16 acks -> in_i32 corr ->
  produce_reqs (cs (cl x)) msgs [] = Some reqs ->
  compression (cfg (cl x)) = COMPRESSION_NONE ->
  Forall (fun m => C03Facts.fits (pmsg_of m) /\ in_i32 (pq_partition m)) msgs -> ulen msgs <= i32_max ->
  (forall h tps bs, In (h, tps) reqs ->
     enc_produce_req (env x) corr (client_id (cfg (cl x))) acks t COMPRESSION_NONE tps = Ok bs -> ulen bs <= i32_max) ->
  produce_messages acks d msgs x = (Ok v, x') ->
  exists evs, trace x' = evs ++ trace x
    /\ forall m, In m msgs ->
       exists host bs wtps wps setbytes,
         find_broker (cs (cl x)) (pq_topic m) (pq_partition m) = Some host
         /\ In (EWrite host (frame bs)) evs
         /\ ReqGrammar.parse_frame (frame bs)
            = Some (C09Facts.mk_hdr 0 0 corr (client_id (cfg (cl x))), ReqGrammar.ProduceRequest acks t wtps)
         /\ In (pq_topic m, wps) wtps /\ In (pq_partition m, setbytes) wps
         /\ MsgSetSpec.spec_parse setbytes
            = Some (map C03Facts.plain_raw
                        (map pmsg_of (filter (fun m' => bytes_eqb (pq_topic m') (pq_topic m)
                                                        && (pq_partition m' =? pq_partition m)) msgs))).
Proof.
  intros acks d t msgs reqs x v x' corr Hd Ht Hacks Hcorr Hreqs Hcomp Hfit Hlen Hsize H.
  rewrite (produce_messages_millis acks d t msgs x Hd) in H.
  pose proof (C05_call_unfold acks t msgs x) as Hc. rewrite Hreqs in Hc. rewrite Hc in H. clear Hc.
  destruct (ordered_run_hd reqs (bump_corr x)) as (y & Ho & Hsy & Hty & Hcy & Hey & _).
  rewrite (mbind_run _ _ _ _ _ Ho) in H. fold corr in H.
  destruct (C05Extra2.C05_exchange_sends_all corr acks t _ [] y v x' H) as (evs & Htr & Hall).
  exists evs. split; [rewrite Htr, Hty; reflexivity|].
  intros m Hm.
  destruct (C05_every_record_sent (cs (cl x)) msgs reqs Hreqs m Hm) as (host & Hfb & Hin).
  destruct (msgs_for_host _ _ _ _ _ Hin) as (tps & Htps).
  assert (Htps' : In (host, tps) (reorder (hd [] (hostq (bump_corr x))) reqs)).
  { eapply Permutation_in; [apply Permutation_sym; apply C05_reorder_harmless|exact Htps]. }
  destruct (Hall host tps Htps') as (bs & Hbs & Hw).
  rewrite Hey, Hcy in Hbs. change (env (bump_corr x)) with (env x) in Hbs.
  change (cfg (cl (bump_corr x))) with (cfg (cl x)) in Hbs. rewrite Hcomp in Hbs.
  destruct (C05Extra2.C05_wire_exactly_once_plain (env x) (cs (cl x)) msgs reqs host tps acks t corr
              (client_id (cfg (cl x))) bs Hreqs Htps Hfit Hlen Hacks Ht Hcorr (Hsize host tps bs Htps Hbs) Hbs)
    as (wtps & Hparse & _ & Hsets & Hex).
  destruct (Hex m Hm Hfb) as (wps & setbytes & Hw1 & Hw2).
  destruct (Hsets _ _ Hw1) as (_ & Hset). destruct (Hset _ _ Hw2) as (_ & Hsp).
  exists host, bs, wtps, wps, setbytes. repeat split; assumption.
Qed.

(* non-vacuity: the batch of the seed's demonstration on the layout of C05Extra.v (t/0 at b1, t/1 and u/0 at b2),
   present-but-empty keys and values among the records; the set parsed for t/0 at b1 has key Some [] for "a1" *)
Definition c05e_batch : list produce_message :=
  [ {| pq_topic := tag "t1"; pq_partition := 0; pq_key := None; pq_value := Some (tag "a0") |};
    {| pq_topic := tag "t1"; pq_partition := 0; pq_key := Some []; pq_value := Some (tag "a1") |};
    {| pq_topic := tag "t2"; pq_partition := 0; pq_key := Some (tag "k"); pq_value := Some [] |};
    {| pq_topic := tag "t1"; pq_partition := 2; pq_key := Some []; pq_value := Some [] |};
    {| pq_topic := tag "t2"; pq_partition := 0; pq_key := None; pq_value := None |} ].

Example C05_call_records_on_wire_ex :
  let x := c05_st1 in
  to_millis_i32 (1, 0) = Ok 1000 /\ in_i32 1000 /\ in_i16 1 /\ in_i32 (fst (next_correlation_id (cs (cl x))))
  /\ compression (cfg (cl x)) = COMPRESSION_NONE
  /\ Forall (fun m => C03Facts.fits (pmsg_of m) /\ in_i32 (pq_partition m)) c05e_batch
  /\ (exists reqs, produce_reqs (cs (cl x)) c05e_batch [] = Some reqs
        /\ msgs_for reqs (tag "h0:9092") (tag "t1") 0 = [(None, Some (tag "a0")); (Some [], Some (tag "a1"))]
        /\ msgs_for reqs (tag "h1:9092") (tag "t2") 0 = [(Some (tag "k"), Some []); (None, None)]
        /\ msgs_for reqs (tag "h1:9092") (tag "t1") 2 = [(Some [], Some [])]
        /\ (forall h tps bs, In (h, tps) reqs ->
              enc_produce_req (env x) (fst (next_correlation_id (cs (cl x)))) (client_id (cfg (cl x))) 1 1000
                              COMPRESSION_NONE tps = Ok bs -> ulen bs <= i32_max))
  /\ ulen c05e_batch <= i32_max
  /\ (exists v, fst (produce_messages 1 (1, 0) c05e_batch x) = Ok v).
Proof.
  cbv zeta. split; [reflexivity|]. split; [unfold in_i32; lia|]. split; [unfold in_i16; lia|].
  split; [vm_compute; split; discriminate|]. split; [reflexivity|].
  split; [repeat constructor; vm_compute; reflexivity || (intros; discriminate)|].
  split.
  { eexists. split; [vm_compute; reflexivity|]. split; [vm_compute; reflexivity|]. split; [vm_compute; reflexivity|].
    split; [vm_compute; reflexivity|].
    intros h tps bs [E|[E|[]]] Hb; injection E as <- <-; vm_compute in Hb; injection Hb as <-; vm_compute; discriminate. }
  split; [vm_compute; discriminate|].
  eexists. vm_compute. reflexivity.
Qed.

Check C05_records_injective.
Check C05_client_call_keeps_empty.
Check C05_producer_record_content.
Check C05_producer_never_empty.
Check C05_exchange_forward.
Check C05_call_forward.
Check C05_producer_forward.
Check C05_hosts_pooled_after.
Check C05_pooled_no_connect.
Check C05_call_then_call_forward.
Check C05_exchange_noack_forward.
Check C05_call_noack_forward.
Check C05_call_records_on_wire.

Print Assumptions C05_records_injective.
Print Assumptions C05_client_call_keeps_empty.
Print Assumptions C05_producer_record_content.
Print Assumptions C05_producer_never_empty.
Print Assumptions C05_exchange_forward.
Print Assumptions C05_call_forward.
Print Assumptions C05_producer_forward.
Print Assumptions C05_hosts_pooled_after.
Print Assumptions C05_pooled_no_connect.
Print Assumptions C05_call_then_call_forward.
Print Assumptions C05_exchange_noack_forward.
Print Assumptions C05_call_noack_forward.
Print Assumptions C05_call_records_on_wire.
