(* C10, additional theorems: clauses of the property that no theorem of Props/C10.v covers.

   1. METADATA  ("topic names, partition ids and leaders ... nothing attributed to another topic or
      partition"): what `update_metadata` makes of a decoded Metadata response, read back through
      `find_broker` / `partitions_for` (the table behind `topics()` and all request routing):
      C10_update_metadata_routing (model level), C10_metadata_routing (from the printed response).
      The leader printed for partition id k of topic t is what find_broker answers for (t, k), whatever
      the order in which the partitions were listed.
   2. THE CLIENT CALLS THEMSELVES ("results from several brokers are all included"):
      C10_list_offsets_all / C10_fetch_offsets_all are about `list_offsets` / `fetch_offsets` (not about the
      shared helper `offsets_exchange`), C10_list_offsets_wire / C10_fetch_offsets_wire state the result in
      terms of the printed responses; C10_fetch_topic_offsets_all; C10_produce_exchange_all,
      C10_fetch_exchange_all for the produce and fetch exchanges over several brokers.
   3. "none as -1": C10_get_offsets_none.
   4. FRAMING ("frame size read, then exactly that many bytes"): C10_frame_exact, C10_frame_decode.

   Reuses the refinement lemmas of Proofs.C06Facts (required, not imported: its names clash with
   Spec.RespGrammar) and the inversion lemmas of Proofs.NetFacts. *)
From Coq Require Import ZifyBool Sorting.Permutation.
From KV Require Import Base.Prelude Gen.ErrorCodes Gen.Consts Model.Codecs Model.Requests Model.Responses
                       Model.ClientState Model.Net Model.Client.
From KV Require Import Proofs.BytesFacts Spec.RespGrammar Proofs.C10Facts.
From KV Require Proofs.C06Facts Proofs.NetFacts.
From KV Require Base.Utf8.
Ltac Zify.zify_post_hook ::= Z.div_mod_to_equations.

(* ================================================================================== *)
(* 1. the client calls list_offsets / fetch_offsets                                   *)
(* ================================================================================== *)

Lemma mbind_ok' {A B} (m : M A) (f : A -> M B) s a s1 : m s = (Ok a, s1) -> mbind m f s = f a s1.
Proof. intros H. unfold mbind. rewrite H. reflexivity. Qed.

(* whatever the successive brokers answer (exchanges), the map returned by `list_offsets` holds for
   every topic all converted partitions of all answers, in the order received *)
Theorem C10_list_offsets_all : forall topics time s corr s0 reqs s1 resps s',
  next_corr s = (Ok corr, s0) ->
  ordered (offset_reqs (cs (cl s0)) topics time) s0 = (Ok reqs, s1) ->
  exchanges (enc_list_offsets_req corr (client_id (cfg (cl s0)))) dec_list_offsets_resp reqs s1 resps s' ->
  all_conv lop_to_offset (concat resps) ->
  exists m', list_offsets topics time s = (Ok m', s') /\
             forall t, lookup t m' = flat_map (occ lop_to_offset t) resps.
Proof.
  intros topics time s corr s0 reqs s1 resps s' Hc Ho Hex Hall.
  destruct (C10_offsets_exchange_all _ _ lop_to_offset lop_partition _ _ _ _ Hex Hall []) as [m' [Hm' Hl]].
  exists m'. split; [|intros t; rewrite Hl, lookup_nil; reflexivity].
  unfold list_offsets. rewrite (mbind_ok' _ _ _ _ _ Hc).
  unfold mbind at 1. unfold get_client at 1. rewrite (mbind_ok' _ _ _ _ _ Ho). exact Hm'.
Qed.

Theorem C10_fetch_offsets_all : forall topics time s corr s0 reqs s1 resps s',
  next_corr s = (Ok corr, s0) ->
  ordered (offset_reqs (cs (cl s0)) topics time) s0 = (Ok reqs, s1) ->
  exchanges (enc_offset_req corr (client_id (cfg (cl s0)))) dec_offset_resp reqs s1 resps s' ->
  all_conv to_offset (concat resps) ->
  exists m', fetch_offsets topics time s = (Ok m', s') /\
             forall t, lookup t m' = flat_map (occ to_offset t) resps.
Proof.
  intros topics time s corr s0 reqs s1 resps s' Hc Ho Hex Hall.
  destruct (C10_offsets_exchange_all _ _ to_offset por_partition _ _ _ _ Hex Hall []) as [m' [Hm' Hl]].
  exists m'. split; [|intros t; rewrite Hl, lookup_nil; reflexivity].
  unfold fetch_offsets. rewrite (mbind_ok' _ _ _ _ _ Hc).
  unfold mbind at 1. unfold get_client at 1. rewrite (mbind_ok' _ _ _ _ _ Ho). exact Hm'.
Qed.

(* the same in terms of what the brokers printed *)
Lemma occ_view {P Q V} (vp : P -> Q) (conv : Q -> V + Z) (f : P -> V) (ts : option (list (w_topic P))) t :
  (forall wt p, In wt (view_list ts) -> In p (view_list (wt_partitions wt)) -> conv (vp p) = inl (f p)) ->
  occ conv t (view_arr (view_topic vp) ts) = printed_vals f t ts.
Proof.
  intros H. unfold printed_vals. destruct ts as [l|]; [|reflexivity].
  cbn [view_arr view_list] in *. unfold occ. rewrite flat_map_concat_map, map_map, <- flat_map_concat_map.
  apply flat_map_ext_in'. intros wt Hwt. unfold view_topic. cbn [fst snd].
  destruct (bytes_eqb (view_str (wt_name wt)) t); [|reflexivity].
  specialize (H wt). destruct (wt_partitions wt) as [ps|]; [|reflexivity]. cbn [view_arr view_list] in *.
  apply conv_vals_map_ok. intros p Hp. apply H; assumption.
Qed.

Lemma all_conv_view {P Q V} (vp : P -> Q) (conv : Q -> V + Z) (f : P -> V) (rs : list (w_topics_resp P)) :
  (forall r wt p, In r rs -> In wt (view_list (wr_topics r)) -> In p (view_list (wt_partitions wt)) ->
                  conv (vp p) = inl (f p)) ->
  all_conv conv (concat (map (fun r => snd (view_topics_resp vp r)) rs)).
Proof.
  intros H t qs q Hin Hq. apply in_concat in Hin. destruct Hin as [tps [Htps Hin]].
  apply in_map_iff in Htps. destruct Htps as [r [Hr Hrin]]. subst tps.
  unfold view_topics_resp in Hin. cbn [snd] in Hin. specialize (H r).
  destruct (wr_topics r) as [l|]; [|destruct Hin]. cbn [view_arr view_list] in *.
  apply in_map_iff in Hin. destruct Hin as [wt [Hwt Hin]]. unfold view_topic in Hwt. inversion Hwt; subst; clear Hwt.
  specialize (H wt). destruct (wt_partitions wt) as [ps|]; [|destruct Hq]. cbn [view_arr view_list] in *.
  apply in_map_iff in Hq. destruct Hq as [p [Hp Hq]]. subst q. exists (f p). apply H; assumption.
Qed.

Lemma flat_map_map {A B C} (g : A -> B) (f : B -> list C) l : flat_map f (map g l) = flat_map (fun a => f (g a)) l.
Proof. induction l as [|a l IH]; [reflexivity|]. cbn [map flat_map]. rewrite IH. reflexivity. Qed.

Theorem C10_list_offsets_wire : forall topics time s corr s0 reqs s1 (rs : list (w_topics_resp w_list_offsets_part)) s',
  next_corr s = (Ok corr, s0) ->
  ordered (offset_reqs (cs (cl s0)) topics time) s0 = (Ok reqs, s1) ->
  exchanges (enc_list_offsets_req corr (client_id (cfg (cl s0)))) dec_list_offsets_resp reqs s1
            (map (fun r => snd (view_list_offsets r)) rs) s' ->
  (forall r wt p, In r rs -> In wt (view_list (wr_topics r)) -> In p (view_list (wt_partitions wt)) -> wl_error p = 0) ->
  exists m', list_offsets topics time s = (Ok m', s') /\
             forall t, lookup t m' =
                       flat_map (fun r => printed_vals (fun p => (wl_partition p, wl_offset p, wl_timestamp p)) t
                                                       (wr_topics r)) rs.
Proof.
  intros topics time s corr s0 reqs s1 rs s' Hc Ho Hex He.
  assert (Hconv : forall r wt p, In r rs -> In wt (view_list (wr_topics r)) -> In p (view_list (wt_partitions wt)) ->
                    lop_to_offset (view_list_offsets_part p) = inl (wl_partition p, wl_offset p, wl_timestamp p)).
  { intros r wt p Hr Hwt Hp. apply C10_lop_to_offset_ok. apply (He r wt p); assumption. }
  destruct (C10_list_offsets_all topics time s corr s0 reqs s1 _ s' Hc Ho Hex) as [m' [Hm' Hl]].
  { apply (all_conv_view view_list_offsets_part lop_to_offset _ rs Hconv). }
  exists m'. split; [exact Hm'|]. intros t. rewrite Hl, flat_map_map. apply flat_map_ext_in'. intros r Hr.
  unfold view_list_offsets, view_topics_resp. cbn [snd]. apply occ_view. intros wt p. apply (Hconv r wt p Hr).
Qed.

Theorem C10_fetch_offsets_wire : forall topics time s corr s0 reqs s1 (rs : list (w_topics_resp w_offsets_part)) s',
  next_corr s = (Ok corr, s0) ->
  ordered (offset_reqs (cs (cl s0)) topics time) s0 = (Ok reqs, s1) ->
  exchanges (enc_offset_req corr (client_id (cfg (cl s0)))) dec_offset_resp reqs s1
            (map (fun r => snd (view_offsets r)) rs) s' ->
  (forall r wt p, In r rs -> In wt (view_list (wr_topics r)) -> In p (view_list (wt_partitions wt)) -> wo_error p = 0) ->
  exists m', fetch_offsets topics time s = (Ok m', s') /\
             forall t, lookup t m' =
                       flat_map (fun r => printed_vals (fun p => (wo_partition p, hd (-1) (view_ints (wo_offsets p)))) t
                                                       (wr_topics r)) rs.
Proof.
  intros topics time s corr s0 reqs s1 rs s' Hc Ho Hex He.
  assert (Hconv : forall r wt p, In r rs -> In wt (view_list (wr_topics r)) -> In p (view_list (wt_partitions wt)) ->
                    to_offset (view_offsets_part p) = inl (wo_partition p, hd (-1) (view_ints (wo_offsets p)))).
  { intros r wt p Hr Hwt Hp. unfold to_offset, view_offsets_part. cbn [por_error por_partition por_offsets].
    rewrite (He r wt p Hr Hwt Hp). change (from_protocol 0) with (@None Z). cbv iota.
    destruct (view_ints (wo_offsets p)); reflexivity. }
  destruct (C10_fetch_offsets_all topics time s corr s0 reqs s1 _ s' Hc Ho Hex) as [m' [Hm' Hl]].
  { apply (all_conv_view view_offsets_part to_offset _ rs Hconv). }
  exists m'. split; [exact Hm'|]. intros t. rewrite Hl, flat_map_map. apply flat_map_ext_in'. intros r Hr.
  unfold view_offsets, view_topics_resp. cbn [snd]. apply occ_view. intros wt p. apply (Hconv r wt p Hr).
Qed.

(* fetch_topic_offsets: the topic's entry of the fetch_offsets map, unless it is empty *)
Theorem C10_fetch_topic_offsets_all : forall topic time s m s',
  fetch_offsets [topic] time s = (Ok m, s') -> lookup topic m <> [] ->
  fetch_topic_offsets topic time s = (Ok (lookup topic m), s').
Proof.
  intros topic time s m s' H Hne. unfold fetch_topic_offsets. rewrite (mbind_ok' _ _ _ _ _ H).
  unfold lookup in *. destruct (assoc_bytes topic m) as [[|x xs]|]; try contradiction. reflexivity.
Qed.

(* ================================================================================== *)
(* 2. metadata: what update_metadata makes of the decoded response                    *)
(* ================================================================================== *)
Module C6 := KV.Proofs.C06Facts.

Lemma last_topic_none tms t : (forall x, In x tms -> tm_topic x <> t) -> C6.last_topic tms t = None.
Proof.
  induction tms as [|tm tms IH]; intros H; cbn [C6.last_topic]; [reflexivity|].
  rewrite IH by (intros x Hx; apply H; right; exact Hx).
  destruct (bytes_eqb (tm_topic tm) t) eqn:E; [|reflexivity].
  apply bytes_eqb_eq in E. exfalso. apply (H tm); [left; reflexivity|exact E].
Qed.
Lemma last_topic_decomp pre tm post : (forall x, In x post -> tm_topic x <> tm_topic tm) ->
  C6.last_topic (pre ++ tm :: post) (tm_topic tm) = Some tm.
Proof.
  intros H. induction pre as [|a pre IH]; cbn [app C6.last_topic].
  - rewrite (last_topic_none post _ H), bytes_eqb_refl. reflexivity.
  - rewrite IH. reflexivity.
Qed.

Lemma last_broker_none bms n : (forall x, In x bms -> bm_node x <> n) -> C6.last_broker bms n = None.
Proof.
  induction bms as [|b bms IH]; intros H; cbn [C6.last_broker]; [reflexivity|].
  rewrite IH by (intros x Hx; apply H; right; exact Hx).
  destruct (bm_node b =? n) eqn:E; [|reflexivity].
  exfalso. apply (H b); [left; reflexivity|lia].
Qed.
Lemma last_broker_decomp pre b post : (forall x, In x post -> bm_node x <> bm_node b) ->
  C6.last_broker (pre ++ b :: post) (bm_node b) = Some b.
Proof.
  intros H. induction pre as [|a pre IH]; cbn [app C6.last_broker].
  - rewrite (last_broker_none post _ H), Z.eqb_refl. reflexivity.
  - rewrite IH. reflexivity.
Qed.

Lemma listed_leader_none pms i : (forall x, In x pms -> pm_id x <> i) -> C6.listed_leader pms i = None.
Proof.
  induction pms as [|pm pms IH]; intros H; cbn [C6.listed_leader]; [reflexivity|].
  rewrite IH by (intros x Hx; apply H; right; exact Hx).
  destruct (pm_id pm =? i) eqn:E; [|reflexivity].
  exfalso. apply (H pm); [left; reflexivity|lia].
Qed.
Lemma listed_leader_decomp pre pm post : (forall x, In x post -> pm_id x <> pm_id pm) ->
  C6.listed_leader (pre ++ pm :: post) (pm_id pm) = Some (pm_leader pm).
Proof.
  intros H. induction pre as [|a pre IH]; cbn [app C6.listed_leader].
  - rewrite (listed_leader_none post _ H), Z.eqb_refl. reflexivity.
  - rewrite IH. reflexivity.
Qed.

(* the topic fold of merge_code, read at one topic name *)
Lemma code_fold_other h tms : forall ts t, C6.last_topic tms t = None ->
  assoc_bytes t (fold_left (fun ts tm => C6.bset ts (tm_topic tm)
                                           (C6.code_vec h (assoc_bytes (tm_topic tm) ts) (tm_partitions tm))) tms ts)
  = assoc_bytes t ts.
Proof.
  induction tms as [|tm tms IH]; intros ts t H; cbn [fold_left]; [reflexivity|].
  cbn [C6.last_topic] in H. destruct (C6.last_topic tms t) eqn:E; [discriminate|].
  destruct (bytes_eqb (tm_topic tm) t) eqn:Eb; [discriminate|].
  rewrite IH by exact E. rewrite C6.assoc_bytes_bset, Eb. reflexivity.
Qed.
Lemma code_fold_lookup h tms : forall ts t tm, C6.last_topic tms t = Some tm ->
  exists old,
  assoc_bytes t (fold_left (fun ts tm => C6.bset ts (tm_topic tm)
                                           (C6.code_vec h (assoc_bytes (tm_topic tm) ts) (tm_partitions tm))) tms ts)
  = Some (C6.code_vec h old (tm_partitions tm)).
Proof.
  induction tms as [|a tms IH]; intros ts t tm H; cbn [C6.last_topic] in H; [discriminate|]. cbn [fold_left].
  destruct (C6.last_topic tms t) as [x|] eqn:E.
  - injection H as ->. apply IH. exact E.
  - destruct (bytes_eqb (tm_topic a) t) eqn:Eb; [|discriminate]. injection H as ->.
    exists (assoc_bytes (tm_topic tm) ts). rewrite code_fold_other by exact E.
    rewrite C6.assoc_bytes_bset, Eb. reflexivity.
Qed.

Lemma code_vec_length h old pms : length (C6.code_vec h old pms) = length pms.
Proof. unfold C6.code_vec. rewrite C6.sync_opt_length, C6.resize_length. reflexivity. Qed.

Lemma code_vec_nth_z h old pms k l : 0 <= k < ulen pms -> C6.listed_leader pms k = Some l ->
  nth_z (C6.code_vec h old pms) k = Some (C6.known_leader h l).
Proof.
  intros Hk Hl. unfold nth_z.
  replace (ulen (C6.code_vec h old pms)) with (ulen pms) by (unfold ulen; rewrite code_vec_length; reflexivity).
  destruct ((k <? 0) || (ulen pms <=? k)) eqn:E; [lia|].
  unfold C6.code_vec. rewrite C6.sync_opt_nth by (rewrite C6.resize_length; unfold ulen in Hk; lia).
  rewrite Z2Nat.id by lia. rewrite Hl. reflexivity.
Qed.

(* MODEL LEVEL.  After update_metadata, for the LAST topic entry named t of the response and every in-range
   partition id k it lists (the last listing of k counts): find_broker (t, k) is the address of the broker
   whose node id is the leader listed for k -- the last broker entry of the response with that id, else the
   broker with that id the client already knew, else None -- and t has exactly as many slots as the response
   lists partitions.  No assumption on the order in which partitions are listed. *)
Theorem C10_update_metadata_routing : forall s md s' t tm k l,
  C6.inv s -> ulen (brokers s) + ulen (md_brokers md) <= UNKNOWN_BROKER_INDEX ->
  update_metadata s md = Ok s' ->
  C6.last_topic (md_topics md) t = Some tm ->
  0 <= k < ulen (tm_partitions tm) ->
  C6.listed_leader (tm_partitions tm) k = Some l ->
  find_broker s' t k = match C6.last_broker (md_brokers md) l with
                       | Some m => Some (host_port (bm_host m) (bm_port m))
                       | None => assoc_z l (map C6.bpair (brokers s))
                       end
  /\ option_map (@length Z) (partitions_for s' t) = Some (length (tm_partitions tm)).
Proof.
  intros s md s' t tm k l Hinv Hsz Hupd Hlt Hk Hl.
  pose proof (C6.C06_inv_step s md s' Hinv Hupd) as Hinv'.
  pose proof (C6.small_step s md s' Hinv Hsz Hupd) as Hsm.
  pose proof (C6.C06_refines_code s md s' Hinv Hsm Hupd) as Habs.
  remember (C6.merge_hosts (C6.a_host (C6.abs s)) (md_brokers md)) as h eqn:Hh.
  destruct (code_fold_lookup h (md_topics md) (C6.a_topics (C6.abs s)) t tm Hlt) as [old Hold].
  assert (Htop : assoc_bytes t (C6.a_topics (C6.abs s')) = Some (C6.code_vec h old (tm_partitions tm))).
  { rewrite Habs. unfold C6.merge_code. cbn [C6.a_topics]. rewrite <- Hh. exact Hold. }
  assert (Hhost : C6.a_host (C6.abs s') = h). { rewrite Habs, Hh. reflexivity. }
  split.
  - rewrite (C6.C06_routing s' t k Hinv'), Htop, (code_vec_nth_z h old _ k l Hk Hl), Hhost.
    pose proof (C6.C06_merge_host_lookup (C6.abs s) md l) as Hm. unfold C6.merge in Hm. cbn [C6.a_host] in Hm.
    rewrite <- Hh in Hm. change (C6.a_host (C6.abs s)) with (map C6.bpair (brokers s)) in Hm.
    rewrite <- Hm. unfold C6.known_leader, C6.known.
    destruct (assoc_z l h) as [x|] eqn:E; [exact E|reflexivity].
  - unfold C6.abs in Htop. cbn [C6.a_topics] in Htop. unfold C6.abs_tps in Htop.
    rewrite (C6.assoc_bytes_map (map (C6.ref_node (brokers s')))) in Htop. unfold partitions_for.
    destruct (assoc_bytes t (topic_partitions s')) as [ps|]; cbn [option_map] in *; [|discriminate].
    injection Htop as Htop. f_equal. rewrite <- (map_length (C6.ref_node (brokers s')) ps), Htop.
    apply code_vec_length.
Qed.

Lemma view_arr_list {A B} (v : A -> B) xs : view_arr v xs = map v (view_list xs).
Proof. destruct xs; reflexivity. Qed.

(* WIRE LEVEL.  From the response a broker printed (any well-formed one: any counts, null names/arrays, any
   listing order) to what the client then answers.  t is the last topic entry with its name, p the last
   partition entry of t with its id, the id being one of 0..N-1 (N = number of partitions printed for t).
   - the client knows N partitions of t;
   - if b is the last printed broker with node id = p's leader, (t, id p) is routed to b's "host:port";
   - if no printed broker has that node id, to the broker with that id known before (None if there is none:
     leader -1 / unknown). *)
Theorem C10_metadata_routing : forall (r : w_metadata) (rest : bytes) (s : cstate),
  wf_metadata r -> C6.inv s ->
  ulen (brokers s) + ulen (view_list (wm_brokers r)) <= UNKNOWN_BROKER_INDEX ->
  exists s',
    dec_metadata_resp (print_metadata r ++ rest) = Ok (view_metadata r, rest) /\
    update_metadata s (view_metadata r) = Ok s' /\
    forall tpre t tpost ppre p ppost,
      view_list (wm_topics r) = tpre ++ t :: tpost ->
      (forall t', In t' tpost -> view_str (wtm_name t') <> view_str (wtm_name t)) ->
      view_list (wtm_partitions t) = ppre ++ p :: ppost ->
      (forall p', In p' ppost -> wpm_id p' <> wpm_id p) ->
      0 <= wpm_id p < ulen (view_list (wtm_partitions t)) ->
      option_map (@length Z) (partitions_for s' (view_str (wtm_name t)))
        = Some (length (view_list (wtm_partitions t))) /\
      (forall bpre b bpost,
          view_list (wm_brokers r) = bpre ++ b :: bpost -> wb_node b = wpm_leader p ->
          (forall b', In b' bpost -> wb_node b' <> wpm_leader p) ->
          find_broker s' (view_str (wtm_name t)) (wpm_id p)
            = Some (host_port (view_str (wb_host b)) (wb_port b))) /\
      ((forall b, In b (view_list (wm_brokers r)) -> wb_node b <> wpm_leader p) ->
          find_broker s' (view_str (wtm_name t)) (wpm_id p)
            = assoc_z (wpm_leader p) (map C6.bpair (brokers s))).
Proof.
  intros r rest s Hwf Hinv Hsz. destruct (C6.C06_update_total s (view_metadata r)) as [s' Hs'].
  exists s'. split; [apply C10_metadata_decode; exact Hwf|]. split; [exact Hs'|].
  intros tpre t tpost ppre p ppost Ht Htl Hp Hpl Hid.
  assert (Hsz' : ulen (brokers s) + ulen (md_brokers (view_metadata r)) <= UNKNOWN_BROKER_INDEX).
  { cbn [view_metadata md_brokers]. rewrite view_arr_list. unfold ulen in *. rewrite map_length. exact Hsz. }
  assert (Hlt : C6.last_topic (md_topics (view_metadata r)) (view_str (wtm_name t)) = Some (view_topic_md t)).
  { cbn [view_metadata md_topics]. rewrite view_arr_list, Ht, map_app. cbn [map].
    apply (last_topic_decomp (map view_topic_md tpre) (view_topic_md t) (map view_topic_md tpost)).
    intros x Hx. apply in_map_iff in Hx. destruct Hx as [t' [<- Hin]]. apply (Htl t' Hin). }
  assert (Hparts : tm_partitions (view_topic_md t) = map view_partition_md (view_list (wtm_partitions t))).
  { cbn [view_topic_md tm_partitions]. apply view_arr_list. }
  assert (Hk : 0 <= wpm_id p < ulen (tm_partitions (view_topic_md t))).
  { rewrite Hparts. unfold ulen in *. rewrite map_length. exact Hid. }
  assert (Hll : C6.listed_leader (tm_partitions (view_topic_md t)) (wpm_id p) = Some (wpm_leader p)).
  { rewrite Hparts, Hp, map_app. cbn [map].
    apply (listed_leader_decomp (map view_partition_md ppre) (view_partition_md p) (map view_partition_md ppost)).
    intros x Hx. apply in_map_iff in Hx. destruct Hx as [p' [<- Hin]]. apply (Hpl p' Hin). }
  destruct (C10_update_metadata_routing s (view_metadata r) s' _ _ _ _ Hinv Hsz' Hs' Hlt Hk Hll) as [Hfb Hn].
  split; [|split].
  - rewrite Hn, Hparts, map_length. reflexivity.
  - intros bpre b bpost Hb Hnode Hbl. rewrite Hfb. cbn [view_metadata md_brokers].
    rewrite view_arr_list, Hb, map_app. cbn [map]. rewrite <- Hnode.
    change (wb_node b) with (bm_node (view_broker b)).
    rewrite (last_broker_decomp (map view_broker bpre) (view_broker b) (map view_broker bpost)); [reflexivity|].
    intros x Hx. apply in_map_iff in Hx. destruct Hx as [b' [<- Hin]]. cbn [view_broker bm_node].
    rewrite Hnode. apply (Hbl b' Hin).
  - intros Hnone. rewrite Hfb. cbn [view_metadata md_brokers]. rewrite view_arr_list.
    rewrite last_broker_none; [reflexivity|].
    intros x Hx. apply in_map_iff in Hx. destruct Hx as [b' [<- Hin]]. apply (Hnone b' Hin).
Qed.

(* non-vacuity: the response of the seeded demonstration.  Brokers 1,2,3; topic "tee" whose partitions are
   listed as (id 2 -> leader 3), (id 0 -> leader 1), (id 1 -> leader 2); plus a leaderless partition 3
   (leader -1) and a topic listed twice. *)
Definition ex_wpm (id leader : Z) : w_partition_md :=
  {| wpm_error := 0; wpm_id := id; wpm_leader := leader; wpm_replicas := Some [leader]; wpm_isr := None |}.
Definition ex_md_ooo : w_metadata :=
  {| wm_corr := 7;
     wm_brokers := Some [ {| wb_node := 1; wb_host := Some [x61]; wb_port := 9092 |};
                          {| wb_node := 2; wb_host := Some [x62]; wb_port := 9093 |};
                          {| wb_node := 3; wb_host := Some [x63]; wb_port := 9094 |} ];
     wm_topics := Some [ {| wtm_error := 0; wtm_name := Some [x75]; wtm_partitions := Some [ex_wpm 0 3] |};
                         {| wtm_error := 0; wtm_name := Some [x74];
                            wtm_partitions := Some [ex_wpm 2 3; ex_wpm 0 1; ex_wpm 1 2; ex_wpm 3 (-1)] |};
                         {| wtm_error := 0; wtm_name := Some [x75]; wtm_partitions := Some [ex_wpm 0 2] |} ] |}.
Example ex_md_ooo_wf : wf_metadata ex_md_ooo.
Proof. unfold ex_md_ooo, ex_wpm, wf_metadata, wf_array, wf_broker, wf_topic_md, wf_partition_md, wf_string, wf_array,
         in_i16, in_i32; cbn [wm_corr wm_brokers wm_topics]. wf_compute. Qed.
Example ex_md_ooo_hyps :
  C6.inv cstate_new /\ ulen (brokers cstate_new) + ulen (view_list (wm_brokers ex_md_ooo)) <= UNKNOWN_BROKER_INDEX.
Proof. split; [apply C6.C06_inv_init|vm_compute; discriminate]. Qed.
Example ex_md_ooo_routing :
  let s' := C6.ex_load cstate_new (view_metadata ex_md_ooo) in
  update_metadata cstate_new (view_metadata ex_md_ooo) = Ok s' /\
  find_broker s' [x74] 2 = Some (host_port [x63] 9094) /\
  find_broker s' [x74] 0 = Some (host_port [x61] 9092) /\
  find_broker s' [x74] 1 = Some (host_port [x62] 9093) /\
  find_broker s' [x74] 3 = None /\
  find_broker s' [x75] 0 = Some (host_port [x62] 9093) /\          (* the later entry for "u" wins *)
  option_map (@length Z) (partitions_for s' [x74]) = Some 4%nat.
Proof. vm_compute. repeat split; reflexivity. Qed.
(* the instance of the theorem for partition id 2 (listed first) of topic "t" *)
Example ex_md_ooo_instance : forall s',
  update_metadata cstate_new (view_metadata ex_md_ooo) = Ok s' ->
  find_broker s' [x74] 2 = Some (host_port [x63] 9094).
Proof.
  intros s' Hs'.
  destruct (C10_metadata_routing ex_md_ooo [] cstate_new ex_md_ooo_wf (proj1 ex_md_ooo_hyps) (proj2 ex_md_ooo_hyps))
    as [s'' [_ [Hs'' H]]].
  rewrite Hs' in Hs''. injection Hs'' as <-.
  destruct (H [ {| wtm_error := 0; wtm_name := Some [x75]; wtm_partitions := Some [ex_wpm 0 3] |} ]
              {| wtm_error := 0; wtm_name := Some [x74];
                 wtm_partitions := Some [ex_wpm 2 3; ex_wpm 0 1; ex_wpm 1 2; ex_wpm 3 (-1)] |}
              [ {| wtm_error := 0; wtm_name := Some [x75]; wtm_partitions := Some [ex_wpm 0 2] |} ]
              [] (ex_wpm 2 3) [ex_wpm 0 1; ex_wpm 1 2; ex_wpm 3 (-1)]) as [_ [Hb _]].
  - reflexivity.
  - intros t' [<-|[]]. cbn. discriminate.
  - reflexivity.
  - intros p' [<-|[<-|[<-|[]]]]; cbn; lia.
  - unfold ulen. cbn. lia.
  - apply (Hb [ {| wb_node := 1; wb_host := Some [x61]; wb_port := 9092 |};
               {| wb_node := 2; wb_host := Some [x62]; wb_port := 9093 |} ]
              {| wb_node := 3; wb_host := Some [x63]; wb_port := 9094 |} []); [reflexivity|reflexivity|].
    intros b' [].
Qed.

(* ---- non-vacuity of C10_list_offsets_all / _wire: topic "t" of ex_md_ooo is led by three brokers; each
        answers for its own partition over a scripted network ---- *)
Definition ex_lo_resp (part off ts : Z) : w_topics_resp w_list_offsets_part :=
  {| wr_corr := 1;
     wr_topics := Some [ {| wt_name := Some [x74];
                            wt_partitions := Some [ {| wl_partition := part; wl_error := 0; wl_timestamp := ts;
                                                       wl_offset := off |} ] |} ] |}.
Definition ex_lo_rs : list (w_topics_resp w_list_offsets_part) :=
  [ex_lo_resp 0 10 1000; ex_lo_resp 1 11 1001; ex_lo_resp 2 12 1002].
Definition ex_lo_st : st :=
  {| script := flat_map (fun r => ex_script (print_list_offsets r)) ex_lo_rs;
     trace := []; anyq := []; hostq := []; fetchq := []; entryq := [];
     cl := {| cfg := default_config []; cs := C6.ex_load cstate_new (view_metadata ex_md_ooo); conns := [] |};
     env := ex_codecs |}.
Example ex_list_offsets_all : exists corr s0 reqs s1 s',
  next_corr ex_lo_st = (Ok corr, s0) /\
  ordered (offset_reqs (cs (cl s0)) [[x74]] (-1)) s0 = (Ok reqs, s1) /\
  exchanges (enc_list_offsets_req corr (client_id (cfg (cl s0)))) dec_list_offsets_resp reqs s1
            (map (fun r => snd (view_list_offsets r)) ex_lo_rs) s' /\
  (forall r wt p, In r ex_lo_rs -> In wt (view_list (wr_topics r)) -> In p (view_list (wt_partitions wt)) ->
                  wl_error p = 0) /\
  length reqs = 3%nat /\
  fst (list_offsets [[x74]] (-1) ex_lo_st) = Ok [ ([x74], [ (0, 10, 1000); (1, 11, 1001); (2, 12, 1002) ]) ].
Proof.
  do 5 eexists. split; [vm_compute; reflexivity|]. split; [vm_compute; reflexivity|]. split; [|split; [|split]].
  - eapply exch_cons; [vm_compute; reflexivity|].
    eapply exch_cons; [vm_compute; reflexivity|].
    eapply exch_cons; [vm_compute; reflexivity|]. apply exch_nil.
  - intros r wt p [<-|[<-|[<-|[]]]] [<-|[]] [<-|[]]; reflexivity.
  - reflexivity.
  - vm_compute. reflexivity.
Qed.

(* ================================================================================== *)
(* 3. "committed group offsets (with 'none' as -1)"                                   *)
(* ================================================================================== *)
Theorem C10_get_offsets_none : forall p : w_offset_fetch_part,
  wof_error p = 3 -> get_offsets (view_offset_fetch_part p) = inl (wof_partition p, -1).
Proof.
  intros p H. unfold get_offsets, view_offset_fetch_part. cbn [ofp_error ofp_partition ofp_offset].
  rewrite H. reflexivity.
Qed.
Example ex_get_offsets_none :
  wof_error {| wof_partition := 4; wof_offset := 77; wof_metadata := None; wof_error := 3 |} = 3 /\
  get_offsets (view_offset_fetch_part {| wof_partition := 4; wof_offset := 77; wof_metadata := None; wof_error := 3 |})
  = inl (4, -1).
Proof. split; vm_compute; reflexivity. Qed.

(* ================================================================================== *)
(* 4. produce and fetch over several brokers                                           *)
(* ================================================================================== *)

(* the successive produce exchanges, each with the request the client builds for that host *)
Inductive pexchanges (corr acks timeout : Z)
  : list (bytes * produce_tps) -> st -> list (list (bytes * list produce_part)) -> st -> Prop :=
| pexch_nil s : pexchanges corr acks timeout [] s [] s
| pexch_cons h tps reqs s c rtps s1 resps s2 :
    send_receive dec_produce_resp h
      (enc_produce_req (env s) corr (client_id (cfg (cl s))) acks timeout (compression (cfg (cl s))) tps) s
      = (Ok (c, rtps), s1) ->
    pexchanges corr acks timeout reqs s1 resps s2 ->
    pexchanges corr acks timeout ((h, tps) :: reqs) s (rtps :: resps) s2.

Theorem C10_produce_exchange_all : forall corr acks timeout reqs s resps s',
  acks <> 0 -> pexchanges corr acks timeout reqs s resps s' ->
  forall acc, produce_exchange corr acks timeout reqs acc s = (Ok (acc ++ flat_map confirms_of resps), s').
Proof.
  intros corr acks timeout reqs s resps s' Ha Hex.
  induction Hex as [s|h tps reqs s c rtps s1 resps s2 Hsr _ IH]; intros acc.
  - cbn [produce_exchange flat_map]. destruct (acks =? 0) eqn:E; [lia|]. rewrite app_nil_r. reflexivity.
  - rewrite produce_exchange_step by exact Ha.
    unfold mbind at 1. unfold get_client at 1. unfold mbind at 1. unfold get_env at 1.
    rewrite (mbind_ok' _ _ _ _ _ Hsr). rewrite IH. cbn [flat_map]. rewrite app_assoc. reflexivity.
Qed.

(* produce_messages itself: the confirmations of every broker's response, in the order of the exchanges *)
Theorem C10_produce_messages_all : forall acks ack_timeout msgs s t corr s0 reqs0 reqs s1 resps s',
  acks <> 0 ->
  to_millis_i32 ack_timeout = Ok t ->
  next_corr s = (Ok corr, s0) ->
  produce_reqs (cs (cl s0)) msgs [] = Some reqs0 ->
  ordered reqs0 s0 = (Ok reqs, s1) ->
  pexchanges corr acks t reqs s1 resps s' ->
  produce_messages acks ack_timeout msgs s = (Ok (flat_map confirms_of resps), s').
Proof.
  intros acks ack_timeout msgs s t corr s0 reqs0 reqs s1 resps s' Ha Ht Hc Hr Ho Hex.
  unfold produce_messages. unfold mbind at 1. unfold lift at 1. rewrite Ht.
  unfold internal_produce_messages. rewrite (mbind_ok' _ _ _ _ _ Hc).
  unfold mbind at 1. unfold get_client at 1. rewrite Hr. rewrite (mbind_ok' _ _ _ _ _ Ho).
  apply (C10_produce_exchange_all corr acks t reqs s1 resps s' Ha Hex []).
Qed.

(* one host of fetch_exchange *)
Definition fetch_one (corr : Z) (h : bytes) (tps : fetch_tps) : M fetch_resp :=
  let+ c := get_client in
  let+ e := get_env in
  let+ fo := get_fetch_order h in
  let tps' := match fo with Some o => order_fetch o tps | None => tps end in
  let+ _ := get_conn h in
  let+ _ := send_request h (enc_fetch_req corr (client_id (cfg c)) (fetch_max_wait_time (cfg c))
                                          (fetch_min_bytes (cfg c)) tps') in
  let+ b := get_response_bytes h in
  lift (fetch_from_vec e decode_depth (fetch_crc_validation (cfg c)) tps b).

Lemma fetch_exchange_step corr h tps r acc s :
  fetch_exchange corr ((h, tps) :: r) acc s =
  mbind (fetch_one corr h tps) (fun resp => fetch_exchange corr r (acc ++ [resp])) s.
Proof.
  cbn [fetch_exchange]. unfold fetch_one, mbind, get_client, get_env, get_fetch_order, lift.
  destruct (get_conn h s) as [[u|e|w] s1]; try reflexivity.
  destruct (send_request h _ s1) as [[z|e|w] s2]; try reflexivity.
  destruct (get_response_bytes h s2) as [[b|e|w] s3]; try reflexivity.
Qed.

Inductive fexchanges (corr : Z) : list (bytes * fetch_tps) -> st -> list fetch_resp -> st -> Prop :=
| fexch_nil s : fexchanges corr [] s [] s
| fexch_cons h tps reqs s resp s1 resps s2 :
    fetch_one corr h tps s = (Ok resp, s1) ->
    fexchanges corr reqs s1 resps s2 ->
    fexchanges corr ((h, tps) :: reqs) s (resp :: resps) s2.

Theorem C10_fetch_exchange_all : forall corr reqs s resps s',
  fexchanges corr reqs s resps s' ->
  forall acc, fetch_exchange corr reqs acc s = (Ok (acc ++ resps), s').
Proof.
  intros corr reqs s resps s' Hex. induction Hex as [s|h tps reqs s resp s1 resps s2 H1 _ IH]; intros acc.
  - cbn [fetch_exchange]. rewrite app_nil_r. reflexivity.
  - rewrite fetch_exchange_step, (mbind_ok' _ _ _ _ _ H1), IH, <- app_assoc. reflexivity.
Qed.

(* fetch_messages itself: one decoded response per broker asked, all of them, in the order asked *)
Theorem C10_fetch_messages_all : forall input s corr s0 reqs s1 resps s',
  next_corr s = (Ok corr, s0) ->
  ordered (fetch_reqs (cl s0) input) s0 = (Ok reqs, s1) ->
  fexchanges corr reqs s1 resps s' ->
  fetch_messages input s = (Ok resps, s').
Proof.
  intros input s corr s0 reqs s1 resps s' Hc Ho Hex.
  unfold fetch_messages. rewrite (mbind_ok' _ _ _ _ _ Hc).
  unfold mbind at 1. unfold get_client at 1. rewrite (mbind_ok' _ _ _ _ _ Ho).
  apply (C10_fetch_exchange_all corr reqs s1 resps s' Hex []).
Qed.

(* ---- non-vacuity: produce to, and fetch from, partitions 0 and 1 of "t" (brokers a and b) ---- *)
Definition ex_pr_resp (part off : Z) : w_topics_resp w_produce_part :=
  {| wr_corr := 1;
     wr_topics := Some [ {| wt_name := Some [x74];
                            wt_partitions := Some [ {| wpr_partition := part; wpr_error := 0; wpr_offset := off |} ] |} ] |}.
Definition ex_pr_st : st :=
  {| script := ex_script (print_produce (ex_pr_resp 0 5)) ++ ex_script (print_produce (ex_pr_resp 1 6));
     trace := []; anyq := []; hostq := []; fetchq := []; entryq := [];
     cl := {| cfg := default_config []; cs := C6.ex_load cstate_new (view_metadata ex_md_ooo); conns := [] |};
     env := ex_codecs |}.
Definition ex_pr_msgs : list produce_message :=
  [ {| pq_topic := [x74]; pq_partition := 0; pq_key := None; pq_value := Some [x01] |};
    {| pq_topic := [x74]; pq_partition := 1; pq_key := Some [x02]; pq_value := None |} ].
Example ex_produce_messages_all : exists t corr s0 reqs0 reqs s1 s',
  to_millis_i32 (1, 0) = Ok t /\
  next_corr ex_pr_st = (Ok corr, s0) /\
  produce_reqs (cs (cl s0)) ex_pr_msgs [] = Some reqs0 /\
  ordered reqs0 s0 = (Ok reqs, s1) /\
  pexchanges corr 1 t reqs s1 [snd (view_produce (ex_pr_resp 0 5)); snd (view_produce (ex_pr_resp 1 6))] s' /\
  fst (produce_messages 1 (1, 0) ex_pr_msgs ex_pr_st) = Ok [ ([x74], [(0, inl 5)]); ([x74], [(1, inl 6)]) ].
Proof.
  do 7 eexists. split; [vm_compute; reflexivity|]. split; [vm_compute; reflexivity|].
  split; [vm_compute; reflexivity|]. split; [vm_compute; reflexivity|]. split.
  - eapply pexch_cons; [vm_compute; reflexivity|].
    eapply pexch_cons; [vm_compute; reflexivity|]. apply pexch_nil.
  - vm_compute. reflexivity.
Qed.

Definition ex_fe_resp (part hw : Z) : w_topics_resp w_fetch_part :=
  {| wr_corr := 1;
     wr_topics := Some [ {| wt_name := Some [x74];
                            wt_partitions := Some [ {| wfe_partition := part; wfe_error := 0; wfe_highwater := hw;
                                                       wfe_message_set := [] |} ] |} ] |}.
Definition ex_fe_st : st :=
  {| script := ex_script (print_fetch (ex_fe_resp 0 50)) ++ ex_script (print_fetch (ex_fe_resp 1 60));
     trace := []; anyq := []; hostq := []; fetchq := []; entryq := [];
     cl := {| cfg := default_config []; cs := C6.ex_load cstate_new (view_metadata ex_md_ooo); conns := [] |};
     env := ex_codecs |}.
Definition ex_fe_input : list fetch_partition :=
  [ {| fq_topic := [x74]; fq_partition := 0; fq_offset := 0; fq_max_bytes := 0 |};
    {| fq_topic := [x74]; fq_partition := 1; fq_offset := 0; fq_max_bytes := 0 |} ].
Example ex_fetch_messages_all : exists corr s0 reqs s1 s',
  next_corr ex_fe_st = (Ok corr, s0) /\
  ordered (fetch_reqs (cl s0) ex_fe_input) s0 = (Ok reqs, s1) /\
  fexchanges corr reqs s1 [view_fetch (ex_fe_resp 0 50); view_fetch (ex_fe_resp 1 60)] s' /\
  fst (fetch_messages ex_fe_input ex_fe_st) = Ok [view_fetch (ex_fe_resp 0 50); view_fetch (ex_fe_resp 1 60)].
Proof.
  do 5 eexists. split; [vm_compute; reflexivity|]. split; [vm_compute; reflexivity|]. split.
  - eapply fexch_cons; [vm_compute; reflexivity|].
    eapply fexch_cons; [vm_compute; reflexivity|]. apply fexch_nil.
  - vm_compute. reflexivity.
Qed.

(* ================================================================================== *)
(* 5. framing: "frame size read, then exactly that many bytes"                        *)
(* ================================================================================== *)
Module NF := KV.Proofs.NetFacts.

(* whatever way the stream chops the bytes into reads (short reads, interruptions), as long as no read returns
   more than asked: a get_response that succeeds consumed exactly a 4-byte size b0 and then exactly be_dec_s b0
   bytes b, and its value is the decoding of b -- nothing of what follows in the stream is touched *)
Theorem C10_frame_exact : forall A (d : dec A) h s a s',
  get_response d h s = (Ok a, s') -> NF.reads_bounded s s' ->
  exists b0 b rest,
    script s = NF.consumed s s' ++ script s' /\
    NF.payloads (NF.consumed s s') = b0 ++ b /\ ulen b0 = 4 /\ ulen b = be_dec_s b0 /\ d b = Ok (a, rest).
Proof.
  intros A d h s a s' H Hb.
  destruct (NF.get_response_inv d h s _ s' H) as [[b [Hbytes Hr]]|[e [_ Hr]]]; [|discriminate].
  destruct (NF.get_response_bytes_ok h s b s' Hbytes) as (ops & outs & b0 & Hseg & Hreads & _ & _ & _ & Hex).
  unfold NF.reads_bounded in Hb. rewrite (NF.seg_consumed _ _ _ _ Hseg), (NF.seg_performed _ _ _ _ Hseg) in Hb.
  destruct (Hex Hb) as [H4 Hlen].
  destruct (d b) as [[a' rest]|e|w] eqn:Ed; inversion Hr; subst.
  exists b0, b, rest. rewrite (NF.seg_consumed _ _ _ _ Hseg).
  destruct Hreads as (_ & _ & _ & Hp). destruct Hseg as [Hs _]. repeat split; assumption.
Qed.

Lemma app_inj_len {A} : forall (a a' x y : list A), length a = length a' -> a ++ x = a' ++ y -> a = a' /\ x = y.
Proof.
  induction a as [|u a IH]; intros [|u' a'] x y Hl H; cbn [length app] in *; try discriminate.
  - auto.
  - injection H as -> H. injection Hl as Hl. destruct (IH a' x y Hl H) as [-> ->]. auto.
Qed.

Lemma be_dec_p_i32 z : in_i32 z -> be_dec_s (p_i32 z) = z.
Proof.
  intros H. pose proof (dec_i32_print z [] H) as D. unfold dec_i32 in D.
  rewrite cread_app in D by apply p_i32_length. cbn [bind] in D. injection D as D. exact D.
Qed.

(* with the decode theorems: if the stream carries  size ++ payload ++ extra  where the payload is one the
   decoder d reads back as v (C10_*_decode give exactly this hypothesis for printed responses), a successful
   get_response returns v and leaves precisely `extra` in the stream *)
Theorem C10_frame_decode : forall A (d : dec A) (payload extra : bytes) (v : A) h s a s',
  (forall rest, d (payload ++ rest) = Ok (v, rest)) ->
  ulen payload <= 2147483647 ->
  NF.payloads (script s) = p_i32 (ulen payload) ++ payload ++ extra ->
  get_response d h s = (Ok a, s') -> NF.reads_bounded s s' ->
  a = v /\ NF.payloads (script s') = extra.
Proof.
  intros A d payload extra v h s a s' Hd Hmax Hstream H Hb.
  destruct (C10_frame_exact A d h s a s' H Hb) as (b0 & b & rest & Hs & Hp & H4 & Hlen & Hdb).
  rewrite Hs, NF.payloads_app, Hp, <- app_assoc in Hstream.
  apply app_inj_len in Hstream; [|rewrite p_i32_length; unfold ulen in H4; lia].
  destruct Hstream as [-> Htail].
  rewrite be_dec_p_i32 in Hlen by (unfold in_i32; unfold ulen in *; lia).
  apply app_inj_len in Htail; [|unfold ulen in Hlen; lia]. destruct Htail as [-> Htail].
  rewrite <- (app_nil_r payload), Hd in Hdb. injection Hdb as <- _. split; [reflexivity|exact Htail].
Qed.

(* non-vacuity: a ListOffsets response arriving in pieces (2 bytes, an interrupted read, 2 bytes, 10 bytes, the
   rest), followed in the stream by the first byte of the next frame *)
Definition ex_fr_payload : bytes := print_list_offsets (ex_lo_resp 0 10 1000).
Definition ex_fr_st : st :=
  {| script := [ OData (firstn 2 (p_i32 (ulen ex_fr_payload))); OReadIntr;
                 OData (skipn 2 (p_i32 (ulen ex_fr_payload)));
                 OData (firstn 10 ex_fr_payload); OData (skipn 10 ex_fr_payload); OData [x09] ];
     trace := []; anyq := []; hostq := []; fetchq := []; entryq := [];
     cl := client_new []; env := ex_codecs |}.
Example ex_frame_decode :
  let rs := get_response dec_list_offsets_resp [x61] ex_fr_st in
  NF.payloads (script ex_fr_st) = p_i32 (ulen ex_fr_payload) ++ ex_fr_payload ++ [x09] /\
  fst rs = Ok (view_list_offsets (ex_lo_resp 0 10 1000)) /\
  NF.reads_bounded ex_fr_st (snd rs) /\
  NF.payloads (script (snd rs)) = [x09].
Proof.
  cbv zeta. split; [vm_compute; reflexivity|]. split; [vm_compute; reflexivity|]. split; [|vm_compute; reflexivity].
  unfold NF.reads_bounded. vm_compute.
  repeat (constructor; [first [exact I|discriminate]|]). constructor.
Qed.

(* ================================================================================== *)
(* 6. "any counts": the decode theorems of Props/C10.v instantiated beyond 1024       *)
(* ================================================================================== *)
(* (the pre-allocation of Vec<V>::decode is capped at 1024 elements; the element loop is not) *)
Definition ex_big_commit : w_topics_resp w_offset_commit_part :=
  {| wr_corr := 3;
     wr_topics := Some (repeat {| wt_name := Some [x74];
                                  wt_partitions := Some [ {| wcm_partition := 1; wcm_error := 0 |} ] |} 1025) |}.
Example ex_big_commit_wf : wf_offset_commit ex_big_commit.
Proof.
  split; [vm_compute; split; discriminate|]. cbn [ex_big_commit wr_topics wf_array]. split.
  - apply Forall_forall. intros x Hx. apply repeat_spec in Hx. subst x.
    unfold wf_topic, wf_string, wf_array, wf_offset_commit_part, in_i32, in_i16. cbn [wt_name wt_partitions].
    wf_compute.
  - rewrite repeat_length. vm_compute. reflexivity.
Qed.
Example ex_big_commit_decode :
  dec_offset_commit_resp (print_offset_commit ex_big_commit ++ [x07]) = Ok (view_offset_commit ex_big_commit, [x07])
  /\ length (snd (view_offset_commit ex_big_commit)) = 1025%nat.
Proof. split; [apply C10_offset_commit_decode, ex_big_commit_wf|vm_compute; reflexivity]. Qed.

(* a topic with 1025 partitions FOLLOWED by another topic (the de-synchronising form) *)
Definition ex_big_md : w_metadata :=
  {| wm_corr := 4; wm_brokers := Some [ {| wb_node := 1; wb_host := Some [x61]; wb_port := 9092 |} ];
     wm_topics := Some [ {| wtm_error := 0; wtm_name := Some [x77]; wtm_partitions := Some (repeat (ex_wpm 0 1) 1025) |};
                         {| wtm_error := 0; wtm_name := Some [x74]; wtm_partitions := Some [ex_wpm 0 1] |} ] |}.
Example ex_big_md_wf : wf_metadata ex_big_md.
Proof.
  split; [vm_compute; split; discriminate|]. split.
  - unfold ex_big_md, wf_array, wf_broker, wf_string, in_i32. cbn [wm_brokers]. wf_compute.
  - cbn [ex_big_md wm_topics wf_array]. split; [|vm_compute; reflexivity].
    constructor; [|constructor; [|constructor]].
    + split; [vm_compute; split; discriminate|]. split; [vm_compute; split; [reflexivity|discriminate]|].
      cbn [wtm_partitions wf_array]. split; [|rewrite repeat_length; vm_compute; reflexivity].
      apply Forall_forall. intros x Hx. apply repeat_spec in Hx. subst x.
      unfold ex_wpm, wf_partition_md, wf_array, in_i16, in_i32. cbn [wpm_error wpm_id wpm_leader wpm_replicas wpm_isr].
      wf_compute.
    + unfold ex_wpm, wf_topic_md, wf_partition_md, wf_string, wf_array, in_i16, in_i32.
      cbn [wtm_error wtm_name wtm_partitions]. wf_compute.
Qed.
Example ex_big_md_decode :
  dec_metadata_resp (print_metadata ex_big_md) = Ok (view_metadata ex_big_md, [])
  /\ map (fun tm => (tm_topic tm, length (tm_partitions tm))) (md_topics (view_metadata ex_big_md))
     = [ ([x77], 1025%nat); ([x74], 1%nat) ].
Proof.
  split; [|vm_compute; reflexivity].
  rewrite <- (app_nil_r (print_metadata ex_big_md)). apply C10_metadata_decode, ex_big_md_wf.
Qed.

(* ================================================================================== *)
(* 7. group offsets: the retry loop when the coordinator answers without error codes   *)
(* ================================================================================== *)
Theorem C10_group_fetch_loop_answer : forall f group req attempt s h s0 c tps s',
  get_group_coordinator group s = (Ok h, s0) ->
  send_receive dec_offset_fetch_resp h req s0 = (Ok (c, tps), s') ->
  all_conv get_offsets tps ->
  exists m, group_fetch_loop (S f) group req attempt s = (Ok m, s') /\
            forall t, lookup t m = last_vals get_offsets t tps [].
Proof.
  intros f group req attempt s h s0 c tps s' Hg Hsr Hall.
  destruct (C10_group_scan_last tps [] Hall) as [m [Hm Hl]]. exists m. split; [|exact Hl].
  cbn [group_fetch_loop]. rewrite (mbind_ok' _ _ _ _ _ Hg), (mbind_ok' _ _ _ _ _ Hsr), Hm. reflexivity.
Qed.
(* non-vacuity: coordinator already cached, one OffsetFetch answer with a committed offset and a "none" *)
Definition ex_gf_resp : w_topics_resp w_offset_fetch_part :=
  {| wr_corr := 1;
     wr_topics := Some [ {| wt_name := Some [x74];
                            wt_partitions := Some [ {| wof_partition := 0; wof_offset := 42; wof_metadata := None; wof_error := 0 |};
                                                    {| wof_partition := 1; wof_offset := -1; wof_metadata := Some []; wof_error := 3 |} ] |} ] |}.
Definition ex_gf_st : st :=
  {| script := ex_script (print_offset_fetch ex_gf_resp);
     trace := []; anyq := []; hostq := []; fetchq := []; entryq := [];
     cl := {| cfg := default_config [];
              cs := snd (set_group_coordinator (C6.ex_load cstate_new (view_metadata ex_md_ooo)) [x67]
                           {| gc_corr := 0; gc_error := 0; gc_broker := 2; gc_host := [x62]; gc_port := 9093 |});
              conns := [] |};
     env := ex_codecs |}.
Example ex_group_fetch_loop_answer : exists h s0 s',
  get_group_coordinator [x67] ex_gf_st = (Ok h, s0) /\
  send_receive dec_offset_fetch_resp h (enc_offset_fetch_req 1 [] [x67] 1 [([x74], [0; 1])]) s0
    = (Ok (view_offset_fetch ex_gf_resp), s') /\
  all_conv get_offsets (snd (view_offset_fetch ex_gf_resp)) /\
  fst (group_fetch_loop 1 [x67] (enc_offset_fetch_req 1 [] [x67] 1 [([x74], [0; 1])]) 1 ex_gf_st)
    = Ok [ ([x74], [ (0, 42); (1, -1) ]) ].
Proof.
  do 3 eexists. split; [vm_compute; reflexivity|]. split; [vm_compute; reflexivity|]. split; [|vm_compute; reflexivity].
  intros t ps p Hin Hp. cbn in Hin. destruct Hin as [Hin|[]]. inversion Hin; subst; clear Hin.
  destruct Hp as [<-|[<-|[]]]; eexists; vm_compute; reflexivity.
Qed.

(* non-vacuity of C10_fetch_topic_offsets_all (and of C10_fetch_offsets_wire): three brokers answer Offsets v0 *)
Definition ex_fo_resp (part off : Z) : w_topics_resp w_offsets_part :=
  {| wr_corr := 1;
     wr_topics := Some [ {| wt_name := Some [x74];
                            wt_partitions := Some [ {| wo_partition := part; wo_error := 0; wo_offsets := Some [off; 0] |} ] |} ] |}.
Definition ex_fo_st : st :=
  {| script := flat_map (fun r => ex_script (print_offsets r)) [ex_fo_resp 0 10; ex_fo_resp 1 11; ex_fo_resp 2 12];
     trace := []; anyq := []; hostq := []; fetchq := []; entryq := [];
     cl := {| cfg := default_config []; cs := C6.ex_load cstate_new (view_metadata ex_md_ooo); conns := [] |};
     env := ex_codecs |}.
Example ex_fetch_topic_offsets_all : exists m s',
  fetch_offsets [[x74]] (-1) ex_fo_st = (Ok m, s') /\ lookup [x74] m <> [] /\
  fst (fetch_topic_offsets [x74] (-1) ex_fo_st) = Ok [ (0, 10); (1, 11); (2, 12) ].
Proof.
  do 2 eexists. split; [vm_compute; reflexivity|]. split; [vm_compute; discriminate|vm_compute; reflexivity].
Qed.

(* ================================================================================== *)
Print Assumptions C10_list_offsets_all.
Print Assumptions C10_fetch_offsets_all.
Print Assumptions C10_list_offsets_wire.
Print Assumptions C10_fetch_offsets_wire.
Print Assumptions C10_fetch_topic_offsets_all.
Print Assumptions C10_update_metadata_routing.
Print Assumptions C10_metadata_routing.
Print Assumptions C10_get_offsets_none.
Print Assumptions C10_produce_exchange_all.
Print Assumptions C10_produce_messages_all.
Print Assumptions C10_fetch_exchange_all.
Print Assumptions C10_fetch_messages_all.
Print Assumptions C10_frame_exact.
Print Assumptions C10_frame_decode.
Print Assumptions C10_group_fetch_loop_answer.
