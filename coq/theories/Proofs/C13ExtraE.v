(* C13, fourth adequacy pass (round-seven seed C13-7).

   Seed C13-7: after a failed exchange (I/O error, truncated reply, a count field too large, ... - the
   bytes the client REJECTS with Err) __send_receive / __z_send_receive drop the host's connection from
   the pool (new Connections::discard_conn).  The call that receives the bad bytes still returns the
   same Err; a LATER group call (coordinator not cached) finds the pool empty and panics in
   __get_group_coordinator: `get_conn_any(now).expect("available connection")`.

   Mirrored in the model (scratch copy /tmp/pw/C13/mut7: Net.send_receive and the inlined exchange
   of Client.fetch_exchange wrapped in `discard_on_err h`, which removes h from `conns` and shuts it
   down when the exchange returned Err) NO theorem of Props/C13.v becomes false:
   - the decoder / message-set / frame theorems do not mention the pool;
   - the panic classifications (C13_group_ops_panics, C13_commit_consumed_panics,
     C13_consumer_create_panics, C13_group_lookup_outside_known and its variants) ALLOW the word
     "available connection" for the group calls in every state - they say which panics exist, not
     when; the mutation adds no new panic word, no out-of-fuel and changes no returned error;
   - the only scripts that stop compiling (NetFacts.keepsR_send_receive, C13Facts.mnp_send_receive:
     unification with the new shape of send_receive) prove statements that stay true.
   What was missing is the clause "a call that fails as it should leaves a client on which the NEXT
   call returns as well": a statement over HISTORIES of calls about the one piece of state the
   `expect` relies on.  (Props/C15.v has it for the metadata calls and for a group call on a
   non-empty pool - C15_pool_kept_metadata, C15_group_calls_return, whose second conjunct "the pool is
   non-empty afterwards" is in fact falsified by the mutation - but nothing in Props/C13.v, and
   nothing anywhere for the by-host calls fetch_offsets / list_offsets / fetch_messages /
   produce_messages, the Consumer and Producer layers, or sequences of calls.)

   Part 1  the pool only grows: every public call, whatever its outcome (Ok, Err, Panic) and whatever
           the streams do, keeps the configuration and leaves the pool equal to the old pool with
           hosts appended (pool_ext; C13_pool_kept_call), hence so does every history of calls
           (C13_pool_kept_history).  On the mutated model the negation is proved with a concrete
           witness (mut7/w/Witness.v: fetch_offsets answered by a frame cut short returns
           Err(UnexpectedEof) and the pool [h:1] becomes []).
   Part 2  a successful load_metadata / load_metadata_all leaves a pooled connection to one of the
           bootstrap hosts (C13_load_leaves_connection) - the assumption spelled out in the comment
           above `expect("available connection")`.
   Part 3  the seed's history, for all inputs: on a client with a pooled connection (or: after one
           successful metadata load on ANY client, even with an empty pool), after ANY sequence of
           public calls with ANY outcomes - in particular calls that failed on rejected bytes - every
           group call RETURNS (Ok or Err) and Consumer::commit_consumed panics at most with the known
           debug-build overflow (C13_group_call_after_any_history, C13_group_call_after_load_and_history);
           no call of such a history panics with "available connection" (C13_history_no_missing_connection).
           On the mutated model: Witness.mutant_breaks (load -> failed fetch_offsets -> group call panics).
   Part 4  converse / exactness: a by-host exchange with a host that is already pooled leaves the pool
           EXACTLY as it was, whatever the outcome (C13_exchange_pooled_host_pool_unchanged); the
           group calls panic ONLY IF the pool is empty or idle-expired at that moment - stated for the
           state the failing lookup ran in (C13_group_call_panic_only_if_no_connection). *)
From Coq Require Import ZifyBool.
From KV Require Import Base.Prelude Gen.Consts Model.Codecs Model.Requests Model.Responses
                       Model.ClientState Model.Net Model.Client Model.Producer Model.Consumer.
From KV Require Import Proofs.BytesFacts Proofs.NetFacts Proofs.C13Decode Proofs.C13Facts Proofs.C13Extra
                       Proofs.C13ExtraC.
From KV Require Proofs.C15ExtraC.

(* ================================================================================== *)
(* Part 1. the pool only grows                                                        *)
(* ================================================================================== *)

(* the configuration stays; the pool afterwards is the pool before with hosts appended *)
Definition pool_ext (s s' : st) : Prop :=
  cfg (cl s') = cfg (cl s) /\ exists extra, conns (cl s') = conns (cl s) ++ extra.

Lemma preorder_pool_ext : preorder pool_ext.
Proof.
  split.
  - intros s. split; [reflexivity|exists []; symmetry; apply app_nil_r].
  - intros s s1 s2 [A1 [x1 A2]] [B1 [x2 B2]]. split; [congruence|].
    exists (x1 ++ x2). rewrite B2, A2, app_assoc. reflexivity.
Qed.
Lemma same_cl_pool_ext s s' : cl s' = cl s -> pool_ext s s'.
Proof. intros H. unfold pool_ext. rewrite H. split; [reflexivity|exists []; symmetry; apply app_nil_r]. Qed.
Lemma pool_ext_poolR s s' : pool_ext s s' -> C15ExtraC.poolR s s'.
Proof. intros [A [x B]]. split; [exact A|]. rewrite B. apply incl_appl, incl_refl. Qed.
Lemma pool_ext_ok s s' : C15ExtraC.pool_ok s -> pool_ext s s' -> C15ExtraC.pool_ok s'.
Proof. intros H R. eapply C15ExtraC.poolR_ok; [exact H|apply pool_ext_poolR, R]. Qed.

Lemma px_ret {A} (a : A) : keeps pool_ext (ret a). Proof. apply keeps_ret, preorder_pool_ext. Qed.
Lemma px_fail {A} e : keeps pool_ext (@fail A e). Proof. apply keeps_fail, preorder_pool_ext. Qed.
Lemma px_mpanic {A} w : keeps pool_ext (@mpanic A w). Proof. apply keeps_mpanic, preorder_pool_ext. Qed.
Lemma px_lift {A} (x : res A) : keeps pool_ext (lift x). Proof. apply keeps_lift, preorder_pool_ext. Qed.
Lemma px_get_client : keeps pool_ext get_client. Proof. apply keeps_get_client, preorder_pool_ext. Qed.
Lemma px_get_env : keeps pool_ext get_env. Proof. apply keeps_get_env, preorder_pool_ext. Qed.
Lemma px_get_fetch_order h : keeps pool_ext (get_fetch_order h).
Proof. apply keeps_get_fetch_order, preorder_pool_ext. Qed.
Lemma px_same_cl {A} (m : M A) : keeps same_cl m -> keeps pool_ext m.
Proof. intros H s r s' E. apply same_cl_pool_ext. exact (H _ _ _ E). Qed.
Lemma px_same_but_io {A} (m : M A) : keeps same_but_io m -> keeps pool_ext m.
Proof. intros H s r s' E. apply same_cl_pool_ext. destruct (H _ _ _ E) as (_ & _ & _ & _ & Hc & _). exact Hc. Qed.

Lemma px_get_conn h : keeps pool_ext (get_conn h).
Proof.
  intros s r s' H. split.
  - destruct (frame_get_conn _ _ _ _ H) as (_ & _ & _ & _ & _ & Hc & _). exact Hc.
  - destruct (get_conn_pool _ _ _ _ H) as [->|[_ ->]];
      [exists []; symmetry; apply app_nil_r|exists [h]; reflexivity].
Qed.
Lemma px_send_request h p : keeps pool_ext (send_request h p).
Proof. apply px_same_but_io. intros s r s' H. exact (frame_send_request _ _ _ _ _ H). Qed.
Lemma px_get_response_bytes h : keeps pool_ext (get_response_bytes h).
Proof. apply px_same_but_io. intros s r s' H. exact (frame_get_response_bytes _ _ _ _ H). Qed.
Lemma px_get_response {A} (d : dec A) h : keeps pool_ext (get_response d h).
Proof. apply px_same_but_io. intros s r s' H. exact (frame_get_response _ _ _ _ _ _ H). Qed.
Lemma px_send_receive {A} (d : dec A) h p : keeps pool_ext (send_receive d h p).
Proof.
  unfold send_receive. apply keeps_bind; [apply preorder_pool_ext|apply px_get_conn|]. intros _.
  apply keeps_bind; [apply preorder_pool_ext|apply px_send_request|]. intros _. apply px_get_response.
Qed.
Lemma px_set_cs x : keeps pool_ext (set_cs x).
Proof.
  intros s r s' H. unfold set_cs, mbind, get_client, set_client in H. inversion H; subst.
  split; [reflexivity|exists []; symmetry; apply app_nil_r].
Qed.
Lemma px_next_corr : keeps pool_ext next_corr.
Proof.
  unfold next_corr. apply keeps_bind; [apply preorder_pool_ext|apply px_get_client|]. intros c.
  destruct (next_correlation_id (cs c)) as [n x].
  apply keeps_bind; [apply preorder_pool_ext|apply px_set_cs|]. intros _. apply px_ret.
Qed.
Lemma px_get_conn_any : keeps pool_ext get_conn_any.
Proof. apply px_same_cl, frame_get_conn_any. Qed.
Lemma px_pop_hosts : keeps pool_ext pop_hosts.
Proof.
  intros s r s' H. apply same_cl_pool_ext. unfold pop_hosts in H.
  destruct (hostq s); inversion H; reflexivity.
Qed.
Lemma px_pop_entries : keeps pool_ext pop_entries.
Proof.
  intros s r s' H. apply same_cl_pool_ext. unfold pop_entries in H.
  destruct (entryq s); inversion H; reflexivity.
Qed.
Lemma px_ordered {V} (reqs : list (bytes * V)) : keeps pool_ext (ordered reqs).
Proof.
  unfold ordered. destruct reqs; [apply px_ret|].
  apply keeps_bind; [apply preorder_pool_ext|apply px_pop_hosts|]. intros o. apply px_ret.
Qed.

Create HintDb px discriminated.
#[export] Hint Resolve px_ret px_fail px_mpanic px_lift px_get_client px_get_env px_get_fetch_order
  px_get_conn px_send_request px_get_response_bytes px_get_response px_send_receive px_set_cs
  px_next_corr px_get_conn_any px_pop_hosts px_pop_entries px_ordered : px.

Ltac px_step :=
  first
    [ solve [eauto with px]
    | apply keeps_bind; [exact preorder_pool_ext| |intros ?]
    | apply keeps_with_fuel; intros ?
    | apply keeps_mtry
    | match goal with
      | |- keeps _ (match ?x with _ => _ end) => destruct x
      | |- keeps _ (if ?b then _ else _) => destruct b
      | |- keeps _ (let '(_, _) := ?x in _) => destruct x
      end
    | progress cbv zeta ].
Ltac px_tac := repeat px_step.

(* ---- metadata ------------------------------------------------------------------------ *)
Lemma px_metadata_hosts corr topics : forall hs, keeps pool_ext (fetch_metadata_hosts corr topics hs).
Proof.
  induction hs as [|h rest IH]; cbn [fetch_metadata_hosts]; [apply px_fail|]. px_tac.
Qed.
Lemma px_fetch_metadata topics : keeps pool_ext (fetch_metadata topics).
Proof. unfold fetch_metadata. px_tac. apply px_metadata_hosts. Qed.
Lemma px_load_metadata topics : keeps pool_ext (load_metadata topics).
Proof.
  unfold load_metadata. apply keeps_bind; [exact preorder_pool_ext|apply px_fetch_metadata|]. intros md. px_tac.
Qed.
Lemma px_load_metadata_all : keeps pool_ext load_metadata_all.
Proof.
  unfold load_metadata_all, reset_metadata.
  apply keeps_bind; [exact preorder_pool_ext| |intros _; apply px_load_metadata]. px_tac.
Qed.

(* ---- the by-host calls ----------------------------------------------------------------- *)
Lemma px_offsets_exchange {P V} enc (d : dec (Z * list (bytes * list P))) (conv : P -> V + Z) pid :
  forall reqs m, keeps pool_ext (offsets_exchange enc d conv pid reqs m).
Proof.
  induction reqs as [|[h tps] r IH]; intros m; cbn [offsets_exchange]; [apply px_ret|]. px_tac.
Qed.
Lemma px_fetch_offsets topics time : keeps pool_ext (fetch_offsets topics time).
Proof. unfold fetch_offsets. px_tac. apply px_offsets_exchange. Qed.
Lemma px_list_offsets topics time : keeps pool_ext (list_offsets topics time).
Proof. unfold list_offsets. px_tac. apply px_offsets_exchange. Qed.
Lemma px_fetch_topic_offsets topic time : keeps pool_ext (fetch_topic_offsets topic time).
Proof.
  unfold fetch_topic_offsets. apply keeps_bind; [exact preorder_pool_ext|apply px_fetch_offsets|]. intros m. px_tac.
Qed.
Lemma px_fetch_exchange corr : forall reqs acc, keeps pool_ext (fetch_exchange corr reqs acc).
Proof.
  induction reqs as [|[h tps] r IH]; intros acc; cbn [fetch_exchange]; [apply px_ret|]. px_tac.
Qed.
Lemma px_fetch_messages input : keeps pool_ext (fetch_messages input).
Proof. unfold fetch_messages. px_tac. apply px_fetch_exchange. Qed.
Lemma px_produce_exchange corr acks timeout : forall reqs acc, keeps pool_ext (produce_exchange corr acks timeout reqs acc).
Proof.
  induction reqs as [|[h tps] r IH]; intros acc; cbn [produce_exchange]; [apply px_ret|]. px_tac.
Qed.
Lemma px_internal_produce_messages acks timeout msgs : keeps pool_ext (internal_produce_messages acks timeout msgs).
Proof. unfold internal_produce_messages. px_tac. apply px_produce_exchange. Qed.
Lemma px_produce_messages acks t msgs : keeps pool_ext (produce_messages acks t msgs).
Proof.
  unfold produce_messages. apply keeps_bind; [exact preorder_pool_ext|apply px_lift|]. intros x.
  apply px_internal_produce_messages.
Qed.

(* ---- the group calls ---------------------------------------------------------------------- *)
Lemma px_lookup_attempt req : keeps pool_ext (group_lookup_attempt req).
Proof. unfold group_lookup_attempt. px_tac. Qed.
Lemma px_lookup_loop group req : forall fuel attempt, keeps pool_ext (group_lookup_loop fuel group req attempt).
Proof.
  induction fuel as [|f IH]; intros attempt; cbn [group_lookup_loop]; [apply px_fail|].
  apply keeps_bind; [exact preorder_pool_ext|apply px_lookup_attempt|]. intros r. px_tac.
Qed.
Lemma px_get_group_coordinator group : keeps pool_ext (get_group_coordinator group).
Proof. unfold get_group_coordinator. px_tac. apply px_lookup_loop. Qed.
Lemma px_commit_loop group req : forall fuel attempt, keeps pool_ext (commit_loop fuel group req attempt).
Proof.
  induction fuel as [|f IH]; intros attempt; cbn [commit_loop]; [apply px_fail|].
  apply keeps_bind; [exact preorder_pool_ext|apply px_get_group_coordinator|]. intros h. px_tac.
Qed.
Lemma px_group_fetch_loop group req : forall fuel attempt, keeps pool_ext (group_fetch_loop fuel group req attempt).
Proof.
  induction fuel as [|f IH]; intros attempt; cbn [group_fetch_loop]; [apply px_fail|].
  apply keeps_bind; [exact preorder_pool_ext|apply px_get_group_coordinator|]. intros h. px_tac.
Qed.
Lemma px_commit_offsets group os : keeps pool_ext (commit_offsets group os).
Proof. unfold commit_offsets. px_tac. apply px_commit_loop. Qed.
Lemma px_fetch_group_offsets group ps : keeps pool_ext (fetch_group_offsets group ps).
Proof. unfold fetch_group_offsets. px_tac. apply px_group_fetch_loop. Qed.
Lemma px_fetch_group_topic_offset group topic : keeps pool_ext (fetch_group_topic_offset group topic).
Proof. unfold fetch_group_topic_offset. px_tac. apply px_group_fetch_loop. Qed.

(* ---- Consumer and Producer ---------------------------------------------------------------- *)
Lemma px_consumer_fetch k : keeps pool_ext (consumer_fetch k).
Proof.
  unfold consumer_fetch. destruct (k_retry k) as [|tp rest].
  - apply keeps_bind; [exact preorder_pool_ext|apply keeps_mtry, px_fetch_messages|]. intros r. apply px_ret.
  - destruct (tk_get tp (k_fetch k)) as [[off maxb]|]; [|apply px_ret].
    apply keeps_bind; [exact preorder_pool_ext|apply keeps_mtry, px_fetch_messages|]. intros r. apply px_ret.
Qed.
Lemma px_consumer_poll k : keeps pool_ext (consumer_poll k).
Proof.
  unfold consumer_poll. apply keeps_bind; [exact preorder_pool_ext|apply px_consumer_fetch|].
  intros [[n r] k']. px_tac.
Qed.
Lemma px_commit_consumed k : keeps pool_ext (commit_consumed k).
Proof.
  unfold commit_consumed. destruct (k_group k) as [|g0 g]; [apply px_fail|].
  apply keeps_bind; [exact preorder_pool_ext|apply px_get_env|]. intros e.
  apply keeps_bind; [exact preorder_pool_ext|destruct (dirty_entries k); [apply px_ret|apply px_pop_entries]|].
  intros order. apply keeps_bind; [exact preorder_pool_ext|apply px_lift|]. intros os.
  apply keeps_bind; [exact preorder_pool_ext|apply px_commit_offsets|]. intros _. px_tac.
Qed.
Lemma px_producer_send_all p recs : keeps pool_ext (producer_send_all p recs).
Proof.
  unfold producer_send_all. apply keeps_bind; [exact preorder_pool_ext|apply px_next_corr|]. intros corr.
  apply keeps_bind; [exact preorder_pool_ext|apply px_get_client|]. intros c.
  destruct (send_all_reqs (cs c) (p_parts p) (p_cntr p) recs []) as [[reqs|] cntr'].
  - apply keeps_bind; [exact preorder_pool_ext|apply px_ordered|]. intros reqs'.
    apply keeps_bind; [exact preorder_pool_ext|apply px_produce_exchange|]. intros cf. apply px_ret.
  - exact (px_fail (EKafka KC_UnknownTopicOrPartition)).
Qed.
Lemma px_producer_send p r : keeps pool_ext (producer_send p r).
Proof.
  unfold producer_send. apply keeps_bind; [exact preorder_pool_ext|apply px_producer_send_all|].
  intros [cf p']. px_tac.
Qed.

(* ---- the public calls as data: histories ---------------------------------------------------- *)
Inductive kcall :=
| KLoad (topics : list bytes)
| KLoadAll
| KFetchOffsets (topics : list bytes) (time : Z)
| KListOffsets (topics : list bytes) (time : Z)
| KFetchTopicOffsets (topic : bytes) (time : Z)
| KFetchMessages (input : list fetch_partition)
| KProduce (acks : Z) (timeout : Z * Z) (msgs : list produce_message)
| KCommit (group : bytes) (os : list commit_offset)
| KGroupOffsets (group : bytes) (ps : list (bytes * Z))
| KGroupTopicOffset (group topic : bytes)
| KPoll (k : consumer)
| KCommitConsumed (k : consumer)
| KSendAll (p : producer) (recs : list record)
| KSend (p : producer) (r : record).

(* how a call ended; the value itself is dropped *)
Inductive outcome := Returned | Failed (e : err) | Panicked (w : bytes).
Definition forget {A} (x : res A * st) : outcome * st :=
  (match fst x with Ok _ => Returned | Err e => Failed e | Panic w => Panicked w end, snd x).

Definition kcall_run (c : kcall) (s : st) : outcome * st :=
  match c with
  | KLoad topics => forget (load_metadata topics s)
  | KLoadAll => forget (load_metadata_all s)
  | KFetchOffsets topics time => forget (fetch_offsets topics time s)
  | KListOffsets topics time => forget (list_offsets topics time s)
  | KFetchTopicOffsets topic time => forget (fetch_topic_offsets topic time s)
  | KFetchMessages input => forget (fetch_messages input s)
  | KProduce acks t msgs => forget (produce_messages acks t msgs s)
  | KCommit g os => forget (commit_offsets g os s)
  | KGroupOffsets g ps => forget (fetch_group_offsets g ps s)
  | KGroupTopicOffset g t => forget (fetch_group_topic_offset g t s)
  | KPoll k => forget (consumer_poll k s)
  | KCommitConsumed k => forget (commit_consumed k s)
  | KSendAll p recs => forget (producer_send_all p recs s)
  | KSend p r => forget (producer_send p r s)
  end.

(* the state after a sequence of calls, whatever their outcomes *)
Definition run_history (calls : list kcall) (s : st) : st :=
  fold_left (fun s c => snd (kcall_run c s)) calls s.

Lemma keeps_forget {A} (m : M A) s : keeps pool_ext m -> pool_ext s (snd (forget (m s))).
Proof. intros H. unfold forget. cbn [snd]. eapply H. apply surjective_pairing. Qed.

(* Every public call, with any outcome: the configuration is kept and the pool afterwards is the
   pool before plus appended hosts - no connection is ever taken out (seed C13-7). *)
Theorem C13_pool_kept_call : forall c s,
  cfg (cl (snd (kcall_run c s))) = cfg (cl s)
  /\ exists extra, conns (cl (snd (kcall_run c s))) = conns (cl s) ++ extra.
Proof.
  intros c s. change (pool_ext s (snd (kcall_run c s))).
  destruct c; cbn [kcall_run]; apply keeps_forget.
  - apply px_load_metadata.
  - apply px_load_metadata_all.
  - apply px_fetch_offsets.
  - apply px_list_offsets.
  - apply px_fetch_topic_offsets.
  - apply px_fetch_messages.
  - apply px_produce_messages.
  - apply px_commit_offsets.
  - apply px_fetch_group_offsets.
  - apply px_fetch_group_topic_offset.
  - apply px_consumer_poll.
  - apply px_commit_consumed.
  - apply px_producer_send_all.
  - apply px_producer_send.
Qed.

(* the same for any sequence of calls *)
Theorem C13_pool_kept_history : forall calls s,
  cfg (cl (run_history calls s)) = cfg (cl s)
  /\ exists extra, conns (cl (run_history calls s)) = conns (cl s) ++ extra.
Proof.
  intros calls s. change (pool_ext s (run_history calls s)). revert s.
  induction calls as [|c r IH]; intros s; [apply preorder_pool_ext|].
  unfold run_history. cbn [fold_left]. eapply (proj2 preorder_pool_ext); [|apply IH].
  exact (C13_pool_kept_call c s).
Qed.

(* the plain-function form for the by-host calls of the seed *)
Theorem C13_pool_kept_by_host_calls : forall s,
  (forall topics time, pool_ext s (snd (fetch_offsets topics time s)))
  /\ (forall topics time, pool_ext s (snd (list_offsets topics time s)))
  /\ (forall input, pool_ext s (snd (fetch_messages input s)))
  /\ (forall acks t msgs, pool_ext s (snd (produce_messages acks t msgs s)))
  /\ (forall A (d : dec A) h p, pool_ext s (snd (send_receive d h p s))).
Proof.
  intros s. repeat split.
  - eapply px_fetch_offsets, surjective_pairing.
  - eapply px_fetch_offsets, surjective_pairing.
  - eapply px_list_offsets, surjective_pairing.
  - eapply px_list_offsets, surjective_pairing.
  - eapply px_fetch_messages, surjective_pairing.
  - eapply px_fetch_messages, surjective_pairing.
  - eapply px_produce_messages, surjective_pairing.
  - eapply px_produce_messages, surjective_pairing.
  - eapply px_send_receive, surjective_pairing.
  - eapply px_send_receive, surjective_pairing.
Qed.

(* ================================================================================== *)
(* Part 2. a successful metadata load leaves a pooled connection                      *)
(* ================================================================================== *)
Lemma in_pool_app_self h l : in_pool h (l ++ [h]) = true.
Proof.
  unfold in_pool. rewrite existsb_app. cbn [existsb]. rewrite bytes_eqb_refl.
  destruct (existsb (bytes_eqb h) l); reflexivity.
Qed.
Lemma in_pool_nonempty h l : in_pool h l = true -> l <> [].
Proof. intros H E. subst l. discriminate H. Qed.

(* get_conn returned Ok: the host is pooled now *)
Lemma get_conn_ok_pooled h s u s' : get_conn h s = (Ok u, s') -> in_pool h (conns (cl s')) = true.
Proof.
  intros H. pose proof H as H0. unfold get_conn in H. unfold mbind at 1 in H. unfold get_client at 1 in H.
  cbv beta iota in H.
  destruct (in_pool h (conns (cl s))) eqn:Ein.
  - destruct (get_conn_pool _ _ _ _ H0) as [->|[E _]]; [exact Ein|congruence].
  - bind_inv H a s1 H1 H2; [|discriminate H2|discriminate H2].
    unfold set_conns, mbind, get_client, set_client in H2. inversion H2; subst. cbn [cl conns].
    apply in_pool_app_self.
Qed.

Lemma metadata_hosts_ok_pooled corr topics : forall hs s md s',
  fetch_metadata_hosts corr topics hs s = (Ok md, s') ->
  exists h, In h hs /\ in_pool h (conns (cl s')) = true.
Proof.
  induction hs as [|h rest IH]; intros s md s' H; cbn [fetch_metadata_hosts] in H; [inversion H|].
  unfold mbind at 1 in H. unfold get_client at 1 in H. cbv beta iota in H.
  bind_inv H rc s1 H1 H2; [|discriminate H2|discriminate H2].
  unfold mtry in H1. destruct (get_conn h s) as [[u|e|w] sa] eqn:Eg; inversion H1; subst.
  - bind_inv H2 rs s2 H3 H4; [|discriminate H4|discriminate H4].
    unfold mtry in H3.
    destruct (send_request h (enc_metadata_req corr (client_id (cfg (cl s))) topics) s1) as [[z|e|w] sb] eqn:Es;
      inversion H3; subst.
    + exists h. split; [left; reflexivity|].
      destruct (frame_get_response _ _ _ _ _ _ H4) as (_ & _ & _ & _ & Hc2 & _).
      destruct (frame_send_request _ _ _ _ _ Es) as (_ & _ & _ & _ & Hc1 & _).
      rewrite Hc2, Hc1. exact (get_conn_ok_pooled _ _ _ _ Eg).
    + destruct (IH _ _ _ H4) as [h0 [Hi Hp]]. exists h0. split; [right; exact Hi|exact Hp].
  - destruct (IH _ _ _ H2) as [h0 [Hi Hp]]. exists h0. split; [right; exact Hi|exact Hp].
Qed.

Lemma load_metadata_ok_pooled topics s s' : load_metadata topics s = (Ok tt, s') ->
  exists h, In h (hosts (cfg (cl s))) /\ in_pool h (conns (cl s')) = true.
Proof.
  intros H. unfold load_metadata in H. bind_inv H md s1 H1 H2; [|discriminate H2|discriminate H2].
  unfold fetch_metadata in H1. bind_inv H1 corr sa Ha Hb; [|discriminate Hb|discriminate Hb].
  unfold mbind at 1 in Hb. unfold get_client at 1 in Hb. cbv beta iota in Hb.
  destruct (metadata_hosts_ok_pooled _ _ _ _ _ _ Hb) as [h [Hi Hp]].
  destruct (px_next_corr _ _ _ Ha) as [Hc _].
  exists h. split; [rewrite <- Hc; exact Hi|].
  unfold mbind at 1 in H2. unfold get_client at 1 in H2. cbv beta iota in H2.
  bind_inv H2 x s2 H3 H4; [|discriminate H4|discriminate H4].
  unfold lift in H3. inversion H3; subst.
  unfold set_cs, mbind, get_client, set_client in H4. inversion H4; subst. cbn [cl conns]. exact Hp.
Qed.

(* Part 2, the statement: a metadata load that returned Ok leaves a pooled connection to one of the
   configured bootstrap hosts - on ANY client, also one whose pool was empty *)
Theorem C13_load_leaves_connection : forall topics s s',
  load_metadata topics s = (Ok tt, s') \/ load_metadata_all s = (Ok tt, s') ->
  (exists h, In h (hosts (cfg (cl s))) /\ in_pool h (conns (cl s')) = true) /\ conns (cl s') <> [].
Proof.
  intros topics s s' H.
  assert (K : exists h, In h (hosts (cfg (cl s))) /\ in_pool h (conns (cl s')) = true).
  { destruct H as [H|H]; [exact (load_metadata_ok_pooled _ _ _ H)|].
    unfold load_metadata_all in H. bind_inv H u s1 H1 H2; [|discriminate H2|discriminate H2].
    unfold reset_metadata, mbind, get_client, set_cs, set_client in H1. inversion H1; subst.
    exact (load_metadata_ok_pooled _ _ _ H2). }
  split; [exact K|]. destruct K as [h [_ Hp]]. exact (in_pool_nonempty _ _ Hp).
Qed.

(* ================================================================================== *)
(* Part 3. the group calls after any history                                          *)
(* ================================================================================== *)
Definition returns {A} (r : res A) : Prop := (exists a, r = Ok a) \/ (exists e, r = Err e).
Lemma npb_returns {A} (r : res A) : npb r -> returns r.
Proof. destruct r as [a|e|w]; intros H; [left; exists a; reflexivity|right; exists e; reflexivity|destruct H]. Qed.

(* Consumer::commit_consumed on a client with an available connection: only the debug-build overflow *)
Lemma commit_consumed_panic_pool_ok k s w : C15ExtraC.pool_ok s ->
  fst (commit_consumed k s) = Panic w -> w = overflow_tag /\ debug_build (env s) = true.
Proof.
  intros Hs. unfold commit_consumed. destruct (k_group k) as [|g0 g]; [cbn; discriminate|].
  unfold mbind at 1. unfold get_env at 1. cbv beta iota.
  unfold mbind at 1.
  set (m0 := match dirty_entries k with [] => ret [] | _ :: _ => pop_entries end).
  assert (Hm0 : npb (fst (m0 s)) /\ cl (snd (m0 s)) = cl s).
  { unfold m0. destruct (dirty_entries k); [split; [exact I|reflexivity]|].
    unfold pop_entries. destruct (entryq s); split; try exact I; reflexivity. }
  destruct (m0 s) as [[order|e|w0] s1]; cbn [fst snd npb] in Hm0; destruct Hm0 as [Hn Hc];
    [|cbn; discriminate|contradiction].
  assert (Hs1 : C15ExtraC.pool_ok s1). { unfold C15ExtraC.pool_ok. rewrite Hc. exact Hs. }
  unfold mbind at 1. unfold lift at 1.
  destruct (commit_entries (debug_build (env s)) (reorder_entries order (dirty_entries k))) as [os|e|w0] eqn:Ec.
  - intros H. exfalso. revert H. unfold mbind at 1.
    destruct (C15ExtraC.safe_commit_offsets (g0 :: g) os s1 Hs1) as [Hnp _].
    destruct (commit_offsets (g0 :: g) os s1) as [[u|e|w1] s2]; cbn [fst npb] in *.
    + unfold mbind, get_client, ret. cbn. discriminate.
    + discriminate.
    + contradiction.
  - cbn. discriminate.
  - cbn [fst]. intros H. inversion H; subst. apply (commit_entries_panic _ _ _ Ec).
Qed.

(* what "the group calls are fine in state s" means *)
Definition group_calls_return (s : st) (group : bytes) : Prop :=
  (forall os, returns (fst (commit_offsets group os s)))
  /\ (forall ps, returns (fst (fetch_group_offsets group ps s)))
  /\ (forall topic, returns (fst (fetch_group_topic_offset group topic s)))
  /\ returns (fst (get_group_coordinator group s))
  /\ (forall k w, fst (commit_consumed k s) = Panic w -> w = overflow_tag /\ debug_build (env s) = true).

Lemma group_calls_return_pool_ok s group : C15ExtraC.pool_ok s -> group_calls_return s group.
Proof.
  intros Hs. repeat split.
  - intros os. apply npb_returns. exact (proj1 (C15ExtraC.safe_commit_offsets group os s Hs)).
  - intros ps. apply npb_returns. exact (proj1 (C15ExtraC.safe_fetch_group_offsets group ps s Hs)).
  - intros t. apply npb_returns. exact (proj1 (C15ExtraC.safe_fetch_group_topic_offset group t s Hs)).
  - apply npb_returns. exact (proj1 (C15ExtraC.safe_get_group_coordinator group s Hs)).
  - exact (proj1 (commit_consumed_panic_pool_ok k s w Hs H)).
  - exact (proj2 (commit_consumed_panic_pool_ok k s w Hs H)).
Qed.

Lemma history_pool_ok calls s : C15ExtraC.pool_ok s -> C15ExtraC.pool_ok (run_history calls s).
Proof. intros Hs. eapply pool_ext_ok; [exact Hs|]. exact (C13_pool_kept_history calls s). Qed.

(* The clause of the seed, for all inputs: a client that has a pooled connection (and whose idle
   time-out is not the model's stand-in 0 for "every connection expired") makes ANY sequence of public
   calls - each of them answered by ANY bytes, ending in Ok, Err or even a panic of the known kinds -
   and THEN a group call for any group: that call returns a value or an error. *)
Theorem C13_group_call_after_any_history : forall s calls group,
  conns (cl s) <> [] -> idle_expired (cfg (cl s)) = false ->
  let s' := run_history calls s in
  (forall os, returns (fst (commit_offsets group os s')))
  /\ (forall ps, returns (fst (fetch_group_offsets group ps s')))
  /\ (forall topic, returns (fst (fetch_group_topic_offset group topic s')))
  /\ returns (fst (get_group_coordinator group s'))
  /\ (forall k w, fst (commit_consumed k s') = Panic w -> w = overflow_tag /\ debug_build (env s') = true).
Proof.
  intros s calls group H1 H2 s'. apply group_calls_return_pool_ok. apply history_pool_ok. split; assumption.
Qed.

(* ... and from ANY client (empty pool included): one metadata load that returned Ok, then any history,
   then the group call - the three steps of seeded/C13-7 *)
Theorem C13_group_call_after_load_and_history : forall topics s0 s1 calls group,
  idle_expired (cfg (cl s0)) = false ->
  load_metadata topics s0 = (Ok tt, s1) \/ load_metadata_all s0 = (Ok tt, s1) ->
  let s' := run_history calls s1 in
  (forall os, returns (fst (commit_offsets group os s')))
  /\ (forall ps, returns (fst (fetch_group_offsets group ps s')))
  /\ (forall topic, returns (fst (fetch_group_topic_offset group topic s')))
  /\ returns (fst (get_group_coordinator group s'))
  /\ (forall k w, fst (commit_consumed k s') = Panic w -> w = overflow_tag /\ debug_build (env s') = true).
Proof.
  intros topics s0 s1 calls group Hi Hl s'. apply group_calls_return_pool_ok, history_pool_ok.
  split; [exact (proj2 (C13_load_leaves_connection _ _ _ Hl))|].
  assert (Hc : cfg (cl s1) = cfg (cl s0)).
  { destruct Hl as [Hl|Hl]; [exact (proj1 (px_load_metadata _ _ _ _ Hl))|exact (proj1 (px_load_metadata_all _ _ _ Hl))]. }
  rewrite Hc. exact Hi.
Qed.

(* no call of a history that started with an available connection hits the `expect` *)
Lemma forget_panicked {A} (x : res A * st) w : fst (forget x) = Panicked w -> fst x = Panic w.
Proof. unfold forget. cbn [fst]. destruct (fst x); intros H; inversion H; reflexivity. Qed.
Lemma npb_not_panic {A} (r : res A) w : npb r -> r <> Panic w.
Proof. intros H E. rewrite E in H. exact H. Qed.
Definition conn_tag : bytes := tag "available connection".
Lemma fetch_panic_not_conn w : w = alloc_tag \/ w = dbg_tag -> w <> conn_tag.
Proof. intros [->| ->] E; vm_compute in E; discriminate E. Qed.

Theorem C13_history_no_missing_connection : forall s calls c,
  conns (cl s) <> [] -> idle_expired (cfg (cl s)) = false ->
  fst (kcall_run c (run_history calls s)) <> Panicked (tag "available connection").
Proof.
  intros s calls c H1 H2. assert (Hs : C15ExtraC.pool_ok (run_history calls s)) by (apply history_pool_ok; split; assumption).
  set (s' := run_history calls s) in *. intros E.
  destruct c; cbn [kcall_run] in E; apply forget_panicked in E.
  - exact (npb_not_panic _ _ (mnp_load_metadata topics s') E).
  - exact (npb_not_panic _ _ (mnp_load_metadata_all s') E).
  - exact (npb_not_panic _ _ (mnp_fetch_offsets topics time s') E).
  - exact (npb_not_panic _ _ (mnp_list_offsets topics time s') E).
  - exact (npb_not_panic _ _ (mnp_fetch_topic_offsets topic time s') E).
  - exact (fetch_panic_not_conn _ (C13_fetch_messages_panics _ _ _ E) eq_refl).
  - exact (npb_not_panic _ _ (mnp_produce_messages acks timeout msgs s') E).
  - exact (npb_not_panic _ _ (proj1 (C15ExtraC.safe_commit_offsets group os s' Hs)) E).
  - exact (npb_not_panic _ _ (proj1 (C15ExtraC.safe_fetch_group_offsets group ps s' Hs)) E).
  - exact (npb_not_panic _ _ (proj1 (C15ExtraC.safe_fetch_group_topic_offset group topic s' Hs)) E).
  - exact (fetch_panic_not_conn _ (C13_consumer_poll_panics _ _ _ E) eq_refl).
  - destruct (commit_consumed_panic_pool_ok _ _ _ Hs E) as [Hw _]. vm_compute in Hw. discriminate Hw.
  - exact (C13_producer_send_all_no_panic _ _ _ _ E).
  - destruct (C13_producer_send_outside_known _ _ _ _ E) as (_ & _ & _ & _ & _ & _ & _ & _ & _ & [Hw|Hw]);
      vm_compute in Hw; discriminate Hw.
Qed.

(* ================================================================================== *)
(* Part 4. exactness and the converse                                                 *)
(* ================================================================================== *)

(* an exchange with a host that is pooled already - whether it succeeds, fails on rejected bytes, or
   the stream breaks - leaves the pool exactly as it was *)
Theorem C13_exchange_pooled_host_pool_unchanged : forall A (d : dec A) h p s,
  in_pool h (conns (cl s)) = true ->
  conns (cl (snd (send_receive d h p s))) = conns (cl s).
Proof.
  intros A d h p s Hin. destruct (send_receive d h p s) as [r s'] eqn:E. cbn [snd].
  unfold send_receive in E. apply mbind_inv in E.
  assert (G : forall r0 s1, get_conn h s = (r0, s1) -> conns (cl s1) = conns (cl s)).
  { intros r0 s1 Hg. destruct (get_conn_pool _ _ _ _ Hg) as [K|[K _]]; [exact K|congruence]. }
  destruct E as [(u & s1 & H1 & H2)|[(e & H1 & _)|(w & H1 & _)]]; [|exact (G _ _ H1)|exact (G _ _ H1)].
  rewrite <- (G _ _ H1). apply mbind_inv in H2.
  assert (Q : forall r0 s2, send_request h p s1 = (r0, s2) -> cl s2 = cl s1).
  { intros r0 s2 Hq. destruct (frame_send_request _ _ _ _ _ Hq) as (_ & _ & _ & _ & K & _). exact K. }
  destruct H2 as [(z & s2 & H3 & H4)|[(e & H3 & _)|(w & H3 & _)]];
    [|rewrite (Q _ _ H3); reflexivity|rewrite (Q _ _ H3); reflexivity].
  destruct (frame_get_response _ _ _ _ _ _ H4) as (_ & _ & _ & _ & K & _). rewrite K, (Q _ _ H3). reflexivity.
Qed.

(* converse of Part 3 ("only if"): a group call that panics was made on a client without an available
   connection - empty pool, or the model's all-expired configuration *)
Theorem C13_group_call_panic_only_if_no_connection : forall s group w,
  (forall os, fst (commit_offsets group os s) = Panic w -> conns (cl s) = [] \/ idle_expired (cfg (cl s)) = true)
  /\ (forall ps, fst (fetch_group_offsets group ps s) = Panic w -> conns (cl s) = [] \/ idle_expired (cfg (cl s)) = true)
  /\ (forall topic, fst (fetch_group_topic_offset group topic s) = Panic w ->
                    conns (cl s) = [] \/ idle_expired (cfg (cl s)) = true)
  /\ (forall k, fst (commit_consumed k s) = Panic w -> w = tag "available connection" ->
                conns (cl s) = [] \/ idle_expired (cfg (cl s)) = true).
Proof.
  intros s group w.
  assert (D : (conns (cl s) = [] \/ idle_expired (cfg (cl s)) = true) \/ C15ExtraC.pool_ok s).
  { destruct (conns (cl s)) as [|x l] eqn:Ec; [left; left; reflexivity|].
    destruct (idle_expired (cfg (cl s))) eqn:Ei; [left; right; reflexivity|].
    right. split; [rewrite Ec; discriminate|exact Ei]. }
  destruct D as [D|Hs]; [repeat split; intros; exact D|].
  repeat split.
  - intros os E. exfalso. exact (npb_not_panic _ _ (proj1 (C15ExtraC.safe_commit_offsets group os s Hs)) E).
  - intros ps E. exfalso. exact (npb_not_panic _ _ (proj1 (C15ExtraC.safe_fetch_group_offsets group ps s Hs)) E).
  - intros t E. exfalso. exact (npb_not_panic _ _ (proj1 (C15ExtraC.safe_fetch_group_topic_offset group t s Hs)) E).
  - intros k E Hw. exfalso. destruct (commit_consumed_panic_pool_ok _ _ _ Hs E) as [Ho _].
    rewrite Hw in Ho. vm_compute in Ho. discriminate Ho.
Qed.

(* ================================================================================== *)
(* examples (non-vacuity): the histories of seeded/C13-7 on the wire                  *)
(* ================================================================================== *)
(* a fresh client (EMPTY pool, bootstrap host b1:9092, Kafka offset storage).  Script: connect, the
   metadata exchange, then the `bad` answer to fetch_offsets, then flawless GroupCoordinator and
   OffsetFetch replies *)
Definition xe_s0 (bad : list ev_out) : st :=
  ex_st ([OConn true] ++ xc_reply xc_md1 ++ bad ++ xc_reply (xc_coord 1 (tag "b1")) ++ xc_reply xc_ofetch)
        {| cfg := xc_cfg; cs := cstate_new; conns := [] |} false.
(* CutShort: the frame announces 20 bytes, the stream ends after 3.  HugeCount: a properly framed Offsets
   reply whose partition count reads 2^31-1 *)
Definition xe_cut : list ev_out := [OWrote 100000; OData (enc_i32 20); OData [x00; x00; x00]; OData []].
Definition xe_huge : list ev_out :=
  xc_reply (enc_i32 1 ++ enc_i32 1 ++ xc_str (tag "t") ++ enc_i32 2147483647).

Definition xe_history (bad : list ev_out) : Prop :=
  let s0 := xe_s0 bad in
  let s1 := snd (load_metadata_all s0) in
  let s2 := run_history [KFetchOffsets [tag "t"] (-1)] s1 in
  (* hypotheses of C13_group_call_after_load_and_history / C13_load_leaves_connection *)
  conns (cl s0) = [] /\ idle_expired (cfg (cl s0)) = false /\ load_metadata_all s0 = (Ok tt, s1)
  (* the load left the connection; the failed call is rejected with Err and leaves the pool alone *)
  /\ conns (cl s1) = [tag "b1:9092"]
  /\ fst (kcall_run (KFetchOffsets [tag "t"] (-1)) s1) = Failed (EIo IoUnexpectedEof)
  /\ conns (cl s2) = [tag "b1:9092"]
  (* hypothesis of C13_exchange_pooled_host_pool_unchanged *)
  /\ in_pool (tag "b1:9092") (conns (cl s1)) = true
  (* the group call for a group never looked up before returns the offset *)
  /\ group_coordinator (cs (cl s2)) (tag "g") = None
  /\ fst (fetch_group_offsets (tag "g") [(tag "t", 0)] s2) = Ok [(tag "t", [(0, 7)])].

Example C13_group_call_after_load_and_history_ex_cut : xe_history xe_cut.
Proof. vm_compute. repeat split. Qed.
Example C13_group_call_after_load_and_history_ex_huge : xe_history xe_huge.
Proof. vm_compute. repeat split. Qed.

(* two failing calls in a row (reply cut short, then a ListOffsets reply with the huge count), then a
   Consumer-level commit: hypotheses of C13_group_call_after_any_history / C13_pool_kept_history /
   C13_history_no_missing_connection on a client with one pooled connection *)
Definition xe_k : consumer :=
  {| k_client := xc_c0; k_group := tag "g"; k_fallback := FbEarliest; k_retry_limit := 0;
     k_assign := [(tag "t", [0])]; k_fetch := [((0, 0), (5, 1000))]; k_retry := [];
     k_consumed := [((0, 0), (4, true))] |}.
Example C13_group_call_after_any_history_ex :
  let s1 := snd (load_metadata_all (xe_s0 (xe_cut ++ xe_huge))) in
  let calls := [KFetchOffsets [tag "t"] (-1); KListOffsets [tag "t"] (-1)] in
  let s2 := run_history calls s1 in
  conns (cl s1) <> [] /\ idle_expired (cfg (cl s1)) = false
  /\ fst (kcall_run (KFetchOffsets [tag "t"] (-1)) s1) = Failed (EIo IoUnexpectedEof)
  /\ fst (kcall_run (KListOffsets [tag "t"] (-1)) (run_history [KFetchOffsets [tag "t"] (-1)] s1))
     = Failed (EIo IoUnexpectedEof)
  /\ conns (cl s2) = conns (cl s1) ++ []
  /\ fst (kcall_run (KGroupOffsets (tag "g") [(tag "t", 0)]) s2) = Returned.
Proof. vm_compute. repeat split. discriminate. Qed.

(* the converse is not vacuous: the same group call on the same client state WITHOUT a pooled connection
   panics - which is what the mutated model reaches after the failed fetch_offsets (mut7/w/Witness.v) *)
Example C13_group_call_panic_only_if_no_connection_ex :
  let s1 := snd (load_metadata_all (xe_s0 xe_cut)) in
  let s_empty := ex_st (xc_reply (xc_coord 1 (tag "b1")) ++ xc_reply xc_ofetch)
                       {| cfg := cfg (cl s1); cs := cs (cl s1); conns := [] |} false in
  fst (fetch_group_offsets (tag "g") [(tag "t", 0)] s_empty) = Panic (tag "available connection")
  /\ fst (kcall_run (KCommitConsumed xe_k) s_empty) = Panicked (tag "available connection").
Proof. vm_compute. repeat split. Qed.

Check C13_pool_kept_call.
Check C13_pool_kept_history.
Check C13_pool_kept_by_host_calls.
Check C13_load_leaves_connection.
Check C13_group_call_after_any_history.
Check C13_group_call_after_load_and_history.
Check C13_history_no_missing_connection.
Check C13_exchange_pooled_host_pool_unchanged.
Check C13_group_call_panic_only_if_no_connection.

Print Assumptions C13_pool_kept_call.
Print Assumptions C13_pool_kept_history.
Print Assumptions C13_pool_kept_by_host_calls.
Print Assumptions C13_load_leaves_connection.
Print Assumptions C13_group_call_after_any_history.
Print Assumptions C13_group_call_after_load_and_history.
Print Assumptions C13_history_no_missing_connection.
Print Assumptions C13_exchange_pooled_host_pool_unchanged.
Print Assumptions C13_group_call_panic_only_if_no_connection.

(* Not done / not proved here:
   - Consumer::create and Producer::create are not calls of `kcall`: they REPLACE the configuration (the
     builders' idle time-out), so `cfg` is not kept; the pool part of pool_ext holds for them too (not stated).
   - "every pooled connection is idle-expired and the reconnect fails" is modelled only by idle_timeout = 0
     (get_conn_any gives up after the first host, see the comment in Model/Net.v); the hypothesis
     idle_expired = false of Part 3 is therefore needed in the model (C13_group_lookup_outside_known_refuted),
     and a time-dependent expiry of individual connections is not expressible.
   - a forward statement "a frame that announces n bytes and a stream that ends before -> exactly
     Err(Io(UnexpectedEof)) for every by-host call" is only instantiated (examples above; the single-exchange
     form is C15_reply_eof_stops); Part 1 and Part 3 hold for every outcome, so they do not depend on it.
   - whole-call exactness (fetch_offsets / fetch_messages / produce_messages leave the pool EXACTLY unchanged
     when every leader is pooled already) is proved for one exchange only (C13_exchange_pooled_host_pool_unchanged).
   - the scratch rebuild of Props/C13.v on the mutated model was not completed: NetFacts / C13Facts scripts about
     send_receive fail by unification with the new shape (the first two, keepsR_send_receive and
     mnp_send_receive, were repaired and their statements hold on the mutant); that no statement of
     Props/C13.v is falsified was checked by reading the statements, see the header. *)
