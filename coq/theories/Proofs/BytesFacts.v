(* Shared arithmetic facts about the byte-level encoders of Base/Prelude.v. *)
From KV Require Import Base.Prelude.
From Coq Require Import ZifyBool.
Ltac Zify.zify_post_hook ::= Z.div_mod_to_equations.

Lemma Zb_range b : 0 <= Zb b < 256.
Proof.
  unfold Zb. pose proof (Byte.to_N_bounded b). lia.
Qed.

Lemma bZ_Zb b : bZ (Zb b) = b.
Proof.
  unfold bZ. pose proof (Zb_range b) as H. rewrite Z.mod_small by exact H.
  unfold Zb. rewrite N2Z.id. rewrite Byte.of_to_N. reflexivity.
Qed.

Lemma Zb_bZ z : Zb (bZ z) = z mod 256.
Proof.
  unfold bZ, Zb. assert (H : 0 <= z mod 256 < 256) by (apply Z.mod_pos_bound; lia).
  destruct (Byte.of_N (Z.to_N (z mod 256))) as [b|] eqn:E.
  - apply Byte.to_of_N in E. rewrite E. rewrite Z2N.id; lia.
  - apply Byte.of_N_None_iff in E. lia.
Qed.

Lemma be_enc_length n z : length (be_enc n z) = n.
Proof. induction n as [|n IH]; cbn [be_enc length]; [reflexivity|rewrite IH; reflexivity]. Qed.

Lemma be_dec_acc_app a b acc : be_dec_acc (a ++ b) acc = be_dec_acc b (be_dec_acc a acc).
Proof. revert acc. induction a as [|x a IH]; intros acc; cbn [be_dec_acc app]; [reflexivity|apply IH]. Qed.

Lemma pow2_8S k : 2 ^ (8 * Z.of_nat (S k)) = 256 * 2 ^ (8 * Z.of_nat k).
Proof.
  replace (8 * Z.of_nat (S k)) with (8 + 8 * Z.of_nat k) by lia.
  rewrite Z.pow_add_r by lia. reflexivity.
Qed.

Lemma be_dec_acc_enc n : forall z acc,
  be_dec_acc (be_enc n z) acc = acc * 2 ^ (8 * Z.of_nat n) + z mod 2 ^ (8 * Z.of_nat n).
Proof.
  induction n as [|n IH]; intros z acc.
  - cbn [be_enc be_dec_acc]. change (8 * Z.of_nat 0) with 0. rewrite Z.pow_0_r, Z.mod_1_r. lia.
  - cbn [be_enc be_dec_acc]. rewrite IH, Zb_bZ, pow2_8S.
    set (P := 2 ^ (8 * Z.of_nat n)). assert (HP : 0 < P) by (apply Z.pow_pos_nonneg; lia).
    rewrite (Z.mul_comm 256 P). rewrite (Z.rem_mul_r z P 256) by lia. ring.
Qed.

Lemma be_dec_u_enc n z : be_dec_u (be_enc n z) = z mod 2 ^ (8 * Z.of_nat n).
Proof. unfold be_dec_u. rewrite be_dec_acc_enc. lia. Qed.

Lemma wrap_s_id bits z : 0 < bits -> - 2 ^ (bits - 1) <= z < 2 ^ (bits - 1) -> wrap_s bits z = z.
Proof.
  intros Hb Hz. unfold wrap_s.
  assert (H2 : 2 ^ bits = 2 * 2 ^ (bits - 1)).
  { replace bits with (1 + (bits - 1)) at 1 by lia. rewrite Z.pow_add_r by lia. reflexivity. }
  set (H := 2 ^ (bits - 1)) in *. assert (0 < H) by (apply Z.pow_pos_nonneg; lia).
  rewrite H2. destruct (Z_lt_le_dec z 0) as [Hneg|Hpos].
  - replace (z mod (2 * H)) with (z + 2 * H).
    + destruct (z + 2 * H <? H) eqn:E; lia.
    + apply Z.mod_unique with (-1); lia.
  - rewrite Z.mod_small by lia. destruct (z <? H) eqn:E; lia.
Qed.

Lemma wrap_s_mod bits z : 0 <= bits -> wrap_s bits (z mod 2 ^ bits) = wrap_s bits z.
Proof. intros Hb. unfold wrap_s. rewrite Z.mod_mod; [reflexivity|]. apply Z.pow_nonzero; lia. Qed.

Lemma wrap_s_range bits z : 0 < bits -> - 2 ^ (bits - 1) <= wrap_s bits z < 2 ^ (bits - 1).
Proof.
  intros Hb. unfold wrap_s.
  assert (H2 : 2 ^ bits = 2 * 2 ^ (bits - 1)).
  { replace bits with (1 + (bits - 1)) at 1 by lia. rewrite Z.pow_add_r by lia. reflexivity. }
  set (H := 2 ^ (bits - 1)) in *. assert (0 < H) by (apply Z.pow_pos_nonneg; lia).
  rewrite H2. assert (0 <= z mod (2 * H) < 2 * H) by (apply Z.mod_pos_bound; lia).
  destruct (z mod (2 * H) <? H) eqn:E; lia.
Qed.

(* decoding what was encoded: the two's complement value when it fits *)
Lemma be_dec_s_enc n z : (0 < n)%nat ->
  - 2 ^ (8 * Z.of_nat n - 1) <= z < 2 ^ (8 * Z.of_nat n - 1) -> be_dec_s (be_enc n z) = z.
Proof.
  intros Hn Hz. unfold be_dec_s. rewrite be_enc_length, be_dec_u_enc, wrap_s_mod by lia.
  apply wrap_s_id; lia.
Qed.

Lemma be_dec_s_enc_wrap n z : (0 < n)%nat -> be_dec_s (be_enc n z) = wrap_s (8 * Z.of_nat n) z.
Proof. intros Hn. unfold be_dec_s. rewrite be_enc_length, be_dec_u_enc, wrap_s_mod by lia. reflexivity. Qed.

Lemma dec_enc_i8 z : in_i8 z -> be_dec_s (enc_i8 z) = z.
Proof. unfold in_i8, enc_i8. intros H. apply be_dec_s_enc; [lia|]. change (8 * Z.of_nat 1 - 1) with 7. lia. Qed.
Lemma dec_enc_i16 z : in_i16 z -> be_dec_s (enc_i16 z) = z.
Proof. unfold in_i16, enc_i16. intros H. apply be_dec_s_enc; [lia|]. change (8 * Z.of_nat 2 - 1) with 15. lia. Qed.
Lemma dec_enc_i32 z : in_i32 z -> be_dec_s (enc_i32 z) = z.
Proof. unfold in_i32, enc_i32. intros H. apply be_dec_s_enc; [lia|]. change (8 * Z.of_nat 4 - 1) with 31. lia. Qed.
Lemma dec_enc_i64 z : in_i64 z -> be_dec_s (enc_i64 z) = z.
Proof. unfold in_i64, enc_i64. intros H. apply be_dec_s_enc; [lia|]. change (8 * Z.of_nat 8 - 1) with 63. lia. Qed.

(* reading back a fixed-width prefix *)
Lemma firstn_app_exact {A} (a b : list A) n : length a = n -> firstn n (a ++ b) = a.
Proof. intros <-. rewrite firstn_app, Nat.sub_diag, firstn_all, firstn_O, app_nil_r. reflexivity. Qed.
Lemma skipn_app_exact {A} (a b : list A) n : length a = n -> skipn n (a ++ b) = b.
Proof. intros <-. rewrite skipn_app, Nat.sub_diag, skipn_all. reflexivity. Qed.

(* bridging lemmas: the readers test only the prefix they need (the extracted code must not
   compute the length of the whole remaining buffer); these restore the old defining equations *)
Lemma ltb_firstn_length {A} (l : list A) n :
  Nat.ltb (length (firstn n l)) n = Nat.ltb (length l) n.
Proof.
  rewrite firstn_length.
  destruct (Nat.ltb (length l) n) eqn:E.
  - apply Nat.ltb_lt in E. apply Nat.ltb_lt. lia.
  - apply Nat.ltb_ge in E. apply Nat.ltb_ge. lia.
Qed.

Lemma has_at_least_spec {A} (l : list A) k : has_at_least l k = (k <=? Z.of_nat (length l)).
Proof.
  revert k. induction l as [|x l IH]; intros k; cbn [has_at_least length].
  - destruct (k <=? 0) eqn:E; lia.
  - destruct (k <=? 0) eqn:E; [lia|]. rewrite IH. lia.
Qed.

Lemma zread_unfold n bs :
  zread n bs = if Nat.ltb (length bs) n then Err EUnexpectedEOF else Ok (firstn n bs, skipn n bs).
Proof. unfold zread. rewrite ltb_firstn_length. reflexivity. Qed.

Lemma zread_bytes_unfold bs :
  zread_bytes bs =
  let* '(len, r) := zread_i32 bs in
  if len <=? 0 then Ok ([], r)
  else if Z.of_nat (length r) <? len then Err EUnexpectedEOF
  else zread (Z.to_nat len) r.
Proof.
  unfold zread_bytes. destruct (zread_i32 bs) as [[len r]|e|w]; cbn [bind]; [|reflexivity|reflexivity].
  rewrite has_at_least_spec.
  replace (negb (len <=? Z.of_nat (length r))) with (Z.of_nat (length r) <? len) by lia.
  reflexivity.
Qed.

Lemma zread_app n a b : length a = n -> zread n (a ++ b) = Ok (a, b).
Proof.
  intros H. rewrite zread_unfold. rewrite app_length, H.
  destruct (Nat.ltb (n + length b) n) eqn:E; [apply Nat.ltb_lt in E; lia|].
  rewrite firstn_app_exact, skipn_app_exact by exact H. reflexivity.
Qed.

Lemma zread_short n bs : (length bs < n)%nat -> zread n bs = Err EUnexpectedEOF.
Proof. intros H. rewrite zread_unfold. apply Nat.ltb_lt in H. rewrite H. reflexivity. Qed.

Lemma zread_i8_app z r : in_i8 z -> zread_i8 (enc_i8 z ++ r) = Ok (z, r).
Proof. intros H. unfold zread_i8. rewrite zread_app by apply be_enc_length. cbn [bind]. rewrite dec_enc_i8 by exact H. reflexivity. Qed.
Lemma zread_i16_app z r : in_i16 z -> zread_i16 (enc_i16 z ++ r) = Ok (z, r).
Proof. intros H. unfold zread_i16. rewrite zread_app by apply be_enc_length. cbn [bind]. rewrite dec_enc_i16 by exact H. reflexivity. Qed.
Lemma zread_i32_app z r : in_i32 z -> zread_i32 (enc_i32 z ++ r) = Ok (z, r).
Proof. intros H. unfold zread_i32. rewrite zread_app by apply be_enc_length. cbn [bind]. rewrite dec_enc_i32 by exact H. reflexivity. Qed.
Lemma zread_i64_app z r : in_i64 z -> zread_i64 (enc_i64 z ++ r) = Ok (z, r).
Proof. intros H. unfold zread_i64. rewrite zread_app by apply be_enc_length. cbn [bind]. rewrite dec_enc_i64 by exact H. reflexivity. Qed.

Lemma bytes_eqb_refl a : bytes_eqb a a = true.
Proof.
  induction a as [|x a IH]; [reflexivity|]. cbn [bytes_eqb]. rewrite IH, andb_true_r.
  apply Byte.byte_dec_lb. reflexivity.
Qed.
Lemma bytes_eqb_eq a b : bytes_eqb a b = true <-> a = b.
Proof.
  split; [|intros ->; apply bytes_eqb_refl].
  revert b. induction a as [|x a IH]; intros [|y b] H; cbn [bytes_eqb] in H; try discriminate; [reflexivity|].
  apply andb_true_iff in H. destruct H as [H1 H2]. apply Byte.byte_dec_bl in H1. rewrite (IH _ H2), H1. reflexivity.
Qed.
Lemma bytes_eqb_neq a b : bytes_eqb a b = false <-> a <> b.
Proof.
  split.
  - intros H E. apply bytes_eqb_eq in E. rewrite E in H. discriminate.
  - intros H. destruct (bytes_eqb a b) eqn:E; [apply bytes_eqb_eq in E; contradiction|reflexivity].
Qed.

(* the same bridging lemmas for the Cursor readers of Model/Codecs.v *)
From KV Require Import Model.Codecs.

Lemma cread_unfold n bs :
  cread n bs =
  if Nat.ltb (length bs) n then Err (EIo IoUnexpectedEof) else Ok (firstn n bs, skipn n bs).
Proof. unfold cread. rewrite ltb_firstn_length. reflexivity. Qed.

Lemma dec_bytes_unfold bs :
  dec_bytes bs =
  let* '(len, r) := dec_i32 bs in
  if len <=? 0 then Ok ([], r)
  else
    if ulen r <? len then Err EUnexpectedEOF
    else let n := Z.to_nat len in Ok (firstn n r, skipn n r).
Proof.
  unfold dec_bytes. destruct (dec_i32 bs) as [[len r]|e|w]; cbn [bind]; [|reflexivity|reflexivity].
  rewrite has_at_least_spec. unfold ulen.
  replace (negb (len <=? Z.of_nat (length r))) with (Z.of_nat (length r) <? len) by lia.
  reflexivity.
Qed.
