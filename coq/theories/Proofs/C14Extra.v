(* C14, additional theorems (mutation adequacy).
   1. the coordinator cache: one entry per group is an invariant of every group call; a successful
      lookup caches exactly the host it returns; a failed one leaves the cache as it was.
   2. giving up on "not coordinator for group" (last permitted attempt) still drops the cached
      coordinator, so the next call for the group starts with a lookup (seeded change C14-2).
   3. the same at the level of the public calls, from the call result alone. *)
From KV Require Import Base.Prelude Gen.ErrorCodes Gen.Consts Model.Codecs Model.Requests Model.Responses
                       Model.ClientState Model.Net Model.Client.
From KV Require Import Proofs.BytesFacts Proofs.C11Facts Proofs.NetFacts Proofs.C14Facts.
From Coq Require Import ZifyBool.

(* ================================================================================== *)
(* 1. the coordinator cache                                                           *)
(* ================================================================================== *)

Lemma gc_set_assoc l g i : assoc_bytes g (gc_set l g i) = Some i.
Proof.
  induction l as [|[k v] l IH]; cbn [gc_set assoc_bytes].
  - rewrite bytes_eqb_refl. reflexivity.
  - destruct (bytes_eqb k g) eqn:E; cbn [assoc_bytes]; rewrite E; [reflexivity|exact IH].
Qed.

Lemma find_node_range bs node : forall k i, find_node bs node k = Some i -> k <= i < k + ulen bs.
Proof.
  induction bs as [|b bs IH]; intros k i H; cbn [find_node] in H; [discriminate|].
  unfold ulen in *. cbn [length]. destruct (b_node b =? node).
  - inversion H; subst. lia.
  - apply IH in H. lia.
Qed.

Lemma nth_z_in_range {A} (l : list A) i : 0 <= i < ulen l -> exists x, nth_z l i = Some x.
Proof.
  intros Hi. unfold nth_z. destruct ((i <? 0) || (ulen l <=? i)) eqn:E; [lia|].
  destruct (nth_error l (Z.to_nat i)) as [x|] eqn:En; [exists x; reflexivity|].
  apply nth_error_None in En. unfold ulen in Hi. lia.
Qed.

Lemma nth_z_snoc {A} (l : list A) x : nth_z (l ++ [x]) (ulen l) = Some x.
Proof.
  unfold nth_z, ulen. rewrite app_length. cbn [length].
  destruct ((Z.of_nat (length l) <? 0) || (Z.of_nat (length l + 1) <=? Z.of_nat (length l))) eqn:E; [lia|].
  rewrite Nat2Z.id, nth_error_app2 by lia. rewrite Nat.sub_diag. reflexivity.
Qed.

(* the host a successful lookup returns is the one the cache yields from then on *)
Lemma set_group_coordinator_cached x g resp :
  group_coordinator (snd (set_group_coordinator x g resp)) g = Some (fst (set_group_coordinator x g resp)).
Proof.
  unfold set_group_coordinator. destruct (find_node (brokers x) (gc_broker resp) 0) as [i|] eqn:E.
  - cbn [fst snd]. unfold group_coordinator. cbn [group_coordinators brokers]. rewrite gc_set_assoc.
    apply find_node_range in E. destruct (nth_z_in_range (brokers x) i ltac:(lia)) as [b Hb]. rewrite Hb. reflexivity.
  - cbn [fst snd]. unfold group_coordinator. cbn [group_coordinators brokers]. rewrite gc_set_assoc.
    rewrite nth_z_snoc. reflexivity.
Qed.

Lemma lookup_attempt_cl req s r s1 : group_lookup_attempt req s = (r, s1) -> cl s1 = cl s.
Proof. intros H. exact (lookup_attempt_same_cl _ _ _ _ H). Qed.

(* what a lookup does to the client state *)
Lemma lookup_loop_outcome fuel group req : forall attempt s r s',
  group_lookup_loop fuel group req attempt s = (r, s') ->
  match r with
  | Ok h => exists resp, gc_error resp = 0 /\
                         h = fst (set_group_coordinator (cs (cl s)) group resp) /\
                         cs (cl s') = snd (set_group_coordinator (cs (cl s)) group resp)
  | _ => cs (cl s') = cs (cl s)
  end.
Proof.
  induction fuel as [|f IH]; intros attempt s r s' H.
  - inversion H; subst. reflexivity.
  - rewrite lookup_loop_step in H. destruct (group_lookup_attempt req s) as [[resp|e|w] s1] eqn:E;
      pose proof (lookup_attempt_cl _ _ _ _ E) as C1.
    + destruct (from_protocol (gc_error resp)) as [code|] eqn:Ep.
      * destruct (code =? KC_GroupCoordinatorNotAvailable);
          [destruct (attempt <? retry_max_attempts (cfg (cl s1)))|];
          try (inversion H; subst; rewrite C1; reflexivity).
        specialize (IH _ _ _ _ H). rewrite C1 in IH. exact IH.
      * inversion H; subst. exists resp. rewrite with_cs_cs, C1.
        split; [apply from_protocol_none; exact Ep|]. split; reflexivity.
    + inversion H; subst. rewrite C1. reflexivity.
    + inversion H; subst. rewrite C1. reflexivity.
Qed.

(* get_group_coordinator: the cache stays well formed; Ok h means h is (now) the cached coordinator,
   anything else means the group has (still) no cached coordinator *)
Lemma ggc_outcome group s r s' : get_group_coordinator group s = (r, s') -> gc_wf (cs (cl s)) ->
  gc_wf (cs (cl s')) /\
  match r with
  | Ok h => group_coordinator (cs (cl s')) group = Some h
  | _ => group_coordinator (cs (cl s')) group = None
  end.
Proof.
  intros H Hwf. rewrite ggc_unfold in H. destruct (group_coordinator (cs (cl s)) group) as [h|] eqn:Eg.
  - inversion H; subst. split; assumption.
  - pose proof (lookup_loop_outcome _ _ _ _ _ _ _ H) as Ho. rewrite with_cs_cs in Ho.
    destruct r as [h|e|w].
    + destruct Ho as (resp & _ & -> & ->). split; [apply gc_wf_set; exact Hwf|apply set_group_coordinator_cached].
    + rewrite Ho. split; [exact Hwf|exact Eg].
    + rewrite Ho. split; [exact Hwf|exact Eg].
Qed.

Lemma send_receive_cs {A} (d : dec A) h req s r s' : send_receive d h req s = (r, s') -> cs (cl s') = cs (cl s).
Proof. intros H. apply (frame_send_receive _ _ _ _ _ _ _ H). Qed.

Lemma exchange_attempt_outcome {A} (d : dec A) group req s r s2 :
  exchange_attempt d group req s = (r, s2) -> gc_wf (cs (cl s)) ->
  gc_wf (cs (cl s2)) /\ (forall a, r = Ok a -> exists h, group_coordinator (cs (cl s2)) group = Some h).
Proof.
  intros H Hwf. unfold exchange_attempt in H. bind_inv H h s1 H1 H2.
  - destruct (ggc_outcome _ _ _ _ H1 Hwf) as [W G]. rewrite (send_receive_cs _ _ _ _ _ _ H2).
    split; [exact W|]. intros a _. exists h. exact G.
  - subst r. split; [exact (proj1 (ggc_outcome _ _ _ _ H1 Hwf))|discriminate].
  - subst r. split; [exact (proj1 (ggc_outcome _ _ _ _ H1 Hwf))|discriminate].
Qed.

Lemma after_retry_wf group reset s : gc_wf (cs (cl s)) -> gc_wf (cs (cl (after_retry group reset s))).
Proof. intros H. unfold after_retry. destruct reset; [rewrite with_cs_cs; apply gc_wf_remove; exact H|exact H]. Qed.

Lemma retry_loop_wf {A B} (d : dec A) (judge : A -> verdict B) group req : forall fuel attempt s r s',
  retry_loop d judge fuel group req attempt s = (r, s') -> gc_wf (cs (cl s)) -> gc_wf (cs (cl s')).
Proof.
  induction fuel as [|f IH]; intros attempt s r s' H Hwf.
  - inversion H; subst. exact Hwf.
  - cbn [retry_loop] in H. destruct (exchange_attempt d group req s) as [[a|e|w] s2] eqn:E;
      pose proof (proj1 (exchange_attempt_outcome _ _ _ _ _ _ E Hwf)) as W2;
      try (inversion H; subst; exact W2).
    destruct (judge a) as [b|c|code reset]; try (inversion H; subst; exact W2).
    pose proof (after_retry_wf group reset s2 W2) as W3.
    destruct (attempt <? retry_max_attempts (cfg (cl s2))); [eapply IH; eassumption|inversion H; subst; exact W3].
Qed.

Lemma lookup_loop_wf fuel group req attempt s r s' :
  group_lookup_loop fuel group req attempt s = (r, s') -> gc_wf (cs (cl s)) -> gc_wf (cs (cl s')).
Proof.
  intros H Hwf. pose proof (lookup_loop_outcome _ _ _ _ _ _ _ H) as Ho. destruct r as [h|e|w].
  - destruct Ho as (resp & _ & _ & ->). apply gc_wf_set. exact Hwf.
  - rewrite Ho. exact Hwf.
  - rewrite Ho. exact Hwf.
Qed.

(* "one cache entry per group" (the side condition of C14_relookup / C14_relookup_group_fetch) holds of a
   new client and is kept by every loop and every public group call, whatever the answers *)
Theorem C14_cache_wf_invariant :
  gc_wf cstate_new /\
  (forall fuel group req attempt s,
     gc_wf (cs (cl s)) ->
     gc_wf (cs (cl (snd (group_lookup_loop fuel group req attempt s)))) /\
     gc_wf (cs (cl (snd (commit_loop fuel group req attempt s)))) /\
     gc_wf (cs (cl (snd (group_fetch_loop fuel group req attempt s))))) /\
  (forall group s,
     gc_wf (cs (cl s)) ->
     gc_wf (cs (cl (snd (get_group_coordinator group s)))) /\
     (forall os, gc_wf (cs (cl (snd (commit_offsets group os s))))) /\
     (forall ps, gc_wf (cs (cl (snd (fetch_group_offsets group ps s)))))).
Proof.
  split; [exact gc_wf_new|]. split.
  - intros fuel group req attempt s Hwf. split; [|split].
    + destruct (group_lookup_loop fuel group req attempt s) as [r s'] eqn:E. eapply lookup_loop_wf; eassumption.
    + destruct (commit_loop fuel group req attempt s) as [r s'] eqn:E. rewrite commit_loop_eq in E.
      eapply retry_loop_wf; eassumption.
    + destruct (group_fetch_loop fuel group req attempt s) as [r s'] eqn:E. rewrite group_fetch_loop_eq in E.
      eapply retry_loop_wf; eassumption.
  - intros group s Hwf. split; [|split].
    + destruct (get_group_coordinator group s) as [r s'] eqn:E. exact (proj1 (ggc_outcome _ _ _ _ E Hwf)).
    + intros os. rewrite commit_offsets_unfold. destruct (_ <? 0); [exact Hwf|].
      destruct (commit_tps (cs (cl s)) os []) as [[|x xs]|]; try exact Hwf.
      destruct (commit_loop _ _ _ _ _) as [r s'] eqn:E. rewrite commit_loop_eq in E.
      eapply retry_loop_wf; [exact E|exact Hwf].
    + intros ps. rewrite fetch_group_offsets_unfold. destruct (_ <? 0); [exact Hwf|].
      destruct (group_fetch_tps (cs (cl s)) ps []) as [tps|]; try exact Hwf.
      destruct (group_fetch_loop _ _ _ _ _) as [r s'] eqn:E. rewrite group_fetch_loop_eq in E.
      eapply retry_loop_wf; [exact E|exact Hwf].
Qed.

(* a lookup that succeeds caches the host it returns (later attempts of the call, and later calls, go
   there without another lookup); one that fails leaves the group without a cached coordinator *)
Theorem C14_lookup_caches : forall group s r s',
  get_group_coordinator group s = (r, s') -> gc_wf (cs (cl s)) ->
  (forall h, r = Ok h -> group_coordinator (cs (cl s')) group = Some h /\
                         get_group_coordinator group s' = (Ok h, s')) /\
  ((forall h, r <> Ok h) -> group_coordinator (cs (cl s')) group = None /\
                            group_coordinator (cs (cl s)) group = None).
Proof.
  intros group s r s' H Hwf. destruct (ggc_outcome _ _ _ _ H Hwf) as [_ G]. split.
  - intros h ->. split; [exact G|]. rewrite ggc_unfold, G. reflexivity.
  - intros Hn. destruct r as [h|e|w]; [exfalso; exact (Hn h eq_refl)| |]; (split; [exact G|]);
      rewrite ggc_unfold in H; destruct (group_coordinator (cs (cl s)) group); try reflexivity; discriminate.
Qed.

(* ================================================================================== *)
(* 2. giving up on "not coordinator for group"                                        *)
(* ================================================================================== *)

(* The counterpart of retry_loop_relookup for the LAST permitted attempt: the call returns the
   retryable code, and the cached coordinator has been dropped all the same, so whatever group
   call comes next starts with a coordinator lookup instead of going to the stale broker. *)
Lemma retry_loop_giveup {A B} (d : dec A) (judge : A -> verdict B) group req f attempt s a s2 code :
  exchange_attempt d group req s = (Ok a, s2) -> judge a = VRetry code true ->
  retry_max_attempts (cfg (cl s2)) <= attempt -> gc_wf (cs (cl s2)) ->
  let s3 := after_retry group true s2 in
  retry_loop d judge (S f) group req attempt s = (Err (EKafka code), s3) /\
  group_coordinator (cs (cl s3)) group = None /\ gc_wf (cs (cl s3)) /\
  get_group_coordinator group s3 =
    group_lookup_loop (S (length (script s3))) group
      (enc_group_coordinator_req (fst (next_correlation_id (cs (cl s3)))) (client_id (cfg (cl s3))) group) 1
      (with_cs s3 (snd (next_correlation_id (cs (cl s3))))).
Proof.
  intros E Ej Ea Hwf s3.
  assert (Hnone : group_coordinator (cs (cl s3)) group = None).
  { unfold s3, after_retry. rewrite with_cs_cs. apply group_coordinator_removed. exact Hwf. }
  split; [|split; [exact Hnone|split]].
  - cbn [retry_loop]. rewrite E, Ej. destruct (attempt <? retry_max_attempts (cfg (cl s2))) eqn:Eb; [lia|reflexivity].
  - apply after_retry_wf. exact Hwf.
  - rewrite ggc_unfold, Hnone. reflexivity.
Qed.

Theorem C14_commit_giveup_forgets : forall f group req attempt s c tps s2 code,
  exchange_attempt dec_offset_commit_resp group req s = (Ok (c, tps), s2) ->
  commit_scan tps = ScanRetry code true ->
  retry_max_attempts (cfg (cl s2)) <= attempt -> gc_wf (cs (cl s2)) ->
  let s3 := after_retry group true s2 in
  code = KC_NotCoordinatorForGroup /\
  commit_loop (S f) group req attempt s = (Err (EKafka KC_NotCoordinatorForGroup), s3) /\
  group_coordinator (cs (cl s3)) group = None /\ gc_wf (cs (cl s3)) /\
  get_group_coordinator group s3 =
    group_lookup_loop (S (length (script s3))) group
      (enc_group_coordinator_req (fst (next_correlation_id (cs (cl s3)))) (client_id (cfg (cl s3))) group) 1
      (with_cs s3 (snd (next_correlation_id (cs (cl s3))))).
Proof.
  intros f group req attempt s c tps s2 code E Es Ea Hwf s3.
  assert (Ej : commit_judge (c, tps) = VRetry code true) by (unfold commit_judge; cbn [snd]; rewrite Es; reflexivity).
  assert (Hc : code = KC_NotCoordinatorForGroup).
  { destruct (commit_scan_retry _ _ _ Es) as [[Hx _]|[_ Hx]]; [discriminate|exact Hx]. }
  split; [exact Hc|]. rewrite commit_loop_eq. rewrite <- Hc.
  exact (retry_loop_giveup _ _ _ _ f _ _ _ _ _ E Ej Ea Hwf).
Qed.

Theorem C14_group_fetch_giveup_forgets : forall f group req attempt s c tps s2 code,
  exchange_attempt dec_offset_fetch_resp group req s = (Ok (c, tps), s2) ->
  group_scan tps [] = inl (inr (code, true)) ->
  retry_max_attempts (cfg (cl s2)) <= attempt -> gc_wf (cs (cl s2)) ->
  let s3 := after_retry group true s2 in
  code = KC_NotCoordinatorForGroup /\
  group_fetch_loop (S f) group req attempt s = (Err (EKafka KC_NotCoordinatorForGroup), s3) /\
  group_coordinator (cs (cl s3)) group = None /\ gc_wf (cs (cl s3)) /\
  get_group_coordinator group s3 =
    group_lookup_loop (S (length (script s3))) group
      (enc_group_coordinator_req (fst (next_correlation_id (cs (cl s3)))) (client_id (cfg (cl s3))) group) 1
      (with_cs s3 (snd (next_correlation_id (cs (cl s3))))).
Proof.
  intros f group req attempt s c tps s2 code E Es Ea Hwf s3.
  assert (Ej : fetch_judge (c, tps) = VRetry code true) by (unfold fetch_judge; cbn [snd]; rewrite Es; reflexivity).
  assert (Hc : code = KC_NotCoordinatorForGroup).
  { destruct (group_scan_retry _ _ _ _ Es) as [[Hx _]|[_ Hx]]; [discriminate|exact Hx]. }
  split; [exact Hc|]. rewrite group_fetch_loop_eq. rewrite <- Hc.
  exact (retry_loop_giveup _ _ _ _ f _ _ _ _ _ E Ej Ea Hwf).
Qed.

(* ================================================================================== *)
(* 3. no Kafka error code comes from the transport, the decoders or the encoders      *)
(* ================================================================================== *)

Definition rnk {A} (x : res A) : Prop := forall c, x <> Err (EKafka c).
Definition dnk {A} (d : dec A) : Prop := forall bs, rnk (d bs).
Definition nokafka {A} (m : M A) : Prop := forall s r s', m s = (r, s') -> rnk r.

Lemma rnk_ok {A} (a : A) : rnk (Ok a).
Proof. intros c H. discriminate. Qed.
Lemma rnk_panic {A} w : rnk (@Panic A w).
Proof. intros c H. discriminate. Qed.
Lemma rnk_bind {A B} (x : res A) (f : A -> res B) : rnk x -> (forall a, rnk (f a)) -> rnk (bind x f).
Proof.
  intros Hx Hf c. destruct x as [a|e|w]; cbn [bind]; [apply Hf| |discriminate].
  intros H. inversion H; subst. exact (Hx c eq_refl).
Qed.

Lemma cread_dnk n : dnk (cread n).
Proof. intros bs c. unfold cread. destruct (Nat.ltb _ _); discriminate. Qed.
Lemma dec_i16_dnk : dnk dec_i16.
Proof. intros bs. unfold dec_i16. apply rnk_bind; [apply cread_dnk|intros [x r]; apply rnk_ok]. Qed.
Lemma dec_i32_dnk : dnk dec_i32.
Proof. intros bs. unfold dec_i32. apply rnk_bind; [apply cread_dnk|intros [x r]; apply rnk_ok]. Qed.
Lemma dec_i64_dnk : dnk dec_i64.
Proof. intros bs. unfold dec_i64. apply rnk_bind; [apply cread_dnk|intros [x r]; apply rnk_ok]. Qed.
Lemma dec_string_dnk : dnk dec_string.
Proof.
  intros bs. unfold dec_string. apply rnk_bind; [apply dec_i16_dnk|]. intros [len r].
  destruct (len <=? 0); [apply rnk_ok|]. cbv zeta. destruct (_ && _); [apply rnk_ok|]. intros c H. discriminate.
Qed.
Lemma dec_many_dnk {A} (d : dec A) : dnk d -> forall fuel count, dnk (dec_many d fuel count).
Proof.
  intros Hd. induction fuel as [|f IH]; intros count bs; cbn [dec_many]; destruct (count <=? 0);
    try apply rnk_ok.
  - intros c H. discriminate.
  - apply rnk_bind; [apply Hd|]. intros [x r]. apply rnk_bind; [apply IH|]. intros [xs r']. apply rnk_ok.
Qed.
Lemma dec_vec_dnk {A} sz (d : dec A) : dnk d -> dnk (dec_vec sz d).
Proof.
  intros Hd bs. unfold dec_vec. apply rnk_bind; [apply dec_i32_dnk|]. intros [len r].
  destruct (len <=? 0); [apply rnk_ok|]. apply dec_many_dnk. exact Hd.
Qed.
Lemma dec_tps_dnk {P} psize (dp : dec P) : dnk dp -> dnk (dec_tps psize dp).
Proof.
  intros Hd. unfold dec_tps. apply dec_vec_dnk. intros bs.
  apply rnk_bind; [apply dec_string_dnk|]. intros [t r].
  apply rnk_bind; [apply dec_vec_dnk; exact Hd|]. intros [ps r']. apply rnk_ok.
Qed.
Lemma dec_offset_commit_part_dnk : dnk dec_offset_commit_part.
Proof.
  intros bs. unfold dec_offset_commit_part. apply rnk_bind; [apply dec_i32_dnk|]. intros [p r].
  apply rnk_bind; [apply dec_i16_dnk|]. intros [e r']. apply rnk_ok.
Qed.
Lemma dec_offset_fetch_part_dnk : dnk dec_offset_fetch_part.
Proof.
  intros bs. unfold dec_offset_fetch_part. apply rnk_bind; [apply dec_i32_dnk|]. intros [p r].
  apply rnk_bind; [apply dec_i64_dnk|]. intros [o r1]. apply rnk_bind; [apply dec_string_dnk|]. intros [m r2].
  apply rnk_bind; [apply dec_i16_dnk|]. intros [e r3]. apply rnk_ok.
Qed.
Lemma dec_offset_commit_resp_dnk : dnk dec_offset_commit_resp.
Proof.
  intros bs. unfold dec_offset_commit_resp, dec_corr. apply rnk_bind; [apply dec_i32_dnk|]. intros [c r].
  apply rnk_bind; [apply dec_tps_dnk, dec_offset_commit_part_dnk|]. intros [tps r']. apply rnk_ok.
Qed.
Lemma dec_offset_fetch_resp_dnk : dnk dec_offset_fetch_resp.
Proof.
  intros bs. unfold dec_offset_fetch_resp, dec_corr. apply rnk_bind; [apply dec_i32_dnk|]. intros [c r].
  apply rnk_bind; [apply dec_tps_dnk, dec_offset_fetch_part_dnk|]. intros [tps r']. apply rnk_ok.
Qed.

(* encoders *)
Lemma enc_str_rnk x : rnk (enc_str x).
Proof. intros c. unfold enc_str. destruct (_ <=? _); discriminate. Qed.
Lemma enc_header_rnk k v corr cid : rnk (enc_header k v corr cid).
Proof. unfold enc_header. apply rnk_bind; [apply enc_str_rnk|intros a; apply rnk_ok]. Qed.
Lemma enc_all_rnk {A} (f : A -> res bytes) xs : (forall x, rnk (f x)) -> rnk (enc_all f xs).
Proof.
  intros Hf. induction xs as [|x xs IH]; cbn [enc_all]; [apply rnk_ok|].
  apply rnk_bind; [apply Hf|]. intros a. apply rnk_bind; [exact IH|]. intros b. apply rnk_ok.
Qed.
Lemma enc_array_rnk {A} (f : A -> res bytes) xs : (forall x, rnk (f x)) -> rnk (enc_array f xs).
Proof.
  intros Hf. unfold enc_array. destruct (_ <=? _); [|intros c H; discriminate].
  apply rnk_bind; [apply enc_all_rnk; exact Hf|]. intros b. apply rnk_ok.
Qed.
Lemma enc_tps_rnk {P} (encp : P -> res bytes) tps : (forall x, rnk (encp x)) -> rnk (enc_tps encp tps).
Proof.
  intros Hf. unfold enc_tps. apply enc_array_rnk. intros [t ps].
  apply rnk_bind; [apply enc_str_rnk|]. intros n. apply rnk_bind; [apply enc_array_rnk; exact Hf|]. intros b. apply rnk_ok.
Qed.
Lemma enc_offset_commit_req_rnk corr cid group version tps : rnk (enc_offset_commit_req corr cid group version tps).
Proof.
  unfold enc_offset_commit_req. destruct (negb _); [apply rnk_panic|].
  apply rnk_bind; [apply enc_header_rnk|]. intros h. apply rnk_bind; [apply enc_str_rnk|]. intros g.
  apply rnk_bind; [apply enc_str_rnk|]. intros empty. cbv zeta.
  apply rnk_bind; [apply enc_tps_rnk; intros [p off]; apply rnk_ok|]. intros b. apply rnk_ok.
Qed.
Lemma enc_offset_fetch_req_rnk corr cid group version tps : rnk (enc_offset_fetch_req corr cid group version tps).
Proof.
  unfold enc_offset_fetch_req.
  apply rnk_bind; [apply enc_header_rnk|]. intros h. apply rnk_bind; [apply enc_str_rnk|]. intros g.
  apply rnk_bind; [apply enc_tps_rnk; intros p; apply rnk_ok|]. intros b. apply rnk_ok.
Qed.

(* transport *)
Lemma nokafka_ret {A} (a : A) : nokafka (ret a).
Proof. intros s r s' H. inversion H; subst. apply rnk_ok. Qed.
Lemma nokafka_fail {A} e : (forall c, e <> EKafka c) -> nokafka (@fail A e).
Proof. intros He s r s' H c. inversion H; subst. intros E. inversion E; subst. exact (He c eq_refl). Qed.
Lemma nokafka_lift {A} (x : res A) : rnk x -> nokafka (lift x).
Proof. intros Hx s r s' H. inversion H; subst. exact Hx. Qed.
Lemma nokafka_get_client : nokafka get_client.
Proof. intros s r s' H. inversion H; subst. apply rnk_ok. Qed.
Lemma nokafka_set_client c : nokafka (set_client c).
Proof. intros s r s' H. inversion H; subst. apply rnk_ok. Qed.
Lemma nokafka_io op : nokafka (io op).
Proof. intros s r s' H c. unfold io in H. destruct (script s); inversion H; subst; discriminate. Qed.
Lemma nokafka_bind {A B} (m : M A) (f : A -> M B) : nokafka m -> (forall a, nokafka (f a)) -> nokafka (mbind m f).
Proof.
  intros Hm Hf s r s' H. bind_inv H a s1 H1 H2.
  - eapply Hf, H2.
  - subst r. intros c E. inversion E; subst. exact (Hm _ _ _ H1 c eq_refl).
  - subst r. apply rnk_panic.
Qed.
Lemma nokafka_with_fuel {A} (f : nat -> M A) : (forall n, nokafka (f n)) -> nokafka (with_fuel f).
Proof. intros Hf s r s' H. unfold with_fuel in H. eapply Hf, H. Qed.

Ltac nk_fail := apply nokafka_fail; intros ? ?; discriminate.

Lemma nokafka_write_all fuel h : forall buf, nokafka (write_all fuel h buf).
Proof.
  induction fuel as [|f IH]; intros [|b0 buf]; cbn [write_all]; try apply nokafka_ret; try nk_fail.
  apply nokafka_bind; [apply nokafka_io|].
  intros [ok|k| |e|bs| |e|]; try nk_fail; [|apply IH].
  destruct (k <=? 0); [nk_fail|apply IH].
Qed.
Lemma nokafka_read_exact fuel h : forall n acc, nokafka (read_exact fuel h n acc).
Proof.
  induction fuel as [|f IH]; intros n acc; cbn [read_exact]; destruct (n <=? 0);
    try apply nokafka_ret; try nk_fail.
  apply nokafka_bind; [apply nokafka_io|].
  intros [ok|k| |e|[|b0 bs]| |e|]; try nk_fail; apply IH.
Qed.
Lemma nokafka_read_chunks fuel h : forall rem acc, nokafka (read_chunks fuel h rem acc).
Proof.
  induction fuel as [|f IH]; intros rem acc; cbn [read_chunks]; destruct (rem <=? 0);
    try apply nokafka_ret; try nk_fail.
  cbv zeta. apply nokafka_bind; [apply nokafka_with_fuel; intros g; apply nokafka_read_exact|intros b; apply IH].
Qed.
Lemma nokafka_send h msg : nokafka (send h msg).
Proof.
  apply nokafka_bind; [apply nokafka_with_fuel; intros n; apply nokafka_write_all|intros _; apply nokafka_ret].
Qed.
Lemma nokafka_get_response_bytes h : nokafka (get_response_bytes h).
Proof.
  apply nokafka_bind.
  - apply nokafka_bind; [apply nokafka_with_fuel; intros g; apply nokafka_read_exact|].
    intros b. cbv zeta. destruct (be_dec_s b <? 0); [nk_fail|apply nokafka_ret].
  - intros size. apply nokafka_with_fuel. intros f. apply nokafka_read_chunks.
Qed.
Lemma nokafka_new_conn h : nokafka (new_conn h).
Proof.
  apply nokafka_bind; [apply nokafka_io|].
  intros [[|]|k| |e|bs| |e|]; try nk_fail. apply nokafka_ret.
Qed.
Lemma nokafka_shutdown h : nokafka (shutdown h).
Proof. apply nokafka_bind; [apply nokafka_io|intros _; apply nokafka_ret]. Qed.
Lemma nokafka_set_conns x : nokafka (set_conns x).
Proof. apply nokafka_bind; [apply nokafka_get_client|intros c; apply nokafka_set_client]. Qed.
Lemma nokafka_get_conn h : nokafka (get_conn h).
Proof.
  apply nokafka_bind; [apply nokafka_get_client|]. intros c. destruct (in_pool h (conns c)).
  - destruct (idle_expired (cfg c)); [|apply nokafka_ret].
    apply nokafka_bind; [apply nokafka_new_conn|intros _; apply nokafka_shutdown].
  - apply nokafka_bind; [apply nokafka_new_conn|intros _; apply nokafka_set_conns].
Qed.
Lemma nokafka_send_request h req : rnk req -> nokafka (send_request h req).
Proof. intros Hq. apply nokafka_bind; [apply nokafka_lift; exact Hq|intros p; apply nokafka_send]. Qed.
Lemma nokafka_get_response {A} (d : dec A) h : dnk d -> nokafka (get_response d h).
Proof.
  intros Hd. apply nokafka_bind; [apply nokafka_get_response_bytes|]. intros b.
  apply nokafka_bind; [apply nokafka_lift, Hd|]. intros [a rest]. apply nokafka_ret.
Qed.
Lemma nokafka_send_receive {A} (d : dec A) h req : dnk d -> rnk req -> nokafka (send_receive d h req).
Proof.
  intros Hd Hq. apply nokafka_bind; [apply nokafka_get_conn|]. intros _.
  apply nokafka_bind; [apply nokafka_send_request; exact Hq|]. intros _. apply nokafka_get_response. exact Hd.
Qed.

(* ================================================================================== *)
(* 4. a call that returns "not coordinator for group" has dropped the cached coordinator *)
(* ================================================================================== *)

Lemma kc_14_16 : KC_GroupLoadInProgress <> KC_NotCoordinatorForGroup.
Proof. cbv. discriminate. Qed.
Lemma kc_3_16 : KC_UnknownTopicOrPartition <> KC_NotCoordinatorForGroup.
Proof. cbv. discriminate. Qed.

(* the only way a verdict carries code 16 is "retry, and reset the coordinator" *)
Definition judge_16 {A B} (judge : A -> verdict B) : Prop :=
  forall a, match judge a with
            | VDone _ => True
            | VFatal c => c <> KC_NotCoordinatorForGroup
            | VRetry code reset => code = KC_NotCoordinatorForGroup -> reset = true
            end.

Lemma commit_scan_parts_fatal ps c : commit_scan_parts ps = ScanFatal c -> c <> KC_NotCoordinatorForGroup.
Proof.
  induction ps as [|[p e] ps IH]; cbn [commit_scan_parts]; [discriminate|].
  destruct (from_protocol e) as [c0|]; [|exact IH].
  destruct (c0 =? KC_GroupLoadInProgress); [discriminate|].
  destruct (c0 =? KC_NotCoordinatorForGroup) eqn:E2; [discriminate|]. intros H. inversion H; subst. lia.
Qed.
Lemma commit_scan_fatal tps c : commit_scan tps = ScanFatal c -> c <> KC_NotCoordinatorForGroup.
Proof.
  induction tps as [|[t ps] tps IH]; cbn [commit_scan]; [discriminate|].
  destruct (commit_scan_parts ps) as [|c0 r|c0] eqn:E; [exact IH|discriminate|].
  intros H. inversion H; subst. exact (commit_scan_parts_fatal _ _ E).
Qed.
Lemma group_scan_parts_fatal ps : forall acc c, group_scan_parts ps acc = GFatal c -> c <> KC_NotCoordinatorForGroup.
Proof.
  induction ps as [|p ps IH]; intros acc c; cbn [group_scan_parts]; [discriminate|].
  destruct (get_offsets p) as [v|c0]; [apply IH|].
  destruct (c0 =? KC_GroupLoadInProgress); [discriminate|].
  destruct (c0 =? KC_NotCoordinatorForGroup) eqn:E2; [discriminate|]. intros H. inversion H; subst. lia.
Qed.
Lemma group_scan_fatal tps : forall m c, group_scan tps m = inr c -> c <> KC_NotCoordinatorForGroup.
Proof.
  induction tps as [|[t ps] tps IH]; intros m c; cbn [group_scan]; [discriminate|].
  destruct (group_scan_parts ps []) as [vs|c0 r|c0] eqn:E; [apply IH|discriminate|].
  intros H. inversion H; subst. exact (group_scan_parts_fatal _ _ _ E).
Qed.

Lemma commit_judge_16 : judge_16 commit_judge.
Proof.
  intros a. pose proof (commit_judge_spec a) as Hs. destruct (commit_judge a) as [b|c|code reset]; [exact I| |].
  - exact (commit_scan_fatal _ _ Hs).
  - destruct Hs as [_ [[_ ->]|[-> _]]]; [intros H; exfalso; exact (kc_14_16 H)|reflexivity].
Qed.
Lemma fetch_judge_16 : judge_16 fetch_judge.
Proof.
  intros a. pose proof (fetch_judge_spec a) as Hs. destruct (fetch_judge a) as [b|c|code reset]; [exact I| |].
  - exact (group_scan_fatal _ _ _ Hs).
  - destruct Hs as [_ [[_ ->]|[-> _]]]; [intros H; exfalso; exact (kc_14_16 H)|reflexivity].
Qed.

(* an attempt that fails with a Kafka code failed in the coordinator lookup: nothing is cached *)
Lemma exchange_attempt_kafka_err {A} (d : dec A) group req s c s2 :
  dnk d -> rnk req -> exchange_attempt d group req s = (Err (EKafka c), s2) -> gc_wf (cs (cl s)) ->
  group_coordinator (cs (cl s2)) group = None.
Proof.
  intros Hd Hq H Hwf. unfold exchange_attempt, mbind in H.
  destruct (get_group_coordinator group s) as [[h|e|w] s1] eqn:Eg.
  - exfalso. exact (nokafka_send_receive d h req Hd Hq _ _ _ H c eq_refl).
  - inversion H; subst. exact (proj2 (ggc_outcome _ _ _ _ Eg Hwf)).
  - discriminate.
Qed.

Lemma retry_loop_forgets {A B} (d : dec A) (judge : A -> verdict B) group req :
  dnk d -> rnk req -> judge_16 judge ->
  forall fuel attempt s s',
    retry_loop d judge fuel group req attempt s = (Err (EKafka KC_NotCoordinatorForGroup), s') ->
    gc_wf (cs (cl s)) -> group_coordinator (cs (cl s')) group = None.
Proof.
  intros Hd Hq Hj. induction fuel as [|f IH]; intros attempt s s' H Hwf; [discriminate|].
  cbn [retry_loop] in H. destruct (exchange_attempt d group req s) as [[a|e|w] s2] eqn:E.
  - pose proof (proj1 (exchange_attempt_outcome _ _ _ _ _ _ E Hwf)) as W2. specialize (Hj a).
    destruct (judge a) as [b|c|code reset]; [discriminate|inversion H; subst; contradiction|].
    destruct (attempt <? retry_max_attempts (cfg (cl s2))).
    + eapply IH; [exact H|]. apply after_retry_wf. exact W2.
    + inversion H; subst. rewrite (Hj eq_refl). unfold after_retry. rewrite with_cs_cs.
      apply group_coordinator_removed. exact W2.
  - inversion H; subst. eapply exchange_attempt_kafka_err; eassumption.
  - discriminate.
Qed.

(* Whatever the answers, the limit and the attempt on which it happens: when an offset commit or a
   group offset fetch ends with "not coordinator for group", the client no longer holds a cached
   coordinator for the group, so its next group call begins with a coordinator lookup and cannot
   go to the broker that has just declined.  (req is the encoded request or the encoder's error;
   the encoders never produce a Kafka code, see the public-call versions below.) *)
Definition lookup_of (group : bytes) (s : st) : res bytes * st :=
  group_lookup_loop (S (length (script s))) group
    (enc_group_coordinator_req (fst (next_correlation_id (cs (cl s)))) (client_id (cfg (cl s))) group) 1
    (with_cs s (snd (next_correlation_id (cs (cl s))))).

Lemma uncached_looks_up group s : group_coordinator (cs (cl s)) group = None ->
  get_group_coordinator group s = lookup_of group s.
Proof. intros H. rewrite ggc_unfold, H. reflexivity. Qed.

Theorem C14_loop_not_coordinator_forgets : forall fuel group req attempt s s',
  (forall c, req <> Err (EKafka c)) -> gc_wf (cs (cl s)) ->
  (commit_loop fuel group req attempt s = (Err (EKafka KC_NotCoordinatorForGroup), s') \/
   group_fetch_loop fuel group req attempt s = (Err (EKafka KC_NotCoordinatorForGroup), s')) ->
  group_coordinator (cs (cl s')) group = None /\ gc_wf (cs (cl s')) /\
  get_group_coordinator group s' = lookup_of group s'.
Proof.
  intros fuel group req attempt s s' Hq Hwf H.
  assert (G : group_coordinator (cs (cl s')) group = None /\ gc_wf (cs (cl s'))).
  { destruct H as [H|H].
    - rewrite commit_loop_eq in H. split.
      + exact (retry_loop_forgets _ _ _ _ dec_offset_commit_resp_dnk Hq commit_judge_16 _ _ _ _ H Hwf).
      + exact (retry_loop_wf _ _ _ _ _ _ _ _ _ H Hwf).
    - rewrite group_fetch_loop_eq in H. split.
      + exact (retry_loop_forgets _ _ _ _ dec_offset_fetch_resp_dnk Hq fetch_judge_16 _ _ _ _ H Hwf).
      + exact (retry_loop_wf _ _ _ _ _ _ _ _ _ H Hwf). }
  destruct G as [G W]. split; [exact G|]. split; [exact W|]. apply uncached_looks_up. exact G.
Qed.

Theorem C14_commit_offsets_not_coordinator_forgets : forall group os s s',
  commit_offsets group os s = (Err (EKafka KC_NotCoordinatorForGroup), s') -> gc_wf (cs (cl s)) ->
  group_coordinator (cs (cl s')) group = None /\ gc_wf (cs (cl s')) /\
  get_group_coordinator group s' = lookup_of group s'.
Proof.
  intros group os s s' H Hwf. rewrite commit_offsets_unfold in H. destruct (_ <? 0); [discriminate|].
  destruct (commit_tps (cs (cl s)) os []) as [[|x xs]|].
  - discriminate.
  - eapply C14_loop_not_coordinator_forgets; [| |left; exact H]; [|exact Hwf].
    intros c. unfold commit_req. apply enc_offset_commit_req_rnk.
  - inversion H.
Qed.

Theorem C14_fetch_group_offsets_not_coordinator_forgets : forall group ps s s',
  fetch_group_offsets group ps s = (Err (EKafka KC_NotCoordinatorForGroup), s') -> gc_wf (cs (cl s)) ->
  group_coordinator (cs (cl s')) group = None /\ gc_wf (cs (cl s')) /\
  get_group_coordinator group s' = lookup_of group s'.
Proof.
  intros group ps s s' H Hwf. rewrite fetch_group_offsets_unfold in H. destruct (_ <? 0); [discriminate|].
  destruct (group_fetch_tps (cs (cl s)) ps []) as [tps|].
  - eapply C14_loop_not_coordinator_forgets; [| |right; exact H]; [|exact Hwf].
    intros c. unfold fetch_req. apply enc_offset_fetch_req_rnk.
  - inversion H.
Qed.

(* ================================================================================== *)
(* 5. non-vacuity: concrete runs                                                      *)
(* ================================================================================== *)

Lemma gc_wf_mkst n cached sc : gc_wf (cs (cl (mkst n cached sc))).
Proof. unfold gc_wf. destruct cached; cbn; repeat constructor. intros []. Qed.

Definition not_read (e : ev_op) : bool := match e with ERead _ _ => false | _ => true end.
Definition fetch_p_corr (corr : Z) : bytes := unres (enc_offset_fetch_req corr (tag "cid") (tag "g") 1 [(tag "t", [0])]).
Definition commit_p_corr (corr : Z) : bytes :=
  unres (enc_offset_commit_req corr (tag "cid") (tag "g") 1 [(tag "t", [(0, 5)])]).
(* the same client, fed further answers *)
Definition more (s : st) (sc : list ev_out) : st := st_with s sc (trace s).

(* C14_lookup_caches: the lookup is retried once (15), then names b1; b1 is cached and a second call
   of get_group_coordinator performs no I/O *)
Example C14_lookup_caches_ex :
  let s := mkst 3 false (answer (coord_resp 1 15 0 [] 0) ++ answer (coord_resp 1 0 1 (tag "b1") 9092)) in
  let '(r, s') := get_group_coordinator (tag "g") s in
  r = Ok h1 /\ group_coordinator (cs (cl s)) (tag "g") = None /\
  group_coordinator (cs (cl s')) (tag "g") = Some h1 /\ get_group_coordinator (tag "g") s' = (Ok h1, s').
Proof. vm_compute. repeat split. Qed.
(* ... and a failed lookup caches nothing *)
Example C14_lookup_fails_ex :
  let s := mkst 1 false (answer (coord_resp 1 15 0 [] 0)) in
  let '(r, s') := get_group_coordinator (tag "g") s in
  r = Err (EKafka KC_GroupCoordinatorNotAvailable) /\ group_coordinator (cs (cl s')) (tag "g") = None.
Proof. vm_compute. repeat split. Qed.

(* C14_group_fetch_giveup_forgets / C14_commit_giveup_forgets: limit 1, b1 cached, b1 answers 16 *)
Example C14_group_fetch_giveup_ex :
  let s := after_corr (mkst 1 true (answer (ofetch_resp 1 0 16))) in
  let '(r, s2) := exchange_attempt dec_offset_fetch_resp (tag "g") (Ok fetch_p) s in
  (exists c tps, r = Ok (c, tps) /\ group_scan tps [] = inl (inr (KC_NotCoordinatorForGroup, true))) /\
  retry_max_attempts (cfg (cl s2)) <= 1 /\
  group_coordinator (cs (cl s2)) (tag "g") = Some h1 /\
  group_coordinator (cs (cl (after_retry (tag "g") true s2))) (tag "g") = None.
Proof. vm_compute. repeat split; try discriminate. eexists _, _. split; reflexivity. Qed.
Example C14_commit_giveup_ex :
  let s := after_corr (mkst 1 true (answer (commit_resp 1 16))) in
  let '(r, s2) := exchange_attempt dec_offset_commit_resp (tag "g") (Ok commit_p) s in
  (exists c tps, r = Ok (c, tps) /\ commit_scan tps = ScanRetry KC_NotCoordinatorForGroup true) /\
  retry_max_attempts (cfg (cl s2)) <= 1 /\
  group_coordinator (cs (cl s2)) (tag "g") = Some h1 /\
  group_coordinator (cs (cl (after_retry (tag "g") true s2))) (tag "g") = None.
Proof. vm_compute. repeat split; try discriminate. eexists _, _. split; reflexivity. Qed.

(* C14_fetch_group_offsets_not_coordinator_forgets, and what it buys: retries disabled (limit 1), the
   group has moved from b1 to b2.  The fetch sends its single request to b1 and reports 16; the
   client has forgotten b1, so the next fetch looks the coordinator up (asking b1, the only pooled
   connection), is told b2, connects to b2 and succeeds there.  Nothing is sent to b1 but the lookup. *)
Example C14_fetch_then_fetch_ex :
  let s := mkst 1 true (answer (ofetch_resp 1 0 16)) in
  let '(r1, s1) := fetch_group_offsets (tag "g") [(tag "t", 0)] s in
  r1 = Err (EKafka KC_NotCoordinatorForGroup) /\
  filter not_read (performed s s1) = [EWrite h1 (frame (fetch_p_corr 1))] /\
  group_coordinator (cs (cl s1)) (tag "g") = None /\
  let s1' := more s1 (answer (coord_resp 3 0 2 (tag "b2") 9092) ++ [OConn true] ++ answer (ofetch_resp 2 77 0)) in
  let '(r2, s2) := fetch_group_offsets (tag "g") [(tag "t", 0)] s1' in
  r2 = Ok [(tag "t", [(0, 77)])] /\
  filter not_read (performed s1' s2)
    = [EWrite h1 (frame (lookup_p 3)); EConnect h2; EWrite h2 (frame (fetch_p_corr 2))] /\
  group_coordinator (cs (cl s2)) (tag "g") = Some h2.
Proof. vm_compute. repeat split. Qed.
(* the same with a commit as the following call *)
Example C14_fetch_then_commit_ex :
  let s := mkst 1 true (answer (ofetch_resp 1 0 16)) in
  let '(r1, s1) := fetch_group_offsets (tag "g") [(tag "t", 0)] s in
  r1 = Err (EKafka KC_NotCoordinatorForGroup) /\
  let s1' := more s1 (answer (coord_resp 3 0 2 (tag "b2") 9092) ++ [OConn true] ++ answer (commit_resp 2 0)) in
  let '(r2, s2) := commit_offsets (tag "g") the_commit s1' in
  r2 = Ok tt /\
  filter not_read (performed s1' s2)
    = [EWrite h1 (frame (lookup_p 3)); EConnect h2; EWrite h2 (frame (commit_p_corr 2))].
Proof. vm_compute. repeat split. Qed.
(* C14_commit_offsets_not_coordinator_forgets: limit 2, both brokers decline in turn *)
Example C14_commit_not_coordinator_ex :
  let s := mkst 2 true (answer (commit_resp 1 16) ++ answer (coord_resp 2 0 2 (tag "b2") 9092)
                        ++ [OConn true] ++ answer (commit_resp 1 16)) in
  let '(r, s') := commit_offsets (tag "g") the_commit s in
  r = Err (EKafka KC_NotCoordinatorForGroup) /\ attempts (frame commit_p) s s' = 2 /\
  group_coordinator (cs (cl s')) (tag "g") = None.
Proof. vm_compute. repeat split. Qed.

(* ================================================================================== *)
(* 6. one iteration of each loop, read off the answer as it is on the wire            *)
(* ================================================================================== *)
(* The theorems of Props/C14 about retrying / re-lookup take the verdict of commit_scan / group_scan as
   a hypothesis; here the verdict is tied to the error codes of the answer in wire order, so that
   "which answers are retried, which reset the coordinator, which are final, and what is counted"
   is stated about the broker's answer itself. *)

Fixpoint first_code (es : list Z) : option Z :=
  match es with
  | [] => None
  | e :: r => match from_protocol e with Some c => Some c | None => first_code r end
  end.
(* group offset fetch: code 3 on a partition means "nothing committed" and is not an error *)
Fixpoint first_gcode (es : list Z) : option Z :=
  match es with
  | [] => None
  | e :: r => match from_protocol e with
              | Some c => if c =? KC_UnknownTopicOrPartition then first_gcode r else Some c
              | None => first_gcode r
              end
  end.
Definition commit_codes (tps : list (bytes * list (Z * Z))) : list Z :=
  flat_map (fun tp => map snd (snd tp)) tps.
Definition fetch_codes (tps : list (bytes * list offset_fetch_part)) : list Z :=
  flat_map (fun tp => map ofp_error (snd tp)) tps.

Lemma first_code_app a b :
  first_code (a ++ b) = match first_code a with Some c => Some c | None => first_code b end.
Proof.
  induction a as [|e a IH]; cbn [app first_code]; [reflexivity|]. destruct (from_protocol e); [reflexivity|exact IH].
Qed.
Lemma first_gcode_app a b :
  first_gcode (a ++ b) = match first_gcode a with Some c => Some c | None => first_gcode b end.
Proof.
  induction a as [|e a IH]; cbn [app first_gcode]; [reflexivity|].
  destruct (from_protocol e) as [c|]; [destruct (c =? KC_UnknownTopicOrPartition)|]; try exact IH; reflexivity.
Qed.

Definition scan_of (o : option Z) : scan :=
  match o with
  | None => ScanOk
  | Some c => if c =? KC_GroupLoadInProgress then ScanRetry c false
              else if c =? KC_NotCoordinatorForGroup then ScanRetry c true else ScanFatal c
  end.

Lemma commit_scan_parts_wire ps : commit_scan_parts ps = scan_of (first_code (map snd ps)).
Proof.
  induction ps as [|[p e] ps IH]; cbn [commit_scan_parts map snd first_code]; [reflexivity|].
  destruct (from_protocol e); [reflexivity|exact IH].
Qed.
Lemma commit_scan_wire tps : commit_scan tps = scan_of (first_code (commit_codes tps)).
Proof.
  induction tps as [|[t ps] tps IH]; [reflexivity|]. unfold commit_codes. cbn [commit_scan flat_map snd].
  rewrite first_code_app, commit_scan_parts_wire. fold (commit_codes tps).
  destruct (first_code (map snd ps)) as [c|]; [|exact IH]. cbn [scan_of].
  destruct (c =? KC_GroupLoadInProgress); [reflexivity|]. destruct (c =? KC_NotCoordinatorForGroup); reflexivity.
Qed.

Definition gscan_of (c : Z) : gscan :=
  if c =? KC_GroupLoadInProgress then GRetry c false
  else if c =? KC_NotCoordinatorForGroup then GRetry c true else GFatal c.

Lemma group_scan_parts_wire ps : forall acc,
  match first_gcode (map ofp_error ps) with
  | None => exists vs, group_scan_parts ps acc = GOk vs
  | Some c => group_scan_parts ps acc = gscan_of c
  end.
Proof.
  induction ps as [|p ps IH]; intros acc; cbn [map first_gcode group_scan_parts]; [exists acc; reflexivity|].
  unfold get_offsets. destruct (from_protocol (ofp_error p)) as [c|]; [|apply IH].
  destruct (c =? KC_UnknownTopicOrPartition); [apply IH|reflexivity].
Qed.
Lemma group_scan_wire tps : forall m,
  match first_gcode (fetch_codes tps) with
  | None => exists m', group_scan tps m = inl (inl m')
  | Some c => group_scan tps m =
      if c =? KC_GroupLoadInProgress then inl (inr (c, false))
      else if c =? KC_NotCoordinatorForGroup then inl (inr (c, true)) else inr c
  end.
Proof.
  induction tps as [|[t ps] tps IH]; intros m; [exists m; reflexivity|]. unfold fetch_codes. cbn [group_scan flat_map snd].
  rewrite first_gcode_app. fold (fetch_codes tps). pose proof (group_scan_parts_wire ps []) as Hp.
  destruct (first_gcode (map ofp_error ps)) as [c|].
  - rewrite Hp. unfold gscan_of. destruct (c =? KC_GroupLoadInProgress); [reflexivity|].
    destruct (c =? KC_NotCoordinatorForGroup); reflexivity.
  - destruct Hp as [vs ->]. apply IH.
Qed.

(* offset commit: the first non-zero code of the answer decides.  14 (offsets loading): counted, retried
   with the coordinator kept; 16 (not coordinator): counted, the cached coordinator dropped whether or
   not an attempt is left; every other code (15 included) is final at once; no code: success. *)
Theorem C14_commit_step : forall f group req attempt s c tps s2,
  exchange_attempt dec_offset_commit_resp group req s = (Ok (c, tps), s2) ->
  commit_loop (S f) group req attempt s =
  match first_code (commit_codes tps) with
  | None => (Ok tt, s2)
  | Some code =>
      if code =? KC_GroupLoadInProgress then
        if attempt <? retry_max_attempts (cfg (cl s2)) then commit_loop f group req (attempt + 1) s2
        else (Err (EKafka code), s2)
      else if code =? KC_NotCoordinatorForGroup then
        let s3 := with_cs s2 (remove_group_coordinator (cs (cl s2)) group) in
        if attempt <? retry_max_attempts (cfg (cl s2)) then commit_loop f group req (attempt + 1) s3
        else (Err (EKafka code), s3)
      else (Err (EKafka code), s2)
  end.
Proof.
  intros f group req attempt s c tps s2 E. cbv zeta. rewrite !commit_loop_eq. cbn [retry_loop]. rewrite E.
  unfold commit_judge. cbn [snd]. rewrite commit_scan_wire.
  destruct (first_code (commit_codes tps)) as [code|]; [|reflexivity]. cbn [scan_of].
  destruct (code =? KC_GroupLoadInProgress).
  - unfold after_retry. destruct (attempt <? _); reflexivity.
  - destruct (code =? KC_NotCoordinatorForGroup); [|reflexivity].
    unfold after_retry. destruct (attempt <? _); reflexivity.
Qed.

Theorem C14_group_fetch_step : forall f group req attempt s c tps s2,
  exchange_attempt dec_offset_fetch_resp group req s = (Ok (c, tps), s2) ->
  match first_gcode (fetch_codes tps) with
  | None => exists m, group_fetch_loop (S f) group req attempt s = (Ok m, s2)
  | Some code =>
      group_fetch_loop (S f) group req attempt s =
      if code =? KC_GroupLoadInProgress then
        if attempt <? retry_max_attempts (cfg (cl s2)) then group_fetch_loop f group req (attempt + 1) s2
        else (Err (EKafka code), s2)
      else if code =? KC_NotCoordinatorForGroup then
        let s3 := with_cs s2 (remove_group_coordinator (cs (cl s2)) group) in
        if attempt <? retry_max_attempts (cfg (cl s2)) then group_fetch_loop f group req (attempt + 1) s3
        else (Err (EKafka code), s3)
      else (Err (EKafka code), s2)
  end.
Proof.
  intros f group req attempt s c tps s2 E. pose proof (group_scan_wire tps []) as Hw.
  destruct (first_gcode (fetch_codes tps)) as [code|].
  - cbv zeta. rewrite !group_fetch_loop_eq. cbn [retry_loop]. rewrite E. unfold fetch_judge. cbn [snd]. rewrite Hw.
    destruct (code =? KC_GroupLoadInProgress).
    + unfold after_retry. destruct (attempt <? _); reflexivity.
    + destruct (code =? KC_NotCoordinatorForGroup); [|reflexivity].
      unfold after_retry. destruct (attempt <? _); reflexivity.
  - destruct Hw as [m Hm]. exists m. rewrite group_fetch_loop_eq. cbn [retry_loop]. rewrite E.
    unfold fetch_judge. cbn [snd]. rewrite Hm. reflexivity.
Qed.

(* coordinator lookup: 15 (coordinator not available) is the one retried answer; it is counted against
   the limit starting from the first attempt, so a limit of 0 or 1 means exactly one lookup *)
Theorem C14_lookup_step : forall f group req attempt s resp s1,
  group_lookup_attempt req s = (Ok resp, s1) ->
  group_lookup_loop (S f) group req attempt s =
  match from_protocol (gc_error resp) with
  | None => (Ok (fst (set_group_coordinator (cs (cl s1)) group resp)),
             with_cs s1 (snd (set_group_coordinator (cs (cl s1)) group resp)))
  | Some code =>
      if (code =? KC_GroupCoordinatorNotAvailable) && (attempt <? retry_max_attempts (cfg (cl s1)))
      then group_lookup_loop f group req (attempt + 1) s1
      else (Err (EKafka code), s1)
  end.
Proof.
  intros f group req attempt s resp s1 E. rewrite lookup_loop_step, E.
  destruct (from_protocol (gc_error resp)) as [code|]; [|reflexivity].
  destruct (code =? KC_GroupCoordinatorNotAvailable); [|reflexivity]. cbn [andb].
  destruct (attempt <? _); reflexivity.
Qed.

Example C14_commit_step_ex :
  let s := after_corr (mkst 1 true (answer (commit_resp 1 16))) in
  let '(r, s2) := exchange_attempt dec_offset_commit_resp (tag "g") (Ok commit_p) s in
  exists c tps, r = Ok (c, tps) /\ first_code (commit_codes tps) = Some KC_NotCoordinatorForGroup.
Proof. vm_compute. eexists _, _. split; reflexivity. Qed.
Example C14_group_fetch_step_ex :
  let s := after_corr (mkst 1 true (answer (ofetch_resp 1 0 14))) in
  let '(r, s2) := exchange_attempt dec_offset_fetch_resp (tag "g") (Ok fetch_p) s in
  exists c tps, r = Ok (c, tps) /\ first_gcode (fetch_codes tps) = Some KC_GroupLoadInProgress.
Proof. vm_compute. eexists _, _. split; reflexivity. Qed.
Example C14_lookup_step_ex :
  let s := after_corr (mkst 0 false (answer (coord_resp 1 15 0 [] 0))) in
  let '(r, s1) := group_lookup_attempt (Ok (lookup_p 1)) s in
  exists resp, r = Ok resp /\ from_protocol (gc_error resp) = Some KC_GroupCoordinatorNotAvailable /\
               (1 <? retry_max_attempts (cfg (cl s1))) = false.
Proof. vm_compute. eexists. repeat split. Qed.

(* ================================================================================== *)
(* 7. fetch_group_topic_offset (the third public entry to the group offset fetch loop) *)
(* ================================================================================== *)

Definition topic_tps (topic : bytes) (ps : list Z) : list (bytes * list Z) :=
  fold_left (fun acc id => tp_add acc topic id) (iota_z (length ps) 0) [].

Lemma fetch_group_topic_offset_unfold group topic s :
  fetch_group_topic_offset group topic s =
  if offset_storage (cfg (cl s)) <? 0 then (Err EUnsetOffsetStorage, s)
  else match partitions_for (cs (cl s)) topic with
       | None => (Err (EKafka KC_UnknownTopicOrPartition), after_corr s)
       | Some ps =>
           match group_fetch_loop (S (length (script s))) group (fetch_req group s (topic_tps topic ps)) 1 (after_corr s) with
           | (Ok m, s') => (Ok (match assoc_bytes topic m with Some vs => vs | None => [] end), s')
           | (Err e, s') => (Err e, s')
           | (Panic w, s') => (Panic w, s')
           end
       end.
Proof.
  unfold fetch_group_topic_offset. unfold mbind at 1. unfold get_client at 1.
  destruct (offset_storage (cfg (cl s)) <? 0); [reflexivity|].
  destruct (partitions_for (cs (cl s)) topic) as [ps|]; [|reflexivity].
  unfold mbind at 1. unfold next_corr, mbind at 1, get_client at 1. cbn [next_correlation_id].
  reflexivity.
Qed.

Theorem C14_fetch_group_topic_offset : forall group topic s r s',
  fetch_group_topic_offset group topic s = (r, s') ->
  (* never out of fuel *)
  r <> Err EOutOfFuel /\
  (* at most max 1 limit offset fetch requests *)
  (forall ps p, partitions_for (cs (cl s)) topic = Some ps -> fetch_req group s (topic_tps topic ps) = Ok p ->
     attempts (frame p) s s' <= Z.max 1 (retry_max_attempts (cfg (cl s))) + interruptions s s') /\
  (* the cache stays well formed, and "not coordinator" as the result means the coordinator was dropped *)
  (gc_wf (cs (cl s)) ->
     gc_wf (cs (cl s')) /\
     (r = Err (EKafka KC_NotCoordinatorForGroup) ->
        group_coordinator (cs (cl s')) group = None /\ get_group_coordinator group s' = lookup_of group s')).
Proof.
  intros group topic s r s' H. rewrite fetch_group_topic_offset_unfold in H.
  destruct (offset_storage (cfg (cl s)) <? 0).
  { inversion H; subst. split; [discriminate|]. split.
    - intros ps p _ _. unfold attempts, interruptions. rewrite performed_refl, consumed_refl. cbn. lia.
    - intros Hwf. split; [exact Hwf|discriminate]. }
  destruct (partitions_for (cs (cl s)) topic) as [ps|].
  2:{ inversion H; subst. split; [discriminate|]. split; [intros ps p Hx; discriminate|].
      intros Hwf. split; [exact Hwf|]. intros Hr. inversion Hr. }
  destruct (group_fetch_loop _ _ _ _ _) as [r0 s0] eqn:E.
  assert (Hs : s' = s0) by (destruct r0; inversion H; reflexivity). subst s0.
  split; [|split].
  - assert (N : r0 <> Err EOutOfFuel).
    { rewrite group_fetch_loop_eq in E.
      eapply retry_loop_nofuel; [apply dec_offset_fetch_resp_nf|apply enc_offset_fetch_req_nofuel|exact E|]. cbn. lia. }
    destruct r0; inversion H; subst; try discriminate. intros Hx. apply N. inversion Hx. reflexivity.
  - intros ps' p Hps Hp. inversion Hps; subst ps'. rewrite Hp, group_fetch_loop_eq in E.
    assert (Hg : gc_short (frame p) (client_id (cfg (cl (after_corr s)))) group).
    { unfold fetch_req in Hp. apply fetch_req_gc_short in Hp. exact Hp. }
    destruct (retry_loop_bound _ _ _ _ _ _ _ _ _ E Hg) as [B _].
    pose proof (att_le_trans _ _ _ _ _ _ (after_corr_quiet (frame p) s) B) as [_ B'].
    unfold after_corr in B'. rewrite with_cs_cfg in B'. lia.
  - intros Hwf. assert (W : gc_wf (cs (cl s'))).
    { rewrite group_fetch_loop_eq in E. exact (retry_loop_wf _ _ _ _ _ _ _ _ _ E Hwf). }
    split; [exact W|]. intros ->. destruct r0 as [m|e|w]; inversion H; subst.
    destruct (C14_loop_not_coordinator_forgets (S (length (script s))) group
                (fetch_req group s (topic_tps topic ps)) 1 (after_corr s) s') as (G & _ & L);
      [intros c; unfold fetch_req; apply enc_offset_fetch_req_rnk|exact Hwf|right; exact E|].
    split; assumption.
Qed.

Example C14_fetch_group_topic_offset_ex :
  let s := mkst 2 true (answer (ofetch_resp 1 0 14) ++ answer (ofetch_resp 1 0 16)
                        ++ answer (coord_resp 2 0 2 (tag "b2") 9092)) in
  let '(r, s') := fetch_group_topic_offset (tag "g") (tag "t") s in
  r = Err (EKafka KC_NotCoordinatorForGroup) /\ partitions_for (cs (cl s)) (tag "t") = Some [0] /\
  fetch_req (tag "g") s (topic_tps (tag "t") [0]) = Ok fetch_p /\ attempts (frame fetch_p) s s' = 2 /\
  group_coordinator (cs (cl s')) (tag "g") = None /\ script s' = answer (coord_resp 2 0 2 (tag "b2") 9092).
Proof. vm_compute. repeat split. Qed.

Print Assumptions C14_cache_wf_invariant.
Print Assumptions C14_lookup_caches.
Print Assumptions C14_commit_giveup_forgets.
Print Assumptions C14_group_fetch_giveup_forgets.
Print Assumptions C14_loop_not_coordinator_forgets.
Print Assumptions C14_commit_offsets_not_coordinator_forgets.
Print Assumptions C14_fetch_group_offsets_not_coordinator_forgets.
Print Assumptions C14_commit_step.
Print Assumptions C14_group_fetch_step.
Print Assumptions C14_lookup_step.
Print Assumptions C14_fetch_group_topic_offset.
