(* C07, additional theorems, fourth pass (mutation adequacy, round-seven seed).

   seeded/C07-7 (consumer/state.rs load_partition_offsets keeps the offsets reported by
   KafkaClient::fetch_offsets in a Vec indexed by the partition id and sized by the NUMBER OF
   REPORTED partitions instead of a HashMap) sits in Model/Consumer.v `pidx`.  Mirrored in the model
   (pidx poffs := fold over poffs of "if 0 <= p < len poffs then idx_insert m p o else m", started
   from [(0,-1); ...; (len-1,-1)]) it falsifies C07_load_partition_offsets_spec and
   C07_offset_of_every_broker_survives (their proof scripts stop at the lemma assoc_z_pidx,
   `assoc_z p (pidx vs) = last_off p vs`, whose negation holds on the mutant: vs = [(0,5);(2,3)], p = 2).
   So the seed is covered - but again only sideways: both statements are of the shape "there are a
   client c, a state s0 and answers resps such that exchanges ... s0 resps s' and the table is the
   last-offset table of resps", with c and s0 not tied to the call; refuting them on the mutant
   needs an argument over the trace of s'.  Part A states the same thing directly and forward:
   whatever KafkaClient::fetch_offsets RETURNS for a partition is what the consumer's table holds
   for it - whichever other partitions of the topic are reported or not - and carries it through
   load_fetch_states (nothing committed) to the first fetch offset.  The negation of
   C07_reported_offset_is_kept was proved on the mutated scratch copy with the witness of the seed's
   demonstration (three partitions, the middle one without a leader).

   Part B is the forward direction that was still missing for a group WITH commits (all existing
   statements about the validation branch are of the shape "creation succeeded -> ..."): when the
   latest and the earliest look-up succeed, the fallback is Earliest or Latest and the restored
   offsets are below i64::MAX, load_fetch_states / Builder::create SUCCEED, and every partition starts
   at its commit when that is in range and at the fallback position's offset otherwise; and the
   other way round ("where no such offset can be determined creation fails"): the first subscribed
   partition whose start cannot be determined - ByTime fallback and no commit, or a commit outside
   the range - fails the call with that error.

   Part C discharges the hypothesis `topic_ref asg t <> None` that C07_nothing_committed_created,
   C07_fresh_start_created (third pass) and the theorems of part B carry, for the assignment the
   builder really makes (listed as "not done" in C07ExtraC.v): from_map of a map with distinct keys
   is strictly sorted, the binary search finds every key of a strictly sorted table, and the keys of
   cb_assign are distinct for every sequence of builder calls.

   Not done: the full negation of C07_load_partition_offsets_spec on the mutant (see above);
   totality of load_consumed_offsets (consumed_topics can only fail by a debug-build overflow at
   commit = i64::MIN, or panic on a topic the coordinator invents); discharging
   `assoc_bytes t offsets <> None` from "some partition of t has a leader and its broker answers". *)
From KV Require Import Base.Prelude Gen.ErrorCodes Gen.Consts Model.Codecs Model.Requests Model.Responses
                       Model.ClientState Model.Net Model.Client Model.Consumer.
From KV Require Import Proofs.BytesFacts Proofs.C07Facts Proofs.C10Facts Proofs.C07Extra Proofs.C07ExtraB
                       Proofs.C07ExtraC.
From Coq Require Import Sorting.Permutation.
From Coq Require Import ZifyBool.

(* ================================================================================== *)
(* A. the table of reported offsets keeps every reported offset (seeded/C07-7)        *)
(* ================================================================================== *)

Lemma assoc_indexed t m : assoc_bytes t (indexed m) = option_map pidx (assoc_bytes t m).
Proof.
  unfold indexed. induction m as [|[t0 ps0] m IH]; [reflexivity|]. cbn [map assoc_bytes].
  destruct (bytes_eqb t0 t); [reflexivity|exact IH].
Qed.

(* WHAT fetch_offsets REPORTS IS WHAT THE CONSUMER KEEPS.  Whenever KafkaClient::fetch_offsets succeeds with
   the map m (topic -> the (partition, offset) pairs reported by the brokers), load_partition_offsets
   succeeds in the same state with a table that lists exactly the topics of m and answers, for every
   topic, with the reported offset for every reported partition - whatever its id, however many
   partitions of the topic are reported, in whichever order - and with -1 for a partition that is not
   reported. *)
Theorem C07_reported_offset_is_kept : forall topics time s m s',
  fetch_offsets topics time s = (Ok m, s') ->
  exists offs,
    load_partition_offsets topics time s = (Ok offs, s')
    /\ (forall t, assoc_bytes t offs = None <-> assoc_bytes t m = None)
    /\ (forall t vs p o, assoc_bytes t m = Some vs -> NoDup (map fst vs) -> In (p, o) vs ->
          lookup_off offs t p = o)
    /\ (forall t vs p, assoc_bytes t m = Some vs -> ~ In p (map fst vs) -> lookup_off offs t p = -1).
Proof.
  intros topics time s m s' H. exists (indexed m). split; [|split; [|split]].
  - unfold load_partition_offsets. rewrite (mbind_fwd _ _ _ _ _ H). reflexivity.
  - intros t. rewrite assoc_indexed. destruct (assoc_bytes t m); cbn [option_map]; split; congruence.
  - intros t vs p o Ha Hnd Hin. rewrite lookup_off_indexed. unfold lookup. rewrite Ha.
    rewrite (last_off_in p o vs Hnd Hin). reflexivity.
  - intros t vs p Ha Hno. rewrite lookup_off_indexed. unfold lookup. rewrite Ha.
    rewrite (last_off_absent p vs Hno). reflexivity.
Qed.

(* ... and the converse: load_partition_offsets only succeeds when fetch_offsets does, in the same state *)
Theorem C07_partition_offsets_from_fetch_offsets : forall topics time s offs s',
  load_partition_offsets topics time s = (Ok offs, s') ->
  exists m, fetch_offsets topics time s = (Ok m, s')
    /\ (forall t p, lookup_off offs t p =
                    match assoc_bytes t m with
                    | Some vs => match last_off p vs with Some o => o | None => -1 end
                    | None => -1
                    end).
Proof.
  intros topics time s offs s' H. unfold load_partition_offsets in H.
  apply mbind_ok in H. destruct H as (m & s1 & Hf & H). inversion H. subst offs s1. clear H.
  exists m. split; [exact Hf|]. intros t p.
  change (map (fun '(t0, ps) => (t0, pidx ps)) m) with (indexed m).
  rewrite lookup_off_indexed. unfold lookup. destruct (assoc_bytes t m); reflexivity.
Qed.

(* NOTHING COMMITTED, NEXT TO PARTITIONS THAT ARE NOT REPORTED.  A group-less consumer, or a group with
   nothing committed (empty consumed table), any fallback position: if KafkaClient::fetch_offsets for the
   fallback time succeeds and lists every subscribed topic, load_fetch_states succeeds and every
   subscribed partition for which an offset is reported starts at THAT offset - whether or not the
   other partitions of its topic (assigned or not, e.g. one whose broker is down) are reported;
   a subscribed partition that is not reported starts at -1 (finding F22). *)
Theorem C07_fresh_start_at_reported : forall fb asg subs s m s',
  fetch_offsets (map fst subs) (fallback_time fb) s = (Ok m, s') ->
  (forall t ps, In (t, ps) subs -> topic_ref asg t <> None /\ assoc_bytes t m <> None) ->
  exists fetch,
    load_fetch_states fb asg subs [] s = (Ok fetch, s')
    /\ forall t ps p vs, In (t, ps) subs -> In p ps -> assoc_bytes t m = Some vs ->
       exists r, topic_ref asg t = Some r
         /\ (forall o, NoDup (map fst vs) -> In (p, o) vs ->
               tk_get (r, p) fetch = Some (o, fetch_max_bytes_per_partition (cfg (cl s))))
         /\ (~ In p (map fst vs) ->
               tk_get (r, p) fetch = Some (-1, fetch_max_bytes_per_partition (cfg (cl s)))).
Proof.
  intros fb asg subs s m s' Hf Hall.
  destruct (C07_reported_offset_is_kept _ _ _ _ _ Hf) as (offs & Hl & Hsame & Hrep & Hun).
  assert (Hall' : forall t ps, In (t, ps) subs -> topic_ref asg t <> None /\ assoc_bytes t offs <> None).
  { intros t ps Hin. destruct (Hall t ps Hin) as [H1 H2]. split; [exact H1|].
    intros Hn. apply H2. apply Hsame. exact Hn. }
  destruct (C07_nothing_committed_created fb asg subs s offs s' Hl Hall') as (fetch & Hrun & Hvals).
  exists fetch. split; [exact Hrun|].
  intros t ps p vs Hin Hp Ha. destruct (Hvals t ps p Hin Hp) as (r & Hr & Hg).
  exists r. split; [exact Hr|]. split.
  - intros o Hnd Ho. rewrite Hg, (Hrep t vs p o Ha Hnd Ho). reflexivity.
  - intros Hno. rewrite Hg, (Hun t vs p Ha Hno). reflexivity.
Qed.

(* Non-vacuity: the demonstration of seeded/C07-7.  Brokers "a", "b" up, the third down; topic "t":
   p0 = (@a, earliest 5, latest 20), p1 = (no leader), p2 = (@b, 3, 30); assigned t:{0,2}. *)
Definition ex_client7 : client :=
  {| cfg := ex_cfg;
     cs := {| correlation := 0; brokers := [ {| b_node := 1; b_host := xa |}; {| b_node := 2; b_host := xb |} ];
              topic_partitions := [ (xt, [0; UNKNOWN_BROKER_INDEX; 1]) ]; group_coordinators := [ (xg, 0) ] |};
     conns := [] |}.
Definition ex_st7_of (sc : list ev_out) : st :=
  {| script := sc; trace := []; anyq := []; hostq := []; fetchq := []; entryq := [];
     cl := ex_client7; env := ex_codecs |}.
Definition ex_earliest7 : list ev_out :=
  OConn true :: ex_talk (ex_off_answer [ex_off_part 0 5]) ++ OConn true :: ex_talk (ex_off_answer [ex_off_part 2 3]).

(* the client leaves the leaderless partition out of its requests, and the map it returns lists two
   partitions, ids 0 and 2 *)
Example C07_fetch_offsets_skips_leaderless_ex : exists s',
  fetch_offsets [xt] FETCH_OFFSET_EARLIEST (ex_st7_of ex_earliest7) = (Ok [(xt, [(0, 5); (2, 3)])], s')
  /\ find_broker (cs ex_client7) xt 1 = None
  /\ NoDup (map fst [(0, 5); (2, 3)]).
Proof.
  eexists. split; [vm_compute; reflexivity|]. split; [vm_compute; reflexivity|].
  cbn [map fst]. repeat (constructor; [cbn [In]; lia|]). constructor.
Qed.

Example C07_reported_offset_is_kept_ex : exists offs s',
  load_partition_offsets [xt] FETCH_OFFSET_EARLIEST (ex_st7_of ex_earliest7) = (Ok offs, s')
  /\ lookup_off offs xt 0 = 5 /\ lookup_off offs xt 1 = -1 /\ lookup_off offs xt 2 = 3.
Proof. eexists. eexists. split; [vm_compute; reflexivity|]. vm_compute. repeat split. Qed.

(* whole call, group-less, Earliest and Latest: t:2 starts at 3 / 30 (with the seeded change: at -1) *)
Example C07_groupless_next_to_a_leaderless_partition_ex : exists k s',
  consumer_create (inr ex_client7) [CWithTopicPartitions xt [0; 2]; CWithFallback FbEarliest] (ex_st7_of ex_earliest7)
  = (Ok k, s')
  /\ k_consumed k = []
  /\ k_fetch k = [((0, 0), (5, 4096)); ((0, 2), (3, 4096))]
  /\ script s' = [].
Proof. eexists. eexists. split; [vm_compute; reflexivity|]. vm_compute. repeat split. Qed.

Example C07_groupless_next_to_a_leaderless_partition_latest_ex : exists k s',
  consumer_create (inr ex_client7) [CWithTopicPartitions xt [2; 0]; CWithFallback FbLatest]
    (ex_st7_of (OConn true :: ex_talk (ex_off_answer [ex_off_part 0 20])
                ++ OConn true :: ex_talk (ex_off_answer [ex_off_part 2 30])))
  = (Ok k, s')
  /\ k_fetch k = [((0, 0), (20, 4096)); ((0, 2), (30, 4096))]
  /\ script s' = [].
Proof. eexists. eexists. split; [vm_compute; reflexivity|]. vm_compute. repeat split. Qed.

(* hypotheses of C07_fresh_start_at_reported on that run *)
Example C07_fresh_start_at_reported_ex : exists m s',
  fetch_offsets (map fst [(xt, [0; 2])]) (fallback_time FbEarliest) (ex_st7_of ex_earliest7) = (Ok m, s')
  /\ topic_ref [(xt, [0; 2])] xt = Some 0 /\ assoc_bytes xt m = Some [(0, 5); (2, 3)].
Proof. eexists. eexists. split; [vm_compute; reflexivity|]. split; vm_compute; reflexivity. Qed.

(* ================================================================================== *)
(* B. a group WITH commits, forward: creation succeeds / fails                        *)
(* ================================================================================== *)

(* the per-partition decision is total when the fallback is Earliest or Latest and the restored offset
   is below i64::MAX (it is committed - 1, so this only excludes a commit of i64::MIN in a release build) *)
Theorem C07_start_offset_total : forall dbg fb co e l,
  (forall tm, fb <> FbByTime tm) ->
  (forall o d, co = Some (o, d) -> i64_min <= o < i64_max) ->
  exists off, start_offset dbg fb co e l = Ok off.
Proof.
  intros dbg fb co e l Hfb Hco. unfold start_offset.
  assert (Hk : exists off, match fb with FbLatest => Ok l | FbEarliest => Ok e
                                    | FbByTime _ => Err (EKafka KC_Unknown) end = Ok off).
  { destruct fb as [| |tm]; [eauto|eauto|exfalso; apply (Hfb tm); reflexivity]. }
  destruct co as [[o d]|]; [|exact Hk].
  specialize (Hco o d eq_refl). rewrite i64_op_in by lia. cbn [bind].
  destruct ((e <=? o + 1) && (o <? l)); [eauto|exact Hk].
Qed.

(* "the start of every partition of ps (topic t, reference r) can be determined" *)
Definition startable (dbg : bool) (fb : fallback) (consumed : list (tpkey * (Z * bool)))
           (latest earliest : list (bytes * list (Z * Z))) (t : bytes) (r : Z) (ps : list Z) : Prop :=
  forall p, In p ps -> exists off,
    start_offset dbg fb (tk_get (r, p) consumed) (lookup_off earliest t p) (lookup_off latest t p) = Ok off.

Lemma range_parts_total dbg fb consumed latest earliest maxb t r : forall ps acc,
  startable dbg fb consumed latest earliest t r ps ->
  exists res, range_parts dbg fb consumed latest earliest maxb t r ps acc = Ok res.
Proof.
  induction ps as [|p rest IH]; intros acc H; cbn [range_parts]; [eauto|].
  destruct (H p (or_introl eq_refl)) as [off Ho]. rewrite Ho. cbn [bind].
  apply IH. intros q Hq. apply H. right. exact Hq.
Qed.

Lemma range_parts_first_failure dbg fb consumed latest earliest maxb t r : forall ps1 acc p ps2 e,
  startable dbg fb consumed latest earliest t r ps1 ->
  start_offset dbg fb (tk_get (r, p) consumed) (lookup_off earliest t p) (lookup_off latest t p) = Err e ->
  range_parts dbg fb consumed latest earliest maxb t r (ps1 ++ p :: ps2) acc = Err e.
Proof.
  induction ps1 as [|q rest IH]; intros acc p ps2 e H He; cbn [app range_parts].
  - rewrite He. reflexivity.
  - destruct (H q (or_introl eq_refl)) as [off Ho]. rewrite Ho. cbn [bind].
    apply IH; [|exact He]. intros q' Hq'. apply H. right. exact Hq'.
Qed.

(* THE VALIDATION LOOP SUCCEEDS whenever every subscribed topic is an assigned one and the start of every
   subscribed partition can be determined (converse of C07_range_states) *)
Theorem C07_range_states_complete : forall dbg fb asg consumed latest earliest maxb subs acc,
  (forall t ps, In (t, ps) subs ->
     exists r, topic_ref asg t = Some r /\ startable dbg fb consumed latest earliest t r ps) ->
  exists res, range_states dbg fb asg consumed latest earliest maxb subs acc = Ok res.
Proof.
  intros dbg fb asg consumed latest earliest maxb.
  induction subs as [|[t ps] rest IH]; intros acc H; cbn [range_states]; [eauto|].
  destruct (H t ps (or_introl eq_refl)) as (r & Hr & Hs). rewrite Hr.
  destruct (range_parts_total dbg fb consumed latest earliest maxb t r ps acc Hs) as [acc' Ha].
  rewrite Ha. cbn [bind]. apply IH. intros t' ps' Hin. apply H. right. exact Hin.
Qed.

(* ... and FAILS with the error of the first subscribed partition (in subscription order) whose start
   cannot be determined: nothing later can make up for it *)
Theorem C07_range_states_first_failure : forall dbg fb asg consumed latest earliest maxb pre t ps1 p ps2 post acc r e,
  (forall t' ps', In (t', ps') pre ->
     exists r', topic_ref asg t' = Some r' /\ startable dbg fb consumed latest earliest t' r' ps') ->
  topic_ref asg t = Some r ->
  startable dbg fb consumed latest earliest t r ps1 ->
  start_offset dbg fb (tk_get (r, p) consumed) (lookup_off earliest t p) (lookup_off latest t p) = Err e ->
  range_states dbg fb asg consumed latest earliest maxb (pre ++ (t, ps1 ++ p :: ps2) :: post) acc = Err e.
Proof.
  intros dbg fb asg consumed latest earliest maxb pre t ps1 p ps2 post acc r e Hpre Hr Hs He. revert acc.
  induction pre as [|[t0 ps0] pre IH]; intros acc; cbn [app range_states].
  - rewrite Hr. rewrite (range_parts_first_failure dbg fb consumed latest earliest maxb t r ps1 acc p ps2 e Hs He).
    reflexivity.
  - destruct (Hpre t0 ps0 (or_introl eq_refl)) as (r0 & Hr0 & Hs0). rewrite Hr0.
    destruct (range_parts_total dbg fb consumed latest earliest maxb t0 r0 ps0 acc Hs0) as [acc' Ha].
    rewrite Ha. cbn [bind]. apply IH. intros t' ps' Hin. apply Hpre. right. exact Hin.
Qed.

(* load_fetch_states with restored offsets IS the latest look-up, the earliest look-up and the validation
   loop - as an equation, so that it serves for success and for failure *)
Theorem C07_load_fetch_states_range_eq : forall fb asg subs consumed s latest s1 earliest s',
  consumed <> [] ->
  load_partition_offsets (map fst subs) FETCH_OFFSET_LATEST s = (Ok latest, s1) ->
  load_partition_offsets (map fst subs) FETCH_OFFSET_EARLIEST s1 = (Ok earliest, s') ->
  load_fetch_states fb asg subs consumed s =
  (range_states (debug_build (env s)) fb asg consumed latest earliest
                (fetch_max_bytes_per_partition (cfg (cl s))) subs [], s').
Proof.
  intros fb asg subs consumed s latest s1 earliest s' Hne Hl He.
  destruct consumed as [|x consumed']; [exfalso; apply Hne; reflexivity|].
  unfold load_fetch_states.
  rewrite (mbind_fwd get_client _ s (cl s) s eq_refl). cbv beta.
  rewrite (mbind_fwd get_env _ s (env s) s eq_refl). cbv beta zeta iota.
  rewrite (mbind_fwd _ _ _ _ _ Hl). cbv beta.
  rewrite (mbind_fwd _ _ _ _ _ He). cbv beta. reflexivity.
Qed.

(* A GROUP WITH COMMITS, FORWARD (the clause "the first offset it fetches from each assigned partition is the
   group's committed offset whenever that offset lies within the partition's current range; otherwise
   ... the offset the broker reports for the configured fallback position").  Restored offsets exist, the
   fallback is Earliest or Latest, the latest and then the earliest look-up succeed: load_fetch_states
   SUCCEEDS in the state the earliest look-up ended in, and every subscribed partition starts at its commit
   if that lies in [earliest, latest], at the fallback position's offset if it lies outside or if the
   partition has no commit. *)
Theorem C07_committed_start_created : forall fb asg subs consumed s latest s1 earliest s',
  consumed <> [] ->
  load_partition_offsets (map fst subs) FETCH_OFFSET_LATEST s = (Ok latest, s1) ->
  load_partition_offsets (map fst subs) FETCH_OFFSET_EARLIEST s1 = (Ok earliest, s') ->
  (forall t ps, In (t, ps) subs -> topic_ref asg t <> None) ->
  (forall tm, fb <> FbByTime tm) ->
  (forall r p o d, tk_get (r, p) consumed = Some (o, d) -> i64_min <= o < i64_max) ->
  exists fetch,
    load_fetch_states fb asg subs consumed s = (Ok fetch, s')
    /\ forall t ps p, In (t, ps) subs -> In p ps ->
       exists r off, topic_ref asg t = Some r
         /\ tk_get (r, p) fetch = Some (off, fetch_max_bytes_per_partition (cfg (cl s)))
         /\ (forall c d, tk_get (r, p) consumed = Some (c - 1, d) ->
               (lookup_off earliest t p <= c <= lookup_off latest t p -> off = c)
               /\ (c < lookup_off earliest t p \/ lookup_off latest t p < c ->
                   fallback_is fb (lookup_off earliest t p) (lookup_off latest t p) off))
         /\ (tk_get (r, p) consumed = None ->
               fallback_is fb (lookup_off earliest t p) (lookup_off latest t p) off).
Proof.
  intros fb asg subs consumed s latest s1 earliest s' Hne Hl He Hrefs Hfb Hbound.
  rewrite (C07_load_fetch_states_range_eq fb asg subs consumed s latest s1 earliest s' Hne Hl He).
  destruct (C07_range_states_complete (debug_build (env s)) fb asg consumed latest earliest
              (fetch_max_bytes_per_partition (cfg (cl s))) subs []) as [fetch Hrun].
  { intros t ps Hin. destruct (topic_ref asg t) as [r|] eqn:Hr; [|exfalso; apply (Hrefs t ps Hin); exact Hr].
    exists r. split; [reflexivity|]. intros p _. apply C07_start_offset_total; [exact Hfb|].
    intros o d Hco. apply (Hbound r p o d Hco). }
  exists fetch. split; [rewrite Hrun; reflexivity|].
  intros t ps p Hin Hp.
  destruct (C07_range_states _ _ _ _ _ _ _ _ _ _ Hrun t ps p Hin Hp) as (r & off & Hr & Hso & Hg).
  exists r, off. split; [exact Hr|]. split; [exact Hg|]. split.
  - intros c d Hco. rewrite Hco in Hso. pose proof (Hbound r p (c - 1) d Hco) as Hb. split.
    + intros Hrange. rewrite C07_start_valid in Hso by (first [assumption|lia]). inversion Hso. reflexivity.
    + intros Hout. rewrite C07_start_invalid in Hso by (first [assumption|lia]). apply fallback_is_of. exact Hso.
  - intros Hnone. rewrite Hnone in Hso. rewrite C07_start_none in Hso. apply fallback_is_of. exact Hso.
Qed.

(* ... AND WHERE NO START CAN BE DETERMINED CREATION FAILS.  Same situation, any fallback: the first subscribed
   partition whose start_offset is an error - a ByTime fallback and no commit for it, or a commit outside
   [earliest, latest] - fails load_fetch_states with that error, after both look-ups were made. *)
Theorem C07_undeterminable_start_fails : forall fb asg subs consumed s latest s1 earliest s' pre t ps1 p ps2 post r e,
  consumed <> [] ->
  load_partition_offsets (map fst subs) FETCH_OFFSET_LATEST s = (Ok latest, s1) ->
  load_partition_offsets (map fst subs) FETCH_OFFSET_EARLIEST s1 = (Ok earliest, s') ->
  subs = pre ++ (t, ps1 ++ p :: ps2) :: post ->
  (forall t' ps', In (t', ps') pre ->
     exists r', topic_ref asg t' = Some r' /\ startable (debug_build (env s)) fb consumed latest earliest t' r' ps') ->
  topic_ref asg t = Some r ->
  startable (debug_build (env s)) fb consumed latest earliest t r ps1 ->
  start_offset (debug_build (env s)) fb (tk_get (r, p) consumed) (lookup_off earliest t p) (lookup_off latest t p)
  = Err e ->
  load_fetch_states fb asg subs consumed s = (Err e, s').
Proof.
  intros fb asg subs consumed s latest s1 earliest s' pre t ps1 p ps2 post r e Hne Hl He Hsubs Hpre Hr Hs Herr.
  rewrite (C07_load_fetch_states_range_eq fb asg subs consumed s latest s1 earliest s' Hne Hl He).
  rewrite Hsubs.
  rewrite (C07_range_states_first_failure _ _ _ _ _ _ _ _ _ _ _ _ _ _ _ _ Hpre Hr Hs Herr). reflexivity.
Qed.

(* the two ways a start is undeterminable with a ByTime fallback *)
Theorem C07_by_time_needs_a_valid_commit : forall dbg tm co e l,
  (co = None \/ exists c d, co = Some (c - 1, d) /\ i64_min < c <= i64_max /\ (c < e \/ l < c)) ->
  start_offset dbg (FbByTime tm) co e l = Err (EKafka KC_Unknown).
Proof.
  intros dbg tm co e l [->|(c & d & -> & Hc & Hout)].
  - apply C07_start_none.
  - apply (C07_start_invalid dbg (FbByTime tm) c d e l Hout Hc).
Qed.

(* ================================================================================== *)
(* C. the builder's assignment resolves every topic it holds (topic_ref is complete)  *)
(* ================================================================================== *)
From Coq Require Import Sorting.Sorted.

Lemma bytes_cmp_antisym : forall a b, bytes_cmp b a = CompOpp (bytes_cmp a b).
Proof.
  induction a as [|x a IH]; intros [|y b]; cbn [bytes_cmp CompOpp]; try reflexivity.
  rewrite (Z.compare_antisym (Zb x) (Zb y)).
  destruct (Zb x ?= Zb y); cbn [CompOpp]; [apply IH|reflexivity|reflexivity].
Qed.

Lemma bytes_cmp_lt_trans : forall a b c, bytes_cmp a b = Lt -> bytes_cmp b c = Lt -> bytes_cmp a c = Lt.
Proof.
  induction a as [|x a IH]; intros [|y b] [|z c]; cbn [bytes_cmp]; intros H1 H2; try discriminate; try reflexivity.
  destruct (Z.compare_spec (Zb x) (Zb y)) as [E1|E1|E1]; try discriminate;
  destruct (Z.compare_spec (Zb y) (Zb z)) as [E2|E2|E2]; try discriminate;
  destruct (Z.compare_spec (Zb x) (Zb z)) as [E3|E3|E3]; try lia; try reflexivity.
  eapply IH; eassumption.
Qed.

Definition key_lt {V} (x y : bytes * V) : Prop := bytes_cmp (fst x) (fst y) = Lt.
(* strictly ascending by topic name *)
Definition topics_sorted {V} (tbl : list (bytes * V)) : Prop := StronglySorted key_lt tbl.

Lemma insert_topic_in {V} (x : bytes * V) : forall l z, In z (insert_topic x l) <-> z = x \/ In z l.
Proof.
  induction l as [|y r IH]; intros z; cbn [insert_topic].
  - cbn [In]. intuition congruence.
  - destruct (bytes_ltb (fst x) (fst y)).
    + cbn [In]. intuition congruence.
    + cbn [In]. rewrite IH. intuition congruence.
Qed.

Lemma insert_topic_sorted {V} (x : bytes * V) : forall l,
  topics_sorted l -> ~ In (fst x) (map fst l) -> topics_sorted (insert_topic x l).
Proof.
  induction l as [|y r IH]; intros Hs Hno; cbn [insert_topic].
  - constructor; [constructor|constructor].
  - inversion Hs as [|? ? Hs' Hall]. subst. cbn [map In] in Hno.
    unfold bytes_ltb. destruct (bytes_cmp (fst x) (fst y)) eqn:Ec.
    + exfalso. apply Hno. left. apply bytes_cmp_eq in Ec. symmetry. exact Ec.
    + constructor; [exact Hs|]. constructor; [exact Ec|].
      eapply Forall_impl; [|exact Hall]. intros z Hz. unfold key_lt in *. eapply bytes_cmp_lt_trans; eassumption.
    + constructor.
      * apply IH; [exact Hs'|tauto].
      * apply Forall_forall. intros z Hz. apply insert_topic_in in Hz. destruct Hz as [->|Hz].
        -- unfold key_lt. rewrite bytes_cmp_antisym, Ec. reflexivity.
        -- rewrite Forall_forall in Hall. apply Hall. exact Hz.
Qed.

Lemma insert_topic_keys {V} (x : bytes * V) l k : In k (map fst (insert_topic x l)) <-> k = fst x \/ In k (map fst l).
Proof.
  split.
  - intros H. apply in_map_iff in H. destruct H as (z & <- & Hz). apply insert_topic_in in Hz.
    destruct Hz as [->|Hz]; [left; reflexivity|right; apply in_map; exact Hz].
  - intros [->|H].
    + apply in_map. apply insert_topic_in. left. reflexivity.
    + apply in_map_iff in H. destruct H as (z & <- & Hz). apply in_map. apply insert_topic_in. right. exact Hz.
Qed.

Lemma from_map_gen : forall (m : list (bytes * list Z)) acc,
  topics_sorted acc -> NoDup (map fst m) -> (forall k, In k (map fst m) -> ~ In k (map fst acc)) ->
  let res := fold_left (fun acc '(t, ps) => insert_topic (t, sort_dedup ps) acc) m acc in
  topics_sorted res /\ forall k, In k (map fst res) <-> In k (map fst acc) \/ In k (map fst m).
Proof.
  induction m as [|[t ps] m IH]; intros acc Hs Hnd Hdis; cbn [fold_left].
  - split; [exact Hs|]. intros k. cbn [map In]. tauto.
  - cbn [map fst] in Hnd, Hdis. inversion Hnd as [|? ? Hnot Hnd']. subst.
    destruct (IH (insert_topic (t, sort_dedup ps) acc)) as [H1 H2].
    + apply insert_topic_sorted; [exact Hs|]. cbn [fst]. apply Hdis. left. reflexivity.
    + exact Hnd'.
    + intros k Hk Hin. apply insert_topic_keys in Hin. cbn [fst] in Hin. destruct Hin as [->|Hin].
      * contradiction.
      * apply (Hdis k); [right; exact Hk|exact Hin].
    + split; [exact H1|]. intros k. rewrite H2. rewrite insert_topic_keys. cbn [fst map In]. intuition congruence.
Qed.

(* AssignmentsBuilder::from_map of a map (distinct keys): strictly sorted by topic, same topics *)
Theorem C07_from_map_sorted : forall m, NoDup (map fst m) ->
  topics_sorted (from_map m) /\ forall k, In k (map fst (from_map m)) <-> In k (map fst m).
Proof.
  intros m Hnd. unfold from_map.
  destruct (from_map_gen m [] (SSorted_nil _) Hnd (fun k _ H => H)) as [H1 H2].
  split; [exact H1|]. intros k. rewrite H2. cbn [map In]. tauto.
Qed.

Lemma sorted_nth_error {A} (R : A -> A -> Prop) : forall l, StronglySorted R l ->
  forall n1 n2 a b, (n1 < n2)%nat -> nth_error l n1 = Some a -> nth_error l n2 = Some b -> R a b.
Proof.
  induction l as [|x l IH]; intros Hs n1 n2 a b Hlt H1 H2.
  - destruct n1; discriminate.
  - inversion Hs as [|? ? Hs' Hall]. subst. destruct n2 as [|n2]; [lia|]. cbn [nth_error] in H2.
    destruct n1 as [|n1].
    + cbn [nth_error] in H1. inversion H1. subst a. rewrite Forall_forall in Hall. apply Hall.
      eapply nth_error_In. exact H2.
    + cbn [nth_error] in H1. apply (IH Hs' n1 n2 a b); [lia|exact H1|exact H2].
Qed.

Lemma nth_z_error {A} (l : list A) i a : nth_z l i = Some a -> nth_error l (Z.to_nat i) = Some a.
Proof. unfold nth_z. destruct ((i <? 0) || (ulen l <=? i)); [discriminate|]. intros H. exact H. Qed.

Lemma sorted_nth_z {V} (tbl : list (bytes * V)) : topics_sorted tbl ->
  forall i j a b, i < j -> nth_z tbl i = Some a -> nth_z tbl j = Some b -> bytes_cmp (fst a) (fst b) = Lt.
Proof.
  intros Hs i j a b Hlt Hi Hj.
  pose proof (nth_z_range _ _ _ Hi) as Ri. pose proof (nth_z_range _ _ _ Hj) as Rj.
  apply nth_z_error in Hi. apply nth_z_error in Hj.
  apply (sorted_nth_error key_lt tbl Hs (Z.to_nat i) (Z.to_nat j) a b); [lia|exact Hi|exact Hj].
Qed.

(* the binary search is complete on a strictly sorted table *)
Lemma bsearch_complete {V} (tbl : list (bytes * V)) key v i : topics_sorted tbl -> nth_z tbl i = Some (key, v) ->
  forall fuel lo hi, 0 <= lo -> hi <= ulen tbl -> lo <= i < hi -> hi - lo < Z.of_nat fuel ->
  bsearch fuel tbl key lo hi = Some i.
Proof.
  intros Hs Hi. induction fuel as [|f IH]; intros lo hi Hlo Hhi Hin Hfuel; [lia|].
  cbn [bsearch]. destruct (hi <=? lo) eqn:E; [lia|].
  set (mid := lo + (hi - lo) / 2).
  assert (Hmid : lo <= mid < hi).
  { subst mid. pose proof (Z.div_pos (hi - lo) 2 ltac:(lia) ltac:(lia)).
    pose proof (Z.div_lt_upper_bound (hi - lo) 2 (hi - lo) ltac:(lia) ltac:(lia)). lia. }
  destruct (nth_z_in_range tbl mid ltac:(lia)) as [[t w] Hm]. rewrite Hm.
  destruct (Z.compare_spec mid i) as [Heq|Hlt|Hgt].
  - subst i. rewrite Hm in Hi. inversion Hi. subst t w. rewrite bytes_cmp_refl. reflexivity.
  - pose proof (sorted_nth_z tbl Hs mid i _ _ Hlt Hm Hi) as Hc. cbn [fst] in Hc. rewrite Hc.
    apply IH; lia.
  - pose proof (sorted_nth_z tbl Hs i mid _ _ Hgt Hi Hm) as Hc. cbn [fst] in Hc.
    rewrite bytes_cmp_antisym, Hc. cbn [CompOpp]. apply IH; lia.
Qed.

(* Assignments::topic_ref finds every topic of a strictly sorted table, and only those (C07Facts.topic_ref_some) *)
Theorem C07_topic_ref_complete : forall {V} (tbl : list (bytes * V)) t,
  topics_sorted tbl -> In t (map fst tbl) -> exists r, topic_ref tbl t = Some r.
Proof.
  intros V tbl t Hs Hin. apply in_map_iff in Hin. destruct Hin as ([t0 v] & Ht & Hin). cbn [fst] in Ht. subst t0.
  apply In_nth_error in Hin. destruct Hin as [n Hn].
  assert (Hlen : (n < length tbl)%nat) by (apply nth_error_Some; rewrite Hn; discriminate).
  assert (Hz : nth_z tbl (Z.of_nat n) = Some (t, v)).
  { unfold nth_z, ulen. destruct ((Z.of_nat n <? 0) || (Z.of_nat (length tbl) <=? Z.of_nat n)) eqn:E; [lia|].
    rewrite Nat2Z.id. exact Hn. }
  exists (Z.of_nat n). unfold topic_ref.
  apply (bsearch_complete tbl t v (Z.of_nat n) Hs Hz); unfold ulen; lia.
Qed.

(* the builder's map of assignments has distinct topics, whatever calls were made *)
Lemma map_insert_keys {V} : forall (m : list (bytes * V)) k v,
  map fst (map_insert m k v) = if existsb (bytes_eqb k) (map fst m) then map fst m else map fst m ++ [k].
Proof.
  induction m as [|[k' v'] m IH]; intros k v; cbn [map_insert map fst existsb app]; [reflexivity|].
  destruct (bytes_eqb_spec k' k) as [->|Hne].
  - rewrite bytes_eqb_refl. reflexivity.
  - cbn [map fst]. rewrite IH.
    assert (E : bytes_eqb k k' = false).
    { destruct (bytes_eqb_spec k k') as [->|_]; [contradiction|reflexivity]. }
    rewrite E. cbn [orb]. destruct (existsb (bytes_eqb k) (map fst m)); reflexivity.
Qed.

Lemma map_insert_nodup {V} (m : list (bytes * V)) k v : NoDup (map fst m) -> NoDup (map fst (map_insert m k v)).
Proof.
  intros H. rewrite map_insert_keys. destruct (existsb (bytes_eqb k) (map fst m)) eqn:E; [exact H|].
  apply (Permutation_NoDup (Permutation_cons_append (map fst m) k)). constructor; [|exact H]. intros Hin.
  assert (Ht : existsb (bytes_eqb k) (map fst m) = true).
  { apply existsb_exists. exists k. split; [exact Hin|apply bytes_eqb_refl]. }
  congruence.
Qed.

Lemma cbuilder_apply_nodup b c :
  NoDup (map fst (cb_assign b)) -> NoDup (map fst (cb_assign (cbuilder_apply b c))).
Proof.
  intros H. destruct c; unfold cbuilder_apply, cb_upd; cbn [cb_assign]; try exact H; apply map_insert_nodup; exact H.
Qed.

Theorem C07_builder_topics_distinct : forall src calls,
  NoDup (map fst (cb_assign (fold_left cbuilder_apply calls (cbuilder_new src)))).
Proof.
  intros src calls.
  assert (H0 : NoDup (map fst (cb_assign (cbuilder_new src)))) by (destruct src; cbn [cbuilder_new cb_assign map]; constructor).
  revert H0. generalize (cbuilder_new src) as b.
  induction calls as [|c calls IH]; intros b Hb; cbn [fold_left]; [exact Hb|].
  apply IH. apply cbuilder_apply_nodup. exact Hb.
Qed.

Lemma subscriptions_of_topics cst : forall asg subs, subscriptions_of cst asg = Ok subs -> map fst subs = map fst asg.
Proof.
  induction asg as [|a asg IH]; intros subs H; cbn [subscriptions_of] in H.
  - inversion H. reflexivity.
  - apply bind_ok in H. destruct H as (ps & _ & H). apply bind_ok in H. destruct H as (rest & Hr & H).
    inversion H. subst subs. cbn [map fst]. rewrite (IH rest Hr). reflexivity.
Qed.

(* EVERY SUBSCRIBED TOPIC RESOLVES.  For every sequence of builder calls: the assignment Builder::create
   makes (from_map of the builder's map) is strictly sorted, and Assignments::topic_ref finds every topic of
   the subscriptions computed from it - the `expect("unassigned subscription")` of load_fetch_states and
   the `expect("non-assigned topic")` of load_consumed_offsets cannot fire for a subscribed topic. *)
Theorem C07_builder_topics_resolve : forall src calls cst subs,
  let b := fold_left cbuilder_apply calls (cbuilder_new src) in
  let asg := from_map (cb_assign b) in
  subscriptions_of cst asg = Ok subs ->
  topics_sorted asg /\ forall t ps, In (t, ps) subs -> exists r, topic_ref asg t = Some r.
Proof.
  intros src calls cst subs b asg Hsubs.
  destruct (C07_from_map_sorted (cb_assign b) (C07_builder_topics_distinct src calls)) as [Hs _].
  split; [exact Hs|]. intros t ps Hin. apply C07_topic_ref_complete; [exact Hs|].
  rewrite <- (subscriptions_of_topics cst asg subs Hsubs). apply in_map_iff. exists (t, ps). split; [reflexivity|exact Hin].
Qed.

(* C07_fresh_start_created (third pass) without its hypothesis on topic_ref, and with the offsets as
   KafkaClient::fetch_offsets reports them (part A): NOTHING COMMITTED, END TO END.  No group, or a group whose
   OffsetFetch answer holds no commit; the one fetch_offsets call for the fallback time - Earliest, Latest
   or ByTime - succeeds and lists every subscribed topic: Builder::create SUCCEEDS and every subscribed
   partition for which an offset is reported starts at that offset, whichever sibling partitions are
   reported. *)
Theorem C07_fresh_start_created_at_reported : forall src calls s s1 subs s2 m s3,
  let b := fold_left cbuilder_apply calls (cbuilder_new src) in
  let asg := from_map (cb_assign b) in
  let fb := cb_fallback b in
  cb_assign b <> [] ->
  create_setup src b s = (Ok tt, s1) ->
  subscriptions_of (cs (cl s1)) asg = Ok subs ->
  (cb_group b = [] /\ s2 = s1
   \/ cb_group b <> [] /\ exists tpos,
        fetch_group_offsets (cb_group b) (sub_pairs subs) s1 = (Ok tpos, s2)
        /\ forall t pos p c, In (t, pos) tpos -> In (p, c) pos -> c = -1) ->
  fetch_offsets (map fst subs) (fallback_time fb) s2 = (Ok m, s3) ->
  (forall t ps, In (t, ps) subs -> assoc_bytes t m <> None) ->
  exists k,
    consumer_create src calls s = (Ok k, s3)
    /\ k_consumed k = [] /\ k_retry k = []
    /\ forall t ps p vs o, In (t, ps) subs -> In p ps ->
         assoc_bytes t m = Some vs -> NoDup (map fst vs) -> In (p, o) vs ->
         exists r, topic_ref asg t = Some r
           /\ tk_get (r, p) (k_fetch k) = Some (o, fetch_max_bytes_per_partition (cfg (cl s2))).
Proof.
  intros src calls s s1 subs s2 m s3 b asg fb Hne Hsetup Hsubs Hgroup Hf Hall.
  destruct (C07_builder_topics_resolve src calls (cs (cl s1)) subs Hsubs) as [_ Hres].
  destruct (C07_reported_offset_is_kept _ _ _ _ _ Hf) as (offs & Hl & Hsame & Hrep & _).
  destruct (C07_fresh_start_created src calls s s1 subs s2 offs s3 Hne Hsetup Hsubs Hgroup Hl) as (k & Hk & Hc & Hr & Hvals).
  { intros t ps Hin. split.
    - destruct (Hres t ps Hin) as [r Hr]. intros Hn. unfold asg, b in Hn. rewrite Hr in Hn. discriminate.
    - intros Hn. apply (Hall t ps Hin). apply Hsame. exact Hn. }
  exists k. split; [exact Hk|]. split; [exact Hc|]. split; [exact Hr|].
  intros t ps p vs o Hin Hp Ha Hnd Ho. destruct (Hvals t ps p Hin Hp) as (r & Hr' & Hg).
  exists r. split; [exact Hr'|]. rewrite Hg, (Hrep t vs p o Ha Hnd Ho). reflexivity.
Qed.

(* Builder::create fails with the error of load_fetch_states when the stages before it succeed *)
Theorem C07_create_fails_in_fetch_states : forall src calls s s1 subs consumed s2 e s3,
  let b := fold_left cbuilder_apply calls (cbuilder_new src) in
  let asg := from_map (cb_assign b) in
  cb_assign b <> [] ->
  create_setup src b s = (Ok tt, s1) ->
  subscriptions_of (cs (cl s1)) asg = Ok subs ->
  load_consumed_offsets (cb_group b) asg subs s1 = (Ok consumed, s2) ->
  load_fetch_states (cb_fallback b) asg subs consumed s2 = (Err e, s3) ->
  consumer_create src calls s = (Err e, s3).
Proof.
  intros src calls s s1 subs consumed s2 e s3 b asg Hne Hsetup Hsubs Hco Hfe. subst asg.
  unfold consumer_create. fold b.
  destruct (cb_assign b) as [|a0 al] eqn:Ea; [exfalso; apply Hne; reflexivity|].
  rewrite <- Ea in *. clear Hne.
  unfold create_setup in Hsetup.
  apply mbind_ok in Hsetup. destruct Hsetup as (c & sa & Hc & Hsetup).
  apply mbind_ok in Hsetup. destruct Hsetup as (wait & sb & Hw & Hsetup).
  apply mbind_ok in Hsetup. destruct Hsetup as (u & sc & Hset & Hmeta).
  rewrite (mbind_fwd _ _ _ _ _ Hc). cbv beta.
  rewrite (mbind_fwd _ _ _ _ _ Hw). cbv beta.
  rewrite (mbind_fwd _ _ _ _ _ Hset). cbv beta.
  rewrite (mbind_fwd _ _ _ _ _ Hmeta). cbv beta zeta.
  rewrite (mbind_fwd get_client _ s1 (cl s1) s1 eq_refl). cbv beta.
  assert (Hls : lift (subscriptions_of (cs (cl s1)) (from_map (cb_assign b))) s1 = (Ok subs, s1)).
  { unfold lift. rewrite Hsubs. reflexivity. }
  rewrite (mbind_fwd _ _ _ _ _ Hls). cbv beta.
  rewrite (mbind_fwd _ _ _ _ _ Hco). cbv beta.
  unfold mbind at 1. rewrite Hfe. reflexivity.
Qed.

(* A GROUP WITH COMMITS, END TO END, FORWARD.  The group's restored offsets are not empty, the fallback is
   Earliest or Latest, the latest and the earliest look-up succeed: Builder::create SUCCEEDS, and the first
   fetch offset of every subscribed partition is its commit when that lies in [earliest, latest], else
   (outside, or no commit for this partition) the offset reported for the fallback position. *)
Theorem C07_group_start_created : forall src calls s s1 subs consumed s2 latest s3 earliest s4,
  let b := fold_left cbuilder_apply calls (cbuilder_new src) in
  let asg := from_map (cb_assign b) in
  let fb := cb_fallback b in
  cb_assign b <> [] ->
  create_setup src b s = (Ok tt, s1) ->
  subscriptions_of (cs (cl s1)) asg = Ok subs ->
  load_consumed_offsets (cb_group b) asg subs s1 = (Ok consumed, s2) ->
  consumed <> [] ->
  load_partition_offsets (map fst subs) FETCH_OFFSET_LATEST s2 = (Ok latest, s3) ->
  load_partition_offsets (map fst subs) FETCH_OFFSET_EARLIEST s3 = (Ok earliest, s4) ->
  (forall tm, fb <> FbByTime tm) ->
  (forall r p o d, tk_get (r, p) consumed = Some (o, d) -> i64_min <= o < i64_max) ->
  exists k,
    consumer_create src calls s = (Ok k, s4)
    /\ k_consumed k = consumed /\ k_retry k = []
    /\ forall t ps p, In (t, ps) subs -> In p ps ->
       exists r off, topic_ref asg t = Some r
         /\ tk_get (r, p) (k_fetch k) = Some (off, fetch_max_bytes_per_partition (cfg (cl s2)))
         /\ (forall c d, tk_get (r, p) consumed = Some (c - 1, d) ->
               (lookup_off earliest t p <= c <= lookup_off latest t p -> off = c)
               /\ (c < lookup_off earliest t p \/ lookup_off latest t p < c ->
                   fallback_is fb (lookup_off earliest t p) (lookup_off latest t p) off))
         /\ (tk_get (r, p) consumed = None ->
               fallback_is fb (lookup_off earliest t p) (lookup_off latest t p) off).
Proof.
  intros src calls s s1 subs consumed s2 latest s3 earliest s4 b asg fb Hne Hsetup Hsubs Hco Hcne Hl He Hfb Hbound.
  destruct (C07_builder_topics_resolve src calls (cs (cl s1)) subs Hsubs) as [_ Hres].
  destruct (C07_committed_start_created fb asg subs consumed s2 latest s3 earliest s4 Hcne Hl He) as (fetch & Hrun & Hvals);
    [|exact Hfb|exact Hbound|].
  { intros t ps Hin. destruct (Hres t ps Hin) as [r Hr]. intros Hn. unfold asg, b in Hn. rewrite Hr in Hn. discriminate. }
  pose proof (C07_create_complete src calls s s1 subs consumed s2 fetch s4 Hne Hsetup Hsubs Hco Hrun) as Hcreate.
  eexists. split; [exact Hcreate|]. cbn [k_consumed k_retry k_fetch].
  split; [reflexivity|]. split; [reflexivity|exact Hvals].
Qed.

(* ================================================================================== *)
(* D. non-vacuity for parts B and C                                                   *)
(* ================================================================================== *)
From KV Require Import Spec.RespGrammar.

Example C07_start_offset_total_ex :
  (forall tm, FbLatest <> FbByTime tm) /\ (forall o d, Some (16, false) = Some (o, d) -> i64_min <= o < i64_max)
  /\ start_offset true FbLatest (Some (16, false)) 3 30 = Ok 17
  /\ start_offset true FbLatest (Some (40, false)) 3 30 = Ok 30.
Proof.
  split; [discriminate|]. split; [intros o d H; inversion H; unfold i64_min, i64_max; lia|].
  split; vm_compute; reflexivity.
Qed.

(* the second demonstration of seeded/C07-7: same cluster (t:1 without a leader), group "g" with commits
   t:0 = 12 in (5, 20), t:2 = 17 in (3, 30); assigned t:{0,2}; both start at their commits *)
Definition ex_group7_answer (c0 c2 : Z) : bytes :=
  print_offset_fetch {| wr_corr := 1; wr_topics := Some [ {| wt_name := Some xt;
      wt_partitions := Some [ex_fetch_part 0 c0; ex_fetch_part 2 c2] |} ] |}.
Definition ex_ranges7 : list ev_out :=
  ex_talk (ex_off_answer [ex_off_part 0 20]) ++ OConn true :: ex_talk (ex_off_answer [ex_off_part 2 30])
  ++ ex_talk (ex_off_answer [ex_off_part 0 5]) ++ ex_talk (ex_off_answer [ex_off_part 2 3]).
Definition ex_calls7 (fb : fallback) : list cbuilder_call :=
  [CWithGroup xg; CWithTopicPartitions xt [0; 2]; CWithFallback fb].

Example C07_committed_next_to_a_leaderless_partition_ex : exists k s',
  consumer_create (inr ex_client7) (ex_calls7 FbEarliest)
    (ex_st7_of (OConn true :: ex_talk (ex_group7_answer 12 17) ++ ex_ranges7)) = (Ok k, s')
  /\ k_consumed k = [((0, 0), (11, false)); ((0, 2), (16, false))]
  /\ k_fetch k = [((0, 0), (12, 4096)); ((0, 2), (17, 4096))]
  /\ script s' = [].
Proof. eexists. eexists. split; [vm_compute; reflexivity|]. vm_compute. repeat split. Qed.

(* the hypotheses of C07_group_start_created (and of C07_committed_start_created) on that run *)
Example C07_group_start_created_ex :
  let b := fold_left cbuilder_apply (ex_calls7 FbEarliest) (cbuilder_new (inr ex_client7)) in
  let asg := from_map (cb_assign b) in
  exists s1 subs consumed s2 latest s3 earliest s4,
    cb_assign b <> [] /\ cb_fallback b = FbEarliest
    /\ create_setup (inr ex_client7) b (ex_st7_of (OConn true :: ex_talk (ex_group7_answer 12 17) ++ ex_ranges7)) = (Ok tt, s1)
    /\ subscriptions_of (cs (cl s1)) asg = Ok subs /\ subs = [(xt, [0; 2])]
    /\ load_consumed_offsets (cb_group b) asg subs s1 = (Ok consumed, s2)
    /\ consumed = [((0, 0), (11, false)); ((0, 2), (16, false))]
    /\ load_partition_offsets (map fst subs) FETCH_OFFSET_LATEST s2 = (Ok latest, s3)
    /\ load_partition_offsets (map fst subs) FETCH_OFFSET_EARLIEST s3 = (Ok earliest, s4)
    /\ (forall r p o d, tk_get (r, p) consumed = Some (o, d) -> i64_min <= o < i64_max)
    /\ lookup_off earliest xt 2 = 3 /\ lookup_off latest xt 2 = 30 /\ script s4 = [].
Proof.
  cbv zeta. do 8 eexists.
  split; [vm_compute; discriminate|]. split; [reflexivity|].
  split; [vm_compute; reflexivity|]. split; [vm_compute; reflexivity|]. split; [reflexivity|].
  split; [vm_compute; reflexivity|]. split; [reflexivity|].
  split; [vm_compute; reflexivity|]. split; [vm_compute; reflexivity|].
  split.
  { intros r p o d H. cbn [tk_get] in H.
    destruct (tpkey_eqb (0, 0) (r, p)); [inversion H; unfold i64_min, i64_max; lia|].
    destruct (tpkey_eqb (0, 2) (r, p)); [inversion H; unfold i64_min, i64_max; lia|discriminate]. }
  vm_compute. repeat split.
Qed.

(* "where no such offset can be determined creation fails": fallback ByTime, t:0 committed, t:2 not *)
Example C07_by_time_uncommitted_partition_fails_ex : exists s',
  consumer_create (inr ex_client7) (ex_calls7 (FbByTime 1234))
    (ex_st7_of (OConn true :: ex_talk (ex_group7_answer 12 (-1)) ++ ex_ranges7)) = (Err (EKafka KC_Unknown), s')
  /\ script s' = [].
Proof. eexists. split; [vm_compute; reflexivity|]. vm_compute. reflexivity. Qed.

(* the hypotheses of C07_undeterminable_start_fails on that run: pre = [], ps1 = [0], p = 2 *)
Example C07_undeterminable_start_fails_ex : exists latest s1 earliest s',
  let consumed := [((0, 0), (11, false))] in
  load_partition_offsets [xt] FETCH_OFFSET_LATEST
     (ex_st7_of (OConn true :: ex_ranges7)) = (Ok latest, s1)
  /\ load_partition_offsets [xt] FETCH_OFFSET_EARLIEST s1 = (Ok earliest, s')
  /\ topic_ref [(xt, [0; 2])] xt = Some 0
  /\ startable true (FbByTime 1234) consumed latest earliest xt 0 [0]
  /\ start_offset true (FbByTime 1234) (tk_get (0, 2) consumed) (lookup_off earliest xt 2) (lookup_off latest xt 2)
     = Err (EKafka KC_Unknown).
Proof.
  do 4 eexists. cbv zeta.
  split; [vm_compute; reflexivity|]. split; [vm_compute; reflexivity|]. split; [vm_compute; reflexivity|].
  split; [|vm_compute; reflexivity].
  intros p [<-|[]]. exists 12. vm_compute. reflexivity.
Qed.

Example C07_by_time_needs_a_valid_commit_ex :
  start_offset true (FbByTime 7) None 3 30 = Err (EKafka KC_Unknown)
  /\ start_offset true (FbByTime 7) (Some (40 - 1, false)) 3 30 = Err (EKafka KC_Unknown)
  /\ start_offset true (FbByTime 7) (Some (17 - 1, false)) 3 30 = Ok 17.
Proof. repeat split; vm_compute; reflexivity. Qed.

(* part C: the builder is called with "u" before "t" and "u" twice; the assignment is sorted, both topics resolve *)
Example C07_builder_topics_resolve_ex :
  let calls := [CWithTopicPartitions xu [1; 0; 1]; CWithTopic xt; CWithTopic xu] in
  let b := fold_left cbuilder_apply calls (cbuilder_new (inr ex_client2)) in
  cb_assign b = [(xu, []); (xt, [])]
  /\ from_map (cb_assign b) = [(xt, []); (xu, [])]
  /\ subscriptions_of (cs ex_client2) (from_map (cb_assign b)) = Ok [(xt, [0; 1]); (xu, [0; 1])]
  /\ topic_ref (from_map (cb_assign b)) xt = Some 0 /\ topic_ref (from_map (cb_assign b)) xu = Some 1.
Proof. cbv zeta. repeat split; vm_compute; reflexivity. Qed.

Example C07_from_map_sorted_ex :
  NoDup (map fst [(xu, [1; 0; 1]); (xt, [2])]) /\ from_map [(xu, [1; 0; 1]); (xt, [2])] = [(xt, [2]); (xu, [0; 1])].
Proof.
  split; [|vm_compute; reflexivity]. cbn [map fst].
  constructor; [intros [H|[]]; discriminate H|]. constructor; [intros []|constructor].
Qed.

Check C07_reported_offset_is_kept.
Check C07_partition_offsets_from_fetch_offsets.
Check C07_fresh_start_at_reported.
Check C07_start_offset_total.
Check C07_range_states_complete.
Check C07_range_states_first_failure.
Check C07_load_fetch_states_range_eq.
Check C07_committed_start_created.
Check C07_undeterminable_start_fails.
Check C07_by_time_needs_a_valid_commit.
Check C07_from_map_sorted.
Check @C07_topic_ref_complete.
Check C07_builder_topics_distinct.
Check C07_builder_topics_resolve.
Check C07_fresh_start_created_at_reported.
Check C07_create_fails_in_fetch_states.
Check C07_group_start_created.

Print Assumptions C07_reported_offset_is_kept.
Print Assumptions C07_partition_offsets_from_fetch_offsets.
Print Assumptions C07_fresh_start_at_reported.
Print Assumptions C07_start_offset_total.
Print Assumptions C07_range_states_complete.
Print Assumptions C07_range_states_first_failure.
Print Assumptions C07_load_fetch_states_range_eq.
Print Assumptions C07_committed_start_created.
Print Assumptions C07_undeterminable_start_fails.
Print Assumptions C07_by_time_needs_a_valid_commit.
Print Assumptions C07_from_map_sorted.
Print Assumptions C07_topic_ref_complete.
Print Assumptions C07_builder_topics_distinct.
Print Assumptions C07_builder_topics_resolve.
Print Assumptions C07_fresh_start_created_at_reported.
Print Assumptions C07_create_fails_in_fetch_states.
Print Assumptions C07_group_start_created.
