(* C18 extra, second pass (seeded change C18-4: "MessageSetsIter without the Option juggling").

   Props/C18.v so far speaks about the responses a poll result KEEPS (ms_responses) and about the
   buffers the views point into; no theorem mentions `Consumer.iterate`, the model of
   `MessageSetsIter::next` - the only way a user reads a poll result.  The seeded change labels
   every message set of a response with the name of the response's FIRST topic: valid memory, a
   sub-slice of the reply bytes (so even "the name handed out is a slice of the reply" would still
   hold), but not the topic name the broker sent for that partition.  Mirrored in the model it
   changes `iterate` only, and every theorem of Props/C18.v stays provable (checked in a scratch
   copy).  This file adds:

   A. C18_iterate_each_set_under_its_topic   exact: what the iterator hands out, in order, is each
                                             partition that carries messages, labelled with the
                                             name of the topic record IT sits in
      C18_iterate_own_topic                  the same as a membership equivalence
      C18_seed4_mutant_caught                the seeded change, mirrored, falsifies it
   B. C18_fetch_topics_read_in_place         every topic of a parsed response is what Topic::read
                                             reads at a position of the reply bytes
      C18_topic_record_layout                there: i16 length, the name bytes (byte-identical), then
                                             the partition array, each partition read at a position
                                             BEHIND that name
   C. C18_poll_iterate_topic_as_sent         Consumer::poll + iteration: every (topic, partition,
                                             messages) handed out comes from ONE topic record of
                                             ONE broker's reply bytes: the name is the name field of
                                             that record and the partition is in that record's array
      C18_fetch_iterate_topic_as_sent        the same for any list of responses handed out by
                                             KafkaClient::fetch_messages
   D. C18_iterate_as_sent                    forward: the replies are the printed form of what the
                                             brokers sent (any number of topics / partitions per
                                             reply) -> the iterator hands out exactly the sent
                                             topic name with each non-failed, non-empty partition,
                                             in the order sent
      C18_poll_iterate_as_sent               ... composed with Consumer::poll's processing *)
From KV Require Import Base.Prelude Base.Snappy Gen.Consts Model.Codecs Model.Requests Model.Responses
                       Model.ClientState Model.Net Model.Client Model.Consumer Model.Ownership.
From KV Require Import Spec.RespGrammar Proofs.C10Facts Proofs.C02Extra.
From KV Require Import Spec.MsgSetSpec Proofs.C02Lemmas Proofs.C02Facts Proofs.C18Facts Proofs.C18Extra Proofs.C18Extra2.
From Coq Require Import ZifyBool.

(* ====================================================================== *)
(* A. MessageSetsIter: each message set under the name of its own topic    *)
(* ====================================================================== *)

Definition has_msgs (p : fetch_part) : bool :=
  match fp_data p with inl (_, _ :: _) => true | _ => false end.
Definition part_msgs (p : fetch_part) : list message :=
  match fp_data p with inl (_, msgs) => msgs | inr _ => [] end.

(* the message sets of ONE topic record, as handed out *)
Definition topic_items (t : fetch_topic) : list (bytes * Z * list message) :=
  map (fun p => (ft_topic t, fp_partition p, part_msgs p)) (filter has_msgs (ft_partitions t)).

(* MessageSets::iter(), ANY poll result (any number of responses, topics per response, partitions
   per topic): the items are, response after response and topic record after topic record, the
   partitions of that record that carry at least one message, each with ITS OWN partition id and
   messages and with the name of THE record it sits in. *)
Theorem C18_iterate_each_set_under_its_topic : forall ms,
  iterate ms = flat_map (fun r => flat_map topic_items (fr_topics r)) (ms_responses ms).
Proof.
  intros ms. unfold iterate. apply flat_map_ext. intros r. apply flat_map_ext. intros t.
  unfold topic_items. induction (ft_partitions t) as [|p ps IH]; [reflexivity|].
  cbn [flat_map filter]. rewrite IH.
  assert (Hh : has_msgs p = match fp_data p with inl (_, _ :: _) => true | _ => false end) by reflexivity.
  assert (Hm : part_msgs p = match fp_data p with inl (_, msgs) => msgs | inr _ => [] end) by reflexivity.
  rewrite Hh. destruct (fp_data p) as [[hw [|m l]]|c] eqn:Ed; try reflexivity.
  cbn [map app]. rewrite Hm. reflexivity.
Qed.

Theorem C18_iterate_own_topic : forall ms t p msgs,
  In (t, p, msgs) (iterate ms) <->
  exists r ft fp hw,
    In r (ms_responses ms) /\ In ft (fr_topics r) /\ In fp (ft_partitions ft) /\
    fp_data fp = inl (hw, msgs) /\ msgs <> [] /\ t = ft_topic ft /\ p = fp_partition fp.
Proof.
  intros ms t p msgs. rewrite C18_iterate_each_set_under_its_topic. split.
  - intros H. apply in_flat_map in H. destruct H as [r [Hr H]].
    apply in_flat_map in H. destruct H as [ft [Hft H]].
    unfold topic_items in H. apply in_map_iff in H. destruct H as [fp [E H]].
    apply filter_In in H. destruct H as [Hfp Hm].
    unfold has_msgs in Hm. unfold part_msgs in E.
    destruct (fp_data fp) as [[hw [|m l]]|c] eqn:Ed; try discriminate Hm.
    inversion E; subst. exists r, ft, fp, hw. repeat split; try assumption. discriminate.
  - intros [r [ft [fp [hw [Hr [Hft [Hfp [Hd [Hne [-> ->]]]]]]]]]].
    apply in_flat_map. exists r. split; [exact Hr|]. apply in_flat_map. exists ft. split; [exact Hft|].
    unfold topic_items. apply in_map_iff. exists fp. split.
    + unfold part_msgs. rewrite Hd. reflexivity.
    + apply filter_In. split; [exact Hfp|]. unfold has_msgs. rewrite Hd.
      destruct msgs; [contradiction Hne; reflexivity|reflexivity].
Qed.

(* the sequence of topic names read off the iterator *)
Corollary C18_iterate_topic_names : forall ms,
  map (fun x : bytes * Z * list message => fst (fst x)) (iterate ms)
  = flat_map (fun r => flat_map (fun t => repeat (ft_topic t) (length (filter has_msgs (ft_partitions t))))
                                (fr_topics r)) (ms_responses ms).
Proof.
  intros ms. rewrite C18_iterate_each_set_under_its_topic.
  induction (ms_responses ms) as [|r rs IH]; [reflexivity|].
  cbn [flat_map]. rewrite map_app, IH. f_equal. clear IH.
  induction (fr_topics r) as [|t ts IH]; [reflexivity|].
  cbn [flat_map]. rewrite map_app, IH. f_equal. clear IH.
  unfold topic_items. induction (filter has_msgs (ft_partitions t)) as [|p ps IH]; [reflexivity|].
  cbn [map length repeat fst]. rewrite IH. reflexivity.
Qed.

(* non-vacuity: the layout of the seed's demonstration.  Broker 1 answers with TWO topics
   ("alpha": partition 0; "beta": partitions 1 (empty), 2 and a failed 3), broker 2 with "gamma". *)
Definition exb_msg (o : Z) (v : bytes) : message := {| m_offset := o; m_key := []; m_value := v |}.
Definition exb_resps : list fetch_resp :=
  [ {| fr_corr := 1;
       fr_topics := [ {| ft_topic := tag "alpha";
                         ft_partitions := [ {| fp_partition := 0; fp_data := inl (9, [exb_msg 1 (tag "a0")]) |} ] |};
                      {| ft_topic := tag "beta";
                         ft_partitions := [ {| fp_partition := 1; fp_data := inl (9, []) |};
                                            {| fp_partition := 2; fp_data := inl (9, [exb_msg 4 (tag "b2"); exb_msg 5 (tag "b2'")]) |};
                                            {| fp_partition := 3; fp_data := inr 6 |} ] |} ] |};
    {| fr_corr := 1;
       fr_topics := [ {| ft_topic := tag "gamma";
                         ft_partitions := [ {| fp_partition := 3; fp_data := inl (9, [exb_msg 7 (tag "g3")]) |} ] |} ] |} ].
Definition exb_ms : message_sets := {| ms_responses := exb_resps; ms_empty := false |}.

Example C18_iterate_each_set_under_its_topic_ex :
  iterate exb_ms = [ (tag "alpha", 0, [exb_msg 1 (tag "a0")]);
                     (tag "beta", 2, [exb_msg 4 (tag "b2"); exb_msg 5 (tag "b2'")]);
                     (tag "gamma", 3, [exb_msg 7 (tag "g3")]) ]
  /\ map (fun x : bytes * Z * list message => fst (fst x)) (iterate exb_ms) = [tag "alpha"; tag "beta"; tag "gamma"].
Proof. vm_compute. split; reflexivity. Qed.

(* The seeded change C18-4 mirrored in the model: `curr_topic` is set when the cursor enters a
   RESPONSE (to the name of its first topic, "" when it has none) and no longer when it enters a
   topic. *)
Definition iterate_seed4 (ms : message_sets) : list (bytes * Z * list message) :=
  flat_map (fun r =>
    let curr_topic := match fr_topics r with t0 :: _ => ft_topic t0 | [] => [] end in
    flat_map (fun t =>
      flat_map (fun p =>
        match fp_data p with
        | inl (_, (m :: _) as msgs) => [(curr_topic, fp_partition p, msgs)]
        | _ => []
        end) (ft_partitions t)) (fr_topics r)) (ms_responses ms).

(* With the change, C18_iterate_own_topic (hence C18_iterate_each_set_under_its_topic and
   C18_iterate_topic_names) is FALSE: the set of partition 2 is handed out as "alpha", and no
   topic record named "alpha" of the result lists a partition 2.  With one topic per response
   the changed iterator agrees with the real one. *)
Example C18_seed4_mutant_caught :
  In (tag "alpha", 2, [exb_msg 4 (tag "b2"); exb_msg 5 (tag "b2'")]) (iterate_seed4 exb_ms) /\
  ~ (exists r ft fp hw,
       In r (ms_responses exb_ms) /\ In ft (fr_topics r) /\ In fp (ft_partitions ft) /\
       fp_data fp = inl (hw, [exb_msg 4 (tag "b2"); exb_msg 5 (tag "b2'")]) /\
       [exb_msg 4 (tag "b2"); exb_msg 5 (tag "b2'")] <> [] /\
       tag "alpha" = ft_topic ft /\ 2 = fp_partition fp) /\
  iterate_seed4 {| ms_responses := tl exb_resps; ms_empty := false |}
  = iterate {| ms_responses := tl exb_resps; ms_empty := false |}.
Proof.
  split; [vm_compute; tauto|]. split; [|vm_compute; reflexivity].
  intros [r [ft [fp [hw [Hr [Hft [Hfp [_ [_ [Ht Hp]]]]]]]]]].
  cbn [ms_responses exb_ms exb_resps] in Hr.
  destruct Hr as [<-|[<-|[]]]; cbn [fr_topics] in Hft.
  - destruct Hft as [<-|[<-|[]]]; cbn [ft_topic ft_partitions] in *.
    + destruct Hfp as [<-|[]]. discriminate Hp.
    + discriminate Ht.
  - destruct Hft as [<-|[]]. discriminate Ht.
Qed.

(* ====================================================================== *)
(* B. where the topic name and the partitions of a topic record are read    *)
(* ====================================================================== *)

(* array_of!: every element of the result is what the element parser reads at a position of the
   input *)
Lemma zread_many_at {A} (d : bytes -> res (A * bytes)) :
  (forall bs x r, d bs = Ok (x, r) -> exists used, bs = used ++ r) ->
  forall fuel count bs xs r,
    zread_many d fuel count bs = Ok (xs, r) ->
    forall x, In x xs -> exists pre suf r', bs = pre ++ suf /\ d suf = Ok (x, r').
Proof.
  intros Hd. induction fuel as [|f IH]; intros count bs xs r H x Hin.
  - cbn [zread_many] in H. destruct (count <=? 0); [|discriminate H].
    inversion H; subst. destruct Hin.
  - cbn [zread_many] in H. destruct (count <=? 0).
    { inversion H; subst. destruct Hin. }
    destruct (d bs) as [[x0 r1]|e|w] eqn:E; cbn [bind] in H; try discriminate H.
    destruct (zread_many d f (count - 1) r1) as [[xs' r2]|e|w] eqn:E2; cbn [bind] in H; try discriminate H.
    inversion H; subst. clear H. destruct Hin as [<-|Hin].
    + exists [], bs, r1. split; [reflexivity|exact E].
    + destruct (Hd _ _ _ E) as [u ->].
      destruct (IH _ _ _ _ E2 x Hin) as [pre [suf [r' [-> Hx]]]].
      exists (u ++ pre), suf, r'. split; [rewrite app_assoc; reflexivity|exact Hx].
Qed.

Lemma zread_array_at {A} (sz : Z) (d : bytes -> res (A * bytes)) :
  (forall bs x r, d bs = Ok (x, r) -> exists used, bs = used ++ r) ->
  forall bs xs r,
    zread_array sz d bs = Ok (xs, r) ->
    forall x, In x xs -> exists pre suf r', bs = pre ++ suf /\ (4 <= length pre)%nat /\ d suf = Ok (x, r').
Proof.
  intros Hd bs xs r H x Hin. unfold zread_array in H.
  destruct (zread_array_len bs) as [[n r1]|e|w] eqn:E; cbn [bind] in H; try discriminate H.
  unfold zread_array_len in E.
  destruct (zread_i32 bs) as [[len r0]|e|w] eqn:E0; cbn [bind] in E; try discriminate E.
  inversion E; subst n r1. clear E.
  unfold zread_i32 in E0. apply zread_int_inv in E0. destruct E0 as [h [Lh ->]].
  destruct (zread_many_at d Hd _ _ _ _ _ H x Hin) as [pre [suf [r' [-> Hx]]]].
  exists (h ++ pre), suf, r'. split; [rewrite app_assoc; reflexivity|]. split; [|exact Hx].
  rewrite app_length. lia.
Qed.

Lemma read_partition_prefix cz depth validate preqs bs p r :
  read_partition cz depth validate preqs bs = Ok (p, r) -> exists used, bs = used ++ r.
Proof. intros H. apply read_partition_within in H. destruct H as [u [-> _]]. eauto. Qed.

Lemma read_topic_prefix cz depth validate reqs bs t r :
  read_topic cz depth validate reqs bs = Ok (t, r) -> exists used, bs = used ++ r.
Proof. intros H. apply read_topic_within in H. destruct H as [u [-> _]]. eauto. Qed.

(* ft is what Topic::read reads at some position of the reply bytes b *)
Definition topic_at (cz : codecs) (depth : nat) (validate : bool) (reqs : fetch_tps) (b : bytes)
           (ft : fetch_topic) : Prop :=
  exists pre suf rest, b = pre ++ suf /\ (8 <= length pre)%nat /\
                       read_topic cz depth validate reqs suf = Ok (ft, rest).

(* Response::from_vec, ALL inputs: every topic of the result was read by Topic::read at a
   position of the response bytes (behind the correlation id and the array length) *)
Theorem C18_fetch_topics_read_in_place : forall cz depth validate reqs bs resp ft,
  fetch_from_vec cz depth validate reqs bs = Ok resp -> In ft (fr_topics resp) ->
  topic_at cz depth validate reqs bs ft.
Proof.
  intros cz depth validate reqs bs resp ft H Hin. unfold fetch_from_vec in H.
  destruct (zread_i32 bs) as [[c r1]|e|w] eqn:E1; cbn [bind] in H; try discriminate H.
  destruct (zread_array 40 (read_topic cz depth validate reqs) r1) as [[ts r2]|e|w] eqn:E2;
    cbn [bind] in H; try discriminate H.
  inversion H; subst resp. clear H. cbn [fr_topics] in Hin.
  unfold zread_i32 in E1. apply zread_int_inv in E1. destruct E1 as [h [Lh ->]].
  destruct (zread_array_at 40 _ (read_topic_prefix cz depth validate reqs) _ _ _ E2 ft Hin)
    as [pre [suf [r' [-> [Lp Hx]]]]].
  exists (h ++ pre), suf, r'. split; [rewrite app_assoc; reflexivity|]. split; [|exact Hx].
  rewrite app_length. lia.
Qed.

(* Topic::read, ALL inputs: a two byte length, then the name - byte-identical, of the announced
   length (or empty for a length <= 0) - then the partition array; every partition of the topic
   is read by Partition::read at a position BEHIND that name, with the offsets requested for
   that name. *)
Theorem C18_topic_record_layout : forall cz depth validate reqs suf ft rest,
  read_topic cz depth validate reqs suf = Ok (ft, rest) ->
  exists h body,
    suf = h ++ ft_topic ft ++ body /\ length h = 2%nat /\
    (be_dec_s h <= 0 /\ ft_topic ft = [] \/ be_dec_s h = ulen (ft_topic ft)) /\
    zread_array 64 (read_partition cz depth validate (assoc_bytes (ft_topic ft) reqs)) body
      = Ok (ft_partitions ft, rest) /\
    forall fp, In fp (ft_partitions ft) ->
      exists pre2 suf2 r2, body = pre2 ++ suf2 /\ (4 <= length pre2)%nat /\
        read_partition cz depth validate (assoc_bytes (ft_topic ft) reqs) suf2 = Ok (fp, r2).
Proof.
  intros cz depth validate reqs suf ft rest H. unfold read_topic in H.
  destruct (zread_str suf) as [[name r1]|e|w] eqn:E1; cbn [bind] in H; try discriminate H.
  destruct (zread_array 64 (read_partition cz depth validate (assoc_bytes name reqs)) r1)
    as [[ps r2]|e|w] eqn:E2; cbn [bind] in H; try discriminate H.
  inversion H; subst ft r2. clear H. cbn [ft_topic ft_partitions].
  unfold zread_str, zread_i16 in E1.
  destruct (zread 2 suf) as [[h r0]|e|w] eqn:E0; cbn [bind] in E1; try discriminate E1.
  apply C18_zread_exact in E0. destruct E0 as [Lh ->].
  exists h, r1. split; [|split; [exact Lh|split; [|split; [exact E2|]]]].
  - destruct (be_dec_s h <=? 0).
    + inversion E1; subst. reflexivity.
    + destruct (zread (Z.to_nat (be_dec_s h)) r0) as [[s' r3]|e|w] eqn:E3; cbn [bind] in E1; try discriminate E1.
      destruct (Utf8.utf8_valid s'); [|discriminate E1]. inversion E1; subst.
      apply C18_zread_exact in E3. destruct E3 as [_ ->]. reflexivity.
  - destruct (be_dec_s h <=? 0) eqn:Ez.
    + inversion E1; subst. left. split; [lia|reflexivity].
    + destruct (zread (Z.to_nat (be_dec_s h)) r0) as [[s' r3]|e|w] eqn:E3; cbn [bind] in E1; try discriminate E1.
      destruct (Utf8.utf8_valid s'); [|discriminate E1]. inversion E1; subst.
      apply C18_zread_exact in E3. destruct E3 as [L _]. right. unfold ulen. lia.
  - intros fp Hin.
    apply (zread_array_at 64 _ (read_partition_prefix cz depth validate (assoc_bytes name reqs)) _ _ _ E2 fp Hin).
Qed.

(* non-vacuity: the reply of C18Extra (two topics "ta" / "tb", three partitions, plain / gzip /
   nested sets): "tb" is read at position 297 = 8 + |record "ta"|; its only partition sits 6 + 4
   bytes further on *)
Example C18_fetch_topics_read_in_place_ex :
  exists resp ta tb rest,
    fetch_from_vec (wcz true) 3 true [(tag "ta", [(0, (1, 100)); (1, (1, 100))])] ex_fetch_bytes = Ok resp /\
    fr_topics resp = [ta; tb] /\ ft_topic tb = tag "tb" /\
    read_topic (wcz true) 3 true [(tag "ta", [(0, (1, 100)); (1, (1, 100))])]
               (skipn (8 + length (ex_topic (tag "ta") [ex_part 0 (ser wcomp es3); ex_part 1 (ser wcomp es_gz)])) ex_fetch_bytes)
      = Ok (tb, rest) /\
    rest = [] /\
    firstn 4 (skipn (8 + length (ex_topic (tag "ta") [ex_part 0 (ser wcomp es3); ex_part 1 (ser wcomp es_gz)])) ex_fetch_bytes)
      = enc_i16 2 ++ tag "tb".
Proof. do 4 eexists. vm_compute. repeat split; reflexivity. Qed.

(* ====================================================================== *)
(* C. composition: what Consumer::poll + iteration hands out                *)
(* ====================================================================== *)

Lemma Forall2_in_r {A B} (P : A -> B -> Prop) l1 l2 y :
  Forall2 P l1 l2 -> In y l2 -> exists x, In x l1 /\ P x y.
Proof.
  intros HF. induction HF as [|a b l1 l2 Hab HF IH]; intros Hin; [destruct Hin|].
  destruct Hin as [<-|Hin]; [exists a; split; [left; reflexivity|exact Hab]|].
  destruct (IH Hin) as [x [Hx HP]]. exists x. split; [right; exact Hx|exact HP].
Qed.

(* one item handed out by the iterator, traced back to the wire: ONE reply `b` of ONE broker,
   ONE topic record of it (read in place by Topic::read), whose name field is the name handed out
   and whose partition array holds the partition handed out *)
Definition item_as_sent (reqs : list (bytes * fetch_tps)) (rs : list fetch_resp)
           (t : bytes) (p : Z) (msgs : list message) : Prop :=
  exists req r cz validate b s2 s3 ft fp hw,
    In req reqs /\ In r rs /\
    get_response_bytes (fst req) s2 = (Ok b, s3) /\
    fetch_from_vec cz decode_depth validate (snd req) b = Ok r /\
    In ft (fr_topics r) /\ topic_at cz decode_depth validate (snd req) b ft /\
    In fp (ft_partitions ft) /\ fp_data fp = inl (hw, msgs) /\ msgs <> [] /\
    t = ft_topic ft /\ p = fp_partition fp /\ subslice t b.

Lemma iterate_item_as_sent reqs ms t p msgs :
  Forall2 parsed_reply reqs (ms_responses ms) -> In (t, p, msgs) (iterate ms) ->
  item_as_sent reqs (ms_responses ms) t p msgs.
Proof.
  intros HF Hin. apply C18_iterate_own_topic in Hin.
  destruct Hin as [r [ft [fp [hw [Hr [Hft [Hfp [Hd [Hne [-> ->]]]]]]]]]].
  destruct (Forall2_in_r _ _ _ _ HF Hr) as [req [Hreq [cz [validate [b [s2 [s3 [Hb Hv]]]]]]]].
  exists req, r, cz, validate, b, s2, s3, ft, fp, hw.
  repeat split; try assumption; try reflexivity.
  - apply (C18_fetch_topics_read_in_place _ _ _ _ _ _ _ Hv Hft).
  - apply (C18_fetch_views_owned _ _ _ _ _ _ _ _ _ _ Hv Hft Hfp Hd).
Qed.

(* KafkaClient::fetch_messages, then reading the result the way a poll result is read *)
Theorem C18_fetch_iterate_topic_as_sent : forall input s rs s' e t p msgs,
  fetch_messages input s = (Ok rs, s') ->
  In (t, p, msgs) (iterate {| ms_responses := rs; ms_empty := e |}) ->
  exists c reqs s1 s2,
    ordered (fetch_reqs c input) s1 = (Ok reqs, s2) /\ item_as_sent reqs rs t p msgs.
Proof.
  intros input s rs s' e t p msgs H Hin.
  destruct (C18_fetch_messages_one_response_per_broker _ _ _ _ H) as [c [reqs [s1 [s2 [Ho HF]]]]].
  exists c, reqs, s1, s2. split; [exact Ho|].
  apply (iterate_item_as_sent reqs {| ms_responses := rs; ms_empty := e |} t p msgs HF Hin).
Qed.

(* Consumer::poll, then `for ms in result.iter()`: ANY consumer (any number of assigned topics,
   any partition layout over the brokers), any script of the brokers.  Every message set handed
   out carries the name that Topic::read read, in the reply bytes of ONE broker, in front of the
   very partition array the set's partition was read from. *)
Theorem C18_poll_iterate_topic_as_sent : forall k s ms k' s' t p msgs,
  consumer_poll k s = (Ok (Ok ms, k'), s') -> In (t, p, msgs) (iterate ms) ->
  exists input c reqs s1 s2,
    C01Facts.poll_requests k = Some input /\
    ordered (fetch_reqs c input) s1 = (Ok reqs, s2) /\
    item_as_sent reqs (ms_responses ms) t p msgs.
Proof.
  intros k s ms k' s' t p msgs H Hin.
  destruct (C18_poll_result_owned _ _ _ _ _ H) as [input [c [reqs [s1 [s2 [H1 [H2 HF]]]]]]].
  exists input, c, reqs, s1, s2. split; [exact H1|]. split; [exact H2|].
  apply (iterate_item_as_sent _ _ _ _ _ HF Hin).
Qed.

(* non-vacuity of C18_poll_iterate_topic_as_sent: a consumer of TWO topics whose partitions are
   both led by ONE broker (the layout seeded change C18-4 needs); the broker's single reply lists
   "ta" (plain set) and then "tb" (gzip batch); the whole poll runs on the wire bytes *)
Definition ex4_cs : cstate :=
  {| correlation := 0;
     brokers := [ {| b_node := 1; b_host := tag "a:9092" |} ];
     topic_partitions := [ (tag "ta", [0]); (tag "tb", [0]) ]; group_coordinators := [] |}.
Definition ex4_client : client :=
  {| cfg := default_config [tag "a:9092"]; cs := ex4_cs; conns := [] |}.
Definition ex4_k : consumer :=
  {| k_client := ex4_client; k_group := tag "g"; k_fallback := FbEarliest; k_retry_limit := 1000000;
     k_assign := [(tag "ta", [0]); (tag "tb", [0])];
     k_fetch := [((0, 0), (1, 32768)); ((1, 0), (1, 32768))];
     k_retry := [];
     k_consumed := [] |}.
Definition ex4_reply : bytes :=
  enc_i32 1 ++ enc_i32 2 ++ ex_topic (tag "ta") [ex_part 0 (ser wcomp es3)]
                         ++ ex_topic (tag "tb") [ex_part 0 (ser wcomp es_gz)].
Definition ex4_st : st :=
  {| script := [ OConn true; OWrote 1000; OData (enc_i32 (ulen ex4_reply)); OData ex4_reply ];
     trace := []; anyq := []; hostq := []; fetchq := []; entryq := []; cl := ex4_client; env := wcz true |}.

Example C18_poll_iterate_topic_as_sent_ex :
  exists ms k' s',
    consumer_poll ex4_k ex4_st = (Ok (Ok ms, k'), s') /\
    length (ms_responses ms) = 1%nat /\
    iterate ms = [ (tag "ta", 0, [m1; m2]); (tag "tb", 0, [m1; m2]) ] /\
    iterate_seed4 ms = [ (tag "ta", 0, [m1; m2]); (tag "ta", 0, [m1; m2]) ].
Proof. eexists. eexists. eexists. vm_compute. repeat split; reflexivity. Qed.

(* ====================================================================== *)
(* D. forward: the iterator hands out what the brokers sent                 *)
(* ====================================================================== *)

(* what ONE broker's answer `r` (grammar of Spec.RespGrammar: any number of topics, any number of
   partitions per topic, null names / arrays allowed) must be read as, item by item: each partition
   without an error code whose message set exposes at least one message (for the offset requested
   for THAT topic and partition), under the topic name SENT in front of it *)
Definition sent_items (cz : codecs) (d : nat) (validate : bool) (reqs : fetch_tps)
           (r : w_topics_resp w_fetch_part) : list (bytes * Z * list message) :=
  flat_map (fun t =>
    flat_map (fun p =>
      match from_protocol (wfe_error p) with
      | Some _ => []
      | None => match msgs_of (exposed cz d validate reqs (view_str (wt_name t)) p) with
                | [] => []
                | msgs => [(view_str (wt_name t), wfe_partition p, msgs)]
                end
      end) (view_list (wt_partitions t))) (view_list (wr_topics r)).

Lemma fm_map {A B C} (f : B -> list C) (g : A -> B) l : flat_map f (map g l) = flat_map (fun x => f (g x)) l.
Proof. induction l as [|a l IH]; [reflexivity|]. cbn [map flat_map]. rewrite IH. reflexivity. Qed.

Lemma iterate_view_fresp cz d validate (l : list (fetch_tps * w_topics_resp w_fetch_part)) e :
  iterate {| ms_responses := map (fun x => view_fresp cz d validate (fst x) (snd x)) l; ms_empty := e |}
  = flat_map (fun x => sent_items cz d validate (fst x) (snd x)) l.
Proof.
  unfold iterate. cbn [ms_responses]. rewrite fm_map. apply flat_map_ext. intros [reqs r]. cbn [fst snd].
  unfold sent_items, view_fresp. cbn [fr_topics].
  destruct (wr_topics r) as [ts|]; cbn [view_arr view_list]; [|reflexivity].
  rewrite fm_map. apply flat_map_ext. intros t. unfold view_ftopic. cbn [ft_topic ft_partitions].
  destruct (wt_partitions t) as [ps|]; cbn [view_arr view_list]; [|reflexivity].
  rewrite fm_map. apply flat_map_ext. intros p. unfold view_part. cbn [fp_data fp_partition].
  destruct (from_protocol (wfe_error p)); [reflexivity|].
  destruct (msgs_of (exposed cz d validate reqs (view_str (wt_name t)) p)); reflexivity.
Qed.

(* the answer `r` to the request `reqs`, followed by anything, and what Response::from_vec made
   of it *)
Definition reply_decoded (cz : codecs) (d : nat) (validate : bool)
           (x : fetch_tps * w_topics_resp w_fetch_part * bytes) (resp : fetch_resp) : Prop :=
  fetch_from_vec cz d validate (fst (fst x)) (print_fetch (snd (fst x)) ++ snd x) = Ok resp.

(* the hypotheses of C02Extra.C02_response: the answer is well formed and each message set
   decodes (C02_fetch_end_to_end: e.g. any well formed plain / gzip / snappy / nested set below
   the depth bound, cut at any byte) *)
Definition reply_ok (cz : codecs) (d : nat) (validate : bool)
           (x : fetch_tps * w_topics_resp w_fetch_part * bytes) : Prop :=
  wf_fetch (snd (fst x)) /\
  forall t p, In t (view_list (wr_topics (snd (fst x)))) -> In p (view_list (wt_partitions t)) ->
    exists ms, exposed cz d validate (fst (fst x)) (view_str (wt_name t)) p = Ok ms.

Lemma replies_are_views cz d validate l : Forall (reply_ok cz d validate) l ->
  forall rs, Forall2 (reply_decoded cz d validate) l rs ->
  rs = map (fun x => view_fresp cz d validate (fst x) (snd x)) (map fst l).
Proof.
  intros Hok rs HF. induction HF as [|x resp l rs Hx HF IH]; [reflexivity|].
  inversion Hok as [|? ? [Hwf Hdec] Hok']; subst. cbn [map]. rewrite <- (IH Hok'). f_equal.
  unfold reply_decoded in Hx. rewrite (C02_response cz d validate _ _ (snd x) Hwf Hdec) in Hx.
  inversion Hx. reflexivity.
Qed.

(* FORWARD, any number of brokers: broker i answers the request reqs_i with the printed form of
   r_i (any number of topics and partitions; anything may follow it in the buffer).  Then reading
   the result with MessageSets::iter() yields EXACTLY, in the order sent, each non-failed
   partition that exposes messages, with its own partition id, its own messages and the topic name
   the broker wrote in front of it. *)
Theorem C18_iterate_as_sent : forall cz d validate l rs e,
  Forall (reply_ok cz d validate) l -> Forall2 (reply_decoded cz d validate) l rs ->
  iterate {| ms_responses := rs; ms_empty := e |}
  = flat_map (fun x => sent_items cz d validate (fst (fst x)) (snd (fst x))) l.
Proof.
  intros cz d validate l rs e Hok HF. rewrite (replies_are_views _ _ _ _ Hok _ HF).
  rewrite iterate_view_fresp, fm_map. reflexivity.
Qed.

(* ... composed with Consumer::process_fetch_responses (the second half of Consumer::poll): when
   the poll succeeds on those replies, its result iterates to exactly what was sent *)
Theorem C18_poll_iterate_as_sent : forall cz d validate l rs dbg k n ms k',
  Forall (reply_ok cz d validate) l -> Forall2 (reply_decoded cz d validate) l rs ->
  process_fetch_responses dbg k n rs = (Ok ms, k') ->
  iterate ms = flat_map (fun x => sent_items cz d validate (fst (fst x)) (snd (fst x))) l.
Proof.
  intros cz d validate l rs dbg k n ms k' Hok HF H.
  apply C18_poll_keeps_responses in H. rewrite <- (C18_iterate_as_sent _ _ _ _ _ (ms_empty ms) Hok HF).
  rewrite <- H. destruct ms; reflexivity.
Qed.

(* non-vacuity: ONE broker leads partitions of TWO topics (the layout seeded change C18-4 needs):
   "ta" partition 0 (plain set), "tb" partitions 0 (gzip batch) and 1 (error 6), a second broker
   answers for "tc" *)
Definition exd_r1 : w_topics_resp w_fetch_part :=
  {| wr_corr := 1;
     wr_topics := Some [ {| wt_name := Some (tag "ta");
                            wt_partitions := Some [ {| wfe_partition := 0; wfe_error := 0; wfe_highwater := 10;
                                                       wfe_message_set := ser wcomp es3 |} ] |};
                         {| wt_name := Some (tag "tb");
                            wt_partitions := Some [ {| wfe_partition := 0; wfe_error := 0; wfe_highwater := 10;
                                                       wfe_message_set := ser wcomp es_gz |};
                                                    {| wfe_partition := 1; wfe_error := 6; wfe_highwater := -1;
                                                       wfe_message_set := [] |} ] |} ] |}.
Definition exd_r2 : w_topics_resp w_fetch_part :=
  {| wr_corr := 1;
     wr_topics := Some [ {| wt_name := Some (tag "tc");
                            wt_partitions := Some [ {| wfe_partition := 3; wfe_error := 0; wfe_highwater := 10;
                                                       wfe_message_set := ser wcomp es3 |} ] |} ] |}.
Definition exd_reqs1 : fetch_tps := [(tag "ta", [(0, (1, 100))]); (tag "tb", [(0, (2, 100)); (1, (1, 100))])].
Definition exd_reqs2 : fetch_tps := [(tag "tc", [(3, (1, 100))])].
Definition exd_l : list (fetch_tps * w_topics_resp w_fetch_part * bytes) :=
  [ (exd_reqs1, exd_r1, []); (exd_reqs2, exd_r2, [x09]) ].

Lemma exd_wf1 : wf_fetch exd_r1.
Proof. unfold wf_fetch, wf_topics_resp, exd_r1, wf_array, wf_topic, wf_fetch_part,
         wf_string, wf_array, in_i16, in_i32, in_i64; cbn [wr_corr wr_topics]. wf_compute. Qed.
Lemma exd_wf2 : wf_fetch exd_r2.
Proof. unfold wf_fetch, wf_topics_resp, exd_r2, wf_array, wf_topic, wf_fetch_part,
         wf_string, wf_array, in_i16, in_i32, in_i64; cbn [wr_corr wr_topics]. wf_compute. Qed.

Lemma exd_ok : Forall (reply_ok (wcz true) 3 true) exd_l.
Proof.
  unfold exd_l. constructor; [|constructor; [|constructor]]; unfold reply_ok; cbn [fst snd].
  - split; [exact exd_wf1|]. intros t p Ht Hp. cbn [exd_r1 wr_topics view_list In] in Ht.
    destruct Ht as [<-|[<-|[]]]; cbn [wt_partitions view_list In] in Hp.
    + destruct Hp as [<-|[]]. eexists. vm_compute. reflexivity.
    + destruct Hp as [<-|[<-|[]]]; eexists; vm_compute; reflexivity.
  - split; [exact exd_wf2|]. intros t p Ht Hp. cbn [exd_r2 wr_topics view_list In] in Ht.
    destruct Ht as [<-|[]]; cbn [wt_partitions view_list In] in Hp.
    destruct Hp as [<-|[]]. eexists. vm_compute. reflexivity.
Qed.

Example C18_iterate_as_sent_ex :
  exists rs, Forall2 (reply_decoded (wcz true) 3 true) exd_l rs /\
    iterate {| ms_responses := rs; ms_empty := false |}
    = [ (tag "ta", 0, [m1; m2]); (tag "tb", 0, [m2]); (tag "tc", 3, [m1; m2]) ] /\
    flat_map (fun x => sent_items (wcz true) 3 true (fst (fst x)) (snd (fst x))) exd_l
    = [ (tag "ta", 0, [m1; m2]); (tag "tb", 0, [m2]); (tag "tc", 3, [m1; m2]) ].
Proof.
  eexists. split; [|split].
  - constructor; [unfold reply_decoded; vm_compute; reflexivity|].
    constructor; [unfold reply_decoded; vm_compute; reflexivity|constructor].
  - vm_compute. reflexivity.
  - vm_compute. reflexivity.
Qed.

Print Assumptions C18_iterate_each_set_under_its_topic.
Print Assumptions C18_iterate_own_topic.
Print Assumptions C18_iterate_topic_names.
Print Assumptions C18_seed4_mutant_caught.
Print Assumptions C18_fetch_topics_read_in_place.
Print Assumptions C18_topic_record_layout.
Print Assumptions C18_fetch_iterate_topic_as_sent.
Print Assumptions C18_poll_iterate_topic_as_sent.
Print Assumptions C18_iterate_as_sent.
Print Assumptions C18_poll_iterate_as_sent.
