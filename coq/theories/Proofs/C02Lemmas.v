(* C02, part 1: definitions and the byte-level lemmas.
   The broker side is Spec/MsgSetSpec.v (`ser comp es`), the client side is
   Model/Responses.v (`from_slice`).  The theorems are in C02Facts.v. *)
From KV Require Import Base.Prelude Base.Crc32 Base.Snappy Gen.Consts
                       Model.Codecs Model.Requests Model.Responses
                       Spec.MsgSetSpec Proofs.BytesFacts.
From Coq Require Import ZifyBool.

(* ====================================================================== *)
(* generic list facts                                                      *)
(* ====================================================================== *)

Lemma firstn_app_ge {A} (a b : list A) k :
  (length a <= k)%nat -> firstn k (a ++ b) = a ++ firstn (k - length a) b.
Proof. intros H. rewrite firstn_app, firstn_all2 by assumption. reflexivity. Qed.

Lemma firstn_app_lt {A} (a b : list A) k :
  (k <= length a)%nat -> firstn k (a ++ b) = firstn k a.
Proof.
  intros H. rewrite firstn_app. replace (k - length a)%nat with O by lia.
  rewrite firstn_O, app_nil_r. reflexivity.
Qed.

(* in-order sublist *)
Inductive subseq {A} : list A -> list A -> Prop :=
| ss_nil l : subseq [] l
| ss_take x a b : subseq a b -> subseq (x :: a) (x :: b)
| ss_skip x a b : subseq a b -> subseq a (x :: b).

Lemma subseq_refl {A} (l : list A) : subseq l l.
Proof. induction l; constructor; assumption. Qed.

Lemma subseq_app_l {A} (p a b : list A) : subseq a b -> subseq a (p ++ b).
Proof. intros H. induction p; cbn [app]; [assumption|constructor; assumption]. Qed.

Lemma subseq_app_r {A} (a b t : list A) : subseq a b -> subseq a (b ++ t).
Proof. intros H. induction H; cbn [app]; constructor; assumption. Qed.

Lemma subseq_app {A} (a b c d : list A) : subseq a b -> subseq c d -> subseq (a ++ c) (b ++ d).
Proof.
  intros H1 H2. induction H1; cbn [app].
  - apply subseq_app_l. assumption.
  - constructor. assumption.
  - constructor. assumption.
Qed.

Lemma subseq_filter {A} (f : A -> bool) (l : list A) : subseq (filter f l) l.
Proof.
  induction l as [|x l IH]; cbn [filter]; [constructor|].
  destruct (f x); constructor; assumption.
Qed.

Lemma subseq_trans {A} (a b c : list A) : subseq a b -> subseq b c -> subseq a c.
Proof.
  intros H1 H2. revert a H1. induction H2 as [l|x b c H IH|x b c H IH]; intros a0 H1.
  - inversion H1. constructor.
  - inversion H1; subst.
    + constructor.
    + constructor. apply IH. assumption.
    + apply ss_skip. apply IH. assumption.
  - apply ss_skip. apply IH. assumption.
Qed.

(* ====================================================================== *)
(* sizes of the serialised pieces                                          *)
(* ====================================================================== *)

Lemma enc_i8_length z : length (enc_i8 z) = 1%nat.  Proof. apply be_enc_length. Qed.
Lemma enc_i32_length z : length (enc_i32 z) = 4%nat. Proof. apply be_enc_length. Qed.
Lemma enc_i64_length z : length (enc_i64 z) = 8%nat. Proof. apply be_enc_length. Qed.

(* the size field of a message must be an i32: crc 4 + magic 1 + attr 1 + two length
   prefixes 4 + 4 = 14 bytes of overhead plus key and value (a null field counts 0).
   This is the sharp bound; `2^31 - 26` for each of key and value separately would not
   be enough (their sum has to fit). *)
Definition msg_fits (key value : option bytes) : Prop :=
  14 + blen (view_opt key) + blen (view_opt value) <= i32_max.

Lemma ser_opt_length o : length (ser_opt o) = (4 + length (view_opt o))%nat.
Proof.
  destruct o as [b|]; cbn [ser_opt view_opt].
  - rewrite app_length, enc_i32_length. reflexivity.
  - rewrite enc_i32_length. reflexivity.
Qed.

Lemma ser_body_length attr k v :
  length (ser_body attr k v) = (10 + length (view_opt k) + length (view_opt v))%nat.
Proof. unfold ser_body. rewrite !app_length, !ser_opt_length, !enc_i8_length. lia. Qed.

(* the `Message` bytes: what the size field counts *)
Definition msg_bytes (attr : Z) (key value : option bytes) : bytes :=
  enc_i32 (crc32 (ser_body attr key value)) ++ ser_body attr key value.

Lemma msg_bytes_length attr k v :
  length (msg_bytes attr k v) = (14 + length (view_opt k) + length (view_opt v))%nat.
Proof. unfold msg_bytes. rewrite app_length, enc_i32_length, ser_body_length. lia. Qed.

Lemma ser_message_alt off attr k v :
  ser_message off attr k v = enc_i64 off ++ ser_opt (Some (msg_bytes attr k v)).
Proof.
  unfold ser_message, msg_bytes. cbv zeta. cbn [ser_opt]. f_equal. f_equal.
  f_equal. unfold blen. rewrite app_length, enc_i32_length. lia.
Qed.

Lemma ser_message_length off attr k v :
  length (ser_message off attr k v) = (26 + length (view_opt k) + length (view_opt v))%nat.
Proof.
  rewrite ser_message_alt, app_length, enc_i64_length, ser_opt_length. cbn [view_opt].
  rewrite msg_bytes_length. lia.
Qed.

(* ====================================================================== *)
(* reading one entry                                                       *)
(* ====================================================================== *)

Lemma zread_i32_enc_wrap z r : zread_i32 (enc_i32 z ++ r) = Ok (wrap_s 32 z, r).
Proof.
  unfold zread_i32. rewrite zread_app by apply be_enc_length. cbn [bind].
  unfold enc_i32. rewrite be_dec_s_enc_wrap by lia. reflexivity.
Qed.

Lemma zread_bytes_ser_opt o r :
  blen (view_opt o) <= i32_max -> zread_bytes (ser_opt o ++ r) = Ok (view_opt o, r).
Proof.
  intros H. rewrite zread_bytes_unfold. destruct o as [b|]; cbn [ser_opt view_opt] in *.
  - rewrite <- app_assoc.
    rewrite zread_i32_app by (unfold in_i32, blen, i32_max in *; lia). cbn [bind].
    destruct (blen b <=? 0) eqn:E.
    + destruct b as [|x b]; [reflexivity|]. unfold blen in E. cbn [length] in E. lia.
    + destruct (Z.of_nat (length (b ++ r)) <? blen b) eqn:E2.
      { rewrite app_length in E2. unfold blen in E2. lia. }
      apply zread_app. unfold blen. rewrite Nat2Z.id. reflexivity.
  - rewrite zread_i32_app by (unfold in_i32; lia). cbn [bind]. reflexivity.
Qed.

Lemma protocol_message_msg_bytes dbg validate attr k v :
  in_i8 attr -> blen (view_opt k) <= i32_max -> blen (view_opt v) <= i32_max ->
  protocol_message dbg validate (msg_bytes attr k v) = Ok (attr, view_opt k, view_opt v).
Proof.
  intros Ha Hk Hv. unfold protocol_message, msg_bytes.
  rewrite zread_i32_enc_wrap. cbn [bind].
  rewrite Z.eqb_refl. cbn [negb]. rewrite andb_false_r.
  unfold ser_body. rewrite zread_i8_app by (unfold in_i8; lia). cbn [bind].
  change (negb (0 =? 0)) with false. cbv iota.
  rewrite zread_i8_app by assumption. cbn [bind].
  rewrite zread_bytes_ser_opt by assumption. cbn [bind].
  rewrite <- (app_nil_r (ser_opt v)).
  rewrite zread_bytes_ser_opt by assumption. cbn [bind]. reflexivity.
Qed.

(* a complete entry followed by anything is read back exactly; both values of the
   debug flag (no trailing bytes inside the message), both values of `validate`
   (the serialiser writes the right CRC) *)
Lemma next_message_complete : forall dbg validate off attr key value rest,
  in_i64 off -> in_i8 attr -> msg_fits key value ->
  next_message dbg validate (ser_message off attr key value ++ rest)
  = Ok (off, (attr, view_opt key, view_opt value), rest).
Proof.
  intros dbg validate off attr key value rest Ho Ha Hf. unfold msg_fits in Hf.
  assert (Hk : 0 <= blen (view_opt key)) by (unfold blen; lia).
  assert (Hv : 0 <= blen (view_opt value)) by (unfold blen; lia).
  unfold next_message. rewrite ser_message_alt, <- app_assoc.
  rewrite zread_i64_app by assumption. cbn [bind].
  rewrite zread_bytes_ser_opt.
  2:{ cbn [view_opt]. unfold blen in *. rewrite msg_bytes_length. lia. }
  cbn [bind view_opt].
  rewrite protocol_message_msg_bytes by (try assumption; lia).
  reflexivity.
Qed.

(* the 12-byte header argument: every strict prefix of one entry is "not enough data",
   never CorruptMessage, never a shortened message *)
Lemma next_message_cut : forall dbg validate off attr key value k,
  in_i64 off -> msg_fits key value ->
  (k < length (ser_message off attr key value))%nat ->
  next_message dbg validate (firstn k (ser_message off attr key value)) = Err EUnexpectedEOF.
Proof.
  intros dbg validate off attr key value k Ho Hf Hk. unfold msg_fits in Hf.
  rewrite ser_message_length in Hk. rewrite ser_message_alt.
  pose proof (msg_bytes_length attr key value) as HM.
  set (M := msg_bytes attr key value) in *. cbn [ser_opt].
  unfold next_message.
  destruct (Nat.ltb k 8) eqn:E8.
  - apply Nat.ltb_lt in E8. unfold zread_i64. rewrite zread_short; [reflexivity|].
    rewrite firstn_length. lia.
  - apply Nat.ltb_ge in E8.
    rewrite firstn_app_ge by (rewrite enc_i64_length; exact E8). rewrite enc_i64_length.
    rewrite zread_i64_app by assumption. cbn [bind]. rewrite zread_bytes_unfold.
    destruct (Nat.ltb (k - 8) 4) eqn:E4.
    + apply Nat.ltb_lt in E4. unfold zread_i32. rewrite zread_short; [reflexivity|].
      rewrite firstn_length. lia.
    + apply Nat.ltb_ge in E4.
      rewrite firstn_app_ge by (rewrite enc_i32_length; exact E4). rewrite enc_i32_length.
      rewrite zread_i32_app by (unfold in_i32, blen, i32_max in *; lia). cbn [bind].
      destruct (blen M <=? 0) eqn:E0; [unfold blen in E0; lia|].
      destruct (Z.of_nat (length (firstn (k - 8 - 4) M)) <? blen M) eqn:E; [reflexivity|].
      rewrite firstn_length in E. unfold blen in E. lia.
Qed.

(* ====================================================================== *)
(* entries, well-formedness, the expected views                            *)
(* ====================================================================== *)

Definition msg_of (x : Z * bytes * bytes) : message :=
  {| m_offset := fst (fst x); m_key := snd (fst x); m_value := snd x |}.

(* offset >= requested offset *)
Definition qual (req : Z) (x : Z * bytes * bytes) : bool := req <=? fst (fst x).

Definition all_plain (es : list entry) : Prop :=
  forall e, In e es -> exists o k v, e = Plain o k v.

Lemma all_plain_nil : all_plain [].
Proof. intros e []. Qed.

Lemma all_plain_cons e r : all_plain (e :: r) -> (exists o k v, e = Plain o k v) /\ all_plain r.
Proof.
  intros H. split; [apply H; left; reflexivity|].
  intros x Hx. apply H. right. assumption.
Qed.

(* the decompressors undo the broker's compressor.  NB: the snappy clause is restricted to
   inputs below the allocation limit: `xerial_max_alloc` tracks `dst.resize(total so far)`,
   so no stream that decompresses to >= 2^30 bytes can stay below `alloc_limit`, and an
   unrestricted `forall x` would make this definition unsatisfiable (theorems vacuous). *)
Definition codec_ok (cz : codecs) (comp : Z -> bytes -> bytes) : Prop :=
  (forall x, gz_decompress cz (comp 1 x) = Some x) /\
  (forall x, blen x < alloc_limit ->
             xerial_read_to_end (comp 2 x) = Ok x /\ xerial_max_alloc (comp 2 x) < alloc_limit).

(* induction principle for the nested type *)
Section EntryInd.
  Variable P : entry -> Prop.
  Hypothesis HP : forall o k v, P (Plain o k v).
  Hypothesis HW : forall c o inner, Forall P inner -> P (Wrapper c o inner).
  Fixpoint entry_ind' (e : entry) : P e :=
    match e with
    | Plain o k v => HP o k v
    | Wrapper c o inner =>
        HW c o inner ((fix go (l : list entry) : Forall P l :=
                         match l with
                         | [] => Forall_nil P
                         | x :: r => Forall_cons x (entry_ind' x) (go r)
                         end) inner)
    end.
End EntryInd.

Lemma flatten_cons e r : flatten (e :: r) = flatten_entry e ++ flatten r.
Proof. reflexivity. Qed.

Lemma flatten_app a b : flatten (a ++ b) = flatten a ++ flatten b.
Proof. unfold flatten. apply flat_map_app. Qed.

Lemma flatten_entry_wrapper c o inner : flatten_entry (Wrapper c o inner) = flatten inner.
Proof.
  cbn [flatten_entry]. induction inner as [|x r IH]; [reflexivity|].
  rewrite flatten_cons, <- IH. reflexivity.
Qed.

Lemma depth_cons e r : depth (e :: r) = Nat.max (depth_entry e) (depth r).
Proof. reflexivity. Qed.

Lemma depth_entry_wrapper c o inner : depth_entry (Wrapper c o inner) = S (depth inner).
Proof.
  reflexivity.
Qed.

Lemma all_plain_depth es : all_plain es -> depth es = O.
Proof.
  induction es as [|e r IH]; intros H; [reflexivity|].
  apply all_plain_cons in H. destruct H as [[o [k [v ->]]] Hr].
  rewrite depth_cons, (IH Hr). reflexivity.
Qed.

Section WithComp.
  Variable comp : Z -> bytes -> bytes.

  Lemma ser_cons e r : ser comp (e :: r) = ser_entry comp e ++ ser comp r.
  Proof. reflexivity. Qed.

  Lemma ser_entry_plain o k v : ser_entry comp (Plain o k v) = ser_message o 0 k v.
  Proof. reflexivity. Qed.

  Lemma ser_entry_wrapper c off inner :
    ser_entry comp (Wrapper c off inner) = ser_message off c None (Some (comp c (ser comp inner))).
  Proof.
    reflexivity.
  Qed.

  (* Well-formed log entries: offsets are i64; the message size field fits an i32 (see
     msg_fits); a wrapper's codec is gzip (1) or snappy (2), its key is null, its value is the
     compressed inner set, which must fit as well; a snappy batch is smaller than the
     allocation limit before compression; and recursively. *)
  Fixpoint wf_entry (e : entry) : Prop :=
    match e with
    | Plain off k v => in_i64 off /\ msg_fits k v
    | Wrapper c off inner =>
        (c = 1 \/ c = 2) /\ in_i64 off /\
        msg_fits None (Some (comp c (ser comp inner))) /\
        (c = 2 -> blen (ser comp inner) < alloc_limit) /\
        (fix all (l : list entry) : Prop :=
           match l with [] => True | x :: r => wf_entry x /\ all r end) inner
    end.

  Definition wf_entries (es : list entry) : Prop := Forall wf_entry es.

  Lemma wf_entry_wrapper c off inner :
    wf_entry (Wrapper c off inner) <->
    (c = 1 \/ c = 2) /\ in_i64 off /\
    msg_fits None (Some (comp c (ser comp inner))) /\
    (c = 2 -> blen (ser comp inner) < alloc_limit) /\
    wf_entries inner.
  Proof.
    cbn [wf_entry].
    assert (E : (fix all (l : list entry) : Prop :=
                   match l with [] => True | x :: r => wf_entry x /\ all r end) inner
                <-> wf_entries inner).
    { unfold wf_entries. induction inner as [|x r IH].
      - split; [constructor|trivial].
      - split.
        + intros [H1 H2]. constructor; [assumption|apply IH; assumption].
        + intros H. inversion H; subst. split; [assumption|apply IH; assumption]. }
    tauto.
  Qed.

  (* the attributes byte, the key and the value an entry is serialised with *)
  Lemma wf_entry_ser e : wf_entry e ->
    exists off attr key value,
      ser_entry comp e = ser_message off attr key value /\
      in_i64 off /\ msg_fits key value.
  Proof.
    destruct e as [o k v|c o inner]; intros H.
    - destruct H as [H1 H2]. exists o, 0, k, v. auto.
    - apply wf_entry_wrapper in H. destruct H as [_ [H1 [H2 _]]].
      exists o, c, None, (Some (comp c (ser comp inner))).
      rewrite ser_entry_wrapper. auto.
  Qed.

  Lemma ser_entry_length_pos e : (26 <= length (ser_entry comp e))%nat.
  Proof.
    destruct e as [o k v|c o inner].
    - rewrite ser_entry_plain, ser_message_length. lia.
    - rewrite ser_entry_wrapper, ser_message_length. lia.
  Qed.

  (* key lemma: a strict prefix of one serialised entry is never mis-read *)
  Lemma next_message_strict_prefix : forall dbg validate e k,
    wf_entry e -> (k < length (ser_entry comp e))%nat ->
    next_message dbg validate (firstn k (ser_entry comp e)) = Err EUnexpectedEOF.
  Proof.
    intros dbg validate e k Hwf Hk.
    destruct (wf_entry_ser e Hwf) as [off [attr [key [value [E [Ho Hf]]]]]].
    rewrite E in *. apply next_message_cut; assumption.
  Qed.

  (* longest prefix of top-level entries lying entirely within the first k bytes *)
  Fixpoint complete_prefix (es : list entry) (k : nat) : list entry :=
    match es with
    | [] => []
    | e :: r =>
        let n := length (ser_entry comp e) in
        if Nat.leb n k then e :: complete_prefix r (k - n) else []
    end.

  Lemma complete_prefix_all es k : (length (ser comp es) <= k)%nat -> complete_prefix es k = es.
  Proof.
    revert k. induction es as [|e r IH]; intros k H; [reflexivity|].
    rewrite ser_cons, app_length in H. cbn [complete_prefix].
    destruct (Nat.leb (length (ser_entry comp e)) k) eqn:E.
    - rewrite IH by lia. reflexivity.
    - apply Nat.leb_gt in E. lia.
  Qed.

  Lemma complete_prefix_is_prefix es : forall k, exists t, es = complete_prefix es k ++ t.
  Proof.
    induction es as [|e r IH]; intros k; [exists []; reflexivity|].
    cbn [complete_prefix]. destruct (Nat.leb (length (ser_entry comp e)) k).
    - destruct (IH (k - length (ser_entry comp e))%nat) as [t Ht]. exists t.
      cbn [app]. rewrite <- Ht. reflexivity.
    - exists (e :: r). reflexivity.
  Qed.

  (* ====================================================================== *)
  (* the entry loop, one step at a time                                      *)
  (* ====================================================================== *)

  Lemma ms_loop_nil inner dbg validate req fuel acc :
    ms_loop inner dbg validate req fuel [] acc = Ok (rev acc).
  Proof. destruct fuel; reflexivity. Qed.

  Lemma ms_loop_eof inner dbg validate req f bs acc :
    next_message dbg validate bs = Err EUnexpectedEOF ->
    ms_loop inner dbg validate req (S f) bs acc = Ok (rev acc).
  Proof.
    intros H. destruct bs as [|b bs]; [reflexivity|].
    cbn [ms_loop]. rewrite H. reflexivity.
  Qed.

  Lemma ms_loop_plain_step inner dbg validate req f bs acc off k v r :
    bs <> [] ->
    next_message dbg validate bs = Ok (off, (0, k, v), r) ->
    ms_loop inner dbg validate req (S f) bs acc
    = ms_loop inner dbg validate req f r
              (if req <=? off then {| m_offset := off; m_key := k; m_value := v |} :: acc else acc).
  Proof.
    intros Hne H. destruct bs as [|b bs]; [congruence|].
    cbn [ms_loop]. rewrite H. reflexivity.
  Qed.

  Lemma ms_loop_wrapper_step inner dbg validate req f bs acc off c k v r :
    bs <> [] -> c = 1 \/ c = 2 ->
    next_message dbg validate bs = Ok (off, (c, k, v), r) ->
    ms_loop inner dbg validate req (S f) bs acc = inner c v.
  Proof.
    intros Hne Hc H. destruct bs as [|b bs]; [congruence|].
    cbn [ms_loop]. rewrite H. destruct Hc as [-> | ->]; reflexivity.
  Qed.

  Lemma ser_entry_nonempty e rest : ser_entry comp e ++ rest <> [].
  Proof.
    intros H. apply (f_equal (@length byte)) in H. rewrite app_length in H.
    pose proof (ser_entry_length_pos e). cbn [length] in H. lia.
  Qed.

  (* the first entry is cut: the loop stops silently with what it has *)
  Lemma ms_loop_cut inner dbg validate req f e r k acc :
    wf_entry e -> (k < length (ser_entry comp e))%nat ->
    ms_loop inner dbg validate req (S f) (firstn k (ser comp (e :: r))) acc = Ok (rev acc).
  Proof.
    intros Hwf Hk. rewrite ser_cons, firstn_app_lt by lia.
    apply ms_loop_eof. apply next_message_strict_prefix; assumption.
  Qed.

  (* ====================================================================== *)
  (* the plain loop                                                          *)
  (* ====================================================================== *)

  Lemma ms_loop_plain inner dbg validate req : forall es k fuel acc,
    all_plain es -> wf_entries es ->
    (length (firstn k (ser comp es)) < fuel)%nat ->
    ms_loop inner dbg validate req fuel (firstn k (ser comp es)) acc
    = Ok (rev acc ++ map msg_of (filter (qual req) (flatten (complete_prefix es k)))).
  Proof.
    induction es as [|e r IH]; intros k fuel acc Hp Hwf Hfuel.
    - unfold ser. cbn [flat_map]. rewrite firstn_nil, ms_loop_nil.
      cbn [complete_prefix flatten flat_map filter map]. rewrite app_nil_r. reflexivity.
    - apply all_plain_cons in Hp. destruct Hp as [[o [key [v ->]]] Hpr].
      inversion Hwf as [|x l Hwe Hwr]; subst.
      destruct fuel as [|f]; [lia|].
      cbn [complete_prefix].
      destruct (Nat.leb (length (ser_entry comp (Plain o key v))) k) eqn:E.
      + apply Nat.leb_le in E. destruct Hwe as [Ho Hf].
        rewrite ser_cons in *. rewrite firstn_app_ge in * by exact E.
        rewrite app_length in Hfuel.
        rewrite (ms_loop_plain_step inner dbg validate req f _ acc o (view_opt key) (view_opt v)
                   (firstn (k - length (ser_entry comp (Plain o key v))) (ser comp r))).
        2:{ apply ser_entry_nonempty. }
        2:{ rewrite ser_entry_plain. apply next_message_complete; try assumption.
            unfold in_i8. lia. }
        rewrite IH; try assumption.
        2:{ pose proof (ser_entry_length_pos (Plain o key v)). lia. }
        rewrite flatten_cons. cbn [flatten_entry app filter]. change (qual req (o, view_opt key, view_opt v)) with (req <=? o).
        destruct (req <=? o).
        * cbn [rev map]. rewrite <- app_assoc. reflexivity.
        * reflexivity.
      + apply Nat.leb_gt in E. rewrite ms_loop_cut by assumption.
        cbn [flatten flat_map filter map]. rewrite app_nil_r. reflexivity.
  Qed.

  (* ====================================================================== *)
  (* the decompressing step                                                  *)
  (* ====================================================================== *)

  Definition inner_of (cz : codecs) (d : nat) (validate : bool) (req : Z)
    : Z -> bytes -> res (list message) :=
    fun c v =>
      if c =? COMPRESSION_GZIP then
        match gz_decompress cz v with
        | Some data => from_slice cz d validate req data
        | None => Err (EIo IoOther)
        end
      else if alloc_limit <=? xerial_max_alloc v then alloc_panic
      else
        let* data := xerial_read_to_end v in
        from_slice cz d validate req data.

  Lemma from_slice_S cz d validate req bs :
    from_slice cz (S d) validate req bs
    = ms_loop (inner_of cz d validate req) (debug_build cz) validate req (S (length bs)) bs [].
  Proof. reflexivity. Qed.

  Lemma inner_of_comp cz d validate req c x :
    codec_ok cz comp -> c = 1 \/ c = 2 -> (c = 2 -> blen x < alloc_limit) ->
    inner_of cz d validate req c (comp c x) = from_slice cz d validate req x.
  Proof.
    intros [Hgz Hsn] [-> | ->] Hx; unfold inner_of.
    - change (1 =? COMPRESSION_GZIP) with true. cbv iota. rewrite Hgz. reflexivity.
    - change (2 =? COMPRESSION_GZIP) with false. cbv iota.
      destruct (Hsn x (Hx eq_refl)) as [H1 H2].
      destruct (alloc_limit <=? xerial_max_alloc (comp 2 x)) eqn:E; [lia|].
      rewrite H1. reflexivity.
  Qed.

  (* a complete wrapper at the head of the set: the loop returns the decoded inner set *)
  Lemma from_slice_wrapper_head cz d validate req c off inner rest k :
    codec_ok cz comp -> wf_entry (Wrapper c off inner) ->
    (length (ser_entry comp (Wrapper c off inner)) <= k)%nat ->
    from_slice cz (S d) validate req (firstn k (ser comp (Wrapper c off inner :: rest)))
    = from_slice cz d validate req (ser comp inner).
  Proof.
    intros Hc Hwf Hk. pose proof Hwf as Hwf'. apply wf_entry_wrapper in Hwf'.
    destruct Hwf' as [Hcc [Ho [Hf [Hal Hin]]]].
    rewrite from_slice_S, ser_cons, firstn_app_ge by exact Hk.
    rewrite (ms_loop_wrapper_step _ _ _ _ _ _ _ off c [] (comp c (ser comp inner))
               (firstn (k - length (ser_entry comp (Wrapper c off inner))) (ser comp rest))).
    - apply inner_of_comp; assumption.
    - apply ser_entry_nonempty.
    - assumption.
    - rewrite ser_entry_wrapper.
      rewrite next_message_complete; try assumption; [reflexivity|].
      unfold in_i8. destruct Hcc; lia.
  Qed.

  Lemma from_slice_wrapper_cut cz d validate req c off inner rest k :
    wf_entry (Wrapper c off inner) ->
    (k < length (ser_entry comp (Wrapper c off inner)))%nat ->
    from_slice cz (S d) validate req (firstn k (ser comp (Wrapper c off inner :: rest))) = Ok [].
  Proof.
    intros Hwf Hk. rewrite from_slice_S, ms_loop_cut by assumption. reflexivity.
  Qed.

  Lemma from_slice_plain cz d validate req es k :
    all_plain es -> wf_entries es ->
    from_slice cz (S d) validate req (firstn k (ser comp es))
    = Ok (map msg_of (filter (qual req) (flatten (complete_prefix es k)))).
  Proof.
    intros Hp Hwf. rewrite from_slice_S, ms_loop_plain by (try assumption; lia). reflexivity.
  Qed.

  (* ====================================================================== *)
  (* sets whose wrappers sit at the head: what the decoder exposes           *)
  (* ====================================================================== *)

  (* the messages of the innermost set reached by following head wrappers *)
  Fixpoint chain_entry (e : entry) : list (Z * bytes * bytes) :=
    match e with
    | Plain o k v => [(o, view_opt k, view_opt v)]
    | Wrapper _ _ inner =>
        match inner with
        | (Wrapper _ _ _ as x) :: _ => chain_entry x
        | _ => flatten inner
        end
    end.

  Definition chain_msgs (es : list entry) (k : nat) : list (Z * bytes * bytes) :=
    match es with
    | (Wrapper _ _ _ as x) :: _ =>
        if Nat.leb (length (ser_entry comp x)) k then chain_entry x else []
    | _ => flatten (complete_prefix es k)
    end.

  Inductive first_chain : list entry -> Prop :=
  | FC_plain es : all_plain es -> first_chain es
  | FC_wrap c o inner rest : first_chain inner -> first_chain (Wrapper c o inner :: rest).

  (* the class with the known defect (fetch.rs:421-431): some wrapper occurs at an
     index > 0 of the set or sub-set it belongs to *)
  Inductive Known : list entry -> Prop :=
  | Known_late e r c o inner : In (Wrapper c o inner) r -> Known (e :: r)
  | Known_deep c o inner es : In (Wrapper c o inner) es -> Known inner -> Known es.

  Lemma chain_msgs_plain es k : all_plain es -> chain_msgs es k = flatten (complete_prefix es k).
  Proof.
    intros H. destruct es as [|e r]; [reflexivity|].
    apply all_plain_cons in H. destruct H as [[o [key [v ->]]] _]. reflexivity.
  Qed.

  Lemma chain_entry_wrapper c o inner :
    chain_entry (Wrapper c o inner) = chain_msgs inner (length (ser comp inner)).
  Proof.
    destruct inner as [|[o' k' v'|c' o' inner'] r].
    - reflexivity.
    - cbn [chain_entry]. unfold chain_msgs. rewrite complete_prefix_all by lia. reflexivity.
    - cbn [chain_entry]. unfold chain_msgs.
      destruct (Nat.leb (length (ser_entry comp (Wrapper c' o' inner')))
                        (length (ser comp (Wrapper c' o' inner' :: r)))) eqn:E; [reflexivity|].
      apply Nat.leb_gt in E. rewrite ser_cons, app_length in E. lia.
  Qed.

  Lemma not_Known_first_chain es : ~ Known es -> first_chain es.
  Proof.
    assert (Hplain : forall l, (forall c o i, ~ In (Wrapper c o i) l) -> all_plain l).
    { intros l H e He. destruct e as [o k v|c o i]; [eauto|]. exfalso. eapply H. exact He. }
    assert (Hstep : forall l,
               Forall (fun e => match e with
                                | Plain _ _ _ => True
                                | Wrapper _ _ i => ~ Known i -> first_chain i
                                end) l ->
               ~ Known l -> first_chain l).
    { intros l HF HK. destruct l as [|e r]; [apply FC_plain, all_plain_nil|].
      assert (Hr : all_plain r).
      { apply Hplain. intros c o i Hi. apply HK. eapply Known_late. exact Hi. }
      destruct e as [o k v|c o i].
      - apply FC_plain. intros x [<-|Hx]; [eauto|apply Hr; assumption].
      - apply FC_wrap. inversion HF as [|x l' Hx Hl]; subst. apply Hx.
        intros Hi. apply HK. eapply Known_deep; [left; reflexivity|exact Hi]. }
    intros HK. apply Hstep; [|assumption].
    apply Forall_forall. intros e _. revert e.
    apply entry_ind'; [trivial|]. intros c o inner HF. apply Hstep. assumption.
  Qed.

  (* exactly what a decoder with enough depth exposes for a head-chain set *)
  Lemma from_slice_chain cz validate req : codec_ok cz comp ->
    forall fuel es k, first_chain es -> wf_entries es -> (depth es < fuel)%nat ->
    from_slice cz fuel validate req (firstn k (ser comp es))
    = Ok (map msg_of (filter (qual req) (chain_msgs es k))).
  Proof.
    intros Hc. induction fuel as [|d IH]; intros es k Hfc Hwf Hd; [lia|].
    destruct Hfc as [es Hp|c o inner rest Hin].
    - rewrite chain_msgs_plain by assumption. apply from_slice_plain; assumption.
    - inversion Hwf as [|x l Hwe Hwr]; subst.
      rewrite depth_cons, depth_entry_wrapper in Hd.
      unfold chain_msgs.
      destruct (Nat.leb (length (ser_entry comp (Wrapper c o inner))) k) eqn:E.
      + apply Nat.leb_le in E. rewrite from_slice_wrapper_head by assumption.
        rewrite chain_entry_wrapper.
        rewrite <- (firstn_all (ser comp inner)) at 1.
        apply IH; [assumption| |lia].
        apply wf_entry_wrapper in Hwe. tauto.
      + apply Nat.leb_gt in E. rewrite from_slice_wrapper_cut by assumption. reflexivity.
  Qed.

  (* the exposed run is a prefix of the complete messages (no gap, nothing invented) *)
  Lemma chain_entry_prefix : forall e, exists t, flatten_entry e = chain_entry e ++ t.
  Proof.
    apply entry_ind'.
    - intros o k v. exists []. reflexivity.
    - intros c o inner HF. rewrite flatten_entry_wrapper. cbn [chain_entry].
      destruct inner as [|[o' k' v'|c' o' inner'] r].
      + exists []. reflexivity.
      + exists []. rewrite app_nil_r. reflexivity.
      + inversion HF as [|x l Hx Hl]; subst. destruct Hx as [t Ht].
        exists (t ++ flatten r). rewrite flatten_cons, Ht, app_assoc. reflexivity.
  Qed.

  Lemma chain_msgs_prefix es k : exists t, flatten (complete_prefix es k) = chain_msgs es k ++ t.
  Proof.
    destruct es as [|[o' k' v'|c' o' inner'] r].
    - exists []. reflexivity.
    - exists []. rewrite app_nil_r. reflexivity.
    - unfold chain_msgs. cbn [complete_prefix].
      destruct (Nat.leb (length (ser_entry comp (Wrapper c' o' inner'))) k).
      + destruct (chain_entry_prefix (Wrapper c' o' inner')) as [t Ht].
        eexists. rewrite flatten_cons, Ht, <- app_assoc. reflexivity.
      + exists []. reflexivity.
  Qed.

End WithComp.
